(* C08: what a table witness is made of.  Every element of a satisfaction / dissatisfaction the
   specification's table builds from the assets A is one of: the empty vector, [1], 32 zero bytes,
   a public key of the key table, a signature held in A, a preimage held in A.  Hence a world that
   can produce those elements ([closed_world]) realises A: its table witnesses are "over" it. *)
From Coq Require Import List Bool NArith ZArith Lia Permutation.
From Verif Require Import Exec Ser PolicyVal PolicyValProofs TheoremA PolicyValSat PolicyValSpend PolicyValExec.
Import ListNotations.

Section Material.
  Variable ke : keyenv.
  Variable A : assets.

  Definition mat (x : bytes) : Prop :=
    x = [] \/ x = [1%N] \/ x = zeros32 \/ (exists k, x = kb ke k) \/ (exists k, a_sig A k = Some x)
    \/ (exists h, a_sha256 A h = Some x \/ a_hash256 A h = Some x \/ a_ripemd160 A h = Some x \/ a_hash160 A h = Some x).
  Definition allmat (l : list wit) : Prop := forall w, In w l -> Forall mat w.

  Lemma allmat_nil : allmat []. Proof. intros w []. Qed.
  Lemma allmat_one w : Forall mat w -> allmat [w]. Proof. intros H x [<-|[]]. exact H. Qed.
  Lemma allmat_app a b : allmat a -> allmat b -> allmat (a ++ b).
  Proof. intros Ha Hb w Hw. apply in_app_or in Hw as [H|H]; [apply Ha | apply Hb]; exact H. Qed.
  Lemma allmat_cross a b : allmat a -> allmat b -> allmat (cross a b).
  Proof.
    intros Ha Hb w Hw. apply in_cross in Hw as (x & y & Hx & Hy & ->). apply Forall_app. split; [apply Ha | apply Hb]; assumption.
  Qed.
  Lemma allmat_map_cons x l : mat x -> allmat l -> allmat (map (cons x) l).
  Proof. intros Hx Hl w Hw. apply in_map_iff in Hw as (y & <- & Hy). constructor; [exact Hx | apply Hl; exact Hy]. Qed.

  Lemma m_nil : mat []. Proof. left; reflexivity. Qed.
  Lemma m_one : mat [1%N]. Proof. right; left; reflexivity. Qed.
  Lemma m_zeros : mat zeros32. Proof. right; right; left; reflexivity. Qed.
  Lemma m_key k : mat (kb ke k). Proof. right; right; right; left; eauto. Qed.
  Lemma m_sig k s : a_sig A k = Some s -> mat s. Proof. intro H. right; right; right; right; left; eauto. Qed.

  Lemma allmat_thresh_comb cs : (forall c, In c cs -> allmat (fst c) /\ allmat (snd c)) ->
    forall k, allmat (thresh_comb k cs).
  Proof.
    induction cs as [|[s d] r IH]; intros H k.
    - destruct k; cbn; [apply allmat_one; constructor | apply allmat_nil].
    - cbn [thresh_comb]. destruct (H (s, d) (or_introl eq_refl)) as [Hs Hd]. cbn [fst snd] in *.
      assert (Hr : forall c, In c r -> allmat (fst c) /\ allmat (snd c)) by (intros; apply H; right; assumption).
      apply allmat_app.
      + destruct k; [apply allmat_nil | apply allmat_cross; [exact Hs | apply IH; exact Hr]].
      + apply allmat_cross; [exact Hd | apply IH; exact Hr].
  Qed.

  Lemma pick_sigs_mat ks : forall k sigs, In sigs (pick_sigs A k ks) -> Forall mat sigs.
  Proof.
    induction ks as [|key r IH]; intros k sigs H; cbn [pick_sigs] in H.
    - destruct k; [destruct H as [<-|[]]; constructor | destruct H].
    - apply in_app_or in H as [H|H]; [|apply (IH k sigs H)].
      destruct k as [|k']; [destruct H|]. destruct (a_sig A key) as [sg|] eqn:E; [|destruct H].
      apply in_map_iff in H as (y & <- & Hy). constructor; [apply (m_sig key sg E) | apply (IH k' y Hy)].
  Qed.
  Lemma pick_sigs_a_mat ks : forall k w, In w (pick_sigs_a A k ks) -> Forall mat w.
  Proof.
    induction ks as [|key r IH]; intros k w H; cbn [pick_sigs_a] in H.
    - destruct k; [destruct H as [<-|[]]; constructor | destruct H].
    - apply in_app_or in H as [H|H].
      + destruct k as [|k']; [destruct H|]. destruct (a_sig A key) as [sg|] eqn:E; [|destruct H].
        apply in_map_iff in H as (y & <- & Hy). constructor; [apply (m_sig key sg E) | apply (IH k' y Hy)].
      + apply in_map_iff in H as (y & <- & Hy). constructor; [apply m_nil | apply (IH k y Hy)].
  Qed.

  Lemma repeat_mat n : Forall mat (repeat [] n).
  Proof. induction n; cbn; constructor; [apply m_nil | assumption]. Qed.

  Lemma hash_mat look h :
    (forall p, look h = Some p -> mat p) -> allmat (fst (hash_sd look h)) /\ allmat (snd (hash_sd look h)).
  Proof.
    intro Hp. unfold hash_sd; cbn [fst snd]. split.
    - destruct (look h) as [p|] eqn:E; cbn; [apply allmat_one; constructor; [apply Hp; reflexivity | constructor] | apply allmat_nil].
    - apply allmat_one. constructor; [apply m_zeros | constructor].
  Qed.

  Theorem table_material : forall m, allmat (fst (sd ke A m)) /\ allmat (snd (sd ke A m)).
  Proof.
    induction m using ms_ind'.
    - cbn. split; [apply allmat_one; constructor | apply allmat_nil].
    - cbn. split; [apply allmat_nil | apply allmat_one; constructor].
    - cbn [sd fst snd]. split.
      + destruct (a_sig A k) as [s|] eqn:E; cbn; [apply allmat_one; constructor; [apply (m_sig k s E) | constructor] | apply allmat_nil].
      + apply allmat_one. constructor; [apply m_nil | constructor].
    - cbn [sd fst snd]. split.
      + destruct (a_sig A k) as [s|] eqn:E; cbn; [|apply allmat_nil].
        apply allmat_one. constructor; [apply m_key|]. constructor; [apply (m_sig k s E) | constructor].
      + apply allmat_one. constructor; [apply m_key|]. constructor; [apply m_nil | constructor].
    - cbn. split; apply allmat_nil.
    - cbn [sd fst snd]. split; [destruct (a_after A t); [apply allmat_one; constructor | apply allmat_nil] | apply allmat_nil].
    - cbn [sd fst snd]. split; [destruct (a_older A t); [apply allmat_one; constructor | apply allmat_nil] | apply allmat_nil].
    - cbn [sd]. apply hash_mat. intros p Hp. right; right; right; right; right. exists h. auto.
    - cbn [sd]. apply hash_mat. intros p Hp. right; right; right; right; right. exists h. auto.
    - cbn [sd]. apply hash_mat. intros p Hp. right; right; right; right; right. exists h. auto.
    - cbn [sd]. apply hash_mat. intros p Hp. right; right; right; right; right. exists h. auto.
    - cbn [sd]. exact IHm.
    - cbn [sd]. exact IHm.
    - cbn [sd]. exact IHm.
    - cbn [sd fst snd]. destruct IHm as [Is _]. split; [apply allmat_map_cons; [apply m_one | exact Is] | apply allmat_one; constructor; [apply m_nil | constructor]].
    - cbn [sd fst snd]. destruct IHm as [Is _]. split; [exact Is | apply allmat_nil].
    - cbn [sd fst snd]. destruct IHm as [Is _]. split; [exact Is | apply allmat_one; constructor; [apply m_nil | constructor]].
    - cbn [sd]. exact IHm.
    - rewrite (sd_andv ke A). cbn [fst snd]. destruct IHm1, IHm2. split; apply allmat_cross; assumption.
    - rewrite (sd_andb ke A). cbn [fst snd]. destruct IHm1, IHm2. split; apply allmat_cross; assumption.
    - rewrite (sd_andor ke A). cbn [fst snd]. destruct IHm1, IHm2, IHm3.
      split; [apply allmat_app|]; apply allmat_cross; assumption.
    - rewrite (sd_orb ke A). cbn [fst snd]. destruct IHm1, IHm2.
      split; [apply allmat_app|]; apply allmat_cross; assumption.
    - rewrite (sd_ord ke A). cbn [fst snd]. destruct IHm1, IHm2.
      split; [apply allmat_app; [assumption|]|]; apply allmat_cross; assumption.
    - rewrite (sd_orc ke A). cbn [fst snd]. destruct IHm1, IHm2.
      split; [apply allmat_app; [assumption | apply allmat_cross; assumption] | apply allmat_nil].
    - rewrite (sd_ori ke A). cbn [fst snd]. destruct IHm1, IHm2.
      split; apply allmat_app; apply allmat_map_cons; try assumption; try apply m_one; apply m_nil.
    - rewrite (sd_thresh ke A). cbn [fst snd].
      assert (Hc : forall c, In c (map (sd ke A) xs) -> allmat (fst c) /\ allmat (snd c)).
      { intros c Hc. apply in_map_iff in Hc as (x & <- & Hx). rewrite Forall_forall in H. apply (H x Hx). }
      split; apply allmat_thresh_comb; exact Hc.
    - cbn [sd fst snd]. split.
      + intros w Hw. apply in_map_iff in Hw as (sigs & <- & Hs). apply Forall_app. split.
        * apply Forall_rev. apply (pick_sigs_mat ks _ sigs Hs).
        * constructor; [apply m_nil | constructor].
      + apply allmat_one. apply repeat_mat.
    - cbn [sd fst snd]. split.
      + intros w Hw. apply in_map_iff in Hw as (sigs & <- & Hs). apply Forall_app. split.
        * apply Forall_rev. apply (pick_sigs_mat (ksort ke ks) _ sigs Hs).
        * constructor; [apply m_nil | constructor].
      + apply allmat_one. apply repeat_mat.
    - cbn [sd fst snd]. split; [intros w Hw; apply (pick_sigs_a_mat ks _ w Hw) | apply allmat_one; apply repeat_mat].
    - cbn [sd fst snd]. split; [intros w Hw; apply (pick_sigs_a_mat (ksort ke ks) _ w Hw) | apply allmat_one; apply repeat_mat].
  Qed.
End Material.

(* a world that can produce everything the assets hold (and the public constants) *)
Definition closed_world (e : env) (ke : keyenv) (A : assets) (W : world) : Prop :=
  forall x, mat ke A x -> holds e ke W x.

Theorem realizes_closed e ke A W m :
  assets_ok e ke A -> assets_match A W -> closed_world e ke A W -> realizes e ke A W m.
Proof.
  intros HA HM HC. split; [exact HA|]. split; [exact HM|].
  intros w Hw x Hx. apply HC. destruct (table_material ke A m) as [Hs _].
  specialize (Hs w Hw). rewrite Forall_forall in Hs. apply Hs. exact Hx.
Qed.

Lemma vliftable_no_multi : forall m, vliftable m -> no_multi m.
Proof.
  induction m using ms_ind'; cbn [no_multi vliftable]; intro Hl; try exact I; try tauto.
  all: induction H as [|x r Hx Hr IH]; [exact I|]; destruct Hl as [H1 H2]; split; [apply Hx; exact H1 | apply IH; exact H2].
Qed.

(* the C07 statement in both directions, at the level of the lifted policy of any well-typed B
   fragment: lifted policy true in W  <=>  some stack over W's material is accepted *)
Theorem lift_iff_spendable e ke A W m t :
  env_ok e ke -> (forall kbs, e_sigok e kbs [] = false) -> locks_sound e W ->
  type_of m = ROk t -> c_base (t_corr t) = BB -> wf e ke m -> vliftable m ->
  realizes e ke A W m ->
  (evals W (lift_ms m) = true <-> exists w, over e ke W w /\ accepts e (enc ke m) w = true).
Proof.
  intros (Hk & Hh & Hi & Hs) Hse Hlk Ht Hb Hwf Hl (HA & HAW & Hov). split.
  - intro He. destruct (lifted_true_spendable e ke A W m t HA Hse HAW Hs Ht Hb Hwf (vliftable_no_multi m Hl) He) as (w & Hin & Ha).
    exists w. split; [apply Hov; exact Hin | exact Ha].
  - intros (w & Ho & Ha). apply (accepted_lift e ke W Hk Hh Hi Hs Hlk m t w Ht Hb Hwf Hl Ha Ho).
Qed.

(* validated compilation, world closed under what the assets hold: the iff without [realizes] *)
Theorem validated_policy_iff_spendable_closed e ke A W c kk pol m att :
  validate_compilation c kk pol m att = true ->
  env_ok e ke -> (forall kbs, e_sigok e kbs [] = false) -> locks_sound e W -> wf e ke m ->
  assets_ok e ke A -> assets_match A W -> closed_world e ke A W ->
  (evalc W pol = true <-> exists w, over e ke W w /\ accepts e (enc ke m) w = true).
Proof.
  intros Hv He Hse Hlk Hwf HA HM HC.
  apply (validated_policy_iff_spendable e ke A W c kk pol m att Hv He Hse Hlk Hwf (realizes_closed e ke A W m HA HM HC)).
Qed.
