(* Proofs about the model of the descriptor wrappers (C16), part 1: push encodings, the
   standard templates, mutual consistency of the script functions. *)
From Coq Require Import List Bool NArith Lia Arith.
Import ListNotations.
From Verif Require Import DescWrapModel.
Local Open Scope N_scope.

Arguments N.add : simpl never. Arguments N.mul : simpl never. Arguments N.div : simpl never.
Arguments N.modulo : simpl never. Arguments N.ltb : simpl never. Arguments N.leb : simpl never.
Arguments N.eqb : simpl never. Arguments N.of_nat : simpl never. Arguments N.to_nat : simpl never.

(* ------------------------------------------------------------------ push encodings *)
Lemma split_at_app : forall (d rest : bytes), split_at (length d) (d ++ rest) = Some (d, rest).
Proof.
  induction d as [|x d IH]; intros rest; cbn [split_at length app]; [reflexivity|].
  rewrite IH. reflexivity.
Qed.

Lemma split_at_blen : forall (d rest : bytes), split_at (N.to_nat (blen d)) (d ++ rest) = Some (d, rest).
Proof. intros. unfold blen. rewrite Nnat.Nat2N.id. apply split_at_app. Qed.

(* the four forms, with the exact size thresholds 75 / 255 / 65535 *)
Lemma push_slice_direct : forall d, blen d <= 75 -> push_slice d = blen d :: d.
Proof.
  intros d H. unfold push_slice, push_prefix.
  destruct (N.ltb_spec (blen d) 76); [reflexivity | lia].
Qed.
Lemma push_slice_pushdata1 : forall d, 76 <= blen d <= 255 -> push_slice d = 76 :: blen d :: d.
Proof.
  intros d H. unfold push_slice, push_prefix.
  destruct (N.ltb_spec (blen d) 76); [lia|].
  destruct (N.ltb_spec (blen d) 256); [reflexivity | lia].
Qed.
Lemma push_slice_pushdata2 : forall d, 256 <= blen d <= 65535 ->
  push_slice d = 77 :: blen d mod 256 :: blen d / 256 :: d.
Proof.
  intros d H. unfold push_slice, push_prefix.
  destruct (N.ltb_spec (blen d) 76); [lia|].
  destruct (N.ltb_spec (blen d) 256); [lia|].
  destruct (N.ltb_spec (blen d) 65536); [reflexivity | lia].
Qed.
Lemma push_slice_pushdata4 : forall d, 65536 <= blen d ->
  push_slice d = 78 :: blen d mod 256 :: (blen d / 256) mod 256 :: (blen d / 65536) mod 256 :: blen d / 16777216 :: d.
Proof.
  intros d H. unfold push_slice, push_prefix.
  destruct (N.ltb_spec (blen d) 76); [lia|].
  destruct (N.ltb_spec (blen d) 256); [lia|].
  destruct (N.ltb_spec (blen d) 65536); [lia | reflexivity].
Qed.

Lemma le4_recompose : forall n,
  n mod 256 + 256 * ((n / 256) mod 256) + 65536 * ((n / 65536) mod 256) + 16777216 * (n / 16777216) = n.
Proof.
  intros n.
  assert (E1 : n / 65536 = n / 256 / 256) by (rewrite N.div_div by lia; reflexivity).
  assert (E2 : n / 16777216 = n / 256 / 256 / 256) by (rewrite !N.div_div by lia; reflexivity).
  rewrite E1, E2.
  pose proof (N.div_mod n 256 ltac:(lia)).
  pose proof (N.div_mod (n / 256) 256 ltac:(lia)).
  pose proof (N.div_mod (n / 256 / 256) 256 ltac:(lia)).
  lia.
Qed.

Theorem push_roundtrip : forall d rest, blen d < 4294967296 ->
  parse_push (push_slice d ++ rest) = Some (d, rest).
Proof.
  intros d rest Hlen.
  destruct (N.le_gt_cases (blen d) 75) as [H|H].
  { rewrite push_slice_direct by assumption. cbn [app parse_push].
    destruct (N.ltb_spec (blen d) 76); [|lia]. apply split_at_blen. }
  destruct (N.le_gt_cases (blen d) 255) as [H1|H1].
  { rewrite push_slice_pushdata1 by lia. cbn [app parse_push].
    change (N.ltb 76 76) with false. change (N.eqb 76 76) with true. cbn iota. apply split_at_blen. }
  destruct (N.le_gt_cases (blen d) 65535) as [H2|H2].
  { rewrite push_slice_pushdata2 by lia. cbn [app parse_push].
    change (N.ltb 77 76) with false. change (N.eqb 77 76) with false. change (N.eqb 77 77) with true. cbn iota.
    replace (blen d mod 256 + 256 * (blen d / 256)) with (blen d)
      by (pose proof (N.div_mod (blen d) 256 ltac:(lia)); lia).
    apply split_at_blen. }
  rewrite push_slice_pushdata4 by lia. cbn [app parse_push].
  change (N.ltb 78 76) with false. change (N.eqb 78 76) with false. change (N.eqb 78 77) with false.
  change (N.eqb 78 78) with true. cbn iota.
  rewrite le4_recompose. apply split_at_blen.
Qed.

Theorem push_minimal : forall d rest, blen d < 4294967296 ->
  minimal_prefix (push_slice d ++ rest) = true.
Proof.
  intros d rest Hlen.
  destruct (N.le_gt_cases (blen d) 75) as [H|H].
  { rewrite push_slice_direct by assumption. cbn [app minimal_prefix].
    destruct (N.ltb_spec (blen d) 76); [reflexivity|lia]. }
  destruct (N.le_gt_cases (blen d) 255) as [H1|H1].
  { rewrite push_slice_pushdata1 by lia. cbn [app minimal_prefix].
    change (N.ltb 76 76) with false. change (N.eqb 76 76) with true. cbn iota.
    apply N.leb_le. lia. }
  destruct (N.le_gt_cases (blen d) 65535) as [H2|H2].
  { rewrite push_slice_pushdata2 by lia. cbn [app minimal_prefix].
    change (N.ltb 77 76) with false. change (N.eqb 77 76) with false. change (N.eqb 77 77) with true. cbn iota.
    apply N.leb_le. pose proof (N.div_mod (blen d) 256 ltac:(lia)). lia. }
  rewrite push_slice_pushdata4 by lia. cbn [app minimal_prefix].
  change (N.ltb 78 76) with false. change (N.eqb 78 76) with false. change (N.eqb 78 77) with false.
  change (N.eqb 78 78) with true. cbn iota.
  apply N.leb_le. rewrite le4_recompose. lia.
Qed.

(* pushes are uniquely decodable: a script that starts with a push determines data and rest *)
Theorem push_slice_inj : forall d d' r r', blen d < 4294967296 -> blen d' < 4294967296 ->
  push_slice d ++ r = push_slice d' ++ r' -> d = d' /\ r = r'.
Proof.
  intros d d' r r' H H' E.
  pose proof (push_roundtrip d r H) as P. rewrite E, push_roundtrip in P by assumption.
  inversion P. auto.
Qed.

(* every byte of the length prefix is a byte *)
Definition is_bytes (b : bytes) : Prop := Forall (fun x => x < 256) b.
Theorem push_prefix_bytes : forall n, n < 4294967296 -> is_bytes (push_prefix n).
Proof.
  intros n H. unfold push_prefix, is_bytes.
  destruct (N.ltb_spec n 76). { repeat constructor. lia. }
  destruct (N.ltb_spec n 256). { repeat constructor; lia. }
  destruct (N.ltb_spec n 65536).
  { repeat constructor; try lia. apply N.mod_lt; lia. apply N.div_lt_upper_bound; lia. }
  repeat constructor; try lia; try (apply N.mod_lt; lia). apply N.div_lt_upper_bound; lia.
Qed.
