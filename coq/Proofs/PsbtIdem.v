(* C14: idempotence of finalization. *)
From Coq Require Import List Bool NArith Arith Lia.
Import ListNotations.
From Verif Require Import PsbtModel PsbtLemmas PsbtReach PsbtAtomic.

(* [st'] is [st] with some non-final inputs replaced by their finalized form *)
Definition fo (a a' : pinput) : Prop :=
  a' = a \/ (is_final a = false /\ exists s w, a' = cleared a s w).

Definition fo_state (st st' : psbt) : Prop :=
  p_tx st' = p_tx st /\ p_ntx st' = p_ntx st /\ length (p_inputs st') = length (p_inputs st) /\
  forall k a, nth_error (p_inputs st) k = Some a ->
              exists a', nth_error (p_inputs st') k = Some a' /\ fo a a'.

Lemma fo_state_refl st : fo_state st st.
Proof. repeat split; auto. intros k a H. exists a. split; auto. left; auto. Qed.

Section Idem.
  Variable try_input : psbt -> nat -> bool -> tryres.
  Variable interp_check : psbt -> option (nat * N).
  Variable desc_info : N -> dinfo.
  Variable sig_flag : N -> option N.
  Variable sighash_ecdsa : N -> option N.
  Variable inp_mall : bool -> bool.

  Notation stepM := (step try_input interp_check desc_info sig_flag sighash_ecdsa inp_mall).
  Notation finalize_inputM := (finalize_input try_input).
  Notation specM := (finalize_input_spec try_input).

  (* A successful satisfaction is never (empty scriptSig, empty witness): otherwise the
     code stores None/None, i.e. an input that lost its data and is not final. *)
  Definition try_nonempty : Prop :=
    forall st i m s w, try_input st i m = TOk s w -> nz s <> None \/ nz w <> None.

  (* A failing attempt on input i keeps failing with the same error class when OTHER inputs
     get finalized (the code reads the bip32_derivation / tap_key_origins key sets of all
     inputs, which finalization clears). *)
  Definition try_stable : Prop :=
    forall st st' i m k e, fo_state st st' ->
      nth_error (p_inputs st') i = nth_error (p_inputs st) i ->
      try_input st i m = TErr k e -> try_input st' i m = TErr k e.

  Hypothesis Hne : try_nonempty.
  Hypothesis Hst : try_stable.

  Lemma cleared_final a s w st i m : try_input st i m = TOk s w -> is_final (cleared a s w) = true.
  Proof.
    intros H. destruct (Hne _ _ _ _ _ H) as [E|E]; unfold is_final; simpl.
    - destruct (nz s); [reflexivity|congruence].
    - destruct (nz w); [apply orb_true_r|congruence].
  Qed.

  (* the errors a pass over [idxs] reports on a state it does not change *)
  Definition errs_of (st : psbt) (m : bool) (idxs : list nat) : list (nat * N) :=
    flat_map (fun k => match finalize_inputM st k m with FErr k' e => [(k', e)] | _ => [] end) idxs.

  (* an attempt on input k leaves [st] as it is: the input is final, or the attempt fails *)
  Definition settled (st : psbt) (m : bool) (k : nat) : Prop :=
    finalize_inputM st k m = FOk st \/ exists k' e, finalize_inputM st k m = FErr k' e.

  Lemma pass_fixed m idxs : forall st errs,
    (forall k, In k idxs -> settled st m k) ->
    fin_mut_loop try_input m idxs st errs = (st, errs ++ errs_of st m idxs, false).
  Proof.
    induction idxs as [|i r IH]; intros st errs H; simpl.
    - now rewrite app_nil_r.
    - destruct (H i (or_introl eq_refl)) as [Hc|(k' & e & Hc)]; rewrite Hc.
      + simpl. apply IH. intros k Hk. apply H. right; auto.
      + rewrite IH by (intros k Hk; apply H; right; auto).
        simpl. now rewrite <- app_assoc.
  Qed.

  Lemma final_settled st m i a : nth_error (p_inputs st) i = Some a -> is_final a = true -> finalize_inputM st i m = FOk st.
  Proof. intros Ha Hf. unfold finalize_input. now rewrite Ha, Hf. Qed.

  Lemma first_pass m idxs : NoDup idxs -> forall st errs st' es p,
    (forall k, In k idxs -> k < length (p_inputs st)) ->
    fin_mut_loop try_input m idxs st errs = (st', es, p) ->
    p = false /\ fo_state st st' /\
    (forall k, ~ In k idxs -> nth_error (p_inputs st') k = nth_error (p_inputs st) k) /\
    es = errs ++ errs_of st' m idxs /\
    (forall k, In k idxs -> settled st' m k).
  Proof.
    induction 1 as [|i r Hni Hnd IH]; intros st errs st' es p Hlt H; simpl in H.
    - inversion H; subst. simpl. rewrite app_nil_r. repeat split; auto using fo_state_refl.
      + intros k a Ha. exists a. split; auto. left; auto.
      + intros k [].
    - pose proof (specM st i m) as S.
      destruct (finalize_inputM st i m) as [st1|k0 e|] eqn:Hfi.
      + assert (Hlen : length (p_inputs st1) = length (p_inputs st))
          by (apply sreach_length; eapply finalize_input_sreach; eauto).
        destruct (IH st1 errs st' es p) as (Hp & Hfo & Hout & Hes & Hset); auto.
        { intros k Hk. rewrite Hlen. apply Hlt. right; auto. }
        assert (Hi' : nth_error (p_inputs st') i = nth_error (p_inputs st1) i) by (apply Hout; auto).
        destruct S as (a & Ha & Hcase & _).
        (* the input at i after this step is final *)
        assert (Hfin : exists a1, nth_error (p_inputs st1) i = Some a1 /\ is_final a1 = true /\ fo a a1).
        { destruct Hcase as [[Hf ->]|(Hf & s & w & Ht & ->)].
          - exists a. repeat split; auto. left; auto.
          - exists (cleared a s w). split. simpl. eapply nth_set_nth_eq; eauto.
            split. eapply cleared_final; eauto. right. split; auto. eauto. }
        destruct Hfin as (a1 & Ha1 & Hf1 & Hfo1).
        assert (Hsi : finalize_inputM st' i m = FOk st') by (eapply final_settled; eauto; congruence).
        split; auto. split; [|split; [|split]].
        * destruct Hfo as (T & N & L & P). repeat split; try congruence.
          { destruct Hcase as [[_ ->]|(_ & s & w & _ & ->)]; simpl in *; congruence. }
          { destruct Hcase as [[_ ->]|(_ & s & w & _ & ->)]; simpl in *; congruence. }
          intros k b Hb. destruct (Nat.eq_dec k i) as [->|Hk].
          -- exists a1. rewrite Hi'. split; auto. congruence.
          -- rewrite <- (finalize_input_other try_input _ _ _ _ k Hfi Hk) in Hb. apply P; auto.
        * intros k Hk. rewrite Hout by (intro; apply Hk; right; auto).
          apply (finalize_input_other try_input _ _ _ _ k Hfi). intro; subst; apply Hk; left; auto.
        * rewrite Hes. unfold errs_of. simpl. rewrite Hsi. reflexivity.
        * intros k [<-|Hk]; auto. left; auto.
      + destruct S as (a & Ha & Hf & Hc).
        destruct (IH st (errs ++ [(k0, e)]) st' es p) as (Hp & Hfo & Hout & Hes & Hset); auto.
        { intros k Hk. apply Hlt. right; auto. }
        assert (Hi' : nth_error (p_inputs st') i = nth_error (p_inputs st) i) by (apply Hout; auto).
        assert (Hsi : finalize_inputM st' i m = FErr k0 e).
        { unfold finalize_input. rewrite Hi', Ha, Hf.
          destruct Hc as [(Hu & -> & ->)|(Hu & Ht)].
          - now rewrite Hu.
          - destruct (get_utxo a); [|congruence]. now rewrite (Hst _ _ _ _ _ _ Hfo Hi' Ht). }
        split; auto. split; auto. split; [|split].
        * intros k Hk. apply Hout. intro; apply Hk; right; auto.
        * rewrite Hes. unfold errs_of. simpl. rewrite Hsi. rewrite <- app_assoc. reflexivity.
        * intros k [<-|Hk]; auto. right; eauto.
      + specialize (Hlt i (or_introl eq_refl)). lia.
  Qed.

  (* ================= idempotent =================
     Finalize ; Finalize = Finalize, in state and in result (same errors, same order) *)
  Theorem idempotent : forall st m st' r,
    stepM st (Finalize m) = (st', r) -> stepM st' (Finalize m) = (st', r).
  Proof.
    intros st m st' r H. simpl in *. unfold finalize_mut in *.
    destruct (fin_mut_loop try_input m (seq 0 (length (p_inputs st))) st []) as [[st1 es] p] eqn:L.
    assert (Hlt : forall k, In k (seq 0 (length (p_inputs st))) -> k < length (p_inputs st))
      by (intros k Hk; apply in_seq in Hk; lia).
    destruct (first_pass m _ (seq_NoDup _ _) _ _ _ _ _ Hlt L) as (-> & Hfo & _ & Hes & Hset).
    simpl in Hes. subst es.
    assert (st1 = st') by (destruct (errs_of st1 m (seq 0 (length (p_inputs st)))); inversion H; auto).
    subst st1. destruct Hfo as (_ & _ & Hlen & _). rewrite Hlen.
    rewrite (pass_fixed m _ st' [] Hset). simpl. exact H.
  Qed.

  (* the single-input call: a second call is a no-op with the same result class *)
  Theorem idempotent_inp : forall st i m st' r,
    stepM st (FinalizeInp i m) = (st', r) -> stepM st' (FinalizeInp i m) = (st', r).
  Proof.
    intros st i m st' r H. simpl in *. unfold finalize_inp in *.
    destruct (Nat.leb_spec (length (p_inputs st)) i) as [Hle|Hlt].
    - inversion H; subst. destruct (Nat.leb_spec (length (p_inputs st')) i); auto; lia.
    - pose proof (specM st i (inp_mall m)) as S.
      destruct (finalize_inputM st i (inp_mall m)) as [st1|k0 e|] eqn:Hfi.
      + inversion H; subst.
        rewrite (sreach_length _ _ (finalize_input_sreach _ _ _ _ _ Hfi)).
        destruct (Nat.leb_spec (length (p_inputs st)) i); [lia|].
        destruct S as (a & Ha & [[Hf ->]|(Hf & s & w & Ht & ->)] & _).
        * rewrite Hfi. reflexivity.
        * unfold finalize_input. simpl. rewrite (nth_set_nth_eq _ _ _ _ Ha).
          rewrite (cleared_final a s w _ _ _ Ht). reflexivity.
      + inversion H; subst. destruct (Nat.leb_spec (length (p_inputs st')) i); [lia|].
        rewrite Hfi. reflexivity.
      + lia.
  Qed.
End Idem.

(* Both hypotheses are needed: the state machine alone does not give idempotence.
   (i) try_nonempty: with an oracle that "succeeds" with empty scriptSig and witness the
   code stores None/None; the input has lost its data and is tried again. *)
Example idempotent_needs_nonempty :
  exists (try_input : psbt -> nat -> bool -> tryres) st,
    let f := fun s => finalize_mut try_input s false in
    fst (f (fst (f st))) <> fst (f st) \/ snd (f (fst (f st))) <> snd (f st).
Proof.
  pose (blank := mkIn None (Some (mkTxOut 1%N 1%N)) [] None None None [] None None [] [] [] [] None [] [] [] None None [] []).
  exists (fun st i m => match p_inputs st with
                        | a :: _ => match i_psigs a with [] => TErr 0 10%N | _ => TOk 0%N 0%N end
                        | [] => TErr 0 10%N end),
         (mkPsbt 1%N 1 [set_psigs blank [(1%N, 1%N)]]).
  right. vm_compute. discriminate.
Qed.

(* (ii) try_stable: an oracle whose verdict on input 0 depends on input 1's key-origin map *)
Example idempotent_needs_stability :
  exists (try_input : psbt -> nat -> bool -> tryres) st,
    let f := fun s => finalize_mut try_input s false in
    fst (f (fst (f st))) <> fst (f st).
Proof.
  pose (blank := mkIn None (Some (mkTxOut 1%N 1%N)) [] None None None [] None None [] [] [] [] None [] [] [] None None [] []).
  exists (fun st i m => match i, p_inputs st with
                        | 0, [_; b] => match i_bip32 b with [] => TOk 7%N 0%N | _ => TErr 0 10%N end
                        | _, _ => TOk 8%N 0%N end),
         (mkPsbt 1%N 2 [blank; mkIn None (Some (mkTxOut 1%N 1%N)) [] None None None [(1%N, 1%N)] None None [] [] [] [] None [] [] [] None None [] []]).
  vm_compute. discriminate.
Qed.
