(* C11 — the taproot tree builder (TapTreeBuilder driven by Tr::from_tree) is total: for EVERY
   shape of the `{..}` expression it returns the depths of the leaves in order (height <= 128) or
   TapTreeDepthError (height > 128); no subtraction, addition, shift or assert site is reached and
   the loop's fuel is never exhausted. *)
From Coq Require Import List NArith Bool Lia Arith.
From Verif Require Import Bytes RobustModel RobustTapTreeModel.
Import ListNotations.
Local Open Scope N_scope.

Arguments N.of_nat : simpl never. Arguments N.to_nat : simpl never.
Arguments N.add : simpl never. Arguments N.sub : simpl never.
Arguments N.shiftl : simpl never. Arguments N.land : simpl never. Arguments N.lor : simpl never. Arguments N.ldiff : simpl never.
Arguments N.testbit : simpl never. Arguments N.eqb : simpl never. Arguments N.ltb : simpl never. Arguments N.leb : simpl never.

(* `x & (1 << n) == 0` reads bit n *)
Lemma land_bit_test : forall a n, (N.land a (N.shiftl 1 n) =? 0) = negb (N.testbit a n).
Proof.
  intros a n. rewrite N.shiftl_1_l. destruct (N.testbit a n) eqn:E; cbn [negb].
  - apply N.eqb_neq. intros H. apply (f_equal (fun x => N.testbit x n)) in H.
    rewrite N.land_spec, E, N.pow2_bits_true, N.bits_0 in H. discriminate.
  - apply N.eqb_eq. apply N.bits_inj. intros m. rewrite N.land_spec, N.bits_0, N.pow2_bits_eqb.
    destruct (N.eqb_spec n m) as [->|]; [now rewrite E|apply andb_false_r].
Qed.

Lemma lor_bit : forall a n m, N.testbit (N.lor a (N.shiftl 1 n)) m = (n =? m) || N.testbit a m.
Proof. intros. apply (N.setbit_eqb a n m). Qed.
Lemma ldiff_bit : forall a n m, N.testbit (N.ldiff a (N.shiftl 1 n)) m = N.testbit a m && negb (n =? m).
Proof. intros. apply (N.clearbit_eqb a n m). Qed.

(* ---- the path to the current position: head = the bit of the current height ---- *)
Fixpoint path_bit (p : list bool) (j : N) : bool :=
  match p with [] => false | b :: q => if j =? N.of_nat (S (length q)) then b else path_bit q j end.
Fixpoint complete (p : list bool) : list bool :=
  match p with [] => [] | true :: q => complete q | false :: q => true :: q end.

Lemma path_bit_above : forall p j, N.of_nat (length p) < j -> path_bit p j = false.
Proof.
  induction p as [|b q IH]; intros j H; cbn [path_bit]; [reflexivity|]. cbn [length] in H.
  destruct (N.eqb_spec j (N.of_nat (S (length q)))); [lia|]. apply IH. lia.
Qed.
Lemma path_bit_zero : forall p, path_bit p 0 = false.
Proof. induction p as [|b q IH]; cbn [path_bit]; [reflexivity|]. destruct (N.eqb_spec 0 (N.of_nat (S (length q)))); [lia|exact IH]. Qed.
Lemma complete_length : forall p, (length (complete p) <= length p)%nat.
Proof. induction p as [|[] q IH]; cbn [complete length]; lia. Qed.

Definition sbit (s : tbuilder) (j : N) : bool := if j =? 128 then tb_c128 s else N.testbit (tb_heights s) j.
Definition Inv (s : tbuilder) (p : list bool) : Prop :=
  tb_cur s = N.of_nat (length p) /\ forall j, sbit s j = path_bit p j.

(* ---- the while loop ---- *)
Lemma tb_loop_ok : forall p fuel hs, (length p < fuel)%nat -> (length p <= 127)%nat ->
  (forall j, j <> 128 -> N.testbit hs j = path_bit p j) ->
  exists hs', tb_loop fuel hs (N.of_nat (length p)) = ROk (hs', N.of_nat (length (complete p))) /\
              (forall j, j <> 128 -> N.testbit hs' j = path_bit (complete p) j).
Proof.
  induction p as [|b q IH]; intros fuel hs Hf Hl Hb.
  - exists hs. split; [destruct fuel; reflexivity|exact Hb].
  - destruct fuel as [|f]; [lia|]. cbn [length] in *. cbn [tb_loop].
    destruct (N.eqb_spec (N.of_nat (S (length q))) 0) as [|_]; [lia|].
    unfold shl1. destruct (N.leb_spec 128 (N.of_nat (S (length q)))) as [|_]; [lia|]. cbn [rbind].
    rewrite land_bit_test.
    assert (Hcur : N.testbit hs (N.of_nat (S (length q))) = b).
    { rewrite Hb by lia. cbn [path_bit]. now rewrite N.eqb_refl. }
    rewrite Hcur. destruct b; cbn [negb complete].
    + unfold sub_partial. destruct (N.ltb_spec (N.of_nat (S (length q))) 1) as [|_]; [lia|]. cbn [rbind].
      replace (N.of_nat (S (length q)) - 1) with (N.of_nat (length q)) by lia.
      apply IH; [lia|lia|]. intros j Hj. rewrite ldiff_bit, (Hb j Hj). cbn [path_bit].
      rewrite (N.eqb_sym j). destruct (N.eqb_spec (N.of_nat (S (length q))) j) as [<-|]; cbn [negb].
      * rewrite andb_false_r. symmetry. apply path_bit_above. lia.
      * apply andb_true_r.
    + eexists. split; [reflexivity|]. intros j Hj. rewrite lor_bit, (Hb j Hj). cbn [path_bit length].
      rewrite (N.eqb_sym j). destruct (N.eqb_spec (N.of_nat (S (length q))) j); reflexivity.
Qed.

(* ---- push_leaf ---- *)
Lemma tb_push_leaf_ok : forall s p, Inv s p -> (length p <= 128)%nat ->
  exists s', tb_push_leaf s = ROk s' /\ Inv s' (complete p) /\ tb_leaves s' = tb_leaves s ++ [N.of_nat (length p)].
Proof.
  intros s p [Hc Hb] Hl. unfold tb_push_leaf, MAX_NODE. rewrite Hc.
  destruct (N.eqb_spec (N.of_nat (length p)) 128) as [E|E].
  - destruct p as [|b q]; [cbn in E; lia|]. cbn [length] in *. assert (Hq : length q = 127%nat) by lia.
    assert (H128 : tb_c128 s = b). { specialize (Hb 128). unfold sbit in Hb. cbn [path_bit] in Hb. rewrite Hq in Hb. exact Hb. }
    rewrite H128. destruct b; cbn [complete].
    + unfold sub_partial. destruct (N.ltb_spec (N.of_nat (S (length q))) 1) as [|_]; [lia|]. cbn [rbind].
      replace (N.of_nat (S (length q)) - 1) with (N.of_nat (length q)) by lia.
      destruct (tb_loop_ok q 256 (tb_heights s)) as (hs' & Hloop & Hbits); [lia|lia| |].
      { intros j Hj. specialize (Hb j). unfold sbit in Hb. destruct (N.eqb_spec j 128); [contradiction|].
        rewrite Hb. cbn [path_bit]. destruct (N.eqb_spec j (N.of_nat (S (length q)))); [lia|reflexivity]. }
      rewrite Hloop. cbn [rbind fst snd]. eexists. split; [reflexivity|]. split; [|reflexivity].
      split; [reflexivity|]. intros j. unfold sbit. cbn [tb_c128 tb_heights].
      destruct (N.eqb_spec j 128) as [->|Hj]; [|now apply Hbits].
      symmetry. apply path_bit_above. pose proof (complete_length q). lia.
    + eexists. split; [reflexivity|]. split; [|reflexivity]. split; [cbn [tb_cur length]; reflexivity|].
      intros j. unfold sbit. cbn [tb_c128 tb_heights path_bit]. rewrite Hq.
      destruct (N.eqb_spec j 128) as [->|Hj]; [reflexivity|].
      specialize (Hb j). unfold sbit in Hb. destruct (N.eqb_spec j 128); [contradiction|].
      rewrite Hb. cbn [path_bit]. rewrite Hq. destruct (N.eqb_spec j (N.of_nat 128)); [lia|reflexivity].
  - destruct (tb_loop_ok p 256 (tb_heights s)) as (hs' & Hloop & Hbits); [lia|lia| |].
    { intros j Hj. specialize (Hb j). unfold sbit in Hb. destruct (N.eqb_spec j 128); [contradiction|exact Hb]. }
    rewrite Hloop. cbn [rbind fst snd]. eexists. split; [reflexivity|]. split; [|reflexivity].
    split; [reflexivity|]. intros j. unfold sbit. cbn [tb_c128 tb_heights].
    destruct (N.eqb_spec j 128) as [->|Hj]; [|now apply Hbits].
    specialize (Hb 128). unfold sbit in Hb. rewrite N.eqb_refl in Hb. rewrite Hb.
    rewrite !path_bit_above; [reflexivity| |]; [pose proof (complete_length p)|]; lia.
Qed.

(* ---- push_inner_node ---- *)
Lemma tb_push_inner_ok : forall s p, Inv s p ->
  ((length p < 128)%nat -> exists s1, tb_push_inner s = ROk s1 /\ Inv s1 (false :: p) /\ tb_leaves s1 = tb_leaves s) /\
  (length p = 128%nat -> tb_push_inner s = RErr E_TAPTREE_DEPTH).
Proof.
  intros s p [Hc Hb]. unfold tb_push_inner, MAX_NODE. rewrite Hc. split; intros Hl.
  - destruct (N.eqb_spec (N.of_nat (length p)) 255); [lia|].
    destruct (N.ltb_spec 128 (N.of_nat (length p) + 1)); [lia|].
    eexists. split; [reflexivity|]. split; [|reflexivity]. split; [cbn [tb_cur length]; lia|].
    intros j. unfold sbit in *. cbn [tb_c128 tb_heights path_bit]. specialize (Hb j). rewrite Hb.
    destruct (N.eqb_spec j (N.of_nat (S (length p)))); [|reflexivity]. apply path_bit_above. lia.
  - destruct (N.eqb_spec (N.of_nat (length p)) 255); [lia|].
    destruct (N.ltb_spec 128 (N.of_nat (length p) + 1)); [reflexivity|lia].
Qed.

(* ---- the whole walk ---- *)
Lemma tb_walk_ok : forall t p s, Inv s p -> (length p <= 128)%nat ->
  (N.of_nat (length p) + theight t <= 128 ->
     exists s', tb_walk t s = ROk s' /\ Inv s' (complete p) /\ tb_leaves s' = tb_leaves s ++ tdepths t (N.of_nat (length p))) /\
  (128 < N.of_nat (length p) + theight t -> tb_walk t s = RErr E_TAPTREE_DEPTH).
Proof.
  induction t as [|l IHl r IHr]; intros p s Hi Hl; cbn [tb_walk theight tdepths].
  - split; [intros _; now apply tb_push_leaf_ok|lia].
  - destruct (tb_push_inner_ok s p Hi) as [Hlt Heq].
    destruct (Nat.eq_dec (length p) 128) as [E|E].
    + split; [lia|]. intros _. now rewrite (Heq E).
    + destruct Hlt as (s1 & -> & Hi1 & Hlv1); [lia|]. cbn [rbind].
      assert (Hl1 : (length (false :: p) <= 128)%nat) by (cbn [length]; lia).
      destruct (IHl (false :: p) s1 Hi1 Hl1) as [HlOk HlErr]. cbn [length complete] in *.
      replace (N.of_nat (length p) + 1) with (N.of_nat (S (length p))) by lia.
      split.
      * intros Hh. destruct HlOk as (s2 & -> & Hi2 & Hlv2); [lia|]. cbn [rbind].
        destruct (IHr (true :: p) s2 Hi2) as [HrOk _]; [cbn [length]; lia|]. cbn [length complete] in HrOk.
        destruct HrOk as (s3 & -> & Hi3 & Hlv3); [lia|].
        eexists. split; [reflexivity|]. split; [exact Hi3|]. now rewrite Hlv3, Hlv2, Hlv1, app_assoc.
      * intros Hh. destruct (N.leb_spec (N.of_nat (S (length p)) + theight l) 128) as [Hle|Hgt].
        -- destruct HlOk as (s2 & -> & Hi2 & _); [exact Hle|]. cbn [rbind].
           destruct (IHr (true :: p) s2 Hi2) as [_ HrErr]; [cbn [length]; lia|]. cbn [length] in HrErr. apply HrErr. lia.
        -- now rewrite (HlErr Hgt).
Qed.

Lemma tb_run_walk : forall t rest s, tb_run (tevents t ++ rest) s = rbind (tb_walk t s) (tb_run rest).
Proof.
  induction t as [|l IHl r IHr]; intros rest s; cbn [tevents app tb_run tb_walk]; [reflexivity|].
  destruct (tb_push_inner s) as [s1| |]; cbn [rbind]; [|reflexivity|reflexivity].
  rewrite <- app_assoc, IHl. destruct (tb_walk l s1) as [s2| |]; cbn [rbind]; [|reflexivity|reflexivity].
  apply IHr.
Qed.

Lemma tdepths_nonempty : forall t d, tdepths t d <> [].
Proof. induction t as [|l IHl r _]; intros d; cbn [tdepths]; [discriminate|]. intros H. apply app_eq_nil in H. now apply (IHl (d + 1)). Qed.

Lemma Inv_new : Inv tb_new [].
Proof. split; [reflexivity|]. intros j. unfold sbit. cbn [tb_new tb_c128 tb_heights path_bit]. destruct (j =? 128); [reflexivity|apply N.bits_0]. Qed.

Theorem tap_parse_total_proof : forall t : tshape,
  (theight t <= 128 -> tap_parse t = ROk (tdepths t 0)) /\
  (128 < theight t -> tap_parse t = RErr E_TAPTREE_DEPTH).
Proof.
  intros t. unfold tap_parse. rewrite <- (app_nil_r (tevents t)), tb_run_walk.
  destruct (tb_walk_ok t [] tb_new Inv_new) as [HOk HErr]; [cbn; lia|]. cbn [length] in *. change (N.of_nat 0) with 0 in *.
  split; intros H.
  - destruct HOk as (s' & -> & _ & Hlv); [lia|]. cbn [rbind tb_run]. unfold tb_finalize. rewrite Hlv. cbn [tb_new tb_leaves app].
    destruct (tdepths t 0) eqn:E; [now apply tdepths_nonempty in E|reflexivity].
  - rewrite HErr by lia. reflexivity.
Qed.

Theorem tap_parse_never_panics : forall t s, tap_parse t <> RPanic s.
Proof.
  intros t s. destruct (tap_parse_total_proof t) as [H1 H2].
  destruct (N.leb_spec (theight t) 128) as [H|H]; [rewrite (H1 H)|rewrite (H2 H)]; discriminate.
Qed.

Theorem tap_parse_fuel_suffices : forall t, tap_parse t <> RErr E_OUT_OF_FUEL.
Proof.
  intros t. destruct (tap_parse_total_proof t) as [H1 H2].
  destruct (N.leb_spec (theight t) 128) as [H|H]; [rewrite (H1 H)|rewrite (H2 H)]; discriminate.
Qed.
