(* C04 [T1] ser_parse: Script/Ser.v's parser inverts its serialiser on well-formed structured
   scripts, and every byte string that parses is the serialisation of what it parses to. *)
From Coq Require Import Lia.
From Verif Require Import Ser.
Local Open Scope N_scope.

(* decide the N comparisons of the goal, closing impossible branches by lia *)
Ltac nb := repeat match goal with
  | |- context [N.leb ?a ?b] => destruct (N.leb_spec a b); try lia
  | |- context [N.ltb ?a ?b] => destruct (N.ltb_spec a b); try lia
  | |- context [N.eqb ?a ?b] => destruct (N.eqb_spec a b); try lia
  end.

(* ------------------------------------------------------------------ induction over structured scripts *)
Section InstrInd.
  Variable P : instr -> Prop.
  Hypothesis HPush : forall b, P (IPush b).
  Hypothesis HNum : forall n, P (INum n).
  Hypothesis HOp : forall o, P (IOp o).
  Hypothesis HIf : forall neg thn els, Forall P thn ->
    (match els with Some el => Forall P el | None => True end) -> P (IIf neg thn els).
  Fixpoint instr_ind' (i : instr) : P i :=
    let go := fix go (l : list instr) : Forall P l :=
      match l with [] => Forall_nil P | j :: r => Forall_cons j (instr_ind' j) (go r) end in
    match i with
    | IPush b => HPush b | INum n => HNum n | IOp o => HOp o
    | IIf neg thn els =>
      HIf neg thn els (go thn) (match els with Some el => go el | None => I end)
    end.
  Lemma script_ind' : forall s : script, Forall P s.
  Proof. induction s; constructor; [apply instr_ind'|assumption]. Qed.
End InstrInd.

(* ------------------------------------------------------------------ serialiser facts *)
Lemma ser_list_eq (l : list instr) :
  (fix ser_list (l : list instr) : bytes :=
     match l with [] => [] | j :: r => ser_instr j ++ ser_list r end) l = serialize l.
Proof. reflexivity. Qed.

Lemma ser_if neg thn els :
  ser_instr (IIf neg thn els) =
  (if neg then OPB_NOTIF else OPB_IF) :: serialize thn ++
  (match els with Some el => OPB_ELSE :: serialize el | None => [] end) ++ [OPB_ENDIF].
Proof. destruct els; reflexivity. Qed.

Lemma serialize_app a b : serialize (a ++ b) = serialize a ++ serialize b.
Proof. induction a as [|i a IH]; [reflexivity|]. cbn [serialize app]. rewrite IH, app_assoc. reflexivity. Qed.

Lemma serialize_cons i s : serialize (i :: s) = ser_instr i ++ serialize s.
Proof. reflexivity. Qed.

(* ------------------------------------------------------------------ flat token form *)
Fixpoint flat_instr (i : instr) : list tok :=
  match i with
  | IPush d => [TPush d]
  | INum n => [TNum n]
  | IOp o => [TByte (opcode_byte o)]
  | IIf neg thn els =>
    let go := fix go (l : list instr) : list tok :=
      match l with [] => [] | j :: r => flat_instr j ++ go r end in
    TByte (if neg then OPB_NOTIF else OPB_IF) :: go thn ++
    (match els with Some el => TByte OPB_ELSE :: go el | None => [] end) ++ [TByte OPB_ENDIF]
  end.
Fixpoint flat (s : script) : list tok :=
  match s with [] => [] | i :: r => flat_instr i ++ flat r end.

Lemma flat_list_eq (l : list instr) :
  (fix go (l : list instr) : list tok := match l with [] => [] | j :: r => flat_instr j ++ go r end) l = flat l.
Proof. reflexivity. Qed.

Lemma flat_if neg thn els :
  flat_instr (IIf neg thn els) =
  TByte (if neg then OPB_NOTIF else OPB_IF) :: flat thn ++
  (match els with Some el => TByte OPB_ELSE :: flat el | None => [] end) ++ [TByte OPB_ENDIF].
Proof. destruct els; reflexivity. Qed.

Definition ser_tok (t : tok) : bytes :=
  match t with TPush d => ser_push d | TNum n => ser_num n | TByte c => [c] end.
Fixpoint ser_toks (ts : list tok) : bytes :=
  match ts with [] => [] | t :: r => ser_tok t ++ ser_toks r end.

Lemma ser_toks_app a b : ser_toks (a ++ b) = ser_toks a ++ ser_toks b.
Proof. induction a as [|t a IH]; [reflexivity|]. cbn [ser_toks app]. rewrite IH, app_assoc. reflexivity. Qed.

Lemma serialize_flat : forall s, serialize s = ser_toks (flat s).
Proof.
  intros s. assert (H := script_ind' (fun i => ser_instr i = ser_toks (flat_instr i))).
  assert (HL : forall l, Forall (fun i => ser_instr i = ser_toks (flat_instr i)) l -> serialize l = ser_toks (flat l)).
  { induction 1 as [|i l Hi _ IH]; [reflexivity|]. cbn [serialize flat]. rewrite ser_toks_app, Hi, IH. reflexivity. }
  apply HL, H; clear s.
  - intros b. cbn [flat_instr ser_toks ser_tok ser_instr]. rewrite app_nil_r. reflexivity.
  - intros n. cbn [flat_instr ser_toks ser_tok ser_instr]. rewrite app_nil_r. reflexivity.
  - intros o. reflexivity.
  - intros neg thn els Ht He. rewrite ser_if, flat_if. cbn [ser_toks ser_tok app].
    rewrite ser_toks_app, (HL thn Ht). f_equal. f_equal.
    destruct els as [el|].
    + cbn [app ser_toks ser_tok]. rewrite ser_toks_app, (HL el He). reflexivity.
    + reflexivity.
Qed.

(* ------------------------------------------------------------------ well-formedness *)
(* a push that ser_push writes minimally: anything but a single byte 1..16 / 0x81 *)
Definition wf_push (d : bytes) : Prop :=
  match d with [x] => ((1 <=? x) && (x <=? 16) || (x =? 129)) = false | _ => True end.
Definition wf_num (n : Z) : Prop := (n = -1 \/ 1 <= n <= 16)%Z.
(* an opcode byte that is neither a push, a number, nor IF/NOTIF/ELSE/ENDIF *)
Definition wf_byte (c : N) : Prop :=
  (c = 80 \/ 96 < c) /\ c <> OPB_IF /\ c <> OPB_NOTIF /\ c <> OPB_ELSE /\ c <> OPB_ENDIF.
Definition wf_op (o : opcode) : Prop := wf_byte (opcode_byte o) /\ byte_opcode (opcode_byte o) = o.

Definition wf_tok (t : tok) : Prop :=
  match t with
  | TPush d => wf_push d
  | TNum n => wf_num n
  | TByte c => (c = 80 \/ 96 < c)
  end.

Fixpoint wf_instr (i : instr) : Prop :=
  let go := fix go (l : list instr) : Prop := match l with [] => True | j :: r => wf_instr j /\ go r end in
  match i with
  | IPush d => wf_push d
  | INum n => wf_num n
  | IOp o => wf_op o
  | IIf _ thn els => go thn /\ match els with Some el => go el | None => True end
  end.
Fixpoint wf_script (s : script) : Prop :=
  match s with [] => True | i :: r => wf_instr i /\ wf_script r end.

Lemma wf_if neg thn els :
  wf_instr (IIf neg thn els) <-> wf_script thn /\ match els with Some el => wf_script el | None => True end.
Proof. destruct els; reflexivity. Qed.

(* ------------------------------------------------------------------ lexing the serialisation *)
Lemma take_n_app {A} (a b : list A) : take_n (length a) (a ++ b) = Some (a, b).
Proof. induction a as [|x a IH]; [reflexivity|]. cbn [length take_n app]. rewrite IH. reflexivity. Qed.

Lemma split_n_app (d r : bytes) : split_n (blen d) (d ++ r) = Some (d, r).
Proof. unfold split_n, blen. rewrite Nat2N.id. apply take_n_app. Qed.

Lemma blen_cons x (d : bytes) : blen (x :: d) = blen d + 1.
Proof. unfold blen. cbn [length]. lia. Qed.

Lemma push_minimal_ser (d : bytes) : wf_push d ->
  push_minimal (hd 0 (ser_push d)) d = true.
Proof.
  intros Hwf. unfold ser_push, push_minimal.
  destruct d as [|x [|y r]].
  - reflexivity.
  - cbn in Hwf. change (blen [x]) with 1. cbn [N.leb hd]. rewrite Hwf. reflexivity.
  - set (n := blen (x :: y :: r)).
    destruct (N.leb n 75) eqn:E1; cbn [hd]; [apply N.eqb_refl|].
    destruct (N.leb n 255) eqn:E2; cbn [hd]; [reflexivity|].
    destruct (N.leb n 65535) eqn:E3; cbn [hd]; reflexivity.
Qed.

Lemma lex_push (f : nat) (d rest : bytes) : wf_push d ->
  lex_bytes (S f) (ser_push d ++ rest) = option_map (cons (TPush d)) (lex_bytes f rest).
Proof.
  intros Hwf. pose proof (push_minimal_ser d Hwf) as Hmin. unfold ser_push in *.
  set (n := blen d) in *.
  destruct (N.leb n 75) eqn:E1.
  - cbn [app hd lex_bytes] in *. rewrite E1. unfold n at 1. rewrite split_n_app. rewrite Hmin. reflexivity.
  - destruct (N.leb n 255) eqn:E2.
    + cbn [app hd lex_bytes] in *. change (N.leb 76 75) with false. cbn [N.eqb]. cbv iota.
      change (N.eqb 76 76) with true. cbv iota. unfold n at 1. rewrite split_n_app, Hmin. reflexivity.
    + destruct (N.leb n 65535) eqn:E3.
      * cbn [app hd lex_bytes] in *. change (N.leb 77 75) with false. cbv iota.
        change (N.eqb 77 76) with false. change (N.eqb 77 77) with true. cbv iota.
        replace (n mod 256 + 256 * (n / 256)) with n by (pose proof (N.div_mod n 256 ltac:(lia)); lia).
        unfold n at 1. rewrite split_n_app, Hmin. reflexivity.
      * cbn [app hd lex_bytes] in *. change (N.leb 78 75) with false. cbv iota.
        change (N.eqb 78 76) with false. change (N.eqb 78 77) with false. change (N.eqb 78 78) with true. cbv iota.
        replace (n mod 256 + 256 * ((n / 256) mod 256) + 65536 * ((n / 65536) mod 256) + 16777216 * (n / 16777216))
          with n.
        { unfold n at 1. rewrite split_n_app, Hmin. reflexivity. }
        assert (H1 := N.div_mod n 256 ltac:(lia)). assert (H2 := N.div_mod (n / 256) 256 ltac:(lia)).
        assert (H3 := N.div_mod (n / 256 / 256) 256 ltac:(lia)).
        rewrite !N.div_div in H3 by lia. rewrite N.div_div in H2 by lia.
        change (256 * 256) with 65536 in *. change (65536 * 256) with 16777216 in *. lia.
Qed.

Lemma lex_num (f : nat) (n : Z) (rest : bytes) : wf_num n ->
  lex_bytes (S f) (ser_num n ++ rest) = option_map (cons (TNum n)) (lex_bytes f rest).
Proof.
  intros [->|Hn]; [reflexivity|].
  unfold ser_num. replace (n =? -1)%Z with false by lia.
  assert (Hc : exists c, Z.to_N (80 + n) = c /\ 81 <= c <= 96 /\ (Z.of_N c - 80 = n)%Z).
  { exists (Z.to_N (80 + n)). split; [reflexivity|]. lia. }
  destruct Hc as [c [-> [Hc Hz]]]. cbn [app lex_bytes].
  nb. cbn [andb]. rewrite Hz. reflexivity.
Qed.

Lemma lex_byte (f : nat) (c : N) (rest : bytes) : (c = 80 \/ 96 < c) ->
  lex_bytes (S f) (c :: rest) = option_map (cons (TByte c)) (lex_bytes f rest).
Proof.
  intros Hc. cbn [lex_bytes].
  nb; reflexivity.
Qed.

Lemma lex_toks : forall ts, Forall wf_tok ts -> forall f, (length ts <= f)%nat ->
  lex_bytes f (ser_toks ts) = Some ts.
Proof.
  induction 1 as [|t ts Ht _ IH]; intros f Hf.
  - destruct f; reflexivity.
  - destruct f as [|f]; [cbn in Hf; lia|]. cbn [ser_toks]. cbn [length] in Hf.
    destruct t as [d|n|c]; cbn [ser_tok].
    + rewrite lex_push by exact Ht. rewrite IH by lia. reflexivity.
    + rewrite lex_num by exact Ht. rewrite IH by lia. reflexivity.
    + cbn [app]. rewrite lex_byte by exact Ht. rewrite IH by lia. reflexivity.
Qed.

Lemma ser_tok_nonempty t : wf_tok t -> (1 <= length (ser_tok t))%nat.
Proof.
  destruct t as [d|n|c]; cbn [ser_tok]; intros H.
  - unfold ser_push. repeat match goal with |- context [if ?b then _ else _] => destruct b end; cbn [length]; lia.
  - unfold ser_num. destruct (n =? -1)%Z; cbn; lia.
  - cbn; lia.
Qed.

Lemma ser_toks_length ts : Forall wf_tok ts -> (length ts <= length (ser_toks ts))%nat.
Proof.
  induction 1 as [|t ts Ht _ IH]; [cbn; lia|]. cbn [ser_toks length]. rewrite app_length.
  pose proof (ser_tok_nonempty t Ht). lia.
Qed.

(* ------------------------------------------------------------------ wf scripts have wf flat tokens *)
Lemma wf_byte_tok c : wf_byte c -> wf_tok (TByte c).
Proof. intros [H _]. exact H. Qed.

Lemma Forall_app_intro {A} (P : A -> Prop) a b : Forall P a -> Forall P b -> Forall P (a ++ b).
Proof. intros. apply Forall_app. split; assumption. Qed.

Lemma wf_flat : forall s, wf_script s -> Forall wf_tok (flat s).
Proof.
  intros s. pose proof (script_ind' (fun i => wf_instr i -> Forall wf_tok (flat_instr i))) as H.
  assert (HL : forall l, Forall (fun i => wf_instr i -> Forall wf_tok (flat_instr i)) l ->
                         wf_script l -> Forall wf_tok (flat l)).
  { induction 1 as [|i l Hi _ IH]; intros Hw; [constructor|]. destruct Hw as [Hw1 Hw2].
    cbn [flat]. apply Forall_app_intro; auto. }
  intros Hwf. apply HL; [|exact Hwf]. apply H; clear s Hwf.
  - intros b Hw. constructor; [exact Hw|constructor].
  - intros n Hw. constructor; [exact Hw|constructor].
  - intros o [Hb _]. constructor; [apply wf_byte_tok, Hb|constructor].
  - intros neg thn els Ht He Hw. destruct (proj1 (wf_if neg thn els) Hw) as [Hwt Hwe].
    rewrite flat_if. constructor.
    { destruct neg; cbn; right; unfold OPB_NOTIF, OPB_IF; lia. }
    apply Forall_app_intro; [apply HL; assumption|].
    apply Forall_app_intro.
    + destruct els as [el|]; [|constructor]. constructor; [cbn; right; unfold OPB_ELSE; lia|]. apply HL; assumption.
    + constructor; [cbn; right; unfold OPB_ENDIF; lia|constructor].
Qed.

(* ------------------------------------------------------------------ parse_seq on flat tokens *)
Definition stop_toks (st : stop) : list tok :=
  match st with AtEnd => [] | AtElse => [TByte OPB_ELSE] | AtEndif => [TByte OPB_ENDIF] end.

(* the statement for one script: whatever follows (nothing, or ELSE/ENDIF and more) *)
Definition parse_ok (s : script) : Prop :=
  forall f, (length (flat s) < f)%nat ->
    parse_seq f (flat s) = Some (s, AtEnd, []) /\
    (forall tl, parse_seq f (flat s ++ TByte OPB_ELSE :: tl) = Some (s, AtElse, tl)) /\
    (forall tl, parse_seq f (flat s ++ TByte OPB_ENDIF :: tl) = Some (s, AtEndif, tl)).

Lemma parse_ok_nil : parse_ok [].
Proof.
  intros f Hf. destruct f as [|f]; [cbn in Hf; lia|]. cbn [flat app parse_seq].
  repeat split; intros; reflexivity.
Qed.

(* one leading simple token *)
Lemma parse_ok_push d s : parse_ok s -> parse_ok (IPush d :: s).
Proof.
  intros IH f Hf. destruct f as [|f]; [cbn in Hf; lia|]. cbn [flat flat_instr app length] in *.
  destruct (IH f ltac:(lia)) as [H1 [H2 H3]].
  repeat split; intros; cbn [parse_seq]; [rewrite H1|rewrite H2|rewrite H3]; reflexivity.
Qed.
Lemma parse_ok_num n s : parse_ok s -> parse_ok (INum n :: s).
Proof.
  intros IH f Hf. destruct f as [|f]; [cbn in Hf; lia|]. cbn [flat flat_instr app length] in *.
  destruct (IH f ltac:(lia)) as [H1 [H2 H3]].
  repeat split; intros; cbn [parse_seq]; [rewrite H1|rewrite H2|rewrite H3]; reflexivity.
Qed.
Lemma parse_ok_op o s : wf_op o -> parse_ok s -> parse_ok (IOp o :: s).
Proof.
  intros [[_ [Hi [Hn [He Hd]]]] Hb] IH f Hf. destruct f as [|f]; [cbn in Hf; lia|].
  cbn [flat flat_instr app length] in *.
  destruct (IH f ltac:(lia)) as [H1 [H2 H3]].
  assert (E1 : N.eqb (opcode_byte o) OPB_ELSE = false) by (apply N.eqb_neq; assumption).
  assert (E2 : N.eqb (opcode_byte o) OPB_ENDIF = false) by (apply N.eqb_neq; assumption).
  assert (E3 : N.eqb (opcode_byte o) OPB_IF = false) by (apply N.eqb_neq; assumption).
  assert (E4 : N.eqb (opcode_byte o) OPB_NOTIF = false) by (apply N.eqb_neq; assumption).
  repeat split; intros; cbn [parse_seq]; rewrite E1, E2, E3, E4; cbn [orb];
    [rewrite H1|rewrite H2|rewrite H3]; rewrite Hb; reflexivity.
Qed.

Lemma parse_ok_if neg thn els s :
  parse_ok thn -> (match els with Some el => parse_ok el | None => True end) -> parse_ok s ->
  parse_ok (IIf neg thn els :: s).
Proof.
  intros IHt IHe IHs f Hf. destruct f as [|f]; [cbn in Hf; lia|].
  cbn [flat] in *. rewrite flat_if in *. cbn [app length] in Hf. rewrite !app_length in Hf. cbn [length] in Hf.
  assert (Hc : N.eqb (if neg then OPB_NOTIF else OPB_IF) OPB_ELSE = false) by (destruct neg; reflexivity).
  assert (Hc2 : N.eqb (if neg then OPB_NOTIF else OPB_IF) OPB_ENDIF = false) by (destruct neg; reflexivity).
  assert (Hc3 : (N.eqb (if neg then OPB_NOTIF else OPB_IF) OPB_IF || N.eqb (if neg then OPB_NOTIF else OPB_IF) OPB_NOTIF)%bool = true)
    by (destruct neg; reflexivity).
  assert (Hneg : N.eqb (if neg then OPB_NOTIF else OPB_IF) OPB_NOTIF = neg) by (destruct neg; reflexivity).
  destruct (IHt f ltac:(lia)) as [_ [T2 T3]].
  destruct (IHs f ltac:(lia)) as [S1 [S2 S3]].
  (* generic: after the IIf node the rest of the sequence is [flat s ++ tail] *)
  assert (G : forall tail res,
             parse_seq f (flat s ++ tail) = Some res ->
             parse_seq (S f) ((TByte (if neg then OPB_NOTIF else OPB_IF) :: flat thn ++
                               (match els with Some el => TByte OPB_ELSE :: flat el | None => [] end) ++ [TByte OPB_ENDIF])
                              ++ flat s ++ tail)
             = Some (IIf neg thn els :: fst (fst res), snd (fst res), snd res)).
  { intros tail [[s' st'] r'] Hres. cbn [app parse_seq]. rewrite Hc, Hc2, Hc3, Hneg.
    destruct els as [el|].
    - rewrite <- !app_assoc. cbn [app]. rewrite T2.
      destruct (IHe f) as [_ [_ E3]].
      { cbn [length] in Hf. lia. }
      rewrite E3, Hres. reflexivity.
    - cbn [app]. rewrite <- !app_assoc. cbn [app]. rewrite T3, Hres. reflexivity. }
  repeat split; intros.
  - specialize (G [] _ ltac:(rewrite app_nil_r; exact S1)). rewrite !app_nil_r in G. exact G.
  - specialize (G (TByte OPB_ELSE :: tl) _ (S2 tl)). rewrite <- (app_assoc _ (flat s) _). exact G.
  - specialize (G (TByte OPB_ENDIF :: tl) _ (S3 tl)). rewrite <- (app_assoc _ (flat s) _). exact G.
Qed.

Lemma parse_flat : forall s, wf_script s -> parse_ok s.
Proof.
  intros s. pose proof (script_ind' (fun i => wf_instr i -> forall r, parse_ok r -> parse_ok (i :: r))) as H.
  assert (HL : forall l, Forall (fun i => wf_instr i -> forall r, parse_ok r -> parse_ok (i :: r)) l ->
                         wf_script l -> parse_ok l).
  { induction 1 as [|i l Hi _ IH]; intros Hw; [apply parse_ok_nil|]. destruct Hw as [Hw1 Hw2]. apply Hi; auto. }
  intros Hwf. apply HL; [|exact Hwf]. apply H; clear s Hwf.
  - intros b _ r Hr. apply parse_ok_push, Hr.
  - intros n _ r Hr. apply parse_ok_num, Hr.
  - intros o Hw r Hr. apply parse_ok_op; assumption.
  - intros neg thn els Ht He Hw r Hr. destruct (proj1 (wf_if neg thn els) Hw) as [Hwt Hwe].
    apply parse_ok_if; [apply HL; assumption| |exact Hr].
    destruct els as [el|]; [apply HL; assumption|exact I].
Qed.

(* ------------------------------------------------------------------ ser_parse *)
Theorem ser_parse : forall s, wf_script s -> parse_script (serialize s) = Some s.
Proof.
  intros s Hwf. unfold parse_script. rewrite serialize_flat.
  pose proof (wf_flat s Hwf) as Hft.
  rewrite lex_toks; [|exact Hft|].
  2:{ pose proof (ser_toks_length _ Hft). lia. }
  destruct (parse_flat s Hwf (S (S (length (flat s)))) ltac:(lia)) as [H1 _]. rewrite H1. reflexivity.
Qed.

(* ------------------------------------------------------------------ the converse: what parses is canonical *)
Lemma take_n_spec {A} n (l a b : list A) : take_n n l = Some (a, b) -> l = a ++ b /\ length a = n.
Proof.
  revert l a b. induction n as [|n IH]; intros l a b H.
  - cbn in H. injection H as <- <-. auto.
  - destruct l as [|x l]; [discriminate|]. cbn [take_n] in H.
    destruct (take_n n l) as [[a' b']|] eqn:E; [|discriminate]. injection H as <- <-.
    destruct (IH l a' b' E) as [-> <-]. auto.
Qed.

Lemma split_n_spec n (l d r : bytes) : split_n n l = Some (d, r) -> l = d ++ r /\ blen d = n.
Proof.
  unfold split_n, blen. intros H. apply take_n_spec in H. destruct H as [-> H]. rewrite H, N2Nat.id. auto.
Qed.

Lemma opcode_byte_inv c : opcode_byte (byte_opcode c) = c.
Proof.
  destruct c as [|p]; [reflexivity|].
  do 8 (destruct p as [p|p|]; try reflexivity).
Qed.

(* what push_minimal says about the push opcode, by the length of the data *)
Lemma push_minimal_le75 c d : c <= 75 -> blen d = c -> push_minimal c d = true -> ser_push d = c :: d.
Proof.
  intros Hc Hl _. unfold ser_push. rewrite Hl. destruct (N.leb_spec c 75); [reflexivity|lia].
Qed.

Lemma push_minimal_len (opc : N) d : push_minimal opc d = true -> opc <> 1 ->
  (blen d <= 75 /\ opc = blen d) \/ (75 < blen d <= 255 /\ opc = 76) \/
  (255 < blen d <= 65535 /\ opc = 77) \/ (65535 < blen d /\ opc = 78).
Proof.
  unfold push_minimal. intros H Hopc.
  destruct d as [|x [|y r]].
  - change (blen []) with 0 in *. cbn [N.leb] in H. left. split; [lia|]. apply N.eqb_eq in H. exact H.
  - destruct ((1 <=? x) && (x <=? 16) || (x =? 129)); [discriminate|]. apply N.eqb_eq in H. contradiction.
  - set (n := blen (x :: y :: r)) in *.
    destruct (N.leb_spec n 75); [left; split; [lia|apply N.eqb_eq, H]|].
    destruct (N.leb_spec n 255); [right; left; split; [lia|apply N.eqb_eq, H]|].
    destruct (N.leb_spec n 65535); [right; right; left; split; [lia|apply N.eqb_eq, H]|].
    right; right; right. split; [lia|apply N.eqb_eq, H].
Qed.

Definition is_bytes (b : bytes) : Prop := Forall (fun x => x < 256) b.

Lemma is_bytes_app a b : is_bytes (a ++ b) -> is_bytes a /\ is_bytes b.
Proof. apply Forall_app. Qed.

Lemma lex_bytes_sound : forall f b ts, is_bytes b -> lex_bytes f b = Some ts -> ser_toks ts = b.
Proof.
  induction f as [|f IH]; intros b ts Hb H.
  - destruct b; [|discriminate]. injection H as <-. reflexivity.
  - destruct b as [|c r]; [injection H as <-; reflexivity|].
    cbn [lex_bytes] in H. inversion Hb as [|c' r' Hc Hr]; subst.
    destruct (N.leb_spec c 75) as [Hc75|Hc75].
    { destruct (split_n c r) as [[d r1]|] eqn:E; [|discriminate].
      destruct (push_minimal c d) eqn:Em; [|discriminate].
      destruct (lex_bytes f r1) as [ts'|] eqn:El; [|discriminate]. injection H as <-.
      destruct (split_n_spec _ _ _ _ E) as [-> Hl]. destruct (is_bytes_app _ _ Hr) as [_ Hr1].
      cbn [ser_toks ser_tok]. rewrite (push_minimal_le75 c d Hc75 Hl Em), (IH _ _ Hr1 El). reflexivity. }
    destruct (N.eqb_spec c 76) as [->|N76].
    { destruct r as [|n r0]; [discriminate|]. inversion Hr as [|n' r0' Hn Hr0]; subst.
      destruct (split_n n r0) as [[d r1]|] eqn:E; [|discriminate].
      destruct (push_minimal 76 d) eqn:Em; [|discriminate].
      destruct (lex_bytes f r1) as [ts'|] eqn:El; [|discriminate]. injection H as <-.
      destruct (split_n_spec _ _ _ _ E) as [-> Hl]. destruct (is_bytes_app _ _ Hr0) as [_ Hr1].
      destruct (push_minimal_len 76 d Em ltac:(lia)) as [[Hq1 Ho]|[[Hd Ho]|[[Hq3 Ho]|[Hq4 Ho]]]]; try lia.
      cbn [ser_toks ser_tok]. unfold ser_push. rewrite Hl in *.
      destruct (N.leb_spec n 75); [lia|]. destruct (N.leb_spec n 255); [|lia].
      rewrite (IH _ _ Hr1 El). reflexivity. }
    destruct (N.eqb_spec c 77) as [->|N77].
    { destruct r as [|lo [|hi r0]]; try discriminate.
      inversion Hr as [|? ? Hlo Hr']; subst. inversion Hr' as [|? ? Hhi Hr0]; subst.
      destruct (split_n (lo + 256 * hi) r0) as [[d r1]|] eqn:E; [|discriminate].
      destruct (push_minimal 77 d) eqn:Em; [|discriminate].
      destruct (lex_bytes f r1) as [ts'|] eqn:El; [|discriminate]. injection H as <-.
      destruct (split_n_spec _ _ _ _ E) as [-> Hl]. destruct (is_bytes_app _ _ Hr0) as [_ Hr1].
      destruct (push_minimal_len 77 d Em ltac:(lia)) as [[Hq1 Ho]|[[Hq2 Ho]|[[Hd Ho]|[Hq4 Ho]]]]; try lia.
      cbn [ser_toks ser_tok]. unfold ser_push. rewrite Hl in *.
      destruct (N.leb_spec (lo + 256 * hi) 75); [lia|]. destruct (N.leb_spec (lo + 256 * hi) 255); [lia|].
      destruct (N.leb_spec (lo + 256 * hi) 65535); [|lia].
      assert (E0 : (lo + 256 * hi) mod 256 = lo).
      { replace (lo + 256 * hi) with (lo + hi * 256) by lia. rewrite N.mod_add by lia. apply N.mod_small. lia. }
      assert (D0 : (lo + 256 * hi) / 256 = hi).
      { replace (lo + 256 * hi) with (lo + hi * 256) by lia. rewrite N.div_add by lia.
        rewrite (N.div_small lo 256) by lia. lia. }
      rewrite E0, D0.
      rewrite (IH _ _ Hr1 El). reflexivity. }
    destruct (N.eqb_spec c 78) as [->|N78].
    { destruct r as [|x0 [|x1 [|x2 [|x3 r0]]]]; try discriminate.
      inversion Hr as [|? ? H0 Hr1']; subst. inversion Hr1' as [|? ? H1 Hr2']; subst.
      inversion Hr2' as [|? ? H2 Hr3']; subst. inversion Hr3' as [|? ? H3 Hr0]; subst.
      set (n := x0 + 256 * x1 + 65536 * x2 + 16777216 * x3) in *.
      destruct (split_n n r0) as [[d r1]|] eqn:E; [|discriminate].
      destruct (push_minimal 78 d) eqn:Em; [|discriminate].
      destruct (lex_bytes f r1) as [ts'|] eqn:El; [|discriminate]. injection H as <-.
      destruct (split_n_spec _ _ _ _ E) as [-> Hl]. destruct (is_bytes_app _ _ Hr0) as [_ Hr1].
      destruct (push_minimal_len 78 d Em ltac:(lia)) as [[Hq1 Ho]|[[Hq2 Ho]|[[Hq3 Ho]|[Hd Ho]]]]; try lia.
      cbn [ser_toks ser_tok]. unfold ser_push. rewrite Hl in *.
      destruct (N.leb_spec n 75); [lia|]. destruct (N.leb_spec n 255); [lia|].
      destruct (N.leb_spec n 65535); [lia|].
      assert (E0 : n mod 256 = x0).
      { unfold n. replace (x0 + 256 * x1 + 65536 * x2 + 16777216 * x3) with (x0 + (x1 + 256 * x2 + 65536 * x3) * 256) by lia.
        rewrite N.mod_add by lia. apply N.mod_small. lia. }
      assert (D0 : n / 256 = x1 + 256 * x2 + 65536 * x3).
      { unfold n. replace (x0 + 256 * x1 + 65536 * x2 + 16777216 * x3) with (x0 + (x1 + 256 * x2 + 65536 * x3) * 256) by lia.
        rewrite N.div_add by lia. rewrite (N.div_small x0 256) by lia. lia. }
      assert (E1 : (n / 256) mod 256 = x1).
      { rewrite D0. replace (x1 + 256 * x2 + 65536 * x3) with (x1 + (x2 + 256 * x3) * 256) by lia.
        rewrite N.mod_add by lia. apply N.mod_small. lia. }
      assert (D1 : n / 65536 = x2 + 256 * x3).
      { change 65536 with (256 * 256). rewrite <- N.div_div by lia. rewrite D0.
        replace (x1 + 256 * x2 + 65536 * x3) with (x1 + (x2 + 256 * x3) * 256) by lia.
        rewrite N.div_add by lia. rewrite (N.div_small x1 256) by lia. lia. }
      assert (E2 : (n / 65536) mod 256 = x2).
      { rewrite D1. replace (x2 + 256 * x3) with (x2 + x3 * 256) by lia. rewrite N.mod_add by lia. apply N.mod_small. lia. }
      assert (D2 : n / 16777216 = x3).
      { change 16777216 with (65536 * 256). rewrite <- N.div_div by lia. rewrite D1.
        replace (x2 + 256 * x3) with (x2 + x3 * 256) by lia. rewrite N.div_add by lia.
        rewrite (N.div_small x2 256) by lia. lia. }
      rewrite E0, E1, E2, D2. rewrite (IH _ _ Hr1 El). reflexivity. }
    destruct (N.eqb_spec c 79) as [->|N79].
    { destruct (lex_bytes f r) as [ts'|] eqn:El; [|discriminate]. injection H as <-.
      cbn [ser_toks ser_tok]. rewrite (IH _ _ Hr El). reflexivity. }
    destruct (N.leb_spec 81 c) as [H81|H81]; [destruct (N.leb_spec c 96) as [H96|H96]|]; cbn [andb] in H.
    { destruct (lex_bytes f r) as [ts'|] eqn:El; [|discriminate]. injection H as <-.
      cbn [ser_toks ser_tok]. unfold ser_num. destruct (Z.eqb_spec (Z.of_N c - 80) (-1)); [lia|].
      replace (Z.to_N (80 + (Z.of_N c - 80))) with c by lia. rewrite (IH _ _ Hr El). reflexivity. }
    { destruct (lex_bytes f r) as [ts'|] eqn:El; [|discriminate]. injection H as <-.
      cbn [ser_toks ser_tok app]. rewrite (IH _ _ Hr El). reflexivity. }
    { destruct (lex_bytes f r) as [ts'|] eqn:El; [|discriminate]. injection H as <-.
      cbn [ser_toks ser_tok app]. rewrite (IH _ _ Hr El). reflexivity. }
Qed.

Lemma parse_seq_sound : forall f ts s st r', parse_seq f ts = Some (s, st, r') ->
  ts = flat s ++ stop_toks st ++ r' /\ (st = AtEnd -> r' = []).
Proof.
  induction f as [|f IH]; intros ts s st r' H; [discriminate|].
  cbn [parse_seq] in H. destruct ts as [|t r].
  - injection H as <- <- <-. split; [reflexivity|auto].
  - destruct t as [d|n|c].
    + destruct (parse_seq f r) as [[[s0 st0] r0]|] eqn:E; [|discriminate]. injection H as <- <- <-.
      destruct (IH _ _ _ _ E) as [-> Hend]. split; [reflexivity|exact Hend].
    + destruct (parse_seq f r) as [[[s0 st0] r0]|] eqn:E; [|discriminate]. injection H as <- <- <-.
      destruct (IH _ _ _ _ E) as [-> Hend]. split; [reflexivity|exact Hend].
    + destruct (N.eqb_spec c OPB_ELSE) as [->|NE]; [injection H as <- <- <-; split; [reflexivity|discriminate]|].
      destruct (N.eqb_spec c OPB_ENDIF) as [->|NF]; [injection H as <- <- <-; split; [reflexivity|discriminate]|].
      destruct (N.eqb c OPB_IF || N.eqb c OPB_NOTIF) eqn:Eif.
      * assert (Hc : c = if N.eqb c OPB_NOTIF then OPB_NOTIF else OPB_IF).
        { destruct (N.eqb_spec c OPB_NOTIF) as [->|]; [reflexivity|].
          destruct (N.eqb_spec c OPB_IF) as [->|]; [reflexivity|discriminate]. }
        destruct (parse_seq f r) as [[[thn st1] r1]|] eqn:E1; [|discriminate].
        destruct (IH _ _ _ _ E1) as [-> _].
        destruct st1; [discriminate| |].
        -- (* ELSE *) destruct (parse_seq f r1) as [[[el st2] r2]|] eqn:E2; [|discriminate].
           destruct st2; try discriminate.
           destruct (parse_seq f r2) as [[[s0 st0] r0]|] eqn:E3; [|discriminate]. injection H as <- <- <-.
           destruct (IH _ _ _ _ E2) as [-> _]. destruct (IH _ _ _ _ E3) as [-> Hend].
           split; [|exact Hend]. cbn [flat]. rewrite flat_if. cbn [stop_toks app]. rewrite <- Hc.
           rewrite <- !app_assoc. cbn [app]. rewrite <- !app_assoc. reflexivity.
        -- (* ENDIF *) destruct (parse_seq f r1) as [[[s0 st0] r0]|] eqn:E3; [|discriminate]. injection H as <- <- <-.
           destruct (IH _ _ _ _ E3) as [-> Hend].
           split; [|exact Hend]. cbn [flat]. rewrite flat_if. cbn [stop_toks app]. rewrite <- Hc.
           rewrite <- !app_assoc. reflexivity.
      * destruct (parse_seq f r) as [[[s0 st0] r0]|] eqn:E; [|discriminate]. injection H as <- <- <-.
        destruct (IH _ _ _ _ E) as [-> Hend]. split; [|exact Hend].
        cbn [flat flat_instr app]. rewrite opcode_byte_inv. reflexivity.
Qed.

(* any byte string that parses is the serialisation of what it parses to *)
Theorem parse_ser : forall b s, is_bytes b -> parse_script b = Some s -> serialize s = b.
Proof.
  intros b s Hb H. unfold parse_script in H.
  destruct (lex_bytes (S (length b)) b) as [ts|] eqn:El; [|discriminate].
  destruct (parse_seq (S (S (length ts))) ts) as [[[s0 st] r]|] eqn:Ep; [|discriminate].
  destruct st; try discriminate. destruct r; [|discriminate]. injection H as <-.
  destruct (parse_seq_sound _ _ _ _ _ Ep) as [-> _]. cbn [stop_toks] in El. rewrite !app_nil_r in El.
  rewrite serialize_flat. apply (lex_bytes_sound _ _ _ Hb El).
Qed.
