(* C04 [T1] ser_parse: Script/Ser.v's parser inverts its serialiser on well-formed structured
   scripts, and every byte string that parses is the serialisation of what it parses to. *)
From Coq Require Import Lia.
From Verif Require Import Ser.
Local Open Scope N_scope.

(* decide the N comparisons of the goal, closing impossible branches by lia *)
Ltac nb := repeat match goal with
  | |- context [N.leb ?a ?b] => destruct (N.leb_spec a b); try lia
  | |- context [N.ltb ?a ?b] => destruct (N.ltb_spec a b); try lia
  | |- context [N.eqb ?a ?b] => destruct (N.eqb_spec a b); try lia
  end.

(* ------------------------------------------------------------------ induction over structured scripts *)
Section InstrInd.
  Variable P : instr -> Prop.
  Hypothesis HPush : forall b, P (IPush b).
  Hypothesis HNum : forall n, P (INum n).
  Hypothesis HOp : forall o, P (IOp o).
  Hypothesis HIf : forall neg thn els, Forall P thn ->
    (match els with Some el => Forall P el | None => True end) -> P (IIf neg thn els).
  Fixpoint instr_ind' (i : instr) : P i :=
    let go := fix go (l : list instr) : Forall P l :=
      match l with [] => Forall_nil P | j :: r => Forall_cons j (instr_ind' j) (go r) end in
    match i with
    | IPush b => HPush b | INum n => HNum n | IOp o => HOp o
    | IIf neg thn els =>
      HIf neg thn els (go thn) (match els with Some el => go el | None => I end)
    end.
  Lemma script_ind' : forall s : script, Forall P s.
  Proof. induction s; constructor; [apply instr_ind'|assumption]. Qed.
End InstrInd.

(* ------------------------------------------------------------------ serialiser facts *)
Lemma ser_list_eq (l : list instr) :
  (fix ser_list (l : list instr) : bytes :=
     match l with [] => [] | j :: r => ser_instr j ++ ser_list r end) l = serialize l.
Proof. reflexivity. Qed.

Lemma ser_if neg thn els :
  ser_instr (IIf neg thn els) =
  (if neg then OPB_NOTIF else OPB_IF) :: serialize thn ++
  (match els with Some el => OPB_ELSE :: serialize el | None => [] end) ++ [OPB_ENDIF].
Proof. destruct els; reflexivity. Qed.

Lemma serialize_app a b : serialize (a ++ b) = serialize a ++ serialize b.
Proof. induction a as [|i a IH]; [reflexivity|]. cbn [serialize app]. rewrite IH, app_assoc. reflexivity. Qed.

Lemma serialize_cons i s : serialize (i :: s) = ser_instr i ++ serialize s.
Proof. reflexivity. Qed.

(* ------------------------------------------------------------------ flat token form *)
Fixpoint flat_instr (i : instr) : list tok :=
  match i with
  | IPush d => [TPush d]
  | INum n => [TNum n]
  | IOp o => [TByte (opcode_byte o)]
  | IIf neg thn els =>
    let go := fix go (l : list instr) : list tok :=
      match l with [] => [] | j :: r => flat_instr j ++ go r end in
    TByte (if neg then OPB_NOTIF else OPB_IF) :: go thn ++
    (match els with Some el => TByte OPB_ELSE :: go el | None => [] end) ++ [TByte OPB_ENDIF]
  end.
Fixpoint flat (s : script) : list tok :=
  match s with [] => [] | i :: r => flat_instr i ++ flat r end.

Lemma flat_list_eq (l : list instr) :
  (fix go (l : list instr) : list tok := match l with [] => [] | j :: r => flat_instr j ++ go r end) l = flat l.
Proof. reflexivity. Qed.

Lemma flat_if neg thn els :
  flat_instr (IIf neg thn els) =
  TByte (if neg then OPB_NOTIF else OPB_IF) :: flat thn ++
  (match els with Some el => TByte OPB_ELSE :: flat el | None => [] end) ++ [TByte OPB_ENDIF].
Proof. destruct els; reflexivity. Qed.

Definition ser_tok (t : tok) : bytes :=
  match t with TPush d => ser_push d | TNum n => ser_num n | TByte c => [c] end.
Fixpoint ser_toks (ts : list tok) : bytes :=
  match ts with [] => [] | t :: r => ser_tok t ++ ser_toks r end.

Lemma ser_toks_app a b : ser_toks (a ++ b) = ser_toks a ++ ser_toks b.
Proof. induction a as [|t a IH]; [reflexivity|]. cbn [ser_toks app]. rewrite IH, app_assoc. reflexivity. Qed.

Lemma serialize_flat : forall s, serialize s = ser_toks (flat s).
Proof.
  intros s. assert (H := script_ind' (fun i => ser_instr i = ser_toks (flat_instr i))).
  assert (HL : forall l, Forall (fun i => ser_instr i = ser_toks (flat_instr i)) l -> serialize l = ser_toks (flat l)).
  { induction 1 as [|i l Hi _ IH]; [reflexivity|]. cbn [serialize flat]. rewrite ser_toks_app, Hi, IH. reflexivity. }
  apply HL, H; clear s.
  - intros b. cbn [flat_instr ser_toks ser_tok ser_instr]. rewrite app_nil_r. reflexivity.
  - intros n. cbn [flat_instr ser_toks ser_tok ser_instr]. rewrite app_nil_r. reflexivity.
  - intros o. reflexivity.
  - intros neg thn els Ht He. rewrite ser_if, flat_if. cbn [ser_toks ser_tok app].
    rewrite ser_toks_app, (HL thn Ht). f_equal. f_equal.
    destruct els as [el|].
    + cbn [app ser_toks ser_tok]. rewrite ser_toks_app, (HL el He). reflexivity.
    + reflexivity.
Qed.

(* ------------------------------------------------------------------ well-formedness *)
(* a push that ser_push writes minimally: anything but a single byte 1..16 / 0x81 *)
Definition wf_push (d : bytes) : Prop :=
  match d with [x] => ((1 <=? x) && (x <=? 16) || (x =? 129)) = false | _ => True end.
Definition wf_num (n : Z) : Prop := (n = -1 \/ 1 <= n <= 16)%Z.
(* an opcode byte that is neither a push, a number, nor IF/NOTIF/ELSE/ENDIF *)
Definition wf_byte (c : N) : Prop :=
  (c = 80 \/ 96 < c) /\ c <> OPB_IF /\ c <> OPB_NOTIF /\ c <> OPB_ELSE /\ c <> OPB_ENDIF.
Definition wf_op (o : opcode) : Prop := wf_byte (opcode_byte o) /\ byte_opcode (opcode_byte o) = o.

Definition wf_tok (t : tok) : Prop :=
  match t with
  | TPush d => wf_push d
  | TNum n => wf_num n
  | TByte c => (c = 80 \/ 96 < c)
  end.

Fixpoint wf_instr (i : instr) : Prop :=
  let go := fix go (l : list instr) : Prop := match l with [] => True | j :: r => wf_instr j /\ go r end in
  match i with
  | IPush d => wf_push d
  | INum n => wf_num n
  | IOp o => wf_op o
  | IIf _ thn els => go thn /\ match els with Some el => go el | None => True end
  end.
Fixpoint wf_script (s : script) : Prop :=
  match s with [] => True | i :: r => wf_instr i /\ wf_script r end.

Lemma wf_if neg thn els :
  wf_instr (IIf neg thn els) <-> wf_script thn /\ match els with Some el => wf_script el | None => True end.
Proof. destruct els; reflexivity. Qed.

(* ------------------------------------------------------------------ lexing the serialisation *)
Lemma take_n_app {A} (a b : list A) : take_n (length a) (a ++ b) = Some (a, b).
Proof. induction a as [|x a IH]; [reflexivity|]. cbn [length take_n app]. rewrite IH. reflexivity. Qed.

Lemma split_n_app (d r : bytes) : split_n (blen d) (d ++ r) = Some (d, r).
Proof. unfold split_n, blen. rewrite Nat2N.id. apply take_n_app. Qed.

Lemma blen_cons x (d : bytes) : blen (x :: d) = blen d + 1.
Proof. unfold blen. cbn [length]. lia. Qed.

Lemma push_minimal_ser (d : bytes) : wf_push d ->
  push_minimal (hd 0 (ser_push d)) d = true.
Proof.
  intros Hwf. unfold ser_push, push_minimal.
  destruct d as [|x [|y r]].
  - reflexivity.
  - cbn in Hwf. change (blen [x]) with 1. cbn [N.leb hd]. rewrite Hwf. reflexivity.
  - set (n := blen (x :: y :: r)).
    destruct (N.leb n 75) eqn:E1; cbn [hd]; [apply N.eqb_refl|].
    destruct (N.leb n 255) eqn:E2; cbn [hd]; [reflexivity|].
    destruct (N.leb n 65535) eqn:E3; cbn [hd]; reflexivity.
Qed.

Lemma lex_push (f : nat) (d rest : bytes) : wf_push d ->
  lex_bytes (S f) (ser_push d ++ rest) = option_map (cons (TPush d)) (lex_bytes f rest).
Proof.
  intros Hwf. pose proof (push_minimal_ser d Hwf) as Hmin. unfold ser_push in *.
  set (n := blen d) in *.
  destruct (N.leb n 75) eqn:E1.
  - cbn [app hd lex_bytes] in *. rewrite E1. unfold n at 1. rewrite split_n_app. rewrite Hmin. reflexivity.
  - destruct (N.leb n 255) eqn:E2.
    + cbn [app hd lex_bytes] in *. change (N.leb 76 75) with false. cbn [N.eqb]. cbv iota.
      change (N.eqb 76 76) with true. cbv iota. unfold n at 1. rewrite split_n_app, Hmin. reflexivity.
    + destruct (N.leb n 65535) eqn:E3.
      * cbn [app hd lex_bytes] in *. change (N.leb 77 75) with false. cbv iota.
        change (N.eqb 77 76) with false. change (N.eqb 77 77) with true. cbv iota.
        replace (n mod 256 + 256 * (n / 256)) with n by (pose proof (N.div_mod n 256 ltac:(lia)); lia).
        unfold n at 1. rewrite split_n_app, Hmin. reflexivity.
      * cbn [app hd lex_bytes] in *. change (N.leb 78 75) with false. cbv iota.
        change (N.eqb 78 76) with false. change (N.eqb 78 77) with false. change (N.eqb 78 78) with true. cbv iota.
        replace (n mod 256 + 256 * ((n / 256) mod 256) + 65536 * ((n / 65536) mod 256) + 16777216 * (n / 16777216))
          with n.
        { unfold n at 1. rewrite split_n_app, Hmin. reflexivity. }
        assert (H1 := N.div_mod n 256 ltac:(lia)). assert (H2 := N.div_mod (n / 256) 256 ltac:(lia)).
        assert (H3 := N.div_mod (n / 256 / 256) 256 ltac:(lia)).
        rewrite !N.div_div in H3 by lia. rewrite N.div_div in H2 by lia.
        change (256 * 256) with 65536 in *. change (65536 * 256) with 16777216 in *. lia.
Qed.

Lemma lex_num (f : nat) (n : Z) (rest : bytes) : wf_num n ->
  lex_bytes (S f) (ser_num n ++ rest) = option_map (cons (TNum n)) (lex_bytes f rest).
Proof.
  intros [->|Hn]; [reflexivity|].
  unfold ser_num. replace (n =? -1)%Z with false by lia.
  assert (Hc : exists c, Z.to_N (80 + n) = c /\ 81 <= c <= 96 /\ (Z.of_N c - 80 = n)%Z).
  { exists (Z.to_N (80 + n)). split; [reflexivity|]. lia. }
  destruct Hc as [c [-> [Hc Hz]]]. cbn [app lex_bytes].
  nb. cbn [andb]. rewrite Hz. reflexivity.
Qed.

Lemma lex_byte (f : nat) (c : N) (rest : bytes) : (c = 80 \/ 96 < c) ->
  lex_bytes (S f) (c :: rest) = option_map (cons (TByte c)) (lex_bytes f rest).
Proof.
  intros Hc. cbn [lex_bytes].
  nb; reflexivity.
Qed.

Lemma lex_toks : forall ts, Forall wf_tok ts -> forall f, (length ts <= f)%nat ->
  lex_bytes f (ser_toks ts) = Some ts.
Proof.
  induction 1 as [|t ts Ht _ IH]; intros f Hf.
  - destruct f; reflexivity.
  - destruct f as [|f]; [cbn in Hf; lia|]. cbn [ser_toks]. cbn [length] in Hf.
    destruct t as [d|n|c]; cbn [ser_tok].
    + rewrite lex_push by exact Ht. rewrite IH by lia. reflexivity.
    + rewrite lex_num by exact Ht. rewrite IH by lia. reflexivity.
    + cbn [app]. rewrite lex_byte by exact Ht. rewrite IH by lia. reflexivity.
Qed.

Lemma ser_tok_nonempty t : wf_tok t -> (1 <= length (ser_tok t))%nat.
Proof.
  destruct t as [d|n|c]; cbn [ser_tok]; intros H.
  - unfold ser_push. repeat match goal with |- context [if ?b then _ else _] => destruct b end; cbn [length]; lia.
  - unfold ser_num. destruct (n =? -1)%Z; cbn; lia.
  - cbn; lia.
Qed.

Lemma ser_toks_length ts : Forall wf_tok ts -> (length ts <= length (ser_toks ts))%nat.
Proof.
  induction 1 as [|t ts Ht _ IH]; [cbn; lia|]. cbn [ser_toks length]. rewrite app_length.
  pose proof (ser_tok_nonempty t Ht). lia.
Qed.

(* ------------------------------------------------------------------ wf scripts have wf flat tokens *)
Lemma wf_byte_tok c : wf_byte c -> wf_tok (TByte c).
Proof. intros [H _]. exact H. Qed.

Lemma Forall_app_intro {A} (P : A -> Prop) a b : Forall P a -> Forall P b -> Forall P (a ++ b).
Proof. intros. apply Forall_app. split; assumption. Qed.

Lemma wf_flat : forall s, wf_script s -> Forall wf_tok (flat s).
Proof.
  intros s. pose proof (script_ind' (fun i => wf_instr i -> Forall wf_tok (flat_instr i))) as H.
  assert (HL : forall l, Forall (fun i => wf_instr i -> Forall wf_tok (flat_instr i)) l ->
                         wf_script l -> Forall wf_tok (flat l)).
  { induction 1 as [|i l Hi _ IH]; intros Hw; [constructor|]. destruct Hw as [Hw1 Hw2].
    cbn [flat]. apply Forall_app_intro; auto. }
  intros Hwf. apply HL; [|exact Hwf]. apply H; clear s Hwf.
  - intros b Hw. constructor; [exact Hw|constructor].
  - intros n Hw. constructor; [exact Hw|constructor].
  - intros o [Hb _]. constructor; [apply wf_byte_tok, Hb|constructor].
  - intros neg thn els Ht He Hw. destruct (proj1 (wf_if neg thn els) Hw) as [Hwt Hwe].
    rewrite flat_if. constructor.
    { destruct neg; cbn; right; unfold OPB_NOTIF, OPB_IF; lia. }
    apply Forall_app_intro; [apply HL; assumption|].
    apply Forall_app_intro.
    + destruct els as [el|]; [|constructor]. constructor; [cbn; right; unfold OPB_ELSE; lia|]. apply HL; assumption.
    + constructor; [cbn; right; unfold OPB_ENDIF; lia|constructor].
Qed.

(* ------------------------------------------------------------------ parse_seq on flat tokens *)
Definition stop_toks (st : stop) : list tok :=
  match st with AtEnd => [] | AtElse => [TByte OPB_ELSE] | AtEndif => [TByte OPB_ENDIF] end.

(* the statement for one script: whatever follows (nothing, or ELSE/ENDIF and more) *)
Definition parse_ok (s : script) : Prop :=
  forall f, (length (flat s) < f)%nat ->
    parse_seq f (flat s) = Some (s, AtEnd, []) /\
    (forall tl, parse_seq f (flat s ++ TByte OPB_ELSE :: tl) = Some (s, AtElse, tl)) /\
    (forall tl, parse_seq f (flat s ++ TByte OPB_ENDIF :: tl) = Some (s, AtEndif, tl)).

Lemma parse_ok_nil : parse_ok [].
Proof.
  intros f Hf. destruct f as [|f]; [cbn in Hf; lia|]. cbn [flat app parse_seq].
  repeat split; intros; reflexivity.
Qed.

(* one leading simple token *)
Lemma parse_ok_push d s : parse_ok s -> parse_ok (IPush d :: s).
Proof.
  intros IH f Hf. destruct f as [|f]; [cbn in Hf; lia|]. cbn [flat flat_instr app length] in *.
  destruct (IH f ltac:(lia)) as [H1 [H2 H3]].
  repeat split; intros; cbn [parse_seq]; [rewrite H1|rewrite H2|rewrite H3]; reflexivity.
Qed.
Lemma parse_ok_num n s : parse_ok s -> parse_ok (INum n :: s).
Proof.
  intros IH f Hf. destruct f as [|f]; [cbn in Hf; lia|]. cbn [flat flat_instr app length] in *.
  destruct (IH f ltac:(lia)) as [H1 [H2 H3]].
  repeat split; intros; cbn [parse_seq]; [rewrite H1|rewrite H2|rewrite H3]; reflexivity.
Qed.
Lemma parse_ok_op o s : wf_op o -> parse_ok s -> parse_ok (IOp o :: s).
Proof.
  intros [[_ [Hi [Hn [He Hd]]]] Hb] IH f Hf. destruct f as [|f]; [cbn in Hf; lia|].
  cbn [flat flat_instr app length] in *.
  destruct (IH f ltac:(lia)) as [H1 [H2 H3]].
  assert (E1 : N.eqb (opcode_byte o) OPB_ELSE = false) by (apply N.eqb_neq; assumption).
  assert (E2 : N.eqb (opcode_byte o) OPB_ENDIF = false) by (apply N.eqb_neq; assumption).
  assert (E3 : N.eqb (opcode_byte o) OPB_IF = false) by (apply N.eqb_neq; assumption).
  assert (E4 : N.eqb (opcode_byte o) OPB_NOTIF = false) by (apply N.eqb_neq; assumption).
  repeat split; intros; cbn [parse_seq]; rewrite E1, E2, E3, E4; cbn [orb];
    [rewrite H1|rewrite H2|rewrite H3]; rewrite Hb; reflexivity.
Qed.

Lemma parse_ok_if neg thn els s :
  parse_ok thn -> (match els with Some el => parse_ok el | None => True end) -> parse_ok s ->
  parse_ok (IIf neg thn els :: s).
Proof.
  intros IHt IHe IHs f Hf. destruct f as [|f]; [cbn in Hf; lia|].
  cbn [flat] in *. rewrite flat_if in *. cbn [app length] in Hf. rewrite !app_length in Hf. cbn [length] in Hf.
  assert (Hc : N.eqb (if neg then OPB_NOTIF else OPB_IF) OPB_ELSE = false) by (destruct neg; reflexivity).
  assert (Hc2 : N.eqb (if neg then OPB_NOTIF else OPB_IF) OPB_ENDIF = false) by (destruct neg; reflexivity).
  assert (Hc3 : (N.eqb (if neg then OPB_NOTIF else OPB_IF) OPB_IF || N.eqb (if neg then OPB_NOTIF else OPB_IF) OPB_NOTIF)%bool = true)
    by (destruct neg; reflexivity).
  assert (Hneg : N.eqb (if neg then OPB_NOTIF else OPB_IF) OPB_NOTIF = neg) by (destruct neg; reflexivity).
  destruct (IHt f ltac:(lia)) as [_ [T2 T3]].
  destruct (IHs f ltac:(lia)) as [S1 [S2 S3]].
  (* generic: after the IIf node the rest of the sequence is [flat s ++ tail] *)
  assert (G : forall tail res,
             parse_seq f (flat s ++ tail) = Some res ->
             parse_seq (S f) ((TByte (if neg then OPB_NOTIF else OPB_IF) :: flat thn ++
                               (match els with Some el => TByte OPB_ELSE :: flat el | None => [] end) ++ [TByte OPB_ENDIF])
                              ++ flat s ++ tail)
             = Some (IIf neg thn els :: fst (fst res), snd (fst res), snd res)).
  { intros tail [[s' st'] r'] Hres. cbn [app parse_seq]. rewrite Hc, Hc2, Hc3, Hneg.
    destruct els as [el|].
    - rewrite <- !app_assoc. cbn [app]. rewrite T2.
      destruct (IHe f) as [_ [_ E3]].
      { cbn [length] in Hf. lia. }
      rewrite E3, Hres. reflexivity.
    - cbn [app]. rewrite <- !app_assoc. cbn [app]. rewrite T3, Hres. reflexivity. }
  repeat split; intros.
  - specialize (G [] _ ltac:(rewrite app_nil_r; exact S1)). rewrite !app_nil_r in G. exact G.
  - specialize (G (TByte OPB_ELSE :: tl) _ (S2 tl)). rewrite <- (app_assoc _ (flat s) _). exact G.
  - specialize (G (TByte OPB_ENDIF :: tl) _ (S3 tl)). rewrite <- (app_assoc _ (flat s) _). exact G.
Qed.

Lemma parse_flat : forall s, wf_script s -> parse_ok s.
Proof.
  intros s. pose proof (script_ind' (fun i => wf_instr i -> forall r, parse_ok r -> parse_ok (i :: r))) as H.
  assert (HL : forall l, Forall (fun i => wf_instr i -> forall r, parse_ok r -> parse_ok (i :: r)) l ->
                         wf_script l -> parse_ok l).
  { induction 1 as [|i l Hi _ IH]; intros Hw; [apply parse_ok_nil|]. destruct Hw as [Hw1 Hw2]. apply Hi; auto. }
  intros Hwf. apply HL; [|exact Hwf]. apply H; clear s Hwf.
  - intros b _ r Hr. apply parse_ok_push, Hr.
  - intros n _ r Hr. apply parse_ok_num, Hr.
  - intros o Hw r Hr. apply parse_ok_op; assumption.
  - intros neg thn els Ht He Hw r Hr. destruct (proj1 (wf_if neg thn els) Hw) as [Hwt Hwe].
    apply parse_ok_if; [apply HL; assumption| |exact Hr].
    destruct els as [el|]; [apply HL; assumption|exact I].
Qed.

(* ------------------------------------------------------------------ ser_parse *)
Theorem ser_parse : forall s, wf_script s -> parse_script (serialize s) = Some s.
Proof.
  intros s Hwf. unfold parse_script. rewrite serialize_flat.
  pose proof (wf_flat s Hwf) as Hft.
  rewrite lex_toks; [|exact Hft|].
  2:{ pose proof (ser_toks_length _ Hft). lia. }
  destruct (parse_flat s Hwf (S (S (length (flat s)))) ltac:(lia)) as [H1 _]. rewrite H1. reflexivity.
Qed.
