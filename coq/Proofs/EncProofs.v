(* C04 [T1]: facts about the encoder `enc` (Ms/Ast.v) on well-formed miniscripts
   (Ms/CodecSpec.v ms_wf):
     enc_tokens      script_tokens (enc m) = mtoks m          (the expected token list)
     enc_lexable     the lexer digests serialize (enc m)       (=> lex_enc)
     enc_wf          enc m is a well-formed structured script  (=> parse_script inverts encode)
     script_size_ok  Miniscript::script_size = length of the encoding
     hfv_last        ExtData::has_free_verify <=> the last opcode folds into its VERIFY form *)
From Coq Require Import Lia.
From Verif Require Import CodecSpec SerProofs CodecNumProofs LexProofs.
Local Open Scope N_scope.

(* ------------------------------------------------------------------ induction over the nested AST *)
Section MsInd.
  Variable P : ms -> Prop.
  Hypothesis HTrue : P MTrue. Hypothesis HFalse : P MFalse.
  Hypothesis HPkK : forall k, P (MPkK k). Hypothesis HPkH : forall k, P (MPkH k).
  Hypothesis HRaw : forall h, P (MRawPkH h).
  Hypothesis HAfter : forall t, P (MAfter t). Hypothesis HOlder : forall t, P (MOlder t).
  Hypothesis HSha : forall h, P (MSha256 h). Hypothesis HH256 : forall h, P (MHash256 h).
  Hypothesis HRip : forall h, P (MRipemd160 h). Hypothesis HH160 : forall h, P (MHash160 h).
  Hypothesis HAlt : forall x, P x -> P (MAlt x). Hypothesis HSwap : forall x, P x -> P (MSwap x).
  Hypothesis HCheck : forall x, P x -> P (MCheck x). Hypothesis HDupIf : forall x, P x -> P (MDupIf x).
  Hypothesis HVerify : forall x, P x -> P (MVerify x). Hypothesis HNonZero : forall x, P x -> P (MNonZero x).
  Hypothesis HZne : forall x, P x -> P (MZeroNotEqual x).
  Hypothesis HAndV : forall x y, P x -> P y -> P (MAndV x y).
  Hypothesis HAndB : forall x y, P x -> P y -> P (MAndB x y).
  Hypothesis HAndOr : forall a b c, P a -> P b -> P c -> P (MAndOr a b c).
  Hypothesis HOrB : forall x y, P x -> P y -> P (MOrB x y).
  Hypothesis HOrD : forall x y, P x -> P y -> P (MOrD x y).
  Hypothesis HOrC : forall x y, P x -> P y -> P (MOrC x y).
  Hypothesis HOrI : forall x y, P x -> P y -> P (MOrI x y).
  Hypothesis HThresh : forall k xs, Forall P xs -> P (MThresh k xs).
  Hypothesis HMulti : forall k ks, P (MMulti k ks). Hypothesis HSMulti : forall k ks, P (MSortedMulti k ks).
  Hypothesis HMultiA : forall k ks, P (MMultiA k ks). Hypothesis HSMultiA : forall k ks, P (MSortedMultiA k ks).
  Fixpoint ms_ind2 (m : ms) : P m :=
    match m with
    | MTrue => HTrue | MFalse => HFalse | MPkK k => HPkK k | MPkH k => HPkH k | MRawPkH h => HRaw h
    | MAfter t => HAfter t | MOlder t => HOlder t
    | MSha256 h => HSha h | MHash256 h => HH256 h | MRipemd160 h => HRip h | MHash160 h => HH160 h
    | MAlt x => HAlt x (ms_ind2 x) | MSwap x => HSwap x (ms_ind2 x) | MCheck x => HCheck x (ms_ind2 x)
    | MDupIf x => HDupIf x (ms_ind2 x) | MVerify x => HVerify x (ms_ind2 x)
    | MNonZero x => HNonZero x (ms_ind2 x) | MZeroNotEqual x => HZne x (ms_ind2 x)
    | MAndV x y => HAndV x y (ms_ind2 x) (ms_ind2 y) | MAndB x y => HAndB x y (ms_ind2 x) (ms_ind2 y)
    | MAndOr a b c => HAndOr a b c (ms_ind2 a) (ms_ind2 b) (ms_ind2 c)
    | MOrB x y => HOrB x y (ms_ind2 x) (ms_ind2 y) | MOrD x y => HOrD x y (ms_ind2 x) (ms_ind2 y)
    | MOrC x y => HOrC x y (ms_ind2 x) (ms_ind2 y) | MOrI x y => HOrI x y (ms_ind2 x) (ms_ind2 y)
    | MThresh k xs =>
      HThresh k xs ((fix go (l : list ms) : Forall P l :=
                       match l with [] => Forall_nil P | x :: r => Forall_cons x (ms_ind2 x) (go r) end) xs)
    | MMulti k ks => HMulti k ks | MSortedMulti k ks => HSMulti k ks
    | MMultiA k ks => HMultiA k ks | MSortedMultiA k ks => HSMultiA k ks
    end.
End MsInd.

(* ------------------------------------------------------------------ a compound notion of "good" script
   G c s n: s is lexable after anything, Ser-well-formed, non-empty, has tokens toks and
   serialises to n bytes *)
Definition LX (s : script) : Prop := forall p, lx_script p s.
Definition slen (s : script) : N := blen (serialize s).

Record good (s : script) (toks : list token) (n : N) : Prop := mkGood {
  g_lx : LX s;
  g_wf : wf_script s;
  g_ne : s <> [];
  g_toks : script_tokens s = toks;
  g_len : slen s = n
}.

Lemma blen_app (a b : bytes) : blen (a ++ b) = blen a + blen b.
Proof. unfold blen. rewrite app_length. lia. Qed.
Lemma slen_app a b : slen (a ++ b) = slen a + slen b.
Proof. unfold slen. rewrite serialize_app. apply blen_app. Qed.

Lemma wf_script_app a b : wf_script (a ++ b) <-> wf_script a /\ wf_script b.
Proof. induction a as [|i a IH]; cbn [app wf_script]; [tauto|]. rewrite IH. tauto. Qed.

Lemma LX_app a b : LX a -> LX b -> LX (a ++ b).
Proof. intros Ha Hb p. apply lx_script_app. split; [apply Ha|apply Hb]. Qed.

Lemma good_app a b ta tb na nb : good a ta na -> good b tb nb -> good (a ++ b) (ta ++ tb) (na + nb).
Proof.
  intros [A1 A2 A3 A4 A5] [B1 B2 B3 B4 B5]. constructor.
  - apply LX_app; assumption.
  - apply wf_script_app. split; assumption.
  - destruct a; [contradiction|discriminate].
  - rewrite script_tokens_app, A4, B4. reflexivity.
  - rewrite slen_app, A5, B5. reflexivity.
Qed.

(* single named opcode other than OP_VERIFY *)
Lemma wf_op_named o : named o -> wf_op o.
Proof.
  destruct o; cbn; try contradiction; intros _; (split; [|reflexivity]);
    unfold wf_byte, OPB_IF, OPB_NOTIF, OPB_ELSE, OPB_ENDIF; cbn; repeat split; try lia; right; lia.
Qed.

Lemma good_op o : named o -> o <> OP_VERIFY -> good [IOp o] (opcode_tokens o) 1.
Proof.
  intros Hn Hv. constructor.
  - intros p. cbn. repeat split; [exact Hn|intros E; contradiction].
  - cbn. split; [apply wf_op_named, Hn|exact I].
  - discriminate.
  - cbn. apply app_nil_r.
  - reflexivity.
Qed.

(* a push of 20/32/33/65 bytes *)
Lemma good_push_fixed d : blen d = 20 \/ blen d = 32 \/ blen d = 33 \/ blen d = 65 ->
  good [IPush d] [push_token d] (blen d + 1).
Proof.
  intros Hd. constructor.
  - intros p. cbn. split; [|exact I]. unfold push_ok. tauto.
  - cbn. split; [|exact I]. destruct d as [|x [|y r]]; cbn; try exact I. unfold blen in Hd. cbn in Hd. lia.
  - discriminate.
  - reflexivity.
  - unfold slen. cbn [serialize ser_instr]. rewrite app_nil_r. unfold ser_push.
    destruct (N.leb_spec (blen d) 75); [|lia]. rewrite blen_cons. reflexivity.
Qed.

(* ------------------------------------------------------------------ push_int *)
Lemma push_int_cases n : (0 <= n < 2147483648)%Z ->
  (n = 0%Z /\ push_int n = IPush []) \/ ((1 <= n <= 16)%Z /\ push_int n = INum n) \/
  ((17 <= n)%Z /\ push_int n = IPush (num_encode n)).
Proof.
  intros Hn. unfold push_int.
  destruct (Z.eqb_spec n 0); [left; auto|].
  destruct (Z.eqb_spec n (-1)); [lia|]. cbn [orb].
  destruct (Z.leb_spec 1 n), (Z.leb_spec n 16); cbn [andb]; [right; left; split; [lia|reflexivity]|..];
    right; right; split; try lia; reflexivity.
Qed.

Lemma num_push_ok n : (17 <= n < 2147483648)%Z -> push_ok (num_encode n) /\ blen (num_encode n) = num_len n.
Proof.
  intros Hn. assert (Hr : (0 <= n < 2147483648)%Z) by lia.
  pose proof (num_encode_len n Hr) as Hl. split; [|exact Hl].
  right. right. right. right. split; [|split; [|split]].
  - rewrite Hl. unfold num_len. repeat match goal with |- context [if ?c then _ else _] => destruct c end; lia.
  - apply num_minimal_encode, Hr.
  - rewrite num_decode_encode by exact Hr. lia.
  - unfold wf_push. destruct (num_encode n) as [|x [|y r]] eqn:E; try exact I.
    destruct (num_encode_single n x Hr E) as [-> Hb]. nb; reflexivity.
Qed.

Lemma push_token_num n : (17 <= n < 2147483648)%Z -> push_token (num_encode n) = TkNum (Z.to_N n).
Proof.
  intros Hn. assert (Hr : (0 <= n < 2147483648)%Z) by lia. unfold push_token.
  rewrite (num_encode_len n Hr), (num_decode_encode n Hr).
  assert (H4 : num_len n <= 4)
    by (unfold num_len; repeat match goal with |- context [if ?c then _ else _] => destruct c end; lia).
  destruct (N.eqb_spec (num_len n) 20); [lia|]. destruct (N.eqb_spec (num_len n) 32); [lia|].
  destruct (N.eqb_spec (num_len n) 33); [lia|]. destruct (N.eqb_spec (num_len n) 65); [lia|]. reflexivity.
Qed.

Lemma good_push_int n : (0 <= n < 2147483648)%Z ->
  good [push_int n] [TkNum (Z.to_N n)] (script_num_size (Z.to_N n)).
Proof.
  intros Hn. destruct (push_int_cases n Hn) as [[-> ->]|[[Hr ->]|[Hr ->]]].
  - constructor; try reflexivity; try discriminate.
    + intros p. cbn [lx_script lx_instr]. split; [|exact I]. unfold push_ok. right; right; right; right.
      repeat split; try (vm_compute; congruence).
    + cbn. auto.
  - constructor; try discriminate.
    + intros p. cbn. split; [lia|exact I].
    + cbn. split; [right; lia|exact I].
    + reflexivity.
    + unfold slen. cbn [serialize ser_instr]. unfold ser_num. destruct (Z.eqb_spec n (-1)); [lia|].
      unfold script_num_size. nb; reflexivity.
  - destruct (num_push_ok n ltac:(lia)) as [Hok Hl].
    constructor; try discriminate.
    + intros p. cbn. split; [exact Hok|exact I].
    + cbn. split; [|exact I]. destruct Hok as [H|[H|[H|[H|[_ [_ [_ H]]]]]]]; try exact H;
        rewrite Hl in H; unfold num_len in H;
        repeat match type of H with context [if ?c then _ else _] => destruct c end; discriminate.
    + cbn [script_tokens instr_tokens app]. rewrite push_token_num by lia. reflexivity.
    + unfold slen. cbn [serialize ser_instr]. rewrite app_nil_r. unfold ser_push. rewrite Hl.
      assert (num_len n <= 4) by (unfold num_len; repeat match goal with |- context [if ?c then _ else _] => destruct c end; lia).
      destruct (N.leb_spec (num_len n) 75); [|lia]. rewrite blen_cons, Hl.
      unfold num_len, script_num_size.
      repeat match goal with |- context [if ?c then _ else _] =>
        match c with
        | (?a =? ?b)%Z => destruct (Z.eqb_spec a b); try lia
        | (?a <? ?b)%Z => destruct (Z.ltb_spec a b); try lia
        | (?a <=? ?b) => destruct (N.leb_spec a b); try lia
        | (?a <? ?b) => destruct (N.ltb_spec a b); try lia
        end end; reflexivity.
Qed.

Lemma good_push_N t : t < 2147483648 -> good [push_int (Z.of_N t)] [TkNum t] (script_num_size t).
Proof. intros Ht. pose proof (good_push_int (Z.of_N t) ltac:(lia)) as H. rewrite N2Z.id in H. exact H. Qed.

(* ------------------------------------------------------------------ IF nodes *)
Lemma slen_if neg thn els :
  slen [IIf neg thn els] = 2 + slen thn + match els with Some el => 1 + slen el | None => 0 end.
Proof.
  unfold slen. cbn [serialize]. rewrite app_nil_r, ser_if. rewrite blen_cons, !blen_app.
  destruct els; [rewrite blen_cons|]; unfold blen; cbn [length]; lia.
Qed.

Lemma good_if neg thn tt nt (els : option script) te ne :
  good thn tt nt ->
  (match els with Some el => good el te ne | None => True end) ->
  good [IIf neg thn els]
       ((if neg then TkNotIf else TkIf) :: tt ++ (match els with Some _ => TkElse :: te | None => [] end) ++ [TkEndIf])
       (2 + nt + match els with Some _ => 1 + ne | None => 0 end).
Proof.
  intros [T1 T2 T3 T4 T5] He. constructor.
  - intros p. cbn [lx_script]. split; [|exact I]. apply lx_if. split; [apply T1|].
    destruct els as [el|]; [apply He|exact I].
  - cbn [wf_script]. split; [|exact I]. apply wf_if. split; [exact T2|]. destruct els; [apply He|exact I].
  - discriminate.
  - cbn [script_tokens]. rewrite app_nil_r, instr_tokens_if, T4. destruct els as [el|]; [|reflexivity].
    destruct He as [_ _ _ E4 _]. rewrite E4. reflexivity.
  - rewrite slen_if, T5. destruct els as [el|]; [|reflexivity]. destruct He as [_ _ _ _ E5]. rewrite E5. reflexivity.
Qed.

(* ------------------------------------------------------------------ push_verify *)
Definition foldable (o : opcode) : bool := match verify_form o with Some _ => true | None => false end.
Fixpoint last_foldable (s : script) : bool :=
  match s with
  | [] => false
  | [IOp o] => foldable o
  | _ :: r => last_foldable r
  end.

Lemma last_foldable_cons i j r : last_foldable (i :: j :: r) = last_foldable (j :: r).
Proof. destruct i as [| |o|]; reflexivity. Qed.

Lemma last_foldable_app a b : b <> [] -> last_foldable (a ++ b) = last_foldable b.
Proof.
  intros Hb. induction a as [|i a IH]; [reflexivity|].
  destruct (a ++ b) as [|j r] eqn:E; [destruct a; [contradiction|discriminate]|].
  cbn [app]. rewrite E, last_foldable_cons. exact IH.
Qed.

Lemma push_verify_cons i j r : push_verify (i :: j :: r) = i :: push_verify (j :: r).
Proof. destruct i as [| |o|]; reflexivity. Qed.

Lemma push_verify_tokens s : script_tokens (push_verify s) = script_tokens s ++ [TkVerify].
Proof.
  induction s as [|i s IH]; [reflexivity|].
  destruct s as [|j r].
  - destruct i as [d|n|o|neg thn els];
      try (cbn [push_verify script_tokens]; rewrite !app_nil_r; reflexivity).
    cbn [push_verify]. destruct o; reflexivity.
  - rewrite push_verify_cons. cbn [script_tokens] in *. rewrite IH, app_assoc. reflexivity.
Qed.

Lemma push_verify_wf s : wf_script s -> wf_script (push_verify s).
Proof.
  assert (Hv : wf_instr (IOp OP_VERIFY)) by (apply (wf_op_named OP_VERIFY); exact I).
  induction s as [|i s IH]; intros Hw.
  - cbn [push_verify wf_script]. split; [exact Hv|exact I].
  - destruct s as [|j r].
    + destruct Hw as [Hi _].
      destruct i as [d|n|o|neg thn els];
        try (cbn [push_verify wf_script]; split; [exact Hi|split; [exact Hv|exact I]]).
      cbn [push_verify]. destruct (verify_form o) as [o'|] eqn:E.
      * destruct o; try discriminate; injection E as <-; cbn [wf_script];
          (split; [cbn [wf_instr]; apply wf_op_named; exact I|exact I]).
      * cbn [wf_script]. split; [exact Hi|split; [exact Hv|exact I]].
    + rewrite push_verify_cons. destruct Hw as [Hi Hr]. split; [exact Hi|apply IH, Hr].
Qed.

Lemma push_verify_len s : slen (push_verify s) = slen s + (if last_foldable s then 0 else 1).
Proof.
  induction s as [|i s IH]; [reflexivity|].
  destruct s as [|j r].
  - destruct i as [d|n|o|neg thn els];
      try (change (push_verify [?x]) with ([x] ++ [IOp OP_VERIFY]); rewrite slen_app; reflexivity).
    cbn [push_verify last_foldable]. unfold foldable. destruct (verify_form o) eqn:E.
    + destruct o; try discriminate; injection E as <-; reflexivity.
    + change [IOp o; IOp OP_VERIFY] with ([IOp o] ++ [IOp OP_VERIFY]). rewrite slen_app. reflexivity.
  - rewrite push_verify_cons, last_foldable_cons.
    change (i :: push_verify (j :: r)) with ([i] ++ push_verify (j :: r)).
    change (i :: j :: r) with ([i] ++ j :: r). rewrite !slen_app, IH. lia.
Qed.

Lemma not_bad_push p d : bad_prev (lastt p [push_token d]) = false.
Proof. cbn. unfold push_token. repeat match goal with |- context [if ?c then _ else _] => destruct c end; reflexivity. Qed.

Lemma lastt_endif p neg thn els : lastt p (instr_tokens (IIf neg thn els)) = Some TkEndIf.
Proof. rewrite instr_tokens_if. rewrite app_comm_cons, app_assoc, lastt_app. reflexivity. Qed.

Lemma push_verify_lx s : s <> [] -> forall p, lx_script p s -> lx_script p (push_verify s).
Proof.
  induction s as [|i s IH]; intros Hne p Hlx; [contradiction|].
  destruct s as [|j r].
  - destruct Hlx as [Hi _]. destruct i as [d|n|o|neg thn els].
    + cbn [push_verify lx_script]. split; [exact Hi|]. split; [|exact I]. cbn [lx_instr instr_tokens].
      split; [exact I|]. intros _. apply not_bad_push.
    + cbn [push_verify lx_script]. split; [exact Hi|]. split; [|exact I]. cbn [lx_instr instr_tokens].
      split; [exact I|]. intros _. reflexivity.
    + destruct Hi as [Hn Hv]. cbn [push_verify]. destruct (verify_form o) as [o'|] eqn:E.
      * destruct o; try discriminate; injection E as <-; cbn [lx_script lx_instr];
          (split; [split; [exact I|discriminate]|exact I]).
      * cbn [lx_script]. split; [split; [exact Hn|exact Hv]|]. split; [|exact I]. cbn [lx_instr].
        split; [exact I|]. intros _. destruct o; try discriminate; try contradiction; reflexivity.
    + cbn [push_verify lx_script]. split; [exact Hi|]. split; [|exact I]. cbn [lx_instr].
      split; [exact I|]. intros _. rewrite lastt_endif. reflexivity.
  - rewrite push_verify_cons. destruct Hlx as [Hi Hr]. split; [exact Hi|]. apply IH; [discriminate|exact Hr].
Qed.

Lemma good_push_verify s t n : good s t n ->
  good (push_verify s) (t ++ [TkVerify]) (n + (if last_foldable s then 0 else 1)).
Proof.
  intros [A1 A2 A3 A4 A5]. constructor.
  - intros p. apply push_verify_lx; [exact A3|apply A1].
  - apply push_verify_wf, A2.
  - destruct s as [|i [|j r]]; [contradiction| |rewrite push_verify_cons; discriminate].
    destruct i as [| |o|]; try discriminate. cbn. destruct (verify_form o); discriminate.
  - rewrite push_verify_tokens, A4. reflexivity.
  - rewrite push_verify_len, A5. reflexivity.
Qed.

Lemma push_verify_not_foldable s : last_foldable (push_verify s) = false.
Proof.
  induction s as [|i s IH]; [reflexivity|]. destruct s as [|j r].
  - destruct i as [| |o|]; try reflexivity. cbn [push_verify]. destruct (verify_form o) eqn:E.
    + destruct o; try discriminate; injection E as <-; reflexivity.
    + reflexivity.
  - rewrite push_verify_cons. destruct (push_verify (j :: r)) as [|a b] eqn:E.
    + destruct r; [destruct j as [| |o|]; try discriminate; cbn in E; destruct (verify_form o); discriminate|
                   rewrite push_verify_cons in E; discriminate].
    + rewrite last_foldable_cons. exact IH.
Qed.

(* ------------------------------------------------------------------ the encoder, fragment by fragment *)
(* close a goal [good s t n] with a proved [G : good s' t' m], s/t convertible, n = m by arithmetic *)
Ltac by_good G :=
  match type of G with good _ _ ?m =>
    match goal with |- good _ _ ?n =>
      replace n with m; [exact G|unfold sumN, nlen in *; cbn [map fold_right length] in *; lia]
    end
  end.

Section Enc.
  Variable c : ctx.
  Variable ke : keyenv.
  Hypothesis Hsort : ksort_ok ke.

  Definition goodm (m : ms) : Prop := good (enc ke m) (mtoks ke m) (script_size c ke m).

  Lemma key_push k : key_ok c ke k ->
    good [IPush (kb ke k)] [key_token (kb ke k)] (pk_len c ke k).
  Proof.
    intros [Hk _].
    assert (E : pk_len c ke k = blen (kb ke k) + 1).
    { unfold pk_len, is_uncompressed. destruct c; try (rewrite Hk; reflexivity);
        destruct Hk as [Hk|Hk]; rewrite Hk; reflexivity. }
    rewrite E. apply good_push_fixed. destruct c; tauto.
  Qed.

  Lemma hash_frag_good o tk h n : named o -> o <> OP_VERIFY -> opcode_tokens o = [tk] ->
    (blen h = 20 /\ n = 21 + 6 \/ blen h = 32 /\ n = 33 + 6) ->
    good (hash_frag o h) (hash_tokens tk (push_token h)) n.
  Proof.
    intros Hn Hv Ht Hh. unfold hash_frag.
    change [IOp OP_SIZE; push_int 32; IOp OP_EQUALVERIFY; IOp o; IPush h; IOp OP_EQUAL]
      with ([IOp OP_SIZE] ++ [push_int 32] ++ [IOp OP_EQUALVERIFY] ++ [IOp o] ++ [IPush h] ++ [IOp OP_EQUAL]).
    pose proof (good_app _ _ _ _ _ _ (good_op OP_SIZE I ltac:(discriminate))
      (good_app _ _ _ _ _ _ (good_push_int 32 ltac:(lia))
      (good_app _ _ _ _ _ _ (good_op OP_EQUALVERIFY I ltac:(discriminate))
      (good_app _ _ _ _ _ _ (good_op o Hn Hv)
      (good_app _ _ _ _ _ _ (good_push_fixed h ltac:(destruct Hh as [[H _]|[H _]]; tauto))
                            (good_op OP_EQUAL I ltac:(discriminate))))))) as G.
    rewrite Ht in G. cbn [app opcode_tokens] in G.
    replace n with (1 + (script_num_size (Z.to_N 32) + (1 + (1 + (blen h + 1 + 1))))); [exact G|].
    destruct Hh as [[-> ->]|[-> ->]]; reflexivity.
  Qed.

  Lemma keys_push ks : keys_ok c ke ks ->
    ks <> [] ->
    good (map (fun key => IPush (kb ke key)) ks) (map (fun key => key_token (kb ke key)) ks)
         (sumN (map (pk_len c ke) ks)).
  Proof.
    induction ks as [|k ks IH]; intros Hk Hne; [contradiction|]. destruct Hk as [Hk Hr].
    destruct ks as [|k2 ks].
    - cbn [map sumN fold_right]. rewrite N.add_0_r. apply key_push, Hk.
    - change (map ?f (k :: ?l)) with ([f k] ++ map f l). cbn [sumN fold_right map].
      apply good_app; [apply key_push, Hk|apply IH; [exact Hr|discriminate]].
  Qed.

  Lemma multi_a_rest ks : keys_ok c ke ks -> ks <> [] ->
    good (flat_map (fun key => [IPush (kb ke key); IOp OP_CHECKSIGADD]) ks) (multi_a_tokens ke ks)
         (sumN (map (pk_len c ke) ks) + nlen ks).
  Proof.
    induction ks as [|k ks IH]; intros Hk Hne; [contradiction|]. destruct Hk as [Hk Hr].
    assert (G1 : good ([IPush (kb ke k)] ++ [IOp OP_CHECKSIGADD]) ([key_token (kb ke k)] ++ [TkCheckSigAdd]) (pk_len c ke k + 1))
      by (apply good_app; [apply key_push, Hk|apply (good_op OP_CHECKSIGADD I); discriminate]).
    destruct ks as [|k2 ks].
    - replace (sumN (map (pk_len c ke) [k]) + nlen [k]) with (pk_len c ke k + 1)
        by (unfold sumN, nlen; cbn [map fold_right length]; lia).
      exact G1.
    - replace (sumN (map (pk_len c ke) (k :: k2 :: ks)) + nlen (k :: k2 :: ks))
        with ((pk_len c ke k + 1) + (sumN (map (pk_len c ke) (k2 :: ks)) + nlen (k2 :: ks)))
        by (unfold sumN, nlen; cbn [map fold_right length]; lia).
      exact (good_app _ _ _ _ _ _ G1 (IH Hr ltac:(discriminate))).
  Qed.

  Lemma multi_good (k : N) (ks ks' : list key) : 1 <= k <= nlen ks -> nlen ks <= 20 -> keys_ok c ke ks' -> length ks' = length ks ->
    good ([push_int (Z.of_N k)] ++ map (fun key => IPush (kb ke key)) ks'
            ++ [push_int (Z.of_nat (length ks)); IOp OP_CHECKMULTISIG])
         ([TkNum k] ++ map (fun key => key_token (kb ke key)) ks' ++ [TkNum (nlen ks); TkCheckMultiSig])
         (script_num_size k + 1 + script_num_size (nlen ks) + sumN (map (pk_len c ke) ks')).
  Proof.
    intros Hk Hn Hks Hl.
    assert (Hne : ks' <> []) by (destruct ks'; [unfold nlen in Hk; cbn in Hl; rewrite <- Hl in Hk; cbn in Hk; lia|discriminate]).
    pose proof (good_app _ _ _ _ _ _ (good_push_N k ltac:(lia))
      (good_app _ _ _ _ _ _ (keys_push ks' Hks Hne)
      (good_app _ _ _ _ _ _ (good_push_N (nlen ks) ltac:(lia)) (good_op OP_CHECKMULTISIG I ltac:(discriminate))))) as G.
    unfold nlen in G at 1. rewrite nat_N_Z in G. cbn [app opcode_tokens] in G |- *.
    match type of G with good _ _ ?m =>
      replace (script_num_size k + 1 + script_num_size (nlen ks) + sumN (map (pk_len c ke) ks')) with m by lia end.
    exact G.
  Qed.

  Lemma multi_a_good (k : N) (ks : list key) : 1 <= k <= nlen ks -> nlen ks <= 999 -> keys_ok c ke ks ->
    good ((match ks with
           | [] => []
           | k0 :: rest => [IPush (kb ke k0); IOp OP_CHECKSIG]
                             ++ flat_map (fun key => [IPush (kb ke key); IOp OP_CHECKSIGADD]) rest
           end) ++ [push_int (Z.of_N k); IOp OP_NUMEQUAL])
         ((match ks with
           | [] => []
           | k0 :: rest => [key_token (kb ke k0); TkCheckSig] ++ multi_a_tokens ke rest
           end) ++ [TkNum k; TkNumEqual])
         (script_num_size k + 1 + sumN (map (pk_len c ke) ks) + nlen ks).
  Proof.
    intros Hk Hn Hks. destruct ks as [|k0 rest]; [unfold nlen in Hk; cbn in Hk; lia|]. destruct Hks as [Hk0 Hr].
    assert (G1 : good ([IPush (kb ke k0)] ++ [IOp OP_CHECKSIG]) ([key_token (kb ke k0)] ++ [TkCheckSig]) (pk_len c ke k0 + 1))
      by (apply good_app; [apply key_push, Hk0|apply (good_op OP_CHECKSIG I); discriminate]).
    assert (G3 : good ([push_int (Z.of_N k)] ++ [IOp OP_NUMEQUAL]) ([TkNum k] ++ [TkNumEqual]) (script_num_size k + 1))
      by (apply good_app; [apply good_push_N; lia|apply (good_op OP_NUMEQUAL I); discriminate]).
    destruct rest as [|k1 rest].
    - pose proof (good_app _ _ _ _ _ _ G1 G3) as G. by_good G.
    - pose proof (multi_a_rest (k1 :: rest) Hr ltac:(discriminate)) as G2.
      pose proof (good_app _ _ _ _ _ _ (good_app _ _ _ _ _ _ G1 G2) G3) as G. by_good G.
  Qed.

  (* ---- non-emptiness and the free verify ---- *)
  Lemma app_ne_r {A} (a b : list A) : b <> [] -> a ++ b <> [].
  Proof. intros Hb E. apply app_eq_nil in E. destruct E as [_ E]. contradiction. Qed.

  Lemma push_verify_nonempty s : push_verify s <> [].
  Proof.
    destruct s as [|i [|j r]]; [discriminate| |rewrite push_verify_cons; discriminate].
    destruct i as [| |o|]; try discriminate. cbn. destruct (verify_form o); discriminate.
  Qed.

  Lemma enc_nonempty : forall m, enc ke m <> [].
  Proof.
    induction m using ms_ind2; cbn [enc hash_frag app]; try discriminate;
      try (apply app_ne_r; discriminate);
      try (apply app_ne_r; apply app_ne_r; discriminate).
    - apply push_verify_nonempty.
    - apply app_ne_r. exact IHm2.
  Qed.

  Ltac lf := repeat rewrite last_foldable_cons; try reflexivity.

  (* ExtData::has_free_verify <=> the last opcode pushed is EQUAL / NUMEQUAL / CHECKSIG / CHECKMULTISIG *)
  Lemma hfv_last : forall m, last_foldable (enc ke m) = hfv m.
  Proof.
    induction m using ms_ind2; cbn [enc hfv hash_frag]; lf.
    - (* alt *) rewrite last_foldable_app by (apply app_ne_r; discriminate).
      rewrite last_foldable_app by discriminate. reflexivity.
    - (* swap *) rewrite last_foldable_app by apply enc_nonempty. exact IHm.
    - (* check *) rewrite last_foldable_app by discriminate. reflexivity.
    - (* verify *) apply push_verify_not_foldable.
    - (* zne *) rewrite last_foldable_app by discriminate. reflexivity.
    - (* and_v *) rewrite last_foldable_app by apply enc_nonempty. exact IHm2.
    - (* and_b *) rewrite last_foldable_app by (apply app_ne_r; discriminate).
      rewrite last_foldable_app by discriminate. reflexivity.
    - (* andor *) rewrite last_foldable_app by discriminate. reflexivity.
    - (* or_b *) rewrite last_foldable_app by (apply app_ne_r; discriminate).
      rewrite last_foldable_app by discriminate. reflexivity.
    - (* or_d *) rewrite last_foldable_app by discriminate. reflexivity.
    - (* or_c *) rewrite last_foldable_app by discriminate. reflexivity.
    - (* thresh *) rewrite last_foldable_app by discriminate. lf.
    - (* multi *) rewrite last_foldable_app by (apply app_ne_r; discriminate).
      rewrite last_foldable_app by discriminate. lf.
    - rewrite last_foldable_app by (apply app_ne_r; discriminate).
      rewrite last_foldable_app by discriminate. lf.
    - (* multi_a *) rewrite last_foldable_app by discriminate. lf.
    - rewrite last_foldable_app by discriminate. lf.
  Qed.

  (* ---- thresh tails as top-level functions (convertible with the nested fixes) ---- *)
  Fixpoint enc_tail (l : list ms) : script :=
    match l with [] => [] | x :: r => enc ke x ++ [IOp OP_ADD] ++ enc_tail r end.
  Fixpoint mtoks_tail (l : list ms) : list token :=
    match l with [] => [] | x :: r => mtoks ke x ++ [TkAdd] ++ mtoks_tail r end.
  Fixpoint size_sum (l : list ms) : N :=
    match l with [] => 0 | x :: r => script_size c ke x + size_sum r end.

  Lemma thresh_tail_good : forall rest, Forall goodm rest ->
    forall s0 t0 n0, good s0 t0 n0 ->
    good (s0 ++ enc_tail rest) (t0 ++ mtoks_tail rest) (n0 + size_sum rest + nlen rest).
  Proof.
    induction 1 as [|x r Hx _ IH]; intros s0 t0 n0 G0.
    - cbn [enc_tail mtoks_tail size_sum]. rewrite !app_nil_r. unfold nlen. cbn [length].
      replace (n0 + 0 + N.of_nat 0) with n0 by lia. exact G0.
    - cbn [enc_tail mtoks_tail size_sum]. unfold nlen. cbn [length].
      replace (s0 ++ enc ke x ++ [IOp OP_ADD] ++ enc_tail r) with ((s0 ++ enc ke x ++ [IOp OP_ADD]) ++ enc_tail r)
        by (rewrite <- !app_assoc; reflexivity).
      replace (t0 ++ mtoks ke x ++ [TkAdd] ++ mtoks_tail r) with ((t0 ++ mtoks ke x ++ [TkAdd]) ++ mtoks_tail r)
        by (rewrite <- !app_assoc; reflexivity).
      replace (n0 + (script_size c ke x + size_sum r) + N.of_nat (S (length r)))
        with ((n0 + (script_size c ke x + 1)) + size_sum r + nlen r) by (unfold nlen; lia).
      apply IH. apply good_app; [exact G0|]. apply good_app; [exact Hx|].
      apply (good_op OP_ADD I). discriminate.
  Qed.

  Lemma push_token_20 h : blen h = 20 -> push_token h = TkHash20 h.
  Proof. intros H. unfold push_token. rewrite H. reflexivity. Qed.
  Lemma push_token_32 h : blen h = 32 -> push_token h = TkBytes32 h.
  Proof. intros H. unfold push_token. rewrite H. reflexivity. Qed.

  Lemma keys_ok_forall ks : keys_ok c ke ks <-> Forall (key_ok c ke) ks.
  Proof.
    induction ks as [|k ks IH]; cbn [keys_ok]; [split; auto|]. rewrite IH. split.
    - intros [A B]. constructor; assumption.
    - intros H. inversion H; subst. split; assumption.
  Qed.

  Lemma sumN_perm (f : key -> N) l1 l2 : Permutation l1 l2 -> sumN (map f l1) = sumN (map f l2).
  Proof. unfold sumN. induction 1; cbn [map fold_right]; lia. Qed.

  Lemma pkh_good h : blen h = 20 ->
    good [IOp OP_DUP; IOp OP_HASH160; IPush h; IOp OP_EQUALVERIFY] [TkDup; TkHash160; TkHash20 h; TkEqual; TkVerify] 24.
  Proof.
    intros Hh.
    pose proof (good_app _ _ _ _ _ _ (good_op OP_DUP I ltac:(discriminate))
      (good_app _ _ _ _ _ _ (good_op OP_HASH160 I ltac:(discriminate))
      (good_app _ _ _ _ _ _ (good_push_fixed h ltac:(tauto)) (good_op OP_EQUALVERIFY I ltac:(discriminate))))) as G.
    rewrite push_token_20, Hh in G by exact Hh. exact G.
  Qed.

  Lemma ms_list_wf_fix l :
    (fix go (l : list ms) : Prop := match l with [] => True | x :: r => ms_wf c ke x /\ go r end) l
    -> ms_list_wf c ke l.
  Proof. induction l as [|x l IH]; [auto|]. intros [A B]. split; [exact A|apply IH, B]. Qed.

  Theorem enc_good : forall m, ms_wf c ke m -> goodm m.
  Proof.
    unfold goodm.
    induction m using ms_ind2; intros Hwf; cbn [ms_wf] in Hwf; cbn [enc mtoks script_size].
    - (* 1 *) exact (good_push_int 1 ltac:(lia)).
    - (* 0 *) exact (good_push_int 0 ltac:(lia)).
    - (* pk_k *) apply key_push, Hwf.
    - (* pk_h *) apply pkh_good, Hwf.
    - apply pkh_good, Hwf.
    - (* after *) exact (good_app _ _ _ _ _ _ (good_push_N t ltac:(lia)) (good_op OP_CLTV I ltac:(discriminate))).
    - exact (good_app _ _ _ _ _ _ (good_push_N t ltac:(lia)) (good_op OP_CSV I ltac:(discriminate))).
    - (* sha256 *) rewrite <- (push_token_32 h Hwf). apply hash_frag_good; try discriminate; try reflexivity; try exact I. right. auto.
    - rewrite <- (push_token_32 h Hwf). apply hash_frag_good; try discriminate; try reflexivity; try exact I. right. auto.
    - rewrite <- (push_token_20 h Hwf). apply hash_frag_good; try discriminate; try reflexivity; try exact I. left. auto.
    - rewrite <- (push_token_20 h Hwf). apply hash_frag_good; try discriminate; try reflexivity; try exact I. left. auto.
    - (* alt *)
      pose proof (good_app _ _ _ _ _ _ (good_op OP_TOALTSTACK I ltac:(discriminate))
                   (good_app _ _ _ _ _ _ (IHm Hwf) (good_op OP_FROMALTSTACK I ltac:(discriminate)))) as G.
      replace (2 + script_size c ke m) with (1 + (script_size c ke m + 1)) by lia. exact G.
    - (* swap *) exact (good_app _ _ _ _ _ _ (good_op OP_SWAP I ltac:(discriminate)) (IHm Hwf)).
    - (* check *)
      replace (1 + script_size c ke m) with (script_size c ke m + 1) by lia.
      exact (good_app _ _ _ _ _ _ (IHm Hwf) (good_op OP_CHECKSIG I ltac:(discriminate))).
    - (* dupif *)
      pose proof (good_app _ _ _ _ _ _ (good_op OP_DUP I ltac:(discriminate))
                   (good_if false _ _ _ None [] 0 (IHm Hwf) I)) as G.
      cbn [app opcode_tokens] in G. replace (3 + script_size c ke m) with (1 + (2 + script_size c ke m + 0)) by lia. exact G.
    - (* verify *)
      pose proof (good_push_verify _ _ _ (IHm Hwf)) as G. rewrite hfv_last in G.
      replace ((if hfv m then 0 else 1) + script_size c ke m) with (script_size c ke m + (if hfv m then 0 else 1)) by lia.
      exact G.
    - (* nonzero *)
      pose proof (good_app _ _ _ _ _ _ (good_op OP_SIZE I ltac:(discriminate))
                   (good_app _ _ _ _ _ _ (good_op OP_0NOTEQUAL I ltac:(discriminate))
                      (good_if false _ _ _ None [] 0 (IHm Hwf) I))) as G.
      cbn [app opcode_tokens] in G. replace (4 + script_size c ke m) with (1 + (1 + (2 + script_size c ke m + 0))) by lia. exact G.
    - (* zne *)
      replace (1 + script_size c ke m) with (script_size c ke m + 1) by lia.
      exact (good_app _ _ _ _ _ _ (IHm Hwf) (good_op OP_0NOTEQUAL I ltac:(discriminate))).
    - (* and_v *) destruct Hwf as [W1 W2]. exact (good_app _ _ _ _ _ _ (IHm1 W1) (IHm2 W2)).
    - (* and_b *) destruct Hwf as [W1 W2].
      replace (1 + script_size c ke m1 + script_size c ke m2) with (script_size c ke m1 + (script_size c ke m2 + 1)) by lia.
      exact (good_app _ _ _ _ _ _ (IHm1 W1) (good_app _ _ _ _ _ _ (IHm2 W2) (good_op OP_BOOLAND I ltac:(discriminate)))).
    - (* andor *) destruct Hwf as [W1 [W2 W3]].
      pose proof (good_app _ _ _ _ _ _ (IHm1 W1) (good_if true _ _ _ (Some (enc ke m2)) _ _ (IHm3 W3) (IHm2 W2))) as G.
      replace (3 + script_size c ke m1 + script_size c ke m2 + script_size c ke m3)
        with (script_size c ke m1 + (2 + script_size c ke m3 + (1 + script_size c ke m2))) by lia.
      replace (mtoks ke m1 ++ [TkNotIf] ++ mtoks ke m3 ++ [TkElse] ++ mtoks ke m2 ++ [TkEndIf])
        with (mtoks ke m1 ++ TkNotIf :: mtoks ke m3 ++ (TkElse :: mtoks ke m2) ++ [TkEndIf]) by reflexivity.
      exact G.
    - (* or_b *) destruct Hwf as [W1 W2].
      replace (1 + script_size c ke m1 + script_size c ke m2) with (script_size c ke m1 + (script_size c ke m2 + 1)) by lia.
      exact (good_app _ _ _ _ _ _ (IHm1 W1) (good_app _ _ _ _ _ _ (IHm2 W2) (good_op OP_BOOLOR I ltac:(discriminate)))).
    - (* or_d *) destruct Hwf as [W1 W2].
      pose proof (good_app _ _ _ _ _ _ (IHm1 W1)
                   (good_app _ _ _ _ _ _ (good_op OP_IFDUP I ltac:(discriminate))
                      (good_if true _ _ _ None [] 0 (IHm2 W2) I))) as G.
      cbn [app opcode_tokens] in G.
      replace (3 + script_size c ke m1 + script_size c ke m2) with (script_size c ke m1 + (1 + (2 + script_size c ke m2 + 0))) by lia.
      exact G.
    - (* or_c *) destruct Hwf as [W1 W2].
      pose proof (good_app _ _ _ _ _ _ (IHm1 W1) (good_if true _ _ _ None [] 0 (IHm2 W2) I)) as G.
      cbn [app] in G.
      replace (2 + script_size c ke m1 + script_size c ke m2) with (script_size c ke m1 + (2 + script_size c ke m2 + 0)) by lia.
      exact G.
    - (* or_i *) destruct Hwf as [W1 W2].
      pose proof (good_if false _ _ _ (Some (enc ke m2)) _ _ (IHm1 W1) (IHm2 W2)) as G.
      replace (3 + script_size c ke m1 + script_size c ke m2) with (2 + script_size c ke m1 + (1 + script_size c ke m2)) by lia.
      exact G.
    - (* thresh *) destruct Hwf as [Hk [Hk2 Hxs]].
      destruct xs as [|x0 rest]; [unfold nlen in Hk; cbn in Hk; lia|].
      inversion H as [|x0' rest' Hx0 Hrest]; subst.
      destruct Hxs as [Hw0 Hwr]. apply ms_list_wf_fix in Hwr.
      assert (Hgr : Forall goodm rest).
      { clear - Hrest Hwr. induction Hrest as [|y r Hy _ IH]; [constructor|]. destruct Hwr as [A B].
        constructor; [apply Hy, A|apply IH, B]. }
      pose proof (good_app _ _ _ _ _ _ (thresh_tail_good rest Hgr _ _ _ (Hx0 Hw0))
                   (good_app _ _ _ _ _ _ (good_push_N k ltac:(lia)) (good_op OP_EQUAL I ltac:(discriminate)))) as G.
      cbn [app opcode_tokens] in G.
      change ((fix go (l : list ms) : script := match l with [] => [] | x :: r => enc ke x ++ [IOp OP_ADD] ++ go r end) rest)
        with (enc_tail rest).
      change ((fix go (l : list ms) : list token := match l with [] => [] | x :: r => mtoks ke x ++ [TkAdd] ++ go r end) rest)
        with (mtoks_tail rest).
      change ((fix go (l : list ms) : N := match l with [] => 0 | x :: r => script_size c ke x + go r end) rest)
        with (size_sum rest).
      by_good G.
    - (* multi *) destruct Hwf as [Hk [Hn Hks]]. exact (multi_good k ks ks Hk Hn Hks eq_refl).
    - (* sortedmulti *) destruct Hwf as [Hk [Hn Hks]].
      pose proof (Hsort ks) as Hp.
      rewrite <- (sumN_perm (pk_len c ke) _ _ Hp).
      apply multi_good; try assumption.
      + apply keys_ok_forall. apply (Permutation_Forall (Permutation_sym Hp)). apply keys_ok_forall, Hks.
      + apply Permutation_length, Hp.
    - (* multi_a *) destruct Hwf as [Hk [Hn Hks]]. exact (multi_a_good k ks Hk Hn Hks).
    - (* sortedmulti_a *) destruct Hwf as [Hk [Hn Hks]].
      pose proof (Hsort ks) as Hp.
      rewrite <- (sumN_perm (pk_len c ke) _ _ Hp).
      replace (nlen ks) with (nlen (ksort ke ks)) by (unfold nlen; rewrite (Permutation_length Hp); reflexivity).
      apply multi_a_good.
      + unfold nlen in *. rewrite (Permutation_length Hp). exact Hk.
      + unfold nlen in *. rewrite (Permutation_length Hp). exact Hn.
      + apply keys_ok_forall. apply (Permutation_Forall (Permutation_sym Hp)). apply keys_ok_forall, Hks.
  Qed.

  (* ---- the named results ---- *)
  Theorem enc_tokens m : ms_wf c ke m -> script_tokens (enc ke m) = mtoks ke m.
  Proof. intros H. apply (g_toks _ _ _ (enc_good m H)). Qed.

  Theorem lex_enc m : ms_wf c ke m -> lex (encode ke m) = LexOk (mtoks ke m).
  Proof.
    intros H. unfold encode. rewrite lex_script by (apply (g_lx _ _ _ (enc_good m H))).
    rewrite enc_tokens by exact H. reflexivity.
  Qed.

  Theorem script_size_ok m : ms_wf c ke m -> blen (encode ke m) = script_size c ke m.
  Proof. intros H. apply (g_len _ _ _ (enc_good m H)). Qed.

  Theorem parse_encode m : ms_wf c ke m -> parse_script (encode ke m) = Some (enc ke m).
  Proof. intros H. apply ser_parse. apply (g_wf _ _ _ (enc_good m H)). Qed.
End Enc.
