(* Concrete instance (non-vacuity): or_d(c:raw_pk_h(H0), c:pk_k(2)) over the toy key table of
   CompleteNonMall.v (key bytes [k], key hash [k]; signatures held for every key except key 1). *)
From Verif Require Import Exec Ser Ast Types TypeCheck SatSpec Sat TheoremA SatProofs CompleteProofs CompleteThresh
  CompleteNonMall RawPkhModel RawPkhResolve RawPkhResolveLift.
Local Open Scope N_scope.

Definition rx_m : ms := MOrD (MCheck (MRawPkH [0])) (MCheck (MPkK 2)).
Definition rx_m1 : ms := MOrD (MCheck (MRawPkH [1])) (MCheck (MPkK 2)).
Definition rx_pk (h : bytes) : option key := match h with [k] => Some k | _ => None end.
Definition rx_re : rawenv :=
  mkRawEnv rx_pk (fun h => match h with [k] => if c02x_has k then Some k else None | _ => None end).
Definition rx_none : rawenv := mkRawEnv (fun _ => None) (fun _ => None).

Lemma rx_ok : rawpkh_ok c02x_ke (c02x_se true) rx_re rx_m /\ rawpkh_ok c02x_ke (c02x_se true) rx_re rx_m1.
Proof.
  split; split.
  - intros h [<-|[]]. split; [discriminate | reflexivity].
  - intros h k [<-|[]] E. inversion E. reflexivity.
  - intros h [<-|[]]. split; [discriminate | reflexivity].
  - intros h k [<-|[]] E. inversion E. reflexivity.
Qed.

Lemma rx_typed : exists t, type_of rx_m = ROk t /\ c_base (t_corr t) = BB /\ m_nm (t_mall t) = true /\ m_signed (t_mall t) = true.
Proof. eexists. split; [vm_compute; reflexivity|]. vm_compute. auto. Qed.

(* resolved, signature held: [sig0 pk0] (push order) *)
Lemma rx_sat : satisfy_r c02x_ke (c02x_se true) rx_re (c02x_f true) false true rx_m = Some [[0; 7]; [0]].
Proof. vm_compute. reflexivity. Qed.
(* resolved, no signature for key 1: the other branch with the dissatisfaction [0 pk1] of the raw leaf *)
Lemma rx_sat1 : satisfy_r c02x_ke (c02x_se true) rx_re (c02x_f true) false true rx_m1 = Some [[2; 7]; []; [1]].
Proof. vm_compute. reflexivity. Qed.
(* unresolved: the dissatisfaction of the raw leaf is Unavailable, so even the pk(2) branch cannot be taken *)
Lemma rx_unresolved : forall mall,
  s_stack (snd (sat_dissat_r c02x_ke (c02x_se true) rx_none mall true rx_m)) = WUnavailable /\
  satisfy_r c02x_ke (c02x_se true) rx_none (c02x_f true) mall true rx_m = None.
Proof. intros [|]; vm_compute; auto. Qed.
(* the OLD model (raw leaf = (Impossible, Impossible)) says Impossible here: the difference is visible *)
Lemma rx_old_model : s_stack (snd (sat_dissat c02x_ke (c02x_se true) false true rx_m)) = WImpossible.
Proof. vm_compute. reflexivity. Qed.

Lemma rx_enc : enc c02x_ke rx_m = enc c02x_ke (MOrD (MCheck (MPkH 0)) (MCheck (MPkK 2)))
  /\ resolve rx_pk rx_m = MOrD (MCheck (MPkH 0)) (MCheck (MPkK 2)).
Proof. split; reflexivity. Qed.
