(* Concrete instance (non-vacuity): or_d(c:raw_pk_h(H0), c:pk_k(2)) over the toy key table of
   CompleteNonMall.v (key bytes [k], key hash [k]; signatures held for every key except key 1). *)
From Verif Require Import Exec Ser Ast Types TypeCheck SatSpec Sat TheoremA SatProofs CompleteProofs CompleteThresh
  CompleteNonMall RawPkhModel RawPkhResolve RawPkhResolveLift.
Local Open Scope N_scope.

Definition rx_m : ms := MOrD (MCheck (MRawPkH [0])) (MCheck (MPkK 2)).
Definition rx_m1 : ms := MOrD (MCheck (MRawPkH [1])) (MCheck (MPkK 2)).
Definition rx_pk (h : bytes) : option key := match h with [k] => Some k | _ => None end.
Definition rx_re : rawenv :=
  mkRawEnv rx_pk (fun h => match h with [k] => if c02x_has k then Some k else None | _ => None end).
Definition rx_none : rawenv := mkRawEnv (fun _ => None) (fun _ => None).

Lemma rx_ok : rawpkh_ok c02x_ke (c02x_se true) rx_re rx_m /\ rawpkh_ok c02x_ke (c02x_se true) rx_re rx_m1.
Proof.
  split; split.
  - intros h [<-|[]]. split; [discriminate | reflexivity].
  - intros h k [<-|[]] E. inversion E. reflexivity.
  - intros h [<-|[]]. split; [discriminate | reflexivity].
  - intros h k [<-|[]] E. inversion E. reflexivity.
Qed.

Lemma rx_typed : exists t, type_of rx_m = ROk t /\ c_base (t_corr t) = BB /\ m_nm (t_mall t) = true /\ m_signed (t_mall t) = true.
Proof. eexists. split; [vm_compute; reflexivity|]. vm_compute. auto. Qed.

(* resolved, signature held: [sig0 pk0] (push order) *)
Lemma rx_sat : satisfy_r c02x_ke (c02x_se true) rx_re (c02x_f true) false true rx_m = Some [[0; 7]; [0]].
Proof. vm_compute. reflexivity. Qed.
(* resolved, no signature for key 1: the other branch with the dissatisfaction [0 pk1] of the raw leaf *)
Lemma rx_sat1 : satisfy_r c02x_ke (c02x_se true) rx_re (c02x_f true) false true rx_m1 = Some [[2; 7]; []; [1]].
Proof. vm_compute. reflexivity. Qed.
(* unresolved: the dissatisfaction of the raw leaf is Unavailable, so even the pk(2) branch cannot be taken *)
Lemma rx_unresolved : forall mall,
  s_stack (snd (sat_dissat_r c02x_ke (c02x_se true) rx_none mall true rx_m)) = WUnavailable /\
  satisfy_r c02x_ke (c02x_se true) rx_none (c02x_f true) mall true rx_m = None.
Proof. intros [|]; vm_compute; auto. Qed.
(* the OLD model (raw leaf = (Impossible, Impossible)) says Impossible here: the difference is visible *)
Lemma rx_old_model : s_stack (snd (sat_dissat c02x_ke (c02x_se true) false true rx_m)) = WImpossible.
Proof. vm_compute. reflexivity. Qed.

Lemma rx_enc : enc c02x_ke rx_m = enc c02x_ke (MOrD (MCheck (MPkH 0)) (MCheck (MPkK 2)))
  /\ resolve rx_pk rx_m = MOrD (MCheck (MPkH 0)) (MCheck (MPkK 2)).
Proof. split; reflexivity. Qed.

(* ---- the general theorem (RawPkhResolveGen.v): hypotheses satisfiable with UNRESOLVED / one-sided lookups ---- *)
From Verif Require Import RawPkhResolveGen.
(* or_i(c:raw_pk_h([0]), c:raw_pk_h([1])): [1] is known to NO lookup, [0] to the raw SIGNATURE lookup only
   (lookup_raw_pkh_pk answers nothing at all) *)
Definition rx_sigonly : rawenv := mkRawEnv (fun _ => None) (fun h => match h with [0] => Some 0 | _ => None end).
Definition rx_m2 : ms := MOrI (MCheck (MRawPkH [0])) (MCheck (MRawPkH [1])).
Definition rx_dflt (h : bytes) : key := match h with [k] => k | _ => 0 end.

Lemma rx_gen_hyps :
  (forall h k, rs_sig rx_sigonly h = Some k -> se_sig (c02x_se true) k <> None) /\
  (forall h k k', rs_pk rx_sigonly h = Some k -> rs_sig rx_sigonly h = Some k' -> k = k') /\
  hash_matches c02x_ke (rs_pk rx_sigonly) rx_m2 /\ hash_matches c02x_ke (rs_sig rx_sigonly) rx_m2 /\
  (forall h, In h (raw_hashes rx_m2) -> kh c02x_ke (rx_dflt h) = h).
Proof.
  repeat split.
  - intros h k E. destruct h as [|[|] [|]]; try discriminate. inversion E; subst. cbn. discriminate.
  - intros h k k' E. discriminate.
  - intros h k _ E. discriminate.
  - intros h k _ E. destruct h as [|[|] [|]]; try discriminate. inversion E; subst. reflexivity.
  - intros h [<-|[<-|[]]]; reflexivity.
Qed.
(* the witness goes through the raw leaf: [sig0 pk0 1] (push order) *)
Lemma rx_gen_sat : satisfy_r c02x_ke (c02x_se true) rx_sigonly (c02x_f true) false true rx_m2 = Some [[0; 7]; [0]; [1]].
Proof. vm_compute. reflexivity. Qed.
