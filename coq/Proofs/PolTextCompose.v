(* Policy text layer composed with the text <-> expression-tree layer (Proofs/ExprTreeRt.v), as
   Proofs/MsTextCompose.v does for miniscripts: printed trees are well formed, hence
   from_str (to_text p) = Ok p within the expression parser's depth limit; fixed point at the text level;
   an instance of the parameters (non-vacuity); and the values OUTSIDE the parsers' domain that the public
   enum constructors can build (refutations of the unrestricted round trip). *)
From Coq Require Import List Bool NArith Lia Arith.
From Verif Require Import ExprTreeRt PolTextModel MsTextProofs MsTextCompose PolSemanticProofs PolTextProofs.
Import ListNotations.
Local Open Scope N_scope.

Lemma wf_fnode : forall name kids, forallb name_char name = true -> forallb well_formed kids = true ->
  well_formed (fnode name kids) = true.
Proof.
  intros name kids H1 H2. unfold fnode. cbn [well_formed]. rewrite H1.
  destruct kids; [reflexivity | exact H2].
Qed.

Lemma wf_with_prob : forall w t, well_formed t = true -> well_formed (with_prob w t) = true.
Proof.
  intros w [name p kids] H. cbn [with_prob well_formed] in *. apply andb_prop in H. destruct H as [H1 H2].
  rewrite forallb_app. rewrite dec_chars. cbn [forallb]. rewrite H1. cbn. exact H2.
Qed.

Lemma forallb_map_wf : forall A (f : A -> etree) xs, Forall (fun x => well_formed (f x) = true) xs ->
  forallb well_formed (map f xs) = true.
Proof. intros A f xs H. induction H as [|x r Hx HF IH]; [reflexivity|]. cbn [map forallb]. rewrite Hx. exact IH. Qed.

Section PolCompose.
Variable print_key : N -> tbytes.
Variable parse_key : tbytes -> option N.
Variable print_hash : phk -> N -> tbytes.
Variable parse_hash : phk -> tbytes -> option N.
Hypothesis key_rt : forall k, parse_key (print_key k) = Some k.
Hypothesis hash_rt : forall h v, parse_hash h (print_hash h v) = Some v.
(* printed keys and hashes use the descriptor alphabet without ( ) { } , # *)
Hypothesis key_chars : forall k, forallb name_char (print_key k) = true.
Hypothesis hash_chars : forall h v, forallb name_char (print_hash h v) = true.

Notation conc_to_tree := (conc_to_tree print_key print_hash).
Notation sem_to_tree := (sem_to_tree print_key print_hash).
Notation conc_to_text := (conc_to_text print_key print_hash).
Notation sem_to_text := (sem_to_text print_key print_hash).
Notation conc_from_tree := (conc_from_tree parse_key parse_hash).
Notation sem_from_tree := (sem_from_tree parse_key parse_hash).
Notation conc_from_str := (conc_from_str parse_key parse_hash).
Notation conc_from_str_nocheck := (conc_from_str_nocheck parse_key parse_hash).
Notation sem_from_str := (sem_from_str parse_key parse_hash).

Lemma wf_leaf_tree : forall l, well_formed (leaf_tree print_key print_hash l) = true.
Proof.
  destruct l; cbn [leaf_tree]; try reflexivity;
    try (apply wf_fnode; [try reflexivity; destruct h; reflexivity|]; cbn [forallb];
         rewrite wf_leaf by (apply key_chars || apply hash_chars || apply dec_chars); reflexivity).
Qed.

Theorem conc_to_tree_well_formed : forall p, well_formed (conc_to_tree p) = true.
Proof.
  induction p using wpol_ind'; cbn [PolTextModel.conc_to_tree].
  - apply wf_leaf_tree.
  - apply wf_fnode; [reflexivity|]. apply forallb_map_wf. exact H.
  - apply wf_fnode; [reflexivity|]. apply forallb_map_wf. eapply Forall_impl; [|exact H].
    intros [w q] Hq. cbn [snd] in Hq. apply wf_with_prob. exact Hq.
  - apply wf_fnode; [reflexivity|]. cbn [forallb]. rewrite wf_leaf by apply dec_chars.
    apply forallb_map_wf. exact H.
Qed.

Theorem sem_to_tree_well_formed : forall p, well_formed (sem_to_tree p) = true.
Proof.
  induction p using spol_ind';
    try (match goal with |- well_formed (sem_to_tree ?q) = true =>
           match eval cbv in (s_as_leaf q) with Some ?l => exact (wf_leaf_tree l) end end).
  cbn [PolTextModel.sem_to_tree].
  assert (E : forallb well_formed (map sem_to_tree subs) = true) by (apply forallb_map_wf; exact H).
  destruct (Nat.eqb k (length subs)); [|destruct (Nat.eqb k 1)]; apply wf_fnode; try reflexivity; try exact E.
  cbn [forallb]. rewrite wf_leaf by apply dec_chars. exact E.
Qed.

(* ---- text round trips *)
Lemma via_tree_print : forall A (ft : etree -> outcome pol_err A) t, well_formed t = true ->
  depth t <= MAX_RECURSION_DEPTH ->
  via_tree ft (print t) = match ft t with Ok m => Ok m | Err e => Err (PxPol e) | Panic p => Panic p end.
Proof.
  intros A ft t Hw Hd. unfold via_tree. rewrite (tree_print_parse_lemma _ Hw Hd).
  rewrite tree_of_nodes_flatten. reflexivity.
Qed.

Theorem sem_text_roundtrip : forall p, sem_text_ok p = true -> depth (sem_to_tree p) <= MAX_RECURSION_DEPTH ->
  sem_from_str (sem_to_text p) = Ok p.
Proof.
  intros p Hok Hd. unfold PolTextModel.sem_from_str, PolTextModel.sem_to_text.
  rewrite (via_tree_print _ _ _ (sem_to_tree_well_formed p) Hd).
  rewrite (sem_print_parse print_key parse_key print_hash parse_hash key_rt hash_rt p Hok). reflexivity.
Qed.

Theorem conc_text_roundtrip_nocheck : forall p, conc_text_ok p = true -> depth (conc_to_tree p) <= MAX_RECURSION_DEPTH ->
  conc_from_str_nocheck (conc_to_text p) = Ok p.
Proof.
  intros p Hok Hd. unfold PolTextModel.conc_from_str_nocheck, PolTextModel.conc_to_text.
  rewrite (via_tree_print _ _ _ (conc_to_tree_well_formed p) Hd).
  rewrite (conc_print_parse print_key parse_key print_hash parse_hash key_rt hash_rt p Hok). reflexivity.
Qed.

(* <Concrete as FromStr>::from_str, i.e. with check_timelocks *)
Theorem conc_text_roundtrip : forall p, conc_text_ok p = true -> check_timelocks (erase p) = true ->
  depth (conc_to_tree p) <= MAX_RECURSION_DEPTH -> conc_from_str (conc_to_text p) = Ok p.
Proof.
  intros p Hok Ht Hd. unfold PolTextModel.conc_from_str. rewrite (conc_text_roundtrip_nocheck p Hok Hd).
  rewrite Ht. reflexivity.
Qed.

Lemma via_tree_ok : forall A (ft : etree -> outcome pol_err A) s m, via_tree ft s = Ok m -> exists t, ft t = Ok m.
Proof.
  intros A ft s m H. unfold via_tree in H. destruct (from_str_inner s); try discriminate.
  destruct (tree_of_nodes a) as [t|]; try discriminate. exists t. destruct (ft t); try discriminate.
  inversion H. reflexivity.
Qed.

Theorem sem_text_fixpoint : forall s p, sem_from_str s = Ok p -> depth (sem_to_tree p) <= MAX_RECURSION_DEPTH ->
  sem_from_str (sem_to_text p) = Ok p /\
  (forall q, sem_from_str (sem_to_text p) = Ok q -> sem_to_text q = sem_to_text p).
Proof.
  intros s p H Hd. destruct (via_tree_ok _ _ _ _ H) as [t Ht].
  pose proof (sem_parse_valid parse_key parse_hash t p Ht) as Hok.
  pose proof (sem_text_roundtrip p Hok Hd) as E. split; [exact E|].
  intros q Hq. rewrite E in Hq. inversion Hq. reflexivity.
Qed.

Theorem conc_text_fixpoint : forall s p, conc_from_str s = Ok p -> depth (conc_to_tree p) <= MAX_RECURSION_DEPTH ->
  conc_from_str (conc_to_text p) = Ok p /\
  (forall q, conc_from_str (conc_to_text p) = Ok q -> conc_to_text q = conc_to_text p).
Proof.
  intros s p H Hd. unfold PolTextModel.conc_from_str in H.
  destruct (PolTextModel.conc_from_str_nocheck parse_key parse_hash s) as [p0| |] eqn:E0; try discriminate.
  destruct (check_timelocks (erase p0)) eqn:Et; [|discriminate]. inversion H; subst p0.
  destruct (via_tree_ok _ _ _ _ E0) as [t Ht].
  pose proof (conc_parse_valid parse_key parse_hash t p Ht) as Hok.
  pose proof (conc_text_roundtrip p Hok Et Hd) as E. split; [exact E|].
  intros q Hq. rewrite E in Hq. inversion Hq. reflexivity.
Qed.

End PolCompose.

(* both types at once (statement form of Properties/C10PolText.v) *)
Theorem pol_printed_never_panics :
  forall (print_key : N -> tbytes) (parse_key : tbytes -> option N)
         (print_hash : phk -> N -> tbytes) (parse_hash : phk -> tbytes -> option N),
  (forall k, parse_key (print_key k) = Some k) ->
  (forall h v, parse_hash h (print_hash h v) = Some v) ->
  (forall p, conc_text_ok p = true ->
     forall s, conc_from_tree parse_key parse_hash (conc_to_tree print_key print_hash p) <> Panic s) /\
  (forall p, sem_text_ok p = true ->
     forall s, sem_from_tree parse_key parse_hash (sem_to_tree print_key print_hash p) <> Panic s).
Proof.
  intros pk pa ph pah H1 H2. split.
  - exact (conc_printed_never_panics pk pa ph pah H1 H2).
  - exact (sem_printed_never_panics pk pa ph pah H1 H2).
Qed.

Theorem pol_to_tree_well_formed :
  forall (print_key : N -> tbytes) (print_hash : phk -> N -> tbytes),
  (forall k, forallb name_char (print_key k) = true) ->
  (forall h v, forallb name_char (print_hash h v) = true) ->
  (forall p, well_formed (conc_to_tree print_key print_hash p) = true) /\
  (forall p, well_formed (sem_to_tree print_key print_hash p) = true).
Proof.
  intros pk ph H1 H2. split.
  - exact (conc_to_tree_well_formed pk ph H1 H2).
  - exact (sem_to_tree_well_formed pk ph H1 H2).
Qed.

(* ------------------------------------------------------------------ an instance of the parameters
   (non-vacuity of the hypotheses): keys and hashes written in decimal *)
Definition pinst_print_key : N -> tbytes := dec.
Definition pinst_parse_key (s : tbytes) : option N := dval s 0.
Definition pinst_print_hash (_ : phk) : N -> tbytes := dec.
Definition pinst_parse_hash (_ : phk) (s : tbytes) : option N := dval s 0.
Lemma pinst_key_rt : forall k, pinst_parse_key (pinst_print_key k) = Some k.
Proof. intros k. apply dval_dec. Qed.
Lemma pinst_hash_rt : forall h v, pinst_parse_hash h (pinst_print_hash h v) = Some v.
Proof. intros h v. apply dval_dec. Qed.
Lemma pinst_key_chars : forall k, forallb name_char (pinst_print_key k) = true.
Proof. intros k. apply dec_chars. Qed.
Lemma pinst_hash_chars : forall h v, forallb name_char (pinst_print_hash h v) = true.
Proof. intros h v. apply dec_chars. Qed.

(* ------------------------------------------------------------------ outside the parsers' domain
   Values the public enum constructors build (they satisfy the types' own invariants: Threshold's 1 <= k <= n,
   [wf] / [cwf]) whose printed form the parser of the same type refuses. *)
Definition sem_1of1 : spol := SThresh 1 [SKey 1].
Definition conc_and3 : wpol := WAnd [WKey 1; WKey 2; WKey 3].
Definition conc_or3 : wpol := WOr [(1, WKey 1); (1, WKey 2); (1, WKey 3)].
Definition conc_and1 : wpol := WAnd [WKey 1].

Theorem sem_unrestricted_roundtrip_refuted :
  exists p, wf p = true /\
    sem_from_tree pinst_parse_key pinst_parse_hash (sem_to_tree pinst_print_key pinst_print_hash p) = Err (PMs EArity).
Proof. exists sem_1of1. split; vm_compute; reflexivity. Qed.

Theorem conc_unrestricted_roundtrip_refuted :
  exists p, cwf (erase p) = true /\
    conc_from_tree pinst_parse_key pinst_parse_hash (conc_to_tree pinst_print_key pinst_print_hash p) = Err (PMs EArity).
Proof. exists conc_and3. split; vm_compute; reflexivity. Qed.

Lemma conc_or3_refused :
  conc_from_tree pinst_parse_key pinst_parse_hash (conc_to_tree pinst_print_key pinst_print_hash conc_or3) = Err (PMs EArity).
Proof. vm_compute. reflexivity. Qed.
Lemma conc_and1_refused :
  conc_from_tree pinst_parse_key pinst_parse_hash (conc_to_tree pinst_print_key pinst_print_hash conc_and1) = Err (PMs EArity).
Proof. vm_compute. reflexivity. Qed.
