(* C14: reachability invariants of the PSBT state machine; final_monotone, utxos_invariant. *)
From Coq Require Import List Bool NArith Arith Lia.
Import ListNotations.
From Verif Require Import PsbtModel PsbtLemmas.

Definition finals_of (a : pinput) := (i_fsig a, i_fwit a).
Definition utxos_of (a : pinput) := (i_nwutxo a, i_wutxo a).

(* [a'] may follow [a] in a history: utxo fields are kept; once final, the finals are kept *)
Definition ireach (a a' : pinput) : Prop :=
  utxos_of a' = utxos_of a /\ (is_final a = true -> finals_of a' = finals_of a).

Lemma ireach_refl a : ireach a a.
Proof. split; auto. Qed.

Lemma is_final_finals a b : finals_of a = finals_of b -> is_final a = is_final b.
Proof. unfold finals_of, is_final. intros H; inversion H. now rewrite H1, H2. Qed.

Lemma ireach_trans a b c : ireach a b -> ireach b c -> ireach a c.
Proof.
  intros [U1 F1] [U2 F2]. split. congruence.
  intros Hf. specialize (F1 Hf). rewrite <- F1. apply F2. rewrite (is_final_finals _ _ F1). exact Hf.
Qed.

Lemma ireach_frame a a' : finals_of a' = finals_of a -> utxos_of a' = utxos_of a -> ireach a a'.
Proof. split; auto. Qed.

Lemma ireach_cleared a s w : is_final a = false -> ireach a (cleared a s w).
Proof. intros H. split. reflexivity. congruence. Qed.

Definition sreach (st st' : psbt) : Prop :=
  p_tx st' = p_tx st /\ p_ntx st' = p_ntx st /\ Forall2 ireach (p_inputs st) (p_inputs st').

Lemma Forall2_refl {A} (R : A -> A -> Prop) l : (forall x, R x x) -> Forall2 R l l.
Proof. intros H. induction l; constructor; auto. Qed.

Lemma Forall2_trans {A} (R : A -> A -> Prop) : (forall x y z, R x y -> R y z -> R x z) ->
  forall l1 l2 l3, Forall2 R l1 l2 -> Forall2 R l2 l3 -> Forall2 R l1 l3.
Proof.
  intros T l1 l2 l3 H. revert l3. induction H; intros l3 H3; inversion H3; subst; constructor; eauto.
Qed.

Lemma Forall2_set_nth {A} (R : A -> A -> Prop) l i a x :
  (forall y, R y y) -> nth_error l i = Some a -> R a x -> Forall2 R l (set_nth i x l).
Proof.
  intros Rr. revert i. induction l as [|y r IH]; intros [|i] Hn Hr; simpl in *; try discriminate.
  - inversion Hn; subst. constructor; auto. apply Forall2_refl; auto.
  - constructor; auto.
Qed.

Lemma Forall2_nth {A} (R : A -> A -> Prop) l l' i a :
  Forall2 R l l' -> nth_error l i = Some a -> exists a', nth_error l' i = Some a' /\ R a a'.
Proof.
  intros H. revert i. induction H; intros [|i] Hn; simpl in *; try discriminate.
  - inversion Hn; subst. eauto.
  - eauto.
Qed.

Lemma sreach_refl st : sreach st st.
Proof. repeat split. apply Forall2_refl, ireach_refl. Qed.

Lemma sreach_trans a b c : sreach a b -> sreach b c -> sreach a c.
Proof.
  intros (T1 & N1 & F1) (T2 & N2 & F2). repeat split; try congruence.
  eapply Forall2_trans; eauto using ireach_trans.
Qed.

Lemma sreach_set st i a x :
  nth_error (p_inputs st) i = Some a -> ireach a x -> sreach st (with_inputs st (set_nth i x (p_inputs st))).
Proof. intros. repeat split. simpl. eapply Forall2_set_nth; eauto using ireach_refl. Qed.

Lemma sreach_length st st' : sreach st st' -> length (p_inputs st') = length (p_inputs st).
Proof. intros (_ & _ & F). induction F; simpl; auto. Qed.

Lemma sreach_utxos st st' : sreach st st' -> map utxos_of (p_inputs st') = map utxos_of (p_inputs st).
Proof. intros (_ & _ & F). induction F as [|a a' l l' [U _] _ IH]; simpl; congruence. Qed.

Section Reach.
  Variable try_input : psbt -> nat -> bool -> tryres.
  Variable interp_check : psbt -> option (nat * N).
  Variable desc_info : N -> dinfo.
  Variable sig_flag : N -> option N.
  Variable sighash_ecdsa : N -> option N.
  Variable inp_mall : bool -> bool.

  Notation stepM := (step try_input interp_check desc_info sig_flag sighash_ecdsa inp_mall).
  Notation runM := (run try_input interp_check desc_info sig_flag sighash_ecdsa inp_mall).
  Notation finalize_inputM := (finalize_input try_input).

  (* ---- what finalize_input does, exactly *)
  Lemma finalize_input_spec st i m :
    match finalize_inputM st i m with
    | FPanic => length (p_inputs st) <= i
    | FErr k e => exists a, nth_error (p_inputs st) i = Some a /\ is_final a = false /\
                  ((get_utxo a = None /\ k = i /\ e = e_missing_utxo) \/
                   (get_utxo a <> None /\ try_input st i m = TErr k e))
    | FOk st' =>
        exists a, nth_error (p_inputs st) i = Some a /\
          ((is_final a = true /\ st' = st) \/
           (is_final a = false /\ exists s w, try_input st i m = TOk s w /\
              st' = with_inputs st (set_nth i (cleared a s w) (p_inputs st)))) /\
          (is_final a = false -> get_utxo a <> None)
    end.
  Proof.
    unfold finalize_input. destruct (nth_error (p_inputs st) i) as [a|] eqn:Hn.
    - destruct (is_final a) eqn:Hf.
      + exists a. split; auto. split; [left; auto|intros Hx; congruence].
      + destruct (get_utxo a) as [o|] eqn:Hu.
        * destruct (try_input st i m) as [s w|k e] eqn:Ht.
          -- exists a. split; auto. split; [|intros _; congruence]. right. split; auto. exists s, w. auto.
          -- exists a. split; auto. split; auto. right. split; [congruence|auto].
        * exists a. split; auto.
    - apply nth_error_None. exact Hn.
  Qed.

  Lemma finalize_input_sreach st i m st' : finalize_inputM st i m = FOk st' -> sreach st st'.
  Proof.
    intros H. pose proof (finalize_input_spec st i m) as S. rewrite H in S.
    destruct S as (a & Hn & [[_ ->]|(Hf & s & w & _ & ->)] & _).
    - apply sreach_refl.
    - eapply sreach_set; eauto using ireach_cleared.
  Qed.

  Lemma fin_mut_loop_sreach m idxs : forall st errs,
    sreach st (fst (fst (fin_mut_loop try_input m idxs st errs))).
  Proof.
    induction idxs as [|i r IH]; intros st errs; simpl.
    - apply sreach_refl.
    - destruct (finalize_inputM st i m) as [st'|k e|] eqn:H.
      + eapply sreach_trans. eapply finalize_input_sreach; eauto. apply IH.
      + apply IH.
      + apply sreach_refl.
  Qed.

  Lemma fin_old_loop_sreach m idxs : forall st, sreach st (fst (fin_old_loop try_input m idxs st)).
  Proof.
    induction idxs as [|i r IH]; intros st; simpl.
    - apply sreach_refl.
    - destruct (finalize_inputM st i m) as [st'|k e|] eqn:H; simpl.
      + eapply sreach_trans. eapply finalize_input_sreach; eauto. apply IH.
      + apply sreach_refl.
      + apply sreach_refl.
  Qed.

  Lemma on_input_sreach st i f :
    (forall a, finals_of (f a) = finals_of a /\ utxos_of (f a) = utxos_of a) ->
    sreach st (fst (on_input st i f)).
  Proof.
    intros Hf. unfold on_input. destruct (nth_error (p_inputs st) i) as [a|] eqn:Hn; simpl.
    - eapply sreach_set; eauto. destruct (Hf a). apply ireach_frame; auto.
    - apply sreach_refl.
  Qed.

  Lemma apply_update_frame a d :
    finals_of (apply_update a d) = finals_of a /\ utxos_of (apply_update a d) = utxos_of a.
  Proof. unfold apply_update. destruct (d_tr d); split; reflexivity. Qed.

  Lemma update_input_sreach st i d : sreach st (fst (update_input desc_info st i d)).
  Proof.
    unfold update_input. destruct (nth_error (p_inputs st) i) as [a|] eqn:Hn; [|apply sreach_refl].
    destruct (p_ntx st <=? i); [apply sreach_refl|].
    destruct (match i_nwutxo a with Some nw => negb (nw_txid_ok nw) | None => false end); [apply sreach_refl|].
    destruct (expected_spk a (d_segwit (desc_info d))); [|apply sreach_refl].
    destruct (negb (n =? d_spk (desc_info d))%N); [apply sreach_refl|]. simpl.
    eapply sreach_set; eauto. destruct (apply_update_frame a (desc_info d)). apply ireach_frame; auto.
  Qed.

  Lemma step_sreach st o : sreach st (fst (stepM st o)).
  Proof.
    destruct o; simpl.
    - apply on_input_sreach. intros a; split; reflexivity.
    - apply on_input_sreach. intros a; split; reflexivity.
    - apply on_input_sreach. intros a; split; reflexivity.
    - apply on_input_sreach. intros a; destruct hk; split; reflexivity.
    - apply on_input_sreach. intros a; split; reflexivity.
    - apply on_input_sreach. intros a; apply apply_update_frame.
    - apply on_input_sreach. intros a; split; reflexivity.
    - apply on_input_sreach. intros a; split; reflexivity.
    - apply update_input_sreach.
    - unfold finalize_mut.
      pose proof (fin_mut_loop_sreach mall (seq 0 (length (p_inputs st))) st []) as H.
      destruct (fin_mut_loop try_input mall (seq 0 (length (p_inputs st))) st []) as [[st' es] p].
      simpl in H. destruct p; destruct es; exact H.
    - unfold finalize_old. destruct (sanity_check sig_flag sighash_ecdsa st); [apply sreach_refl|].
      apply fin_old_loop_sreach.
    - unfold finalize_inp. destruct (length (p_inputs st) <=? i); [apply sreach_refl|].
      destruct (finalize_inputM st i (inp_mall mall)) eqn:H; simpl; try apply sreach_refl.
      eapply finalize_input_sreach; eauto.
    - apply sreach_refl.
  Qed.

  Lemma run_sreach ops : forall st, sreach st (runM ops st).
  Proof.
    induction ops as [|o r IH]; intros st; simpl.
    - apply sreach_refl.
    - eapply sreach_trans. apply step_sreach. apply IH.
  Qed.

  (* ================= final_monotone =================
     once input i is final, its final fields never change, under ANY operation sequence *)
  Theorem final_monotone : forall ops st i a,
    nth_error (p_inputs st) i = Some a -> is_final a = true ->
    exists a', nth_error (p_inputs (runM ops st)) i = Some a' /\
               i_fsig a' = i_fsig a /\ i_fwit a' = i_fwit a.
  Proof.
    intros ops st i a Hn Hf. destruct (run_sreach ops st) as (_ & _ & F).
    destruct (Forall2_nth _ _ _ _ _ F Hn) as (a' & Hn' & _ & Hfin).
    exists a'. split; auto. specialize (Hfin Hf). inversion Hfin. auto.
  Qed.

  (* the unsigned transaction and the utxo fields never change, whatever the history *)
  Theorem utxos_invariant : forall ops st,
    p_tx (runM ops st) = p_tx st /\ p_ntx (runM ops st) = p_ntx st /\
    map utxos_of (p_inputs (runM ops st)) = map utxos_of (p_inputs st).
  Proof.
    intros ops st. pose proof (run_sreach ops st) as R. destruct R as (T & N & F).
    repeat split; auto. apply sreach_utxos. repeat split; auto.
  Qed.
End Reach.
