(* C15 proofs, part 1: depth lists <-> trees, TapTree::combine, TapTreeBuilder (128 special
   case), the walk of Tr::from_tree, the brace printer fmt_helper, translate_pk. *)
From Coq Require Import List Bool NArith Arith Lia.
Import ListNotations.
From Verif Require Import TapTreeModel.

Lemma tbind_assoc : forall A B C (x : tres A) (f : A -> tres B) (g : B -> tres C),
  tbind (tbind x f) g = tbind x (fun a => tbind (f a) g).
Proof. intros. destruct x; reflexivity. Qed.

Section ShapeProofs.
Variable leaf : Type.
Notation tree := (tree leaf).
Notation dlist := (dlist leaf).
Notation depths_at := (depths_at leaf).
Notation height := (height leaf).

Definition bump1 (p : nat * leaf) : nat * leaf := (S (fst p), snd p).

Lemma depths_at_S : forall t d, depths_at (S d) t = map bump1 (depths_at d t).
Proof.
  induction t as [l | a IHa b IHb]; intros d; cbn.
  - reflexivity.
  - rewrite map_app, IHa, IHb. reflexivity.
Qed.

Lemma depths_at_nonempty : forall t d, depths_at d t <> [].
Proof.
  induction t as [l | a IHa b IHb]; intros d; cbn.
  - discriminate.
  - intro H. apply app_eq_nil in H. destruct H as [H _]. exact (IHa _ H).
Qed.

Lemma depths_at_bound : forall t d p, In p (depths_at d t) -> d <= fst p /\ fst p <= d + height t.
Proof.
  induction t as [l | a IHa b IHb]; intros d p Hin; cbn in *.
  - destruct Hin as [<- | []]. cbn. lia.
  - apply in_app_or in Hin. destruct Hin as [H | H]; [apply IHa in H | apply IHb in H]; lia.
Qed.

Lemma depths_at_max : forall t d, exists p, In p (depths_at d t) /\ fst p = d + height t.
Proof.
  induction t as [l | a IHa b IHb]; intros d; cbn.
  - exists (d, l). split; [left; reflexivity | cbn; lia].
  - destruct (Nat.max_spec (height a) (height b)) as [[_ E] | [_ E]]; rewrite E.
    + destruct (IHb (S d)) as [p [Hin Hp]]. exists p. split; [apply in_or_app; right; exact Hin | lia].
    + destruct (IHa (S d)) as [p [Hin Hp]]. exists p. split; [apply in_or_app; left; exact Hin | lia].
Qed.

Lemma depths_length : forall t d, length (depths_at d t) = n_leaves leaf t.
Proof.
  induction t as [l | a IHa b IHb]; intros d; cbn; [reflexivity|].
  rewrite app_length, IHa, IHb. reflexivity.
Qed.

(* ---- tree_of_depths ---- *)
Fixpoint flat (st : list (nat * tree)) : dlist :=
  match st with [] => [] | p :: r => flat r ++ depths_at (fst p) (snd p) end.

Lemma reduce_flat : forall st d t, flat (reduce leaf d t st) = flat st ++ depths_at d t.
Proof.
  induction st as [| [d' a] st IH]; intros d t; cbn [reduce].
  - reflexivity.
  - destruct ((d' =? d) && (0 <? d)) eqn:E.
    + apply andb_prop in E. destruct E as [E1 E2].
      apply Nat.eqb_eq in E1. apply Nat.ltb_lt in E2. subst d'.
      rewrite IH. cbn [flat fst snd TapTreeModel.depths_at].
      replace (S (d - 1)) with d by lia. rewrite app_assoc. reflexivity.
    + reflexivity.
Qed.

Lemma fold_flat : forall dl st, flat (fold_left (tod_step leaf) dl st) = flat st ++ dl.
Proof.
  induction dl as [| [d l] dl IH]; intros st; cbn [fold_left].
  - rewrite app_nil_r. reflexivity.
  - rewrite IH. unfold tod_step. rewrite reduce_flat. cbn. rewrite <- app_assoc. reflexivity.
Qed.

Lemma tree_of_depths_sound : forall dl t, tree_of_depths leaf dl = Some t -> dl = depths_of_tree leaf t.
Proof.
  intros dl t H. unfold tree_of_depths in H.
  pose proof (fold_flat dl []) as F.
  destruct (fold_left (tod_step leaf) dl []) as [| [d t'] r]; [discriminate|].
  destruct d; [| discriminate]. destruct r; [| discriminate].
  inversion H; subst. cbn in F. symmetry. exact F.
Qed.

Definition top_le (d : nat) (st : list (nat * tree)) : Prop :=
  match st with [] => True | p :: _ => fst p <= d end.

Lemma fold_depths : forall t d st, top_le d st ->
  fold_left (tod_step leaf) (depths_at d t) st = reduce leaf d t st.
Proof.
  induction t as [l | a IHa b IHb]; intros d st Hst; cbn [TapTreeModel.depths_at].
  - reflexivity.
  - rewrite fold_left_app. rewrite IHa.
    2:{ destruct st as [| p r]; cbn in *; [exact I | lia]. }
    assert (Hr : reduce leaf (S d) a st = (S d, a) :: st).
    { destruct st as [| [d' x] r]; cbn [reduce]; [reflexivity|].
      cbn in Hst. replace (d' =? S d) with false; [reflexivity|].
      symmetry. apply Nat.eqb_neq. lia. }
    rewrite Hr. rewrite IHb by (cbn; lia).
    cbn [reduce]. rewrite Nat.eqb_refl. cbn [andb Nat.ltb Nat.leb].
    replace (S d - 1) with d by lia. reflexivity.
Qed.

Lemma tree_of_depths_complete : forall t, tree_of_depths leaf (depths_of_tree leaf t) = Some t.
Proof.
  intros t. unfold tree_of_depths, depths_of_tree. rewrite fold_depths by exact I. reflexivity.
Qed.

(* ---- TapTree::combine / building through the API ---- *)
Lemma bump_depths_ok : forall dl, (forall p, In p dl -> fst p <= 127) ->
  bump_depths leaf dl = TOk (map bump1 dl).
Proof.
  induction dl as [| [d l] dl IH]; intros H; cbn [bump_depths map].
  - reflexivity.
  - assert (Hd : d <= 127) by (apply (H (d, l)); left; reflexivity).
    replace (127 <? d) with false by (symmetry; apply Nat.ltb_ge; exact Hd).
    rewrite IH by (intros p Hp; apply H; right; exact Hp). reflexivity.
Qed.

Lemma bump_depths_err : forall dl, (exists p, In p dl /\ 127 < fst p) ->
  bump_depths leaf dl = TErr ErrDepth.
Proof.
  induction dl as [| [d l] dl IH]; intros [p [Hin Hp]]; cbn [bump_depths].
  - destruct Hin.
  - destruct (127 <? d) eqn:E; [reflexivity|].
    destruct Hin as [<- | Hin].
    + cbn in Hp. apply Nat.ltb_ge in E. lia.
    + rewrite IH by (exists p; split; assumption). reflexivity.
Qed.

Lemma api_build_ok : forall t, height t <= 128 -> api_build leaf t = TOk (depths_of_tree leaf t).
Proof.
  unfold depths_of_tree.
  induction t as [l | a IHa b IHb]; intros H; cbn [api_build].
  - reflexivity.
  - cbn [TapTreeModel.height] in H.
    rewrite IHa, IHb by lia. cbn [tbind]. unfold tt_combine.
    rewrite bump_depths_ok.
    + cbn [TapTreeModel.depths_at]. rewrite map_app, <- !depths_at_S. reflexivity.
    + intros p Hp. apply in_app_or in Hp.
      destruct Hp as [Hp | Hp]; apply depths_at_bound in Hp; lia.
Qed.

Lemma api_build_rej : forall t, 128 < height t -> api_build leaf t = TErr ErrDepth.
Proof.
  induction t as [l | a IHa b IHb]; intros H; cbn [api_build TapTreeModel.height] in *.
  - lia.
  - destruct (Nat.lt_ge_cases 128 (height a)) as [Ha | Ha].
    { rewrite IHa by exact Ha. reflexivity. }
    rewrite (api_build_ok a Ha). cbn [tbind].
    destruct (Nat.lt_ge_cases 128 (height b)) as [Hb | Hb].
    { rewrite IHb by exact Hb. reflexivity. }
    rewrite (api_build_ok b Hb). cbn [tbind]. unfold tt_combine, depths_of_tree.
    apply bump_depths_err.
    destruct (Nat.max_spec (height a) (height b)) as [[_ E] | [_ E]]; rewrite E in H.
    + destruct (depths_at_max b 0) as [p [Hin Hp]]. exists p. split; [apply in_or_app; right; exact Hin | lia].
    + destruct (depths_at_max a 0) as [p [Hin Hp]]. exists p. split; [apply in_or_app; left; exact Hin | lia].
Qed.

(* ---- TapTreeBuilder ---- *)
Definition clear_above (B : N) (d : nat) : Prop := forall h, d < h -> N.testbit B (N.of_nat h) = false.

(* the tail of push_leaf: what happens once a subtree at depth d is complete *)
Definition fin (dl : dlist) (B : N) (c128 : bool) (d : nat) : tres (builder leaf) :=
  if d =? 128 then
    if c128 then r <-- complete_loop B 127 ;; TOk (mkB leaf dl (fst r) false (snd r))
    else TOk (mkB leaf dl B true d)
  else r <-- complete_loop B d ;; TOk (mkB leaf dl (fst r) c128 (snd r)).

Lemma push_leaf_fin : forall dl B c d l,
  push_leaf leaf (mkB leaf dl B c d) l = fin (dl ++ [(d, l)]) B c d.
Proof. reflexivity. Qed.

Lemma complete_loop_clear : forall B h, 0 < h -> h <= 127 -> N.testbit B (N.of_nat h) = false ->
  complete_loop B h = TOk (N.setbit B (N.of_nat h), h).
Proof.
  intros B h H0 H1 Hb. destruct h as [| h']; [lia|]. cbn [complete_loop].
  replace (128 <=? S h') with false by (symmetry; apply Nat.leb_gt; lia).
  rewrite Hb. reflexivity.
Qed.

Lemma complete_loop_set : forall B h, h <= 126 ->
  N.testbit B (N.of_nat (S h)) = true ->
  complete_loop B (S h) = complete_loop (N.clearbit B (N.of_nat (S h))) h.
Proof.
  intros B h H1 Hb. cbn [complete_loop].
  replace (128 <=? S h) with false by (symmetry; apply Nat.leb_gt; lia).
  rewrite Hb. reflexivity.
Qed.

Lemma clear_set_id : forall B n, N.testbit B n = false -> N.clearbit (N.setbit B n) n = B.
Proof.
  intros B n H. apply N.bits_inj. intro m.
  rewrite N.clearbit_eqb, N.setbit_eqb.
  destruct (N.eqb_spec n m) as [-> | Hne]; cbn.
  - rewrite H. reflexivity.
  - rewrite andb_true_r. reflexivity.
Qed.

Lemma clear_above_setbit : forall B d, clear_above B d -> clear_above (N.setbit B (N.of_nat (S d))) (S d).
Proof.
  intros B d H h Hh. rewrite N.setbit_eqb.
  replace (N.of_nat (S d) =? N.of_nat h)%N with false by (symmetry; apply N.eqb_neq; lia).
  cbn. apply H. lia.
Qed.

Lemma build_fin : forall t d dl B c,
  d + height t <= 128 -> clear_above B d -> (c = true -> d = 128) ->
  build leaf (mkB leaf dl B c d) t = fin (dl ++ depths_at d t) B c d.
Proof.
  induction t as [l | a IHa b IHb]; intros d dl B c Hh Hcl Hc.
  - reflexivity.
  - cbn [build TapTreeModel.depths_at TapTreeModel.height] in *.
    assert (Hd : d <= 127) by lia.
    assert (c = false) by (destruct c; [specialize (Hc eq_refl); lia | reflexivity]). subst c.
    unfold push_inner_node. cbn [b_cur b_dl b_heights b_128].
    replace (255 <=? d) with false by (symmetry; apply Nat.leb_gt; lia).
    replace (128 <? S d) with false by (symmetry; apply Nat.ltb_ge; lia).
    cbn [tbind].
    rewrite IHa; [| lia | intros h Hlt; apply Hcl; lia | discriminate].
    rewrite app_assoc.
    destruct (Nat.eq_dec (S d) 128) as [E | E].
    + (* the two children sit at depth 128: the complete_128 flag *)
      unfold fin at 1. rewrite E. cbn [Nat.eqb tbind].
      replace d with 127 in * by lia.
      rewrite IHb; [| lia | intros h Hlt; apply Hcl; lia | reflexivity].
      unfold fin. cbn [Nat.eqb]. reflexivity.
    + unfold fin at 1.
      replace (S d =? 128) with false by (symmetry; apply Nat.eqb_neq; exact E).
      rewrite complete_loop_clear; [| lia | lia | apply Hcl; lia].
      cbn [tbind fst snd].
      rewrite IHb; [| lia | apply clear_above_setbit; exact Hcl | discriminate].
      unfold fin.
      replace (S d =? 128) with false by (symmetry; apply Nat.eqb_neq; exact E).
      replace (d =? 128) with false by (symmetry; apply Nat.eqb_neq; lia).
      rewrite complete_loop_set; [| lia |].
      * rewrite clear_set_id by (apply Hcl; lia). reflexivity.
      * rewrite N.setbit_eqb, N.eqb_refl. reflexivity.
Qed.

Lemma build_tree_ok : forall t, height t <= 128 -> build_tree leaf t = TOk (depths_of_tree leaf t).
Proof.
  intros t H. unfold build_tree, b_new.
  rewrite build_fin; [| lia | intros h _; apply N.bits_0 | discriminate].
  unfold fin. cbn [Nat.eqb complete_loop tbind fst snd app]. unfold finalize. cbn [b_dl].
  unfold depths_of_tree. pose proof (depths_at_nonempty t 0).
  destruct (depths_at 0 t); [contradiction | reflexivity].
Qed.

Lemma build_rej : forall t d dl B c,
  d <= 128 -> clear_above B d -> (c = true -> d = 128) -> 128 < d + height t ->
  build leaf (mkB leaf dl B c d) t = TErr ErrDepth.
Proof.
  induction t as [l | a IHa b IHb]; intros d dl B c Hd Hcl Hc Hh.
  - cbn in Hh. lia.
  - cbn [build TapTreeModel.height] in *.
    unfold push_inner_node. cbn [b_cur b_dl b_heights b_128].
    replace (255 <=? d) with false by (symmetry; apply Nat.leb_gt; lia).
    destruct (Nat.eq_dec d 128) as [-> | Hne].
    { reflexivity. }
    replace (128 <? S d) with false by (symmetry; apply Nat.ltb_ge; lia).
    assert (c = false) by (destruct c; [specialize (Hc eq_refl); lia | reflexivity]). subst c.
    cbn [tbind].
    destruct (Nat.lt_ge_cases 128 (S d + height a)) as [Ha | Ha].
    { rewrite IHa; [reflexivity | lia | intros h Hlt; apply Hcl; lia | discriminate | exact Ha]. }
    rewrite build_fin; [| exact Ha | intros h Hlt; apply Hcl; lia | discriminate].
    assert (Hb : 128 < S d + height b) by lia.
    destruct (Nat.eq_dec (S d) 128) as [E | E].
    + unfold fin. rewrite E. cbn [Nat.eqb tbind].
      apply IHb; [lia | intros h Hlt; apply Hcl; lia | reflexivity | lia].
    + unfold fin.
      replace (S d =? 128) with false by (symmetry; apply Nat.eqb_neq; exact E).
      rewrite complete_loop_clear; [| lia | lia | apply Hcl; lia].
      cbn [tbind fst snd].
      apply IHb; [lia | apply clear_above_setbit; exact Hcl | discriminate | exact Hb].
Qed.

Lemma build_tree_rej : forall t, 128 < height t -> build_tree leaf t = TErr ErrDepth.
Proof.
  intros t H. unfold build_tree, b_new.
  rewrite build_rej; [reflexivity | lia | intros h _; apply N.bits_0 | discriminate | lia].
Qed.

(* ---- the walk of Tr::from_tree over the brace tokens of t ---- *)
Notation toks := (tokens_of_tree leaf).

Lemma n_children_skip : forall t d r acc,
  n_children leaf d (toks t ++ r) acc = n_children leaf d r acc.
Proof.
  induction t as [l | a IHa b IHb]; intros d r acc; cbn [tokens_of_tree app n_children].
  - reflexivity.
  - rewrite <- app_assoc. rewrite IHa. cbn [app n_children].
    rewrite <- app_assoc. rewrite IHb. reflexivity.
Qed.

Lemma wf_go_skip : forall t d r, wf_go leaf d true (toks t ++ r) = wf_go leaf d false r.
Proof.
  induction t as [l | a IHa b IHb]; intros d r; cbn [tokens_of_tree app wf_go andb].
  - reflexivity.
  - rewrite <- app_assoc. rewrite IHa. cbn [app wf_go negb andb Nat.ltb Nat.leb].
    rewrite <- app_assoc. rewrite IHb. cbn [app wf_go negb andb Nat.ltb Nat.leb].
    replace (S d - 1) with d by lia. reflexivity.
Qed.

Lemma walk_build : forall t b r,
  walk leaf (toks t ++ r) b = (b' <-- build leaf b t ;; walk leaf r b').
Proof.
  induction t as [l | a IHa b0 IHb]; intros b r; cbn [tokens_of_tree app walk build].
  - reflexivity.
  - rewrite <- app_assoc. rewrite n_children_skip. cbn [app n_children].
    rewrite <- app_assoc. rewrite n_children_skip. cbn [app n_children].
    rewrite !tbind_assoc. destruct (push_inner_node leaf b) as [b1 | e | s]; cbn [tbind]; try reflexivity.
    rewrite IHa. rewrite tbind_assoc. destruct (build leaf b1 a) as [b2 | e | s]; cbn [tbind]; try reflexivity.
    cbn [walk]. rewrite IHb. destruct (build leaf b2 b0) as [b3 | e | s]; cbn [tbind]; reflexivity.
Qed.

Lemma parse_tokens_build : forall t, parse_tokens leaf (toks t) = build_tree leaf t.
Proof.
  intros t. unfold parse_tokens, build_tree.
  rewrite <- (app_nil_r (toks t)). rewrite wf_go_skip. cbn [wf_go Nat.eqb negb andb].
  rewrite walk_build. rewrite tbind_assoc.
  destruct (build leaf (b_new leaf) t); reflexivity.
Qed.

(* ---- fmt_helper prints the brace tokens of the tree ---- *)
Lemma repeat_snoc : forall A (x : A) n l, repeat x n ++ x :: l = x :: repeat x n ++ l.
Proof. induction n as [| n IH]; intros l; cbn; [reflexivity | rewrite IH; reflexivity]. Qed.

Lemma open_braces_spec : forall k cc out,
  open_braces leaf k cc out = (repeat 0 k ++ cc, out ++ repeat TOpen k).
Proof.
  induction k as [| k IH]; intros cc out; cbn [open_braces repeat app].
  - rewrite app_nil_r. reflexivity.
  - rewrite IH. rewrite repeat_snoc. rewrite <- app_assoc. reflexivity.
Qed.

Definition sep (cc : list nat) : list (tok leaf) := match cc with [] => [] | _ => [TComma] end.

Lemma print_subtree : forall t d cc out, length cc <= d ->
  fold_left (print_step leaf) (depths_at d t) (cc, out) =
  (snd (bump_counts leaf (repeat 0 (d - length cc) ++ cc)),
   out ++ sep cc ++ repeat TOpen (d - length cc) ++ toks t ++ fst (bump_counts leaf (repeat 0 (d - length cc) ++ cc))).
Proof.
  induction t as [l | a IHa b IHb]; intros d cc out Hlen; cbn [TapTreeModel.depths_at].
  - cbn [fold_left print_step fst snd].
    assert (Ho : (match cc with [] => out | _ :: _ => out ++ [TComma] end) = out ++ sep cc)
      by (destruct cc; cbn; [rewrite app_nil_r|]; reflexivity).
    rewrite Ho, open_braces_spec.
    destruct (bump_counts leaf (repeat 0 (d - length cc) ++ cc)) as [cl cc3]. cbn [fst snd tokens_of_tree].
    rewrite <- !app_assoc. reflexivity.
  - rewrite fold_left_app. rewrite IHa by lia.
    replace (S d - length cc) with (S (d - length cc)) by lia.
    cbn [repeat app bump_counts Nat.eqb fst snd].
    set (R := repeat 0 (d - length cc) ++ cc).
    assert (HR : length (1 :: R) = S d) by (unfold R; cbn; rewrite app_length, repeat_length; lia).
    rewrite IHb by (rewrite HR; lia).
    rewrite HR. replace (S d - S d) with 0 by lia. cbn [repeat app bump_counts Nat.eqb sep].
    destruct (bump_counts leaf R) as [o r'] eqn:EB. cbn [fst snd tokens_of_tree].
    f_equal. rewrite <- !app_assoc. cbn [app].
    f_equal. f_equal.
    rewrite repeat_snoc. f_equal.
    rewrite app_nil_r. rewrite <- !app_assoc. cbn [app]. rewrite <- !app_assoc. reflexivity.
Qed.

Lemma print_tokens_tree : forall t, print_tokens leaf (depths_of_tree leaf t) = toks t.
Proof.
  intros t. unfold print_tokens, depths_of_tree. rewrite print_subtree by (cbn; lia).
  cbn. rewrite app_nil_r. reflexivity.
Qed.

End ShapeProofs.

(* ---- translate_pk keeps depths, order and shape ---- *)
Section TranslateProofs.
Variables leafA leafB : Type.
Variable g : leafA -> leafB.

Lemma translate_total : forall dl,
  translate_dl leafA leafB (fun l => Some (g l)) dl = TOk (map (fun p => (fst p, g (snd p))) dl).
Proof.
  induction dl as [| [d l] dl IH]; cbn [translate_dl map].
  - reflexivity.
  - rewrite IH. reflexivity.
Qed.

Lemma depths_map_tree : forall t d,
  depths_at leafB d (map_tree leafA leafB g t) = map (fun p => (fst p, g (snd p))) (depths_at leafA d t).
Proof.
  induction t as [l | a IHa b IHb]; intros d; cbn.
  - reflexivity.
  - rewrite map_app, IHa, IHb. reflexivity.
Qed.

Lemma height_map_tree : forall t, height leafB (map_tree leafA leafB g t) = height leafA t.
Proof. induction t as [l | a IHa b IHb]; cbn; [reflexivity | rewrite IHa, IHb; reflexivity]. Qed.
End TranslateProofs.

Lemma translate_fail_or_same_shape : forall leafA leafB (f : leafA -> option leafB) dl dl',
  translate_dl leafA leafB f dl = TOk dl' ->
  map fst dl' = map fst dl /\ Forall2 (fun p q => f (snd p) = Some (snd q)) dl dl'.
Proof.
  intros leafA leafB f. induction dl as [| [d l] dl IH]; intros dl' H; cbn [translate_dl] in H.
  - inversion H; subst. split; [reflexivity | constructor].
  - destruct (f l) as [l' |] eqn:E; [| discriminate].
    destruct (translate_dl leafA leafB f dl) as [r | e | s]; cbn [tbind] in H; try discriminate.
    inversion H; subst. destruct (IH r eq_refl) as [H1 H2].
    split; [cbn; rewrite H1; reflexivity | constructor; [exact E | exact H2]].
Qed.
