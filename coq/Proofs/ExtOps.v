(* C09: the executed-opcode count. For EVERY successful execution of the encoded script (any
   initial stack, hence in particular every satisfaction), the consensus opcode count
   count_ops + (keys of executed CHECKMULTISIGs) is at most static_ops + ast_cms, where ast_cms is the
   all-paths multisig-key bound of the AST; on the computable class [ops_covered] (the all-paths
   bound does not exceed the figure) this is the library's static_ops + max_exec_op_count. *)
From Coq Require Import Lia.
From Verif Require Import ExecTr ExecLemmas CodecNumProofs TypeCheck ExtModel ExtProofs ExtLemmas ExtSize ExtExec.
Local Open Scope N_scope.

Arguments N.add : simpl never. Arguments N.mul : simpl never. Arguments N.sub : simpl never.
Arguments N.max : simpl never. Arguments N.of_nat : simpl never. Arguments N.leb : simpl never.
Arguments N.ltb : simpl never. Arguments N.eqb : simpl never.

(* ------------------------------------------------------------------ script level *)
Lemma cb_if known neg thn els :
  cb_instr known (IIf neg thn els) = N.max (cbl None thn) (match els with Some e => cbl None e | None => 0 end).
Proof. destruct els; reflexivity. Qed.

Definition kok (known : option N) (st : state) : Prop :=
  match known with Some n => topn (stk st) = n | None => True end.

Lemma cms_of_op o st : cms_of (IOp o) st = if is_cms o then topn (stk st) else 0.
Proof. destruct o; reflexivity. Qed.

(* a CHECKMULTISIG that executes successfully has at most 20 keys *)
Lemma cms_le_20 e o st st' : is_cms o = true -> exec_op e o st = Ok st' -> topn (stk st) <= 20.
Proof.
  intros Hc H. assert (Ho : o = OP_CHECKMULTISIG \/ o = OP_CHECKMULTISIGVERIFY) by (destruct o; try discriminate; auto).
  unfold topn. destruct (stk st) as [|nb r1] eqn:Es.
  - lia.
  - destruct (num_operand 4 nb) as [n|] eqn:En; [|lia].
    destruct Ho as [-> | ->]; cbn [exec_op] in H; rewrite Es in H; destruct (e_sv e); try discriminate;
      rewrite En in H; destruct ((n <? 0)%Z || (20 <? n)%Z) eqn:Eb; try discriminate;
      apply orb_false_elim in Eb; destruct Eb as [E1 E2]; apply Z.ltb_ge in E1; apply Z.ltb_ge in E2; lia.
Qed.

Definition cms_instr_ok (e : env) (i : instr) : Prop :=
  forall known st t st' t', kok known st -> exec_instr_tr e i st t = Ok (st', t') ->
    tr_cms t' <= tr_cms t + cb_instr known i /\ kok (next_known i) st'.

Lemma cms_list_ok e (l : list instr) :
  Forall (cms_instr_ok e) l ->
  forall known st t st' t', kok known st -> exec_tr e l st t = Ok (st', t') -> tr_cms t' <= tr_cms t + cbl known l.
Proof.
  induction 1 as [|i r Hi _ IH]; intros known st t st' t' Hk H.
  - cbn [exec_tr] in H. inversion H; subst. cbn [cbl]. lia.
  - cbn [exec_tr] in H. destruct (exec_instr_tr e i st t) as [[s1 t1]|] eqn:E; [|discriminate].
    destruct (Hi known st t s1 t1 Hk E) as [A B]. specialize (IH _ _ _ _ _ B H). cbn [cbl]. lia.
Qed.

Lemma cms_instr_all e i : cms_instr_ok e i.
Proof.
  induction i using instr_nested_ind; unfold cms_instr_ok; intros known st t st' t' Hk Hx.
  - (* push *) cbn [exec_instr_tr exec_instr] in Hx. inversion Hx; subst. cbn [tr_step tr_cms cms_of cb_instr next_known kok stk].
    split; [lia|reflexivity].
  - (* num *) cbn [exec_instr_tr exec_instr] in Hx. inversion Hx; subst. cbn [tr_step tr_cms cms_of cb_instr next_known kok stk].
    split; [lia|reflexivity].
  - (* op *) cbn [exec_instr_tr] in Hx. destruct (exec_instr e (IOp o) st) as [s1|] eqn:E; [|discriminate].
    rewrite cms_of_op in Hx. inversion Hx; subst. cbn [tr_step tr_cms next_known kok]. split; [|exact I].
    cbn [cb_instr]. destruct (is_cms o) eqn:Ec; [|lia].
    destruct known as [n|]; [cbn [kok] in Hk; lia|].
    cbn [exec_instr] in E. pose proof (cms_le_20 e o st st' Ec E). lia.
  - (* if *) rewrite exec_if_tr in Hx. rewrite cb_if. cbn [next_known kok]. split; [|exact I].
    destruct (stk st) as [|v r]; [discriminate|]. destruct (if_cond e v) as [c|]; [|discriminate]. cbv zeta in Hx.
    destruct (xorb c neg).
    + pose proof (cms_list_ok e thn H None _ _ _ _ I Hx) as B. cbn [tr_step tr_cms] in B. lia.
    + destruct els as [el|].
      * pose proof (cms_list_ok e el H0 None _ _ _ _ I Hx) as B. cbn [tr_step tr_cms] in B. lia.
      * inversion Hx; subst. cbn [tr_step tr_cms]. lia.
Qed.

(* every successful run counts at most [cbl None s] multisig keys *)
Theorem exec_tr_cms_bound e s st t st' t' :
  exec_tr e s st t = Ok (st', t') -> tr_cms t' <= tr_cms t + cbl None s.
Proof.
  intros H. eapply cms_list_ok; [|exact I|exact H]. apply Forall_forall. intros i _. apply cms_instr_all.
Qed.

(* ------------------------------------------------------------------ structure of cbl *)
Definition last_known (k : option N) (a : script) : option N :=
  match a with [] => k | _ => next_known (last a (IOp OP_VERIFY)) end.
Lemma cbl_app k a b : cbl k (a ++ b) = cbl k a + cbl (last_known k a) b.
Proof.
  revert k. induction a as [|i r IH]; intros k; [cbn [app cbl last_known]; lia|].
  cbn [app cbl]. rewrite IH. destruct r as [|j r']; [cbn [last_known last cbl]; lia|].
  change (last_known k (i :: j :: r')) with (next_known (last (j :: r') (IOp OP_VERIFY))).
  change (last_known (next_known i) (j :: r')) with (next_known (last (j :: r') (IOp OP_VERIFY))). lia.
Qed.
(* the incoming knowledge only matters if the script starts with a CHECKMULTISIG *)
Definition nch (b : script) : bool := match b with IOp o :: _ => negb (is_cms o) | _ => true end.
Lemma cbl_nch k b : nch b = true -> cbl k b = cbl None b.
Proof.
  destruct b as [|i r]; [reflexivity|]. intros H. cbn [cbl]. f_equal.
  destruct i as [| |o|]; try reflexivity. cbn [nch] in H. cbn [cb_instr]. destruct (is_cms o); [discriminate|reflexivity].
Qed.
Lemma nch_app a b : a <> [] -> nch (a ++ b) = nch a.
Proof. destruct a; [contradiction|reflexivity]. Qed.
Lemma cbl_app_nch k a b : nch b = true -> cbl k (a ++ b) = cbl k a + cbl None b.
Proof. intros H. rewrite cbl_app, (cbl_nch _ b H). reflexivity. Qed.

Lemma is_cms_verify_form o o' : verify_form o = Some o' -> is_cms o' = is_cms o.
Proof. destruct o; intros H; inversion H; reflexivity. Qed.
Lemma cbl_push_verify s : forall k, cbl k (push_verify s) = cbl k s.
Proof.
  induction s as [|i r IH]; intros k; [cbn; lia|]. destruct r as [|j t].
  - destruct i as [b|n|o|ng th el]; try (cbn [push_verify cbl cb_instr]; rewrite ?cb_if; cbn [is_cms]; lia).
    cbn [push_verify]. destruct (verify_form o) as [o'|] eqn:E.
    + cbn [cbl cb_instr]. rewrite (is_cms_verify_form _ _ E). reflexivity.
    + cbn [cbl cb_instr is_cms]. lia.
  - rewrite push_verify_cons2. cbn [cbl]. rewrite IH. reflexivity.
Qed.
Lemma nch_push_verify s : nch s = true -> nch (push_verify s) = true.
Proof.
  destruct s as [|i r]; [reflexivity|]. destruct r as [|j t].
  - destruct i as [b|n|o|ng th el]; try reflexivity. cbn [push_verify nch]. intros H.
    destruct (verify_form o) as [o'|] eqn:E; cbn [nch]; [rewrite (is_cms_verify_form _ _ E)|]; exact H.
  - rewrite push_verify_cons2. destruct i; auto.
Qed.

(* ------------------------------------------------------------------ AST level *)
Lemma next_known_push_int n : (n <= 20)%nat -> next_known (push_int (Z.of_nat n)) = Some (N.of_nat n).
Proof.
  intros H. do 21 (destruct n as [|n]; [vm_compute; reflexivity|]). lia.
Qed.
Lemma cb_push_int k z : cb_instr k (push_int z) = 0.
Proof. unfold push_int. destruct (z =? 0)%Z; [reflexivity|]. destruct ((z =? -1)%Z || ((1 <=? z)%Z && (z <=? 16)%Z)); reflexivity. Qed.
Lemma nch_push_int z r : nch (push_int z :: r) = true.
Proof. unfold push_int. destruct (z =? 0)%Z; [reflexivity|]. destruct ((z =? -1)%Z || ((1 <=? z)%Z && (z <=? 16)%Z)); reflexivity. Qed.
Lemma cbl_map_push k (f : key -> bytes) ks : cbl k (map (fun key => IPush (f key)) ks) = 0.
Proof. revert k. induction ks as [|x r IH]; intros k; [reflexivity|]. cbn [map cbl cb_instr]. rewrite IH. lia. Qed.
Lemma cbl_flat_csa k (f : key -> bytes) ks : cbl k (flat_map (fun key => [IPush (f key); IOp OP_CHECKSIGADD]) ks) = 0.
Proof. revert k. induction ks as [|x r IH]; intros k; [reflexivity|]. cbn [flat_map app cbl cb_instr is_cms]. rewrite IH. lia. Qed.

Lemma cbl_tail_numequal k z : cbl k [push_int z; IOp OP_NUMEQUAL] = 0.
Proof. cbn [cbl]. rewrite cb_push_int. reflexivity. Qed.
Lemma cbl_multi k kk (pushes : script) n :
  (n <= 20)%nat -> (forall k', cbl k' pushes = 0) ->
  cbl k ([push_int kk] ++ pushes ++ [push_int (Z.of_nat n); IOp OP_CHECKMULTISIG]) = N.of_nat n.
Proof.
  intros Hn Hp. cbn [app cbl]. rewrite cb_push_int, cbl_app, Hp. cbn [cbl]. rewrite cb_push_int, (next_known_push_int n Hn).
  cbn [cb_instr is_cms]. lia.
Qed.

Lemma enc_nch ke m : nch (enc ke m) = true.
Proof.
  induction m using ms_ind_ext; cbn [enc]; unfold hash_frag; try reflexivity.
  - apply nch_push_int. - apply nch_push_int.
  - rewrite nch_app by apply enc_nonempty. exact IHm.
  - apply nch_push_verify, IHm.
  - rewrite nch_app by apply enc_nonempty. exact IHm.
  - rewrite nch_app by apply enc_nonempty. exact IHm1.
  - rewrite nch_app by apply enc_nonempty. exact IHm1.
  - rewrite nch_app by apply enc_nonempty. exact IHm1.
  - rewrite nch_app by apply enc_nonempty. exact IHm1.
  - rewrite nch_app by apply enc_nonempty. exact IHm1.
  - rewrite nch_app by apply enc_nonempty. exact IHm1.
  - (* thresh *) destruct xs as [|x0 rest]; [cbn [app]; apply nch_push_int|].
    inversion H; subst. rewrite <- app_assoc. rewrite nch_app by apply enc_nonempty. assumption.
  - apply nch_push_int. - apply nch_push_int.
  - destruct ks; [cbn [app]; apply nch_push_int|reflexivity].
  - destruct (ksort ke ks); [cbn [app]; apply nch_push_int|reflexivity].
Qed.

Lemma cbl_enc ke m : multi_small m = true -> forall k, cbl k (enc ke m) = ast_cms m.
Proof.
  induction m using ms_ind_ext; cbn [enc multi_small ast_cms]; unfold hash_frag; intros Hs kn;
    try (cbn [cbl cb_instr is_cms]; rewrite ?cb_push_int; reflexivity).
  - (* a: *) cbn [app cbl cb_instr is_cms]. rewrite cbl_app, (IHm Hs). cbn [cbl cb_instr is_cms]. lia.
  - (* s: *) cbn [app cbl cb_instr is_cms]. rewrite (IHm Hs). lia.
  - (* c: *) rewrite cbl_app, (IHm Hs). cbn [cbl cb_instr is_cms]. lia.
  - (* d: *) cbn [cbl]. rewrite cb_if, (IHm Hs). cbn [cb_instr is_cms cbl]. lia.
  - (* v: *) rewrite cbl_push_verify. apply IHm, Hs.
  - (* j: *) cbn [cbl]. rewrite cb_if, (IHm Hs). cbn [cb_instr is_cms cbl]. lia.
  - (* n: *) rewrite cbl_app, (IHm Hs). cbn [cbl cb_instr is_cms]. lia.
  - (* and_v *) apply andb_prop in Hs. destruct Hs as [H1 H2]. rewrite cbl_app, (IHm1 H1), (IHm2 H2). reflexivity.
  - (* and_b *) apply andb_prop in Hs. destruct Hs as [H1 H2]. rewrite !cbl_app, (IHm1 H1), (IHm2 H2). cbn [cbl cb_instr is_cms]. lia.
  - (* andor *) apply andb_prop in Hs. destruct Hs as [H12 H3]. apply andb_prop in H12. destruct H12 as [H1 H2].
    rewrite cbl_app, (IHm1 H1). cbn [cbl]. rewrite cb_if, (IHm3 H3), (IHm2 H2). lia.
  - (* or_b *) apply andb_prop in Hs. destruct Hs as [H1 H2]. rewrite !cbl_app, (IHm1 H1), (IHm2 H2). cbn [cbl cb_instr is_cms]. lia.
  - (* or_d *) apply andb_prop in Hs. destruct Hs as [H1 H2]. rewrite cbl_app, (IHm1 H1). cbn [cbl]. rewrite cb_if, (IHm2 H2). cbn [cb_instr is_cms cbl]. lia.
  - (* or_c *) apply andb_prop in Hs. destruct Hs as [H1 H2]. rewrite cbl_app, (IHm1 H1). cbn [cbl]. rewrite cb_if, (IHm2 H2). lia.
  - (* or_i *) apply andb_prop in Hs. destruct Hs as [H1 H2]. cbn [cbl]. rewrite cb_if, (IHm1 H1), (IHm2 H2). lia.
  - (* thresh *)
    assert (G : forall l, Forall (fun m => multi_small m = true -> forall k, cbl k (enc ke m) = ast_cms m) l ->
                (fix go (l : list ms) : bool := match l with [] => true | x :: r => multi_small x && go r end) l = true ->
                forall k', cbl k' ((fix go (l : list ms) : script :=
                                      match l with [] => [] | x :: r => enc ke x ++ [IOp OP_ADD] ++ go r end) l)
                           = (fix go (l : list ms) : N := match l with [] => 0 | x :: r => ast_cms x + go r end) l).
    { induction l as [|x r IHl]; intros HF Hg k'; [reflexivity|].
      inversion HF as [|? ? Hx HF']; subst. apply andb_prop in Hg. destruct Hg as [Hg1 Hg2].
      rewrite cbl_app, (Hx Hg1). cbn [app cbl cb_instr is_cms]. rewrite (IHl HF' Hg2). lia. }
    rewrite cbl_app. cbn [cbl cb_instr is_cms]. rewrite cb_push_int.
    destruct xs as [|x0 rest]; [cbn [cbl]; lia|].
    inversion H as [|? ? Hx0 HF']; subst. apply andb_prop in Hs. destruct Hs as [Hs0 Hsr].
    rewrite cbl_app, (Hx0 Hs0), (G rest HF' Hsr). lia.
  - (* multi *) apply Nat.leb_le in Hs. rewrite (cbl_multi kn (Z.of_N k) _ (length ks) Hs); [reflexivity|].
    intros k'. apply cbl_map_push.
  - apply Nat.leb_le in Hs.
    assert (Hl : length (map (fun key => IPush (kb ke key)) (ksort ke ks)) = length (ksort ke ks)) by apply map_length.
    rewrite (cbl_multi kn (Z.of_N k) _ (length ks) Hs); [reflexivity|]. intros k'. apply cbl_map_push.
  - (* multi_a *) rewrite cbl_app, cbl_tail_numequal. destruct ks as [|x r]; [reflexivity|].
    cbn [app cbl cb_instr is_cms]. rewrite cbl_flat_csa. reflexivity.
  - rewrite cbl_app, cbl_tail_numequal. destruct (ksort ke ks) as [|x r]; [reflexivity|].
    cbn [app cbl cb_instr is_cms]. rewrite cbl_flat_csa. reflexivity.
Qed.

(* ------------------------------------------------------------------ the theorems *)
(* consensus opcode count of a run of the encoded script: opcodes of the script + counted keys *)
Theorem exec_ops_bound fx c ke m e st t st' t' :
  no_multi_a m = true -> multi_small m = true ->
  exec_tr e (enc ke m) st t = Ok (st', t') ->
  count_ops (enc ke m) + (tr_cms t' - tr_cms t) <= static_ops (ext_of_gen fx c m) + ast_cms m.
Proof.
  intros Hn Hs H. rewrite (static_ops_exact fx c ke m Hn).
  pose proof (exec_tr_cms_bound e _ _ _ _ _ H) as B. rewrite (cbl_enc ke m Hs None) in B. lia.
Qed.

Theorem exec_ops_within_figure fx c ke m e st t st' t' :
  no_multi_a m = true -> multi_small m = true -> ops_covered fx c m = true ->
  exec_tr e (enc ke m) st t = Ok (st', t') ->
  exists n, sat_op_count (ext_of_gen fx c m) = Some n
            /\ count_ops (enc ke m) + (tr_cms t' - tr_cms t) <= n.
Proof.
  intros Hn Hs Hc H. unfold ops_covered in Hc. unfold sat_op_count.
  destruct (sat_data (ext_of_gen fx c m)) as [d|]; [|discriminate]. apply N.leb_le in Hc.
  eexists. split; [reflexivity|]. pose proof (exec_ops_bound fx c ke m e st t st' t' Hn Hs H). lia.
Qed.

(* scripts without multi / sortedmulti are always in the class *)
Fixpoint cms_free (m : ms) : bool :=
  match m with
  | MMulti _ _ | MSortedMulti _ _ => false
  | MAlt x | MSwap x | MCheck x | MDupIf x | MVerify x | MNonZero x | MZeroNotEqual x => cms_free x
  | MAndV x y | MAndB x y | MOrB x y | MOrD x y | MOrC x y | MOrI x y => cms_free x && cms_free y
  | MAndOr a b c => cms_free a && cms_free b && cms_free c
  | MThresh _ xs => (fix go (l : list ms) : bool := match l with [] => true | x :: r => cms_free x && go r end) xs
  | _ => true
  end.
Lemma cms_free_ast m : cms_free m = true -> ast_cms m = 0.
Proof.
  induction m using ms_ind_ext; cbn [cms_free ast_cms]; intros Hf; try reflexivity; try discriminate; auto.
  - apply andb_prop in Hf. destruct Hf as [H1 H2]. rewrite (IHm1 H1), (IHm2 H2). reflexivity.
  - apply andb_prop in Hf. destruct Hf as [H1 H2]. rewrite (IHm1 H1), (IHm2 H2). reflexivity.
  - apply andb_prop in Hf. destruct Hf as [H12 H3]. apply andb_prop in H12. destruct H12 as [H1 H2].
    rewrite (IHm1 H1), (IHm2 H2), (IHm3 H3). reflexivity.
  - apply andb_prop in Hf. destruct Hf as [H1 H2]. rewrite (IHm1 H1), (IHm2 H2). reflexivity.
  - apply andb_prop in Hf. destruct Hf as [H1 H2]. rewrite (IHm1 H1), (IHm2 H2). reflexivity.
  - apply andb_prop in Hf. destruct Hf as [H1 H2]. rewrite (IHm1 H1), (IHm2 H2). reflexivity.
  - apply andb_prop in Hf. destruct Hf as [H1 H2]. rewrite (IHm1 H1), (IHm2 H2). reflexivity.
  - induction H as [|x r Hx _ IH]; [reflexivity|]. apply andb_prop in Hf. destruct Hf as [H1 H2].
    rewrite (Hx H1), (IH H2). reflexivity.
Qed.
Lemma cms_free_covered fx c m :
  cms_free m = true -> sat_data (ext_of_gen fx c m) <> None -> ops_covered fx c m = true.
Proof.
  intros Hf Hs. unfold ops_covered. destruct (sat_data (ext_of_gen fx c m)); [|contradiction].
  rewrite (cms_free_ast m Hf). apply N.leb_le. lia.
Qed.

(* ------------------------------------------------------------------ outside ops_covered
   The scripts outside the class are those where a CHECKMULTISIG sits on a path that the figure's
   satisfactions do not take: under d:/j: on the dissatisfied side (the figure counts 0 keys for the
   canonical dissatisfaction, which skips the body) or in a branch whose selector the figure treats as
   never taken. For those the all-executions formulation is FALSE, so the class cannot be widened
   without restricting the statement to satisfier-produced witnesses: j:and_b(multi,a:sha256) can also
   be dissatisfied non-canonically (valid signature, wrong preimage), executing its CHECKMULTISIG, after
   which or_d runs the second multi. Accepted by the Script semantics, 22 counted ops, figure 19.
   The script is malleable (m_nm = false), so sanity-checked descriptors exclude it, and the library's
   satisfier never produces this witness: not a library defect, a limit of the formulation. *)
Definition rf_env : env :=
  mkEnv SvWitnessV0 0 0 2 (fun _ s => match s with [] => false | _ => true end) (fun _ => true)
        (fun _ => repeat 1 32) (fun _ => repeat 1 32) (fun _ => repeat 1 20) (fun _ => repeat 1 20).
Definition rf_ke : keyenv := mkKeyEnv (fun k => repeat k 33) (fun k => repeat k 20) (fun l => l).
Definition rf_ms : ms :=
  MOrD (MNonZero (MAndB (MMulti 1 [0; 1; 2]) (MAlt (MSha256 (repeat 0 32))))) (MMulti 1 [3; 4; 5]).
Definition rf_wit : stack := [[48]; []; repeat 7 32; [48]; []].

Theorem exec_ops_all_executions_refuted :
  exists tym st' t' n,
    type_of rf_ms = ROk tym /\ ext_safe as_written cx_segwit rf_ms = true
    /\ no_multi_a rf_ms = true /\ multi_small rf_ms = true
    /\ ops_covered as_written cx_segwit rf_ms = false
    /\ exec_tr rf_env (enc rf_ke rf_ms) (mkSt rf_wit []) (mkTrace 0 5) = Ok (st', t')
    /\ stk st' = [[1]]
    /\ sat_op_count (ext_of_gen as_written cx_segwit rf_ms) = Some n
    /\ n < count_ops (enc rf_ke rf_ms) + tr_cms t'.
Proof.
  exists (mkTy (mkCorr BB IAny true true) (mkMall DUnique true false)), (mkSt [[1]] []), (mkTrace 6 10), 19.
  vm_compute. repeat split; reflexivity.
Qed.
