(* C11 — proofs about the models of Ms/RobustModel.v *)
From Coq Require Import List NArith ZArith Bool Lia Arith.
From Verif Require Import Bytes RobustModel.
Import ListNotations.
Local Open Scope N_scope.

Arguments N.add : simpl never. Arguments N.sub : simpl never. Arguments N.mul : simpl never.
Arguments N.ltb : simpl never. Arguments N.leb : simpl never. Arguments N.eqb : simpl never.
Arguments N.of_nat : simpl never. Arguments N.to_nat : simpl never. Arguments N.max : simpl never.

Lemma nlen_map : forall A B (f : A -> B) l, nlen (map f l) = nlen l.
Proof. intros. unfold nlen. now rewrite map_length. Qed.

Lemma nlen_cons : forall A (x : A) l, nlen (x :: l) = nlen l + 1.
Proof. intros. unfold nlen. cbn [length]. lia. Qed.

Lemma nlen_nil : forall A, nlen (@nil A) = 0.
Proof. reflexivity. Qed.

(* ================================================================== Threshold *)
Lemma validate_spec : forall MAX k n,
  validate_k_n MAX k n = true <-> (1 <= k /\ k <= n /\ (MAX = 0 \/ n <= MAX)).
Proof.
  intros. unfold validate_k_n.
  rewrite negb_true_iff, !orb_false_iff, andb_false_iff.
  rewrite N.eqb_neq, !N.ltb_ge. split.
  - intros [[H1 H2] H3]. split; [lia|]. split; [lia|]. destruct H3; [left|right]; lia.
  - intros (H1 & H2 & H3). split; [split; lia|]. destruct H3; [left|right]; lia.
Qed.

Lemma thr_new_wf : forall A MAX k (l : list A) t, thr_new MAX k l = ROk t -> thr_wf MAX t /\ t = mkThr k l.
Proof.
  intros A MAX k l t. unfold thr_new. destruct (validate_k_n MAX k (nlen l)) eqn:E; [|discriminate].
  intros H; inversion H; subst. split; [|reflexivity]. apply validate_spec in E. exact E.
Qed.

Lemma thr_new_no_panic : forall A MAX k (l : list A) s, thr_new MAX k l <> RPanic s.
Proof. intros. unfold thr_new. destruct (validate_k_n _ _ _); discriminate. Qed.

Lemma thr_new_complete : forall A MAX k (l : list A),
  (1 <= k /\ k <= nlen l /\ (MAX = 0 \/ nlen l <= MAX)) -> thr_new MAX k l = ROk (mkThr k l).
Proof. intros. unfold thr_new. apply validate_spec in H. now rewrite H. Qed.

Lemma thr_from_iter_wf : forall A MAX k hint (l : list A) t,
  thr_from_iter MAX k hint l = ROk t -> thr_wf MAX t /\ t = mkThr k l.
Proof.
  intros A MAX k hint l t. unfold thr_from_iter.
  destruct ((0 <? MAX) && (MAX <? N.max k hint)); [discriminate|]. apply thr_new_wf.
Qed.

Lemma thr_from_iter_no_panic : forall A MAX k hint (l : list A) s, thr_from_iter MAX k hint l <> RPanic s.
Proof.
  intros. unfold thr_from_iter. destruct ((0 <? MAX) && (MAX <? N.max k hint)); [discriminate|].
  apply thr_new_no_panic.
Qed.

(* from_iter agrees with new when the size hint is honest (hint <= number of items) *)
Lemma thr_from_iter_agrees : forall A MAX k hint (l : list A),
  hint <= nlen l ->
  (exists t, thr_from_iter MAX k hint l = ROk t) <-> (exists t, thr_new MAX k l = ROk t).
Proof.
  intros A MAX k hint l Hh. unfold thr_from_iter.
  destruct ((0 <? MAX) && (MAX <? N.max k hint)) eqn:E; [|tauto].
  split; [intros [t H]; discriminate|].
  intros [t H]. apply thr_new_wf in H. destruct H as [(H1 & H2 & H3) ->]. cbn [t_k t_inner] in *.
  apply andb_true_iff in E. destruct E as [E1 E2]. apply N.ltb_lt in E1, E2. lia.
Qed.

Lemma thr_or_and_total : forall A MAX (l r : A), MAX <> 1 ->
  (exists t, thr_or MAX l r = ROk t /\ thr_wf MAX t) /\ (exists t, thr_and MAX l r = ROk t /\ thr_wf MAX t).
Proof.
  intros A MAX l r HM. unfold thr_or, thr_and.
  assert (E : (MAX =? 0) || (1 <? MAX) = true).
  { apply orb_true_iff. destruct (N.eq_dec MAX 0); [left; now apply N.eqb_eq|right; apply N.ltb_lt; lia]. }
  rewrite E.
  assert (Hm : MAX = 0 \/ 2 <= MAX).
  { destruct (N.eq_dec MAX 0); [now left|right; lia]. }
  split; eexists; (split; [reflexivity|]); unfold thr_wf; cbn [t_k t_inner]; unfold nlen; cbn [length].
  - split; [lia|]. split; [lia|]. destruct Hm; [now left|right; lia].
  - split; [lia|]. split; [lia|]. destruct Hm; [now left|right; lia].
Qed.

Lemma thr_or_n_and_n_total : forall A (l : list A), l <> [] ->
  (exists t, thr_or_n l = ROk t /\ thr_wf 0 t) /\ (exists t, thr_and_n l = ROk t /\ thr_wf 0 t).
Proof.
  intros A l Hl. unfold thr_or_n, thr_and_n.
  assert (E : nlen l =? 0 = false). { apply N.eqb_neq. destruct l; [congruence|]. rewrite nlen_cons. lia. }
  rewrite E. apply N.eqb_neq in E.
  split; eexists; (split; [reflexivity|]); unfold thr_wf; cbn [t_k t_inner]; repeat split; try lia; now left.
Qed.

Lemma thr_forget_wf : forall A MAX (t : thr A), thr_wf MAX t -> thr_wf 0 (thr_forget_maximum t).
Proof. intros A MAX t (H1 & H2 & _). unfold thr_wf, thr_forget_maximum. cbn [t_k t_inner]. repeat split; auto. Qed.

Lemma thr_map_wf : forall A B MAX (f : A -> B) (t : thr A), thr_wf MAX t -> thr_wf MAX (thr_map f t).
Proof. intros A B MAX f t H. unfold thr_wf, thr_map in *. cbn [t_k t_inner]. now rewrite nlen_map. Qed.

Lemma collect_results_len : forall A B (f : A -> routcome B) l ys,
  collect_results f l = ROk ys -> length ys = length l.
Proof.
  induction l as [|x r IH]; intros ys H; cbn [collect_results] in H.
  - inversion H; reflexivity.
  - destruct (f x); cbn [rbind] in H; try discriminate.
    destruct (collect_results f r) eqn:E; cbn [rbind] in H; try discriminate.
    inversion H; subst. cbn [length]. f_equal. now apply IH.
Qed.

Lemma collect_results_no_panic : forall A B (f : A -> routcome B) l,
  (forall x s, In x l -> f x <> RPanic s) -> forall s, collect_results f l <> RPanic s.
Proof.
  induction l as [|x r IH]; intros Hf s; cbn [collect_results]; [discriminate|].
  destruct (f x) eqn:E; cbn [rbind].
  - destruct (collect_results f r) eqn:E2; cbn [rbind]; try discriminate.
    exfalso. eapply IH; [|reflexivity]. intros; apply Hf; now right.
  - discriminate.
  - exfalso. eapply Hf; [now left|exact E].
Qed.

Lemma thr_translate_wf : forall A B MAX (f : A -> routcome B) (t : thr A) t',
  thr_wf MAX t -> thr_translate f t = ROk t' -> thr_wf MAX t'.
Proof.
  intros A B MAX f t t' H. unfold thr_translate.
  destruct (collect_results f (t_inner t)) eqn:E; cbn [rbind]; try discriminate.
  intros H1; inversion H1; subst. apply collect_results_len in E.
  unfold thr_wf, nlen in *. cbn [t_k t_inner]. now rewrite E.
Qed.

Lemma thr_translate_no_panic : forall A B (f : A -> routcome B) (t : thr A),
  (forall x s, f x <> RPanic s) -> forall s, thr_translate f t <> RPanic s.
Proof.
  intros A B f t Hf s. unfold thr_translate.
  destruct (collect_results f (t_inner t)) eqn:E; cbn [rbind]; try discriminate.
  exfalso. eapply collect_results_no_panic; [|exact E]. intros; apply Hf.
Qed.

Lemma nseq_length : forall len st, length (nseq st len) = len.
Proof. induction len; intros; cbn [nseq length]; auto. Qed.

Lemma thr_translate_by_index_wf : forall A B MAX (f : N -> routcome B) (t : thr A) t',
  thr_wf MAX t -> thr_translate_by_index f t = ROk t' -> thr_wf MAX t'.
Proof.
  intros A B MAX f t t' H. unfold thr_translate_by_index.
  destruct (collect_results f _) eqn:E; cbn [rbind]; try discriminate.
  intros H1; inversion H1; subst. apply collect_results_len in E. rewrite nseq_length in E.
  unfold thr_wf, nlen in *. cbn [t_k t_inner]. now rewrite E.
Qed.

Lemma thr_translate_by_index_no_panic : forall A B (f : N -> routcome B) (t : thr A),
  (forall x s, f x <> RPanic s) -> forall s, thr_translate_by_index f t <> RPanic s.
Proof.
  intros A B f t Hf s. unfold thr_translate_by_index.
  destruct (collect_results f _) eqn:E; cbn [rbind]; try discriminate.
  exfalso. eapply collect_results_no_panic; [|exact E]. intros; apply Hf.
Qed.

Lemma index_partial_ok : forall A (v : list A) i, i < nlen v -> exists x, index_partial v i = ROk x.
Proof.
  intros A v i H. unfold index_partial. destruct (nth_error v (N.to_nat i)) eqn:E; [eauto|].
  apply nth_error_None in E. unfold nlen in H. lia.
Qed.

Lemma index_partial_no_panic : forall A (v : list A) i s, i < nlen v -> index_partial v i <> RPanic s.
Proof. intros. destruct (index_partial_ok A v i H) as [x ->]. discriminate. Qed.

Lemma thr_map_post_order_total : forall A U MAX (t : thr A) (ci : list N) (processed : list U),
  thr_wf MAX t -> length ci = length (t_inner t) -> (forall n, In n ci -> n < nlen processed) ->
  exists t', thr_map_post_order t ci processed = ROk t' /\ thr_wf MAX t'.
Proof.
  intros A U MAX t ci processed Hwf Hlen Hin. unfold thr_map_post_order.
  assert (E : nlen (t_inner t) =? nlen ci = true). { apply N.eqb_eq. unfold nlen. now rewrite Hlen. }
  rewrite E. cbn [negb].
  destruct (collect_results (index_partial processed) ci) eqn:C; cbn [rbind].
  - eexists; split; [reflexivity|]. apply collect_results_len in C.
    unfold thr_wf, nlen in *. cbn [t_k t_inner]. rewrite C, Hlen. exact Hwf.
  - exfalso. clear - C Hin. revert e C. induction ci as [|x r IH]; intros e C; cbn [collect_results] in C; [discriminate|].
    destruct (index_partial_ok U processed x (Hin x (or_introl eq_refl))) as [y Hy]. rewrite Hy in C. cbn [rbind] in C.
    destruct (collect_results (index_partial processed) r) eqn:C2; cbn [rbind] in C; try discriminate.
    eapply IH; [|reflexivity]. intros; apply Hin; now right.
  - exfalso. eapply collect_results_no_panic; [|exact C]. intros x s0 Hx. apply index_partial_no_panic. now apply Hin.
Qed.

Lemma slice_from_ok : forall A (v : list A) n, n <= nlen v -> slice_from v n = ROk (skipn (N.to_nat n) v).
Proof. intros. unfold slice_from. destruct (nlen v <? n) eqn:E; [apply N.ltb_lt in E; lia|reflexivity]. Qed.

Lemma slice_to_ok : forall A (v : list A) n, n <= nlen v -> slice_to v n = ROk (firstn (N.to_nat n) v).
Proof. intros. unfold slice_to. destruct (nlen v <? n) eqn:E; [apply N.ltb_lt in E; lia|reflexivity]. Qed.

Lemma thr_display_total : forall A MAX show_k (t : thr A), thr_wf MAX t ->
  exists items, thr_display_items show_k t = ROk items.
Proof.
  intros A MAX show_k t (H1 & H2 & _). unfold thr_display_items. destruct show_k.
  - rewrite slice_from_ok by lia. eauto.
  - destruct (index_partial_ok A (t_inner t) 0) as [x Hx]; [lia|]. rewrite Hx. cbn [rbind].
    rewrite slice_from_ok by lia. cbn [rbind]. eauto.
Qed.

(* the error value built by validate_k_n always displays *)
Lemma thr_err_display_total : forall MAX k n, validate_k_n MAX k n = false ->
  exists c, thr_err_display (thr_error_of MAX k n) = ROk c.
Proof.
  intros MAX k n H. unfold thr_err_display, thr_error_of. cbn [te_k te_n te_max].
  destruct (n =? 0) eqn:E1; [eauto|]. destruct (k =? 0) eqn:E2; [eauto|]. destruct (n <? k) eqn:E3; [eauto|].
  unfold validate_k_n in H. rewrite negb_false_iff, E2, E3 in H. cbn [orb] in H.
  apply andb_true_iff in H. destruct H as [Ha Hb]. rewrite Ha, Hb. eauto.
Qed.

(* ---- the bundle ---- *)
Theorem threshold_ctor_total_proof :
  (* 1. new / from_iter / set_maximum: never panic; Ok results satisfy the invariant and keep k and the items *)
  (forall A MAX k (l : list A), (forall s, thr_new MAX k l <> RPanic s) /\
       (forall t, thr_new MAX k l = ROk t -> thr_wf MAX t /\ t = mkThr k l)) /\
  (forall A MAX k hint (l : list A), (forall s, thr_from_iter MAX k hint l <> RPanic s) /\
       (forall t, thr_from_iter MAX k hint l = ROk t -> thr_wf MAX t /\ t = mkThr k l)) /\
  (forall A NEWMAX (t : thr A), (forall s, thr_set_maximum NEWMAX t <> RPanic s) /\
       (forall t', thr_set_maximum NEWMAX t = ROk t' -> thr_wf NEWMAX t')) /\
  (* 2. or / and (MAX <> 1), or_n / and_n (non-empty: the documented precondition) *)
  (forall A MAX (l r : A), MAX <> 1 ->
       (exists t, thr_or MAX l r = ROk t /\ thr_wf MAX t) /\ (exists t, thr_and MAX l r = ROk t /\ thr_wf MAX t)) /\
  (forall A (l : list A), l <> [] ->
       (exists t, thr_or_n l = ROk t /\ thr_wf 0 t) /\ (exists t, thr_and_n l = ROk t /\ thr_wf 0 t)) /\
  (* 3. transformers preserve the invariant and add no panic of their own *)
  (forall A MAX (t : thr A), thr_wf MAX t -> thr_wf 0 (thr_forget_maximum t)) /\
  (forall A B MAX (f : A -> B) (t : thr A), thr_wf MAX t -> thr_wf MAX (thr_map f t)) /\
  (forall A B MAX (f : A -> routcome B) (t : thr A), thr_wf MAX t ->
       (forall t', thr_translate f t = ROk t' -> thr_wf MAX t') /\
       ((forall x s, f x <> RPanic s) -> forall s, thr_translate f t <> RPanic s)) /\
  (forall A B MAX (f : N -> routcome B) (t : thr A), thr_wf MAX t ->
       (forall t', thr_translate_by_index f t = ROk t' -> thr_wf MAX t') /\
       ((forall x s, f x <> RPanic s) -> forall s, thr_translate_by_index f t <> RPanic s)) /\
  (forall A U MAX (t : thr A) (ci : list N) (processed : list U),
       thr_wf MAX t -> length ci = length (t_inner t) -> (forall n, In n ci -> n < nlen processed) ->
       exists t', thr_map_post_order t ci processed = ROk t' /\ thr_wf MAX t') /\
  (* 4. Display of a well-formed threshold and of every error value never panics *)
  (forall A MAX show_k (t : thr A), thr_wf MAX t -> exists items, thr_display_items show_k t = ROk items) /\
  (forall MAX k n, validate_k_n MAX k n = false -> exists c, thr_err_display (thr_error_of MAX k n) = ROk c).
Proof.
  split. { intros. split; [apply thr_new_no_panic|apply thr_new_wf]. }
  split. { intros. split; [apply thr_from_iter_no_panic|apply thr_from_iter_wf]. }
  split. { intros. split; [apply thr_new_no_panic|]. intros t' H. apply thr_new_wf in H. tauto. }
  split. { apply thr_or_and_total. }
  split. { apply thr_or_n_and_n_total. }
  split. { apply thr_forget_wf. }
  split. { apply thr_map_wf. }
  split. { intros A B MAX f t H. split; [intros t' H0; eapply thr_translate_wf; eauto|intros Hf s; now apply thr_translate_no_panic]. }
  split. { intros A B MAX f t H. split; [intros t' H0; eapply thr_translate_by_index_wf; eauto|intros Hf s; now apply thr_translate_by_index_no_panic]. }
  split. { apply thr_map_post_order_total. }
  split. { apply thr_display_total. }
  apply thr_err_display_total.
Qed.

(* ================================================================== planner *)
Lemma dpath_eqb_eq : forall a b, dpath_eqb a b = true <-> a = b.
Proof.
  induction a as [|x r IH]; destruct b as [|y s]; cbn [dpath_eqb]; split; try discriminate; try reflexivity.
  - intros H. apply andb_true_iff in H. destruct H as [H1 H2]. apply N.eqb_eq in H1. apply IH in H2. congruence.
  - intros H. inversion H; subst. apply andb_true_iff. split; [apply N.eqb_refl|now apply IH].
Qed.

(* is_key_direct_child_of as written: total, and exactly the relation of its doc comment *)
Theorem planner_total_proof : forall pk_paths dp,
  exists b, child_of pk_paths dp = ROk b /\ (b = true <-> child_of_spec pk_paths dp).
Proof.
  induction pk_paths as [|p rest IH]; intros dp.
  - exists false. split; [reflexivity|]. split; [discriminate|]. intros (p & [] & _).
  - cbn [child_of]. destruct (dpath_eqb p dp) eqn:E.
    + exists true. split; [reflexivity|]. split; [|reflexivity]. intros _. apply dpath_eqb_eq in E. exists p. split; [now left|now left].
    + assert (Hne : p <> dp). { intros ->. rewrite (proj2 (dpath_eqb_eq dp dp) eq_refl) in E. discriminate. }
      destruct p as [|x r]; cbn [split_last_parent].
      * destruct (IH dp) as (b & Hb & Hs). exists b. split; [exact Hb|]. rewrite Hs. unfold child_of_spec. split.
        -- intros (q & Hq & Hc). exists q. split; [now right|exact Hc].
        -- intros (q & [Hq|Hq] & Hc); [subst q|exists q; tauto].
           destruct Hc as [Hc|[Hc _]]; congruence.
      * destruct (dpath_eqb dp (removelast (x :: r))) eqn:E2.
        -- exists true. split; [reflexivity|]. split; [|reflexivity]. intros _. apply dpath_eqb_eq in E2.
           exists (x :: r). split; [now left|]. right. split; [discriminate|congruence].
        -- destruct (IH dp) as (b & Hb & Hs). exists b. split; [exact Hb|]. rewrite Hs. unfold child_of_spec. split.
           ++ intros (q & Hq & Hc). exists q. split; [now right|exact Hc].
           ++ intros (q & [Hq|Hq] & Hc); [subst q|exists q; tauto].
              destruct Hc as [Hc|[_ Hc]]; [congruence|].
              rewrite <- Hc in E2. rewrite (proj2 (dpath_eqb_eq _ _) eq_refl) in E2. discriminate.
Qed.

(* Assets::has_ecdsa_key (the `any` over the asset keys) never panics either, and is true
   exactly when some ECDSA-capable asset key with the key's fingerprint is a direct parent *)
Theorem planner_has_key_total_proof : forall keys pk_fp pk_paths,
  exists b, has_ecdsa_key keys pk_fp pk_paths = ROk b /\
    (b = true <-> exists a, In a keys /\ ak_ecdsa a = true /\ pk_fp = ak_fp a /\ child_of_spec pk_paths (ak_path a)).
Proof.
  induction keys as [|a rest IH]; intros pk_fp pk_paths.
  - exists false. split; [reflexivity|]. split; [discriminate|]. intros (a & [] & _).
  - cbn [has_ecdsa_key]. destruct (IH pk_fp pk_paths) as (b & Hb & Hs).
    destruct (ak_ecdsa a && (pk_fp =? ak_fp a)) eqn:E.
    + apply andb_true_iff in E. destruct E as [E1 E2]. apply N.eqb_eq in E2.
      destruct (planner_total_proof pk_paths (ak_path a)) as (c & Hc & Hcs). rewrite Hc. cbn [rbind].
      destruct c.
      * exists true. split; [reflexivity|]. split; [|reflexivity]. intros _. exists a. split; [now left|]. repeat split; auto. now apply Hcs.
      * exists b. split; [exact Hb|]. rewrite Hs. split.
        -- intros (a' & Ha & H'). exists a'. split; [now right|exact H'].
        -- intros (a' & [Ha|Ha] & H1 & H2 & H3); [subst a'|exists a'; tauto].
           apply Hcs in H3. discriminate.
    + exists b. split; [exact Hb|]. rewrite Hs. split.
      * intros (a' & Ha & H'). exists a'. split; [now right|exact H'].
      * intros (a' & [Ha|Ha] & H1 & H2 & H3); [subst a'|exists a'; tauto].
        rewrite H1 in E. cbn [andb] in E. apply N.eqb_neq in E. congruence.
Qed.

Lemma firstn_pred_removelast : forall (p : dpath), p <> [] -> firstn (N.to_nat (nlen p - 1)) p = removelast p.
Proof.
  intros p Hp. unfold nlen.
  replace (N.to_nat (N.of_nat (length p) - 1)) with (pred (length p)) by lia.
  induction p as [|x r IH]; [congruence|]. destruct r as [|y r'].
  - reflexivity.
  - cbn [length pred]. cbn [firstn]. change (removelast (x :: y :: r')) with (x :: removelast (y :: r')).
    f_equal. apply IH. discriminate.
Qed.

(* the repair 540253fb changed nothing where the earlier code returned *)
Theorem planner_repair_conservative_proof : forall pk_paths dp b,
  child_of_before_540253fb pk_paths dp = ROk b -> child_of pk_paths dp = ROk b.
Proof.
  induction pk_paths as [|p rest IH]; intros dp b H; cbn [child_of child_of_before_540253fb] in *; [exact H|].
  destruct (dpath_eqb p dp); [exact H|].
  destruct p as [|x r].
  - unfold sub_partial in H. cbn in H. discriminate.
  - cbn [split_last_parent]. unfold sub_partial in H.
    assert (L : nlen (x :: r) <? 1 = false). { apply N.ltb_ge. rewrite nlen_cons. lia. }
    rewrite L in H. cbn [rbind] in H. rewrite slice_to_ok in H by lia. cbn [rbind] in H.
    rewrite firstn_pred_removelast in H by discriminate.
    destruct (dpath_eqb dp (removelast (x :: r))); [exact H|]. now apply IH.
Qed.

(* ... and what it repaired: the earlier code panicked exactly on an empty key path met by a
   different, non-empty asset path (regression witness used by the tie's diagnosis) *)
Lemma planner_before_repair_panicked : child_of_before_540253fb [[]] [1; 2] = RPanic P_SUB_UNDERFLOW.
Proof. vm_compute. reflexivity. Qed.
