(* Totality of the concrete policy parser: `<policy::Concrete as FromTree>::from_tree` never reaches one of its
   Panic sites (`stack.pop().unwrap()` = 40, `assert_eq!(stack.len(), 1)` = 41) on ANY expression tree.
   Same invariant as Proofs/PolTextTotal.v; the skip decision of a child depends on the parent's name after
   `name_separated('@')`, which is the name the parent's own fragment is looked up under whenever that lookup
   succeeds (a name of the table contains no `@`). *)
From Coq Require Import List Bool NArith Lia Arith.
From Verif Require Import ExprTreePass2 PolTextModel MsTextProofs PolTextProofs PolTextTotal.
Import ListNotations.
Local Open Scope N_scope.

Lemma pkind_noat : forall name f, pkind_of_name name = Some f -> noat name = true.
Proof.
  intros name f H. unfold pkind_of_name, pol_names in H. cbn [plookup] in H.
  repeat (match type of H with context [tb_eqb name ?x] => destruct (tb_eqb name x) eqn:E end;
          [apply tb_eqb_eq in E; subst; reflexivity|]; clear E).
  discriminate.
Qed.

Lemma sep_at_nopanic : forall s q, sep_at s <> Panic q.
Proof.
  intros s q. unfold sep_at. destruct (split_at s) as [a [r|]]; [|discriminate].
  destruct (split_at r) as [a' [r'|]]; discriminate.
Qed.

Lemma pnn_nopanic : forall s q, parse_num_nonzero s <> Panic q.
Proof.
  intros s q. unfold parse_num_nonzero, u32_from_str. cbv zeta. destruct (tb_eqb s n_0); [discriminate|].
  destruct s as [|c r]; [discriminate|].
  destruct ((49 <=? c) && (c <=? 57)); [|discriminate].
  destruct (dval (c :: r) 0); [|discriminate]. destruct (n <=? U32_MAX); discriminate.
Qed.

Lemma cskip_nopanic : forall parent q, cskip parent <> Panic q.
Proof.
  intros [[[pn n] first]|] q; cbn [cskip]; [|discriminate].
  destruct (Nat.eqb n 1); [discriminate|].
  pose proof (sep_at_nopanic pn) as Hn. destruct (sep_at pn) as [[a b]| |s]; cbn [obind]; [|discriminate|exact (fun _ => Hn s eq_refl)].
  destruct (first && tb_eqb b n_thresh); discriminate.
Qed.

Section TotalConc.
Variable parse_key : tbytes -> option N.
Variable parse_hash : phk -> tbytes -> option N.
Notation leaf_frag := (leaf_frag parse_key parse_hash).
Notation cfrag := (cfrag parse_key parse_hash).
Notation cstep := (cstep parse_key parse_hash).
Notation crun := (crun parse_key parse_hash).
Notation conc_from_tree := (conc_from_tree parse_key parse_hash).

Definition Cres (sk : outcome pol_err (option bool)) (leafy : bool) (st : cstack) (o : outcome pol_err cstack) : Prop :=
  match o with
  | Panic _ => False
  | Err _ => True
  | Ok st' =>
    match sk with
    | Ok None => exists ys, st' = ys ++ st /\ (leafy = true -> ys = [])
    | Ok (Some _) => exists x, st' = x :: st
    | _ => False
    end
  end.
Definition CTot (t : etree) : Prop :=
  forall parent st, Cres (cskip parent) (Nat.eqb (n_kids t) 0) st (crun st (rpo parent t)).

Fixpoint ccnt (name : tbytes) (n : nat) (kids : list etree) (first : bool) : nat :=
  match kids with
  | [] => 0
  | _ :: r => (match cskip (Some (name, n, first)) with Ok (Some _) => 1 | _ => 0 end) + ccnt name n r false
  end.
Fixpoint csal (name : tbytes) (n : nat) (kids : list etree) (first : bool) : bool :=
  match kids with
  | [] => true
  | k :: r => (match cskip (Some (name, n, first)) with Ok None => Nat.eqb (n_kids k) 0 | _ => true end)
              && csal name n r false
  end.

Lemma cskip_child_sep : forall name n first fp nm, n <> 1%nat -> sep_at name = Ok (fp, nm) ->
  cskip (Some (name, n, first)) = if first && tb_eqb nm n_thresh then Ok None else Ok (Some (tb_eqb nm n_or)).
Proof.
  intros name n first fp nm Hn Hs. cbn [cskip]. apply Nat.eqb_neq in Hn. rewrite Hn, Hs. cbn [obind].
  destruct (first && tb_eqb nm n_thresh); reflexivity.
Qed.

Lemma ccnt_all : forall name n kids first fp nm, n <> 1%nat -> sep_at name = Ok (fp, nm) ->
  first && tb_eqb nm n_thresh = false ->
  ccnt name n kids first = length kids /\ csal name n kids first = true.
Proof.
  intros name n kids. induction kids as [|k r IH]; intros first fp nm Hn Hs Hf; [split; reflexivity|].
  cbn [ccnt csal]. rewrite (cskip_child_sep name n first fp nm Hn Hs), Hf.
  destruct (IH false fp nm Hn Hs eq_refl) as [A B]. rewrite A, B. split; reflexivity.
Qed.

Lemma c_kids_total : forall name n kids first st, Forall CTot kids ->
  match crun st (rpo_list name n kids first) with
  | Panic _ => False
  | Err _ => True
  | Ok st' => exists ys, st' = ys ++ st /\ (csal name n kids first = true -> length ys = ccnt name n kids first)
  end.
Proof.
  intros name n kids. induction kids as [|k r IH]; intros first st HF.
  - cbn. exists []. split; reflexivity.
  - inversion HF as [|? ? Hk Hr]; subst. cbn [rpo_list]. rewrite (crun_app parse_key parse_hash).
    specialize (IH false st Hr).
    destruct (crun st (rpo_list name n r false)) as [st1| |]; cbn [obind]; [|exact I|contradiction].
    destruct IH as [ys1 [E1 L1]]. subst st1.
    pose proof (Hk (Some (name, n, first)) (ys1 ++ st)) as Hres. unfold Cres in Hres.
    destruct (crun (ys1 ++ st) (rpo (Some (name, n, first)) k)) as [st2| |]; [|exact I|contradiction].
    cbn [csal ccnt]. revert Hres. destruct (cskip (Some (name, n, first))) as [[b|]| |]; intros Hres; try contradiction.
    + destruct Hres as [x E2]. exists (x :: ys1). split; [rewrite E2; reflexivity|].
      intros Hs. cbn [andb] in Hs. cbn [length plus]. f_equal. apply L1. exact Hs.
    + destruct Hres as [ys2 [E2 L2]]. exists (ys2 ++ ys1). split; [rewrite E2, app_assoc; reflexivity|].
      intros Hs. apply andb_prop in Hs. destruct Hs as [Ha Hb]. rewrite (L2 Ha). cbn [app plus]. apply L1. exact Hb.
Qed.

Theorem c_total : forall t, CTot t.
Proof.
  induction t as [name p cs IH] using etree_ind'. intros parent st.
  rewrite rpo_eq, (crun_app parse_key parse_hash).
  pose proof (c_kids_total name (length cs) cs true st IH) as HK.
  destruct (crun st (rpo_list name (length cs) cs true)) as [st1| |]; cbn [obind]; [|exact I|contradiction].
  destruct HK as [ys [E L]]. subst st1. cbn [PolTextModel.crun]. unfold PolTextModel.cstep.
  cbn [it_parent it_name it_kids n_kids].
  pose proof (cskip_nopanic parent) as Hnp.
  destruct (cskip parent) as [[b|]|e|q] eqn:Es; cbn [obind Cres]; [| |exact I|exact (Hnp q eq_refl)].
  2:{ (* skipped *)
      exists ys. split; [reflexivity|]. intros Hl. apply Nat.eqb_eq in Hl. apply len0_nil in Hl. subst cs.
      apply len0_nil. apply L. reflexivity. }
  (* not skipped; the name the fragment is looked up under *)
  pose proof (sep_at_nopanic name) as Hsn.
  match goal with |- context [obind (if b then ?x else ?y) _] =>
    destruct (if b then x else y) as [[fp nm]|e|q] eqn:En end; cbn [obind Cres];
    [|exact I|destruct b; [exact (Hsn q En)|discriminate]].
  assert (Hsep : forall f, pkind_of_name nm = Some f -> exists fp', sep_at name = Ok (fp', nm)).
  { intros f Hf. destruct b; [eauto|]. inversion En; subst. exists None.
    apply sep_at_plain. eapply pkind_noat; exact Hf. }
  pose proof (pnn_nopanic) as Hpn.
  destruct (match fp with None => Ok 1 | Some s => parse_num_nonzero s end) as [prob|e|q] eqn:Ep; cbn [obind Cres];
    [|exact I|destruct fp; [exact (Hpn _ _ Ep)|discriminate]].
  destruct (pkind_of_name nm) as [f|] eqn:Ef; cbn [obind Cres]; [|exact I].
  destruct (Hsep f eq_refl) as [fp' Hs].
  unfold PolTextModel.cfrag. destruct (leaf_frag f cs) as [o|] eqn:El.
  - destruct o as [l|e|q]; cbn [omap obind Cres]; [|exact I|exact (leaf_frag_nopanic parse_key parse_hash _ _ _ El)].
    assert (Hy : ys = []).
    { apply len0_nil. destruct (leaf_frag_ok_kids parse_key parse_hash _ _ _ El) as [->|[c [-> Hc]]].
      - apply L. reflexivity.
      - rewrite L; [reflexivity|]. cbn [csal length cskip Nat.eqb]. rewrite Hc. reflexivity. }
    subst ys. eexists. reflexivity.
  - destruct (leaf_frag_composite parse_key parse_hash _ _ El) as [->|[->| ->]].
    + (* and *)
      destruct cs as [|c1 [|c2 [|c3 r]]]; cbn [obind Cres]; try exact I.
      destruct (ccnt_all name 2 [c1; c2] true fp' nm ltac:(discriminate) Hs) as [A B];
        [rewrite (pkind_not_thresh _ _ Ef); [reflexivity|discriminate]|].
      cbn [length] in L. rewrite A in L. specialize (L B).
      destruct ys as [|y1 [|y2 [|y3 yr]]]; try discriminate. cbn [app gpop obind Cres]. eexists. reflexivity.
    + (* or *)
      destruct cs as [|c1 [|c2 [|c3 r]]]; cbn [obind Cres]; try exact I.
      destruct (ccnt_all name 2 [c1; c2] true fp' nm ltac:(discriminate) Hs) as [A B];
        [rewrite (pkind_not_thresh _ _ Ef); [reflexivity|discriminate]|].
      cbn [length] in L. rewrite A in L. specialize (L B).
      destruct ys as [|y1 [|y2 [|y3 yr]]]; try discriminate. cbn [app gpop obind Cres]. eexists. reflexivity.
    + (* thresh *)
      apply pkind_thresh_name in Ef. subst nm.
      pose proof (vth_nopanic cs) as Hvn.
      destruct (verify_threshold 0 cs) as [[k rest]|e|q] eqn:Ev; cbn [lift_ms obind Cres]; [|exact I|exact (Hvn q eq_refl)].
      destruct (vth_shape _ _ _ Ev) as [kc [-> [Hc Hv]]].
      pose proof (validate_le _ _ _ Hv) as Hle. pose proof (validate_pos _ _ _ Hv) as Hp.
      assert (Hr : length rest <> 0%nat) by (intros Z; rewrite Z in Hle; cbn in Hle; lia).
      assert (Hn1 : length (kc :: rest) <> 1%nat) by (cbn [length]; lia).
      destruct (ccnt_all name (length (kc :: rest)) rest false fp' n_thresh Hn1 Hs eq_refl) as [A B].
      assert (Hlen : length ys = length rest).
      { rewrite L.
        - cbn [ccnt]. rewrite (cskip_child_sep name _ true fp' n_thresh Hn1 Hs). cbn. exact A.
        - cbn [csal]. rewrite (cskip_child_sep name _ true fp' n_thresh Hn1 Hs). cbn. rewrite Hc. cbn. exact B. }
      rewrite <- Hlen. rewrite gpop_n_app. cbn [obind Cres]. eexists. reflexivity.
Qed.

Theorem conc_from_tree_total : forall t q, conc_from_tree t <> Panic q.
Proof.
  intros t q. unfold PolTextModel.conc_from_tree. destruct (has_curly t); [discriminate|].
  pose proof (c_total t None []) as H. cbn [cskip] in H. unfold Cres in H.
  destruct (crun [] (rpo None t)) as [st'| |]; [|discriminate|contradiction].
  destruct H as [[w x] E]. subst st'. discriminate.
Qed.

End TotalConc.
