(* C04 [T2] decode_enc, second half: every well-typed miniscript has a DECODER NORMAL FORM
   with the same script and the same type, so that decode (encode m) returns it.
     nf m      hoists and_v out of c: / v: / n: / and_b / ... first operands, nests it to the
               left, writes pk_h as expr_raw_pkh and sortedmulti(_a) as multi(_a) of the sorted keys
     enc_nf    enc ke (nf m) = enc ke m                    (same script, hence same bytes)
     type_nf   type_of m = ROk t -> type_of (nf m) = ROk t (finite sweeps over the rule tables)
     dnf_nf    type_of m = ROk t, base B/V/K -> dnf KChain (nf m) = true *)
From Coq Require Import Lia.
From Verif Require Import DecodeModel CodecSpec EncProofs DecodeProofs DecodeEnc TypesSpec.
Local Open Scope N_scope.

(* ------------------------------------------------------------------ rule algebra (finite sweeps) *)
Lemma corr_eqb_eq a b : corr_eqb a b = true -> a = b.
Proof. destruct a as [[] [] [] []], b as [[] [] [] []]; cbn; intros H; try discriminate; reflexivity. Qed.
Lemma mall_eqb_eq a b : mall_eqb a b = true -> a = b.
Proof. destruct a as [[] [] []], b as [[] [] []]; cbn; intros H; try discriminate; reflexivity. Qed.

Definition rc_imp (l r : res corr) : bool :=
  match l with ROk x => match r with ROk y => corr_eqb x y | RErr _ => false end | RErr _ => true end.
Lemma rc_imp_ok l r x : rc_imp l r = true -> l = ROk x -> r = ROk x.
Proof. intros H ->. cbn in H. destruct r; [apply corr_eqb_eq in H; subst; reflexivity|discriminate]. Qed.

Definition cbind (r : res corr) (f : corr -> res corr) : res corr := match r with ROk a => f a | RErr e => RErr e end.

(* and_v is associative (left nesting is as good as right nesting) *)
Lemma c_andv_assoc_l : forall a b c, rc_imp (cbind (c_and_v b c) (c_and_v a)) (cbind (c_and_v a b) (fun x => c_and_v x c)) = true.
Proof.
  assert (H : forallb (fun a => forallb (fun b => forallb (fun c =>
            rc_imp (cbind (c_and_v b c) (c_and_v a)) (cbind (c_and_v a b) (fun x => c_and_v x c))) all_corr) all_corr) all_corr = true)
    by (vm_compute; reflexivity).
  intros a b c. pose proof (forall_corr _ H a) as H1. cbv beta in H1.
  pose proof (forall_corr _ H1 b) as H2. cbv beta in H2. apply (forall_corr _ H2).
Qed.
Lemma m_andv_assoc : forall a b c, m_and_v a (m_and_v b c) = m_and_v (m_and_v a b) c.
Proof.
  assert (H : forallb (fun a => forallb (fun b => forallb (fun c =>
            mall_eqb (m_and_v a (m_and_v b c)) (m_and_v (m_and_v a b) c)) all_mall) all_mall) all_mall = true)
    by (vm_compute; reflexivity).
  intros a b c. apply mall_eqb_eq. pose proof (forall_mall _ H a) as H1. cbv beta in H1.
  pose proof (forall_mall _ H1 b) as H2. cbv beta in H2. apply (forall_mall _ H2).
Qed.

(* a unary wrapper applied outside an and_v is the same as applied to its right operand *)
Definition c_comm1 (f : corr -> res corr) : Prop :=
  forall a b, rc_imp (cbind (c_and_v a b) f) (cbind (f b) (c_and_v a)) = true.
Definition m_comm1 (f : mall -> mall) : Prop := forall a b, f (m_and_v a b) = m_and_v a (f b).

Lemma c_comm1_of f :
  forallb (fun a => forallb (fun b => rc_imp (cbind (c_and_v a b) f) (cbind (f b) (c_and_v a))) all_corr) all_corr = true ->
  c_comm1 f.
Proof. intros H a b. pose proof (forall_corr _ H a) as H1. cbv beta in H1. apply (forall_corr _ H1). Qed.

Lemma c_check_comm : c_comm1 c_cast_check.
Proof. apply c_comm1_of. vm_compute. reflexivity. Qed.
Lemma c_verify_comm : c_comm1 c_cast_verify.
Proof. apply c_comm1_of. vm_compute. reflexivity. Qed.
Lemma c_zne_comm : c_comm1 c_cast_zeronotequal.
Proof. apply c_comm1_of. vm_compute. reflexivity. Qed.

Lemma m_check_comm : m_comm1 m_cast_check.
Proof. intros a b. reflexivity. Qed.
Lemma m_zne_comm : m_comm1 m_cast_zeronotequal.
Proof. intros a b. reflexivity. Qed.
Lemma m_verify_comm : m_comm1 m_cast_verify.
Proof.
  assert (H : forallb (fun a => forallb (fun b => mall_eqb (m_cast_verify (m_and_v a b)) (m_and_v a (m_cast_verify b))) all_mall) all_mall = true)
    by (vm_compute; reflexivity).
  intros a b. apply mall_eqb_eq. pose proof (forall_mall _ H a) as H1. cbv beta in H1. apply (forall_mall _ H1).
Qed.

(* and_b with an and_v as its left operand *)
Lemma c_andb_comm : forall a b w, rc_imp (cbind (c_and_v a b) (fun x => c_and_b x w)) (cbind (c_and_b b w) (c_and_v a)) = true.
Proof.
  assert (H : forallb (fun a => forallb (fun b => forallb (fun w =>
            rc_imp (cbind (c_and_v a b) (fun x => c_and_b x w)) (cbind (c_and_b b w) (c_and_v a))) all_corr) all_corr) all_corr = true)
    by (vm_compute; reflexivity).
  intros a b w. pose proof (forall_corr _ H a) as H1. cbv beta in H1.
  pose proof (forall_corr _ H1 b) as H2. cbv beta in H2. apply (forall_corr _ H2).
Qed.
Lemma m_andb_comm : forall a b w, m_and_b (m_and_v a b) w = m_and_v a (m_and_b b w).
Proof.
  assert (H : forallb (fun a => forallb (fun b => forallb (fun w =>
            mall_eqb (m_and_b (m_and_v a b) w) (m_and_v a (m_and_b b w))) all_mall) all_mall) all_mall = true)
    by (vm_compute; reflexivity).
  intros a b w. apply mall_eqb_eq. pose proof (forall_mall _ H a) as H1. cbv beta in H1.
  pose proof (forall_mall _ H1 b) as H2. cbv beta in H2. apply (forall_mall _ H2).
Qed.

(* an and_v is never dissatisfiable: or_b / or_d / or_c / andor / thresh reject it as first operand *)
Lemma c_andv_not_dissat a b x : c_and_v a b = ROk x -> c_dissat x = false.
Proof. unfold c_and_v. destruct (c_base a), (c_base b); intros H; try discriminate; injection H as <-; reflexivity. Qed.

(* ------------------------------------------------------------------ the normal form *)
Fixpoint andv_from (acc : ms) (l : list ms) : ms :=
  match l with [] => acc | x :: r => andv_from (MAndV acc x) r end.
Definition chain_of (l : list ms) : ms := match l with [] => MFalse | x :: r => andv_from x r end.

Fixpoint map_last (f : ms -> ms) (l : list ms) : list ms :=
  match l with
  | [] => []
  | x :: r => match r with [] => [f x] | _ :: _ => x :: map_last f r end
  end.

Section Nf.
  Variable ke : keyenv.

  (* the atoms of m, left to right; wrappers that the decoder applies to the last expression only
     go to the last atom *)
  Fixpoint spine (m : ms) : list ms :=
    match m with
    | MAndV x y => spine x ++ spine y
    | MCheck x => map_last MCheck (spine x)
    | MVerify x => map_last MVerify (spine x)
    | MZeroNotEqual x => map_last MZeroNotEqual (spine x)
    | MAndB x y => map_last (fun a => MAndB a (chain_of (spine y))) (spine x)
    | MOrB x y => map_last (fun a => MOrB a (chain_of (spine y))) (spine x)
    | MOrD x y => map_last (fun a => MOrD a (chain_of (spine y))) (spine x)
    | MOrC x y => map_last (fun a => MOrC a (chain_of (spine y))) (spine x)
    | MAndOr x y z => map_last (fun a => MAndOr a (chain_of (spine y)) (chain_of (spine z))) (spine x)
    | MThresh k xs =>
      match xs with
      | [] => [m]
      | x0 :: ws =>
        map_last (fun a => MThresh k (a :: (fix go (l : list ms) : list ms :=
                                              match l with [] => [] | w :: r => chain_of (spine w) :: go r end) ws))
                 (spine x0)
      end
    | MAlt x => [MAlt (chain_of (spine x))]
    | MSwap x => [MSwap (chain_of (spine x))]
    | MDupIf x => [MDupIf (chain_of (spine x))]
    | MNonZero x => [MNonZero (chain_of (spine x))]
    | MOrI x y => [MOrI (chain_of (spine x)) (chain_of (spine y))]
    | MPkH k => [MRawPkH (kh ke k)]
    | MSortedMulti k ks => [MMulti k (ksort ke ks)]
    | MSortedMultiA k ks => [MMultiA k (ksort ke ks)]
    | _ => [m]
    end.
  Definition nf (m : ms) : ms := chain_of (spine m).
  Fixpoint nf_list (l : list ms) : list ms := match l with [] => [] | w :: r => nf w :: nf_list r end.

  (* ---- list facts ---- *)
  Lemma map_last_snoc f l x : map_last f (l ++ [x]) = l ++ [f x].
  Proof.
    induction l as [|a l IH]; [reflexivity|]. cbn [app map_last]. rewrite IH.
    destruct (l ++ [x]) eqn:E; [destruct l; discriminate|]. destruct l; reflexivity.
  Qed.
  Lemma list_snoc {A} (l : list A) : l <> [] -> exists i x, l = i ++ [x].
  Proof. intros H. destruct (exists_last H) as [i [x ->]]. eauto. Qed.
  Lemma map_last_ne f l : l <> [] -> map_last f l <> [].
  Proof. intros H. destruct (list_snoc l H) as [i [x ->]]. rewrite map_last_snoc. destruct i; discriminate. Qed.

  Lemma andv_from_snoc acc l x : andv_from acc (l ++ [x]) = MAndV (andv_from acc l) x.
  Proof. revert acc. induction l as [|a l IH]; intros acc; [reflexivity|]. cbn [app andv_from]. apply IH. Qed.
  Lemma chain_of_snoc l x : l <> [] -> chain_of (l ++ [x]) = MAndV (chain_of l) x.
  Proof. destruct l as [|a l]; [contradiction|]. intros _. cbn [app chain_of]. apply andv_from_snoc. Qed.

  Lemma spine_ne : forall m, spine m <> [].
  Proof.
    induction m using ms_ind2; cbn [spine]; try discriminate; try (apply map_last_ne; assumption).
    - intros E. apply app_eq_nil in E. destruct E as [E _]. contradiction.
    - destruct xs as [|x0 ws]; [discriminate|]. inversion H; subst. apply map_last_ne. assumption.
  Qed.

  (* ---- a generic "sum over the atoms" argument: T is enc or mtoks ---- *)
  Section Sum.
    Variable X : Type.
    Variable T : ms -> list X.
    Hypothesis Tandv : forall a b, T (MAndV a b) = T a ++ T b.
    Definition sumT (l : list ms) : list X := flat_map T l.
    Lemma sumT_app a b : sumT (a ++ b) = sumT a ++ sumT b.
    Proof. unfold sumT. apply flat_map_app. Qed.
    Lemma T_andv_from acc l : T (andv_from acc l) = T acc ++ sumT l.
    Proof.
      revert acc. induction l as [|x l IH]; intros acc; cbn [andv_from sumT flat_map]; [rewrite app_nil_r; reflexivity|].
      rewrite IH, Tandv, <- app_assoc. reflexivity.
    Qed.
    Lemma T_chain_of l : l <> [] -> T (chain_of l) = sumT l.
    Proof. destruct l as [|x l]; [contradiction|]. intros _. cbn [chain_of]. rewrite T_andv_from. reflexivity. Qed.
    (* a wrapper that appends a suffix to the tokens of its argument *)
    Lemma sumT_map_last f suffix l : l <> [] -> (forall a, T (f a) = T a ++ suffix) ->
      sumT (map_last f l) = sumT l ++ suffix.
    Proof.
      intros Hl Hf. destruct (list_snoc l Hl) as [i [x ->]]. rewrite map_last_snoc, !sumT_app.
      unfold sumT at 2 4. cbn [flat_map]. rewrite !app_nil_r, Hf, app_assoc. reflexivity.
    Qed.
  End Sum.

  Hypothesis Hsort : ksort_ok ke.

  Lemma ksort_len ks : length (ksort ke ks) = length ks.
  Proof. apply Permutation_length, Hsort. Qed.

  (* ---- same tokens ---- *)
  Notation sumK := (sumT token (mtoks ke)).
  Lemma mtoks_andv a b : mtoks ke (MAndV a b) = mtoks ke a ++ mtoks ke b.
  Proof. reflexivity. Qed.

  Fixpoint toks_tail (l : list ms) : list token :=
    match l with [] => [] | x :: r => mtoks ke x ++ [TkAdd] ++ toks_tail r end.

  Lemma spine_toks : forall m, sumK (spine m) = mtoks ke m.
  Proof.
    assert (Hch : forall m, sumK (spine m) = mtoks ke m -> mtoks ke (chain_of (spine m)) = mtoks ke m).
    { intros m H. rewrite (T_chain_of _ _ mtoks_andv) by apply spine_ne. exact H. }
    induction m using ms_ind2; cbn [spine];
      try (unfold sumT; cbn [flat_map]; rewrite app_nil_r; reflexivity).
    - (* alt *) unfold sumT. cbn [flat_map mtoks]. rewrite app_nil_r, (Hch _ IHm). reflexivity.
    - (* swap *) unfold sumT. cbn [flat_map mtoks]. rewrite app_nil_r, (Hch _ IHm). reflexivity.
    - (* check *) rewrite (sumT_map_last _ _ MCheck [TkCheckSig]); [rewrite IHm; reflexivity|apply spine_ne|reflexivity].
    - (* dupif *) unfold sumT. cbn [flat_map mtoks]. rewrite app_nil_r, (Hch _ IHm). reflexivity.
    - (* verify *) rewrite (sumT_map_last _ _ MVerify [TkVerify]); [rewrite IHm; reflexivity|apply spine_ne|reflexivity].
    - (* nonzero *) unfold sumT. cbn [flat_map mtoks]. rewrite app_nil_r, (Hch _ IHm). reflexivity.
    - (* zne *) rewrite (sumT_map_last _ _ MZeroNotEqual [TkZeroNotEqual]); [rewrite IHm; reflexivity|apply spine_ne|reflexivity].
    - (* and_v *) rewrite sumT_app, IHm1, IHm2. reflexivity.
    - (* and_b *)
      rewrite (sumT_map_last _ _ _ (mtoks ke (chain_of (spine m2)) ++ [TkBoolAnd])); [|apply spine_ne|reflexivity].
      rewrite IHm1, (Hch _ IHm2). reflexivity.
    - (* andor *)
      rewrite (sumT_map_last _ _ _ ([TkNotIf] ++ mtoks ke (chain_of (spine m3)) ++ [TkElse] ++ mtoks ke (chain_of (spine m2)) ++ [TkEndIf]));
        [|apply spine_ne|reflexivity].
      rewrite IHm1, (Hch _ IHm2), (Hch _ IHm3). reflexivity.
    - (* or_b *)
      rewrite (sumT_map_last _ _ _ (mtoks ke (chain_of (spine m2)) ++ [TkBoolOr])); [|apply spine_ne|reflexivity].
      rewrite IHm1, (Hch _ IHm2). reflexivity.
    - (* or_d *)
      rewrite (sumT_map_last _ _ _ ([TkIfDup; TkNotIf] ++ mtoks ke (chain_of (spine m2)) ++ [TkEndIf])); [|apply spine_ne|reflexivity].
      rewrite IHm1, (Hch _ IHm2). reflexivity.
    - (* or_c *)
      rewrite (sumT_map_last _ _ _ ([TkNotIf] ++ mtoks ke (chain_of (spine m2)) ++ [TkEndIf])); [|apply spine_ne|reflexivity].
      rewrite IHm1, (Hch _ IHm2). reflexivity.
    - (* or_i *) unfold sumT. cbn [flat_map mtoks]. rewrite app_nil_r, (Hch _ IHm1), (Hch _ IHm2). reflexivity.
    - (* thresh *) destruct xs as [|x0 ws]; [unfold sumT; cbn [flat_map]; rewrite app_nil_r; reflexivity|].
      inversion H as [|? ? Hx0 Hws]; subst.
      set (ws' := (fix go (l : list ms) : list ms := match l with [] => [] | w :: r => chain_of (spine w) :: go r end) ws).
      assert (Etail : toks_tail ws' = toks_tail ws).
      { subst ws'. clear - Hws Hch. induction Hws as [|w r Hw _ IH]; [reflexivity|].
        cbn [toks_tail]. rewrite IH, (Hch _ Hw). reflexivity. }
      rewrite (sumT_map_last _ _ _ (toks_tail ws' ++ [TkNum k; TkEqual])); [|apply spine_ne|].
      + rewrite Hx0, Etail. cbn [mtoks]. rewrite <- app_assoc. reflexivity.
      + intros a. cbn [mtoks]. rewrite <- app_assoc. reflexivity.
    - (* sortedmulti *) unfold sumT. cbn [flat_map mtoks]. rewrite app_nil_r. unfold nlen. rewrite ksort_len. reflexivity.
  Qed.

  Theorem nf_toks m : mtoks ke (nf m) = mtoks ke m.
  Proof. unfold nf. rewrite (T_chain_of _ _ mtoks_andv) by apply spine_ne. apply spine_toks. Qed.

  (* ---- same script ---- *)
  Notation sumE := (sumT instr (enc ke)).
  Lemma enc_andv a b : enc ke (MAndV a b) = enc ke a ++ enc ke b.
  Proof. reflexivity. Qed.

  Lemma push_verify_app s1 s2 : s2 <> [] -> push_verify (s1 ++ s2) = s1 ++ push_verify s2.
  Proof.
    intros H2. induction s1 as [|a s1 IH]; [reflexivity|].
    cbn [app]. destruct (s1 ++ s2) as [|b r] eqn:E.
    - destruct s1; [contradiction|discriminate].
    - rewrite push_verify_cons, IH. reflexivity.
  Qed.

  Lemma sumE_ne l : l <> [] -> sumE l <> [].
  Proof.
    destruct l as [|x l]; [contradiction|]. intros _ E. unfold sumT in E. cbn [flat_map] in E.
    apply app_eq_nil in E. destruct E as [E _]. exact (enc_nonempty ke x E).
  Qed.

  Lemma sumE_verify l : l <> [] -> sumE (map_last MVerify l) = push_verify (sumE l).
  Proof.
    intros Hl. destruct (list_snoc l Hl) as [i [x ->]]. rewrite map_last_snoc, !sumT_app.
    unfold sumT at 2 4. cbn [flat_map enc]. rewrite !app_nil_r.
    rewrite push_verify_app by apply enc_nonempty. reflexivity.
  Qed.

  Lemma spine_enc : forall m, sumE (spine m) = enc ke m.
  Proof.
    assert (Hch : forall m, sumE (spine m) = enc ke m -> enc ke (chain_of (spine m)) = enc ke m).
    { intros m H. rewrite (T_chain_of _ _ enc_andv) by apply spine_ne. exact H. }
    induction m using ms_ind2; cbn [spine];
      try (unfold sumT; cbn [flat_map]; rewrite app_nil_r; reflexivity).
    - (* alt *) unfold sumT. cbn [flat_map enc]. rewrite app_nil_r, (Hch _ IHm). reflexivity.
    - (* swap *) unfold sumT. cbn [flat_map enc]. rewrite app_nil_r, (Hch _ IHm). reflexivity.
    - (* check *) rewrite (sumT_map_last _ _ MCheck [IOp OP_CHECKSIG]); [rewrite IHm; reflexivity|apply spine_ne|reflexivity].
    - (* dupif *) unfold sumT. cbn [flat_map enc]. rewrite app_nil_r, (Hch _ IHm). reflexivity.
    - (* verify *) rewrite sumE_verify by apply spine_ne. rewrite IHm. reflexivity.
    - (* nonzero *) unfold sumT. cbn [flat_map enc]. rewrite app_nil_r, (Hch _ IHm). reflexivity.
    - (* zne *) rewrite (sumT_map_last _ _ MZeroNotEqual [IOp OP_0NOTEQUAL]); [rewrite IHm; reflexivity|apply spine_ne|reflexivity].
    - (* and_v *) rewrite sumT_app, IHm1, IHm2. reflexivity.
    - (* and_b *)
      rewrite (sumT_map_last _ _ _ (enc ke (chain_of (spine m2)) ++ [IOp OP_BOOLAND])); [|apply spine_ne|reflexivity].
      rewrite IHm1, (Hch _ IHm2). reflexivity.
    - (* andor *)
      rewrite (sumT_map_last _ _ _ [IIf true (enc ke (chain_of (spine m3))) (Some (enc ke (chain_of (spine m2))))]);
        [|apply spine_ne|reflexivity].
      rewrite IHm1, (Hch _ IHm2), (Hch _ IHm3). reflexivity.
    - (* or_b *)
      rewrite (sumT_map_last _ _ _ (enc ke (chain_of (spine m2)) ++ [IOp OP_BOOLOR])); [|apply spine_ne|reflexivity].
      rewrite IHm1, (Hch _ IHm2). reflexivity.
    - (* or_d *)
      rewrite (sumT_map_last _ _ _ [IOp OP_IFDUP; IIf true (enc ke (chain_of (spine m2))) None]); [|apply spine_ne|reflexivity].
      rewrite IHm1, (Hch _ IHm2). reflexivity.
    - (* or_c *)
      rewrite (sumT_map_last _ _ _ [IIf true (enc ke (chain_of (spine m2))) None]); [|apply spine_ne|reflexivity].
      rewrite IHm1, (Hch _ IHm2). reflexivity.
    - (* or_i *) unfold sumT. cbn [flat_map enc]. rewrite app_nil_r, (Hch _ IHm1), (Hch _ IHm2). reflexivity.
    - (* thresh *) destruct xs as [|x0 ws]; [unfold sumT; cbn [flat_map]; rewrite app_nil_r; reflexivity|].
      inversion H as [|? ? Hx0 Hws]; subst.
      set (ws' := (fix go (l : list ms) : list ms := match l with [] => [] | w :: r => chain_of (spine w) :: go r end) ws).
      assert (Etail : enc_tail ke ws' = enc_tail ke ws).
      { subst ws'. clear - Hws Hch. induction Hws as [|w r Hw _ IH]; [reflexivity|].
        cbn [enc_tail]. rewrite IH, (Hch _ Hw). reflexivity. }
      rewrite (sumT_map_last _ _ _ (enc_tail ke ws' ++ [push_int (Z.of_N k); IOp OP_EQUAL])); [|apply spine_ne|].
      + rewrite Hx0, Etail. cbn [enc]. rewrite <- app_assoc. reflexivity.
      + intros a. cbn [enc]. rewrite <- app_assoc. reflexivity.
    - (* sortedmulti *) unfold sumT. cbn [flat_map enc]. rewrite app_nil_r, ksort_len. reflexivity.
  Qed.

  Theorem enc_nf m : enc ke (nf m) = enc ke m.
  Proof. unfold nf. rewrite (T_chain_of _ _ enc_andv) by apply spine_ne. apply spine_enc. Qed.

  (* ---- same type ---- *)
  Lemma rbind_ok {A B} (r : res A) (f : A -> res B) b : rbind r f = ROk b -> exists a, r = ROk a /\ f a = ROk b.
  Proof. destruct r as [a|]; cbn; intros H; [eauto|discriminate]. Qed.

  Lemma type_andv a b : type_of (MAndV a b) = rbind (type_of a) (fun ta => rbind (type_of b) (t_and_v ta)).
  Proof. reflexivity. Qed.

  (* ty-level versions of the swept rule facts *)
  Lemma t_andv_ok ta tb t : t_and_v ta tb = ROk t ->
    c_and_v (t_corr ta) (t_corr tb) = ROk (t_corr t) /\ t_mall t = m_and_v (t_mall ta) (t_mall tb).
  Proof. unfold t_and_v, lift2. destruct (c_and_v _ _); intros H; [injection H as <-; auto|discriminate]. Qed.
  Lemma t_andv_mk ta tb c : c_and_v (t_corr ta) (t_corr tb) = ROk c ->
    t_and_v ta tb = ROk (mkTy c (m_and_v (t_mall ta) (t_mall tb))).
  Proof. unfold t_and_v, lift2. intros ->. reflexivity. Qed.

  Lemma t_andv_assoc ta tb tc t :
    rbind (t_and_v tb tc) (t_and_v ta) = ROk t -> rbind (t_and_v ta tb) (fun x => t_and_v x tc) = ROk t.
  Proof.
    intros H. destruct (rbind_ok _ _ _ H) as [tbc [H1 H2]].
    destruct (t_andv_ok _ _ _ H1) as [C1 M1]. destruct (t_andv_ok _ _ _ H2) as [C2 M2].
    pose proof (c_andv_assoc_l (t_corr ta) (t_corr tb) (t_corr tc)) as Hc. unfold cbind in Hc. rewrite C1, C2 in Hc.
    destruct (c_and_v (t_corr ta) (t_corr tb)) as [cab|] eqn:E1; [|discriminate].
    rewrite (t_andv_mk ta tb cab E1). cbn [rbind].
    destruct (c_and_v cab (t_corr tc)) as [cr|] eqn:E2; [|discriminate].
    cbn in Hc. apply corr_eqb_eq in Hc.
    unfold t_and_v, lift2. cbn [t_corr t_mall]. rewrite E2.
    destruct t as [tc0 tm0]. cbn [t_corr t_mall] in *. subst tc0. rewrite M2, M1, m_andv_assoc. reflexivity.
  Qed.

  Lemma ty_assoc a b c t : type_of (MAndV a (MAndV b c)) = ROk t -> type_of (MAndV (MAndV a b) c) = ROk t.
  Proof.
    rewrite !type_andv. intros H.
    destruct (type_of a) as [ta|]; [|discriminate]. destruct (type_of b) as [tb|]; [|discriminate].
    destruct (type_of c) as [tc|]; [|cbn in H; discriminate]. cbn [rbind] in *.
    apply t_andv_assoc in H. destruct (t_and_v ta tb); cbn [rbind] in *; [exact H|discriminate].
  Qed.

  Lemma type_chain_app l2 : forall l1 t, l1 <> [] -> l2 <> [] ->
    type_of (MAndV (chain_of l1) (chain_of l2)) = ROk t -> type_of (chain_of (l1 ++ l2)) = ROk t.
  Proof.
    induction l2 as [|x l2 IH] using rev_ind; intros l1 t H1 H2 H; [contradiction|].
    destruct l2 as [|y l2'].
    - cbn [app chain_of andv_from] in *. rewrite chain_of_snoc by exact H1. exact H.
    - assert (Hne : y :: l2' <> []) by discriminate.
      rewrite chain_of_snoc in H by exact Hne. apply ty_assoc in H.
      rewrite type_andv in H. destruct (rbind_ok _ _ _ H) as [t' [Ht' Hx]].
      rewrite app_assoc, chain_of_snoc by (intros E; apply app_eq_nil in E; destruct E; contradiction).
      rewrite type_andv, (IH l1 t' H1 Hne Ht'). exact Hx.
  Qed.

  (* a wrapper F with type rule tf that commutes with and_v *)
  Lemma type_comm (F : ms -> ms) (tf : ty -> res ty) :
    (forall a, type_of (F a) = rbind (type_of a) tf) ->
    (forall ta tb t, rbind (t_and_v ta tb) tf = ROk t -> rbind (tf tb) (t_and_v ta) = ROk t) ->
    forall l t, l <> [] -> type_of (F (chain_of l)) = ROk t -> type_of (chain_of (map_last F l)) = ROk t.
  Proof.
    intros HF Hc l t Hl H. destruct (list_snoc l Hl) as [i [x ->]]. rewrite map_last_snoc.
    destruct i as [|y i'].
    - cbn [app chain_of andv_from] in *. exact H.
    - assert (Hne : y :: i' <> []) by discriminate.
      rewrite chain_of_snoc in * by exact Hne. rewrite HF, type_andv in H. rewrite type_andv, HF.
      destruct (type_of (chain_of (y :: i'))) as [ta|]; [|discriminate].
      destruct (type_of x) as [tb|]; [|discriminate]. cbn [rbind] in *. apply Hc, H.
  Qed.

  (* a wrapper whose rule needs a dissatisfiable first operand never sits on an and_v *)
  Lemma chain_not_dissat l t : (2 <= length l)%nat -> type_of (chain_of l) = ROk t -> c_dissat (t_corr t) = false.
  Proof.
    intros Hl H. destruct (list_snoc l ltac:(destruct l; [cbn in Hl; lia|discriminate])) as [i [x ->]].
    assert (Hi : i <> []) by (destruct i; [cbn in Hl; lia|discriminate]).
    rewrite chain_of_snoc in H by exact Hi. rewrite type_andv in H.
    destruct (rbind_ok _ _ _ H) as [ta [_ H1]]. destruct (rbind_ok _ _ _ H1) as [tb [_ H2]].
    destruct (t_andv_ok _ _ _ H2) as [C _]. apply (c_andv_not_dissat _ _ _ C).
  Qed.

  Lemma type_dissat (F : ms -> ms) (tf : ty -> res ty) :
    (forall a, type_of (F a) = rbind (type_of a) tf) ->
    (forall ta t, tf ta = ROk t -> c_dissat (t_corr ta) = true) ->
    forall l t, l <> [] -> type_of (F (chain_of l)) = ROk t -> type_of (chain_of (map_last F l)) = ROk t.
  Proof.
    intros HF Hd l t Hl H. destruct l as [|x [|y r]]; [contradiction|exact H|].
    exfalso. rewrite HF in H. destruct (rbind_ok _ _ _ H) as [ta [Ha Hta]].
    pose proof (chain_not_dissat (x :: y :: r) ta ltac:(cbn; lia) Ha) as Hn. rewrite (Hd _ _ Hta) in Hn. discriminate.
  Qed.

  (* the rule-level commutations lifted to ty *)
  Lemma lift1_comm fc fm : c_comm1 fc -> m_comm1 fm ->
    forall ta tb t, rbind (t_and_v ta tb) (lift1 fc fm) = ROk t -> rbind (lift1 fc fm tb) (t_and_v ta) = ROk t.
  Proof.
    intros Hc Hm ta tb t H. destruct (rbind_ok _ _ _ H) as [tab [H1 H2]].
    destruct (t_andv_ok _ _ _ H1) as [C1 M1].
    unfold lift1 in H2. destruct (fc (t_corr tab)) as [cr|] eqn:E; [|discriminate]. injection H2 as <-.
    pose proof (Hc (t_corr ta) (t_corr tb)) as Hx. unfold cbind in Hx. rewrite C1, E in Hx.
    unfold lift1. destruct (fc (t_corr tb)) as [cb|] eqn:Eb; [|discriminate]. cbn [rbind].
    destruct (c_and_v (t_corr ta) cb) as [cr'|] eqn:E2; [|discriminate]. cbn in Hx. apply corr_eqb_eq in Hx. subst cr'.
    unfold t_and_v, lift2. cbn [t_corr t_mall]. rewrite E2, M1, Hm. reflexivity.
  Qed.

  Lemma andb_comm tw ta tb t :
    rbind (t_and_v ta tb) (fun x => t_and_b x tw) = ROk t -> rbind (t_and_b tb tw) (t_and_v ta) = ROk t.
  Proof.
    intros H. destruct (rbind_ok _ _ _ H) as [tab [H1 H2]]. destruct (t_andv_ok _ _ _ H1) as [C1 M1].
    unfold t_and_b, lift2 in H2. destruct (c_and_b (t_corr tab) (t_corr tw)) as [cr|] eqn:E; [|discriminate]. injection H2 as <-.
    pose proof (c_andb_comm (t_corr ta) (t_corr tb) (t_corr tw)) as Hx. unfold cbind in Hx. rewrite C1, E in Hx.
    unfold t_and_b, lift2. destruct (c_and_b (t_corr tb) (t_corr tw)) as [cb|] eqn:Eb; [|discriminate]. cbn [rbind].
    destruct (c_and_v (t_corr ta) cb) as [cr'|] eqn:E2; [|discriminate]. cbn in Hx. apply corr_eqb_eq in Hx. subst cr'.
    unfold t_and_v, lift2. cbn [t_corr t_mall]. rewrite E2, M1, m_andb_comm. reflexivity.
  Qed.

  (* types of the children of a thresh, as the type checker computes them *)
  Fixpoint tys_of (l : list ms) : res (list ty) :=
    match l with
    | [] => ROk []
    | x :: r => rbind (type_of x) (fun t => rbind (tys_of r) (fun ts => ROk (t :: ts)))
    end.
  Lemma type_thresh k xs : type_of (MThresh k xs) = rbind (tys_of xs) (t_threshold k).
  Proof. reflexivity. Qed.

  Lemma thresh_first_dissat k ta ts t : t_threshold k (ta :: ts) = ROk t -> c_dissat (t_corr ta) = true.
  Proof.
    unfold t_threshold, c_threshold. cbn [map c_thresh_loop]. cbn [N.eqb andb negb].
    destruct (negb (base_eqb (c_base (t_corr ta)) BB)); [discriminate|].
    destruct (c_unit (t_corr ta)); cbn [negb]; [|discriminate].
    destruct (c_dissat (t_corr ta)); cbn [negb]; [reflexivity|discriminate].
  Qed.

  Theorem type_nf : forall m t, type_of m = ROk t -> type_of (nf m) = ROk t.
  Proof.
    unfold nf.
    induction m using ms_ind2; intros tt Ht; cbn [spine]; try exact Ht.
    - (* alt *) cbn [chain_of andv_from]. cbn [type_of] in *. destruct (rbind_ok _ _ _ Ht) as [tx [Hx Hr]].
      rewrite (IHm tx Hx). exact Hr.
    - (* swap *) cbn [chain_of andv_from]. cbn [type_of] in *. destruct (rbind_ok _ _ _ Ht) as [tx [Hx Hr]].
      rewrite (IHm tx Hx). exact Hr.
    - (* check *) cbn [type_of] in Ht. destruct (rbind_ok _ _ _ Ht) as [tx [Hx Hr]].
      apply (type_comm MCheck t_cast_check); [reflexivity|apply (lift1_comm _ _ c_check_comm m_check_comm)|apply spine_ne|].
      cbn [type_of]. rewrite (IHm tx Hx). exact Hr.
    - (* dupif *) cbn [chain_of andv_from]. cbn [type_of] in *. destruct (rbind_ok _ _ _ Ht) as [tx [Hx Hr]].
      rewrite (IHm tx Hx). exact Hr.
    - (* verify *) cbn [type_of] in Ht. destruct (rbind_ok _ _ _ Ht) as [tx [Hx Hr]].
      apply (type_comm MVerify t_cast_verify); [reflexivity|apply (lift1_comm _ _ c_verify_comm m_verify_comm)|apply spine_ne|].
      cbn [type_of]. rewrite (IHm tx Hx). exact Hr.
    - (* nonzero *) cbn [chain_of andv_from]. cbn [type_of] in *. destruct (rbind_ok _ _ _ Ht) as [tx [Hx Hr]].
      rewrite (IHm tx Hx). exact Hr.
    - (* zne *) cbn [type_of] in Ht. destruct (rbind_ok _ _ _ Ht) as [tx [Hx Hr]].
      apply (type_comm MZeroNotEqual t_cast_zeronotequal); [reflexivity|apply (lift1_comm _ _ c_zne_comm m_zne_comm)|apply spine_ne|].
      cbn [type_of]. rewrite (IHm tx Hx). exact Hr.
    - (* and_v *) rewrite type_andv in Ht. destruct (rbind_ok _ _ _ Ht) as [tx [Hx Hr]]. destruct (rbind_ok _ _ _ Hr) as [ty [Hy Hr2]].
      apply type_chain_app; try apply spine_ne. rewrite type_andv, (IHm1 tx Hx), (IHm2 ty Hy). exact Hr2.
    - (* and_b *) cbn [type_of] in Ht. destruct (rbind_ok _ _ _ Ht) as [tx [Hx Hr]]. destruct (rbind_ok _ _ _ Hr) as [ty [Hy Hr2]].
      apply (type_comm (fun a => MAndB a (chain_of (spine m2))) (fun ta => rbind (type_of (chain_of (spine m2))) (t_and_b ta)));
        [reflexivity| |apply spine_ne|].
      + intros ta tb t0. rewrite (IHm2 ty Hy). cbn [rbind]. apply andb_comm.
      + cbn [type_of]. rewrite (IHm1 tx Hx), (IHm2 ty Hy). exact Hr2.
    - (* andor *) cbn [type_of] in Ht. destruct (rbind_ok _ _ _ Ht) as [tx [Hx Hr]]. destruct (rbind_ok _ _ _ Hr) as [ty [Hy Hr2]].
      destruct (rbind_ok _ _ _ Hr2) as [tz [Hz Hr3]].
      apply (type_dissat (fun a => MAndOr a (chain_of (spine m2)) (chain_of (spine m3)))
               (fun ta => rbind (type_of (chain_of (spine m2))) (fun tb => rbind (type_of (chain_of (spine m3))) (t_and_or ta tb))));
        [reflexivity| |apply spine_ne|].
      + intros ta t0. rewrite (IHm2 ty Hy), (IHm3 tz Hz). cbn [rbind]. unfold t_and_or, c_and_or.
        destruct (c_dissat (t_corr ta)); [reflexivity|discriminate].
      + cbn [type_of]. rewrite (IHm1 tx Hx), (IHm2 ty Hy), (IHm3 tz Hz). exact Hr3.
    - (* or_b *) cbn [type_of] in Ht. destruct (rbind_ok _ _ _ Ht) as [tx [Hx Hr]]. destruct (rbind_ok _ _ _ Hr) as [ty [Hy Hr2]].
      apply (type_dissat (fun a => MOrB a (chain_of (spine m2))) (fun ta => rbind (type_of (chain_of (spine m2))) (t_or_b ta)));
        [reflexivity| |apply spine_ne|].
      + intros ta t0. rewrite (IHm2 ty Hy). cbn [rbind]. unfold t_or_b, lift2, c_or_b.
        destruct (c_dissat (t_corr ta)); [reflexivity|discriminate].
      + cbn [type_of]. rewrite (IHm1 tx Hx), (IHm2 ty Hy). exact Hr2.
    - (* or_d *) cbn [type_of] in Ht. destruct (rbind_ok _ _ _ Ht) as [tx [Hx Hr]]. destruct (rbind_ok _ _ _ Hr) as [ty [Hy Hr2]].
      apply (type_dissat (fun a => MOrD a (chain_of (spine m2))) (fun ta => rbind (type_of (chain_of (spine m2))) (t_or_d ta)));
        [reflexivity| |apply spine_ne|].
      + intros ta t0. rewrite (IHm2 ty Hy). cbn [rbind]. unfold t_or_d, lift2, c_or_d.
        destruct (c_dissat (t_corr ta)); [reflexivity|discriminate].
      + cbn [type_of]. rewrite (IHm1 tx Hx), (IHm2 ty Hy). exact Hr2.
    - (* or_c *) cbn [type_of] in Ht. destruct (rbind_ok _ _ _ Ht) as [tx [Hx Hr]]. destruct (rbind_ok _ _ _ Hr) as [ty [Hy Hr2]].
      apply (type_dissat (fun a => MOrC a (chain_of (spine m2))) (fun ta => rbind (type_of (chain_of (spine m2))) (t_or_c ta)));
        [reflexivity| |apply spine_ne|].
      + intros ta t0. rewrite (IHm2 ty Hy). cbn [rbind]. unfold t_or_c, lift2, c_or_c.
        destruct (c_dissat (t_corr ta)); [reflexivity|discriminate].
      + cbn [type_of]. rewrite (IHm1 tx Hx), (IHm2 ty Hy). exact Hr2.
    - (* or_i *) cbn [chain_of andv_from]. cbn [type_of] in *.
      destruct (rbind_ok _ _ _ Ht) as [tx [Hx Hr]]. destruct (rbind_ok _ _ _ Hr) as [ty [Hy Hr2]].
      rewrite (IHm1 tx Hx), (IHm2 ty Hy). exact Hr2.
    - (* thresh *) destruct xs as [|x0 ws]; [exact Ht|]. inversion H as [|? ? Hx0 Hws]; subst.
      rewrite type_thresh in Ht. destruct (rbind_ok _ _ _ Ht) as [tys [Htys Hr]].
      cbn [tys_of] in Htys. destruct (rbind_ok _ _ _ Htys) as [t0 [H0 Hr0]]. destruct (rbind_ok _ _ _ Hr0) as [ts [Hts E]].
      injection E as <-.
      set (ws' := (fix go (l : list ms) : list ms := match l with [] => [] | w :: r => chain_of (spine w) :: go r end) ws).
      assert (Hws' : tys_of ws' = ROk ts).
      { subst ws'. clear - Hws Hts. revert ts Hts. induction Hws as [|w r Hw _ IH]; intros ts Hts; [exact Hts|].
        cbn [tys_of] in *. destruct (rbind_ok _ _ _ Hts) as [tw [Htw Hr]]. destruct (rbind_ok _ _ _ Hr) as [ts' [Hts' E]].
        rewrite (Hw tw Htw). cbn [rbind]. rewrite (IH ts' Hts'). exact E. }
      apply (type_dissat (fun a => MThresh k (a :: ws')) (fun ta => rbind (tys_of ws') (fun ts => t_threshold k (ta :: ts))));
        [| |apply spine_ne|].
      + intros a. rewrite type_thresh. cbn [tys_of]. destruct (type_of a); [|reflexivity]. cbn [rbind].
        destruct (tys_of ws'); reflexivity.
      + intros ta t1. rewrite Hws'. cbn [rbind]. apply thresh_first_dissat.
      + rewrite type_thresh. cbn [tys_of]. rewrite (Hx0 t0 H0). cbn [rbind]. rewrite Hws'. cbn [rbind]. exact Hr.
  Qed.

  (* ---- the normal form is one: base types put a: / s: exactly where the decoder expects W ---- *)
  Definition tb (t : ty) : base := c_base (t_corr t).
  Definition atom (a : ms) : Prop := dnf KAtom a = true.

  Lemma chain_dnf l : l <> [] -> Forall atom l -> dnf KChain (chain_of l) = true.
  Proof.
    destruct l as [|x r]; [contradiction|]. intros _ H. inversion H as [|? ? Hx Hr]; subst. cbn [chain_of].
    assert (G : forall r acc, dnf KChain acc = true -> Forall atom r -> dnf KChain (andv_from acc r) = true).
    { induction r0 as [|y r0 IH]; intros acc Ha Hf; [exact Ha|]. inversion Hf; subst. cbn [andv_from].
      apply IH; [|assumption]. cbn [dnf]. rewrite Ha. assumption. }
    apply G; [apply dnf_atom_chain, Hx|exact Hr].
  Qed.

  Lemma atoms_map_last F l : Forall atom l -> (forall a, atom a -> atom (F a)) -> Forall atom (map_last F l).
  Proof.
    intros Hl HF. destruct l as [|x0 l0]; [constructor|].
    destruct (list_snoc (x0 :: l0) ltac:(discriminate)) as [i [x E]]. rewrite E in *.
    rewrite map_last_snoc. apply Forall_app in Hl. destruct Hl as [Hi Hx]. inversion Hx; subst.
    apply Forall_app. split; [exact Hi|]. constructor; [apply HF; assumption|constructor].
  Qed.

  (* bases demanded and produced by the rules *)
  Ltac rule_inv H :=
    unfold t_cast_alt, t_cast_swap, t_cast_check, t_cast_dupif, t_cast_verify, t_cast_nonzero, t_cast_zeronotequal,
           t_and_v, t_and_b, t_or_b, t_or_d, t_or_c, t_or_i, t_and_or, lift1, lift2,
           c_cast_alt, c_cast_swap, c_cast_check, c_cast_dupif, c_cast_verify, c_cast_nonzero, c_cast_zeronotequal,
           c_and_v, c_and_b, c_or_b, c_or_d, c_or_c, c_or_i, c_and_or in H.

  Lemma L1 (f : ty -> res ty) tx t (b1 b2 : base) :
    f tx = ROk t ->
    (forall c, match f (mkTy c (t_mall tx)) with ROk r => c_base c = b1 /\ tb r = b2 | RErr _ => True end) ->
    tb tx = b1 /\ tb t = b2.
  Proof. intros H Hall. specialize (Hall (t_corr tx)). destruct tx as [c m]. cbn [t_corr t_mall] in *. rewrite H in Hall. exact Hall. Qed.

  Lemma base_check tx t : t_cast_check tx = ROk t -> tb tx = BK /\ tb t = BB.
  Proof. unfold tb. intros H. rule_inv H. destruct (c_base (t_corr tx)); try discriminate. injection H as <-. auto. Qed.
  Lemma base_verify tx t : t_cast_verify tx = ROk t -> tb tx = BB /\ tb t = BV.
  Proof. unfold tb. intros H. rule_inv H. destruct (c_base (t_corr tx)); try discriminate. injection H as <-. auto. Qed.
  Lemma base_zne tx t : t_cast_zeronotequal tx = ROk t -> tb tx = BB /\ tb t = BB.
  Proof. unfold tb. intros H. rule_inv H. destruct (c_base (t_corr tx)); try discriminate. injection H as <-. auto. Qed.
  Lemma base_alt tx t : t_cast_alt tx = ROk t -> tb tx = BB /\ tb t = BW.
  Proof. unfold tb. intros H. rule_inv H. destruct (c_base (t_corr tx)); try discriminate. injection H as <-. auto. Qed.
  Lemma base_swap tx t : t_cast_swap tx = ROk t -> tb tx = BB /\ tb t = BW.
  Proof.
    unfold tb. intros H. rule_inv H. destruct (c_base (t_corr tx)); try discriminate.
    destruct (c_input (t_corr tx)); try discriminate; injection H as <-; auto.
  Qed.
  Lemma base_dupif tx t : t_cast_dupif tx = ROk t -> tb tx = BV /\ tb t = BB.
  Proof.
    unfold tb. intros H. rule_inv H. destruct (c_base (t_corr tx)); try discriminate.
    destruct (c_input (t_corr tx)); try discriminate; injection H as <-; auto.
  Qed.
  Lemma base_nonzero tx t : t_cast_nonzero tx = ROk t -> tb tx = BB /\ tb t = BB.
  Proof.
    unfold tb. intros H. rule_inv H.
    destruct (negb (input_eqb (c_input (t_corr tx)) IOneNonZero) && negb (input_eqb (c_input (t_corr tx)) IAnyNonZero)); [discriminate|].
    destruct (c_base (t_corr tx)); try discriminate. injection H as <-. auto.
  Qed.
  Lemma base_andv ta tb0 t : t_and_v ta tb0 = ROk t -> tb ta = BV /\ tb tb0 <> BW /\ tb t = tb tb0.
  Proof.
    unfold tb. intros H. rule_inv H. destruct (c_base (t_corr ta)), (c_base (t_corr tb0)); try discriminate;
      injection H as <-; repeat split; discriminate.
  Qed.
  Lemma base_andb ta tb0 t : t_and_b ta tb0 = ROk t -> tb ta = BB /\ tb tb0 = BW /\ tb t = BB.
  Proof.
    unfold tb. intros H. rule_inv H. destruct (c_base (t_corr ta)), (c_base (t_corr tb0)); try discriminate;
      injection H as <-; auto.
  Qed.
  Lemma base_orb ta tb0 t : t_or_b ta tb0 = ROk t -> tb ta = BB /\ tb tb0 = BW /\ tb t = BB.
  Proof.
    unfold tb. intros H. rule_inv H. destruct (negb (c_dissat (t_corr ta))); [discriminate|].
    destruct (negb (c_dissat (t_corr tb0))); [discriminate|].
    destruct (c_base (t_corr ta)), (c_base (t_corr tb0)); try discriminate; injection H as <-; auto.
  Qed.
  Lemma base_ord ta tb0 t : t_or_d ta tb0 = ROk t -> tb ta = BB /\ tb tb0 = BB /\ tb t = BB.
  Proof.
    unfold tb. intros H. rule_inv H. destruct (negb (c_dissat (t_corr ta))); [discriminate|].
    destruct (negb (c_unit (t_corr ta))); [discriminate|].
    destruct (c_base (t_corr ta)), (c_base (t_corr tb0)); try discriminate; injection H as <-; auto.
  Qed.
  Lemma base_orc ta tb0 t : t_or_c ta tb0 = ROk t -> tb ta = BB /\ tb tb0 = BV /\ tb t = BV.
  Proof.
    unfold tb. intros H. rule_inv H. destruct (negb (c_dissat (t_corr ta))); [discriminate|].
    destruct (negb (c_unit (t_corr ta))); [discriminate|].
    destruct (c_base (t_corr ta)), (c_base (t_corr tb0)); try discriminate; injection H as <-; auto.
  Qed.
  Lemma base_ori ta tb0 t : t_or_i ta tb0 = ROk t -> tb ta <> BW /\ tb tb0 <> BW /\ tb t <> BW.
  Proof.
    unfold tb. intros H. rule_inv H. destruct (c_base (t_corr ta)), (c_base (t_corr tb0)); try discriminate;
      injection H as <-; repeat split; discriminate.
  Qed.
  Lemma base_andor ta tb0 tc t : t_and_or ta tb0 tc = ROk t -> tb ta = BB /\ tb tb0 <> BW /\ tb tc <> BW /\ tb t <> BW.
  Proof.
    unfold tb. intros H. rule_inv H. destruct (negb (c_dissat (t_corr ta))); [discriminate|].
    destruct (negb (c_unit (t_corr ta))); [discriminate|].
    destruct (c_base (t_corr ta)), (c_base (t_corr tb0)), (c_base (t_corr tc)); try discriminate;
      injection H as <-; repeat split; discriminate.
  Qed.

  Lemma thresh_loop_bases : forall cs i n r, i <> 0 -> c_thresh_loop i n cs = ROk r -> Forall (fun c => c_base c = BW) cs.
  Proof.
    induction cs as [|c cs IH]; intros i n r Hi H; [constructor|]. cbn [c_thresh_loop] in H.
    destruct (N.eqb_spec i 0); [contradiction|]. cbn [andb negb] in H.
    destruct (base_eqb (c_base c) BW) eqn:E; cbn [negb] in H; [|discriminate].
    destruct (negb (c_unit c)); [discriminate|]. destruct (negb (c_dissat c)); [discriminate|].
    constructor; [destruct (c_base c); try discriminate; reflexivity|]. eapply (IH (i + 1)); [lia|exact H].
  Qed.
  Lemma base_thresh k t0 ts t : t_threshold k (t0 :: ts) = ROk t ->
    tb t0 = BB /\ Forall (fun x => tb x = BW) ts /\ tb t = BB.
  Proof.
    unfold tb, t_threshold, c_threshold. cbn [map c_thresh_loop]. cbn [N.eqb andb negb]. intros H.
    destruct (base_eqb (c_base (t_corr t0)) BB) eqn:E0; cbn [negb] in H; [|discriminate].
    destruct (negb (c_unit (t_corr t0))); [discriminate|]. destruct (negb (c_dissat (t_corr t0))); [discriminate|].
    destruct (c_thresh_loop _ _ (map t_corr ts)) as [n|] eqn:El; [|discriminate]. injection H as <-.
    split; [destruct (c_base (t_corr t0)); try discriminate; reflexivity|]. split; [|reflexivity].
    apply thresh_loop_bases in El; [|lia]. clear - El. induction ts as [|x ts IH]; [constructor|].
    inversion El; subst. constructor; auto.
  Qed.

  (* Threshold is never empty (a Rust type invariant; the model's type_of accepts thresh(k) of nothing) *)
  Fixpoint tne (m : ms) : Prop :=
    match m with
    | MAlt x | MSwap x | MCheck x | MDupIf x | MVerify x | MNonZero x | MZeroNotEqual x => tne x
    | MAndV x y | MAndB x y | MOrB x y | MOrD x y | MOrC x y | MOrI x y => tne x /\ tne y
    | MAndOr x y z => tne x /\ tne y /\ tne z
    | MThresh _ xs => xs <> [] /\ (fix go (l : list ms) : Prop := match l with [] => True | x :: r => tne x /\ go r end) xs
    | _ => True
    end.

  (* the statement, for both kinds of position *)
  Definition dnf_stmt (m : ms) : Prop := forall t, tne m -> type_of m = ROk t ->
    (tb t = BW -> exists w, spine m = [w] /\ dnf KW w = true) /\
    (tb t <> BW -> Forall atom (spine m)).

  Lemma nfc m t : dnf_stmt m -> tne m -> type_of m = ROk t -> tb t <> BW -> dnf KChain (chain_of (spine m)) = true.
  Proof. intros H Hn Ht Hb. apply chain_dnf; [apply spine_ne|]. apply (H t Hn Ht), Hb. Qed.
  Lemma nfw m t : dnf_stmt m -> tne m -> type_of m = ROk t -> tb t = BW -> dnf KW (chain_of (spine m)) = true.
  Proof. intros H Hn Ht Hb. destruct (proj1 (H t Hn Ht) Hb) as [w [-> Hw]]. exact Hw. Qed.

  Ltac nw := match goal with H : ?a = ?b |- ?a <> BW => rewrite H; discriminate | H : ?a <> BW |- ?a <> BW => exact H end.

  Theorem dnf_spine : forall m, dnf_stmt m.
  Proof.
    induction m using ms_ind2; unfold dnf_stmt; intros tt Hne Ht; cbn [spine]; cbn [tne] in Hne.
    - injection Ht as <-. split; [discriminate|]. intros _. repeat constructor.
    - injection Ht as <-. split; [discriminate|]. intros _. repeat constructor.
    - injection Ht as <-. split; [discriminate|]. intros _. repeat constructor.
    - injection Ht as <-. split; [discriminate|]. intros _. repeat constructor.
    - injection Ht as <-. split; [discriminate|]. intros _. repeat constructor.
    - injection Ht as <-. split; [discriminate|]. intros _. repeat constructor.
    - injection Ht as <-. split; [discriminate|]. intros _. repeat constructor.
    - injection Ht as <-. split; [discriminate|]. intros _. repeat constructor.
    - injection Ht as <-. split; [discriminate|]. intros _. repeat constructor.
    - injection Ht as <-. split; [discriminate|]. intros _. repeat constructor.
    - injection Ht as <-. split; [discriminate|]. intros _. repeat constructor.
    - (* alt *) cbn [type_of] in Ht. destruct (rbind_ok _ _ _ Ht) as [tx [Hx Hr]]. destruct (base_alt _ _ Hr) as [B1 B2].
      split; [|intros Hn; rewrite B2 in Hn; contradiction]. intros _. eexists. split; [reflexivity|].
      cbn [dnf]. apply (nfc m tx IHm Hne Hx). nw.
    - (* swap *) cbn [type_of] in Ht. destruct (rbind_ok _ _ _ Ht) as [tx [Hx Hr]]. destruct (base_swap _ _ Hr) as [B1 B2].
      split; [|intros Hn; rewrite B2 in Hn; contradiction]. intros _. eexists. split; [reflexivity|].
      cbn [dnf]. apply (nfc m tx IHm Hne Hx). nw.
    - (* check *) cbn [type_of] in Ht. destruct (rbind_ok _ _ _ Ht) as [tx [Hx Hr]]. destruct (base_check _ _ Hr) as [B1 B2].
      split; [intros E; rewrite B2 in E; discriminate|]. intros _.
      apply atoms_map_last; [apply (IHm tx Hne Hx); nw|]. intros a Ha. unfold atom in *. cbn [dnf notw andb]. exact Ha.
    - (* dupif *) cbn [type_of] in Ht. destruct (rbind_ok _ _ _ Ht) as [tx [Hx Hr]]. destruct (base_dupif _ _ Hr) as [B1 B2].
      split; [intros E; rewrite B2 in E; discriminate|]. intros _. constructor; [|constructor].
      unfold atom. cbn [dnf notw andb]. apply (nfc m tx IHm Hne Hx). nw.
    - (* verify *) cbn [type_of] in Ht. destruct (rbind_ok _ _ _ Ht) as [tx [Hx Hr]]. destruct (base_verify _ _ Hr) as [B1 B2].
      split; [intros E; rewrite B2 in E; discriminate|]. intros _.
      apply atoms_map_last; [apply (IHm tx Hne Hx); nw|]. intros a Ha. unfold atom in *. cbn [dnf notw andb]. exact Ha.
    - (* nonzero *) cbn [type_of] in Ht. destruct (rbind_ok _ _ _ Ht) as [tx [Hx Hr]]. destruct (base_nonzero _ _ Hr) as [B1 B2].
      split; [intros E; rewrite B2 in E; discriminate|]. intros _. constructor; [|constructor].
      unfold atom. cbn [dnf notw andb]. apply (nfc m tx IHm Hne Hx). nw.
    - (* zne *) cbn [type_of] in Ht. destruct (rbind_ok _ _ _ Ht) as [tx [Hx Hr]]. destruct (base_zne _ _ Hr) as [B1 B2].
      split; [intros E; rewrite B2 in E; discriminate|]. intros _.
      apply atoms_map_last; [apply (IHm tx Hne Hx); nw|]. intros a Ha. unfold atom in *. cbn [dnf notw andb]. exact Ha.
    - (* and_v *) destruct Hne as [N1 N2]. rewrite type_andv in Ht. destruct (rbind_ok _ _ _ Ht) as [tx [Hx Hr]]. destruct (rbind_ok _ _ _ Hr) as [ty [Hy Hr2]].
      destruct (base_andv _ _ _ Hr2) as [B1 [B2 B3]].
      split; [intros E; rewrite B3 in E; contradiction|]. intros _.
      apply Forall_app. split; [apply (IHm1 tx N1 Hx); nw|apply (IHm2 ty N2 Hy); exact B2].
    - (* and_b *) destruct Hne as [N1 N2]. cbn [type_of] in Ht. destruct (rbind_ok _ _ _ Ht) as [tx [Hx Hr]]. destruct (rbind_ok _ _ _ Hr) as [ty [Hy Hr2]].
      destruct (base_andb _ _ _ Hr2) as [B1 [B2 B3]].
      split; [intros E; rewrite B3 in E; discriminate|]. intros _.
      apply atoms_map_last; [apply (IHm1 tx N1 Hx); nw|]. intros a Ha. unfold atom in *. cbn [dnf notw andb].
      rewrite Ha, (nfw m2 ty IHm2 N2 Hy B2). reflexivity.
    - (* andor *) destruct Hne as [N1 [N2 N3]]. cbn [type_of] in Ht. destruct (rbind_ok _ _ _ Ht) as [tx [Hx Hr]]. destruct (rbind_ok _ _ _ Hr) as [ty [Hy Hr2]].
      destruct (rbind_ok _ _ _ Hr2) as [tz [Hz Hr3]]. destruct (base_andor _ _ _ _ Hr3) as [B1 [B2 [B3 B4]]].
      split; [intros E; contradiction|]. intros _.
      apply atoms_map_last; [apply (IHm1 tx N1 Hx); nw|]. intros a Ha. unfold atom in *. cbn [dnf notw andb].
      rewrite Ha, (nfc m2 ty IHm2 N2 Hy B2), (nfc m3 tz IHm3 N3 Hz B3). reflexivity.
    - (* or_b *) destruct Hne as [N1 N2]. cbn [type_of] in Ht. destruct (rbind_ok _ _ _ Ht) as [tx [Hx Hr]]. destruct (rbind_ok _ _ _ Hr) as [ty [Hy Hr2]].
      destruct (base_orb _ _ _ Hr2) as [B1 [B2 B3]].
      split; [intros E; rewrite B3 in E; discriminate|]. intros _.
      apply atoms_map_last; [apply (IHm1 tx N1 Hx); nw|]. intros a Ha. unfold atom in *. cbn [dnf notw andb].
      rewrite Ha, (nfw m2 ty IHm2 N2 Hy B2). reflexivity.
    - (* or_d *) destruct Hne as [N1 N2]. cbn [type_of] in Ht. destruct (rbind_ok _ _ _ Ht) as [tx [Hx Hr]]. destruct (rbind_ok _ _ _ Hr) as [ty [Hy Hr2]].
      destruct (base_ord _ _ _ Hr2) as [B1 [B2 B3]].
      split; [intros E; rewrite B3 in E; discriminate|]. intros _.
      apply atoms_map_last; [apply (IHm1 tx N1 Hx); nw|]. intros a Ha. unfold atom in *. cbn [dnf notw andb].
      rewrite Ha, (nfc m2 ty IHm2 N2 Hy ltac:(nw)). reflexivity.
    - (* or_c *) destruct Hne as [N1 N2]. cbn [type_of] in Ht. destruct (rbind_ok _ _ _ Ht) as [tx [Hx Hr]]. destruct (rbind_ok _ _ _ Hr) as [ty [Hy Hr2]].
      destruct (base_orc _ _ _ Hr2) as [B1 [B2 B3]].
      split; [intros E; rewrite B3 in E; discriminate|]. intros _.
      apply atoms_map_last; [apply (IHm1 tx N1 Hx); nw|]. intros a Ha. unfold atom in *. cbn [dnf notw andb].
      rewrite Ha, (nfc m2 ty IHm2 N2 Hy ltac:(nw)). reflexivity.
    - (* or_i *) destruct Hne as [N1 N2]. cbn [type_of] in Ht. destruct (rbind_ok _ _ _ Ht) as [tx [Hx Hr]]. destruct (rbind_ok _ _ _ Hr) as [ty [Hy Hr2]].
      destruct (base_ori _ _ _ Hr2) as [B1 [B2 B3]].
      split; [intros E; contradiction|]. intros _. constructor; [|constructor]. unfold atom. cbn [dnf notw andb].
      rewrite (nfc m1 tx IHm1 N1 Hx B1), (nfc m2 ty IHm2 N2 Hy B2). reflexivity.
    - (* thresh *) destruct Hne as [Nne Nl]. destruct xs as [|x0 ws]; [contradiction|].
      inversion H as [|? ? Hx0 Hws]; subst. destruct Nl as [N0 Nws].
      rewrite type_thresh in Ht. destruct (rbind_ok _ _ _ Ht) as [tys [Htys Hr]].
      cbn [tys_of] in Htys. destruct (rbind_ok _ _ _ Htys) as [t0 [H0 Hr0]]. destruct (rbind_ok _ _ _ Hr0) as [ts [Hts E]].
      injection E as <-. destruct (base_thresh _ _ _ _ Hr) as [B0 [BW0 B3]].
      split; [intros E; rewrite B3 in E; discriminate|]. intros _.
      apply atoms_map_last; [apply (Hx0 t0 N0 H0); nw|]. intros a Ha. unfold atom in *. cbn [dnf notw andb]. rewrite Ha. cbn [andb].
      clear - Hws Hts BW0 Nws. revert ts Hts BW0. induction Hws as [|w r Hw _ IH]; intros ts Hts BW0; [reflexivity|].
      destruct Nws as [Nw Nr].
      cbn [tys_of] in Hts. destruct (rbind_ok _ _ _ Hts) as [tw [Htw Hr]]. destruct (rbind_ok _ _ _ Hr) as [ts' [Hts' E]].
      injection E as <-. inversion BW0; subst.
      rewrite (nfw w tw Hw Nw Htw ltac:(assumption)). cbn [andb]. apply (IH Nr ts' Hts'). assumption.
    - (* multi *) injection Ht as <-. split; [discriminate|]. intros _. repeat constructor.
    - injection Ht as <-. split; [discriminate|]. intros _. repeat constructor.
    - injection Ht as <-. split; [discriminate|]. intros _. repeat constructor.
    - injection Ht as <-. split; [discriminate|]. intros _. repeat constructor.
  Qed.

  Theorem dnf_nf m t : tne m -> type_of m = ROk t -> tb t <> BW -> dnf KChain (nf m) = true.
  Proof. intros Hn Ht Hb. apply (nfc m t (dnf_spine m) Hn Ht Hb). Qed.
End Nf.

(* ------------------------------------------------------------------ decode_enc *)
Lemma wf_tne c ke : forall m, ms_wf c ke m -> tne m.
Proof.
  induction m using ms_ind2; cbn [ms_wf tne]; intros Hw; try exact I; try (intuition; fail).
  destruct Hw as (Hk & Hk2 & Hl). split.
  - destruct xs; [unfold nlen in Hk; cbn in Hk; lia|discriminate].
  - clear Hk. induction H as [|x r Hx _ IH]; [exact I|]. destruct Hl as [A B]. split; [apply Hx, A|apply IH, B].
Qed.

(* the limits the decoder applies while rebuilding (everything in from_ast except typing),
   the leaf range checks and the decodability of the keys *)
Definition node_lim (e : denv) (m : ms) : Prop :=
  (MAX_RECURSION_DEPTH <? tree_height m) = false /\ gv (d_ctx e) (d_ke e) m = None.

Fixpoint lim_ok (e : denv) (m : ms) : Prop :=
  match m with
  | MTrue | MFalse | MRawPkH _ | MSha256 _ | MHash256 _ | MRipemd160 _ | MHash160 _ => True
  | MPkK k => key_any e k
  | MPkH _ | MSortedMulti _ _ | MSortedMultiA _ _ => False
  | MAfter t => 1 <= t <= 2147483647
  | MOlder t => 1 <= t < 2147483648
  | MAlt x | MSwap x | MCheck x | MDupIf x | MVerify x | MNonZero x | MZeroNotEqual x => node_lim e m /\ lim_ok e x
  | MAndV x y | MAndB x y | MOrB x y | MOrD x y | MOrC x y | MOrI x y => node_lim e m /\ lim_ok e x /\ lim_ok e y
  | MAndOr x y z => node_lim e m /\ lim_ok e x /\ lim_ok e y /\ lim_ok e z
  | MThresh k xs =>
    node_lim e m /\ 1 <= k <= nlen xs /\
    (fix go (l : list ms) : Prop := match l with [] => True | x :: r => lim_ok e x /\ go r end) xs
  | MMulti k ks => 1 <= k <= nlen ks /\ nlen ks <= 20 /\ Forall (key_ecdsa e) ks
  | MMultiA k ks => 1 <= k <= nlen ks /\ nlen ks <= 999 /\ Forall (key_xonly e) ks
  end.

Lemma fa_ok_of e m t : type_of m = ROk t -> node_lim e m -> fa_ok e m.
Proof. intros Ht [Hh Hg]. unfold fa_ok, from_ast. rewrite Ht, Hh, Hg. reflexivity. Qed.

Lemma dec_ok_of_lim e : forall m t, type_of m = ROk t -> lim_ok e m -> dec_ok e m.
Proof.
  induction m using ms_ind2; intros tt Ht Hl; cbn [lim_ok dec_ok] in *; auto; try contradiction.
  all: try (destruct Hl as [Hn Hx]; pose proof Ht as Ht0; cbn [type_of] in Ht;
            destruct (rbind_ok _ _ _ Ht) as [tx [Htx _]];
            split; [apply (fa_ok_of e _ tt Ht0 Hn)|apply (IHm tx Htx Hx)]; fail).
  all: try (destruct Hl as [Hn [Hx Hy]]; pose proof Ht as Ht0; cbn [type_of] in Ht;
            destruct (rbind_ok _ _ _ Ht) as [tx [Htx Hr]]; destruct (rbind_ok _ _ _ Hr) as [ty [Hty _]];
            split; [apply (fa_ok_of e _ tt Ht0 Hn)|split; [apply (IHm1 tx Htx Hx)|apply (IHm2 ty Hty Hy)]]; fail).
  - (* andor *) destruct Hl as [Hn [Hx [Hy Hz]]]. pose proof Ht as Ht0. cbn [type_of] in Ht.
    destruct (rbind_ok _ _ _ Ht) as [tx [Htx Hr]]. destruct (rbind_ok _ _ _ Hr) as [ty [Hty Hr2]].
    destruct (rbind_ok _ _ _ Hr2) as [tz [Htz _]].
    split; [apply (fa_ok_of e _ tt Ht0 Hn)|]. split; [apply (IHm1 tx Htx Hx)|]. split; [apply (IHm2 ty Hty Hy)|apply (IHm3 tz Htz Hz)].
  - (* thresh *) destruct Hl as [Hn [Hk Hxs]]. pose proof Ht as Ht0. rewrite type_thresh in Ht.
    destruct (rbind_ok _ _ _ Ht) as [tys [Htys _]].
    split; [apply (fa_ok_of e _ tt Ht0 Hn)|]. split; [exact Hk|].
    clear - H Htys Hxs. revert tys Htys. induction H as [|x r Hx _ IH]; intros tys Htys; [exact I|].
    destruct Hxs as [A B]. cbn [tys_of] in Htys. destruct (rbind_ok _ _ _ Htys) as [tx [Htx Hr]].
    destruct (rbind_ok _ _ _ Hr) as [ts [Hts _]]. split; [apply (Hx tx Htx A)|apply (IH B ts Hts)].
Qed.

(* [T2] decode_enc: decoding the encoding of a well-formed, well-typed (B, V or K) miniscript
   returns its decoder normal form, which has the same script and the same type — provided the
   decoder's own limits hold on that normal form (the depth-402 finding shows this cannot be
   dropped) and the keys decode back to their indices. *)
Theorem decode_enc e m t :
  ksort_ok (d_ke e) -> ms_wf (d_ctx e) (d_ke e) m ->
  type_of m = ROk t -> c_base (t_corr t) <> BW ->
  lim_ok e (nf (d_ke e) m) -> gv (d_ctx e) (d_ke e) (nf (d_ke e) m) = None ->
  decode_max e (encode (d_ke e) m) = OOk (nf (d_ke e) m) /\
  enc (d_ke e) (nf (d_ke e) m) = enc (d_ke e) m /\
  encode (d_ke e) (nf (d_ke e) m) = encode (d_ke e) m /\
  type_of (nf (d_ke e) m) = ROk t.
Proof.
  intros Hs Hwf Ht Hb Hlim Hgv.
  pose proof (type_nf (d_ke e) m t Ht) as Htn.
  pose proof (enc_nf (d_ke e) Hs m) as Hen.
  split; [|split; [exact Hen|split; [unfold encode; rewrite Hen; reflexivity|exact Htn]]].
  unfold decode_max. rewrite (lex_enc (d_ctx e) (d_ke e) Hs m Hwf). rewrite <- (nf_toks (d_ke e) Hs m).
  rewrite (parse_dnf e (nf (d_ke e) m)).
  - rewrite Hgv, Htn. reflexivity.
  - apply (dnf_nf (d_ke e) m t); [apply (wf_tne _ _ _ Hwf)|exact Ht|exact Hb].
  - apply (dec_ok_of_lim e _ t Htn Hlim).
Qed.

(* decode_canonical restricted to the image of the encoder: whatever the decoder returns on an
   encoding re-encodes to exactly those bytes *)
Theorem decode_canonical_on_encodings e m' t :
  ksort_ok (d_ke e) -> ms_wf (d_ctx e) (d_ke e) m' ->
  type_of m' = ROk t -> c_base (t_corr t) <> BW ->
  lim_ok e (nf (d_ke e) m') -> gv (d_ctx e) (d_ke e) (nf (d_ke e) m') = None ->
  forall m, decode_max e (encode (d_ke e) m') = OOk m -> encode (d_ke e) m = encode (d_ke e) m'.
Proof.
  intros Hs Hwf Ht Hb Hl Hg m Hd.
  destruct (decode_enc e m' t Hs Hwf Ht Hb Hl Hg) as [Hdec [_ [Henc _]]].
  rewrite Hdec in Hd. injection Hd as <-. exact Henc.
Qed.
