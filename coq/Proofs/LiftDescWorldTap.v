(* C07 at descriptor level: the equivalence for a world, P2TR script path through ONE leaf with a given
   control block (the BIP341 commitment is the oracle commit_ok, as in C01_tr_* / C15):
     tr_leaf_spending_condition            verify_tr
     tr_leaf_dispatch_spending_condition   verify_spend on the P2TR scriptPubKey *)
From Verif Require Import Exec Ser Spend Ast Types TypeCheck SatSpec Sat LiftModel LiftLimits TheoremA SatProofs FrameDissat
  CompleteProofs CompleteThresh CompleteNonMall CompleteScript DenotSpec DenotMain DenotTable
  LiftProofs LiftNormProofs LiftMainProofs LiftFullProofs.
From Verif Require Import CodecSpec SerProofs EncProofs DescSpendModel DescSpendPush DescSpendProofs NonMallUniqueStatic
  LiftDescWsh LiftDescWorld LiftDescTypes.
From Verif Require CodecExt ExtModel ExtProofs ExtCodec.
From Coq Require Import Lia Permutation.
Local Open Scope N_scope.

(* an asset set seen through the satisfier's interface, tapscript constants (32-byte keys pushed as
   33 bytes, 64-byte Schnorr signatures) *)
Definition se_of_tap (B : assets) : senv :=
  mkSenv true (fun _ => 33)
         (fun k => match a_sig B k with Some _ => Some 64 | None => None end)
         (fun kd h => match look B kd h with Some _ => true | None => false end)
         (a_after B) (a_older B).

Lemma linked_of_tap ke B : linked ke B (se_of_tap B) (f_of ke B).
Proof.
  constructor; cbn; try reflexivity.
  - intros k. destruct (a_sig B k); split; congruence.
  - intros kd h. destruct (look B kd h); split; congruence.
Qed.
Lemma clip_locks_compatible_tap e ke W : locks_compatible (se_of_tap (clip_locks (assets_of e ke W))).
Proof. exact (clip_locks_compatible e ke W). Qed.
Lemma senv_ok_se_of_tap ke B : ExtProofs.senv_ok (ExtCodec.xctx_of Tap ke) (se_of_tap B).
Proof.
  unfold ExtProofs.senv_ok, ExtCodec.xctx_of. cbn [se_of_tap se_tap se_pklen se_sig ExtModel.xc_schnorr ExtModel.xc_unc is_tap].
  split; [reflexivity|]. split; [intros k; lia|]. intros k sz _ H. destruct (a_sig B k); inversion H. lia.
Qed.
Lemma thresh_fit_se_of_tap ke B rhs m : N.of_nat (max_elems ke m) < 2 ^ 55 -> thresh_fit ke (se_of_tap B) rhs m.
Proof.
  apply fit_of_bound; cbn [se_of_tap se_pklen se_sig].
  - intros _. lia.
  - intros k sz H. destruct (a_sig B k); inversion H. lia.
Qed.

Section WorldTap.
  Variable e : env.
  Variable ke : keyenv.
  Hypothesis Hks : ksort_ok ke.
  Hypothesis Hse : forall kbs, e_sigok e kbs [] = false.
  Notation et := (with_sv e SvTapscript).

  Definition tr_world_ok (W : wit) (m : ms) : Prop :=
    FrameDissat.keys_ok et ke /\ (forall k, blen (kb ke k) <= 520) /\
    (forall x, In x W -> blen x <= 520) /\ pub_in ke m W /\ kh_binds et ke W /\
    (exists t, type_of m = ROk t /\ c_base (t_corr t) = BB) /\ wf et ke m /\ ms_wf Tap ke m /\
    ExtCodec.ctx_frag_ok Tap m = true /\ N.of_nat (max_elems ke m) < 2 ^ 55.

  Variables (W : wit) (unc : key -> bool) (m : ms) (p : lpolicy).
  Hypothesis Hok : tr_world_ok W m.
  Hypothesis Hu : unc_agrees ke unc.
  Hypothesis Hl : lift_ctx Tap unc m = LOk p.
  Variable commit_ok : bytes -> bytes -> bool.
  Variables outkey cb : bytes.
  Hypothesis Hc : commit_ok (encode ke m) cb = true.
  Hypothesis Hna : not_annex cb.
  (* the control block commits to this leaf only (binding of the commitment, on this control block) *)
  Hypothesis Hbind : forall sb', commit_ok sb' cb = true -> sb' = encode ke m.

  Lemma tr_world_view (Q : list bytes -> Prop) :
    (forall (A : assets) (se : senv) (f : fill) (t : ty),
       linked ke A se f -> locks_compatible se -> type_of m = ROk t -> c_base (t_corr t) = BB ->
       assets_ok et ke A -> wf et ke m -> ms_wf Tap ke m -> ExtCodec.ctx_frag_ok Tap m = true ->
       ExtProofs.senv_ok (ExtCodec.xctx_of Tap ke) se -> thresh_fit ke se true m -> small_material ke A 520 ->
       leval A p = true ->
       exists bs, satisfy ke se f true true m = Some bs /\ Q bs) ->
    leval (assets_of et ke W) p = true -> exists bs, incl bs W /\ Q bs.
  Proof.
    intros K Hev.
    destruct Hok as (HK & Hkb & Hlen & Hpub & Hkh & (t & Ht & Hbb) & Hwf & Hmw & Hfr & Hme).
    assert (Hlen' : forall x, In x W -> (blen x < 2147483648)%N) by (intros x Hx; specialize (Hlen x Hx); lia).
    pose proof (assets_of_ok et ke W HK Hlen') as HA.
    pose proof Hl as Hl'. unfold lift_ctx in Hl'. apply lift_iter_some in Hl'.
    set (A := clip_locks (assets_of et ke W)).
    assert (Hev' : leval A p = true) by (unfold A; rewrite (leval_clip et ke Hks _ _ m t p Ht Hwf Hl'); exact Hev).
    assert (Hsm : small_material ke A 520).
    { split; [exact Hkb|]. intros k s Hf. apply Hlen. cbn [A clip_locks assets_of a_sig] in Hf. exact (find_in _ _ _ Hf). }
    destruct (K A (se_of_tap A) (f_of ke A) t (linked_of_tap ke A) (clip_locks_compatible_tap et ke W) Ht Hbb (clip_assets_ok et ke _ HA)
                Hwf Hmw Hfr (senv_ok_se_of_tap ke A) (thresh_fit_se_of_tap ke A true m Hme) Hsm Hev') as [bs [Hsat HQ]].
    exists bs. split; [|exact HQ].
    exact (satisfy_over_world et ke W A (se_of_tap A) (f_of ke A) (linked_of_tap ke A) (ksort_ok_len ke Hks)
             (material_in_world et ke W) true true m bs Hwf Hpub Hsat).
  Qed.

  Theorem tr_leaf_spending_condition :
    (leval (assets_of et ke W) p = true <->
     exists items sb', incl items W /\ verify_tr e outkey commit_ok [] (items ++ [sb'; cb]) = true).
  Proof.
    split.
    - intros Hev.
      destruct (tr_world_view (fun bs => verify_tr e outkey commit_ok [] (bs ++ [encode ke m; cb]) = true)) as [bs [Hin Hv]]; [|exact Hev|].
      + intros A se f t HL HC Ht Hbb HA Hwf Hmw Hfr Hsenv Hfit Hsm Hev'.
        exact (tr_invents_no_path e ke Hks Hse A se f HL HC unc true m t p Ht Hbb HA Hwf Hmw Hfr Hu Hsenv Hfit Hsm Hl Hev' commit_ok outkey cb Hc Hna).
      + exists bs, (encode ke m). split; assumption.
    - intros (items & sb' & Hin & Hv).
      destruct Hok as (_ & _ & _ & _ & Hkh & (t & Ht & Hbb) & Hwf & Hmw & _ & _).
      pose proof Hl as Hl'. unfold lift_ctx in Hl'. apply lift_iter_some in Hl'.
      exact (tr_hides_no_path e ke Hks Hse W _ m t p Ht Hbb Hl' commit_ok outkey Hkh Hwf Hmw [] items sb' cb (Hbind sb') Hin Hv).
  Qed.

  Theorem tr_leaf_dispatch_spending_condition :
    blen outkey = 32 ->
    (leval (assets_of et ke W) p = true <->
     exists items sb', incl items W /\ verify_spend e commit_ok (spk_tr outkey) [] (items ++ [sb'; cb]) = true).
  Proof.
    intros H32. split.
    - intros Hev.
      destruct (tr_world_view (fun bs => verify_spend e commit_ok (spk_tr outkey) [] (bs ++ [encode ke m; cb]) = true)) as [bs [Hin Hv]]; [|exact Hev|].
      + intros A se f t HL HC Ht Hbb HA Hwf Hmw Hfr Hsenv Hfit Hsm Hev'.
        exact (tr_dispatch_invents e ke Hks Hse A se f HL HC unc true m t p Ht Hbb HA Hwf Hmw Hfr Hu Hsenv Hfit Hsm Hl Hev' commit_ok outkey cb H32 Hc Hna).
      + exists bs, (encode ke m). split; assumption.
    - intros (items & sb' & Hin & Hv).
      destruct Hok as (_ & _ & _ & _ & Hkh & (t & Ht & Hbb) & Hwf & Hmw & _ & _).
      pose proof Hl as Hl'. unfold lift_ctx in Hl'. apply lift_iter_some in Hl'.
      exact (tr_dispatch_hides e ke Hks Hse W _ m t p Ht Hbb Hl' commit_ok outkey Hkh Hwf Hmw H32 [] items sb' cb (Hbind sb') Hin Hv).
  Qed.
End WorldTap.
