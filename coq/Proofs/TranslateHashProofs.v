(* C20 (extension) — proofs about Miniscript::translate_pk_ctx with hash translation (Ms/TranslateHashModel.v). *)
From Coq Require Import Lia Permutation.
From Verif Require Import TranslateHashModel TranslateProofs TheoremA EqOrdProofs.

Section HRefinement.
  Variable f : N -> key -> option key.
  Variable fh : N -> hkind -> bytes -> option bytes.
  Variable chk : ms -> option cerr.

  Notation trec := (translate_rec_h f fh chk).
  Notation steps := (run_steps_h f fh chk).

  Lemma run_steps_h_app st l1 l2 : steps st (l1 ++ l2) = tbind (steps st l1) (fun st' => steps st' l2).
  Proof.
    revert st. induction l1 as [|x r IH]; intro st; cbn; [reflexivity|].
    destruct (step_h f fh chk st x); cbn; [apply IH | reflexivity | reflexivity].
  Qed.

  Fixpoint trec_list_h (n : N) (l : list ms) : tres (list ms * N) :=
    match l with
    | [] => TOk ([], n)
    | x :: r => tbind (trec_list_h n r) (fun q => tbind (trec (snd q) x) (fun p => TOk (fst p :: fst q, snd p)))
    end.

  Lemma trec_h_thresh n k xs :
    trec n (MThresh k xs) = tbind (trec_list_h n xs) (fun p => finish chk (MThresh k (fst p)) (snd p)).
  Proof.
    cbn. f_equal. induction xs as [|x r IH]; cbn; [reflexivity | rewrite IH; reflexivity].
  Qed.

  Lemma trec_list_h_length : forall l n l' n', trec_list_h n l = TOk (l', n') -> length l' = length l.
  Proof.
    induction l as [|x r IH]; cbn; intros n l' n' H.
    - injection H as <- _. reflexivity.
    - destruct (trec_list_h n r) as [[r' n1]| |] eqn:E; cbn in H; try discriminate.
      destruct (trec n1 x) as [[x' n2]| |]; cbn in H; try discriminate.
      injection H as <- _. cbn. f_equal. apply (IH _ _ _ E).
  Qed.

  Lemma run_steps_h_refines : forall m stk n,
    steps (stk, n) (rtl_post m) = tbind (trec n m) (fun p => TOk (fst p :: stk, snd p)).
  Proof.
    induction m using ms_ind'; intros stk n.
    (* leaves without keys or hashes *)
    1-2, 5-7: (cbn; (unfold finish; destruct (chk _); reflexivity)).
    (* pk_k, pk_h *)
    1-2: (cbn; destruct (f n k); [(unfold finish; destruct (chk _); reflexivity) | reflexivity]).
    (* the four hash fragments *)
    1-4: (cbn; unfold hleaf; destruct (fh n _ h); [(unfold finish; destruct (chk _); reflexivity) | reflexivity]).
    (* unary *)
    1-7: (cbn [rtl_post]; rewrite run_steps_h_app, IHm; cbn [translate_rec_h];
          destruct (trec n m) as [[x' n1]| |]; cbn; [(unfold finish; destruct (chk _); reflexivity) | reflexivity | reflexivity]).
    (* and_v and_b *)
    1-2: (cbn [rtl_post]; rewrite !run_steps_h_app, IHm2; cbn [translate_rec_h];
          destruct (trec n m2) as [[y' n1]| |]; cbn; [|reflexivity|reflexivity];
          rewrite IHm1; destruct (trec n1 m1) as [[x' n2]| |]; cbn; [(unfold finish; destruct (chk _); reflexivity) | reflexivity | reflexivity]).
    (* andor *)
    1: (cbn [rtl_post]; rewrite <- !app_assoc; rewrite run_steps_h_app, IHm3; cbn [translate_rec_h];
        destruct (trec n m3) as [[c' n1]| |]; cbn; [|reflexivity|reflexivity];
        rewrite run_steps_h_app, IHm2; destruct (trec n1 m2) as [[b' n2]| |]; cbn; [|reflexivity|reflexivity];
        rewrite run_steps_h_app, IHm1; destruct (trec n2 m1) as [[a' n3]| |]; cbn;
        [(unfold finish; destruct (chk _); reflexivity) | reflexivity | reflexivity]).
    (* or_b or_d or_c or_i *)
    1-4: (cbn [rtl_post]; rewrite !run_steps_h_app, IHm2; cbn [translate_rec_h];
          destruct (trec n m2) as [[y' n1]| |]; cbn; [|reflexivity|reflexivity];
          rewrite IHm1; destruct (trec n1 m1) as [[x' n2]| |]; cbn; [(unfold finish; destruct (chk _); reflexivity) | reflexivity | reflexivity]).
    (* thresh *)
    1: { rewrite rtl_post_thresh, run_steps_h_app, trec_h_thresh.
      assert (G : forall stk n, steps (stk, n) (fold_right (fun x acc => acc ++ rtl_post x) [] xs)
                                = tbind (trec_list_h n xs) (fun q => TOk (fst q ++ stk, snd q))).
      { clear stk n. induction H as [|x r Hx Hr IH]; intros stk n; cbn; [reflexivity|].
        rewrite run_steps_h_app, IH. destruct (trec_list_h n r) as [[r' n1]| |]; cbn; [|reflexivity|reflexivity].
        rewrite Hx. destruct (trec n1 x) as [[x' n2]| |]; reflexivity. }
      rewrite G. destruct (trec_list_h n xs) as [[l' n1]| |] eqn:E; cbn; [|reflexivity|reflexivity].
      rewrite <- (trec_list_h_length _ _ _ _ E), popn_app. cbn. (unfold finish; destruct (chk _); reflexivity). }
    (* multi forms *)
    1-4: (cbn; destruct (tr_keys f n ks) as [[ks' n1]| |]; cbn; [(unfold finish; destruct (chk _); reflexivity) | reflexivity | reflexivity]).
  Qed.

  Theorem translate_iter_h_refines m : translate_iter_h f fh chk m = translate_h f fh chk m.
  Proof.
    unfold translate_iter_h, translate_h. rewrite run_steps_h_refines.
    destruct (trec 0 m) as [[m' n']| |]; reflexivity.
  Qed.

  Lemma trec_h_no_panic : forall m n s, trec n m <> TPanic s.
  Proof.
    assert (F : forall t n s, finish chk t n <> TPanic s) by (intros; unfold finish; destruct (chk t); discriminate).
    induction m using ms_ind'; intros n s; cbn [translate_rec_h]; try apply F.
    1-2: (destruct (f n k); [apply F | discriminate]).
    1-4: (unfold hleaf; destruct (fh n _ h); [apply F | discriminate]).
    1-7: (specialize (IHm n s); destruct (trec n m) as [[? ?]| |]; cbn; [apply F | discriminate | congruence]).
    1-2: (specialize (IHm2 n s); destruct (trec n m2) as [[? n1]| |]; cbn; [|discriminate|congruence];
          specialize (IHm1 n1 s); destruct (trec n1 m1) as [[? ?]| |]; cbn; [apply F | discriminate | congruence]).
    1: (specialize (IHm3 n s); destruct (trec n m3) as [[? n1]| |]; cbn; [|discriminate|congruence];
        specialize (IHm2 n1 s); destruct (trec n1 m2) as [[? n2]| |]; cbn; [|discriminate|congruence];
        specialize (IHm1 n2 s); destruct (trec n2 m1) as [[? ?]| |]; cbn; [apply F | discriminate | congruence]).
    1-4: (specialize (IHm2 n s); destruct (trec n m2) as [[? n1]| |]; cbn; [|discriminate|congruence];
          specialize (IHm1 n1 s); destruct (trec n1 m1) as [[? ?]| |]; cbn; [apply F | discriminate | congruence]).
    1: { fold (translate_rec_h f fh chk). change (trec n (MThresh k xs) <> TPanic s). rewrite trec_h_thresh.
      assert (G : trec_list_h n xs <> TPanic s).
      { induction H as [|x r Hx Hr IH]; cbn; [discriminate|].
        destruct (trec_list_h n r) as [[? n1]| |]; cbn; [|discriminate|congruence].
        specialize (Hx n1 s). destruct (trec n1 x) as [[? ?]| |]; cbn; [discriminate | discriminate | congruence]. }
      destruct (trec_list_h n xs) as [[? ?]| |]; cbn; [apply F | discriminate | congruence]. }
    1-4: (pose proof (tr_keys_no_panic f ks n s); destruct (tr_keys f n ks) as [[? ?]| |]; cbn; [apply F | discriminate | congruence]).
  Qed.

  Theorem translate_iter_h_no_panic m s : translate_iter_h f fh chk m <> TPanic s.
  Proof.
    rewrite translate_iter_h_refines. unfold translate_h. pose proof (trec_h_no_panic m 0%N s).
    destruct (trec 0 m) as [[? ?]| |]; cbn; congruence.
  Qed.
End HRefinement.

(* ------------------------------------------------------------------ pure translators: success is the substitution *)
Lemma matoms_rtl_thresh k xs : matoms_rtl (MThresh k xs) = fold_right (fun x acc => acc ++ matoms_rtl x) [] xs.
Proof. reflexivity. Qed.

Section HPure.
  Variable fp : key -> option key.
  Variable fhp : hkind -> bytes -> option bytes.
  Variable chk : ms -> option cerr.

  Notation trec := (translate_rec_h (fun _ => fp) (fun _ => fhp) chk).
  Notation tlist := (trec_list_h (fun _ => fp) (fun _ => fhp) chk).
  Notation sub := (map_atoms (total fp) (total_h fhp)).
  Definition amapped (l : list atom) : Prop := Forall (fun a => atom_ok fp fhp a = true) l.

  Lemma mapped_amapped ks : mapped fp ks -> amapped (map AKey ks).
  Proof.
    unfold mapped, amapped. induction 1 as [|k r Hk Hr IH]; cbn; constructor; [|exact IH].
    cbn. destruct (fp k); [reflexivity | congruence].
  Qed.

  Ltac split_tb H :=
    repeat match type of H with
           | tbind (translate_rec_h _ _ _ ?n ?x) _ = _ =>
             let E := fresh "E" in destruct (translate_rec_h (fun _ => fp) (fun _ => fhp) chk n x) as [[? ?]| |] eqn:E;
                                   cbn [tbind fst snd] in H; try discriminate H
           end.

  Lemma tlist_h_ok_inv xs :
    Forall (fun m => forall n m' n', trec n m = TOk (m', n') ->
                     m' = sub m /\ amapped (matoms_rtl m) /\ chk_ok chk m') xs ->
    forall n l' n', tlist n xs = TOk (l', n') ->
      l' = map sub xs /\ amapped (fold_right (fun x acc => acc ++ matoms_rtl x) [] xs)
      /\ Forall (fun s => chk s = None) (flat_map subterms l').
  Proof.
    induction 1 as [|x r Hx Hr IH]; intros n l' n' E; cbn in E.
    - injection E as <- _. repeat split; constructor.
    - destruct (tlist n r) as [[r' n2]| |] eqn:E2; cbn [tbind fst snd] in E; try discriminate.
      destruct (trec n2 x) as [[x' n3]| |] eqn:E3; cbn [tbind fst snd] in E; try discriminate.
      injection E as <- _. destruct (IH _ _ _ E2) as [-> [Hm Hk]]. destruct (Hx _ _ _ E3) as [-> [Hmx Hkx]].
      split; [reflexivity|]. split; [apply Forall_app; split; assumption | cbn; apply Forall_app; split; assumption].
  Qed.

  Lemma trec_h_ok_inv : forall m n m' n', trec n m = TOk (m', n') ->
    m' = sub m /\ amapped (matoms_rtl m) /\ chk_ok chk m'.
  Proof.
    induction m using ms_ind'; intros n m' n' HH; cbn [translate_rec_h] in HH.
    1-2, 5-7: (apply finish_inv in HH; destruct HH as [-> Hc]; repeat split; [constructor | constructor; [exact Hc | constructor]]).
    1-2: (destruct (fp k) as [k'|] eqn:E; [|discriminate]; apply finish_inv in HH; destruct HH as [-> Hc];
          cbn; rewrite (total_some _ _ _ E); repeat split;
          [constructor; [cbn; rewrite E; reflexivity | constructor] | constructor; [exact Hc | constructor]]).
    1-4: (unfold hleaf in HH; match type of HH with match fhp ?hk ?hh with _ => _ end = _ => destruct (fhp hk hh) as [h1|] eqn:E end;
          [|discriminate]; apply finish_inv in HH; destruct HH as [-> Hc];
          cbn; unfold total_h; rewrite E; repeat split;
          [constructor; [cbn; rewrite E; reflexivity | constructor] | constructor; [exact Hc | constructor]]).
    1-7: (split_tb HH; apply finish_inv in HH; destruct HH as [-> Hc];
          destruct (IHm _ _ _ E) as [-> [Hm Hk]]; repeat split; [exact Hm | constructor; [exact Hc | exact Hk]]).
    1-2: (split_tb HH; apply finish_inv in HH; destruct HH as [-> Hc];
          destruct (IHm2 _ _ _ E) as [-> [Hm2 Hk2]]; destruct (IHm1 _ _ _ E0) as [-> [Hm1 Hk1]]; repeat split;
          [apply Forall_app; split; assumption | constructor; [exact Hc | apply Forall_app; split; assumption]]).
    1: (split_tb HH; apply finish_inv in HH; destruct HH as [-> Hc];
        destruct (IHm3 _ _ _ E) as [-> [Hm3 Hk3]]; destruct (IHm2 _ _ _ E0) as [-> [Hm2 Hk2]];
        destruct (IHm1 _ _ _ E1) as [-> [Hm1 Hk1]]; repeat split;
        [repeat (apply Forall_app; split); assumption
        | constructor; [exact Hc | repeat (apply Forall_app; split); assumption]]).
    1-4: (split_tb HH; apply finish_inv in HH; destruct HH as [-> Hc];
          destruct (IHm2 _ _ _ E) as [-> [Hm2 Hk2]]; destruct (IHm1 _ _ _ E0) as [-> [Hm1 Hk1]]; repeat split;
          [apply Forall_app; split; assumption | constructor; [exact Hc | apply Forall_app; split; assumption]]).
    1: { change (trec n (MThresh k xs) = TOk (m', n')) in HH. rewrite trec_h_thresh in HH.
         destruct (tlist n xs) as [[l' n1]| |] eqn:E; cbn [tbind fst snd] in HH; try discriminate.
         apply finish_inv in HH. destruct HH as [-> Hc].
         destruct (tlist_h_ok_inv xs H _ _ _ E) as [-> [Hm Hk]].
         split; [reflexivity|]. split; [rewrite matoms_rtl_thresh; exact Hm|]. unfold chk_ok. rewrite subterms_thresh.
         constructor; [exact Hc | exact Hk]. }
    1-4: (destruct (tr_keys (fun _ => fp) n ks) as [[ks' n1]| |] eqn:E; cbn [tbind fst snd] in HH; try discriminate;
          apply finish_inv in HH; destruct HH as [-> Hc]; destruct (tr_keys_inv _ _ _ _ _ E) as [-> Hm];
          repeat split; [apply mapped_amapped; exact Hm | constructor; [exact Hc | constructor]]).
  Qed.
End HPure.

Lemma matoms_perm m : Permutation (matoms_rtl m) (matoms_pre m).
Proof.
  induction m using ms_ind'; cbn [matoms_rtl matoms_pre]; try reflexivity; try assumption.
  1-2: (etransitivity; [apply Permutation_app_comm|]; apply Permutation_app; assumption).
  1: (rewrite (app_assoc (matoms_pre m1)); etransitivity; [apply Permutation_app_comm|]; apply Permutation_app; [|assumption];
      etransitivity; [apply Permutation_app_comm|]; apply Permutation_app; assumption).
  1-4: (etransitivity; [apply Permutation_app_comm|]; apply Permutation_app; assumption).
  - induction H as [|x r Hx Hr IH]; [constructor|].
    etransitivity; [apply Permutation_app_comm|]. apply Permutation_app; assumption.
Qed.

(* success of the algorithm as coded: the result is the original with keys and hashes substituted, every key and hash
   of the term (text order) is mapped, every rebuilt node passed from_ast *)
Theorem iter_h_structure fp fhp chk m m' :
  translate_iter_h (fun _ => fp) (fun _ => fhp) chk m = TOk m' ->
  m' = map_atoms (total fp) (total_h fhp) m /\
  (forall a, In a (matoms_pre m) -> atom_ok fp fhp a = true) /\ chk_ok chk m'.
Proof.
  rewrite translate_iter_h_refines. unfold translate_h.
  destruct (translate_rec_h (fun _ => fp) (fun _ => fhp) chk 0 m) as [[x n]| |] eqn:E; cbn; try discriminate.
  intro H. injection H as <-. destruct (trec_h_ok_inv _ _ _ _ _ _ _ E) as [-> [Hm Hc]]. split; [reflexivity|]. split; [|exact Hc].
  intros a Ha. unfold amapped in Hm. rewrite Forall_forall in Hm. apply Hm.
  apply (Permutation_in a (Permutation_sym (matoms_perm m))). exact Ha.
Qed.

Local Open Scope N_scope.
Lemma translate_h_examples :
  let m := MAndV (MVerify (MSha256 [1; 2])) (MAndOr (MCheck (MPkK 0)) (MHash160 [9]) (MCheck (MPkH 2))) in
  let chk := from_ast_chk Segwitv0 (fun _ => KCompressed) (fun _ => None) (fun _ => None) in
  translate_iter_h (fun _ k => Some (k + 20)) (fun _ _ h => Some (7 :: h)) chk m
    = TOk (MAndV (MVerify (MSha256 [7; 1; 2])) (MAndOr (MCheck (MPkK 20)) (MHash160 [7; 9]) (MCheck (MPkH 22)))) /\
  translate_iter_h (fun _ k => Some k) (fun _ hk h => match hk with HSha256 => None | _ => Some h end) chk m = TErr (TranslatorErr 3) /\
  translate_iter_h (fun _ k => Some k) (fun n _ h => if N.eqb n 1 then None else Some h) chk m = TErr (TranslatorErr 1) /\
  matoms_rtl m = [AKey 2; AHash HHash160 [9]; AKey 0; AHash HSha256 [1; 2]].
Proof. vm_compute. repeat split; reflexivity. Qed.

(* ------------------------------------------------------------------ completeness, identity, failure *)
Section HComplete.
  Variable fp : key -> option key.
  Variable fhp : hkind -> bytes -> option bytes.
  Variable chk : ms -> option cerr.

  Notation trec := (translate_rec_h (fun _ => fp) (fun _ => fhp) chk).
  Notation tlist := (trec_list_h (fun _ => fp) (fun _ => fhp) chk).
  Notation sub := (map_atoms (total fp) (total_h fhp)).
  Notation amapped := (amapped fp fhp).

  Lemma amapped_mapped ks : amapped (map AKey ks) -> mapped fp ks.
  Proof.
    unfold mapped, TranslateHashProofs.amapped. induction ks as [|k r IH]; cbn; intro H; constructor; inversion H; subst.
    - cbn in H2. destruct (fp k); [discriminate | discriminate].
    - apply IH. assumption.
  Qed.

  Lemma tlist_h_complete xs :
    Forall (fun m => forall n, amapped (matoms_rtl m) -> chk_ok chk (sub m) -> exists n', trec n m = TOk (sub m, n')) xs ->
    forall n, amapped (fold_right (fun x acc => acc ++ matoms_rtl x) [] xs) ->
              Forall (fun s => chk s = None) (flat_map subterms (map sub xs)) ->
              exists n', tlist n xs = TOk (map sub xs, n').
  Proof.
    induction 1 as [|x r Hx Hr IH]; intros n Hm Hk; cbn; [eexists; reflexivity|].
    cbn in Hm, Hk. apply Forall_app in Hm. destruct Hm as [Hmr Hmx]. apply Forall_app in Hk. destruct Hk as [Hkx Hkr].
    destruct (IH n Hmr Hkr) as [n1 ->]. cbn. destruct (Hx n1 Hmx Hkx) as [n2 ->]. cbn. eexists; reflexivity.
  Qed.

  Lemma trec_h_complete : forall m n, amapped (matoms_rtl m) -> chk_ok chk (sub m) -> exists n', trec n m = TOk (sub m, n').
  Proof.
    induction m using ms_ind'; intros n Hm Hk; cbn [translate_rec_h map_atoms]; pose proof (chk_ok_head _ _ Hk) as Hc;
      cbn [map_atoms] in Hc, Hk; unfold chk_ok in Hk; cbn [subterms] in Hk; inversion Hk as [|? ? _ Hk']; subst; clear Hk.
    1-2, 5-7: (rewrite finish_ok by exact Hc; eexists; reflexivity).
    1-2: (inversion Hm as [|? ? Ha _]; subst; cbn in Ha; destruct (fp k) as [k'|] eqn:E; [|discriminate]; rewrite (total_some _ _ _ E) in *;
          rewrite finish_ok by exact Hc; eexists; reflexivity).
    1-4: (inversion Hm as [|? ? Ha _]; subst; cbn in Ha; unfold hleaf, total_h in *;
          match type of Ha with match fhp ?hk ?hh with _ => _ end = _ => destruct (fhp hk hh) as [h1|] eqn:E end; [|discriminate];
          rewrite finish_ok by exact Hc; eexists; reflexivity).
    1-7: (destruct (IHm n Hm Hk') as [n1 ->]; cbn; rewrite finish_ok by exact Hc; eexists; reflexivity).
    1-2: (cbn [matoms_rtl] in Hm; apply Forall_app in Hm; destruct Hm as [Hm2 Hm1]; apply Forall_app in Hk'; destruct Hk' as [Hk1 Hk2];
          destruct (IHm2 n Hm2 Hk2) as [n1 ->]; cbn; destruct (IHm1 n1 Hm1 Hk1) as [n2 ->]; cbn;
          rewrite finish_ok by exact Hc; eexists; reflexivity).
    1: (cbn [matoms_rtl] in Hm; apply Forall_app in Hm; destruct Hm as [Hm3 Hm]; apply Forall_app in Hm; destruct Hm as [Hm2 Hm1];
        apply Forall_app in Hk'; destruct Hk' as [Hk1 Hk']; apply Forall_app in Hk'; destruct Hk' as [Hk2 Hk3];
        destruct (IHm3 n Hm3 Hk3) as [n1 ->]; cbn; destruct (IHm2 n1 Hm2 Hk2) as [n2 ->]; cbn;
        destruct (IHm1 n2 Hm1 Hk1) as [n3 ->]; cbn; rewrite finish_ok by exact Hc; eexists; reflexivity).
    1-4: (cbn [matoms_rtl] in Hm; apply Forall_app in Hm; destruct Hm as [Hm2 Hm1]; apply Forall_app in Hk'; destruct Hk' as [Hk1 Hk2];
          destruct (IHm2 n Hm2 Hk2) as [n1 ->]; cbn; destruct (IHm1 n1 Hm1 Hk1) as [n2 ->]; cbn;
          rewrite finish_ok by exact Hc; eexists; reflexivity).
    1: { change (exists n', trec n (MThresh k xs) = TOk (MThresh k (map sub xs), n')).
         rewrite trec_h_thresh. rewrite matoms_rtl_thresh in Hm. destruct (tlist_h_complete xs H n Hm Hk') as [n1 ->]. cbn.
         rewrite finish_ok by exact Hc. eexists; reflexivity. }
    1-4: (cbn [matoms_rtl] in Hm; destruct (tr_keys_complete fp ks n (amapped_mapped _ Hm)) as [n1 ->]; cbn;
          rewrite finish_ok by exact Hc; eexists; reflexivity).
  Qed.
End HComplete.

Theorem iter_h_complete fp fhp chk m :
  (forall a, In a (matoms_pre m) -> atom_ok fp fhp a = true) -> chk_ok chk (map_atoms (total fp) (total_h fhp) m) ->
  translate_iter_h (fun _ => fp) (fun _ => fhp) chk m = TOk (map_atoms (total fp) (total_h fhp) m).
Proof.
  intros Hm Hk. rewrite translate_iter_h_refines. unfold translate_h.
  destruct (trec_h_complete fp fhp chk m 0%N) as [n' ->]; [|exact Hk|reflexivity].
  unfold amapped. rewrite Forall_forall. intros a Ha. apply Hm. apply (Permutation_in a (matoms_perm m)). exact Ha.
Qed.

Lemma map_atoms_id g gh m : (forall k, g k = k) -> (forall hk h, gh hk h = h) -> map_atoms g gh m = m.
Proof.
  intros Hg Hh. assert (L : forall ks, map g ks = ks) by (induction ks as [|k r IH]; cbn; [reflexivity | rewrite Hg, IH; reflexivity]).
  induction m using ms_ind'; cbn [map_atoms]; rewrite ?Hg, ?Hh, ?L; try congruence.
  f_equal. induction H as [|x r Hx Hr IH]; cbn; [reflexivity | rewrite Hx, IH; reflexivity].
Qed.

Theorem iter_h_id chk m : chk_ok chk m -> translate_iter_h (fun _ k => Some k) (fun _ _ h => Some h) chk m = TOk m.
Proof.
  intro Hk.
  assert (E : map_atoms (total (fun k => Some k)) (total_h (fun _ h => Some h)) m = m) by (apply map_atoms_id; reflexivity).
  rewrite <- E at 2. apply iter_h_complete; [|rewrite E; exact Hk]. intros [k|hk h] _; reflexivity.
Qed.

(* a translation fails only if the mapping fails on a key or hash that occurs in the term, or from_ast rejects a node of the
   substituted term *)
Theorem iter_h_fail_only fp fhp chk m e :
  translate_iter_h (fun _ => fp) (fun _ => fhp) chk m = TErr e ->
  (exists a, In a (matoms_pre m) /\ atom_ok fp fhp a = false) \/
  ((forall a, In a (matoms_pre m) -> atom_ok fp fhp a = true) /\ ~ chk_ok chk (map_atoms (total fp) (total_h fhp) m)).
Proof.
  intro E. destruct (forallb (atom_ok fp fhp) (matoms_pre m)) eqn:F.
  - right. rewrite forallb_forall in F. split; [exact F|]. intro Hk. rewrite (iter_h_complete _ _ _ _ F Hk) in E. discriminate.
  - left. clear E. induction (matoms_pre m) as [|a r IH]; cbn in F; [discriminate|].
    destruct (atom_ok fp fhp a) eqn:A; cbn in F.
    + destruct (IH F) as [b [Hb Hf]]. exists b. split; [right; exact Hb | exact Hf].
    + exists a. split; [left; reflexivity | exact A].
Qed.

(* ------------------------------------------------------------------ composition *)
Lemma matoms_pre_map g gh m : matoms_pre (map_atoms g gh m) = map (amap g gh) (matoms_pre m).
Proof.
  induction m using ms_ind'; cbn [map_atoms matoms_pre map amap]; rewrite ?map_app, ?map_map; try congruence; try reflexivity.
  induction H as [|x r Hx Hr IH]; cbn; [reflexivity | rewrite map_app, Hx, IH; reflexivity].
Qed.

Lemma map_atoms_comp g gh g' gh' m :
  map_atoms g' gh' (map_atoms g gh m) = map_atoms (fun k => g' (g k)) (fun hk h => gh' hk (gh hk h)) m.
Proof.
  induction m using ms_ind'; cbn [map_atoms]; rewrite ?map_map; try congruence; try reflexivity.
  f_equal. induction H as [|x r Hx Hr IH]; cbn; [reflexivity | rewrite Hx, IH; reflexivity].
Qed.

Lemma map_atoms_ext g gh g' gh' m :
  (forall a, In a (matoms_pre m) -> amap g gh a = amap g' gh' a) -> map_atoms g gh m = map_atoms g' gh' m.
Proof.
  induction m using ms_ind'; intro Ha; cbn [map_atoms matoms_pre] in *; try reflexivity.
  1-2: (specialize (Ha _ (or_introl eq_refl)); cbn in Ha; congruence).
  1-4: (specialize (Ha _ (or_introl eq_refl)); cbn in Ha; congruence).
  1-7: (f_equal; apply IHm; exact Ha).
  1-2: (f_equal; [apply IHm1 | apply IHm2]; intros a Hin; apply Ha; apply in_or_app; auto).
  1: (f_equal; [apply IHm1 | apply IHm2 | apply IHm3]; intros a Hin; apply Ha; apply in_or_app; [left | right; apply in_or_app; left | right; apply in_or_app; right]; exact Hin).
  1-4: (f_equal; [apply IHm1 | apply IHm2]; intros a Hin; apply Ha; apply in_or_app; auto).
  1: { f_equal. induction H as [|x r Hx Hr IH]; cbn; [reflexivity|]. f_equal.
       - apply Hx. intros a Hin. apply Ha. apply in_or_app. auto.
       - apply IH. intros a Hin. apply Ha. apply in_or_app. auto. }
  1-4: (f_equal; apply map_ext_in; intros k0 Hk; specialize (Ha _ (in_map AKey _ _ Hk)); cbn in Ha; congruence).
Qed.

(* success by (fp, fhp) and then by (gp, ghp) is success by the composition, with the same result *)
Theorem iter_h_comp chk fp fhp gp ghp m m1 m2 :
  translate_iter_h (fun _ => fp) (fun _ => fhp) chk m = TOk m1 ->
  translate_iter_h (fun _ => gp) (fun _ => ghp) chk m1 = TOk m2 ->
  translate_iter_h (fun _ => comp_k fp gp) (fun _ => comp_h fhp ghp) chk m = TOk m2.
Proof.
  intros E1 E2. destruct (iter_h_structure _ _ _ _ _ E1) as [-> [O1 _]]. destruct (iter_h_structure _ _ _ _ _ E2) as [-> [O2 K2]].
  rewrite matoms_pre_map in O2.
  assert (S : map_atoms (total gp) (total_h ghp) (map_atoms (total fp) (total_h fhp) m)
              = map_atoms (total (comp_k fp gp)) (total_h (comp_h fhp ghp)) m).
  { rewrite map_atoms_comp. apply map_atoms_ext. intros a Ha. specialize (O1 a Ha). specialize (O2 _ (in_map _ _ _ Ha)).
    destruct a as [k|hk h]; cbn in *; unfold comp_k, comp_h, total, total_h in *.
    - destruct (fp k); [|discriminate]. destruct (gp k0); [reflexivity | discriminate].
    - destruct (fhp hk h); [|discriminate]. destruct (ghp hk b); [reflexivity | discriminate]. }
  rewrite S in *. apply iter_h_complete; [|exact K2].
  intros a Ha. specialize (O1 a Ha). specialize (O2 _ (in_map _ _ _ Ha)).
  destruct a as [k|hk h]; cbn in *; unfold comp_k, comp_h, total, total_h in *.
  - destruct (fp k); [|discriminate]. destruct (gp k0); [reflexivity | discriminate].
  - destruct (fhp hk h); [|discriminate]. destruct (ghp hk b); [reflexivity | discriminate].
Qed.
