(* C07 at descriptor level: worlds.

   The satisfier-side theorems (C07_policy_iff_satisfier, C01's spend theorems) speak about an asset
   record A seen through the satisfier's interface ([linked ke A se f], [locks_compatible se]); the
   Script-side theorems about a world W of stack elements and the record [assets_of e ke W] read off
   it.  The two do not meet directly: [assets_of] answers older(t) for EVERY t, and BIP112 accepts
   every operand with the disable bit (t >= 2^31) whatever its type bit, so no [se] linked with
   [assets_of e ke W] is [locks_compatible].  The lock values of a script are in 1 .. 2^31-1 ([wf]),
   so the record is CLIPPED to that range: [clip_locks].  The table of a well-formed script does not
   see the difference ([sd_clip]), the clipped record of a world is compatible
   ([clip_locks_compatible]) and [se_of] / [f_of] give the satisfier's view of it. *)
From Verif Require Import Exec Ser Spend Ast Types TypeCheck SatSpec Sat LiftModel LiftLimits TheoremA SatProofs FrameDissat
  CompleteProofs CompleteThresh CompleteNonMall CompleteScript DenotSpec DenotMain DenotTable
  LiftProofs LiftNormProofs LiftMainProofs LiftFullProofs.
From Verif Require Import CodecSpec SerProofs EncProofs DescSpendPush DescSpendProofs NonMallUniqueStatic LiftDescWsh.
From Verif Require CodecExt ExtModel ExtProofs ExtCodec.
From Coq Require Import Lia Permutation ZArith.
Local Open Scope N_scope.

Arguments N.add : simpl never. Arguments N.mul : simpl never. Arguments N.sub : simpl never.
Arguments N.leb : simpl never. Arguments N.ltb : simpl never. Arguments N.eqb : simpl never.
Arguments N.of_nat : simpl never. Arguments N.land : simpl never.

Definition clip_locks (A : assets) : assets :=
  mkAssets (a_sig A) (a_sha256 A) (a_hash256 A) (a_ripemd160 A) (a_hash160 A)
           (fun t => N.ltb t 2147483648 && a_after A t) (fun t => N.ltb t 2147483648 && a_older A t).

Lemma pick_sigs_clip A ks : forall k, pick_sigs (clip_locks A) k ks = pick_sigs A k ks.
Proof.
  induction ks as [|key r IH]; intros k; cbn [pick_sigs]; [reflexivity|].
  cbn [clip_locks a_sig]. rewrite (IH k). destruct k as [|k']; [reflexivity|]. rewrite (IH k'). reflexivity.
Qed.
Lemma pick_sigs_a_clip A ks : forall k, pick_sigs_a (clip_locks A) k ks = pick_sigs_a A k ks.
Proof.
  induction ks as [|key r IH]; intros k; cbn [pick_sigs_a]; [reflexivity|].
  cbn [clip_locks a_sig]. rewrite (IH k). destruct k as [|k']; [reflexivity|]. rewrite (IH k'). reflexivity.
Qed.

(* the specification table of a well-formed script reads locks only in 1 .. 2^31-1 *)
Lemma sd_clip e ke A m : wf e ke m -> sd ke (clip_locks A) m = sd ke A m.
Proof.
  induction m using ms_ind'; intros Hwf; cbn [wf] in Hwf; try reflexivity.
  all: try (cbn [sd]; rewrite (IHm Hwf); reflexivity).
  all: try (destruct Hwf as [H1 H2]; cbn [sd]; rewrite (IHm1 H1), (IHm2 H2); reflexivity).
  all: try (destruct Hwf as (H1 & H2 & H3); cbn [sd]; rewrite (IHm1 H1), (IHm2 H2), (IHm3 H3); reflexivity).
  - cbn [sd clip_locks a_after]. replace (N.ltb t 2147483648) with true by (symmetry; apply N.ltb_lt; lia). reflexivity.
  - cbn [sd clip_locks a_older]. replace (N.ltb t 2147483648) with true by (symmetry; apply N.ltb_lt; lia). reflexivity.
  - rewrite !t_sd_thresh. destruct Hwf as (_ & _ & Hw).
    assert (E : map (sd ke (clip_locks A)) xs = map (sd ke A) xs).
    { induction H as [|x r Hx _ IH]; [reflexivity|]. destruct Hw as [W1 W2]. cbn [map]. rewrite (Hx W1), (IH W2). reflexivity. }
    rewrite E. reflexivity.
  - cbn [sd]. rewrite pick_sigs_clip. reflexivity.
  - cbn [sd]. rewrite pick_sigs_clip. reflexivity.
  - cbn [sd]. rewrite pick_sigs_a_clip. reflexivity.
  - cbn [sd]. rewrite pick_sigs_a_clip. reflexivity.
Qed.

Lemma clip_assets_ok e ke A : assets_ok e ke A -> assets_ok e ke (clip_locks A).
Proof.
  intros [O1 O2 O3 O4 O5 O6 O7 O8 O9 O10]. constructor; cbn [clip_locks a_sig a_sha256 a_hash256 a_ripemd160 a_hash160 a_after a_older]; auto.
  - intros t H. apply andb_prop in H. apply O9, H.
  - intros t H. apply andb_prop in H. apply O10, H.
Qed.

(* one nLockTime, one nSequence: the clipped record of a world never meets two locks of different kinds *)
Lemma clip_locks_compatible e ke W : locks_compatible (se_of (clip_locks (assets_of e ke W))).
Proof.
  split; cbn [se_of se_after se_older clip_locks a_after a_older assets_of]; intros t1 t2 H1 H2;
    apply andb_prop in H1; apply andb_prop in H2; destruct H1 as [L1 H1], H2 as [L2 H2];
    apply N.ltb_lt in L1; apply N.ltb_lt in L2.
  - unfold check_locktime in H1, H2. rewrite !N2Z.id in *.
    apply andb_prop in H1. destruct H1 as [_ H1]. apply andb_prop in H1. destruct H1 as [H1 _]. apply andb_prop in H1. destruct H1 as [H1 _].
    apply andb_prop in H2. destruct H2 as [_ H2]. apply andb_prop in H2. destruct H2 as [H2 _]. apply andb_prop in H2. destruct H2 as [H2 _].
    apply Bool.eqb_prop in H1. apply Bool.eqb_prop in H2. unfold LOCKTIME_THRESHOLD in *. rewrite H1, H2. apply Bool.eqb_reflx.
  - unfold check_sequence in H1, H2. rewrite !N2Z.id in *.
    apply andb_prop in H1. destruct H1 as [_ H1]. apply andb_prop in H2. destruct H2 as [_ H2].
    assert (D : forall t, t < 2147483648 -> N.land t SEQ_DISABLE = 0).
    { intros t Ht. unfold SEQ_DISABLE. apply N.bits_inj_0. intros n. rewrite N.land_spec.
      destruct (N.eq_dec n 31) as [->|Hn].
      - replace (N.testbit t 31) with false; [reflexivity|]. symmetry. apply N.bits_above_log2.
        destruct (N.eq_dec t 0) as [->|Ht0]; [reflexivity|]. apply N.log2_lt_pow2; lia.
      - replace (N.testbit 2147483648 n) with false; [apply andb_false_r|].
        change 2147483648 with (2 ^ 31). symmetry. apply N.pow2_bits_false. congruence. }
    rewrite (D t1 L1) in H1. rewrite (D t2 L2) in H2. cbn [N.eqb negb] in H1, H2.
    change (N.eqb 0 0) with true in H1, H2. cbn [negb] in H1, H2.
    apply andb_prop in H1. destruct H1 as [H1 _]. apply andb_prop in H1. destruct H1 as [_ H1].
    apply andb_prop in H2. destruct H2 as [H2 _]. apply andb_prop in H2. destruct H2 as [_ H2].
    apply N.eqb_eq in H1. apply N.eqb_eq in H2. unfold rel_is_time. unfold SEQ_TYPE in *. rewrite H1, H2. apply Bool.eqb_reflx.
Qed.

Lemma senv_ok_se_of c ke B : is_tap c = false -> ExtProofs.senv_ok (ExtCodec.xctx_of c ke) (se_of B).
Proof.
  intros Ht. unfold ExtProofs.senv_ok, ExtCodec.xctx_of. cbn [se_of se_tap se_pklen se_sig ExtModel.xc_schnorr ExtModel.xc_unc].
  rewrite Ht. split; [reflexivity|]. split; [|discriminate].
  intros k. destruct (CodecExt.is_uncompressed ke k); lia.
Qed.

Lemma thresh_fit_se_of ke B rhs m : N.of_nat (max_elems ke m) < 2 ^ 55 -> thresh_fit ke (se_of B) rhs m.
Proof.
  apply fit_of_bound; cbn [se_of se_pklen se_sig].
  - intros _. lia.
  - intros k sz H. destruct (a_sig B k); inversion H. lia.
Qed.

Lemma material_in_world e ke W : material_in W (clip_locks (assets_of e ke W)).
Proof.
  repeat split; cbn [clip_locks assets_of a_sig a_sha256 a_hash256 a_ripemd160 a_hash160]; intros ? ? Hf; exact (find_in _ _ _ Hf).
Qed.

(* the policy of a well-formed liftable script does not see the clipping either *)
Lemma leval_clip e ke (Hsort : forall ks, Permutation (ksort ke ks) ks) A rl m t p :
  type_of m = ROk t -> wf e ke m -> lift rl m = Some p -> leval (clip_locks A) p = leval A p.
Proof.
  intros Ht Hwf Hl.
  rewrite (lift_table ke Hsort (clip_locks A) rl m t p Ht (wf_thresh_ok e ke m Hwf) Hl).
  rewrite (lift_table ke Hsort A rl m t p Ht (wf_thresh_ok e ke m Hwf) Hl).
  unfold all_sat. rewrite (sd_clip e ke A m Hwf). reflexivity.
Qed.

(* ------------------------------------------------------------------ P2WSH: the equivalence for a world *)
Section WshIff.
  Variable e : env.
  Variable ke : keyenv.
  Hypothesis Hks : ksort_ok ke.
  Hypothesis Hse : forall kbs, e_sigok e kbs [] = false.
  Notation e0 := (with_sv e SvWitnessV0).

  (* "the output wsh(m) can be spent with W's material": some witness whose items come from W,
     closed by ANY last item, passes the P2WSH validation for the program sha256(encode m) *)
  Definition wsh_spendable (W : wit) (m : ms) : Prop :=
    exists items sb', incl items W /\ verify_wsh e (e_sha256 e (encode ke m)) (items ++ [sb']) = true.

  (* what is asked of the world and the script, in one record of named conditions *)
  Definition wsh_world_ok (W : wit) (m : ms) : Prop :=
    FrameDissat.keys_ok e0 ke /\ (forall k, blen (kb ke k) <= 80) /\
    (forall x, In x W -> blen x <= 80) /\ pub_in ke m W /\ kh_binds e0 ke W /\
    (exists t, type_of m = ROk t /\ c_base (t_corr t) = BB) /\ wf e0 ke m /\ ms_wf Segwitv0 ke m /\
    ExtCodec.ctx_frag_ok Segwitv0 m = true /\ N.of_nat (max_elems ke m) < 2 ^ 55 /\
    (forall sb', e_sha256 e sb' = e_sha256 e (encode ke m) -> sb' = encode ke m).

  Theorem wsh_spending_condition (W : wit) (unc : key -> bool) (m : ms) (p : lpolicy) :
    wsh_world_ok W m -> unc_agrees ke unc -> lift_ctx Segwitv0 unc m = LOk p ->
    (leval (assets_of e0 ke W) p = true <-> wsh_spendable W m).
  Proof.
    intros (HK & Hkb & Hlen & Hpub & Hkh & (t & Ht & Hbb) & Hwf & Hmw & Hfr & Hme & Hcol) Hu Hl.
    assert (Hlen' : forall x, In x W -> (blen x < 2147483648)%N) by (intros x Hx; specialize (Hlen x Hx); lia).
    pose proof (assets_of_ok e0 ke W HK Hlen') as HA.
    pose proof Hl as Hl'. unfold lift_ctx in Hl'. apply lift_iter_some in Hl'.
    split.
    - intros Hev. set (A := clip_locks (assets_of e0 ke W)).
      assert (Hev' : leval A p = true) by (unfold A; rewrite (leval_clip e0 ke Hks _ _ m t p Ht Hwf Hl'); exact Hev).
      assert (Hsm : small_material ke A 80).
      { split; [exact Hkb|]. intros k s Hf. apply Hlen. cbn [A clip_locks assets_of a_sig] in Hf. exact (find_in _ _ _ Hf). }
      destruct (wsh_invents_no_path_within_limits e ke Hks Hse A (se_of A) (f_of ke A) (linked_of ke A)
                  (clip_locks_compatible e0 ke W) unc true m t p Ht Hbb (clip_assets_ok e0 ke _ HA) Hwf Hmw Hfr Hu
                  (senv_ok_se_of Segwitv0 ke A eq_refl) (thresh_fit_se_of ke A true m Hme) Hsm Hl Hev')
        as [bs [Hsat Hv]].
      exists bs, (encode ke m). split; [|exact Hv].
      exact (satisfy_over_world e0 ke W A (se_of A) (f_of ke A) (linked_of ke A) (ksort_ok_len ke Hks)
               (material_in_world e0 ke W) true true m bs Hwf Hpub Hsat).
    - intros (items & sb' & Hin & Hv).
      exact (wsh_hides_no_path e ke Hks Hse W _ m t p Hkh Ht Hbb Hwf Hmw Hl' items sb' (Hcol sb') Hin Hv).
  Qed.
End WshIff.
