(* C03, table level: the hypotheses of [nonmall_unique] are satisfiable (concrete instances whose
   conclusion is computed), and each of them is needed (concrete counterexamples when dropped). *)
From Verif Require Import Exec Ser Ast Types TypeCheck SatSpec Sat ExecLemmas TheoremA SatProofs
  CompleteProofs CompleteThresh CompleteNonMall HasSigProofs
  NonMallUnique NonMallUniqueThresh NonMallUniqueMulti NonMallUniqueMain.
From Coq Require Import Lia Permutation.
Local Open Scope N_scope.

(* the world of CompleteNonMall: keys 0,1,2; the honest party signs for every key except key 1
   (signature of key k = [k;7]); every preimage is [9] *)
Definition ux_ke := c02x_ke.
Definition ux_A := c02x_A true.
Definition ux_se := c02x_se true.
Definition ux_f := c02x_f true.
(* the third party can open every hash *)
Definition ux_Pre : hkind -> bytes -> option bytes := fun _ _ => Some [9].

Lemma ux_linked : linked ux_ke ux_A ux_se ux_f. Proof. apply c02x_linked. Qed.
Lemma ux_locks : locks_compatible ux_se. Proof. apply c02x_locks. Qed.
Lemma ux_ksort : forall ks, Permutation (ksort ux_ke ks) ks. Proof. intros ks. apply Permutation_refl. Qed.
Lemma ux_pre : pre_consistent ux_A ux_Pre.
Proof. apply pre_extends_consistent. intros kd h p H. destruct kd; cbn in H; inversion H; reflexivity. Qed.
Lemma ux_distinct : sigs_distinct ux_ke ux_A.
Proof.
  constructor; cbn.
  - intros k1 k2 s H1 H2. destruct (c02x_has k1), (c02x_has k2); try discriminate. inversion H1; subst. inversion H2. reflexivity.
  - intros k s H. destruct (c02x_has k); inversion H. discriminate.
  - intros k s H. destruct (c02x_has k); inversion H. discriminate.
  - intros k s H. destruct (c02x_has k); inversion H. discriminate.
  - intros k s k' H. destruct (c02x_has k); inversion H. discriminate.
  - intros k s kd h H. destruct (c02x_has k); inversion H. destruct kd; discriminate.
Qed.

(* ---- 1. thresh(2, pk(0), s:pk(1), s:pk(2)) ---- *)
Definition ux_thresh : ms := c02x_thresh.
Definition ux_thresh_w : list bytes := [[2; 7]; []; [0; 7]].       (* push order *)
Lemma ux_thresh_hyps : uwf ux_thresh /\ NoDup (ukeys ux_thresh) /\
  exists t, type_of ux_thresh = ROk t /\ m_nm (t_mall t) = true /\ m_signed (t_mall t) = true /\ c_base (t_corr t) = BB.
Proof.
  split; [cbn; repeat split; lia|]. split.
  - cbn. repeat constructor; cbn; intuition discriminate.
  - eexists. split; [vm_compute; reflexivity | repeat split; reflexivity].
Qed.
Lemma ux_thresh_satisfy : satisfy ux_ke ux_se ux_f false true ux_thresh = Some ux_thresh_w.
Proof. vm_compute. reflexivity. Qed.
(* what the theorem says ... *)
Lemma ux_thresh_unique : forall w', In w' (all_sat ux_ke (adv_assets ux_A ux_Pre (rev ux_thresh_w)) ux_thresh) -> w' = rev ux_thresh_w.
Proof.
  destruct ux_thresh_hyps as [Hwf [Hnd [t [Ht [Hm _]]]]].
  exact (nonmall_unique ux_ke ux_A ux_se ux_f ux_Pre ux_linked ux_locks ux_ksort ux_distinct ux_pre true ux_thresh t Hwf Hnd Ht Hm _ ux_thresh_satisfy).
Qed.
(* ... and it is not vacuous: the third party's table is exactly that one entry, while the honest table has
   the same entry (the honest party has no other choice here: key 1 cannot sign) *)
Lemma ux_thresh_adv_table : all_sat ux_ke (adv_assets ux_A ux_Pre (rev ux_thresh_w)) ux_thresh = [rev ux_thresh_w].
Proof. vm_compute. reflexivity. Qed.

Lemma ux_thresh_nonvacuous :
  linked ux_ke ux_A ux_se ux_f /\ locks_compatible ux_se /\ (forall ks, Permutation (ksort ux_ke ks) ks) /\
  sigs_distinct ux_ke ux_A /\ pre_consistent ux_A ux_Pre /\
  uwf ux_thresh /\ NoDup (ukeys ux_thresh) /\
  (exists t, type_of ux_thresh = ROk t /\ m_nm (t_mall t) = true /\ m_signed (t_mall t) = true /\ c_base (t_corr t) = BB) /\
  satisfy ux_ke ux_se ux_f false true ux_thresh = Some ux_thresh_w /\
  all_sat ux_ke (adv_assets ux_A ux_Pre (rev ux_thresh_w)) ux_thresh = [rev ux_thresh_w].
Proof.
  destruct ux_thresh_hyps as [H1 [H2 H3]].
  split; [apply ux_linked|]. split; [apply ux_locks|]. split; [apply ux_ksort|]. split; [apply ux_distinct|]. split; [apply ux_pre|].
  split; [exact H1|]. split; [exact H2|]. split; [exact H3|]. split; [apply ux_thresh_satisfy | apply ux_thresh_adv_table].
Qed.

(* ---- 2. a choice: and_v(v:pk(2), or_i(pk(0), and_v(v:sha256(H),and_v(v:sha256(H),sha256(H))))) with both
        signatures and the preimage ---- *)
Definition ux_choice : ms :=
  MAndV (MVerify (MCheck (MPkK 2)))
        (MOrI (MCheck (MPkK 0)) (MAndV (MVerify (MSha256 [])) (MAndV (MVerify (MSha256 [])) (MSha256 [])))).
Lemma ux_choice_hyps : uwf ux_choice /\ NoDup (ukeys ux_choice) /\
  exists t, type_of ux_choice = ROk t /\ m_nm (t_mall t) = true /\ m_signed (t_mall t) = true /\ c_base (t_corr t) = BB.
Proof.
  split; [cbn; tauto|]. split.
  - cbn. repeat constructor; cbn; intuition discriminate.
  - eexists. split; [vm_compute; reflexivity | repeat split; reflexivity].
Qed.
(* the honest table has two entries: via the signature of key 0, or via the preimages *)
Lemma ux_choice_honest_table : all_sat ux_ke ux_A ux_choice = [[[2; 7]; [1]; [0; 7]]; [[2; 7]; []; [9]; [9]; [9]]].
Proof. vm_compute. reflexivity. Qed.
(* non-malleable mode takes the signature-free branch (preimages), although it is the larger one (100 vs 75 bytes) *)
Definition ux_choice_w : list bytes := [[9]; [9]; [9]; []; [2; 7]].
Lemma ux_choice_satisfy : satisfy ux_ke ux_se ux_f false true ux_choice = Some ux_choice_w.
Proof. vm_compute. reflexivity. Qed.
Lemma ux_choice_unique : forall w', In w' (all_sat ux_ke (adv_assets ux_A ux_Pre (rev ux_choice_w)) ux_choice) -> w' = rev ux_choice_w.
Proof.
  destruct ux_choice_hyps as [Hwf [Hnd [t [Ht [Hm _]]]]].
  exact (nonmall_unique ux_ke ux_A ux_se ux_f ux_Pre ux_linked ux_locks ux_ksort ux_distinct ux_pre true ux_choice t Hwf Hnd Ht Hm _ ux_choice_satisfy).
Qed.
Lemma ux_choice_adv_table : all_sat ux_ke (adv_assets ux_A ux_Pre (rev ux_choice_w)) ux_choice = [rev ux_choice_w].
Proof. vm_compute. reflexivity. Qed.

Lemma ux_choice_nonvacuous :
  uwf ux_choice /\ NoDup (ukeys ux_choice) /\
  (exists t, type_of ux_choice = ROk t /\ m_nm (t_mall t) = true /\ m_signed (t_mall t) = true /\ c_base (t_corr t) = BB) /\
  length (all_sat ux_ke ux_A ux_choice) = 2%nat /\
  satisfy ux_ke ux_se ux_f false true ux_choice = Some ux_choice_w /\
  all_sat ux_ke (adv_assets ux_A ux_Pre (rev ux_choice_w)) ux_choice = [rev ux_choice_w].
Proof.
  destruct ux_choice_hyps as [H1 [H2 H3]].
  split; [exact H1|]. split; [exact H2|]. split; [exact H3|]. split; [rewrite ux_choice_honest_table; reflexivity|].
  split; [apply ux_choice_satisfy | apply ux_choice_adv_table].
Qed.

(* The theorem is about NON-malleable mode: the malleable satisfier returns the smaller witness
   [sig0 01 sig2]; a third party that sees it (and knows the preimage) has a second table entry. *)
Theorem mall_mode_is_malleable :
  exists bs w', satisfy ux_ke ux_se ux_f true true ux_choice = Some bs /\
    In w' (all_sat ux_ke (adv_assets ux_A ux_Pre (rev bs)) ux_choice) /\ w' <> rev bs.
Proof.
  exists [[0; 7]; [1]; [2; 7]], [[2; 7]; []; [9]; [9]; [9]]. split; [vm_compute; reflexivity|]. split; [vm_compute; auto | discriminate].
Qed.

(* ---- 3. each hypothesis is needed ---- *)
(* no repeated keys: or_b(pk(0), s:pk(0)) is typed m and s; the non-malleable model returns the witness
   [0 sig0] (X = pk(0) satisfied) and the third party, who now holds sig0, also has [sig0 0] (Z satisfied) *)
Definition ux_rep : ms := MOrB (MCheck (MPkK 0)) (MSwap (MCheck (MPkK 0))).
Theorem unique_needs_distinct_keys :
  exists t bs w', type_of ux_rep = ROk t /\ m_nm (t_mall t) = true /\ m_signed (t_mall t) = true /\ uwf ux_rep /\
    ~ NoDup (ukeys ux_rep) /\
    satisfy ux_ke ux_se ux_f false true ux_rep = Some bs /\
    In w' (all_sat ux_ke (adv_assets ux_A ux_Pre (rev bs)) ux_rep) /\ w' <> rev bs.
Proof.
  eexists. exists [[]; [0; 7]], [[]; [0; 7]]. split; [vm_compute; reflexivity|]. split; [reflexivity|]. split; [reflexivity|].
  split; [cbn; tauto|]. split.
  - cbn. intros H. inversion H as [|? ? Hn _]. apply Hn. left. reflexivity.
  - split; [vm_compute; reflexivity|]. split; [vm_compute; auto | discriminate].
Qed.

(* preimage consistency: and_v(v:pk(0), sha256(H)); the honest party opens H with [9]; a third party that
   knows a second preimage [8] of the same hash replaces it *)
Definition ux_hash : ms := MAndV (MVerify (MCheck (MPkK 0))) (MSha256 []).
Theorem unique_needs_preimage_consistency :
  exists t bs w' (Pre : hkind -> bytes -> option bytes),
    type_of ux_hash = ROk t /\ m_nm (t_mall t) = true /\ m_signed (t_mall t) = true /\ uwf ux_hash /\ NoDup (ukeys ux_hash) /\
    ~ pre_consistent ux_A Pre /\
    satisfy ux_ke ux_se ux_f false true ux_hash = Some bs /\
    In w' (all_sat ux_ke (adv_assets ux_A Pre (rev bs)) ux_hash) /\ w' <> rev bs.
Proof.
  eexists. exists [[9]; [0; 7]], [[0; 7]; [8]], (fun _ _ => Some [8]).
  split; [vm_compute; reflexivity|]. split; [reflexivity|]. split; [reflexivity|]. split; [cbn; tauto|].
  split; [cbn; repeat constructor; cbn; tauto|]. split.
  - intros H. specialize (H HSha256 [] [9] [8] eq_refl eq_refl). discriminate.
  - split; [vm_compute; reflexivity|]. split; [vm_compute; auto | discriminate].
Qed.

(* recognisable signatures: if the signature of key 2 were the byte string 01, publishing the or_i
   selector 01 would hand the third party "a signature of key 2": or_i(pk(0), pkh(2)) satisfied by
   [sig0 01] could be replaced by [01 key2 0] *)
Definition ux_A1 : assets :=
  mkAssets (fun k => if N.eqb k 0 then Some [0; 7] else if N.eqb k 2 then Some [1] else None)
           (fun _ => None) (fun _ => None) (fun _ => None) (fun _ => None) (fun _ => false) (fun _ => false).
Definition ux_se1 : senv :=
  mkSenv false (fun _ => 34) (fun k => if N.eqb k 0 then Some 72 else if N.eqb k 2 then Some 80 else None)
         (fun _ _ => false) (fun _ => false) (fun _ => false).
Definition ux_f1 : fill := mkFill (kb ux_ke) (a_sig ux_A1) (fun _ _ => None).
Lemma ux_linked1 : linked ux_ke ux_A1 ux_se1 ux_f1.
Proof.
  constructor; cbn; try reflexivity.
  - intros k. destruct (N.eqb k 0); [split; discriminate|]. destruct (N.eqb k 2); split; congruence.
  - intros kd h. destruct kd; reflexivity.
  - intros kd h. destruct kd; cbn; split; congruence.
Qed.
Definition ux_ori : ms := MOrI (MCheck (MPkK 0)) (MCheck (MPkH 2)).
Theorem unique_needs_recognisable_signatures :
  exists t bs w', type_of ux_ori = ROk t /\ m_nm (t_mall t) = true /\ m_signed (t_mall t) = true /\ uwf ux_ori /\ NoDup (ukeys ux_ori) /\
    linked ux_ke ux_A1 ux_se1 ux_f1 /\ ~ sigs_distinct ux_ke ux_A1 /\
    satisfy ux_ke ux_se1 ux_f1 false true ux_ori = Some bs /\
    In w' (all_sat ux_ke (adv_assets ux_A1 (fun _ _ => None) (rev bs)) ux_ori) /\ w' <> rev bs.
Proof.
  eexists. exists [[0; 7]; [1]], [[]; [2]; [1]].
  split; [vm_compute; reflexivity|]. split; [reflexivity|]. split; [reflexivity|]. split; [cbn; tauto|].
  split; [cbn; repeat constructor; cbn; intuition discriminate|]. split; [exact ux_linked1|]. split.
  - intros H. exact (sd_one _ _ H 2 [1] eq_refl eq_refl).
  - split; [vm_compute; reflexivity|]. split; [vm_compute; auto | discriminate].
Qed.
