(* C19 — the hand-written `Ord` of the policy types is a total order whose Equal is (derived, structural) equality.
   Generic part: trees compared "symbol first, then children lexicographically" form a total order when the
   symbols do; the policy order is pulled back from it along an injective encoding. *)
From Coq Require Import String Lia.
From Verif Require Import EqOrdModel EqOrdPolModel EqOrdProofs EqOrdCmpProofs.

(* ------------------------------------------------------------------ generic: rose trees *)
Section Rose.
  Variable S : Type.
  Variable sc : S -> S -> comparison.
  Hypothesis to_s : total_order sc.

  Inductive rt := RN (s : S) (cs : list rt).

  Fixpoint rt_cmp (a b : rt) : comparison :=
    match a, b with
    | RN s l, RN s' l' =>
      lexc (sc s s')
           ((fix go (l l' : list rt) : comparison :=
               match l, l' with
               | [], [] => Eq | [], _ :: _ => Lt | _ :: _, [] => Gt
               | x :: r, y :: t => lexc (rt_cmp x y) (go r t)
               end) l l')
    end.

  Lemma rt_cmp_unfold s l s' l' : rt_cmp (RN s l) (RN s' l') = lexc (sc s s') (list_lex rt_cmp l l').
  Proof.
    cbn. f_equal. revert l'. induction l as [|x r IH]; destruct l' as [|y t]; cbn; try reflexivity. rewrite IH. reflexivity.
  Qed.

  Fixpoint rt_ind' (P : rt -> Prop) (H : forall s cs, Forall P cs -> P (RN s cs)) (t : rt) : P t :=
    match t with
    | RN s cs => H s cs ((fix go (l : list rt) : Forall P l :=
                            match l with [] => Forall_nil P | x :: r => Forall_cons x (rt_ind' P H x) (go r) end) cs)
    end.

  (* lexicographic lists, with the element facts available only for the elements of the left list *)
  Lemma list_lex_eq_local (c : rt -> rt -> comparison) l :
    Forall (fun x => forall y, c x y = Eq <-> x = y) l -> forall l', list_lex c l l' = Eq <-> l = l'.
  Proof.
    induction 1 as [|x r Hx Hr IH]; destruct l' as [|y t]; cbn; split; intro H; try discriminate; try reflexivity.
    - destruct (c x y) eqn:E; cbn in H; try discriminate. apply Hx in E. apply IH in H. congruence.
    - injection H as <- <-. rewrite (proj2 (Hx x) eq_refl). cbn. apply IH. reflexivity.
  Qed.

  Lemma list_lex_antisym_local (c : rt -> rt -> comparison) l :
    Forall (fun x => forall y, c y x = CompOpp (c x y)) l -> forall l', list_lex c l' l = CompOpp (list_lex c l l').
  Proof.
    induction 1 as [|x r Hx Hr IH]; destruct l' as [|y t]; cbn; try reflexivity.
    rewrite Hx, IH. destruct (c x y); reflexivity.
  Qed.

  Theorem rt_cmp_eq : forall a b, rt_cmp a b = Eq <-> a = b.
  Proof.
    induction a using rt_ind'. intros [s' l']. rewrite rt_cmp_unfold.
    pose proof (list_lex_eq_local rt_cmp cs H l') as L.
    destruct (sc s s') eqn:E; cbn; split; intro G; try discriminate.
    - apply (to_eq sc to_s) in E. apply L in G. congruence.
    - injection G as <- <-. apply L. reflexivity.
    - injection G as <- _. rewrite (to_refl sc to_s) in E. discriminate.
    - injection G as <- _. rewrite (to_refl sc to_s) in E. discriminate.
  Qed.

  Theorem rt_cmp_antisym : forall a b, rt_cmp b a = CompOpp (rt_cmp a b).
  Proof.
    induction a using rt_ind'. intros [s' l']. rewrite !rt_cmp_unfold.
    rewrite (to_antisym sc to_s s s'), (list_lex_antisym_local rt_cmp cs H l'). destruct (sc s s'); reflexivity.
  Qed.

  Lemma list_lex_trans_local l :
    Forall (fun x => forall y z, rt_cmp x y = Lt -> rt_cmp y z = Lt -> rt_cmp x z = Lt) l ->
    forall l' l'', list_lex rt_cmp l l' = Lt -> list_lex rt_cmp l' l'' = Lt -> list_lex rt_cmp l l'' = Lt.
  Proof.
    induction 1 as [|x r Hx Hr IH]; destruct l' as [|y t]; destruct l'' as [|z u]; cbn; try discriminate; try reflexivity.
    destruct (rt_cmp x y) eqn:E1; destruct (rt_cmp y z) eqn:E2; cbn; try discriminate; intros H1 H2.
    - apply rt_cmp_eq in E1, E2. subst. rewrite (proj2 (rt_cmp_eq z z) eq_refl). cbn. apply (IH _ _ H1 H2).
    - apply rt_cmp_eq in E1. subst. rewrite E2. reflexivity.
    - apply rt_cmp_eq in E2. subst. rewrite E1. reflexivity.
    - rewrite (Hx _ _ E1 E2). reflexivity.
  Qed.

  Theorem rt_cmp_trans : forall a b d, rt_cmp a b = Lt -> rt_cmp b d = Lt -> rt_cmp a d = Lt.
  Proof.
    induction a using rt_ind'. intros [s' l'] [s'' l'']. rewrite !rt_cmp_unfold.
    destruct (sc s s') eqn:E1; destruct (sc s' s'') eqn:E2; cbn; try discriminate; intros H1 H2.
    - apply (to_eq sc to_s) in E1, E2. subst. rewrite (to_refl sc to_s). cbn. apply (list_lex_trans_local cs H _ _ H1 H2).
    - apply (to_eq sc to_s) in E1. subst. rewrite E2. reflexivity.
    - apply (to_eq sc to_s) in E2. subst. rewrite E1. reflexivity.
    - rewrite (to_trans sc to_s _ _ _ E1 E2). reflexivity.
  Qed.

  Theorem to_rt : total_order rt_cmp.
  Proof. split; [apply rt_cmp_eq | apply rt_cmp_antisym | apply rt_cmp_trans]. Qed.
End Rose.
Arguments RN {S} s cs.

(* ------------------------------------------------------------------ policies *)
Section PolInd.
  Variable P : cpol -> Prop.
  Hypothesis Hleaf : forall p, (match p with QAnd _ | QOr _ | QThresh _ _ => False | _ => True end) -> P p.
  Hypothesis Hand : forall l, Forall P l -> P (QAnd l).
  Hypothesis Hor : forall l, Forall (fun q => P (snd q)) l -> P (QOr l).
  Hypothesis Hthresh : forall k l, Forall P l -> P (QThresh k l).
  Fixpoint cpol_ind' (p : cpol) : P p :=
    match p with
    | QAnd l => Hand l ((fix go (l : list cpol) : Forall P l :=
                           match l with [] => Forall_nil P | x :: r => Forall_cons x (cpol_ind' x) (go r) end) l)
    | QOr l => Hor l ((fix go (l : list (N * cpol)) : Forall (fun q => P (snd q)) l :=
                         match l with
                         | [] => Forall_nil _
                         | q :: r => Forall_cons q (cpol_ind' (snd q)) (go r)
                         end) l)
    | QThresh k l => Hthresh k l ((fix go (l : list cpol) : Forall P l :=
                                     match l with [] => Forall_nil P | x :: r => Forall_cons x (cpol_ind' x) (go r) end) l)
    | QUnsat => Hleaf QUnsat I | QTriv => Hleaf QTriv I | QKey k => Hleaf (QKey k) I | QAfter t => Hleaf (QAfter t) I
    | QOlder t => Hleaf (QOlder t) I | QSha256 h => Hleaf (QSha256 h) I | QHash256 h => Hleaf (QHash256 h) I
    | QRipemd160 h => Hleaf (QRipemd160 h) I | QHash160 h => Hleaf (QHash160 h) I
    end.
End PolInd.

Section PolOrder.
  Variable kcmp : key -> key -> comparison.
  Hypothesis to_key : total_order kcmp.

  (* symbols: (rank of the variant name in string order | 100 for an odds node, number, key, bytes) *)
  Definition psym := (N * (N * (key * bytes)))%type.
  Definition psym_cmp : psym -> psym -> comparison := prod_cmp N.compare (prod_cmp N.compare (prod_cmp kcmp bytes_cmp)).
  Lemma to_psym : total_order psym_cmp.
  Proof. unfold psym_cmp. repeat apply to_prod; auto using to_N, to_bytes. Qed.

  Fixpoint penc (p : cpol) : rt psym :=
    match p with
    | QAfter t => RN (0, (t, (0, []))) [] | QAnd l => RN (1, (0, (0, []))) (map penc l)
    | QHash160 h => RN (2, (0, (0, h))) [] | QHash256 h => RN (3, (0, (0, h))) []
    | QKey k => RN (4, (0, (k, []))) [] | QOlder t => RN (5, (t, (0, []))) []
    | QOr l => RN (6, (0, (0, []))) (map (fun q => RN (100, (fst q, (0, []))) [penc (snd q)]) l)
    | QRipemd160 h => RN (7, (0, (0, h))) [] | QSha256 h => RN (8, (0, (0, h))) []
    | QThresh k l => RN (9, (k, (0, []))) (map penc l)
    | QTriv => RN (10, (0, (0, []))) [] | QUnsat => RN (11, (0, (0, []))) []
    end%N.

  Notation pcmp := (rt_cmp psym psym_cmp).

  Lemma penc_inj : forall a b, penc a = penc b -> a = b.
  Proof.
    induction a using cpol_ind'; intros b HH.
    - destruct a; try contradiction; destruct b; cbn in HH; try discriminate HH; try reflexivity; injection HH; intros; subst; reflexivity.
    - destruct b as [| | | | | | | | |l0|l0|k0 l0]; cbn in HH; try discriminate HH. injection HH as HH. f_equal.
      revert l0 HH. induction H as [|x r Hx Hr IH]; intros [|y s] HH; cbn in HH; try discriminate; [reflexivity|].
      injection HH as H1 H2. f_equal; [apply Hx; exact H1 | apply IH; exact H2].
    - destruct b as [| | | | | | | | |l0|l0|k0 l0]; cbn in HH; try discriminate HH. injection HH as HH. f_equal.
      revert l0 HH. induction H as [|[p x] r Hx Hr IH]; intros [|[q y] s] HH; cbn in HH; try discriminate; [reflexivity|].
      injection HH as H0 H1 H2. f_equal; [f_equal; [exact H0 | apply Hx; exact H1] | apply IH; exact H2].
    - destruct b as [| | | | | | | | |l0|l0|k0 l0]; cbn in HH; try discriminate HH. injection HH as Hk HH. subst. f_equal.
      revert l0 HH. induction H as [|x r Hx Hr IH]; intros [|y s] HH; cbn in HH; try discriminate; [reflexivity|].
      injection HH as H1 H2. f_equal; [apply Hx; exact H1 | apply IH; exact H2].
  Qed.

  Definition pol_spec_cmp (a b : cpol) : comparison := pcmp (penc a) (penc b).

  Lemma to_pol_spec : total_order pol_spec_cmp.
  Proof.
    apply (to_pullback pol_spec_cmp pcmp penc penc_inj); [reflexivity | apply to_rt, to_psym].
  Qed.

  Lemma lexc_ok (c : comparison) (r : outcome comparison) d :
    r = Ok d -> match c with Eq => r | o => Ok o end = Ok (lexc c d).
  Proof. intros ->. destruct c; reflexivity. Qed.

  (* the inner loops of the code's comparison, named *)
  Fixpoint olist (c : cpol -> cpol -> outcome comparison) (l l' : list cpol) : outcome comparison :=
    match l, l' with
    | [], [] => Ok Eq | [], _ :: _ => Ok Lt | _ :: _, [] => Ok Gt
    | x :: r, y :: s => match c x y with Ok Eq => olist c r s | o => o end
    end.
  Fixpoint oolist (c : cpol -> cpol -> outcome comparison) (l l' : list (N * cpol)) : outcome comparison :=
    match l, l' with
    | [], [] => Ok Eq | [], _ :: _ => Ok Lt | _ :: _, [] => Ok Gt
    | (p, x) :: r, (q, y) :: s =>
      match N.compare p q with
      | Eq => match c x y with Ok Eq => oolist c r s | o => o end
      | o => Ok o
      end
    end.
  Lemma cpol_cmp_and l l' : cpol_cmp kcmp (QAnd l) (QAnd l') = olist (cpol_cmp kcmp) l l'.
  Proof.
    cbn. revert l'. induction l as [|x r IH]; destruct l' as [|y s]; cbn; try reflexivity.
    rewrite IH. reflexivity.
  Qed.
  Lemma cpol_cmp_or l l' : cpol_cmp kcmp (QOr l) (QOr l') = oolist (cpol_cmp kcmp) l l'.
  Proof.
    cbn. revert l'. induction l as [|[p x] r IH]; destruct l' as [|[q y] s]; cbn; try reflexivity.
    rewrite IH. reflexivity.
  Qed.
  Lemma cpol_cmp_thresh k l k' l' :
    cpol_cmp kcmp (QThresh k l) (QThresh k' l') = match N.compare k k' with Eq => olist (cpol_cmp kcmp) l l' | o => Ok o end.
  Proof.
    cbn. destruct (k ?= k')%N; try reflexivity.
    revert l'. induction l as [|x r IH]; destruct l' as [|y s]; cbn; try reflexivity.
    rewrite IH. reflexivity.
  Qed.

  Lemma olist_spec l :
    Forall (fun x => forall y, cpol_cmp kcmp x y = Ok (pcmp (penc x) (penc y))) l ->
    forall l', olist (cpol_cmp kcmp) l l' = Ok (list_lex pcmp (map penc l) (map penc l')).
  Proof.
    induction 1 as [|x r Hx Hr IH]; intros [|y s]; cbn [olist map list_lex]; try reflexivity.
    rewrite Hx. destruct (pcmp (penc x) (penc y)); cbn [lexc]; [apply IH | reflexivity | reflexivity].
  Qed.

  Lemma psym_refl s : psym_cmp s s = Eq.
  Proof. apply (to_refl _ to_psym). Qed.

  Lemma psym_num n p q : psym_cmp (n, (p, (0%N, []))) (n, (q, (0%N, []))) = (p ?= q)%N.
  Proof.
    unfold psym_cmp, prod_cmp. cbn. rewrite N.compare_refl, (to_refl kcmp to_key 0%N). cbn. destruct (p ?= q)%N; reflexivity.
  Qed.

  Lemma oolist_spec l :
    Forall (fun q => forall y, cpol_cmp kcmp (snd q) y = Ok (pcmp (penc (snd q)) (penc y))) l ->
    forall l', oolist (cpol_cmp kcmp) l l' =
               Ok (list_lex pcmp (map (fun q => RN (100%N, (fst q, (0%N, []))) [penc (snd q)]) l)
                                 (map (fun q => RN (100%N, (fst q, (0%N, []))) [penc (snd q)]) l')).
  Proof.
    induction 1 as [|[p x] r Hx Hr IH]; intros [|[q y] s]; cbn [oolist map list_lex fst snd]; try reflexivity.
    rewrite rt_cmp_unfold, psym_num. cbn [list_lex]. cbn in Hx. rewrite Hx.
    destruct (p ?= q)%N; cbn [lexc]; try reflexivity.
    repeat match goal with
           | |- context [rt_cmp ?T ?c (penc x) (penc y)] =>
             progress change (rt_cmp T c (penc x) (penc y)) with (pcmp (penc x) (penc y))
           end.
    destruct (pcmp (penc x) (penc y)); cbn [lexc]; [apply IH | reflexivity | reflexivity].
  Qed.

  (* the code's comparison never reaches unreachable! and is the specification order *)
  Theorem cpol_cmp_spec : forall a b, cpol_cmp kcmp a b = Ok (pol_spec_cmp a b).
  Proof.
    pose proof (to_refl kcmp to_key 0%N) as K0.
    unfold pol_spec_cmp.
    induction a using cpol_ind'; intros b.
    - destruct a; try contradiction; destruct b; cbn [penc map]; rewrite rt_cmp_unfold; unfold psym_cmp, prod_cmp, lexc; cbn;
        rewrite ?K0, ?N.compare_refl; cbn; try reflexivity;
        repeat match goal with
               | |- context [kcmp ?x ?y] => destruct (kcmp x y)
               | |- context [bytes_cmp ?x ?y] => destruct (bytes_cmp x y)
               | |- context [(?x ?= ?y)%N] => destruct (x ?= y)%N
               end; reflexivity.
    - destruct b as [| | | | | | | | |l0|l0|k0 l0]; try (cbn [penc]; rewrite rt_cmp_unfold; reflexivity).
      rewrite cpol_cmp_and, (olist_spec l H). cbn [penc]. rewrite rt_cmp_unfold, psym_refl. reflexivity.
    - destruct b as [| | | | | | | | |l0|l0|k0 l0]; try (cbn [penc]; rewrite rt_cmp_unfold; reflexivity).
      rewrite cpol_cmp_or, (oolist_spec l H). cbn [penc]. rewrite rt_cmp_unfold, psym_refl. reflexivity.
    - destruct b as [| | | | | | | | |l0|l0|k0 l0]; try (cbn [penc]; rewrite rt_cmp_unfold; reflexivity).
      rewrite cpol_cmp_thresh, (olist_spec l H). cbn [penc]. rewrite rt_cmp_unfold, psym_num.
      destruct (k ?= k0)%N; reflexivity.
  Qed.

  Theorem cpol_cmp_total_order :
    (forall a b, exists c, cpol_cmp kcmp a b = Ok c) /\
    (forall a b, cpol_cmp kcmp a b = Ok Eq <-> a = b) /\
    (forall a b c, cpol_cmp kcmp a b = Ok c -> cpol_cmp kcmp b a = Ok (CompOpp c)) /\
    (forall a b c, cpol_cmp kcmp a b = Ok Lt -> cpol_cmp kcmp b c = Ok Lt -> cpol_cmp kcmp a c = Ok Lt).
  Proof.
    pose proof to_pol_spec as T. repeat split.
    - intros a b. eexists. apply cpol_cmp_spec.
    - rewrite cpol_cmp_spec. intro H. injection H as H. apply (to_eq _ T). exact H.
    - intros ->. rewrite cpol_cmp_spec. f_equal. apply (to_refl _ T).
    - intros a b c. rewrite !cpol_cmp_spec. intro H. injection H as <-. f_equal. apply (to_antisym _ T).
    - intros a b c. rewrite !cpol_cmp_spec. intros H1 H2. injection H1 as H1. injection H2 as H2. f_equal.
      apply (to_trans _ T _ _ _ H1 H2).
  Qed.
End PolOrder.

(* derived equality is structural *)
Theorem cpol_eqb_eq : forall a b, cpol_eqb a b = true <-> a = b.
Proof.
  induction a using cpol_ind'; intros b.
  - destruct a; try contradiction; destruct b; cbn; split; intro HH; try discriminate; try reflexivity;
      try (apply N.eqb_eq in HH; congruence); try (injection HH as ->; apply N.eqb_refl);
      try (apply bytes_eqb_eq in HH; congruence); try (injection HH as ->; apply bytes_eqb_eq; reflexivity).
  - destruct b as [| | | | | | | | |l0|l0|k0 l0]; cbn; try (split; intro HH; discriminate).
    assert (G : forall l', (fix go (l l' : list cpol) : bool :=
                              match l, l' with [], [] => true | x :: r, y :: s => cpol_eqb x y && go r s | _, _ => false end) l l' = true <-> l = l').
    { induction H as [|x r Hx Hr IH]; intros [|y s]; cbn; split; intro HH; try discriminate; try reflexivity.
      - apply andb_true_iff in HH. destruct HH as [H1 H2]. apply Hx in H1. apply IH in H2. congruence.
      - injection HH as <- <-. apply andb_true_iff. split; [apply Hx | apply IH]; reflexivity. }
    rewrite G. split; congruence.
  - destruct b as [| | | | | | | | |l0|l0|k0 l0]; cbn; try (split; intro HH; discriminate).
    assert (G : forall l', (fix go (l l' : list (N * cpol)) : bool :=
                              match l, l' with
                              | [], [] => true
                              | (p, x) :: r, (q, y) :: s => N.eqb p q && cpol_eqb x y && go r s
                              | _, _ => false
                              end) l l' = true <-> l = l').
    { induction H as [|[p x] r Hx Hr IH]; intros [|[q y] s]; cbn; split; intro HH; try discriminate; try reflexivity.
      - apply andb_true_iff in HH. destruct HH as [HH H2]. apply andb_true_iff in HH. destruct HH as [H0 H1].
        apply N.eqb_eq in H0. apply Hx in H1. cbn in H1. apply IH in H2. congruence.
      - injection HH as <- <- <-. rewrite N.eqb_refl. cbn. apply andb_true_iff. split; [apply Hx | apply IH]; reflexivity. }
    rewrite G. split; congruence.
  - destruct b as [| | | | | | | | |l0|l0|k0 l0]; cbn; try (split; intro HH; discriminate).
    assert (G : forall l', (fix go (l l' : list cpol) : bool :=
                              match l, l' with [], [] => true | x :: r, y :: s => cpol_eqb x y && go r s | _, _ => false end) l l' = true <-> l = l').
    { induction H as [|x r Hx Hr IH]; intros [|y s]; cbn; split; intro HH; try discriminate; try reflexivity.
      - apply andb_true_iff in HH. destruct HH as [H1 H2]. apply Hx in H1. apply IH in H2. congruence.
      - injection HH as <- <-. apply andb_true_iff. split; [apply Hx | apply IH]; reflexivity. }
    rewrite andb_true_iff, N.eqb_eq, G. split; [intros [-> ->]; reflexivity | intro HH; injection HH; auto].
Qed.

Theorem cpol_cmp_eq_iff_eqb kcmp (T : total_order kcmp) a b : cpol_cmp kcmp a b = Ok Eq <-> cpol_eqb a b = true.
Proof. rewrite cpol_eqb_eq. apply (cpol_cmp_total_order kcmp T). Qed.

Local Open Scope N_scope.
(* the inputs of the seeded changes C19-2 (odds dropped from Ord) and C19-4 (older compared modulo BIP68 masking) *)
Example pol_cmp_examples :
  cpol_cmp N.compare (QOr [(9, QKey 0); (1, QKey 1)]) (QOr [(1, QKey 0); (9, QKey 1)]) = Ok Gt /\
  cpol_cmp N.compare (QOlder 1) (QOlder 65537) = Ok Lt /\
  cpol_cmp N.compare (QOlder 8388609) (QOlder 2) = Ok Gt /\
  cpol_cmp N.compare (QAnd [QKey 0; QKey 1]) (QAnd [QKey 0; QKey 1; QKey 2]) = Ok Lt /\
  cpol_cmp N.compare (QThresh 1 [QKey 0; QKey 1]) (QOr [(1, QKey 0); (1, QKey 1)]) = Ok Gt.
Proof. vm_compute. repeat split. Qed.
