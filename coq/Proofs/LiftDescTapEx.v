(* C07 at descriptor level: non-vacuity of the P2TR leaf equivalence.  tr(_, leaf
   or_d(pk(K0),and_v(v:pk(K1),older(10)))) with 32-byte keys, nSequence 12, a commitment oracle that
   accepts exactly (this leaf, this control block); three worlds as for P2WSH. *)
From Verif Require Import Exec Ser Spend Ast Types TypeCheck SatSpec Sat LiftModel LiftLimits TheoremA SatProofs FrameDissat
  DenotSpec LiftFullProofs CodecSpec DescSpendModel LiftDescWsh LiftDescWorld LiftDescTypes LiftDescWorldTap.
From Verif Require CodecExt ExtCodec CompleteThresh.
From Coq Require Import Lia Permutation.
Local Open Scope N_scope.

Definition tx_key (k : N) : bytes := 3 :: repeat k 31.                      (* 32 bytes, x-only form *)
Definition tx_sig (k : N) : bytes := [7; k].
Definition tx_hash160 (b : bytes) : bytes :=
  match b with
  | _ :: k :: _ => if bytes_eqb b (tx_key k) then repeat k 20 else []
  | _ => []
  end.
Definition tx_e : env :=
  mkEnv SvBase 0 12 2
        (fun key sg => match sg with [7; k] => bytes_eqb key (tx_key k) | _ => false end)
        (fun _ => true) (fun b => b) (fun b => b) (fun b => b) tx_hash160.
Definition tx_ke : keyenv := mkKeyEnv tx_key (fun k => repeat k 20) (fun ks => ks).
Definition tx_unc : key -> bool := CodecExt.is_uncompressed tx_ke.
Definition tx_m : ms := MOrD (MCheck (MPkK 0)) (MAndV (MVerify (MCheck (MPkK 1))) (MOlder 10)).
Definition tx_pub : wit := [[]; [1]; zeros32; tx_key 0; tx_key 1].
Definition tx_W0 : wit := tx_pub.
Definition tx_WA : wit := tx_pub ++ [tx_sig 0].
Definition tx_WB : wit := tx_pub ++ [tx_sig 1].
Definition tx_p : lpolicy := LThresh 1 [LKey 0; LThresh 2 [LKey 1; LOlder 10]].
Definition tx_cb : bytes := 192 :: repeat 5 32.
Definition tx_outkey : bytes := repeat 6 32.
Definition tx_commit (s c : bytes) : bool := bytes_eqb s (encode tx_ke tx_m) && bytes_eqb c tx_cb.

Lemma tx_hash160_key k : tx_hash160 (tx_key k) = repeat k 20.
Proof. unfold tx_hash160, tx_key at 1. cbn [repeat]. change (3 :: k :: repeat k 30) with (tx_key k). rewrite bytes_eqb_refl. reflexivity. Qed.

Lemma tx_hash160_inv b k : tx_hash160 b = repeat k 20 -> b = tx_key k.
Proof.
  unfold tx_hash160. intros H. cbn [repeat] in H.
  destruct b as [|a [|k' r]]; try discriminate H.
  destruct (bytes_eqb (a :: k' :: r) (tx_key k')) eqn:E; [|discriminate H].
  apply bytes_eqb_eq in E. cbn [repeat] in H. inversion H; subst. exact E.
Qed.

Lemma tx_world_ok W : W = tx_W0 \/ W = tx_WA \/ W = tx_WB ->
  ksort_ok tx_ke /\ (forall kbs, e_sigok tx_e kbs [] = false) /\
  tr_world_ok tx_e tx_ke W tx_m /\ unc_agrees tx_ke tx_unc /\ lift_ctx Tap tx_unc tx_m = LOk tx_p /\
  tx_commit (encode tx_ke tx_m) tx_cb = true /\ not_annex tx_cb /\
  (forall sb', tx_commit sb' tx_cb = true -> sb' = encode tx_ke tx_m) /\ blen tx_outkey = 32.
Proof.
  intros HW. split; [intros ks; apply Permutation_refl|]. split; [reflexivity|].
  split; [|split; [intros k; reflexivity|]; split; [vm_compute; reflexivity|]; split; [vm_compute; reflexivity|];
           split; [exact I|]; split; [|reflexivity]].
  2:{ intros sb' H. unfold tx_commit in H. apply andb_prop in H. destruct H as [H _]. apply bytes_eqb_eq in H. exact H. }
  assert (HWin : forall x, In x W -> In x (tx_pub ++ [tx_sig 0; tx_sig 1])).
  { intros x Hx. destruct HW as [->|[->| ->]]; unfold tx_W0, tx_WA, tx_WB in Hx.
    - apply in_or_app. left. exact Hx.
    - apply in_app_or in Hx. apply in_or_app. destruct Hx as [Hx|[<-|[]]]; [left; exact Hx | right; left; reflexivity].
    - apply in_app_or in Hx. apply in_or_app. destruct Hx as [Hx|[<-|[]]]; [left; exact Hx | right; right; left; reflexivity]. }
  assert (Hpub : forall x, In x tx_pub -> In x W).
  { intros x Hx. destruct HW as [->|[->| ->]]; unfold tx_W0, tx_WA, tx_WB; try apply in_or_app; auto. }
  unfold tr_world_ok. split; [|split; [|split; [|split; [|split; [|split; [|split; [|split; [|split]]]]]]]].
  - constructor; intros k.
    + reflexivity.
    + vm_compute. split; reflexivity.
    + cbn [with_sv e_hash160 tx_e tx_ke kb kh]. apply tx_hash160_key.
  - intros k. vm_compute. discriminate.
  - intros x Hx. apply HWin in Hx. cbn in Hx.
    repeat (destruct Hx as [<-|Hx]; [vm_compute; discriminate|]). destruct Hx.
  - split; [apply Hpub; cbn; auto|]. split; [apply Hpub; cbn; auto|]. split; [apply Hpub; cbn; auto|].
    intros k Hk. apply Hpub. cbn in Hk. destruct Hk as [<-|[<-|[]]]; cbn; auto 10.
  - intros k key _ Hh. cbn [with_sv e_hash160 tx_e tx_ke kb kh] in Hh. exact (tx_hash160_inv key k Hh).
  - eexists. split; reflexivity.
  - cbn. repeat split; reflexivity.
  - cbn. repeat split; try reflexivity; try discriminate.
  - reflexivity.
  - vm_compute. reflexivity.
Qed.

Lemma tx_values :
  leval (assets_of (with_sv tx_e SvTapscript) tx_ke tx_WA) tx_p = true /\
  leval (assets_of (with_sv tx_e SvTapscript) tx_ke tx_WB) tx_p = true /\
  leval (assets_of (with_sv tx_e SvTapscript) tx_ke tx_W0) tx_p = false.
Proof. repeat split; vm_compute; reflexivity. Qed.

Lemma tx_verify :
  verify_tr tx_e tx_outkey tx_commit [] ([tx_sig 0] ++ [encode tx_ke tx_m; tx_cb]) = true /\
  verify_spend tx_e tx_commit (spk_tr tx_outkey) [] ([tx_sig 1; []] ++ [encode tx_ke tx_m; tx_cb]) = true /\
  verify_tr tx_e tx_outkey tx_commit [] ([[]; []] ++ [encode tx_ke tx_m; tx_cb]) = false.
Proof. repeat split; vm_compute; reflexivity. Qed.
