(* The try_fold of parse_xkey_deriv on printed tokens, and the index loop of fmt_derivation_paths. *)
From Coq Require Import List Bool NArith Lia Arith.
From Verif Require Import MsTextModel MsTextProofs KeyTextModel KeyTextBasics.
Import ListNotations.
Local Open Scope N_scope.

Lemma child_eqb_eq : forall a b, child_eqb a b = true <-> a = b.
Proof.
  intros [i|i] [j|j]; cbn [child_eqb]; split; intros H; try discriminate; try (apply N.eqb_eq in H; congruence);
    injection H as ->; apply N.eqb_refl.
Qed.
Lemma child_eqb_refl : forall a, child_eqb a a = true.
Proof. intros a. apply child_eqb_eq. reflexivity. Qed.
Lemma child_eqb_neq : forall a b, a <> b -> child_eqb a b = false.
Proof. intros a b H. destruct (child_eqb a b) eqn:E; [apply child_eqb_eq in E; contradiction|reflexivity]. Qed.

Lemma has_dup_nodup : forall l, NoDup l -> has_dup l = false.
Proof.
  induction l as [|x r IH]; intros H; [reflexivity|]. inversion H as [|? ? Hn Hr]; subst.
  cbn [has_dup]. rewrite IH by assumption. rewrite orb_false_r.
  destruct (existsb (child_eqb x) r) eqn:E; [|reflexivity].
  apply existsb_exists in E. destruct E as [y [Hy Hxy]]. apply child_eqb_eq in Hxy. subst. contradiction.
Qed.
Lemma has_dup_false : forall l, has_dup l = false -> NoDup l.
Proof.
  induction l as [|x r IH]; intros H; [constructor|]. cbn [has_dup] in H. apply orb_false_iff in H.
  destruct H as [H1 H2]. constructor; [|apply IH; exact H2].
  intros Hin. assert (existsb (child_eqb x) r = true); [|congruence].
  apply existsb_exists. exists x. split; [exact Hin|apply child_eqb_refl].
Qed.

(* ------------------------------------------------------------------ the fold step *)
Definition step1 (c : child) (ps : list (list child)) : list (list child) :=
  match ps with [] => [[c]] | _ :: _ => map (fun p => p ++ [c]) ps end.
Definition push_all (cs : list child) (ps : list (list child)) : list (list child) :=
  fold_left (fun ps c => step1 c ps) cs ps.

Lemma fold_step_single : forall c ps, fold_step [c] ps = Ok (step1 c ps).
Proof. intros c ps. reflexivity. Qed.

Lemma push_all_ne : forall cs ps, ps <> [] -> push_all cs ps = map (fun p => p ++ cs) ps.
Proof.
  induction cs as [|c r IH]; intros ps Hp.
  - cbn. rewrite <- (map_id ps) at 1. apply map_ext. intros. rewrite app_nil_r. reflexivity.
  - cbn [push_all fold_left]. fold (push_all r (step1 c ps)).
    destruct ps as [|p ps']; [contradiction|]. cbn [step1].
    rewrite IH by discriminate. rewrite map_map. apply map_ext. intros a. rewrite <- app_assoc. reflexivity.
Qed.
Lemma push_all_nil : forall cs, push_all cs [] = match cs with [] => [] | _ :: _ => [cs] end.
Proof.
  intros [|c r]; [reflexivity|]. cbn [push_all fold_left step1]. fold (push_all r [[c]]).
  rewrite push_all_ne by discriminate. reflexivity.
Qed.

Lemma set_last_at_end : forall D p x, p <> [] ->
  set_last_at (length D) x (D ++ [p]) = Some (D ++ [removelast p ++ [x]]).
Proof.
  induction D as [|d D IH]; intros p x Hp.
  - cbn. destruct p; [contradiction|reflexivity].
  - cbn [length app set_last_at]. rewrite IH by exact Hp. reflexivity.
Qed.

Lemma fold_more_spec : forall more done q a0,
  fold_more more (length done) ((q ++ [a0]) :: map (fun a => q ++ [a]) done)
  = Ok ((q ++ [a0]) :: map (fun a => q ++ [a]) (done ++ more)).
Proof.
  induction more as [|m more IH]; intros done q a0.
  - rewrite app_nil_r. reflexivity.
  - cbn [fold_more].
    assert (E : set_last_at (S (length done)) m (((q ++ [a0]) :: map (fun a => q ++ [a]) done) ++ [q ++ [a0]])
                = Some ((q ++ [a0]) :: map (fun a => q ++ [a]) (done ++ [m]))).
    { cbn [app set_last_at].
      replace (length done) with (length (map (fun a => q ++ [a]) done)) by apply map_length.
      rewrite set_last_at_end by (destruct q; discriminate).
      rewrite removelast_last, map_app. reflexivity. }
    rewrite E. replace (S (length done)) with (length (done ++ [m])) by (rewrite app_length; cbn; lia).
    rewrite IH. rewrite <- app_assoc. reflexivity.
Qed.

(* a multipath step on at most one path so far *)
Lemma fold_step_multi : forall a0 more ps q, (ps = [] /\ q = [] \/ ps = [q]) ->
  fold_step (a0 :: more) ps = Ok (map (fun a => q ++ [a]) (a0 :: more)).
Proof.
  intros a0 more ps q H. unfold fold_step.
  assert (E : match ps with [] => [[a0]] | _ :: _ => map (fun p => p ++ [a0]) ps end = [q ++ [a0]]).
  { destruct H as [[-> ->]| ->]; reflexivity. }
  rewrite E. pose proof (fold_more_spec more [] q a0) as F. cbn [length map app] in F. exact F.
Qed.

(* ------------------------------------------------------------------ tokens *)
Definition multi_tok (alts : list child) : tbytes := CH_LT :: join_semi (map print_child alts) ++ [CH_GT].
Definition wild_toks (w : wildcard) : list tbytes :=
  match w with WNone => [] | WUnh => [W_STAR] | WHard => [W_STAR_H] end.

Lemma loop_wild : forall w m ps, deriv_loop (wild_toks w) WNone m ps = Ok (ps, w).
Proof. intros [| |] m ps; reflexivity. Qed.

Lemma loop_children : forall cs rest m ps, Forall wfc cs ->
  deriv_loop (map print_child cs ++ rest) WNone m ps = deriv_loop rest WNone m (push_all cs ps).
Proof.
  induction cs as [|c r IH]; intros rest m ps H; [reflexivity|]. inversion H; subst.
  cbn [map app deriv_loop].
  pose proof (child_rt c ltac:(assumption)) as Hc.
  destruct (print_child_head c) as [d [t [E Hd]]]. rewrite E in *.
  cbn [tb_eqb W_STAR W_STAR_AP W_STAR_H starts_with].
  unfold W_STAR, W_STAR_AP, W_STAR_H. cbn [tb_eqb].
  rewrite (digit_not d 42 Hd) by lia. unfold CH_LT. rewrite (digit_not d 60 Hd) by lia.
  cbn [andb orb]. rewrite Hc. rewrite fold_step_single.
  rewrite IH by assumption. reflexivity.
Qed.

Lemma join_semi_split : forall cs, cs <> [] ->
  split_on CH_SEMI (join_semi (map print_child cs)) = map print_child cs.
Proof.
  assert (Hf : forall c, free CH_SEMI (print_child c) = true).
  { intros c. unfold free. eapply forallb_imp; [|apply print_child_chars].
    intros x Hx. apply childch_free; [exact Hx|]. unfold CH_SEMI. lia. }
  induction cs as [|c r IH]; intros Hn; [contradiction|].
  destruct r as [|c' r'].
  - cbn [map join_semi]. apply split_on_free. apply Hf.
  - change (join_semi (map print_child (c :: c' :: r')))
      with (print_child c ++ CH_SEMI :: join_semi (map print_child (c' :: r'))).
    rewrite split_on_app by apply Hf. rewrite IH by discriminate. reflexivity.
Qed.

Lemma join_semi_len : forall a b r, (3 <= length (join_semi (map print_child (a :: b :: r))))%nat.
Proof.
  intros a b r. change (join_semi (map print_child (a :: b :: r)))
    with (print_child a ++ CH_SEMI :: join_semi (map print_child (b :: r))).
  destruct (print_child_head a) as [d [t [E _]]]. rewrite E.
  assert (1 <= length (join_semi (map print_child (b :: r))))%nat.
  { destruct (print_child_head b) as [d' [t' [E' _]]]. destruct r; cbn [map join_semi]; rewrite E'; cbn; lia. }
  cbn [app length]. rewrite app_length. cbn [length]. lia.
Qed.
Lemma join_semi_has : forall a b r, existsb (fun c => c =? CH_SEMI) (join_semi (map print_child (a :: b :: r))) = true.
Proof.
  intros a b r. change (join_semi (map print_child (a :: b :: r)))
    with (print_child a ++ CH_SEMI :: join_semi (map print_child (b :: r))).
  rewrite existsb_app. apply orb_true_iff. right. cbn [existsb]. rewrite N.eqb_refl. reflexivity.
Qed.

Lemma middle_spec : forall a X b, X <> [] -> middle (a :: X ++ [b]) = Some X.
Proof.
  intros a X b HX. destruct X as [|x X']; [contradiction|]. cbn [app middle].
  change (x :: X' ++ [b]) with ((x :: X') ++ [b]). rewrite removelast_last. reflexivity.
Qed.

Lemma loop_multi : forall a0 a1 more rest ps q,
  Forall wfc (a0 :: a1 :: more) -> NoDup (a0 :: a1 :: more) -> (ps = [] /\ q = [] \/ ps = [q]) ->
  deriv_loop (multi_tok (a0 :: a1 :: more) :: rest) WNone false ps
  = deriv_loop rest WNone true (map (fun a => q ++ [a]) (a0 :: a1 :: more)).
Proof.
  intros a0 a1 more rest ps q Hw Hn Hq.
  set (alts := a0 :: a1 :: more) in *. set (J := join_semi (map print_child alts)).
  assert (HJ3 : (3 <= length J)%nat) by apply join_semi_len.
  assert (HJn : J <> []) by (intros E; rewrite E in HJ3; cbn in HJ3; lia).
  cbn [deriv_loop]. unfold multi_tok. fold J.
  unfold W_STAR, W_STAR_AP, W_STAR_H, CH_LT. cbn [tb_eqb]. cbn [N.eqb Pos.eqb andb orb starts_with].
  assert (He : ends_with CH_GT (60 :: J ++ [CH_GT]) = true).
  { unfold ends_with. change (60 :: J ++ [CH_GT]) with ((60 :: J) ++ [CH_GT]). rewrite last_last. apply N.eqb_refl. }
  rewrite He. cbn [andb].
  assert (Hl : len (60 :: J ++ [CH_GT]) <? 5 = false).
  { apply N.ltb_ge. unfold len. cbn [length]. rewrite app_length. cbn [length]. lia. }
  rewrite Hl. cbn [orb].
  assert (Hs : existsb (fun c => c =? CH_SEMI) (60 :: J ++ [CH_GT]) = true).
  { cbn [existsb]. rewrite existsb_app. unfold J, alts. rewrite join_semi_has. rewrite orb_true_r. reflexivity. }
  rewrite Hs. cbn [negb].
  rewrite middle_spec by exact HJn. unfold J. rewrite join_semi_split by discriminate.
  rewrite collect_rt by exact Hw. rewrite has_dup_nodup by exact Hn.
  unfold alts. rewrite (fold_step_multi a0 (a1 :: more) ps q Hq). reflexivity.
Qed.

(* ------------------------------------------------------------------ the printer's index loop *)
Lemma fmt_path_tokens : forall p, fmt_path p = flat_map (fun t => CH_SLASH :: t) (map print_child p).
Proof. induction p as [|c r IH]; [reflexivity|]. cbn [fmt_path flat_map map]. fold (fmt_path r). rewrite IH. reflexivity. Qed.
Lemma fmt_wild_tokens : forall w, fmt_wild w = flat_map (fun t => CH_SLASH :: t) (wild_toks w).
Proof. intros [| |]; reflexivity. Qed.

Lemma seg_eq : forall pa p1 rest l i tail T,
  (forall k c, nth_error l k = Some c -> nth_error p1 (i + k) = Some c) ->
  fmt_paths_loop (pa :: p1 :: rest) (i + length l) tail = Some T ->
  fmt_paths_loop (pa :: p1 :: rest) i (l ++ tail) = Some (fmt_path l ++ T).
Proof.
  intros pa p1 rest. induction l as [|c l IH]; intros i tail T Hk HT.
  - cbn [length app] in *. rewrite Nat.add_0_r in HT. exact HT.
  - cbn [app fmt_paths_loop].
    pose proof (Hk 0%nat c eq_refl) as H0. rewrite Nat.add_0_r in H0. rewrite H0.
    rewrite child_eqb_refl. cbn [negb].
    rewrite (IH (S i) tail T).
    + cbn [fmt_path flat_map]. fold (fmt_path l). rewrite <- app_assoc. reflexivity.
    + intros k c' Hc'. replace (S i + k)%nat with (i + S k)%nat by lia. apply Hk. exact Hc'.
    + replace (S i + length l)%nat with (i + length (c :: l))%nat by (cbn [length]; lia). exact HT.
Qed.

Lemma nth_all_mid : forall pre post alts,
  nth_all (length pre) (map (fun a => pre ++ a :: post) alts) = Some alts.
Proof.
  intros pre post. induction alts as [|a r IH]; [reflexivity|].
  cbn [map nth_all]. rewrite nth_error_app2 by lia. rewrite Nat.sub_diag. cbn [nth_error]. rewrite IH. reflexivity.
Qed.

Lemma fmt_paths_spec : forall pre post a0 a1 more, a0 <> a1 ->
  fmt_paths_loop (map (fun a => pre ++ a :: post) (a0 :: a1 :: more)) 0 (pre ++ a0 :: post)
  = Some (fmt_path pre ++ CH_SLASH :: multi_tok (a0 :: a1 :: more) ++ fmt_path post).
Proof.
  intros pre post a0 a1 more Hne.
  set (alts := a0 :: a1 :: more).
  assert (Hp : map (fun a => pre ++ a :: post) alts
               = (pre ++ a0 :: post) :: (pre ++ a1 :: post) :: map (fun a => pre ++ a :: post) more) by reflexivity.
  rewrite Hp.
  apply seg_eq.
  - intros k c Hc. cbn [Nat.add]. rewrite nth_error_app1; [exact Hc|]. apply nth_error_Some. congruence.
  - cbn [Nat.add fmt_paths_loop].
    rewrite nth_error_app2 by lia. rewrite Nat.sub_diag. cbn [nth_error].
    rewrite (child_eqb_neq a0 a1 Hne). cbn [negb].
    rewrite <- Hp. rewrite nth_all_mid. rewrite Hp.
    pose proof (seg_eq (pre ++ a0 :: post) (pre ++ a1 :: post) (map (fun a => pre ++ a :: post) more)
                       post (S (length pre)) [] []) as S2.
    rewrite app_nil_r in S2. rewrite S2.
    + unfold multi_tok. cbn [app]. rewrite app_nil_r. rewrite <- app_assoc. reflexivity.
    + intros k c Hc. rewrite nth_error_app2 by lia.
      replace (S (length pre) + k - length pre)%nat with (S k) by lia. cbn [nth_error]. exact Hc.
    + reflexivity.
Qed.
