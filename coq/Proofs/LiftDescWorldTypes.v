(* C07 at descriptor level: the equivalence for a world, for the output types that wrap a Segwitv0
   script, through the dispatcher:
     wsh_dispatch_spending_condition     verify_spend on the P2WSH scriptPubKey
     shwsh_spending_condition            verify_sh, ANY scriptSig
     shwsh_dispatch_spending_condition   verify_spend on the P2SH-P2WSH scriptPubKey *)
From Verif Require Import Exec Ser Spend Ast Types TypeCheck SatSpec Sat LiftModel LiftLimits TheoremA SatProofs FrameDissat
  CompleteProofs CompleteThresh CompleteNonMall CompleteScript DenotSpec DenotMain DenotTable
  LiftProofs LiftNormProofs LiftMainProofs LiftFullProofs.
From Verif Require Import CodecSpec SerProofs EncProofs DescSpendModel DescSpendPush DescSpendProofs NonMallUniqueStatic
  LiftDescWsh LiftDescWorld LiftDescTypes.
From Verif Require CodecExt ExtModel ExtProofs ExtCodec.
From Coq Require Import Lia Permutation.
Local Open Scope N_scope.

Section WorldTypes.
  Variable e : env.
  Variable ke : keyenv.
  Hypothesis Hks : ksort_ok ke.
  Hypothesis Hse : forall kbs, e_sigok e kbs [] = false.
  Notation e0 := (with_sv e SvWitnessV0).
  Variables (W : wit) (unc : key -> bool) (m : ms) (p : lpolicy).
  Hypothesis Hok : wsh_world_ok e ke W m.
  Hypothesis Hu : unc_agrees ke unc.
  Hypothesis Hl : lift_ctx Segwitv0 unc m = LOk p.
  Notation sb := (encode ke m).

  (* the satisfier's view of the world: a witness-producing function [K] of the Segwit section applies *)
  Lemma world_view (Q : list bytes -> Prop) :
    (forall (A : assets) (se : senv) (f : fill) (t : ty),
       linked ke A se f -> locks_compatible se -> type_of m = ROk t -> c_base (t_corr t) = BB ->
       assets_ok e0 ke A -> wf e0 ke m -> ms_wf Segwitv0 ke m -> ExtCodec.ctx_frag_ok Segwitv0 m = true ->
       ExtProofs.senv_ok (ExtCodec.xctx_of Segwitv0 ke) se -> thresh_fit ke se true m -> small_material ke A 80 ->
       leval A p = true ->
       exists bs, satisfy ke se f true true m = Some bs /\ Q bs) ->
    leval (assets_of e0 ke W) p = true -> exists bs, incl bs W /\ Q bs.
  Proof.
    intros K Hev.
    destruct Hok as (HK & Hkb & Hlen & Hpub & Hkh & (t & Ht & Hbb) & Hwf & Hmw & Hfr & Hme & Hcol).
    assert (Hlen' : forall x, In x W -> (blen x < 2147483648)%N) by (intros x Hx; specialize (Hlen x Hx); lia).
    pose proof (assets_of_ok e0 ke W HK Hlen') as HA.
    pose proof Hl as Hl'. unfold lift_ctx in Hl'. apply lift_iter_some in Hl'.
    set (A := clip_locks (assets_of e0 ke W)).
    assert (Hev' : leval A p = true) by (unfold A; rewrite (leval_clip e0 ke Hks _ _ m t p Ht Hwf Hl'); exact Hev).
    assert (Hsm : small_material ke A 80).
    { split; [exact Hkb|]. intros k s Hf. apply Hlen. cbn [A clip_locks assets_of a_sig] in Hf. exact (find_in _ _ _ Hf). }
    destruct (K A (se_of A) (f_of ke A) t (linked_of ke A) (clip_locks_compatible e0 ke W) Ht Hbb (clip_assets_ok e0 ke _ HA)
                Hwf Hmw Hfr (senv_ok_se_of Segwitv0 ke A eq_refl) (thresh_fit_se_of ke A true m Hme) Hsm Hev') as [bs [Hsat HQ]].
    exists bs. split; [|exact HQ].
    exact (satisfy_over_world e0 ke W A (se_of A) (f_of ke A) (linked_of ke A) (ksort_ok_len ke Hks)
             (material_in_world e0 ke W) true true m bs Hwf Hpub Hsat).
  Qed.

  Theorem wsh_dispatch_spending_condition (commit_ok : bytes -> bytes -> bool) :
    blen (e_sha256 e sb) = 32 ->
    (leval (assets_of e0 ke W) p = true <->
     exists items sb', incl items W /\ verify_spend e commit_ok (spk_wsh e sb) [] (items ++ [sb']) = true).
  Proof.
    intros H32. split.
    - intros Hev.
      destruct (world_view (fun bs => verify_spend e commit_ok (spk_wsh e sb) [] (bs ++ [sb]) = true)) as [bs [Hin Hv]]; [|exact Hev|].
      + intros A se f t HL HC Ht Hbb HA Hwf Hmw Hfr Hsenv Hfit Hsm Hev'.
        exact (wsh_dispatch_invents e ke Hks Hse A se f HL HC unc true m t p Ht Hbb HA Hwf Hmw Hfr Hu Hsenv Hfit Hsm Hl Hev' commit_ok H32).
      + exists bs, sb. split; assumption.
    - intros (items & sb' & Hin & Hv).
      destruct Hok as (_ & _ & _ & _ & Hkh & (t & Ht & Hbb) & Hwf & Hmw & _ & _ & Hcol).
      pose proof Hl as Hl'. unfold lift_ctx in Hl'. apply lift_iter_some in Hl'.
      exact (wsh_dispatch_hides e ke Hks Hse W _ m t p Ht Hbb Hl' commit_ok Hkh Hwf Hmw H32 [] items sb' (Hcol sb') Hin Hv).
  Qed.

  Theorem shwsh_spending_condition :
    blen (e_sha256 e sb) = 32 ->
    (forall rb, e_hash160 e rb = e_hash160 e (spk_wsh e sb) -> rb = spk_wsh e sb) ->
    (leval (assets_of e0 ke W) p = true <->
     exists ssig items sb', incl items W /\ verify_sh e (e_hash160 e (spk_wsh e sb)) ssig (items ++ [sb']) = true).
  Proof.
    intros H32 Hc160. split.
    - intros Hev.
      destruct (world_view (fun bs => verify_sh e (e_hash160 e (spk_wsh e sb)) (ssig_shwsh e sb) (bs ++ [sb]) = true)) as [bs [Hin Hv]]; [|exact Hev|].
      + intros A se f t HL HC Ht Hbb HA Hwf Hmw Hfr Hsenv Hfit Hsm Hev'.
        exact (shwsh_invents_no_path e ke Hks Hse A se f HL HC unc true m t p Ht Hbb HA Hwf Hmw Hfr Hu Hsenv Hfit Hsm Hl Hev' H32).
      + exists (ssig_shwsh e sb), bs, sb. split; assumption.
    - intros (ssig & items & sb' & Hin & Hv).
      destruct Hok as (_ & _ & _ & _ & Hkh & (t & Ht & Hbb) & Hwf & Hmw & _ & _ & Hcol).
      pose proof Hl as Hl'. unfold lift_ctx in Hl'. apply lift_iter_some in Hl'.
      exact (shwsh_hides_no_path e ke Hks Hse W _ m t p Ht Hbb Hl' Hkh Hwf Hmw H32 Hc160 ssig items sb' (Hcol sb') Hin Hv).
  Qed.

  Theorem shwsh_dispatch_spending_condition (commit_ok : bytes -> bytes -> bool) :
    blen (e_sha256 e sb) = 32 -> blen (e_hash160 e (spk_wsh e sb)) = 20 ->
    (forall rb, e_hash160 e rb = e_hash160 e (spk_wsh e sb) -> rb = spk_wsh e sb) ->
    (leval (assets_of e0 ke W) p = true <->
     exists ssig items sb', incl items W /\ verify_spend e commit_ok (spk_shwsh e sb) ssig (items ++ [sb']) = true).
  Proof.
    intros H32 H20 Hc160. split.
    - intros Hev.
      destruct (world_view (fun bs => verify_spend e commit_ok (spk_shwsh e sb) (ssig_shwsh e sb) (bs ++ [sb]) = true)) as [bs [Hin Hv]]; [|exact Hev|].
      + intros A se f t HL HC Ht Hbb HA Hwf Hmw Hfr Hsenv Hfit Hsm Hev'.
        exact (shwsh_dispatch_invents e ke Hks Hse A se f HL HC unc true m t p Ht Hbb HA Hwf Hmw Hfr Hu Hsenv Hfit Hsm Hl Hev' commit_ok H32 H20).
      + exists (ssig_shwsh e sb), bs, sb. split; assumption.
    - intros (ssig & items & sb' & Hin & Hv).
      destruct Hok as (_ & _ & _ & _ & Hkh & (t & Ht & Hbb) & Hwf & Hmw & _ & _ & Hcol).
      pose proof Hl as Hl'. unfold lift_ctx in Hl'. apply lift_iter_some in Hl'.
      exact (shwsh_dispatch_hides e ke Hks Hse W _ m t p Ht Hbb Hl' commit_ok Hkh Hwf Hmw H32 H20 Hc160 ssig items sb' (Hcol sb') Hin Hv).
  Qed.
End WorldTypes.
