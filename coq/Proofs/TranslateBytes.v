(* C20 (extension round 2) -- script preservation as a byte-level rewrite of the ORIGINAL script:
   [enc] commutes with the substitution of keys and hashes, the substitution acting on the script as the
   positional rewrite [rw] of Ms/ScriptRewrite.v (fragments without sortedmulti / sortedmulti_a). *)
From Coq Require Import List ZArith NArith Bool Lia.
From Verif Require Import CodecSpec ScriptRewrite TranslateProofs TranslateHashProofs TranslateHashDescProofs TheoremA EncProofs SerProofs.
Import ListNotations.

Lemma rws_is_rw : forall s l,
  (fix rws (s : list instr) (l : list (option bytes)) : list instr * list (option bytes) :=
     match s with
     | [] => ([], l)
     | x :: r => let (x', l1) := rw_i x l in let (r', l2) := rws r l1 in (x' :: r', l2)
     end) s l = rw s l.
Proof. induction s as [|x r IH]; intros l; [reflexivity|]. cbn [rw]. destruct (rw_i x l). rewrite IH. reflexivity. Qed.

Lemma rw_i_if : forall neg thn els l,
  rw_i (IIf neg thn els) l =
  let (thn', l1) := rw thn l in
  match els with
  | None => (IIf neg thn' None, l1)
  | Some e => let (e', l2) := rw e l1 in (IIf neg thn' (Some e'), l2)
  end.
Proof.
  intros. cbn [rw_i]. rewrite rws_is_rw. destruct (rw thn l) as [t' l1]. destruct els as [e|]; [|reflexivity].
  rewrite rws_is_rw. reflexivity.
Qed.

Lemma rw_cons : forall x r l, rw (x :: r) l = let (x', l1) := rw_i x l in let (r', l2) := rw r l1 in (x' :: r', l2).
Proof. reflexivity. Qed.

Lemma rw_app : forall a b l,
  rw (a ++ b) l = let (a', l1) := rw a l in let (b', l2) := rw b l1 in (a' ++ b', l2).
Proof.
  induction a as [|x a IH]; intros b l.
  - cbn [app rw]. destruct (rw b l). reflexivity.
  - cbn [app]. rewrite !rw_cons. destruct (rw_i x l) as [x' l1]. rewrite IH.
    destruct (rw a l1) as [a' l2]. destruct (rw b l2) as [b' l3]. reflexivity.
Qed.

(* what a rewrite does to a script that is followed by more script *)
Lemma rw_app_eq : forall a b l a' l1 b' l2,
  rw a l = (a', l1) -> rw b l1 = (b', l2) -> rw (a ++ b) l = (a' ++ b', l2).
Proof. intros. rewrite rw_app, H, H0. reflexivity. Qed.

Lemma rw_op : forall o r l, rw (IOp o :: r) l = let (r', l') := rw r l in (IOp o :: r', l').
Proof. reflexivity. Qed.
Lemma rw_tail_op : forall o l, rw [IOp o] l = ([IOp o], l).
Proof. reflexivity. Qed.
Lemma rw_num : forall n r l, rw (INum n :: r) l = let (r', l') := rw r l in (INum n :: r', l').
Proof. reflexivity. Qed.
Lemma rw_push : forall b o r l, rw (IPush b :: r) (o :: l) =
  let (r', l') := rw r l in (IPush (match o with Some b' => b' | None => b end) :: r', l').
Proof. reflexivity. Qed.

(* the rewrite keeps everything push_verify looks at *)
Lemma rw_i_op_shape : forall i l o, fst (rw_i i l) = IOp o <-> i = IOp o.
Proof.
  intros i l o. destruct i as [b|n|o'|neg thn els].
  2-3: (cbn [rw_i fst]; split; intro H; inversion H; reflexivity).
  - cbn [rw_i fst]. destruct l as [|x l]; cbn; split; intro H; inversion H.
  - rewrite rw_i_if. destruct (rw thn l). destruct els as [e|]; [destruct (rw e l0)|]; cbn; split; intro H; inversion H.
Qed.

Lemma rw_push_verify : forall s l s' l', rw s l = (s', l') -> rw (push_verify s) l = (push_verify s', l').
Proof.
  induction s as [|i r IH]; intros l s' l' H.
  - cbn in H. inversion H; subst. reflexivity.
  - rewrite rw_cons in H. destruct (rw_i i l) as [i' l1] eqn:Ei. destruct (rw r l1) as [r' l2] eqn:Er. inversion H; subst. clear H.
    destruct r as [|j r].
    + cbn in Er. inversion Er; subst. clear Er.
      destruct i as [b|n|o|neg thn els].
      * cbn [rw_i] in Ei. destruct l as [|x l]; inversion Ei; subst; reflexivity.
      * cbn [rw_i] in Ei. inversion Ei; subst. reflexivity.
      * cbn [rw_i] in Ei. inversion Ei; subst. cbn [push_verify]. destruct (verify_form o); reflexivity.
      * assert (Hi : forall o, i' <> IOp o).
        { intros o E. pose proof (proj1 (rw_i_op_shape (IIf neg thn els) l o)) as K. rewrite Ei in K. cbn in K. specialize (K E). discriminate. }
        cbn [push_verify]. rewrite rw_cons, Ei. cbn [rw].
        destruct i' as [b|n|o|neg' thn' els']; try reflexivity. exfalso. apply (Hi o). reflexivity.
    + rewrite push_verify_cons. rewrite rw_cons, Ei. rewrite (IH _ _ _ Er).
      destruct r' as [|j' r'].
      * rewrite rw_cons in Er. destruct (rw_i j l1). destruct (rw r l0). inversion Er.
      * rewrite push_verify_cons. reflexivity.
Qed.

Section Bytes.
  Variable ke ke' : keyenv.
  Variable g : key -> key.
  Variable gh : hkind -> bytes -> bytes.

  Notation sub := (map_atoms g gh).
  Notation S := (slots ke' g gh).

  Definition Pm (m : ms) : Prop := forall l, rw (enc ke m) (S m ++ l) = (enc ke' (sub m), l).

  Lemma slots_app2 : forall (a b : list (option patom)) l,
    map (option_map (image ke' g gh)) (a ++ b) ++ l =
    map (option_map (image ke' g gh)) a ++ (map (option_map (image ke' g gh)) b ++ l).
  Proof. intros. rewrite map_app, <- app_assoc. reflexivity. Qed.

  Lemma rw_push_int : forall n r l,
    rw (push_int n :: r) (map (option_map (image ke' g gh)) (int_slot n) ++ l) =
    let (r', l') := rw r l in (push_int n :: r', l').
  Proof.
    intros n r l. unfold int_slot. destruct (push_int n) as [b|z|o|neg thn els] eqn:E; try reflexivity.
    unfold push_int in E. repeat match type of E with (if ?c then _ else _) = _ => destruct c end; discriminate.
  Qed.

  Lemma rw_keys : forall ks r l,
    rw (map (fun key => IPush (kb ke key)) ks ++ r) (map (option_map (image ke' g gh)) (map (fun key => Some (PKb key)) ks) ++ l) =
    let (r', l') := rw r l in (map (fun key => IPush (kb ke' key)) (map g ks) ++ r', l').
  Proof.
    induction ks as [|k ks IH]; intros r l; [cbn [map app]; destruct (rw r l); reflexivity|].
    cbn [map app option_map image]. rewrite rw_push, IH. destruct (rw r l). reflexivity.
  Qed.

  Lemma rw_keys_a : forall ks r l,
    rw (flat_map (fun key => [IPush (kb ke key); IOp OP_CHECKSIGADD]) ks ++ r)
       (map (option_map (image ke' g gh)) (map (fun key => Some (PKb key)) ks) ++ l) =
    let (r', l') := rw r l in (flat_map (fun key => [IPush (kb ke' key); IOp OP_CHECKSIGADD]) (map g ks) ++ r', l').
  Proof.
    induction ks as [|k ks IH]; intros r l; [cbn [map flat_map app]; destruct (rw r l); reflexivity|].
    cbn [map flat_map app option_map image]. rewrite rw_push, rw_op, IH. destruct (rw r l). reflexivity.
  Qed.

  Ltac un1 IH := intros Hn l; cbn [no_sorted] in Hn; specialize (IH Hn).

  Lemma hash_case : forall o hk h l,
    rw (hash_frag o h) (map (option_map (image ke' g gh)) (int_slot 32 ++ [Some (PHash hk h)]) ++ l) = (hash_frag o (gh hk h), l).
  Proof. intros. reflexivity. Qed.

  Theorem enc_commutes : forall m, no_sorted m = true -> Pm m.
  Proof.
    unfold Pm, slots.
    induction m using ms_ind'; cbn [no_sorted]; intros Hn l; cbn [pslots enc map_atoms];
      try (apply andb_prop in Hn; destruct Hn as [Hn1 Hn2]); try discriminate.
    - reflexivity.
    - reflexivity.
    - reflexivity.
    - reflexivity.
    - reflexivity.
    - (* after *) rewrite rw_push_int. reflexivity.
    - rewrite rw_push_int. reflexivity.
    - apply hash_case.
    - apply hash_case.
    - apply hash_case.
    - apply hash_case.
    - (* alt *) cbn [app]. rewrite rw_op. rewrite (rw_app_eq _ _ _ _ _ _ _ (IHm Hn l) (rw_tail_op _ _)). reflexivity.
    - (* swap *) cbn [app]. rewrite rw_op, (IHm Hn l). reflexivity.
    - (* check *) rewrite (rw_app_eq _ _ _ _ _ _ _ (IHm Hn l) (rw_tail_op _ _)). reflexivity.
    - (* dupif *) rewrite rw_op, rw_cons, rw_i_if, (IHm Hn l). reflexivity.
    - (* verify *) apply rw_push_verify. apply IHm. exact Hn.
    - (* nonzero *) rewrite !rw_op, rw_cons, rw_i_if, (IHm Hn l). reflexivity.
    - (* zne *) rewrite (rw_app_eq _ _ _ _ _ _ _ (IHm Hn l) (rw_tail_op _ _)). reflexivity.
    - (* and_v *) rewrite slots_app2. rewrite (rw_app_eq _ _ _ _ _ _ _ (IHm1 Hn1 _) (IHm2 Hn2 l)). reflexivity.
    - (* and_b *) rewrite slots_app2. rewrite (rw_app_eq _ _ _ _ _ _ _ (IHm1 Hn1 _) (rw_app_eq _ _ _ _ _ _ _ (IHm2 Hn2 l) (rw_tail_op _ _))). reflexivity.
    - (* andor *) apply andb_prop in Hn1. destruct Hn1 as [Hna Hnb].
      rewrite slots_app2, slots_app2.
      assert (E : rw [IIf true (enc ke m3) (Some (enc ke m2))]
                     (map (option_map (image ke' g gh)) (pslots m3) ++ map (option_map (image ke' g gh)) (pslots m2) ++ l)
                  = ([IIf true (enc ke' (sub m3)) (Some (enc ke' (sub m2)))], l)).
      { rewrite rw_cons, rw_i_if, (IHm3 Hn2 _), (IHm2 Hnb l). reflexivity. }
      rewrite (rw_app_eq _ _ _ _ _ _ _ (IHm1 Hna _) E). reflexivity.
    - (* or_b *) rewrite slots_app2. rewrite (rw_app_eq _ _ _ _ _ _ _ (IHm1 Hn1 _) (rw_app_eq _ _ _ _ _ _ _ (IHm2 Hn2 l) (rw_tail_op _ _))). reflexivity.
    - (* or_d *) rewrite slots_app2.
      assert (E : rw [IOp OP_IFDUP; IIf true (enc ke m2) None] (map (option_map (image ke' g gh)) (pslots m2) ++ l)
                  = ([IOp OP_IFDUP; IIf true (enc ke' (sub m2)) None], l)).
      { rewrite rw_op, rw_cons, rw_i_if, (IHm2 Hn2 l). reflexivity. }
      rewrite (rw_app_eq _ _ _ _ _ _ _ (IHm1 Hn1 _) E). reflexivity.
    - (* or_c *) rewrite slots_app2.
      assert (E : rw [IIf true (enc ke m2) None] (map (option_map (image ke' g gh)) (pslots m2) ++ l)
                  = ([IIf true (enc ke' (sub m2)) None], l)).
      { rewrite rw_cons, rw_i_if, (IHm2 Hn2 l). reflexivity. }
      rewrite (rw_app_eq _ _ _ _ _ _ _ (IHm1 Hn1 _) E). reflexivity.
    - (* or_i *) rewrite slots_app2. rewrite rw_cons, rw_i_if, (IHm1 Hn1 _), (IHm2 Hn2 l). reflexivity.
    - (* thresh *)
      rewrite slots_app2.
      assert (T : rw [push_int (Z.of_N k); IOp OP_EQUAL] (map (option_map (image ke' g gh)) (int_slot (Z.of_N k)) ++ l)
                  = ([push_int (Z.of_N k); IOp OP_EQUAL], l)) by (rewrite rw_push_int; reflexivity).
      destruct xs as [|x0 rest].
      + cbn [flat_map map app]. exact T.
      + inversion H as [|? ? Hx Hr]; subst. cbn [forallb] in Hn. apply andb_prop in Hn. destruct Hn as [Hn0 Hnr].
        cbn [flat_map map]. rewrite slots_app2.
        refine (rw_app_eq _ _ _ _ _ _ _ _ T).
        refine (rw_app_eq _ _ _ _ _ _ _ (Hx Hn0 _) _).
        clear Hx H T. revert Hr Hnr. generalize (map (option_map (image ke' g gh)) (int_slot (Z.of_N k)) ++ l) as l0.
        induction rest as [|x r IHr]; intros l0 Hr Hnr; [reflexivity|].
        inversion Hr as [|? ? Hx Hr']; subst. cbn [forallb] in Hnr. apply andb_prop in Hnr. destruct Hnr as [Hnx Hnr].
        cbn [flat_map map]. rewrite slots_app2.
        refine (rw_app_eq _ _ _ _ _ _ _ (Hx Hnx _) _). cbn [app]. rewrite rw_op. rewrite (IHr _ Hr' Hnr). reflexivity.
    - (* multi *)
      rewrite slots_app2, slots_app2. cbn [app]. rewrite rw_push_int, rw_keys, rw_push_int. cbn [rw].
      rewrite map_length. reflexivity.
    - (* multi_a *)
      rewrite slots_app2.
      assert (T : rw [push_int (Z.of_N k); IOp OP_NUMEQUAL] (map (option_map (image ke' g gh)) (int_slot (Z.of_N k)) ++ l)
                  = ([push_int (Z.of_N k); IOp OP_NUMEQUAL], l)) by (rewrite rw_push_int; reflexivity).
      destruct ks as [|k0 rest]; [exact T|].
      cbn [map app option_map image]. rewrite rw_push, rw_op, rw_keys_a, T. reflexivity.
  Qed.

  (* the structured form: the encoding of the substituted term is the original encoding with its atom pushes replaced *)
  Theorem enc_map_atoms_rewrite : forall m, no_sorted m = true ->
    rw (enc ke m) (S m) = (enc ke' (sub m), []).
  Proof. intros m Hn. pose proof (enc_commutes m Hn []) as H. rewrite app_nil_r in H. exact H. Qed.
End Bytes.

(* the rewrite with the ORIGINAL atoms is the identity: the designated positions are where the atoms are pushed *)
Theorem rw_original_id : forall ke m, no_sorted m = true ->
  rw (enc ke m) (slots ke (fun k => k) (fun _ h => h) m) = (enc ke m, []).
Proof.
  intros ke m Hn. pose proof (enc_map_atoms_rewrite ke ke (fun k => k) (fun _ h => h) m Hn) as H.
  rewrite (map_atoms_id (fun k => k) (fun _ h => h)) in H by reflexivity. exact H.
Qed.

(* byte level: the serialised script of the substituted term is the rewrite of the ORIGINAL serialised script *)
Theorem encode_map_atoms_rewrite : forall c ke ke' g gh m, ksort_ok ke -> ms_wf c ke m -> no_sorted m = true ->
  rewrite_bytes (encode ke m) (slots ke' g gh m) = Some (encode ke' (map_atoms g gh m)).
Proof.
  intros c ke ke' g gh m Hs Hw Hn. unfold rewrite_bytes. rewrite (parse_encode c ke Hs m Hw).
  rewrite (enc_map_atoms_rewrite ke ke' g gh m Hn). reflexivity.
Qed.

(* and for the translation as coded: a successful translate_pk_ctx returns a term whose script is that rewrite *)
Theorem translate_bytes : forall c ke ke' fp fhp chk m m', ksort_ok ke -> ms_wf c ke m -> no_sorted m = true ->
  translate_iter_h (fun _ => fp) (fun _ => fhp) chk m = TOk m' ->
  rewrite_bytes (encode ke m) (slots ke' (total fp) (total_h fhp) m) = Some (encode ke' m').
Proof.
  intros c ke ke' fp fhp chk m m' Hs Hw Hn E. destruct (iter_h_structure _ _ _ _ _ E) as [-> _].
  apply (encode_map_atoms_rewrite c); assumption.
Qed.
