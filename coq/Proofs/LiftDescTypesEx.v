(* C07 at descriptor level: non-vacuity of the "invents no path" theorems of the other output types.
   The world of C01's descriptor examples (Proofs/DescSpendExamples.v: or_i(pk(K0),pk(K1)), K0's
   signature available) satisfies every hypothesis of the Segwitv0 / Legacy / Bare / Tap theorems,
   including the ones about the lift (computed verdict) and the policy (true). *)
From Verif Require Import Exec Ser Spend Ast Types TypeCheck SatSpec Sat LiftModel LiftLimits TheoremA SatProofs
  CompleteThresh CompleteNonMall CodecSpec SerProofs DescSpendModel DescSpendPush DescSpendProofs DescSpendExamples
  LiftDescWsh LiftDescTypes.
From Verif Require CodecExt ExtModel ExtProofs ExtCodec.
From Coq Require Import Lia Permutation.
Local Open Scope N_scope.

(* the hypotheses shared by all "invents no path" theorems *)
Definition inv_hyps (e : env) (sv : sigversion) (c : ctx) (ke : keyenv) (A : assets) (se : senv) (f : fill)
           (unc : key -> bool) (rhs : bool) (m : ms) (p : lpolicy) : Prop :=
  ksort_ok ke /\ (forall kbs, e_sigok e kbs [] = false) /\ linked ke A se f /\ locks_compatible se /\
  (exists t, type_of m = ROk t /\ c_base (t_corr t) = BB) /\
  assets_ok (with_sv e sv) ke A /\ wf (with_sv e sv) ke m /\ ms_wf c ke m /\
  ExtCodec.ctx_frag_ok c m = true /\ unc_agrees ke unc /\ ExtProofs.senv_ok (ExtCodec.xctx_of c ke) se /\
  thresh_fit ke se rhs m /\ lift_ctx c unc m = LOk p /\ leval A p = true.

Definition ex_unc (ke : keyenv) : key -> bool := CodecExt.is_uncompressed ke.
Definition ex_p : lpolicy := LThresh 1 [LKey 0; LKey 1].

Lemma ex_locks tap : locks_compatible (ex_se tap).
Proof. split; intros t1 t2 H; cbn in H; discriminate. Qed.

Lemma ex_inv sv c ke tap :
  common_hyps ex_env sv c ke ex_A (ex_se tap) (ex_f ke) false true ex_m ex_bs ->
  ExtProofs.senv_ok (ExtCodec.xctx_of c ke) (ex_se tap) ->
  lift_ctx c (ex_unc ke) ex_m = LOk ex_p ->
  inv_hyps ex_env sv c ke ex_A (ex_se tap) (ex_f ke) (ex_unc ke) true ex_m ex_p.
Proof.
  intros (H1 & H2 & H3 & H4 & _ & _ & H7 & H8 & H9) Hsenv Hl. unfold inv_hyps.
  repeat (split; [assumption|]). split; [apply ex_locks|]. repeat (split; [assumption|]).
  split; [destruct c; reflexivity|]. split; [intros k; reflexivity|]. split; [exact Hsenv|].
  split; [cbn; tauto|]. split; [exact Hl | reflexivity].
Qed.

Lemma ex_senv_nontap c ke : is_tap c = false -> ExtProofs.senv_ok (ExtCodec.xctx_of c ke) (ex_se false).
Proof.
  intros Ht. unfold ExtProofs.senv_ok, ExtCodec.xctx_of. cbn [ex_se se_tap se_pklen se_sig ExtModel.xc_schnorr ExtModel.xc_unc].
  rewrite Ht. split; [reflexivity|]. split; [|discriminate]. intros k. destruct (CodecExt.is_uncompressed ke k); lia.
Qed.
Lemma ex_senv_tap ke : ExtProofs.senv_ok (ExtCodec.xctx_of Tap ke) (ex_se true).
Proof.
  unfold ExtProofs.senv_ok, ExtCodec.xctx_of. cbn [ex_se se_tap se_pklen se_sig ExtModel.xc_schnorr ExtModel.xc_unc is_tap].
  split; [reflexivity|]. split; [intros k; lia|]. intros k sz _ H. destruct (k =? 0); inversion H. lia.
Qed.

Lemma ex_small ke n : (forall k, blen (kb ke k) <= n) -> 9 <= n -> small_material ke ex_A n.
Proof.
  intros Hk Hn. split; [exact Hk|]. intros k s H. cbn in H. unfold ex_avail in H. destruct (k =? 0); inversion H; subst.
  change (blen ex_sig) with 9. exact Hn.
Qed.

Lemma ex_material (P : bytes -> Prop) ke : (forall k, P (kb ke k)) -> P ex_sig -> material_all P ke ex_A.
Proof.
  intros Hk Hs. split; [exact Hk|]. split.
  - intros k s H. cbn in H. unfold ex_avail in H. destruct (k =? 0); inversion H; subst. exact Hs.
  - intros kd h x H. destruct kd; discriminate.
Qed.

(* Segwitv0: the hypotheses of C07_shwsh_dispatch_invents_no_path (which contain those of the P2WSH,
   P2SH-P2WSH and dispatcher forms) *)
Lemma ex_segwit_hyps :
  inv_hyps ex_env SvWitnessV0 Segwitv0 ex_ke ex_A (ex_se false) (ex_f ex_ke) (ex_unc ex_ke) true ex_m ex_p /\
  small_material ex_ke ex_A 80 /\
  blen (e_sha256 ex_env (encode ex_ke ex_m)) = 32 /\ blen (e_hash160 ex_env (spk_wsh ex_env (encode ex_ke ex_m))) = 20.
Proof.
  split; [apply ex_inv; [exact ex_common_v0 | apply ex_senv_nontap; reflexivity | vm_compute; reflexivity]|].
  split; [apply ex_small; [intros k; vm_compute; discriminate | lia]|]. split; vm_compute; reflexivity.
Qed.

(* Legacy: the hypotheses of C07_sh_dispatch_invents_no_path_partial, the scriptSig one included *)
Lemma ex_legacy_hyps :
  inv_hyps ex_env SvBase Legacy ex_ke ex_A (ex_se false) (ex_f ex_ke) (ex_unc ex_ke) true ex_m ex_p /\
  material_all is_bytes ex_ke ex_A /\ material_all (fun b => blen b < 73) ex_ke ex_A /\
  is_bytes (encode ex_ke ex_m) /\ blen (e_hash160 ex_env (encode ex_ke ex_m)) = 20 /\
  (forall bs ss, satisfy ex_ke (ex_se false) (ex_f ex_ke) true true ex_m = Some bs ->
                 witness_to_scriptsig (bs ++ [encode ex_ke ex_m]) = Some ss -> blen (serialize ss) <= 1650).
Proof.
  split; [apply ex_inv; [exact ex_common_legacy | apply ex_senv_nontap; reflexivity | vm_compute; reflexivity]|].
  split; [apply ex_material; [intros k|]; apply is_bytes_b; vm_compute; reflexivity|].
  split; [apply ex_material; [intros k|]; vm_compute; reflexivity|].
  split; [apply is_bytes_b; vm_compute; reflexivity|]. split; [vm_compute; reflexivity|].
  intros bs ss Hs Hw. vm_compute in Hs. inversion Hs; subst bs. vm_compute in Hw. inversion Hw; subst ss.
  vm_compute. discriminate.
Qed.

Lemma ex_bare_hyps :
  inv_hyps ex_env SvBase Bare ex_ke ex_A (ex_se false) (ex_f ex_ke) (ex_unc ex_ke) true ex_m ex_p /\
  material_all is_bytes ex_ke ex_A /\ material_all (fun b => blen b < 73) ex_ke ex_A /\
  (forall bs ss, satisfy ex_ke (ex_se false) (ex_f ex_ke) true true ex_m = Some bs ->
                 witness_to_scriptsig bs = Some ss -> blen (serialize ss) <= 1650).
Proof.
  split; [apply ex_inv; [exact ex_common_bare | apply ex_senv_nontap; reflexivity | vm_compute; reflexivity]|].
  split; [apply ex_material; [intros k|]; apply is_bytes_b; vm_compute; reflexivity|].
  split; [apply ex_material; [intros k|]; vm_compute; reflexivity|].
  intros bs ss Hs Hw. vm_compute in Hs. inversion Hs; subst bs. vm_compute in Hw. inversion Hw; subst ss.
  vm_compute. discriminate.
Qed.

Lemma ex_tap_hyps :
  inv_hyps ex_env SvTapscript Tap ex_ke_tap ex_A (ex_se true) (ex_f ex_ke_tap) (ex_unc ex_ke_tap) true ex_m ex_p /\
  small_material ex_ke_tap ex_A 520 /\ blen ex_outkey = 32 /\
  ex_commit (encode ex_ke_tap ex_m) ex_cb = true /\ not_annex ex_cb.
Proof.
  split; [apply ex_inv; [exact ex_common_tap | apply ex_senv_tap | vm_compute; reflexivity]|].
  split; [apply ex_small; [intros k; vm_compute; discriminate | lia]|].
  split; [reflexivity|]. split; [vm_compute; reflexivity | exact I].
Qed.

(* ------------------------------------------------------------------ the P2SH scriptSig rule and the verdict
   (history: until /repo e37a8a3d the Legacy verdict compared only the satisfaction ITEMS with 1650 bytes and
   accepted the script below although its scriptSig - items plus the push of the redeem script - is longer; the
   sat engine reproduced that on the real library (C01 violation on the then-unchanged tree), the library was
   repaired, Ms/LiftLimits.v mirrors the repaired test, and this example now shows the script REFUSED.)
   sh(thresh(13, c:pk_h(K0), ac:pk_h(K1), ..., ac:pk_h(K12))), compressed keys, 72-byte signatures, all
   thirteen available.  The Legacy verdict is true (redeem script 363 bytes <= 520, 91 opcodes <= 201,
   max_script_sig_size 1404 <= 1650), the lift succeeds, the policy is true, the satisfier model returns
   the 26 items - and the scriptSig built by witness_to_scriptsig (items ++ [redeem script]) is
   longer than 1650 bytes, so verify_sh rejects it in EVERY environment.  This is why
   C07_sh_invents_no_path_partial keeps the scriptSig rule as a hypothesis. *)
Definition sx_key (k : N) : bytes := 2 :: repeat k 32.
Definition sx_ke : keyenv := mkKeyEnv sx_key (fun k => repeat k 20) (fun ks => ks).
Definition sx_sig : bytes := 48 :: repeat 1 71.
Definition sx_A : assets :=
  mkAssets (fun k => if k <? 13 then Some sx_sig else None) (fun _ => None) (fun _ => None) (fun _ => None) (fun _ => None)
           (fun _ => false) (fun _ => false).
Definition sx_se : senv :=
  mkSenv false (fun _ => 34) (fun k => if k <? 13 then Some 72 else None) (fun _ _ => false) (fun _ => false) (fun _ => false).
Definition sx_f : fill := mkFill sx_key (a_sig sx_A) (fun _ _ => None).
Definition sx_m : ms :=
  MThresh 13 (MCheck (MPkH 0) :: map (fun k => MAlt (MCheck (MPkH k))) [1; 2; 3; 4; 5; 6; 7; 8; 9; 10; 11; 12]).
Definition sx_p : lpolicy := LThresh 13 (map LKey [0; 1; 2; 3; 4; 5; 6; 7; 8; 9; 10; 11; 12]).

Lemma verify_sh_long e h ssig w : 1650 < blen ssig -> verify_sh e h ssig w = false.
Proof.
  intros H. unfold verify_sh. destruct (parse_script ssig); [|reflexivity].
  replace (N.leb (blen ssig) 1650) with false by (symmetry; apply N.leb_gt; exact H). reflexivity.
Qed.

Lemma sx_scriptsig_rule_now_refused :
  (exists t, type_of sx_m = ROk t /\ c_base (t_corr t) = BB) /\
  within_resource_limits Legacy (CodecExt.is_uncompressed sx_ke) sx_m = false /\
  lift_ctx Legacy (CodecExt.is_uncompressed sx_ke) sx_m <> LOk sx_p /\ leval sx_A sx_p = true /\
  blen (encode sx_ke sx_m) <= 520 /\
  exists bs ss, satisfy sx_ke sx_se sx_f true true sx_m = Some bs /\
                witness_to_scriptsig (bs ++ [encode sx_ke sx_m]) = Some ss /\
                1650 < blen (serialize ss) /\
                forall e h, verify_sh e h (serialize ss) [] = false.
Proof.
  split; [eexists; split; vm_compute; reflexivity|].
  split; [vm_compute; reflexivity|]. split; [vm_compute; discriminate|]. split; [vm_compute; reflexivity|].
  split; [vm_compute; discriminate|].
  assert (Hs : exists bs, satisfy sx_ke sx_se sx_f true true sx_m = Some bs) by (vm_compute; eexists; reflexivity).
  destruct Hs as [bs Hs]. exists bs.
  assert (Hw : exists ss, witness_to_scriptsig (bs ++ [encode sx_ke sx_m]) = Some ss /\ 1650 < blen (serialize ss)).
  { vm_compute in Hs. inversion Hs; subst bs. vm_compute. eexists. split; reflexivity. }
  destruct Hw as [ss [Hw Hlen]]. exists ss. split; [exact Hs|]. split; [exact Hw|]. split; [exact Hlen|].
  intros e h. apply verify_sh_long. exact Hlen.
Qed.
