(* Non-vacuity of Theorem B / A' and of the bridge: concrete fragments with witnesses the script
   accepts, the relation describes, and NO table (for no asset set whatsoever) lists. *)
From Verif Require Import Exec Ser Ast Types TypeCheck SatSpec ExecLemmas Spec TypesSpec ScriptNumProofs TheoremA.
From Verif Require Import FrameBase FrameSound FrameDissat SignedLemmas DenotSpec DenotLemmas DenotMain DenotTable.
From Coq Require Import Lia.

(* environment of FrameSound.v: witness v0; a signature for key bytes k is k ++ [1];
   sha256 b = 1 :: b; hash160 b = 4 :: b; key k is pushed as [2; k] *)
Definition dx_pre : bytes := repeat 7%N 32.
Definition dx_h : bytes := 1%N :: dx_pre.              (* = sha256 dx_pre *)
Definition dx_ff : bytes := repeat 255%N 32.           (* 32 bytes of 0xff: not a preimage *)
Definition dx_sig (k : N) : bytes := [2%N; k; 1%N].

(* 1. or_d(sha256(h), c:pk_k(0)): the hash dissatisfied by 32 bytes of 0xff, then the key *)
Definition dx_ord : ms := MOrD (MSha256 dx_h) (MCheck (MPkK 0%N)).
Definition dx_ord_w : wit := [dx_ff; dx_sig 0].

Lemma dx_ord_typed : exists t, type_of dx_ord = ROk t /\ c_base (t_corr t) = BB.
Proof. eexists. split; [vm_compute; reflexivity | reflexivity]. Qed.
Lemma dx_ord_wf : wf ex_env ex_ke dx_ord.
Proof. cbn [wf dx_ord]. split; [|exact I]. intros H. vm_compute in H. discriminate. Qed.
Lemma dx_ord_exec : exec ex_env (enc ex_ke dx_ord) (mkSt dx_ord_w []) = Ok (mkSt [[1%N]] []).
Proof. vm_compute. reflexivity. Qed.
Lemma dx_ord_accepts : accepts ex_env (enc ex_ke dx_ord) dx_ord_w = true.
Proof. vm_compute. reflexivity. Qed.
Lemma dx_ord_R : Rsat ex_env ex_ke dx_ord dx_ord_w.
Proof.
  exists [1%N]. unfold R, dx_ord, dx_ord_w. cbn [Rg]. right. exists [dx_ff], [dx_sig 0], [].
  split; [reflexivity|]. split.
  - exists dx_ff. split; [reflexivity|]. split; [reflexivity|]. split; [reflexivity|].
    split; [intros H; vm_compute in H; discriminate | discriminate].
  - split; [reflexivity|]. split; [reflexivity|]. exists [2%N; 0%N]. exists (dx_sig 0).
    split; [reflexivity|]. split; [reflexivity|]. split; [reflexivity|]. split; [discriminate | reflexivity].
Qed.
(* ... and no table lists it, whatever the assets *)
Lemma dx_ord_not_in_table : forall A, ~ In dx_ord_w (all_sat ex_ke A dx_ord).
Proof.
  intros A Hin. unfold all_sat, dx_ord in Hin. rewrite sd_or_d in Hin. cbn [fst] in Hin.
  apply in_app_or in Hin. destruct Hin as [Hin|Hin].
  - cbn [all_sat sd hash_sd fst] in Hin. destruct (a_sha256 A dx_h); cbn in Hin; [destruct Hin as [H|[]]; discriminate | contradiction].
  - apply in_cross in Hin. destruct Hin as [a [b [Ha [_ Hw]]]]. cbn [all_dsat sd hash_sd snd] in Ha.
    destruct Ha as [<-|[]]. vm_compute in Hw. discriminate.
Qed.
(* it is not canonical either: the canonical relation only allows 32 zero bytes *)
Lemma dx_ord_not_can : ~ Rsat_can ex_env ex_ke dx_ord dx_ord_w.
Proof.
  intros [v H]. unfold Rcan, dx_ord, dx_ord_w in H. cbn [Rg] in H.
  destruct H as [[_ [[x [Hw [_ [_ [Hh _]]]]] _]]|[wx [wy [vx [Hw [[x [-> [_ [_ [_ Hc]]]]] _]]]]]].
  - discriminate.
  - specialize (Hc eq_refl eq_refl). subst x. vm_compute in Hw. discriminate.
Qed.

(* 2. thresh(1, c:pk_k(0), s:c:pk_k(1)) with BOTH children satisfied: EQUAL leaves 0 -- a
      dissatisfaction carrying two valid signatures; the table's only dissatisfaction is [[]; []] *)
Definition dx_thr : ms := MThresh 1 [MCheck (MPkK 0%N); MSwap (MCheck (MPkK 1%N))].
Definition dx_thr_w : wit := [dx_sig 0; dx_sig 1].

Lemma dx_thr_typed : exists t, type_of dx_thr = ROk t /\ c_base (t_corr t) = BB.
Proof. eexists. split; [vm_compute; reflexivity | reflexivity]. Qed.
Lemma dx_thr_wf : wf ex_env ex_ke dx_thr.
Proof. cbn. repeat split; lia. Qed.
Lemma dx_thr_exec : exec ex_env (enc ex_ke dx_thr) (mkSt dx_thr_w []) = Ok (mkSt [[]] []).
Proof. vm_compute. reflexivity. Qed.
Lemma dx_pk_R k : Rg ex_env ex_ke false (MCheck (MPkK k)) true [dx_sig k] [1%N].
Proof.
  cbn [Rg]. split; [reflexivity|]. exists [2%N; k], (dx_sig k). split; [reflexivity|]. split; [reflexivity|].
  split; [reflexivity|]. split; [discriminate|]. unfold dx_sig. cbn. rewrite N.eqb_refl. reflexivity.
Qed.
Lemma dx_thr_R : Rdsat ex_env ex_ke dx_thr dx_thr_w.
Proof.
  exists []. unfold R, dx_thr, dx_thr_w. cbn [Rg]. split; [reflexivity|]. exists 2%nat. split; [|split; [reflexivity | discriminate]].
  apply Rthr_cons. exists [dx_sig 0], [dx_sig 1]. split; [reflexivity|]. left. exists 1%nat. split; [reflexivity|].
  split; [apply dx_pk_R|]. apply Rthr_cons. exists [dx_sig 1], []. split; [reflexivity|]. left. exists 0%nat.
  split; [reflexivity|]. split; [apply (dx_pk_R 1%N)|]. split; reflexivity.
Qed.
Lemma dx_thr_not_in_table : forall A, ~ In dx_thr_w (all_dsat ex_ke A dx_thr).
Proof.
  intros A Hin. unfold all_dsat, dx_thr in Hin. rewrite sd_thresh in Hin. cbn [snd map thresh_comb sd fst app] in Hin.
  destruct (a_sig A 0%N), (a_sig A 1%N); cbn in Hin; destruct Hin as [H|[]]; discriminate.
Qed.

(* 3. or_b(c:pk_k(0), s:c:pk_k(1)) with BOTH sides satisfied: accepted, not in the table *)
Definition dx_orb : ms := MOrB (MCheck (MPkK 0%N)) (MSwap (MCheck (MPkK 1%N))).
Lemma dx_orb_typed : exists t, type_of dx_orb = ROk t /\ c_base (t_corr t) = BB.
Proof. eexists. split; [vm_compute; reflexivity | reflexivity]. Qed.
Lemma dx_orb_accepts : accepts ex_env (enc ex_ke dx_orb) dx_thr_w = true.
Proof. vm_compute. reflexivity. Qed.
Lemma dx_orb_R : Rsat ex_env ex_ke dx_orb dx_thr_w.
Proof.
  exists [1%N]. unfold R, dx_orb, dx_thr_w. cbn [Rg]. exists [dx_sig 0], [dx_sig 1], [1%N], [1%N], true, true.
  split; [reflexivity|]. split; [apply dx_pk_R|]. split; [apply (dx_pk_R 1%N)|].
  split; [exists 1%Z; reflexivity|]. split; [exists 1%Z; reflexivity|]. split; [reflexivity|]. split; [reflexivity | discriminate].
Qed.
Lemma dx_orb_not_in_table : forall A, ~ In dx_thr_w (all_sat ex_ke A dx_orb).
Proof.
  intros A Hin. unfold all_sat, dx_orb in Hin. rewrite sd_or_b in Hin. cbn [fst] in Hin.
  apply in_app_or in Hin. destruct Hin as [Hin|Hin]; apply in_cross in Hin; destruct Hin as [a [b [Ha [Hb Hw]]]].
  - cbn in Ha. destruct Ha as [<-|[]]. cbn in Hw. discriminate.
  - cbn in Hb. destruct Hb as [<-|[]]. cbn in Ha. destruct (a_sig A 0%N); cbn in Ha; [destruct Ha as [<-|[]] | contradiction].
    cbn in Hw. discriminate.
Qed.

(* a canonical witness, and the table of its own assets (non-vacuity of Rcan_in_table) *)
Definition dx_can_w : wit := [zeros32; dx_sig 0].
Lemma dx_can_R : Rsat_can ex_env ex_ke dx_ord dx_can_w.
Proof.
  exists [1%N]. unfold Rcan, dx_ord, dx_can_w. cbn [Rg]. right. exists [zeros32], [dx_sig 0], [].
  split; [reflexivity|]. split.
  - exists zeros32. split; [reflexivity|]. split; [reflexivity|]. split; [reflexivity|].
    split; [intros H; vm_compute in H; discriminate | reflexivity].
  - split; [reflexivity|]. split; [reflexivity|]. exists [2%N; 0%N]. exists (dx_sig 0).
    split; [reflexivity|]. split; [reflexivity|]. split; [reflexivity|]. split; [discriminate | reflexivity].
Qed.
Lemma dx_can_table : In dx_can_w (all_sat ex_ke (assets_of ex_env ex_ke dx_can_w) dx_ord).
Proof. vm_compute. left. reflexivity. Qed.
