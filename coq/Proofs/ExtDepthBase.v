(* C09, execution stack depth: infrastructure. Depth effect of every opcode, straight-line
   scripts, composition of instrumented runs, the VERIFY-folded form, and the net effect of a
   well-typed fragment on the depth (from the frame theorem of C06). *)
From Coq Require Import Lia.
From Verif Require Import ExecTr ExecLemmas TypeCheck TheoremA FrameBase FrameSound ExtExec.
Local Open Scope Z_scope.

Definition dz (st : state) : Z := Z.of_N (depth_of st).
Definition trz (t : trace) : Z := Z.of_N (tr_depth t).

Lemma dz_mk s a : dz (mkSt s a) = Z.of_nat (length s) + Z.of_nat (length a).
Proof. unfold dz, depth_of. cbn [stk alt]. lia. Qed.
Lemma trz_step t c st : trz (tr_step t c st) = Z.max (trz t) (dz st).
Proof. unfold trz, dz, tr_step. cbn [tr_depth]. lia. Qed.

(* ------------------------------------------------------------------ composition *)
Lemma exec_tr_app e a b st t :
  exec_tr e (a ++ b) st t =
  match exec_tr e a st t with Ok (s1, t1) => exec_tr e b s1 t1 | Fail => Fail end.
Proof.
  revert st t. induction a as [|i r IH]; intros st t; [reflexivity|]. cbn [app exec_tr].
  destruct (exec_instr_tr e i st t) as [[s1 t1]|]; [apply IH|reflexivity].
Qed.
Lemma exec_tr_app_inv e a b st t st' t' :
  exec_tr e (a ++ b) st t = Ok (st', t') ->
  exists s1 t1, exec_tr e a st t = Ok (s1, t1) /\ exec_tr e b s1 t1 = Ok (st', t').
Proof. rewrite exec_tr_app. destruct (exec_tr e a st t) as [[s1 t1]|]; [eauto|discriminate]. Qed.
Lemma exec_tr_cons_inv e i r st t st' t' :
  exec_tr e (i :: r) st t = Ok (st', t') ->
  exists s1 t1, exec_instr_tr e i st t = Ok (s1, t1) /\ exec_tr e r s1 t1 = Ok (st', t').
Proof. cbn [exec_tr]. destruct (exec_instr_tr e i st t) as [[s1 t1]|]; [eauto|discriminate]. Qed.
Lemma exec_tr_single e i st t : exec_tr e [i] st t = exec_instr_tr e i st t.
Proof. cbn [exec_tr]. destruct (exec_instr_tr e i st t) as [[s1 t1]|]; reflexivity. Qed.

(* ------------------------------------------------------------------ one instruction *)
Definition op_delta (o : opcode) : Z :=
  match o with
  | OP_DUP | OP_IFDUP | OP_SIZE => 1
  | OP_TOALTSTACK | OP_FROMALTSTACK | OP_SWAP | OP_0NOTEQUAL
  | OP_RIPEMD160 | OP_SHA256 | OP_HASH160 | OP_HASH256 | OP_CLTV | OP_CSV | OP_OTHER _ => 0
  | OP_VERIFY | OP_DROP | OP_EQUAL | OP_ADD | OP_BOOLAND | OP_BOOLOR | OP_NUMEQUAL | OP_CHECKSIG => -1
  | OP_EQUALVERIFY | OP_NUMEQUALVERIFY | OP_CHECKSIGVERIFY | OP_CHECKSIGADD => -2
  | OP_CHECKMULTISIG | OP_CHECKMULTISIGVERIFY => 0
  end.

Ltac crush_op H :=
  repeat match type of H with
         | context [match ?x with _ => _ end] => destruct x eqn:?; try discriminate
         end;
  try discriminate; inversion H; subst; clear H.

Lemma exec_op_delta e o st st' :
  is_cms o = false -> exec_op e o st = Ok st' -> dz st' <= dz st + op_delta o.
Proof.
  intros Hc H. destruct st as [s a]. destruct o; try discriminate Hc; cbn [exec_op stk alt] in H; cbn [op_delta];
    crush_op H; rewrite ?dz_mk; cbn [length]; try lia.
Qed.

Lemma push_step e b st t st' t' :
  exec_instr_tr e (IPush b) st t = Ok (st', t') -> dz st' = dz st + 1 /\ trz t' = Z.max (trz t) (dz st + 1).
Proof.
  cbn [exec_instr_tr exec_instr]. intros H. inversion H; subst. rewrite trz_step. destruct st as [s a].
  rewrite !dz_mk. cbn [stk alt length]. lia.
Qed.
Lemma num_step e n st t st' t' :
  exec_instr_tr e (INum n) st t = Ok (st', t') -> dz st' = dz st + 1 /\ trz t' = Z.max (trz t) (dz st + 1).
Proof.
  cbn [exec_instr_tr exec_instr]. intros H. inversion H; subst. rewrite trz_step. destruct st as [s a].
  rewrite !dz_mk. cbn [stk alt length]. lia.
Qed.
Lemma push_int_step e z st t st' t' :
  exec_instr_tr e (push_int z) st t = Ok (st', t') -> dz st' = dz st + 1 /\ trz t' = Z.max (trz t) (dz st + 1).
Proof.
  unfold push_int. destruct (z =? 0); [apply push_step|].
  destruct ((z =? -1) || ((1 <=? z) && (z <=? 16)))%bool; [apply num_step|apply push_step].
Qed.
Lemma op_step e o st t st' t' :
  is_cms o = false -> exec_instr_tr e (IOp o) st t = Ok (st', t') ->
  dz st' <= dz st + op_delta o /\ trz t' = Z.max (trz t) (dz st').
Proof.
  intros Hc. cbn [exec_instr_tr]. destruct (exec_instr e (IOp o) st) as [s1|] eqn:E; [|discriminate].
  intros H. inversion H; subst. rewrite trz_step. split; [|reflexivity]. exact (exec_op_delta e o st st' Hc E).
Qed.

(* IF / NOTIF: the condition is popped, then one branch (or nothing) runs *)
Lemma if_step e neg thn els st t st' t' :
  exec_instr_tr e (IIf neg thn els) st t = Ok (st', t') ->
  exists v rs c, stk st = v :: rs /\ if_cond e v = Some c /\
    let s0 := mkSt rs (alt st) in
    let t0 := tr_step t 0 s0 in
    dz s0 = dz st - 1 /\
    (if xorb c neg then exec_tr e thn s0 t0 = Ok (st', t')
     else match els with Some el => exec_tr e el s0 t0 = Ok (st', t') | None => (st', t') = (s0, t0) end).
Proof.
  rewrite exec_if_tr. destruct st as [s a]. cbn [stk alt]. destruct s as [|v rs]; [discriminate|].
  destruct (if_cond e v) as [c|] eqn:Ec; [|discriminate]. cbv zeta. intros H. exists v, rs, c.
  split; [reflexivity|]. split; [exact Ec|]. split; [rewrite !dz_mk; cbn [length]; lia|].
  destruct (xorb c neg); [exact H|]. destruct els; [exact H|]. inversion H. reflexivity.
Qed.

(* ------------------------------------------------------------------ straight-line scripts *)
(* relative to a base depth: current offset, maximum offset seen *)
Fixpoint lin (s : script) (cur mx : Z) : option (Z * Z) :=
  match s with
  | [] => Some (cur, mx)
  | IPush _ :: r | INum _ :: r => lin r (cur + 1) (Z.max mx (cur + 1))
  | IOp o :: r => if is_cms o then None else lin r (cur + op_delta o) (Z.max mx (cur + op_delta o))
  | IIf _ _ _ :: _ => None
  end.

Lemma lin_sound e s : forall cur mx net mx' d T st t st' t',
  lin s cur mx = Some (net, mx') ->
  dz st <= d + cur -> trz t <= Z.max T (d + mx) ->
  exec_tr e s st t = Ok (st', t') ->
  dz st' <= d + net /\ trz t' <= Z.max T (d + mx').
Proof.
  induction s as [|i r IH]; intros cur mx net mx' d T st t st' t' Hl Hd Ht H.
  - cbn [lin] in Hl. inversion Hl; subst. cbn [exec_tr] in H. inversion H; subst. auto.
  - apply exec_tr_cons_inv in H. destruct H as (s1 & t1 & Hi & Hr). destruct i as [b|n|o|ng th el]; cbn [lin] in Hl.
    + apply push_step in Hi. destruct Hi as [A B]. eapply IH; [exact Hl| | |exact Hr]; lia.
    + apply num_step in Hi. destruct Hi as [A B]. eapply IH; [exact Hl| | |exact Hr]; lia.
    + destruct (is_cms o) eqn:Ec; [discriminate|]. apply (op_step e o _ _ _ _ Ec) in Hi. destruct Hi as [A B].
      eapply IH; [exact Hl| | |exact Hr]; lia.
    + discriminate.
Qed.
Lemma lin_run e s net mx st t st' t' :
  lin s 0 0 = Some (net, mx) -> exec_tr e s st t = Ok (st', t') ->
  dz st' <= dz st + net /\ trz t' <= Z.max (trz t) (dz st + mx).
Proof. intros Hl H. eapply (lin_sound e s 0 0 net mx (dz st) (trz t)); [exact Hl| | |exact H]; lia. Qed.

(* ------------------------------------------------------------------ the VERIFY-folded form records no more than op ; VERIFY *)
Lemma pv_trace e s : forall st t st' t',
  exec_tr e (push_verify s) st t = Ok (st', t') ->
  exists t'', exec_tr e (s ++ [IOp OP_VERIFY]) st t = Ok (st', t'') /\ trz t' <= trz t''.
Proof.
  induction s as [|i r IH]; intros st t st' t' H.
  - cbn [push_verify app] in *. exists t'. split; [exact H|lia].
  - destruct r as [|j r'].
    + destruct i as [b|n|o|ng th el]; cbn [push_verify app] in *; try (exists t'; split; [exact H|lia]).
      destruct (verify_form o) as [o'|] eqn:Ev; [|exists t'; split; [exact H|lia]].
      rewrite exec_tr_single in H. cbn [exec_instr_tr exec_instr] in H.
      rewrite (verify_form_sound e o o' st Ev) in H.
      destruct (exec_op e o st) as [s1|] eqn:E1; cbn [bind] in H; [|discriminate].
      destruct (exec_op e OP_VERIFY s1) as [s2|] eqn:E2; [|discriminate]. inversion H; subst.
      cbn [exec_tr exec_instr_tr exec_instr]. rewrite E1, E2. eexists. split; [reflexivity|].
      rewrite !trz_step. lia.
    + assert (Hpv : push_verify (i :: j :: r') = i :: push_verify (j :: r')) by (destruct i; reflexivity).
      rewrite Hpv in H. apply exec_tr_cons_inv in H. destruct H as (s1 & t1 & Hi & Hr).
      destruct (IH _ _ _ _ Hr) as (t'' & E & Hle). exists t''. split; [|exact Hle].
      change ((i :: j :: r') ++ [IOp OP_VERIFY]) with (i :: ((j :: r') ++ [IOp OP_VERIFY])). cbn [exec_tr]. rewrite Hi. exact E.
Qed.

(* ------------------------------------------------------------------ net effect of a well-typed fragment (frame theorem) *)
Definition minc_in (i : input) : Z := match i with IOne | IOneNonZero | IAnyNonZero => 1 | _ => 0 end.
Definition netb (t : ty) : Z :=
  match c_base (t_corr t) with
  | BB => 1 - minc_in (c_input (t_corr t))
  | BV => 0
  | BK | BW => 1
  end.

Lemma typed_net e ke x t st al r :
  type_of x = ROk t -> wf e ke x -> exec e (enc ke x) (mkSt st al) = Ok r ->
  dz r <= dz (mkSt st al) + netb t.
Proof.
  intros Ht Hw H. pose proof (frame_inv e ke x t Ht Hw) as I. unfold inv in I. unfold netb.
  destruct (c_base (t_corr t)).
  - destruct (I st al r H) as (c & rest & v & -> & -> & _ & Hc & _). rewrite !dz_mk, app_length. cbn [length].
    unfold cnt in Hc. destruct (c_input (t_corr t)); cbn [minc_in]; lia.
  - destruct (I st al r H) as (c & rest & k & -> & -> & _). rewrite !dz_mk, app_length. cbn [length]. lia.
  - destruct (I st al r H) as (c & rest & -> & -> & _). rewrite !dz_mk, app_length. lia.
  - destruct I as [_ I]. destruct (I st al r H) as (c0 & w & rest & v & sw & -> & -> & _).
    rewrite !dz_mk. destruct sw; cbn [wout app length]; rewrite ?app_length; cbn [length]; lia.
Qed.

(* the same through the instrumented run *)
Lemma typed_net_tr e ke x t st t0 st' t' :
  type_of x = ROk t -> wf e ke x -> exec_tr e (enc ke x) st t0 = Ok (st', t') -> dz st' <= dz st + netb t.
Proof.
  intros Ht Hw H. apply exec_tr_state in H. destruct st as [s a]. exact (typed_net e ke x t s a st' Ht Hw H).
Qed.
