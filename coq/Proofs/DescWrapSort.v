(* C16 proofs, part 3: BIP67 sorting — the sorted-multisig encodings do not depend on the
   order in which the keys are listed. *)
From Coq Require Import List Bool NArith Lia Arith Permutation Sorted.
Import ListNotations.
From Verif Require Import DescWrapModel.
Local Open Scope N_scope.

Arguments N.ltb : simpl never. Arguments N.eqb : simpl never.

(* ---- the lexicographic order on byte strings is a total order ---- *)
Lemma bytes_leb_refl : forall a, bytes_leb a a = true.
Proof. induction a as [|x a IH]; cbn [bytes_leb]; [reflexivity|]. rewrite N.ltb_irrefl, N.eqb_refl. exact IH. Qed.

Lemma bytes_leb_total : forall a b, bytes_leb a b = true \/ bytes_leb b a = true.
Proof.
  induction a as [|x a IH]; intros [|y b]; cbn [bytes_leb]; auto.
  destruct (N.ltb_spec x y); [auto|]. destruct (N.ltb_spec y x); [auto|].
  assert (x = y) by lia. subst. rewrite N.eqb_refl. apply IH.
Qed.

Lemma bytes_leb_trans : forall a b c, bytes_leb a b = true -> bytes_leb b c = true -> bytes_leb a c = true.
Proof.
  induction a as [|x a IH]; intros [|y b] [|z c]; cbn [bytes_leb]; auto; try discriminate.
  destruct (N.ltb_spec x y) as [Hxy|Hxy].
  - intros _. destruct (N.ltb_spec y z) as [Hyz|Hyz].
    + intros _. destruct (N.ltb_spec x z); [reflexivity | lia].
    + destruct (N.eqb_spec y z); [|discriminate]. subst. intros _. destruct (N.ltb_spec x z); [reflexivity | lia].
  - destruct (N.eqb_spec x y); [|discriminate]. subst y. intros H1.
    destruct (N.ltb_spec x z); [reflexivity|]. destruct (N.eqb_spec x z); [|discriminate]. intros H2. eapply IH; eauto.
Qed.

Lemma bytes_leb_antisym : forall a b, bytes_leb a b = true -> bytes_leb b a = true -> a = b.
Proof.
  induction a as [|x a IH]; intros [|y b]; cbn [bytes_leb]; auto; try discriminate.
  destruct (N.ltb_spec x y) as [Hxy|Hxy].
  - intros _. destruct (N.ltb_spec y x); [lia|]. destruct (N.eqb_spec y x); [lia | discriminate].
  - destruct (N.eqb_spec x y); [|discriminate]. subst y. rewrite N.ltb_irrefl, N.eqb_refl.
    intros H1 H2. f_equal. auto.
Qed.

Section SortBy.
  Context {A : Type} (key : A -> bytes).
  Definition kle (x y : A) : Prop := bytes_leb (key x) (key y) = true.

  Lemma insert_by_perm : forall x l, Permutation (insert_by key x l) (x :: l).
  Proof.
    intros x l. induction l as [|y l IH]; cbn [insert_by]; [reflexivity|].
    destruct (bytes_leb (key x) (key y)); [reflexivity|].
    rewrite IH. apply perm_swap.
  Qed.
  Lemma sort_by_perm : forall l, Permutation (sort_by key l) l.
  Proof.
    induction l as [|x l IH]; cbn [sort_by]; [reflexivity|].
    rewrite insert_by_perm. constructor. exact IH.
  Qed.

  Lemma insert_by_sorted : forall x l, StronglySorted kle l -> StronglySorted kle (insert_by key x l).
  Proof.
    intros x l H. induction H as [|y l Hs IH Hall]; cbn [insert_by].
    - repeat constructor.
    - destruct (bytes_leb (key x) (key y)) eqn:E.
      + constructor; [constructor; assumption|]. constructor; [exact E|].
        eapply Forall_impl; [|exact Hall]. intros z Hz. unfold kle in *. eapply bytes_leb_trans; eauto.
      + constructor; [exact IH|].
        assert (Hyx : kle y x) by (destruct (bytes_leb_total (key x) (key y)); [congruence | assumption]).
        eapply Permutation_Forall; [symmetry; apply insert_by_perm|]. constructor; assumption.
  Qed.
  Lemma sort_by_sorted : forall l, StronglySorted kle (sort_by key l).
  Proof. induction l as [|x l IH]; cbn [sort_by]; [constructor | apply insert_by_sorted, IH]. Qed.

  (* a sorted list is determined by its elements when equal sort keys mean equal elements *)
  Lemma sorted_perm_eq : forall l1 l2,
    (forall a b, In a l1 -> In b l1 -> key a = key b -> a = b) ->
    StronglySorted kle l1 -> StronglySorted kle l2 -> Permutation l1 l2 -> l1 = l2.
  Proof.
    induction l1 as [|a l1 IH]; intros l2 Hinj S1 S2 P.
    - apply Permutation_nil in P. congruence.
    - destruct l2 as [|b l2]; [apply Permutation_sym, Permutation_nil in P; discriminate|].
      inversion S1 as [|? ? S1' F1]; subst. inversion S2 as [|? ? S2' F2]; subst.
      assert (Hab : kle a b).
      { assert (I : In b (a :: l1)) by (eapply Permutation_in; [symmetry; exact P | left; reflexivity]).
        destruct I as [->|I]; [apply bytes_leb_refl|]. rewrite Forall_forall in F1. auto. }
      assert (Hba : kle b a).
      { assert (I : In a (b :: l2)) by (eapply Permutation_in; [exact P | left; reflexivity]).
        destruct I as [->|I]; [apply bytes_leb_refl|]. rewrite Forall_forall in F2. auto. }
      assert (E : a = b).
      { apply Hinj; [left; reflexivity | eapply Permutation_in; [symmetry; exact P | left; reflexivity] |].
        apply bytes_leb_antisym; assumption. }
      subst b. f_equal. apply IH; auto.
      + intros x y Hx Hy. apply Hinj; right; assumption.
      + eapply Permutation_cons_inv; exact P.
  Qed.

  Theorem sort_by_perm_invariant : forall l l',
    (forall a b, In a l -> In b l -> key a = key b -> a = b) ->
    Permutation l l' -> sort_by key l = sort_by key l'.
  Proof.
    intros l l' Hinj P. apply sorted_perm_eq.
    - intros a b Ha Hb. apply Hinj; eapply Permutation_in; try apply sort_by_perm; assumption.
    - apply sort_by_sorted.
    - apply sort_by_sorted.
    - rewrite !sort_by_perm. exact P.
  Qed.
End SortBy.

Section SortedMulti.
  Variable hash160 : bytes -> bytes.
  Notation enc := (encode_ms hash160).

  (* keys whose BIP67 sort keys coincide are the same key *)
  Definition sortkey_injective (key : pubkey -> bytes) (ks : list pubkey) : Prop :=
    forall a b, In a ks -> In b ks -> key a = key b -> a = b.

  Theorem sortedmulti_perm : forall c thr ks ks',
    sortkey_injective pk_comp ks -> Permutation ks ks' ->
    enc c (MsSortedMulti thr ks) = enc c (MsSortedMulti thr ks').
  Proof.
    intros c thr ks ks' Hinj P. cbn [encode_ms]. unfold into_sorted_bip67.
    rewrite (sort_by_perm_invariant pk_comp ks ks' Hinj P).
    unfold encode_multi. rewrite (Permutation_length P). reflexivity.
  Qed.

  Theorem sortedmulti_a_perm : forall c thr ks ks',
    sortkey_injective pk_x ks -> Permutation ks ks' ->
    enc c (MsSortedMultiA thr ks) = enc c (MsSortedMultiA thr ks').
  Proof.
    intros c thr ks ks' Hinj P. cbn [encode_ms]. unfold into_sorted_bip67_xonly.
    rewrite (sort_by_perm_invariant pk_x ks ks' Hinj P). reflexivity.
  Qed.

  (* the keys appear in the script in BIP67 order, and they are the listed keys *)
  Theorem sortedmulti_is_bip67 : forall ks,
    StronglySorted (fun a b => bytes_leb (pk_comp a) (pk_comp b) = true) (into_sorted_bip67 ks) /\
    Permutation (into_sorted_bip67 ks) ks.
  Proof. intros. split; [apply sort_by_sorted | apply sort_by_perm]. Qed.

  (* when every key is compressed (pk_ser = pk_comp) this is the order of the pushed bytes *)
  Theorem sortedmulti_sorted_by_pushed_bytes : forall ks,
    (forall k, In k ks -> pk_ser k = pk_comp k) ->
    StronglySorted (fun a b => bytes_leb (pk_ser a) (pk_ser b) = true) (into_sorted_bip67 ks).
  Proof.
    intros ks H. pose proof (sort_by_sorted pk_comp ks) as S.
    assert (F : Forall (fun k => pk_ser k = pk_comp k) (sort_by pk_comp ks)).
    { rewrite Forall_forall. intros k Hk. apply H. eapply Permutation_in; [apply sort_by_perm | exact Hk]. }
    unfold into_sorted_bip67. induction S as [|a l S IH Hall]; [constructor|].
    inversion F; subst. constructor; [apply IH; assumption|].
    rewrite Forall_forall in *. intros b Hb. specialize (Hall b Hb). unfold kle in Hall.
    rewrite H2, (H3 b Hb). exact Hall.
  Qed.

  (* Without the hypothesis the statement is FALSE for the code as it is: the sort key is
     the 33-byte form while the 65-byte form is pushed, so a point listed both compressed and
     uncompressed keeps its listing order (stable sort). *)
  Definition kc : pubkey := mkPk [2; 7] [2; 7] [7] true.
  Definition ku : pubkey := mkPk [4; 7; 9] [2; 7] [7] false.
  Theorem sortedmulti_perm_refuted : exists thr ks ks',
    Permutation ks ks' /\ enc Ecdsa (MsSortedMulti thr ks) <> enc Ecdsa (MsSortedMulti thr ks').
  Proof.
    exists 1, [kc; ku], [ku; kc]. split; [apply perm_swap|]. vm_compute. discriminate.
  Qed.
End SortedMulti.
