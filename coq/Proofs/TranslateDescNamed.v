(* C20 (extension round 2) -- the descriptor-level failure theorem that NAMES the responsible site: the unmapped key or
   hash, the single / internal key whose image the wrapper's context forbids, or the script node (with the index of its
   tap leaf) whose substitution `from_ast` rejects.  Lifts iter_h_fail_only_named / trec_h_err through the wrappers of
   translate_desc_h (descriptor/{bare,segwitv0,sh,tr}.rs translate_pk). *)
From Coq Require Import Lia Permutation.
From Verif Require Import TranslateHashModel TranslateProofs TranslateHashProofs TheoremA EqOrdProofs
  TranslateHashDescProofs TranslateHashFailProofs.

(* where a descriptor holds a key that its wrapper checks itself, and in which context *)
Inductive key_site : desc -> ctx -> key -> Prop :=
| ks_pkh k : key_site (DPkh k) Legacy k
| ks_wpkh k : key_site (DWpkh k) Segwitv0 k
| ks_shwpkh k : key_site (DShWpkh k) Segwitv0 k
| ks_tr ik ls : key_site (DTr ik ls) Tap ik.

(* where a descriptor holds a script, in which context; for tr the index of the leaf in tree order *)
Inductive script_site : desc -> ctx -> option nat -> ms -> Prop :=
| ss_bare m : script_site (DBare m) Bare None m
| ss_sh m : script_site (DSh m) Legacy None m
| ss_wsh m : script_site (DWsh m) Segwitv0 None m
| ss_shwsh m : script_site (DShWsh m) Segwitv0 None m
| ss_leaf ik ls j dep m : nth_error ls j = Some (dep, m) -> script_site (DTr ik ls) Tap (Some j) m.

Definition names_node (fp : key -> option key) (fhp : hkind -> bytes -> option bytes)
           (chk : ctx -> ms -> option cerr) (kk : key -> kkind) (d : desc) (e : terr) : Prop :=
  (exists i a, e = TranslatorErr i /\ In a (datoms d) /\ atom_ok fp fhp a = false) \/
  (exists c, e = OuterErr c /\
     ((exists cx k k', key_site d cx k /\ fp k = Some k' /\ check_pk cx (kk k') = Some c) \/
      (exists cx j m s, script_site d cx j m /\ In s (subterms m) /\
                        (forall a, In a (matoms_pre s) -> atom_ok fp fhp a = true) /\
                        chk cx (map_atoms (total fp) (total_h fhp) s) = Some c))).

Lemma subterms_map_atoms g gh m : subterms (map_atoms g gh m) = map (map_atoms g gh) (subterms m).
Proof.
  induction m using ms_ind'; cbn [map_atoms subterms map]; rewrite ?map_app; try congruence; try reflexivity.
  f_equal. induction H as [|x r Hx Hr IH]; cbn [map]; [reflexivity|]. rewrite map_app, Hx, IH. reflexivity.
Qed.

Lemma chk_ok_subterm chk g gh m s :
  chk_ok chk (map_atoms g gh m) -> In s (subterms m) -> chk (map_atoms g gh s) = None.
Proof.
  unfold chk_ok. rewrite subterms_map_atoms, Forall_forall. intros H Hin. apply H. apply in_map. exact Hin.
Qed.

Section Named.
  Variable fp : key -> option key.
  Variable fhp : hkind -> bytes -> option bytes.
  Variable chk : ctx -> ms -> option cerr.
  Variable kk : key -> kkind.

  Notation f := (fun _ : N => fp).
  Notation fh := (fun _ : N => fhp).
  Notation sub := (map_atoms (total fp) (total_h fhp)).
  Notation aok := (atom_ok fp fhp).

  Lemma tr_leaves_h_err : forall ls n e, tr_leaves_h f fh chk n ls = TErr e ->
    (exists i a, e = TranslatorErr i /\ In a (flat_map (fun l => matoms_pre (snd l)) ls) /\ aok a = false) \/
    (exists c j dep m s, e = OuterErr c /\ nth_error ls j = Some (dep, m) /\ In s (subterms m) /\
                         (forall a, In a (matoms_pre s) -> aok a = true) /\ chk Tap (sub s) = Some c).
  Proof.
    induction ls as [|[d m] r IH]; intros n e E; [discriminate|].
    rewrite tr_leaves_h_cons in E.
    destruct (translate_rec_h f fh (chk Tap) n m) as [[m' n1]| |] eqn:E1; cbn [tbind fst snd] in E; try discriminate.
    - destruct (tr_leaves_h f fh chk n1 r) as [[r' n2]| |] eqn:E2; cbn [tbind fst snd] in E; try discriminate.
      injection E as <-. destruct (IH _ _ E2) as [[i [a [-> [Hin Hf]]]]|[c [j [dep [m0 [s [-> [Hn R]]]]]]]].
      + left. exists i, a. split; [reflexivity|]. split; [cbn; apply in_or_app; right; exact Hin | exact Hf].
      + right. exists c, (S j), dep, m0, s. split; [reflexivity|]. split; [exact Hn | exact R].
    - injection E as <-.
      destruct (trec_h_err fp fhp (chk Tap) m n _ E1) as [[i [a [-> [Hin Hf]]]]|[c [s [-> [Hin [Hm Hc]]]]]].
      + left. exists i, a. split; [reflexivity|]. split; [|exact Hf]. cbn. apply in_or_app. left.
        apply (Permutation_in a (matoms_perm m)). exact Hin.
      + right. exists c, 0%nat, d, m, s. split; [reflexivity|]. split; [reflexivity|]. split; [exact Hin|]. split; [|exact Hc].
        unfold amapped in Hm. rewrite Forall_forall in Hm. intros a Ha. apply Hm.
        apply (Permutation_in a (Permutation_sym (matoms_perm s))). exact Ha.
  Qed.

  Theorem desc_h_fail_names_node d e :
    translate_desc_h f fh chk kk d = TErr e -> names_node fp fhp chk kk d e.
  Proof.
    unfold names_node. destruct d as [m|k|k|m|k|m|m|ik ls]; cbn [translate_desc_h datoms].
    1, 4, 6, 7: (unfold wrap_h; intro E;
      match type of E with tbind (translate_iter_h _ _ ?c ?mm) _ = _ => destruct (translate_iter_h f fh c mm) as [m1| |] eqn:E1 end;
      cbn in E; try discriminate; injection E as <-;
      destruct (iter_h_fail_only_named _ _ _ _ _ E1) as [[i [a [-> [Hin Hf]]]]|[c [s [-> [Hin [Hm Hc]]]]]];
      [ left; exists i, a; auto
      | right; exists c; split; [reflexivity|]; right; eexists; exists None, m, s; split; [constructor|]; auto ]).
    1-3: (unfold single; destruct (fp k) as [k'|] eqn:E;
          [ match goal with |- match check_pk ?c ?x with _ => _ end = _ -> _ => destruct (check_pk c x) eqn:C end; [|discriminate];
            intro H; injection H as <-; right; eexists; split; [reflexivity|]; left; eexists; exists k, k'; split; [constructor|]; auto
          | intro H; injection H as <-; left; exists 0%N, (AKey k); split; [reflexivity|]; split; [left; reflexivity | cbn; rewrite E; reflexivity] ]).
    destruct (tr_leaves_h f fh chk 0 ls) as [[ls' n1]| |] eqn:E1; cbn [tbind fst snd]; try discriminate.
    - destruct (fp ik) as [ik'|] eqn:E.
      + destruct (check_pk Tap (kk ik')) eqn:C; [|discriminate]. intro H; injection H as <-.
        right. eexists. split; [reflexivity|]. left. exists Tap, ik, ik'. split; [constructor|]. auto.
      + intro H; injection H as <-. left. exists n1, (AKey ik). split; [reflexivity|]. split; [left; reflexivity | cbn; rewrite E; reflexivity].
    - intro H; injection H as <-.
      destruct (tr_leaves_h_err _ _ _ E1) as [[i [a [-> [Hin Hf]]]]|[c [j [dep [m [s [-> [Hn [Hin [Hm Hc]]]]]]]]]].
      + left. exists i, a. split; [reflexivity|]. split; [right; exact Hin | exact Hf].
      + right. exists c. split; [reflexivity|]. right. exists Tap, (Some j), m, s. split; [econstructor; exact Hn|]. auto.
  Qed.

  (* the named form implies the earlier one: a named key / node makes the substituted descriptor unacceptable *)
  Theorem names_node_not_ok d e : names_node fp fhp chk kk d e ->
    (exists a, In a (datoms d) /\ aok a = false) \/
    (exists c, e = OuterErr c /\ ~ desc_ok chk kk (dmap (total fp) (total_h fhp) d)).
  Proof.
    intros [[i [a [_ [Hin Hf]]]]|[c [-> [[cx [k [k' [Hs [Hk Hc]]]]]|[cx [j [m [s [Hs [Hin [Hm Hc]]]]]]]]]]].
    - left. exists a. auto.
    - right. exists c. split; [reflexivity|]. intro Hok.
      inversion Hs; subst; cbn [dmap desc_ok] in Hok; rewrite (total_some _ _ _ Hk) in Hok;
        try (rewrite Hok in Hc; discriminate). destruct Hok as [Hok _]. rewrite Hok in Hc. discriminate.
    - right. exists c. split; [reflexivity|]. intro Hok.
      assert (K : forall m0, chk_ok (chk cx) (sub m0) -> In s (subterms m0) -> False).
      { intros m0 H0 Hi. pose proof (chk_ok_subterm (chk cx) (total fp) (total_h fhp) m0 s H0 Hi) as Hn. rewrite Hn in Hc. discriminate. }
      inversion Hs; subst; cbn [dmap desc_ok] in Hok; try (eapply K; eassumption).
      destruct Hok as [_ Hok]. rewrite Forall_forall in Hok.
      match goal with Hn : nth_error _ _ = Some _ |- _ => apply nth_error_In in Hn;
        specialize (Hok _ (in_map (fun l => (fst l, sub (snd l))) _ _ Hn)) end.
      cbn in Hok. eapply K; eassumption.
  Qed.
End Named.

Local Open Scope N_scope.
Lemma desc_named_examples :
  let kk := fun k => if N.eqb k 31 then KUncompressed else if N.eqb k 40 then KCompressed else KXOnly in
  let chk := fun c => from_ast_chk c kk (fun _ => None) (fun _ => None) in
  let d := DTr 0 [(1, MAndV (MVerify (MSha256 [1])) (MCheck (MPkK 1))); (1, MCheck (MPkK 2))] in
  (* leaf 1, node pk_k(2 -> 31): uncompressed key in a tap leaf *)
  translate_desc_h (fun _ k => Some (if N.eqb k 2 then 31 else k)) (fun _ _ h => Some h) chk kk d = TErr (OuterErr CUncompressed) /\
  script_site d Tap (Some 1%nat) (MCheck (MPkK 2)) /\ In (MPkK 2) (subterms (MCheck (MPkK 2))) /\
  chk Tap (MPkK 31) = Some CUncompressed /\
  (* the internal key 0 -> 31 *)
  translate_desc_h (fun _ k => Some (if N.eqb k 0 then 31 else k)) (fun _ _ h => Some h) chk kk d = TErr (OuterErr CUncompressed) /\
  key_site d Tap 0 /\ check_pk Tap (kk 31) = Some CUncompressed /\
  (* wsh: the node pk_k(5 -> x-only) inside and_v *)
  translate_desc_h (fun _ k => Some (k + 1)) (fun _ _ h => Some h) chk kk (DWsh (MAndV (MVerify (MCheck (MPkK 39))) (MCheck (MPkK 5))))
    = TErr (OuterErr CXOnly) /\
  chk Segwitv0 (MPkK 6) = Some CXOnly /\
  (* wpkh: the single key *)
  translate_desc_h (fun _ k => Some 31) (fun _ _ h => Some h) chk kk (DWpkh 40) = TErr (OuterErr CUncompressed).
Proof.
  cbv zeta. repeat match goal with |- _ /\ _ => split end; try (vm_compute; reflexivity).
  - econstructor. reflexivity.
  - right. left. reflexivity.
  - constructor.
Qed.
