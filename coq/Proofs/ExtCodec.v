(* C09 x C04: the size figures against the REAL encoded length. C04 proves
   blen (encode ke m) = CodecExt.script_size c ke m for every well-formed miniscript; here the C09
   model of Miniscript::script_size is shown to be the same function, which removes the model's
   script size from C09's statements: pk_cost = encoded length, and the descriptor weights are
   stated over blen (encode ke m). *)
From Coq Require Import Lia.
From Verif Require Import CodecExt CodecSpec EncProofs.
From Verif Require Import TypeCheck ExtModel ExtProofs ExtLemmas ExtThresh ExtSatSide ExtBounds ExtTyped ExtDesc ExtSize.
Local Open Scope N_scope.

Arguments N.add : simpl never. Arguments N.mul : simpl never. Arguments N.sub : simpl never.
Arguments N.max : simpl never. Arguments N.of_nat : simpl never. Arguments N.leb : simpl never.
Arguments N.ltb : simpl never. Arguments N.eqb : simpl never.

(* the context record of the C09 model that corresponds to a C04 context and key environment *)
Definition xctx_of (c : ctx) (ke : keyenv) : xctx :=
  mkXctx (is_tap c) (CodecExt.is_uncompressed ke) (CodecExt.pk_len c ke).

Lemma hfv_ext fx xc m : CodecExt.hfv m = has_free_verify (ext_of_gen fx xc m).
Proof.
  induction m using ms_ind_ext; cbn [CodecExt.hfv ext_of_gen]; try reflexivity; auto.
  - unfold ext_pk_k. destruct (key_sig_bytes (fx_pkk fx) (xc_schnorr xc) (xc_unc xc k)). reflexivity.
  - unfold ext_pk_h. destruct (key_sig_bytes fx (xc_schnorr xc) (xc_unc xc k)). reflexivity.
  - unfold ext_pk_h_none, ext_pk_h. destruct (key_sig_bytes (fx_pkk fx) (xc_schnorr xc) true). reflexivity.
Qed.

Lemma sumN_map {A} (f : A -> N) l : CodecExt.sumN (map f l) = sum_map f l.
Proof. induction l as [|a r IH]; [reflexivity|]. cbn [map CodecExt.sumN sum_map fold_right]. fold (CodecExt.sumN (map f r)). fold (sum_map f r). rewrite IH. reflexivity. Qed.

(* the two models of Miniscript::script_size are the same function *)
Lemma script_size_bridge fx c ke m :
  CodecExt.script_size c ke m = script_size_gen fx (xctx_of c ke) m.
Proof.
  induction m using ms_ind_ext; cbn [CodecExt.script_size script_size_gen xctx_of xc_pklen]; try reflexivity;
    try (rewrite ?IHm, ?IHm1, ?IHm2, ?IHm3; lia).
  - (* v: *) rewrite IHm, (hfv_ext fx (xctx_of c ke) m). destruct (has_free_verify (ext_of_gen fx (xctx_of c ke) m)); reflexivity.
  - (* thresh *) unfold CodecExt.nlen. f_equal.
    induction H as [|x r Hx _ IH]; [reflexivity|]. rewrite Hx, IH. reflexivity.
  - unfold CodecExt.nlen. rewrite sumN_map. reflexivity.
  - unfold CodecExt.nlen. rewrite sumN_map. reflexivity.
  - unfold CodecExt.nlen. rewrite sumN_map. reflexivity.
  - unfold CodecExt.nlen. rewrite sumN_map. reflexivity.
Qed.

(* Miniscript::script_size is the length of the encoding *)
Theorem ext_script_size_is_len fx c ke m :
  ksort_ok ke -> ms_wf c ke m -> blen (encode ke m) = script_size_gen fx (xctx_of c ke) m.
Proof. intros Hk Hw. rewrite (script_size_ok c ke Hk m Hw). apply script_size_bridge. Qed.

(* which fragments a context admits (check_global_consensus_validity): multi outside Tap, multi_a in Tap *)
Fixpoint ctx_frag_ok (c : ctx) (m : ms) : bool :=
  match m with
  | MMulti _ _ | MSortedMulti _ _ => negb (is_tap c)
  | MMultiA _ _ | MSortedMultiA _ _ => is_tap c
  | MAlt x | MSwap x | MCheck x | MDupIf x | MVerify x | MNonZero x | MZeroNotEqual x => ctx_frag_ok c x
  | MAndV x y | MAndB x y | MOrB x y | MOrD x y | MOrC x y | MOrI x y => ctx_frag_ok c x && ctx_frag_ok c y
  | MAndOr x y z => ctx_frag_ok c x && ctx_frag_ok c y && ctx_frag_ok c z
  | MThresh _ xs => (fix go (l : list ms) : bool := match l with [] => true | x :: r => ctx_frag_ok c x && go r end) xs
  | _ => true
  end.

Lemma key_ok_pklen fx c ke k :
  key_ok c ke k -> CodecExt.pk_len c ke k = fst (key_sig_bytes (fx_pkk fx) (is_tap c) (CodecExt.is_uncompressed ke k)).
Proof.
  intros [Hk _]. unfold CodecExt.pk_len, key_sig_bytes, unc_bytes, CodecExt.is_uncompressed.
  destruct c; cbn [is_tap fx_pkk fx_unc fst]; try reflexivity.
  - destruct Hk as [-> | ->]; reflexivity.
  - destruct Hk as [-> | ->]; reflexivity.
  - rewrite Hk. reflexivity.
Qed.
Lemma keys_ok_multi c ke ks :
  is_tap c = false -> keys_ok c ke ks ->
  forallb (fun key => CodecExt.pk_len c ke key =? (if CodecExt.is_uncompressed ke key then 66 else 34)) ks = true.
Proof.
  intros Ht. induction ks as [|k r IH]; intros H; [reflexivity|]. destruct H as [[Hk _] Hr]. cbn [forallb]. rewrite (IH Hr), andb_true_r.
  unfold CodecExt.pk_len, CodecExt.is_uncompressed. destruct c; try discriminate; try (destruct Hk as [-> | ->]; reflexivity).
  rewrite Hk. reflexivity.
Qed.
Lemma keys_ok_multi_a c ke ks :
  is_tap c = true -> forallb (fun key => CodecExt.pk_len c ke key =? 33) ks = true.
Proof. intros Ht. destruct c; try discriminate. induction ks as [|k r IH]; [reflexivity|]. cbn [forallb]. rewrite IH. reflexivity. Qed.

(* every well-formed miniscript a context admits is in the class of ext_pk_cost_is_size *)
Lemma wf_size_wf fx c ke m : ms_wf c ke m -> ctx_frag_ok c m = true -> size_wf fx (xctx_of c ke) m = true.
Proof.
  induction m using ms_ind_ext; cbn [ms_wf ctx_frag_ok size_wf xctx_of xc_pklen xc_schnorr xc_unc]; intros Hw Hc; try reflexivity; auto.
  - apply N.eqb_eq. apply key_ok_pklen. exact Hw.
  - destruct Hw as [H1 H2]. apply andb_prop in Hc. destruct Hc as [C1 C2]. rewrite (IHm1 H1 C1), (IHm2 H2 C2). reflexivity.
  - destruct Hw as [H1 H2]. apply andb_prop in Hc. destruct Hc as [C1 C2]. rewrite (IHm1 H1 C1), (IHm2 H2 C2). reflexivity.
  - destruct Hw as (H1 & H2 & H3). apply andb_prop in Hc. destruct Hc as [C12 C3]. apply andb_prop in C12. destruct C12 as [C1 C2].
    rewrite (IHm1 H1 C1), (IHm2 H2 C2), (IHm3 H3 C3). reflexivity.
  - destruct Hw as [H1 H2]. apply andb_prop in Hc. destruct Hc as [C1 C2]. rewrite (IHm1 H1 C1), (IHm2 H2 C2). reflexivity.
  - destruct Hw as [H1 H2]. apply andb_prop in Hc. destruct Hc as [C1 C2]. rewrite (IHm1 H1 C1), (IHm2 H2 C2). reflexivity.
  - destruct Hw as [H1 H2]. apply andb_prop in Hc. destruct Hc as [C1 C2]. rewrite (IHm1 H1 C1), (IHm2 H2 C2). reflexivity.
  - destruct Hw as [H1 H2]. apply andb_prop in Hc. destruct Hc as [C1 C2]. rewrite (IHm1 H1 C1), (IHm2 H2 C2). reflexivity.
  - (* thresh *) destruct Hw as (_ & _ & Hw). induction H as [|x r Hx _ IH]; [reflexivity|].
    destruct Hw as [W1 W2]. apply andb_prop in Hc. destruct Hc as [C1 C2]. rewrite (Hx W1 C1), (IH W2 C2). reflexivity.
  - (* multi *) destruct Hw as ((_ & Hkn) & Hn & Hks). unfold CodecExt.nlen in *. apply negb_true_iff in Hc.
    rewrite (keys_ok_multi c ke ks Hc Hks), andb_true_r. apply andb_true_intro. split; apply N.ltb_lt; lia.
  - destruct Hw as ((_ & Hkn) & Hn & Hks). unfold CodecExt.nlen in *. apply negb_true_iff in Hc.
    rewrite (keys_ok_multi c ke ks Hc Hks), andb_true_r. apply andb_true_intro. split; apply N.ltb_lt; lia.
  - apply keys_ok_multi_a. exact Hc.
  - apply keys_ok_multi_a. exact Hc.
Qed.

(* ExtData::pk_cost (what the context limit checks read) is the length of the encoding *)
Theorem ext_pk_cost_is_len c ke m :
  ksort_ok ke -> ms_wf c ke m -> ctx_frag_ok c m = true ->
  pk_cost (ext_of (xctx_of c ke) m) = blen (encode ke m).
Proof.
  intros Hk Hw Hc. unfold ext_of. rewrite (ext_pk_cost_is_size as_written _ m (wf_size_wf as_written c ke m Hw Hc)).
  symmetry. apply ext_script_size_is_len; assumption.
Qed.

(* descriptor weights over the real script length, for every well-typed well-formed script *)
Theorem desc_weight_bound_len :
  forall dk c ke se mall rhs m t l,
    senv_ok (xctx_of c ke) se -> ksort_ok ke -> ms_wf c ke m ->
    type_of m = ROk t -> ext_struct_ok (xctx_of c ke) m = true -> se_tap se = false ->
    s_stack (snd (sat_dissat ke se mall rhs m)) = WStack l ->
    exists w, desc_weight as_written dk (xctx_of c ke) m = Some w
              /\ desc_measured dk se l (blen (encode ke m)) <= w.
Proof.
  intros dk c ke se mall rhs m t l Hse Hk Hw Ht Hs Htap El.
  rewrite (ext_script_size_is_len as_written c ke m Hk Hw).
  apply (desc_weight_bound as_written dk (xctx_of c ke) ke se mall rhs m l Hse); auto.
  - intros ks. apply Permutation.Permutation_length, Hk.
  - apply (typed_ext_safe _ m t Ht Hs).
Qed.
