(* C16 proofs, part 4: key translation, wildcard derivation, multipath split,
   find_derivation_index_for_spk. *)
From Coq Require Import List Bool NArith Lia Arith.
Import ListNotations.
From Verif Require Import DescWrapModel.
Local Open Scope N_scope.

Arguments N.ltb : simpl never. Arguments N.eqb : simpl never.

(* ------------------------------------------------------------------ generic lemmas *)
Lemma try_map_ok : forall {K K'} (f : K -> kres K') (g : K -> K') l,
  (forall x, In x l -> f x = KOk (g x)) -> try_map f l = KOk (map g l).
Proof.
  induction l as [|x l IH]; intros H; cbn [try_map map]; [reflexivity|].
  rewrite (H x (or_introl eq_refl)), IH; [reflexivity|]. intros y Hy. apply H. right. exact Hy.
Qed.

(* if every element either succeeds or fails with e, and one fails, the result is e *)
Lemma try_map_err : forall {K K'} (f : K -> kres K') e l,
  (forall x, In x l -> (exists y, f x = KOk y) \/ f x = KErr e) ->
  (exists x, In x l /\ f x = KErr e) -> try_map f l = KErr e.
Proof.
  induction l as [|x l IH]; intros Hall [z [Hz Ez]]; [contradiction|]. cbn [try_map].
  destruct (Hall x (or_introl eq_refl)) as [[y Ey]|Ex]; [|rewrite Ex; reflexivity].
  rewrite Ey. destruct Hz as [->|Hz]; [congruence|].
  rewrite IH; [reflexivity | intros w Hw; apply Hall; right; exact Hw | exists z; auto].
Qed.

Lemma try_map_ok_or_err : forall {K K'} (f : K -> kres K') e l,
  (forall x, In x l -> (exists y, f x = KOk y) \/ f x = KErr e) ->
  (exists l', try_map f l = KOk l') \/ try_map f l = KErr e.
Proof.
  induction l as [|x l IH]; intros Hall; cbn [try_map]; [left; eexists; reflexivity|].
  destruct (Hall x (or_introl eq_refl)) as [[y Ey]|Ex]; [|rewrite Ex; auto].
  rewrite Ey. destruct IH as [[l' E]|E]; [intros w Hw; apply Hall; right; exact Hw| |]; rewrite E; eauto.
Qed.

Lemma ms_keys_map : forall {K K'} (f : K -> K') m, ms_keys (ms_map f m) = map f (ms_keys m).
Proof. destruct m; reflexivity. Qed.
Lemma desc_keys_map : forall {K K'} (f : K -> K') d, desc_keys (desc_map f d) = map f (desc_keys d).
Proof.
  destruct d as [m|k|k|m|m|k|m|leaves ik]; cbn [desc_keys desc_map]; try apply ms_keys_map; try reflexivity.
  rewrite map_app. cbn [map]. f_equal.
  induction leaves as [|l leaves IH]; [reflexivity|]. cbn [map flat_map snd]. rewrite map_app, ms_keys_map, IH. reflexivity.
Qed.

Lemma ms_map_ext : forall {K K'} (f g : K -> K') m,
  (forall k, In k (ms_keys m) -> f k = g k) -> ms_map f m = ms_map g m.
Proof.
  intros K K' f g m H. destruct m; cbn [ms_map ms_keys] in *;
    try (rewrite (H k) by (left; reflexivity); reflexivity);
    f_equal; apply map_ext_in; exact H.
Qed.
Lemma desc_map_ext : forall {K K'} (f g : K -> K') d,
  (forall k, In k (desc_keys d) -> f k = g k) -> desc_map f d = desc_map g d.
Proof.
  intros K K' f g d H. destruct d as [m|k|k|m|m|k|m|leaves ik]; cbn [desc_map desc_keys] in *;
    try (f_equal; apply ms_map_ext; exact H);
    try (rewrite (H k) by (left; reflexivity); reflexivity).
  f_equal.
  - apply map_ext_in. intros l Hl. f_equal. apply ms_map_ext. intros k Hk. apply H.
    apply in_or_app. left. apply in_flat_map. exists l. auto.
  - apply H. apply in_or_app. right. left. reflexivity.
Qed.
Lemma ms_map_map : forall {K K' K''} (f : K -> K') (g : K' -> K'') m, ms_map g (ms_map f m) = ms_map (fun k => g (f k)) m.
Proof. destruct m; cbn [ms_map]; try rewrite map_map; reflexivity. Qed.
Lemma desc_map_map : forall {K K' K''} (f : K -> K') (g : K' -> K'') d,
  desc_map g (desc_map f d) = desc_map (fun k => g (f k)) d.
Proof.
  destruct d as [m|k|k|m|m|k|m|leaves ik]; cbn [desc_map]; try rewrite ms_map_map; try reflexivity.
  rewrite map_map. f_equal. apply map_ext. intros l. cbn [fst snd]. rewrite ms_map_map. reflexivity.
Qed.

(* translation succeeds with the mapped descriptor when every key succeeds *)
Lemma ms_try_map_ok : forall {K K'} (f : K -> kres K') (g : K -> K') m,
  (forall k, In k (ms_keys m) -> f k = KOk (g k)) -> ms_try_map f m = KOk (ms_map g m).
Proof.
  intros K K' f g m H. destruct m; cbn [ms_try_map ms_map ms_keys] in *;
    try (rewrite (H k) by (left; reflexivity); reflexivity);
    rewrite (try_map_ok f g) by exact H; reflexivity.
Qed.
Lemma desc_try_map_ok : forall {K K'} (f : K -> kres K') (g : K -> K') d,
  (forall k, In k (desc_keys d) -> f k = KOk (g k)) -> desc_try_map f d = KOk (desc_map g d).
Proof.
  intros K K' f g d H. destruct d as [m|k|k|m|m|k|m|leaves ik]; cbn [desc_try_map desc_map desc_keys] in *;
    try (rewrite (ms_try_map_ok f g) by exact H; reflexivity);
    try (rewrite (H k) by (left; reflexivity); reflexivity).
  rewrite (try_map_ok _ (fun l => (fst l, ms_map g (snd l)))).
  - cbn [kbind]. rewrite (H ik) by (apply in_or_app; right; left; reflexivity). reflexivity.
  - intros l Hl. rewrite (ms_try_map_ok f g); [reflexivity|]. intros k Hk. apply H.
    apply in_or_app. left. apply in_flat_map. exists l. auto.
Qed.

(* ... and fails with e when every key succeeds or fails with e and one fails *)
Lemma ms_try_map_ok_or_err : forall {K K'} (f : K -> kres K') e m,
  (forall k, In k (ms_keys m) -> (exists y, f k = KOk y) \/ f k = KErr e) ->
  (exists m', ms_try_map f m = KOk m') \/ ms_try_map f m = KErr e.
Proof.
  intros K K' f e m H. destruct m; cbn [ms_try_map ms_keys] in *;
    try (destruct (H k (or_introl eq_refl)) as [[y E]|E]; rewrite E; cbn [kbind]; eauto; fail);
    destruct (try_map_ok_or_err f e ks H) as [[l' E]|E]; rewrite E; cbn [kbind]; eauto.
Qed.
Lemma ms_try_map_err : forall {K K'} (f : K -> kres K') e m,
  (forall k, In k (ms_keys m) -> (exists y, f k = KOk y) \/ f k = KErr e) ->
  (exists k, In k (ms_keys m) /\ f k = KErr e) -> ms_try_map f m = KErr e.
Proof.
  intros K K' f e m H Hex. destruct m; cbn [ms_try_map ms_keys] in *;
    try (destruct Hex as [z [[->|[]] Ez]]; rewrite Ez; reflexivity);
    rewrite (try_map_err f e) by assumption; reflexivity.
Qed.
Lemma desc_try_map_err : forall {K K'} (f : K -> kres K') e d,
  (forall k, In k (desc_keys d) -> (exists y, f k = KOk y) \/ f k = KErr e) ->
  (exists k, In k (desc_keys d) /\ f k = KErr e) -> desc_try_map f d = KErr e.
Proof.
  intros K K' f e d H Hex. destruct d as [m|k|k|m|m|k|m|leaves ik]; cbn [desc_try_map desc_keys] in *;
    try (rewrite (ms_try_map_err f e) by assumption; reflexivity);
    try (destruct Hex as [z [[->|[]] Ez]]; rewrite Ez; reflexivity).
  set (fl := fun l : N * ms K => kbind (ms_try_map f (snd l)) (fun m' => KOk (fst l, m'))).
  assert (Hl : forall l, In l leaves -> (exists y, fl l = KOk y) \/ fl l = KErr e).
  { intros l Hl. unfold fl.
    destruct (ms_try_map_ok_or_err f e (snd l)) as [[m' E]|E]; [|rewrite E; cbn [kbind]; eauto..].
    intros k Hk. apply H. apply in_or_app. left. apply in_flat_map. exists l. auto. }
  destruct Hex as [z [Hz Ez]]. apply in_app_or in Hz. destruct Hz as [Hz|[<-|[]]].
  - apply in_flat_map in Hz. destruct Hz as [l [Hl1 Hl2]].
    rewrite (try_map_err fl e); [reflexivity | exact Hl |].
    exists l. split; [exact Hl1|]. unfold fl. rewrite (ms_try_map_err f e); [reflexivity | | exists z; auto].
    intros k Hk. apply H. apply in_or_app. left. apply in_flat_map. exists l. auto.
  - destruct (try_map_ok_or_err fl e leaves Hl) as [[l' E]|E]; rewrite E; cbn [kbind]; [|reflexivity].
    rewrite Ez. reflexivity.
Qed.

Lemma desc_try_map_ok_or_err : forall {K K'} (f : K -> kres K') e d,
  (forall k, In k (desc_keys d) -> (exists y, f k = KOk y) \/ f k = KErr e) ->
  (exists d', desc_try_map f d = KOk d') \/ desc_try_map f d = KErr e.
Proof.
  intros K K' f e d H. destruct d as [m|k|k|m|m|k|m|leaves ik]; cbn [desc_try_map desc_keys] in *;
    try (destruct (ms_try_map_ok_or_err f e m H) as [[m' E]|E]; rewrite E; cbn [kbind]; eauto; fail);
    try (destruct (H k (or_introl eq_refl)) as [[y E]|E]; rewrite E; cbn [kbind]; eauto; fail).
  set (fl := fun l : N * ms K => kbind (ms_try_map f (snd l)) (fun m' => KOk (fst l, m'))).
  assert (Hl : forall l, In l leaves -> (exists y, fl l = KOk y) \/ fl l = KErr e).
  { intros l Hl. unfold fl.
    destruct (ms_try_map_ok_or_err f e (snd l)) as [[m' E]|E]; [|rewrite E; cbn [kbind]; eauto..].
    intros k Hk. apply H. apply in_or_app. left. apply in_flat_map. exists l. auto. }
  destruct (try_map_ok_or_err fl e leaves Hl) as [[l' E]|E]; rewrite E; cbn [kbind]; [|auto].
  destruct (H ik) as [[y Ey]|Ey]; [apply in_or_app; right; left; reflexivity| |]; rewrite Ey; cbn [kbind]; eauto.
Qed.

(* ------------------------------------------------------------------ derivation *)
(* which key expressions denote a key at index i using public data only *)
Definition derivable (i : N) (k : dkey) : bool :=
  match k with
  | KSingle _ _ => true
  | KXpub _ _ p w =>
      negb (existsb is_hardened p)
      && match w with WNone => true | WUnhardened => valid_index i | WHardened => false end
  | KMulti _ _ _ _ => false
  end.
(* the key with the wildcard replaced by the index *)
Definition definite_form (i : N) (k : dkey) : dkey :=
  match k with
  | KXpub o x p w => KXpub o x (subst_path i p w) WNone
  | _ => k
  end.

Lemma existsb_app_single : forall p s, existsb is_hardened (p ++ [s]) = existsb is_hardened p || is_hardened s.
Proof. intros. rewrite existsb_app. cbn [existsb]. rewrite orb_false_r. reflexivity. Qed.

Lemma key_at_derivable : forall i k, derivable i k = true ->
  key_at_derivation_index i k = KOk (definite_form i k).
Proof.
  intros i k H. destruct k as [o s|o x p w|o x ps w]; cbn [derivable] in H; [reflexivity| |discriminate].
  apply andb_true_iff in H. destruct H as [Hh Hw]. apply negb_true_iff in Hh.
  destruct w; cbn [key_at_derivation_index definite_form subst_path].
  - unfold definite_new. cbn [key_has_wildcard wildcard_eqb negb key_has_hardened_step key_is_multipath].
    rewrite Hh. reflexivity.
  - rewrite Hw. unfold definite_new.
    cbn [key_has_wildcard wildcard_eqb negb key_has_hardened_step key_is_multipath].
    rewrite existsb_app_single, Hh. reflexivity.
  - discriminate.
Qed.

Lemma key_at_not_derivable : forall i k, derivable i k = false ->
  exists e, key_at_derivation_index i k = KErr e.
Proof.
  intros i k H. destruct k as [o s|o x p w|o x ps w]; cbn [derivable] in H; [discriminate| |eexists; reflexivity].
  cbn [key_at_derivation_index]. unfold definite_new.
  cbn [key_has_wildcard wildcard_eqb negb key_has_hardened_step key_is_multipath].
  destruct w; cbn [negb].
  - rewrite andb_true_r in H. apply negb_false_iff in H. rewrite H. eexists; reflexivity.
  - destruct (valid_index i); [|eexists; reflexivity].
    rewrite andb_true_r in H. apply negb_false_iff in H. rewrite existsb_app_single, H. eexists; reflexivity.
  - destruct (valid_index i); [|eexists; reflexivity].
    rewrite existsb_app_single. cbn [is_hardened]. rewrite orb_true_r. eexists; reflexivity.
Qed.

Section Derive.
  Variable ckd : N -> list step -> pubkey.
  Variable full_key : bytes -> bool -> pubkey.
  Variable xonly_key : bytes -> pubkey.
  Notation derive := (derive_pk_total ckd full_key xonly_key).
  Notation spec_at := (spec_key_at ckd full_key xonly_key).

  Lemma derive_definite_form : forall i k, derivable i k = true ->
    derive_public_key ckd full_key xonly_key (definite_form i k) = Some (spec_at i k).
  Proof.
    intros i k H. destruct k as [o [b c|b]|o x p w|o x ps w]; cbn [derivable] in H; try reflexivity; [|discriminate].
    apply andb_true_iff in H. destruct H as [Hh Hw]. apply negb_true_iff in Hh.
    cbn [definite_form derive_public_key spec_key_at].
    destruct w; cbn [subst_path] in *; try discriminate.
    - rewrite Hh. reflexivity.
    - rewrite existsb_app_single, Hh. reflexivity.
  Qed.

  (* derive_commutes: when every key is derivable at i, at_derivation_index replaces the
     wildcard of EVERY key by i, never fails, and the derived descriptor is the descriptor
     whose keys are the BIP32 children ckd(xpub, path[* := i]) *)
  Theorem at_index_ok : forall i d,
    (forall k, In k (desc_keys d) -> derivable i k = true) ->
    at_derivation_index i d = KOk (desc_map (definite_form i) d) /\
    desc_keys (desc_map (definite_form i) d) = map (definite_form i) (desc_keys d) /\
    derived_descriptor ckd full_key xonly_key (desc_map (definite_form i) d) = desc_map (spec_at i) d.
  Proof.
    intros i d H. split; [|split].
    - apply desc_try_map_ok. intros k Hk. apply key_at_derivable, H, Hk.
    - apply desc_keys_map.
    - unfold derived_descriptor. rewrite desc_map_map. apply desc_map_ext. intros k Hk.
      unfold derive_pk_total. rewrite derive_definite_form by (apply H; exact Hk). reflexivity.
  Qed.

  Theorem at_index_err : forall i d,
    (exists k, In k (desc_keys d) /\ derivable i k = false) ->
    exists e, at_derivation_index i d = KErr e.
  Proof.
    intros i d [k0 [Hin Hk0]]. unfold at_derivation_index.
    (* by induction over the structure: the first non-derivable key decides *)
    assert (G : forall l, (exists k, In k l /\ derivable i k = false) ->
                exists e, try_map (key_at_derivation_index i) l = KErr e).
    { induction l as [|x l IH]; intros [k [Hk Dk]]; [contradiction|]. cbn [try_map].
      destruct (derivable i x) eqn:Dx.
      - rewrite key_at_derivable by exact Dx. destruct Hk as [->|Hk]; [congruence|].
        destruct IH as [e E]; [exists k; auto|]. rewrite E. eauto.
      - destruct (key_at_not_derivable i x Dx) as [e E]. rewrite E. eauto. }
    assert (GM : forall m, (exists k, In k (ms_keys m) /\ derivable i k = false) ->
                 exists e, ms_try_map (key_at_derivation_index i) m = KErr e).
    { intros m Hm. destruct m; cbn [ms_try_map ms_keys] in *;
        try (destruct Hm as [z [[->|[]] Dz]]; destruct (key_at_not_derivable i z Dz) as [e E]; rewrite E; cbn [kbind]; eauto; fail);
        destruct (G _ Hm) as [e E]; rewrite E; cbn [kbind]; eauto. }
    destruct d as [m|k|k|m|m|k|m|leaves ik]; cbn [desc_try_map desc_keys] in *;
      try (destruct (GM m) as [e E]; [eauto|]; rewrite E; cbn [kbind]; eauto; fail);
      try (destruct Hin as [->|[]]; destruct (key_at_not_derivable i k0 Hk0) as [e E]; rewrite E; cbn [kbind]; eauto; fail).
    apply in_app_or in Hin. destruct Hin as [Hin|[<-|[]]].
    - apply in_flat_map in Hin. destruct Hin as [l0 [Hl0 Hkl0]].
      assert (GL : exists e, try_map (fun l => kbind (ms_try_map (key_at_derivation_index i) (snd l)) (fun m' => KOk (fst l, m'))) leaves = KErr e).
      { clear -Hl0 Hkl0 Hk0 GM. induction leaves as [|l leaves IH]; [contradiction|]. cbn [try_map].
        destruct (ms_try_map (key_at_derivation_index i) (snd l)) eqn:E; cbn [kbind]; [|eauto].
        destruct Hl0 as [->|Hl0].
        - destruct (GM (snd l0)) as [e E']; [eauto|]. congruence.
        - destruct (IH Hl0) as [e E']. rewrite E'. eauto. }
      destruct GL as [e E]. rewrite E. cbn [kbind]. eauto.
    - destruct (try_map _ leaves); cbn [kbind]; [|eauto].
      destruct (key_at_not_derivable i ik Hk0) as [e E]. rewrite E. cbn [kbind]. eauto.
  Qed.

  (* the commuting diagram on scripts, for any script function of definite descriptors *)
  Theorem derive_commutes : forall (script : desc pubkey -> option bytes) i d d',
    (forall k, In k (desc_keys d) -> derivable i k = true) ->
    at_derivation_index i d = KOk d' ->
    script (derived_descriptor ckd full_key xonly_key d') = script (desc_map (spec_at i) d).
  Proof.
    intros script i d d' H E. destruct (at_index_ok i d H) as [E1 [_ E2]].
    rewrite E1 in E. inversion E; subst. rewrite E2. reflexivity.
  Qed.
End Derive.
