(* Basic facts about the Script semantics: sequencing, the nested fixpoint, numbers. *)
From Verif Require Import Exec.
From Coq Require Import Lia.

Lemma bind_ok {A B} (r : result A) (f : A -> result B) a : r = Ok a -> bind r f = f a.
Proof. intros ->. reflexivity. Qed.

Lemma bind_ret {A} (r : result A) : bind r (fun a => Ok a) = r.
Proof. destruct r; reflexivity. Qed.

Lemma exec_app e s1 s2 st : exec e (s1 ++ s2) st = bind (exec e s1 st) (exec e s2).
Proof.
  revert st. induction s1 as [|i r IH]; intros st; cbn [app exec].
  - reflexivity.
  - destruct (exec_instr e i st) as [st'|]; cbn [bind]; [apply IH | reflexivity].
Qed.

Lemma exec_cons e i s st : exec e (i :: s) st = bind (exec_instr e i st) (exec e s).
Proof. reflexivity. Qed.

Lemma exec_nil e st : exec e [] st = Ok st. Proof. reflexivity. Qed.

(* the nested fixpoint inside IIf is exec *)
Lemma exec_if e neg thn els st :
  exec_instr e (IIf neg thn els) st =
  match stk st with
  | [] => Fail
  | v :: r =>
    match if_cond e v with
    | None => Fail
    | Some c =>
      if xorb c neg then exec e thn (mkSt r (alt st))
      else match els with Some el => exec e el (mkSt r (alt st)) | None => Ok (mkSt r (alt st)) end
    end
  end.
Proof.
  cbn [exec_instr]. destruct (stk st) as [|v r]; [reflexivity|].
  destruct (if_cond e v) as [c|]; [|reflexivity].
  assert (H : forall l s,
    (fix run (l : list instr) (s : state) {struct l} : result state :=
       match l with [] => Ok s | j :: rest => bind (exec_instr e j s) (run rest) end) l s = exec e l s).
  { induction l as [|j l IH]; intros s; [reflexivity|]. cbn [exec]. 
    destruct (exec_instr e j s); cbn [bind]; [apply IH | reflexivity]. }
  destruct (xorb c neg); [apply H|]. destruct els; [apply H | reflexivity].
Qed.

Lemma exec_push e b s st : exec e (IPush b :: s) st = exec e s (mkSt (b :: stk st) (alt st)).
Proof. reflexivity. Qed.
Lemma exec_num e n s st : exec e (INum n :: s) st = exec e s (mkSt (num_encode n :: stk st) (alt st)).
Proof. reflexivity. Qed.
Lemma exec_op_cons e o s st : exec e (IOp o :: s) st = bind (exec_op e o st) (exec e s).
Proof. reflexivity. Qed.

(* ---- script numbers used by Miniscript ---- *)
Definition numeric4 (b : bytes) : Prop := exists z, num_operand 4 b = Some z.

Lemma num_operand_empty n : num_operand n [] = Some 0%Z.
Proof. unfold num_operand. cbn. destruct n; reflexivity. Qed.
Lemma num_operand_one n : (1 <= n)%N -> num_operand n [1%N] = Some 1%Z.
Proof. intros H. unfold num_operand. cbn. destruct (N.leb_spec 1 n); [reflexivity | lia]. Qed.
Lemma numeric4_bool b : numeric4 (bool_bytes b).
Proof. destruct b; cbn; [exists 1%Z; apply num_operand_one; lia | exists 0%Z; apply num_operand_empty]. Qed.
Lemma num_operand_bool b : num_operand 4 (bool_bytes b) = Some (if b then 1%Z else 0%Z).
Proof. destruct b; reflexivity. Qed.

Lemma truthy_one : truthy [1%N] = true. Proof. reflexivity. Qed.
Lemma truthy_empty : truthy [] = false. Proof. reflexivity. Qed.
