(* Facts about the instrumented execution (Script/ExecTrace.v): [exec_tr] is [exec] plus the
   trace function [tr_script]; traces compose along script concatenation; [checks] composes
   along traces whose boundary does not split a hash/compare pair. *)
From Verif Require Import Exec ExecTrace ExecLemmas.
From Coq Require Import Lia.

(* ---------- induction principle for nested instructions ---------- *)
Section InstrInd.
  Variable P : instr -> Prop.
  Hypothesis HPush : forall b, P (IPush b).
  Hypothesis HNum : forall n, P (INum n).
  Hypothesis HOp : forall o, P (IOp o).
  Hypothesis HIfNone : forall neg thn, Forall P thn -> P (IIf neg thn None).
  Hypothesis HIfSome : forall neg thn el, Forall P thn -> Forall P el -> P (IIf neg thn (Some el)).
  Fixpoint instr_ind' (i : instr) : P i :=
    match i with
    | IPush b => HPush b
    | INum n => HNum n
    | IOp o => HOp o
    | IIf neg thn els =>
      let go := fix go (l : list instr) : Forall P l :=
                  match l with [] => Forall_nil P | x :: r => Forall_cons x (instr_ind' x) (go r) end in
      match els as o return P (IIf neg thn o) with
      | Some el => HIfSome neg thn el (go thn) (go el)
      | None => HIfNone neg thn (go thn)
      end
    end.
End InstrInd.

(* ---------- the trace as a function of script and start state ---------- *)
Fixpoint tr_instr (e : env) (i : instr) (st : state) {struct i} : list event :=
  match i with
  | IPush _ | INum _ => []
  | IOp o => op_events e o st
  | IIf neg thn els =>
    match stk st with
    | [] => []
    | v :: r =>
      match if_cond e v with
      | None => []
      | Some c =>
        let st' := mkSt r (alt st) in
        let run := fix run (l : list instr) (s : state) {struct l} : list event :=
          match l with
          | [] => []
          | j :: rest => tr_instr e j s ++ match exec_instr e j s with Ok s1 => run rest s1 | Fail => [] end
          end in
        if xorb c neg then run thn st' else match els with Some el => run el st' | None => [] end
      end
    end
  end.

Fixpoint tr_script (e : env) (s : script) (st : state) : list event :=
  match s with
  | [] => []
  | i :: rest => tr_instr e i st ++ match exec_instr e i st with Ok s1 => tr_script e rest s1 | Fail => [] end
  end.

Lemma tr_if e neg thn els st :
  tr_instr e (IIf neg thn els) st =
  match stk st with
  | [] => []
  | v :: r =>
    match if_cond e v with
    | None => []
    | Some c =>
      if xorb c neg then tr_script e thn (mkSt r (alt st))
      else match els with Some el => tr_script e el (mkSt r (alt st)) | None => [] end
    end
  end.
Proof.
  cbn [tr_instr]. destruct (stk st) as [|v r]; [reflexivity|].
  destruct (if_cond e v) as [c|]; [|reflexivity].
  assert (H : forall l s,
    (fix run (l : list instr) (s : state) {struct l} : list event :=
       match l with
       | [] => []
       | j :: rest => tr_instr e j s ++ match exec_instr e j s with Ok s1 => run rest s1 | Fail => [] end
       end) l s = tr_script e l s).
  { induction l as [|j l IH]; intros s; [reflexivity|]. cbn [tr_script].
    destruct (exec_instr e j s) as [s1|] eqn:Ej; [rewrite <- IH|]; cbn -[tr_instr exec_instr]; rewrite ?Ej; reflexivity. }
  destruct (xorb c neg); [apply H|]. destruct els; [apply H | reflexivity].
Qed.

Lemma tr_script_app e s1 s2 st :
  tr_script e (s1 ++ s2) st =
  tr_script e s1 st ++ match exec e s1 st with Ok st1 => tr_script e s2 st1 | Fail => [] end.
Proof.
  revert st. induction s1 as [|i r IH]; intros st; cbn [app tr_script exec].
  - reflexivity.
  - destruct (exec_instr e i st) as [s1'|]; cbn [bind]; [|rewrite !app_nil_r; reflexivity].
    rewrite IH, app_assoc. reflexivity.
Qed.

Lemma tr_script_cons e i s st :
  tr_script e (i :: s) st = tr_instr e i st ++ match exec_instr e i st with Ok s1 => tr_script e s s1 | Fail => [] end.
Proof. reflexivity. Qed.

(* ---------- exec_tr = exec + tr_script ---------- *)
Definition with_tr {A} (r : result A) (t : list event) : result (A * list event) :=
  match r with Ok a => Ok (a, t) | Fail => Fail end.

Lemma exec_tr_list_eq e l :
  Forall (fun i => forall st, exec_instr_tr e i st = with_tr (exec_instr e i st) (tr_instr e i st)) l ->
  forall st, exec_tr e l st = with_tr (exec e l st) (tr_script e l st).
Proof.
  induction 1 as [|i r Hi Hr IH]; intros st; [reflexivity|].
  cbn [exec_tr exec tr_script]. rewrite Hi. destruct (exec_instr e i st) as [s1|]; cbn [with_tr tbind bind]; [|reflexivity].
  rewrite IH. destruct (exec e r s1); reflexivity.
Qed.

Lemma exec_tr_run e l s :
  (fix run (l : list instr) (s : state) {struct l} : result (state * list event) :=
     match l with [] => Ok (s, []) | j :: rest => tbind (exec_instr_tr e j s) (run rest) end) l s = exec_tr e l s.
Proof.
  revert s. induction l as [|j l IHl]; intros s; [reflexivity|]. cbn [exec_tr].
  destruct (exec_instr_tr e j s) as [[s1 t1]|]; cbn [tbind]; [rewrite IHl|]; reflexivity.
Qed.

Lemma exec_instr_tr_eq e i : forall st, exec_instr_tr e i st = with_tr (exec_instr e i st) (tr_instr e i st).
Proof.
  induction i using instr_ind'; intros st; try reflexivity.
  - rewrite exec_if, tr_if. cbn [exec_instr_tr].
    destruct (stk st) as [|v r]; [reflexivity|]. destruct (if_cond e v) as [c|]; [|reflexivity].
    destruct (xorb c neg); [|reflexivity]. rewrite exec_tr_run. apply exec_tr_list_eq. exact H.
  - rewrite exec_if, tr_if. cbn [exec_instr_tr].
    destruct (stk st) as [|v r]; [reflexivity|]. destruct (if_cond e v) as [c|]; [|reflexivity].
    destruct (xorb c neg); rewrite exec_tr_run; apply exec_tr_list_eq; assumption.
Qed.

Theorem exec_tr_eq e s st : exec_tr e s st = with_tr (exec e s st) (tr_script e s st).
Proof.
  apply exec_tr_list_eq. apply Forall_forall. intros i _. apply exec_instr_tr_eq.
Qed.

(* erasure: the instrumented execution decides exactly what [exec] decides *)
Corollary exec_tr_erase e s st st' tr : exec_tr e s st = Ok (st', tr) -> exec e s st = Ok st'.
Proof. rewrite exec_tr_eq. destruct (exec e s st); cbn; intros H; inversion H; reflexivity. Qed.

(* ---------- composing [checks] ---------- *)
Definition hstart (t : list event) : bool := match t with THash _ _ _ :: _ => true | _ => false end.
Fixpoint hend (t : list event) : bool :=
  match t with
  | [] => false
  | [THash _ _ _] => true
  | _ :: r => hend r
  end.

Lemma hend_app t1 t2 : t2 <> [] -> hend (t1 ++ t2) = hend t2.
Proof.
  intros Hne. induction t1 as [|x r IH]; [reflexivity|]. cbn [app].
  destruct (r ++ t2) as [|y z] eqn:E.
  - destruct r; [cbn in E; congruence | discriminate].
  - destruct x; cbn [hend]; exact IH.
Qed.
Lemma hend_app_nil t1 : hend (t1 ++ []) = hend t1.
Proof. rewrite app_nil_r. reflexivity. Qed.

Lemma checks_app_len n : forall t1 t2, (length t1 <= n)%nat -> hend t1 = false -> hstart t2 = false ->
  checks (t1 ++ t2) = checks t1 ++ checks t2.
Proof.
  induction n as [|n IH]; intros t1 t2 Hlen He Hs.
  - destruct t1; [reflexivity | cbn in Hlen; lia].
  - destruct t1 as [|ev rest]; [reflexivity|]. cbn [length] in Hlen.
    assert (Hrest : hend rest = false).
    { destruct rest as [|y z]; [reflexivity|]. destruct ev; exact He. }
    assert (Hsimple : checks (rest ++ t2) = checks rest ++ checks t2) by (apply IH; [lia | assumption | assumption]).
    destruct ev as [k s|kd p d|v| | |a|a].
    + cbn [app checks]. rewrite Hsimple. reflexivity.
    + (* THash: the next event decides *)
      destruct rest as [|y z]; [discriminate|].
      cbn [app]. destruct y as [k s|kd2 p2 d2|v| | |a|a]; try (cbn [checks]; exact Hsimple).
      cbn [checks]. destruct (bytes_eqb d v).
      * cbn [app]. f_equal. apply IH; [cbn [length] in *; lia | | assumption].
        destruct z; [reflexivity | exact Hrest].
      * exact Hsimple.
    + cbn [app checks]. exact Hsimple.
    + cbn [app checks]. exact Hsimple.
    + (* TDup *)
      destruct rest as [|y z].
      * cbn [app checks]. destruct t2 as [|y2 z2]; [reflexivity|]. destruct y2; try reflexivity. discriminate.
      * cbn [app]. destruct y as [k s|kd p d|v| | |a|a]; try (cbn [checks]; exact Hsimple).
        destruct z as [|y' z']; [discriminate|]. cbn [app].
        destruct y' as [k s|kd2 p2 d2|v| | |a|a]; try (cbn [checks]; exact Hsimple).
        cbn [checks]. destruct (is_h160 kd && bytes_eqb d v).
        -- apply IH; [cbn [length] in *; lia | | assumption]. destruct z'; [reflexivity | exact Hrest].
        -- exact Hsimple.
    + cbn [app checks]. rewrite Hsimple. reflexivity.
    + cbn [app checks]. rewrite Hsimple. reflexivity.
Qed.

Lemma checks_app t1 t2 : hend t1 = false -> hstart t2 = false -> checks (t1 ++ t2) = checks t1 ++ checks t2.
Proof. apply (checks_app_len (length t1)). lia. Qed.
