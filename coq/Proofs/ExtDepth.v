(* C09, execution stack depth: for EVERY successful execution of the encoded script of a
   well-typed, well-formed fragment (any environment, any initial stack and alt stack, hence every
   satisfaction), the number of stack + altstack elements never rises more than [dgrow m] above its
   value at the start. Structural induction over the AST; the state between two sub-fragments comes
   from the frame theorem of C06 (typed_net). *)
From Coq Require Import Lia.
From Verif Require Import ExecTr ExecLemmas TypeCheck TheoremA FrameBase FrameSound.
From Verif Require Import ExtModel ExtProofs ExtLemmas ExtThresh ExtSatSide ExtBounds ExtTyped ExtExec ExtOps ExtDepthBase.
Local Open Scope Z_scope.

Lemma netb_le_1 t : netb t <= 1.
Proof. unfold netb. destruct (c_base (t_corr t)); try lia. destruct (c_input (t_corr t)); cbn [minc_in]; lia. Qed.

Lemma minc_ms_in x t : type_of x = ROk t -> Z.of_N (minc_ms x) = minc_in (c_input (t_corr t)).
Proof. intros H. unfold minc_ms. rewrite H. destruct (c_input (t_corr t)); reflexivity. Qed.

Lemma c_and_v_base l r c' : c_and_v l r = ROk c' -> c_base l = BV.
Proof. unfold c_and_v. destruct (c_base l), (c_base r); try discriminate; reflexivity. Qed.
Lemma c_or_d_base l r c' : c_or_d l r = ROk c' -> c_base l = BB.
Proof.
  unfold c_or_d. destruct (c_dissat l); cbn; [|discriminate]. destruct (c_unit l); cbn; [|discriminate].
  destruct (c_base l), (c_base r); try discriminate; reflexivity.
Qed.

Section Depth.
  Variable e : env.
  Variable ke : keyenv.

  Definition DB (s : script) (g : Z) : Prop :=
    forall st t st' t', exec_tr e s st t = Ok (st', t') -> trz t' <= Z.max (trz t) (dz st + g).
  Definition Dm (m : ms) : Prop :=
    forall ty, type_of m = ROk ty -> wf e ke m -> DB (enc ke m) (Z.of_N (dgrow m)).

  Lemma DB_lin s net mx : lin s 0 0 = Some (net, mx) -> DB s mx.
  Proof. intros Hl st t st' t' H. exact (proj2 (lin_run e s net mx st t st' t' Hl H)). Qed.

  (* the branch of an IF node, from the popped state *)
  Lemma DB_if neg thn els g :
    DB thn g -> (match els with Some el => DB el g | None => True end) -> 0 <= g ->
    DB [IIf neg thn els] g.
  Proof.
    intros Ht He Hg st t st' t' H. rewrite exec_tr_single in H. apply if_step in H.
    destruct H as (v & rs & c & _ & _ & Hd & Hb). cbv zeta in Hd, Hb.
    destruct (xorb c neg).
    - specialize (Ht _ _ _ _ Hb). rewrite trz_step in Ht. lia.
    - destruct els as [el|].
      + specialize (He _ _ _ _ Hb). rewrite trz_step in He. lia.
      + inversion Hb; subst. rewrite trz_step. lia.
  Qed.

  Ltac inv1 Ht tx Hx := cbn [type_of] in Ht; apply rbind_ok in Ht; destruct Ht as (tx & Hx & Ht); apply lift1_ok in Ht.
  Ltac inv2 Ht tx tz Hx Hy :=
    cbn [type_of] in Ht; apply rbind_ok in Ht; destruct Ht as (tx & Hx & Ht);
    apply rbind_ok in Ht; destruct Ht as (tz & Hy & Ht); apply lift2_ok in Ht.

  (* ---- OR_D: IFDUP duplicates only a true value, and then the NOTIF branch does not run *)
  Lemma ifdup_notif y s1 t1 st' t' :
    exec_tr e [IOp OP_IFDUP; IIf true y None] s1 t1 = Ok (st', t') ->
    trz t' <= Z.max (trz t1) (dz s1 + 1)
    \/ exists s3 t3, dz s3 = dz s1 - 1 /\ trz t3 <= Z.max (trz t1) (dz s1) /\ exec_tr e y s3 t3 = Ok (st', t').
  Proof.
    intros H. apply exec_tr_cons_inv in H. destruct H as (s2 & t2 & Hi & Hr).
    rewrite exec_tr_single in Hr. apply if_step in Hr. destruct Hr as (v & rs & c & Hs & Hc & Hd & Hb). cbv zeta in Hd, Hb.
    cbn [exec_instr_tr exec_instr exec_op] in Hi. destruct s1 as [s a]. cbn [stk alt] in Hi.
    destruct s as [|v0 r0]; [discriminate|]. inversion Hi; subst s2 t2; clear Hi. cbn [stk alt] in *.
    destruct c; cbn [xorb] in Hb.
    - (* condition true: NOTIF skips *) left. inversion Hb; subst. rewrite !trz_step. rewrite Hd.
      rewrite !dz_mk. destruct (truthy v0); cbn [length]; lia.
    - (* condition false: the top was false, so IFDUP did not duplicate *)
      right. apply if_cond_false_falsy in Hc.
      destruct (truthy v0) eqn:Et.
      + inversion Hs; subst. rewrite Et in Hc. discriminate.
      + inversion Hs; subst. eexists _, _. split; [|split; [|exact Hb]].
        * rewrite !dz_mk. cbn [length]. lia.
        * rewrite !trz_step, !dz_mk. cbn [length]. lia.
  Qed.

  (* ---- thresh: the children after the first run above the running sum *)
  Lemma thresh_rest_depth (rest : list ms) (tys : list ty) g :
    Forall2 (fun x t => type_of x = ROk t) rest tys ->
    Forall (fun x => wf e ke x) rest ->
    Forall Dm rest ->
    (forall x, In x rest -> Z.of_N (dgrow x) <= g) -> 0 <= g ->
    forall st t st' t',
      exec_tr e ((fix go (l : list ms) : script :=
                    match l with [] => [] | x :: r => enc ke x ++ [IOp OP_ADD] ++ go r end) rest) st t = Ok (st', t') ->
      dz st' <= dz st /\ trz t' <= Z.max (trz t) (dz st + g).
  Proof.
    intros HT. induction HT as [|x tx r tr Hx HT IH]; intros Hw HD Hg Hg0 st t st' t' H.
    - cbn [exec_tr] in H. inversion H; subst. lia.
    - inversion Hw as [|? ? Wx Wr]; subst. inversion HD as [|? ? Dx Dr]; subst.
      apply exec_tr_app_inv in H. destruct H as (s1 & t1 & H1 & H). apply exec_tr_app_inv in H. destruct H as (s2 & t2 & H2 & H3).
      pose proof (Dx tx Hx Wx _ _ _ _ H1) as B1. pose proof (typed_net_tr e ke x tx _ _ _ _ Hx Wx H1) as N1.
      pose proof (netb_le_1 tx) as L1. pose proof (Hg x (or_introl eq_refl)) as Gx.
      rewrite exec_tr_single in H2. apply op_step in H2; [|reflexivity]. destruct H2 as [A2 B2]. cbn [op_delta] in A2.
      destruct (IH Wr Dr (fun y Hy => Hg y (or_intror Hy)) Hg0 _ _ _ _ H3) as [A3 B3]. lia.
  Qed.

  Lemma pushes_depth (f : key -> bytes) ks : forall st t st' t',
    exec_tr e (map (fun k => IPush (f k)) ks) st t = Ok (st', t') ->
    dz st' = dz st + Z.of_nat (length ks) /\ trz t' <= Z.max (trz t) (dz st + Z.of_nat (length ks)).
  Proof.
    induction ks as [|k r IH]; intros st t st' t' H.
    - cbn [map exec_tr] in H. inversion H; subst. cbn [length]. lia.
    - cbn [map] in H. apply exec_tr_cons_inv in H. destruct H as (s1 & t1 & H1 & H2). apply push_step in H1.
      destruct H1 as [A B]. destruct (IH _ _ _ _ H2) as [A2 B2]. cbn [length]. lia.
  Qed.

  (* CHECKMULTISIG(VERIFY) never leaves more elements than it found *)
  Lemma cms_delta_plain st st' : exec_op e OP_CHECKMULTISIG st = Ok st' -> dz st' <= dz st.
  Proof.
    intros H. destruct st as [s a]. cbn [exec_op stk alt] in H.
    destruct (e_sv e); [ | |discriminate].
    - destruct s as [|nb r1]; [discriminate|].
      destruct (num_operand 4 nb) as [n|]; [|discriminate].
      destruct ((n <? 0) || (20 <? n))%bool; [discriminate|].
      destruct (take_n (Z.to_nat n) r1) as [[kr r2]|] eqn:T1; [|discriminate].
      destruct r2 as [|mb r3]; [discriminate|]. destruct (num_operand 4 mb) as [mm|]; [|discriminate].
      destruct ((mm <? 0) || (n <? mm))%bool; [discriminate|].
      destruct (take_n (Z.to_nat mm) r3) as [[sr r4]|] eqn:T2; [|discriminate].
      destruct r4 as [|dm r5]; [discriminate|]. destruct dm; [|discriminate].
      apply take_n_spec in T1. apply take_n_spec in T2. destruct T1 as [E1 _]. destruct T2 as [E3 _].
      destruct (negb (forallb (e_keyok e) kr)); [discriminate|].
      assert (L : Z.of_nat (length r5) + 1 <= Z.of_nat (length r1))
        by (rewrite E1, E3, !app_length; cbn [length]; rewrite app_length; cbn [length]; lia).
      destruct (multisig_match e kr sr);
        [|match type of H with context [forallb ?f sr] => destruct (forallb f sr) end];
        try discriminate; inversion H; subst; rewrite !dz_mk; cbn [length] in *; lia.
    - destruct s as [|nb r1]; [discriminate|].
      destruct (num_operand 4 nb) as [n|]; [|discriminate].
      destruct ((n <? 0) || (20 <? n))%bool; [discriminate|].
      destruct (take_n (Z.to_nat n) r1) as [[kr r2]|] eqn:T1; [|discriminate].
      destruct r2 as [|mb r3]; [discriminate|]. destruct (num_operand 4 mb) as [mm|]; [|discriminate].
      destruct ((mm <? 0) || (n <? mm))%bool; [discriminate|].
      destruct (take_n (Z.to_nat mm) r3) as [[sr r4]|] eqn:T2; [|discriminate].
      destruct r4 as [|dm r5]; [discriminate|]. destruct dm; [|discriminate].
      apply take_n_spec in T1. apply take_n_spec in T2. destruct T1 as [E1 _]. destruct T2 as [E3 _].
      destruct (negb (forallb (e_keyok e) kr)); [discriminate|].
      assert (L : Z.of_nat (length r5) + 1 <= Z.of_nat (length r1))
        by (rewrite E1, E3, !app_length; cbn [length]; rewrite app_length; cbn [length]; lia).
      destruct (multisig_match e kr sr);
        [|match type of H with context [forallb ?f sr] => destruct (forallb f sr) end];
        try discriminate; inversion H; subst; rewrite !dz_mk; cbn [length] in *; lia.
  Qed.
  Lemma cms_delta o st st' : is_cms o = true -> exec_op e o st = Ok st' -> dz st' <= dz st.
  Proof.
    intros Hc H. destruct o; try discriminate Hc.
    - exact (cms_delta_plain st st' H).
    - rewrite (verify_form_sound e OP_CHECKMULTISIG OP_CHECKMULTISIGVERIFY st eq_refl) in H.
      destruct (exec_op e OP_CHECKMULTISIG st) as [s1|] eqn:E1; cbn [bind] in H; [|discriminate].
      pose proof (cms_delta_plain st s1 E1). pose proof (exec_op_delta e OP_VERIFY s1 st' eq_refl H). cbn [op_delta] in *. lia.
  Qed.

  Lemma cms_step o st t st' t' :
    is_cms o = true -> exec_instr_tr e (IOp o) st t = Ok (st', t') -> dz st' <= dz st /\ trz t' = Z.max (trz t) (dz st').
  Proof.
    intros Hc. cbn [exec_instr_tr]. destruct (exec_instr e (IOp o) st) as [s1|] eqn:E; [|discriminate].
    intros H. inversion H; subst. rewrite trz_step. split; [|reflexivity]. exact (cms_delta o st st' Hc E).
  Qed.

  Lemma csa_pairs_depth (f : key -> bytes) l : forall st t st' t',
    exec_tr e (flat_map (fun k => [IPush (f k); IOp OP_CHECKSIGADD]) l) st t = Ok (st', t') ->
    dz st' <= dz st /\ trz t' <= Z.max (trz t) (dz st + 1).
  Proof.
    induction l as [|k r IH]; intros st t st' t' H.
    - cbn [flat_map exec_tr] in H. inversion H; subst. lia.
    - cbn [flat_map app] in H. apply exec_tr_cons_inv in H. destruct H as (s1 & t1 & H1 & H). apply exec_tr_cons_inv in H.
      destruct H as (s2 & t2 & H2 & H3). apply push_step in H1. destruct H1 as [A1 B1].
      apply op_step in H2; [|reflexivity]. destruct H2 as [A2 B2]. cbn [op_delta] in A2.
      destruct (IH _ _ _ _ H3) as [A3 B3]. lia.
  Qed.

  Lemma multi_a_depth (ks : list key) z : DB
    ((match ks with
      | [] => []
      | k0 :: rest => [IPush (kb ke k0); IOp OP_CHECKSIG] ++ flat_map (fun key => [IPush (kb ke key); IOp OP_CHECKSIGADD]) rest
      end) ++ [push_int z; IOp OP_NUMEQUAL]) 1.
  Proof.
    intros st t st' t' H. apply exec_tr_app_inv in H. destruct H as (s1 & t1 & H1 & H2).
    assert (P1 : dz s1 <= dz st /\ trz t1 <= Z.max (trz t) (dz st + 1)).
    { destruct ks as [|k0 rest].
      - cbn [exec_tr] in H1. inversion H1; subst. lia.
      - cbn [app] in H1. apply exec_tr_cons_inv in H1. destruct H1 as (a1 & b1 & X1 & H1). apply exec_tr_cons_inv in H1.
        destruct H1 as (a2 & b2 & X2 & X3). apply push_step in X1. destruct X1 as [A1 B1].
        apply op_step in X2; [|reflexivity]. destruct X2 as [A2 B2]. cbn [op_delta] in A2.
        destruct (csa_pairs_depth _ _ _ _ _ _ X3) as [A3 B3]. lia. }
    destruct P1 as [A B]. apply exec_tr_cons_inv in H2. destruct H2 as (s2 & t2 & X1 & X2). apply push_int_step in X1.
    destruct X1 as [A1 B1]. rewrite exec_tr_single in X2. apply op_step in X2; [|reflexivity]. destruct X2 as [A2 B2]. cbn [op_delta] in A2. lia.
  Qed.

  Lemma multi_depth (k : Z) (ks : list key) : DB
    ([push_int k] ++ map (fun key => IPush (kb ke key)) ks ++ [push_int (Z.of_nat (length ks)); IOp OP_CHECKMULTISIG])
    (Z.of_nat (length ks) + 2).
  Proof.
    intros st t st' t' H. cbn [app] in H. apply exec_tr_cons_inv in H. destruct H as (s1 & t1 & X1 & H).
    apply push_int_step in X1. destruct X1 as [A1 B1]. apply exec_tr_app_inv in H. destruct H as (s2 & t2 & X2 & H).
    destruct (pushes_depth _ _ _ _ _ _ X2) as [A2 B2]. apply exec_tr_cons_inv in H. destruct H as (s3 & t3 & X3 & X4).
    apply push_int_step in X3. destruct X3 as [A3 B3]. rewrite exec_tr_single in X4. apply cms_step in X4; [|reflexivity].
    destruct X4 as [A4 B4]. lia.
  Qed.

  Lemma wf_children xs :
    (fix go (l : list ms) : Prop := match l with [] => True | x :: r => wf e ke x /\ go r end) xs ->
    Forall (fun x => wf e ke x) xs.
  Proof. induction xs as [|x r IH]; intros H; [constructor|]. destruct H as [H1 H2]. constructor; auto. Qed.
  Lemma gomax_ge (rest : list ms) x :
    In x rest ->
    (dgrow x <= (fix go (l : list ms) : N := match l with [] => 0 | x :: r => N.max (dgrow x) (go r) end) rest)%N.
  Proof.
    induction rest as [|y r IH]; intros Hin; [destruct Hin|]. destruct Hin as [->|Hin]; [lia|]. specialize (IH Hin). lia.
  Qed.

  Ltac stepop H A B := rewrite ?exec_tr_single in H; apply op_step in H; [|reflexivity]; destruct H as [A B]; cbn [op_delta] in A.

  Ltac leaf net mx HX :=
    match type of HX with exec_tr _ ?s _ _ = _ => pose proof (DB_lin s net mx eq_refl _ _ _ _ HX) end.

  Theorem depth_all : forall m, Dm m.
  Proof.
    induction m using ms_ind_ext; unfold Dm in *; intros tym Ht Hw st tr0 st' tr0' HX; cbn [enc] in HX; cbn [dgrow].
    - (* 1 *) leaf 1 1 HX. lia.
    - (* 0 *) leaf 1 1 HX. lia.
    - (* pk_k *) leaf 1 1 HX. lia.
    - (* pk_h *) leaf 0 2 HX. lia.
    - (* raw_pk_h *) leaf 0 2 HX. lia.
    - (* after *) apply exec_tr_cons_inv in HX. destruct HX as (s1 & t1 & X1 & X2). apply push_int_step in X1. destruct X1 as [A1 B1].
      stepop X2 A2 B2. lia.
    - (* older *) apply exec_tr_cons_inv in HX. destruct HX as (s1 & t1 & X1 & X2). apply push_int_step in X1. destruct X1 as [A1 B1].
      stepop X2 A2 B2. lia.
    - (* sha256 *) leaf 0 2 HX. lia.
    - leaf 0 2 HX. lia.
    - leaf 0 2 HX. lia.
    - leaf 0 2 HX. lia.
    - (* a: *) inv1 Ht tx Hx. cbn [wf] in Hw.
      apply exec_tr_app_inv in HX. destruct HX as (s1 & t1 & H1 & HX). apply exec_tr_app_inv in HX. destruct HX as (s2 & t2 & H2 & H3).
      stepop H1 A1 B1. pose proof (IHm tx Hx Hw _ _ _ _ H2) as B2. pose proof (typed_net_tr e ke m tx _ _ _ _ Hx Hw H2) as N2.
      pose proof (netb_le_1 tx). stepop H3 A3 B3. lia.
    - (* s: *) inv1 Ht tx Hx. cbn [wf] in Hw.
      apply exec_tr_app_inv in HX. destruct HX as (s1 & t1 & H1 & H2). stepop H1 A1 B1.
      pose proof (IHm tx Hx Hw _ _ _ _ H2) as B2. lia.
    - (* c: *) inv1 Ht tx Hx. cbn [wf] in Hw.
      apply exec_tr_app_inv in HX. destruct HX as (s1 & t1 & H1 & H2).
      pose proof (IHm tx Hx Hw _ _ _ _ H1) as B1. pose proof (typed_net_tr e ke m tx _ _ _ _ Hx Hw H1) as N1.
      pose proof (netb_le_1 tx). stepop H2 A2 B2. lia.
    - (* d: *) inv1 Ht tx Hx. cbn [wf] in Hw.
      apply exec_tr_cons_inv in HX. destruct HX as (s1 & t1 & H1 & H2). stepop H1 A1 B1.
      rewrite exec_tr_single in H2. apply if_step in H2. destruct H2 as (v & rs & c & _ & _ & Hd & Hb). cbv zeta in Hd, Hb.
      destruct (xorb c false).
      + pose proof (IHm tx Hx Hw _ _ _ _ Hb) as B2. rewrite trz_step in B2. lia.
      + inversion Hb; subst. rewrite trz_step. lia.
    - (* v: *) inv1 Ht tx Hx. cbn [wf] in Hw. apply pv_trace in HX. destruct HX as (t'' & HX & Hle).
      apply exec_tr_app_inv in HX. destruct HX as (s1 & t1 & H1 & H2).
      pose proof (IHm tx Hx Hw _ _ _ _ H1) as B1. pose proof (typed_net_tr e ke m tx _ _ _ _ Hx Hw H1) as N1.
      pose proof (netb_le_1 tx). stepop H2 A2 B2. lia.
    - (* j: *) inv1 Ht tx Hx. cbn [wf] in Hw.
      apply exec_tr_cons_inv in HX. destruct HX as (s1 & t1 & H1 & HX). apply exec_tr_cons_inv in HX. destruct HX as (s2 & t2 & H2 & H3).
      stepop H1 A1 B1. stepop H2 A2 B2.
      rewrite exec_tr_single in H3. apply if_step in H3. destruct H3 as (v & rs & c & _ & _ & Hd & Hb). cbv zeta in Hd, Hb.
      destruct (xorb c false).
      + pose proof (IHm tx Hx Hw _ _ _ _ Hb) as B3. rewrite trz_step in B3. lia.
      + inversion Hb; subst. rewrite trz_step. lia.
    - (* n: *) inv1 Ht tx Hx. cbn [wf] in Hw.
      apply exec_tr_app_inv in HX. destruct HX as (s1 & t1 & H1 & H2).
      pose proof (IHm tx Hx Hw _ _ _ _ H1) as B1. pose proof (typed_net_tr e ke m tx _ _ _ _ Hx Hw H1) as N1.
      pose proof (netb_le_1 tx). stepop H2 A2 B2. lia.
    - (* and_v *) inv2 Ht tx tz Hx Hy. apply c_and_v_base in Ht. cbn [wf] in Hw. destruct Hw as [W1 W2].
      apply exec_tr_app_inv in HX. destruct HX as (s1 & t1 & H1 & H2).
      pose proof (IHm1 tx Hx W1 _ _ _ _ H1) as B1. pose proof (typed_net_tr e ke m1 tx _ _ _ _ Hx W1 H1) as N1.
      unfold netb in N1. rewrite Ht in N1. pose proof (IHm2 tz Hy W2 _ _ _ _ H2) as B2. lia.
    - (* and_b *) inv2 Ht tx tz Hx Hy. cbn [wf] in Hw. destruct Hw as [W1 W2].
      apply exec_tr_app_inv in HX. destruct HX as (s1 & t1 & H1 & HX). apply exec_tr_app_inv in HX. destruct HX as (s2 & t2 & H2 & H3).
      pose proof (IHm1 tx Hx W1 _ _ _ _ H1) as B1. pose proof (typed_net_tr e ke m1 tx _ _ _ _ Hx W1 H1) as N1. pose proof (netb_le_1 tx).
      pose proof (IHm2 tz Hy W2 _ _ _ _ H2) as B2. pose proof (typed_net_tr e ke m2 tz _ _ _ _ Hy W2 H2) as N2. pose proof (netb_le_1 tz).
      stepop H3 A3 B3. lia.
    - (* andor *) cbn [type_of] in Ht. apply rbind_ok in Ht. destruct Ht as (ta & Ha & Ht). apply rbind_ok in Ht. destruct Ht as (tb & Hb & Ht).
      apply rbind_ok in Ht. destruct Ht as (tc & Hc & Ht). cbn [wf] in Hw. destruct Hw as (W1 & W2 & W3).
      apply exec_tr_app_inv in HX. destruct HX as (s1 & t1 & H1 & H2).
      pose proof (IHm1 ta Ha W1 _ _ _ _ H1) as B1. pose proof (typed_net_tr e ke m1 ta _ _ _ _ Ha W1 H1) as N1. pose proof (netb_le_1 ta).
      rewrite exec_tr_single in H2. apply if_step in H2. destruct H2 as (v & rs & c & _ & _ & Hd & Hbr). cbv zeta in Hd, Hbr.
      destruct (xorb c true).
      + pose proof (IHm3 tc Hc W3 _ _ _ _ Hbr) as B2. rewrite trz_step in B2. lia.
      + pose proof (IHm2 tb Hb W2 _ _ _ _ Hbr) as B2. rewrite trz_step in B2. lia.
    - (* or_b *) inv2 Ht tx tz Hx Hy. cbn [wf] in Hw. destruct Hw as [W1 W2].
      apply exec_tr_app_inv in HX. destruct HX as (s1 & t1 & H1 & HX). apply exec_tr_app_inv in HX. destruct HX as (s2 & t2 & H2 & H3).
      pose proof (IHm1 tx Hx W1 _ _ _ _ H1) as B1. pose proof (typed_net_tr e ke m1 tx _ _ _ _ Hx W1 H1) as N1. pose proof (netb_le_1 tx).
      pose proof (IHm2 tz Hy W2 _ _ _ _ H2) as B2. pose proof (typed_net_tr e ke m2 tz _ _ _ _ Hy W2 H2) as N2. pose proof (netb_le_1 tz).
      stepop H3 A3 B3. lia.
    - (* or_d *) inv2 Ht tx tz Hx Hy. apply c_or_d_base in Ht. cbn [wf] in Hw. destruct Hw as [W1 W2].
      apply exec_tr_app_inv in HX. destruct HX as (s1 & t1 & H1 & H2).
      pose proof (IHm1 tx Hx W1 _ _ _ _ H1) as B1. pose proof (typed_net_tr e ke m1 tx _ _ _ _ Hx W1 H1) as N1.
      unfold netb in N1. rewrite Ht in N1. rewrite <- (minc_ms_in m1 tx Hx) in N1.
      assert (Hm : (minc_ms m1 <= 1)%N) by (unfold minc_ms; destruct (type_of m1) as [tt|]; [destruct (c_input (t_corr tt))|]; lia).
      apply ifdup_notif in H2. destruct H2 as [Hs|(s3 & t3 & D3 & T3 & Hy')].
      + lia.
      + pose proof (IHm2 tz Hy W2 _ _ _ _ Hy') as B2. lia.
    - (* or_c *) inv2 Ht tx tz Hx Hy. cbn [wf] in Hw. destruct Hw as [W1 W2].
      apply exec_tr_app_inv in HX. destruct HX as (s1 & t1 & H1 & H2).
      pose proof (IHm1 tx Hx W1 _ _ _ _ H1) as B1. pose proof (typed_net_tr e ke m1 tx _ _ _ _ Hx W1 H1) as N1. pose proof (netb_le_1 tx).
      rewrite exec_tr_single in H2. apply if_step in H2. destruct H2 as (v & rs & c & _ & _ & Hd & Hbr). cbv zeta in Hd, Hbr.
      destruct (xorb c true).
      + pose proof (IHm2 tz Hy W2 _ _ _ _ Hbr) as B2. rewrite trz_step in B2. lia.
      + inversion Hbr; subst. rewrite trz_step. lia.
    - (* or_i *) inv2 Ht tx tz Hx Hy. cbn [wf] in Hw. destruct Hw as [W1 W2].
      rewrite exec_tr_single in HX. apply if_step in HX. destruct HX as (v & rs & c & _ & _ & Hd & Hbr). cbv zeta in Hd, Hbr.
      destruct (xorb c false).
      + pose proof (IHm1 tx Hx W1 _ _ _ _ Hbr) as B2. rewrite trz_step in B2. lia.
      + pose proof (IHm2 tz Hy W2 _ _ _ _ Hbr) as B2. rewrite trz_step in B2. lia.
    - (* thresh *) cbn [type_of] in Ht. apply rbind_ok in Ht. destruct Ht as (ts & Hts & _).
      apply type_of_thresh_children in Hts. cbn [wf] in Hw. destruct Hw as (_ & _ & Hw). apply wf_children in Hw.
      apply exec_tr_app_inv in HX. destruct HX as (s1 & t1 & H1 & H2).
      assert (P1 : dz s1 <= dz st + 1 /\
                   trz t1 <= Z.max (trz tr0) (dz st + Z.of_N (match xs with
                     | [] => 0%N
                     | x0 :: rest => N.max (dgrow x0) (1 + (fix go (l : list ms) : N := match l with [] => 0%N | x :: r => N.max (dgrow x) (go r) end) rest)%N
                     end))).
      { destruct xs as [|x0 rest].
        - cbn [exec_tr] in H1. inversion H1; subst. lia.
        - inversion Hts as [|? t0 ? ts' T0 Trest]; subst. inversion Hw as [|? ? W0 Wrest]; subst.
          inversion H as [|? ? D0 Drest]; subst.
          apply exec_tr_app_inv in H1. destruct H1 as (a1 & b1 & X1 & X2).
          pose proof (D0 t0 T0 W0 _ _ _ _ X1) as B1. pose proof (typed_net_tr e ke x0 t0 _ _ _ _ T0 W0 X1) as N1. pose proof (netb_le_1 t0).
          destruct (thresh_rest_depth rest ts' _ Trest Wrest Drest (fun x Hin => proj1 (N2Z.inj_le _ _) (gomax_ge rest x Hin)) ltac:(lia) _ _ _ _ X2) as [A2 B2].
          lia. }
      destruct P1 as [A1 B1]. apply exec_tr_cons_inv in H2. destruct H2 as (s2 & t2 & X1 & X2). apply push_int_step in X1.
      destruct X1 as [A2 B2]. stepop X2 A3 B3. lia.
    - (* multi *) cbn [wf] in Hw. pose proof (multi_depth _ _ _ _ _ _ HX). lia.
    - (* sortedmulti *) cbn [wf] in Hw. destruct Hw as (_ & _ & _ & Hl). rewrite <- Hl in HX.
      pose proof (multi_depth _ _ _ _ _ _ HX) as B. rewrite Hl in B. lia.
    - (* multi_a *) pose proof (multi_a_depth _ _ _ _ _ _ HX). lia.
    - (* sortedmulti_a *) pose proof (multi_a_depth _ _ _ _ _ _ HX). lia.
  Qed.
End Depth.

(* ------------------------------------------------------------------ closed forms *)
Local Close Scope Z_scope.
Local Open Scope N_scope.

(* every successful execution, from any state: the depth never rises more than [dgrow m] *)
Theorem exec_depth_growth e ke m tym st t st' t' :
  type_of m = ROk tym -> wf e ke m ->
  exec_tr e (enc ke m) st t = Ok (st', t') ->
  tr_depth t' <= N.max (tr_depth t) (depth_of st + dgrow m).
Proof.
  intros Ht Hw H. pose proof (depth_all e ke m tym Ht Hw st t st' t' H) as B. unfold trz, dz in B. lia.
Qed.

(* ... hence, on the class where the growth bound is within the figure, never above
   initial depth + max_exec_stack_count *)
Theorem exec_depth_within_figure fx c e ke m tym st t st' t' :
  type_of m = ROk tym -> wf e ke m -> depth_covered fx c m = true ->
  exec_tr e (enc ke m) st t = Ok (st', t') ->
  exists d, sat_data (ext_of_gen fx c m) = Some d
            /\ tr_depth t' <= N.max (tr_depth t) (depth_of st + sd_estack d).
Proof.
  intros Ht Hw Hc H. unfold depth_covered in Hc.
  destruct (sat_data (ext_of_gen fx c m)) as [d|]; [|discriminate]. apply N.leb_le in Hc.
  exists d. split; [reflexivity|]. pose proof (exec_depth_growth e ke m tym st t st' t' Ht Hw H). lia.
Qed.

(* the form the library's stack-size limit check relies on: a witness of at most
   max_witness_stack_count elements on an empty altstack never reaches a depth above
   max_witness_stack_count + max_exec_stack_count *)
Theorem exec_depth_limit fx c e ke m tym items st' t' :
  type_of m = ROk tym -> wf e ke m -> depth_covered fx c m = true ->
  exec_tr e (enc ke m) (mkSt items []) (mkTrace 0 (depth_of (mkSt items []))) = Ok (st', t') ->
  exists d, sat_data (ext_of_gen fx c m) = Some d
            /\ (N.of_nat (length items) <= sd_wcount d -> tr_depth t' <= sd_wcount d + sd_estack d).
Proof.
  intros Ht Hw Hc H. destruct (exec_depth_within_figure fx c e ke m tym _ _ _ _ Ht Hw Hc H) as (d & Hd & B).
  exists d. split; [exact Hd|]. intros Hl. cbn [tr_depth] in B. unfold depth_of in B. cbn [stk alt length] in B. lia.
Qed.


(* the bound is attained, and equals the figure: 1-of-3 multi on a two-element witness reaches
   depth 2 + 5 = initial + max_exec_stack_count (environment and keys of ExtOps.rf_env) *)
Lemma exec_depth_attained :
  match exec_tr rf_env (enc rf_ke (MMulti 1 [3; 4; 5])) (mkSt [[48]; []] []) (mkTrace 0 2),
        sat_data (ext_of_gen as_written cx_segwit (MMulti 1 [3; 4; 5])) with
  | Ok (st', t'), Some d =>
    stk st' = [[1]] /\ tr_depth t' = 2 + sd_estack d /\ dgrow (MMulti 1 [3; 4; 5]) = sd_estack d
  | _, _ => False
  end.
Proof. vm_compute. repeat split; reflexivity. Qed.
