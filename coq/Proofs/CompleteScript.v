(* C02 at the SCRIPT level: if the Script semantics accepts SOME stack built from material the
   caller holds, the satisfier model returns a satisfaction.
   Route: accepts e (enc m) w  <->  Rsat e ke m w   (Theorem B, exact relation, DenotMain.v);
          Rsat m w  and  A covers the material of w  ->  all_sat ke A m <> []      (this file);
          all_sat ke A m <> []  ->  satisfy .. = Some bs                            (CompleteThresh / CompleteNonMall).
   The middle step is a canonicalisation: the exact relation accepts more than the table lists
   (non-zero hash dissatisfactions, over-satisfied thresh, and_b with one side satisfied, ...),
   but every non-canonical choice sits in a DISsatisfied sub-fragment, and the type system only
   lets a parent use the dissatisfaction of a child typed "d" -- and a "d" fragment has a table
   dissatisfaction that needs no material at all ([dsat_ne]).  So no restriction on the fragment
   class is needed (raw_pk_h excluded: the table lists nothing for it). *)
From Verif Require Import Exec Ser Ast Types TypeCheck SatSpec Sat ExecLemmas TheoremA SatProofs CompleteProofs
  CompleteThresh CompleteNonMall DenotSpec DenotLemmas DenotMain DenotTable.
From Coq Require Import Lia ZArith.

(* ---------- correctness-type inversions: who is dissatisfiable ("d") ---------- *)
Lemma lift1_corr fc fm t t' : lift1 fc fm t = ROk t' -> fc (t_corr t) = ROk (t_corr t').
Proof. unfold lift1. destruct (fc (t_corr t)); [|discriminate]. intros H. inversion H. reflexivity. Qed.
Lemma lift2_corr fc fm l r t' : lift2 fc fm l r = ROk t' -> fc (t_corr l) (t_corr r) = ROk (t_corr t').
Proof. unfold lift2. destruct (fc (t_corr l) (t_corr r)); [|discriminate]. intros H. inversion H. reflexivity. Qed.
Lemma and_or_corr a b c t' : t_and_or a b c = ROk t' -> c_and_or (t_corr a) (t_corr b) (t_corr c) = ROk (t_corr t').
Proof. unfold t_and_or. destruct (c_and_or _ _ _); [|discriminate]. intros H. inversion H. reflexivity. Qed.
Lemma threshold_corr k ts t' : t_threshold k ts = ROk t' -> c_threshold k (map t_corr ts) = ROk (t_corr t').
Proof. unfold t_threshold. destruct (c_threshold _ _); [|discriminate]. intros H. inversion H. reflexivity. Qed.

Lemma c_alt_d s c : c_cast_alt s = ROk c -> c_dissat c = c_dissat s.
Proof. unfold c_cast_alt. destruct (c_base s); try discriminate. intros H. inversion H. reflexivity. Qed.
Lemma c_swap_d s c : c_cast_swap s = ROk c -> c_dissat c = c_dissat s.
Proof. unfold c_cast_swap. destruct (c_base s); try discriminate. destruct (c_input s); try discriminate; intros H; inversion H; reflexivity. Qed.
Lemma c_check_d s c : c_cast_check s = ROk c -> c_dissat c = c_dissat s.
Proof. unfold c_cast_check. destruct (c_base s); try discriminate. intros H. inversion H. reflexivity. Qed.
Lemma c_zne_d s c : c_cast_zeronotequal s = ROk c -> c_dissat c = c_dissat s.
Proof. unfold c_cast_zeronotequal. destruct (c_base s); try discriminate. intros H. inversion H. reflexivity. Qed.
Lemma c_verify_d s c : c_cast_verify s = ROk c -> c_dissat c = false.
Proof. unfold c_cast_verify. destruct (c_base s); try discriminate. intros H. inversion H. reflexivity. Qed.
Lemma c_and_v_d l r c : c_and_v l r = ROk c -> c_dissat c = false.
Proof. unfold c_and_v. destruct (c_base l), (c_base r); try discriminate; intros H; inversion H; reflexivity. Qed.
Lemma c_and_b_d l r c : c_and_b l r = ROk c -> c_dissat c = c_dissat l && c_dissat r.
Proof. unfold c_and_b. destruct (c_base l), (c_base r); try discriminate; intros H; inversion H; reflexivity. Qed.
Lemma c_or_b_d l r c : c_or_b l r = ROk c -> c_dissat l = true /\ c_dissat r = true.
Proof. unfold c_or_b. destruct (c_dissat l); cbn [negb]; [|discriminate]. destruct (c_dissat r); cbn [negb]; [|discriminate]. auto. Qed.
Lemma c_or_d_d l r c : c_or_d l r = ROk c -> c_dissat l = true /\ c_dissat c = c_dissat r.
Proof.
  unfold c_or_d. destruct (c_dissat l); cbn [negb]; [|discriminate]. destruct (c_unit l); cbn [negb]; [|discriminate].
  destruct (c_base l), (c_base r); try discriminate; intros H; inversion H; auto.
Qed.
Lemma c_or_c_d l r c : c_or_c l r = ROk c -> c_dissat l = true /\ c_dissat c = false.
Proof.
  unfold c_or_c. destruct (c_dissat l); cbn [negb]; [|discriminate]. destruct (c_unit l); cbn [negb]; [|discriminate].
  destruct (c_base l), (c_base r); try discriminate; intros H; inversion H; auto.
Qed.
Lemma c_or_i_d l r c : c_or_i l r = ROk c -> c_dissat c = c_dissat l || c_dissat r.
Proof. unfold c_or_i. destruct (c_base l), (c_base r); try discriminate; intros H; inversion H; reflexivity. Qed.
Lemma c_and_or_d a b c r : c_and_or a b c = ROk r -> c_dissat a = true /\ c_dissat r = c_dissat c.
Proof.
  unfold c_and_or. destruct (c_dissat a); cbn [negb]; [|discriminate]. destruct (c_unit a); cbn [negb]; [|discriminate].
  destruct (c_base a), (c_base b), (c_base c); try discriminate; intros H; inversion H; auto.
Qed.
Lemma c_thresh_loop_d subs : forall i na n, c_thresh_loop i na subs = ROk n -> Forall (fun s => c_dissat s = true) subs.
Proof.
  induction subs as [|s r IH]; intros i na n H; [constructor|]. cbn [c_thresh_loop] in H.
  destruct (_ && _) in H; [discriminate|]. destruct (_ && _) in H; [discriminate|].
  destruct (c_unit s); cbn [negb] in H; [|discriminate]. destruct (c_dissat s) eqn:Ed; cbn [negb] in H; [|discriminate].
  constructor; [exact Ed | eapply IH; exact H].
Qed.
Lemma c_threshold_d k subs c : c_threshold k subs = ROk c -> Forall (fun s => c_dissat s = true) subs.
Proof. unfold c_threshold. destruct (c_thresh_loop 0 0 subs) eqn:E; [|discriminate]. intros _. eapply c_thresh_loop_d; exact E. Qed.

Lemma cross_ne (S T : list wit) : S <> [] -> T <> [] -> cross S T <> [].
Proof. destruct S as [|a S']; [congruence|]. destruct T as [|b T']; [congruence|]. intros _ _. unfold cross. cbn. discriminate. Qed.
Lemma map_ne {X Y} (g : X -> Y) l : l <> [] -> map g l <> [].
Proof. destruct l; [congruence | discriminate]. Qed.
Lemma app_ne_l {X} (a b : list X) : a <> [] -> a ++ b <> [].
Proof. destruct a; [congruence | discriminate]. Qed.
Lemma app_ne_r {X} (a b : list X) : b <> [] -> a ++ b <> [].
Proof. destruct a; [auto | discriminate]. Qed.

Definition hfun (e : env) (kd : hkind) : bytes -> bytes :=
  match kd with HSha256 => e_sha256 e | HHash256 => e_hash256 e | HRipemd160 => e_ripemd160 e | HHash160 => e_hash160 e end.

Section Canon.
  Variable e : env.
  Variable ke : keyenv.
  Variable A : assets.
  Hypothesis Hse : forall kbs, e_sigok e kbs [] = false.

  (* ---------- "d" fragments have a table dissatisfaction, whatever the assets ---------- *)
  Lemma comb0_ne (cs : list (list wit * list wit)) : Forall (fun c => snd c <> []) cs -> thresh_comb 0 cs <> [].
  Proof.
    induction 1 as [|[s d] r Hd Hr IH]; cbn [thresh_comb]; [discriminate|]. cbn [app]. apply cross_ne; assumption.
  Qed.

  Theorem dsat_ne : forall m t, type_of m = ROk t -> no_multi m -> c_dissat (t_corr t) = true -> all_dsat ke A m <> [].
  Proof.
    induction m using ms_ind'; intros t0 Ht Hn Hd; cbn [type_of no_multi] in *.
    - inversion Ht; subst. discriminate.
    - cbn. discriminate.
    - cbn. discriminate.
    - cbn. discriminate.
    - contradiction.
    - inversion Ht; subst. discriminate.
    - inversion Ht; subst. discriminate.
    - cbn. discriminate. - cbn. discriminate. - cbn. discriminate. - cbn. discriminate.
    - apply type1 in Ht. destruct Ht as [tx [Hx Hc]]. apply lift1_corr, c_alt_d in Hc. rewrite Hc in Hd. exact (IHm tx Hx Hn Hd).
    - apply type1 in Ht. destruct Ht as [tx [Hx Hc]]. apply lift1_corr, c_swap_d in Hc. rewrite Hc in Hd. exact (IHm tx Hx Hn Hd).
    - apply type1 in Ht. destruct Ht as [tx [Hx Hc]]. apply lift1_corr, c_check_d in Hc. rewrite Hc in Hd. exact (IHm tx Hx Hn Hd).
    - cbn. discriminate.
    - apply type1 in Ht. destruct Ht as [tx [Hx Hc]]. apply lift1_corr, c_verify_d in Hc. congruence.
    - cbn. discriminate.
    - apply type1 in Ht. destruct Ht as [tx [Hx Hc]]. apply lift1_corr, c_zne_d in Hc. rewrite Hc in Hd. exact (IHm tx Hx Hn Hd).
    - apply type2 in Ht. destruct Ht as [tx [ty [Hx [Hy Hc]]]]. apply lift2_corr, c_and_v_d in Hc. congruence.
    - apply type2 in Ht. destruct Ht as [tx [ty [Hx [Hy Hc]]]]. apply lift2_corr, c_and_b_d in Hc. rewrite Hc in Hd.
      apply Bool.andb_true_iff in Hd. destruct Hd as [D1 D2]. destruct Hn as [N1 N2].
      unfold all_dsat. rewrite sd_and_b. cbn [snd]. apply cross_ne; [exact (IHm1 tx Hx N1 D1) | exact (IHm2 ty Hy N2 D2)].
    - apply rbind_ok in Ht. destruct Ht as [ta [Ha Ht]]. apply rbind_ok in Ht. destruct Ht as [tb [Hb Ht]]. apply rbind_ok in Ht. destruct Ht as [tc [Hc Ht]].
      apply and_or_corr, c_and_or_d in Ht. destruct Ht as [Da Dr]. rewrite Dr in Hd. destruct Hn as [N1 [N2 N3]].
      unfold all_dsat. rewrite sd_andor. cbn [snd]. apply cross_ne; [exact (IHm1 ta Ha N1 Da) | exact (IHm3 tc Hc N3 Hd)].
    - apply type2 in Ht. destruct Ht as [tx [ty [Hx [Hy Hc]]]]. apply lift2_corr, c_or_b_d in Hc. destruct Hc as [D1 D2]. destruct Hn as [N1 N2].
      unfold all_dsat. rewrite sd_or_b. cbn [snd]. apply cross_ne; [exact (IHm1 tx Hx N1 D1) | exact (IHm2 ty Hy N2 D2)].
    - apply type2 in Ht. destruct Ht as [tx [ty [Hx [Hy Hc]]]]. apply lift2_corr, c_or_d_d in Hc. destruct Hc as [D1 Dr]. rewrite Dr in Hd. destruct Hn as [N1 N2].
      unfold all_dsat. rewrite sd_or_d. cbn [snd]. apply cross_ne; [exact (IHm1 tx Hx N1 D1) | exact (IHm2 ty Hy N2 Hd)].
    - apply type2 in Ht. destruct Ht as [tx [ty [Hx [Hy Hc]]]]. apply lift2_corr, c_or_c_d in Hc. destruct Hc as [_ Dr]. congruence.
    - apply type2 in Ht. destruct Ht as [tx [ty [Hx [Hy Hc]]]]. apply lift2_corr, c_or_i_d in Hc. rewrite Hc in Hd. destruct Hn as [N1 N2].
      unfold all_dsat. rewrite sd_or_i. cbn [snd]. apply Bool.orb_true_iff in Hd. destruct Hd as [D|D].
      + apply app_ne_l, map_ne. exact (IHm1 tx Hx N1 D).
      + apply app_ne_r, map_ne. exact (IHm2 ty Hy N2 D).
    - apply rbind_ok in Ht. destruct Ht as [ts [Hts Ht]]. apply (tys_of_ok xs ts) in Hts. apply threshold_corr, c_threshold_d in Ht.
      unfold all_dsat. rewrite sd_thresh'. cbn [snd]. apply comb0_ne.
      clear Hd. revert ts Hts Ht. induction H as [|x r Hx Hr IHr]; intros ts Hts Ht; cbn [map]; [constructor|].
      inversion Hts as [|? t1 ? ts' Ht1 Hts']; subst. cbn [map] in Ht. inversion Ht; subst. destruct Hn as [N1 N2].
      constructor; [exact (Hx t1 Ht1 N1 ltac:(assumption)) | exact (IHr N2 ts' Hts' ltac:(assumption))].
    - cbn. discriminate. - cbn. discriminate. - cbn. discriminate. - cbn. discriminate.
  Qed.

  (* ---------- the caller's assets cover the material of a stack ---------- *)
  Variable W : wit.
  Record covers : Prop := {
    (* a valid signature for key k in W: A holds a signature for k *)
    cv_sig : forall k sg, In sg W -> sg <> [] -> e_sigok e (kb ke k) sg = true -> a_sig A k <> None;
    (* pk_h: the witness supplies the key; any key with k's hash160 together with a signature valid under it *)
    cv_sigh : forall k key sg, In key W -> In sg W -> e_hash160 e key = kh ke k -> sg <> [] -> e_sigok e key sg = true -> a_sig A k <> None
  }.
  Hypothesis HC : covers.
  (* [HP kd h]: the caller must know a preimage of the image h (kind kd) whenever W opens it *)
  Variable HP : hkind -> bytes -> Prop.
  Hypothesis HPk : forall kd h x, HP kd h -> In x W -> blen x = 32%N -> hfun e kd x = h -> look A kd h <> None.

  (* no raw_pk_h, every hash image of the script is in HP, and every lock of the script that the
     transaction meets is a lock the caller holds *)
  Fixpoint mok (m : ms) : Prop :=
    match m with
    | MRawPkH _ => False
    | MAfter t => check_locktime e (Z.of_N t) = true -> a_after A t = true
    | MOlder t => check_sequence e (Z.of_N t) = true -> a_older A t = true
    | MSha256 h => HP HSha256 h
    | MHash256 h => HP HHash256 h
    | MRipemd160 h => HP HRipemd160 h
    | MHash160 h => HP HHash160 h
    | MAlt x | MSwap x | MCheck x | MDupIf x | MVerify x | MNonZero x | MZeroNotEqual x => mok x
    | MAndV x y | MAndB x y | MOrB x y | MOrD x y | MOrC x y | MOrI x y => mok x /\ mok y
    | MAndOr a b c => mok a /\ mok b /\ mok c
    | MThresh _ xs => (fix go (l : list ms) : Prop := match l with [] => True | x :: r => mok x /\ go r end) xs
    | _ => True
    end.
  Lemma mok_no_multi : forall m, mok m -> no_multi m.
  Proof.
    induction m using ms_ind'; cbn [mok no_multi]; try tauto.
    intros Hm. induction H as [|x r Hx Hr IH]; [exact I|]. destruct Hm as [M1 M2]. split; [apply Hx, M1 | apply IH, M2].
  Qed.

  Lemma hash_ne kd h w v : HP kd h -> incl w W ->
    Rhash false (hfun e kd) h true w v -> fst (hash_sd (look A kd) h) <> [].
  Proof.
    intros Hp Hin [x [-> [Hb [_ [Hh _]]]]]. unfold hash_sd. cbn [fst]. apply map_ne.
    pose proof (HPk kd h x Hp (Hin x (or_introl eq_refl)) Hb Hh) as Hl. destruct (look A kd h); [discriminate | contradiction].
  Qed.

  Lemma sub_pick_ne ks : forall S, SubV e (map (kb ke) ks) S -> incl S W -> pick_sigs A (length S) ks <> [].
  Proof.
    induction ks as [|key r IH]; intros S H Hin; cbn [map] in H.
    - inversion H; subst. cbn. discriminate.
    - cbn [pick_sigs]. inversion H; subst.
      + apply app_ne_l. cbn [length]. assert (Hne : s <> []) by (intros ->; rewrite Hse in *; discriminate).
        pose proof (cv_sig HC key s (Hin s (or_introl eq_refl)) Hne ltac:(assumption)) as G.
        destruct (a_sig A key); [|contradiction]. apply map_ne. apply IH; [assumption|]. intros x Hx. apply Hin. right. exact Hx.
      + apply app_ne_r. apply IH; assumption.
  Qed.
  Lemma cms_ne k ks w v : incl w W -> Rcms e k (map (kb ke) ks) true w v -> pick_sigs A (N.to_nat k) ks <> [].
  Proof.
    intros Hin [_ [sigs [-> [Hl [_ Hm]]]]]. apply mm_sub_inv, SubV_rev in Hm. rewrite rev_involutive in Hm.
    rewrite <- Hl, <- (rev_length sigs). apply sub_pick_ne; [exact Hm|].
    intros x Hx. apply Hin, in_or_app. left. apply in_rev. exact Hx.
  Qed.
  Lemma csa_ne ks : forall w j, incl w W -> Rcsa e ke ks w j -> pick_sigs_a A j ks <> [].
  Proof.
    induction ks as [|key r IH]; intros w j Hin H; cbn [Rcsa] in H.
    - destruct H as [-> ->]. cbn. discriminate.
    - destruct H as [sg [w' [-> [_ H]]]]. cbn [pick_sigs_a].
      assert (Hin' : incl w' W) by (intros x Hx; apply Hin; right; exact Hx).
      destruct H as [[-> H]|[Hne [Hs [j' [-> H]]]]].
      + apply app_ne_r, map_ne. exact (IH w' j Hin' H).
      + apply app_ne_l. pose proof (cv_sig HC key sg (Hin sg (or_introl eq_refl)) Hne Hs) as G.
        destruct (a_sig A key); [|contradiction]. apply map_ne. exact (IH w' j' Hin' H).
  Qed.

  Lemma incl_app_inv_l {X} (a b c : list X) : incl (a ++ b) c -> incl a c.
  Proof. intros H x Hx. apply H, in_or_app. left. exact Hx. Qed.
  Lemma incl_app_inv_r {X} (a b c : list X) : incl (a ++ b) c -> incl b c.
  Proof. intros H x Hx. apply H, in_or_app. right. exact Hx. Qed.

  (* thresh: j satisfied children (their table satisfaction exists), the others are "d" *)
  Lemma thr_ne xs :
    Forall (fun x => forall w v, incl w W -> R e ke x true w v -> all_sat ke A x <> []) xs ->
    Forall (fun x => all_dsat ke A x <> []) xs ->
    forall w j, incl w W -> Rthr (fun x => Rg e ke false x) xs w j -> thresh_comb j (map (sd ke A) xs) <> [].
  Proof.
    induction 1 as [|x r Hx Hr IH]; intros Hd w j Hin H; cbn [Rthr map] in *.
    - destruct H as [_ ->]. cbn. discriminate.
    - inversion Hd as [|? ? Dx Dr]; subst. destruct H as [wx [wr [-> H]]]. cbn [thresh_comb].
      destruct (sd ke A x) as [sx dx] eqn:Ex. unfold all_sat, all_dsat in *. rewrite Ex in *. cbn [fst snd] in *.
      destruct H as [[j' [-> [Hsx Hgo]]]|[_ Hgo]].
      + apply app_ne_l, cross_ne; [exact (Hx wx [1%N] (incl_app_inv_l _ _ _ Hin) Hsx) | exact (IH Dr wr j' (incl_app_inv_r _ _ _ Hin) Hgo)].
      + apply app_ne_r, cross_ne; [exact Dx | exact (IH Dr wr j (incl_app_inv_r _ _ _ Hin) Hgo)].
  Qed.

  (* ---------- an exact satisfaction from covered material gives a table satisfaction ---------- *)
  Theorem sat_ne : forall m t, type_of m = ROk t -> mok m ->
    forall w v, incl w W -> R e ke m true w v -> all_sat ke A m <> [].
  Proof.
    unfold R. induction m using ms_ind'; intros t0 Ht Hn w v Hin HR; cbn [type_of mok Rg] in *.
    - cbn. discriminate.
    - destruct HR as [HR _]. discriminate.
    - destruct HR as [sg [-> [-> [_ [Hne Hs]]]]]. unfold all_sat. cbn [sd fst]. apply map_ne.
      pose proof (cv_sig HC k sg (Hin sg (or_introl eq_refl)) Hne Hs) as G. destruct (a_sig A k); [discriminate | contradiction].
    - destruct HR as [sg [-> [Hh [[_ [Hne Hs]] _]]]]. unfold all_sat. cbn [sd fst]. apply map_ne.
      pose proof (cv_sigh HC k v sg (Hin v (or_introl eq_refl)) (Hin sg (or_intror (or_introl eq_refl))) Hh Hne Hs) as G.
      destruct (a_sig A k); [discriminate | contradiction].
    - contradiction.
    - destruct HR as [_ [_ [_ Hl]]]. unfold all_sat. cbn [sd fst]. rewrite (Hn Hl). discriminate.
    - destruct HR as [_ [_ [_ Hl]]]. unfold all_sat. cbn [sd fst]. rewrite (Hn Hl). discriminate.
    - unfold all_sat. cbn [sd]. exact (hash_ne HSha256 h w v Hn Hin HR).
    - unfold all_sat. cbn [sd]. exact (hash_ne HHash256 h w v Hn Hin HR).
    - unfold all_sat. cbn [sd]. exact (hash_ne HRipemd160 h w v Hn Hin HR).
    - unfold all_sat. cbn [sd]. exact (hash_ne HHash160 h w v Hn Hin HR).
    - apply type1 in Ht. destruct Ht as [tx [Hx _]]. exact (IHm tx Hx Hn w v Hin HR).
    - apply type1 in Ht. destruct Ht as [tx [Hx _]]. exact (IHm tx Hx Hn w v Hin HR).
    - apply type1 in Ht. destruct Ht as [tx [Hx _]]. destruct HR as [_ [key HR]]. exact (IHm tx Hx Hn w key Hin HR).
    - apply type1 in Ht. destruct Ht as [tx [Hx _]]. destruct HR as [_ [_ [HR _]]]. specialize (HR eq_refl).
      unfold all_sat. cbn [sd fst]. apply map_ne. apply (IHm tx Hx Hn [] []); [intros x Hxx; contradiction | exact HR].
    - apply type1 in Ht. destruct Ht as [tx [Hx _]]. destruct HR as [_ [_ [v' HR]]]. exact (IHm tx Hx Hn w v' Hin HR).
    - apply type1 in Ht. destruct Ht as [tx [Hx _]]. destruct HR as [[HR _]|[a [r [_ [_ [_ [HR _]]]]]]]; [discriminate|].
      exact (IHm tx Hx Hn w v Hin HR).
    - apply type1 in Ht. destruct Ht as [tx [Hx _]]. destruct HR as [_ [v' [HR _]]]. exact (IHm tx Hx Hn w v' Hin HR).
    - (* and_v *) apply type2 in Ht. destruct Ht as [tx [ty [Hx [Hy _]]]]. destruct Hn as [N1 N2].
      destruct HR as [wx [wy [-> [R1 R2]]]]. rewrite sat_and_v.
      apply cross_ne; [exact (IHm1 tx Hx N1 wx [] (incl_app_inv_l _ _ _ Hin) R1) | exact (IHm2 ty Hy N2 wy v (incl_app_inv_r _ _ _ Hin) R2)].
    - (* and_b *) apply type2 in Ht. destruct Ht as [tx [ty [Hx [Hy _]]]]. destruct Hn as [N1 N2].
      destruct HR as [wx [wy [vx [vy [sx [sy [-> [R1 [R2 [_ [_ [Hs _]]]]]]]]]]]]. symmetry in Hs. apply Bool.andb_true_iff in Hs. destruct Hs as [-> ->].
      unfold all_sat. rewrite sd_and_b. cbn [fst].
      apply cross_ne; [exact (IHm1 tx Hx N1 wx vx (incl_app_inv_l _ _ _ Hin) R1) | exact (IHm2 ty Hy N2 wy vy (incl_app_inv_r _ _ _ Hin) R2)].
    - (* andor *) apply rbind_ok in Ht. destruct Ht as [ta [Ha Ht]]. apply rbind_ok in Ht. destruct Ht as [tb [Hb Ht]]. apply rbind_ok in Ht. destruct Ht as [tc [Hc Ht]].
      apply and_or_corr, c_and_or_d in Ht. destruct Ht as [Da _]. destruct Hn as [N1 [N2 N3]].
      destruct HR as [wa [w' [va [-> HR]]]]. unfold all_sat. rewrite sd_andor. cbn [fst].
      destruct HR as [[R1 [_ [R2 _]]]|[R1 [_ R3]]].
      + apply app_ne_l, cross_ne; [exact (IHm1 ta Ha N1 wa va (incl_app_inv_l _ _ _ Hin) R1) | exact (IHm2 tb Hb N2 w' v (incl_app_inv_r _ _ _ Hin) R2)].
      + apply app_ne_r, cross_ne; [exact (dsat_ne m1 ta Ha (mok_no_multi _ N1) Da) | exact (IHm3 tc Hc N3 w' v (incl_app_inv_r _ _ _ Hin) R3)].
    - (* or_b *) apply type2 in Ht. destruct Ht as [tx [ty [Hx [Hy Hc]]]]. apply lift2_corr, c_or_b_d in Hc. destruct Hc as [D1 D2]. destruct Hn as [N1 N2].
      destruct HR as [wx [wy [vx [vy [sx [sy [-> [R1 [R2 [_ [_ [Hs _]]]]]]]]]]]]. unfold all_sat. rewrite sd_or_b. cbn [fst].
      destruct sx.
      + apply app_ne_r, cross_ne; [exact (IHm1 tx Hx N1 wx vx (incl_app_inv_l _ _ _ Hin) R1) | exact (dsat_ne m2 ty Hy (mok_no_multi _ N2) D2)].
      + destruct sy; [|discriminate].
        apply app_ne_l, cross_ne; [exact (dsat_ne m1 tx Hx (mok_no_multi _ N1) D1) | exact (IHm2 ty Hy N2 wy vy (incl_app_inv_r _ _ _ Hin) R2)].
    - (* or_d *) apply type2 in Ht. destruct Ht as [tx [ty [Hx [Hy Hc]]]]. apply lift2_corr, c_or_d_d in Hc. destruct Hc as [D1 _]. destruct Hn as [N1 N2].
      unfold all_sat. rewrite sd_or_d. cbn [fst]. destruct HR as [[_ [R1 _]]|[wx [wy [vx [-> [_ [_ R2]]]]]]].
      + apply app_ne_l. exact (IHm1 tx Hx N1 w v Hin R1).
      + apply app_ne_r, cross_ne; [exact (dsat_ne m1 tx Hx (mok_no_multi _ N1) D1) | exact (IHm2 ty Hy N2 wy v (incl_app_inv_r _ _ _ Hin) R2)].
    - (* or_c *) apply type2 in Ht. destruct Ht as [tx [ty [Hx [Hy Hc]]]]. apply lift2_corr, c_or_c_d in Hc. destruct Hc as [D1 _]. destruct Hn as [N1 N2].
      rewrite sat_or_c. destruct HR as [_ [_ [[vx [R1 _]]|[wx [wy [vx [-> [_ [_ R2]]]]]]]]].
      + apply app_ne_l. exact (IHm1 tx Hx N1 w vx Hin R1).
      + apply app_ne_r, cross_ne; [exact (dsat_ne m1 tx Hx (mok_no_multi _ N1) D1) | exact (IHm2 ty Hy N2 wy [] (incl_app_inv_r _ _ _ Hin) R2)].
    - (* or_i *) apply type2 in Ht. destruct Ht as [tx [ty [Hx [Hy _]]]]. destruct Hn as [N1 N2].
      destruct HR as [sel [w' [b [-> [_ [HR _]]]]]]. unfold all_sat. rewrite sd_or_i. cbn [fst].
      assert (Hin' : incl w' W) by (intros x Hxx; apply Hin; right; exact Hxx). destruct b.
      + apply app_ne_l, map_ne. exact (IHm1 tx Hx N1 w' v Hin' HR).
      + apply app_ne_r, map_ne. exact (IHm2 ty Hy N2 w' v Hin' HR).
    - (* thresh *) apply rbind_ok in Ht. destruct Ht as [ts [Hts Ht]]. apply (tys_of_ok xs ts) in Hts. apply threshold_corr, c_threshold_d in Ht.
      destruct HR as [_ [j [HT [Hj _]]]]. symmetry in Hj. apply N.eqb_eq in Hj.
      unfold all_sat. rewrite sd_thresh'. cbn [fst]. replace (N.to_nat k) with j by lia.
      apply (thr_ne xs) with (w := w); [| |exact Hin | exact HT].
      + clear HT Ht. revert ts Hts. induction H as [|x r Hx Hr IHr]; intros ts Hts; [constructor|].
        inversion Hts as [|? t1 ? ts' Ht1 Hts']; subst. destruct Hn as [N1 N2].
        constructor; [intros w0 v0 Hi0 R0; exact (Hx t1 Ht1 N1 w0 v0 Hi0 R0) | exact (IHr N2 ts' Hts')].
      + clear HT H. revert ts Hts Ht. induction xs as [|x r IHr]; intros ts Hts Ht; [constructor|].
        inversion Hts as [|? t1 ? ts' Ht1 Hts']; subst. cbn [map] in Ht. inversion Ht; subst. destruct Hn as [N1 N2].
        constructor; [exact (dsat_ne x t1 Ht1 (mok_no_multi _ N1) ltac:(assumption)) | exact (IHr N2 ts' Hts' ltac:(assumption))].
    - (* multi *) unfold all_sat. cbn [sd fst]. apply map_ne. exact (cms_ne k ks w v Hin HR).
    - unfold all_sat. cbn [sd fst]. apply map_ne. exact (cms_ne k (ksort ke ks) w v Hin HR).
    - destruct HR as [_ [j [HT [Hj _]]]]. symmetry in Hj. apply N.eqb_eq in Hj.
      unfold all_sat. cbn [sd fst]. replace (N.to_nat k) with j by lia. exact (csa_ne ks w j Hin HT).
    - destruct HR as [_ [j [HT [Hj _]]]]. symmetry in Hj. apply N.eqb_eq in Hj.
      unfold all_sat. cbn [sd fst]. replace (N.to_nat k) with j by lia. exact (csa_ne (ksort ke ks) w j Hin HT).
  Qed.
End Canon.

(* ---------- the Script-level statements ---------- *)
(* the caller knows a preimage of an image whenever some 32-byte element of the stack opens it *)
Definition opened_known (e : env) (A : assets) (w : wit) (kd : hkind) (h : bytes) : Prop :=
  (exists x, In x w /\ blen x = 32%N /\ hfun e kd x = h) -> look A kd h <> None.

(* "the stack w is built from material the caller holds", relative to the script m:
   signatures (covers), preimages of m's images, locks of m; m has no raw_pk_h *)
Definition built_from (e : env) (ke : keyenv) (A : assets) (m : ms) (w : wit) : Prop :=
  covers e ke A w /\ mok e A (opened_known e A w) m.

Theorem script_table_entry (e : env) (ke : keyenv) (A : assets) :
  (forall kbs, e_sigok e kbs [] = false) ->
  forall (m : ms) (t : ty), type_of m = ROk t -> c_base (t_corr t) = BB -> wf e ke m ->
  forall w, built_from e ke A m w -> accepts e (enc ke m) w = true -> all_sat ke A m <> [].
Proof.
  intros Hse m t Ht Hb Hwf w [Hc Hm] Hacc. apply (accepts_iff_Rsat e ke m t Ht Hwf Hb) in Hacc. destruct Hacc as [v HR].
  apply (sat_ne e ke A Hse w Hc (opened_known e A w)) with (t := t) (w := w) (v := v); try assumption.
  - intros kd h x Hp Hi Hl Hh. apply Hp. exists x. auto.
  - apply incl_refl.
Qed.

Theorem script_complete_mall (e : env) (ke : keyenv) (A : assets) (se : senv) (f : fill) :
  (forall kbs, e_sigok e kbs [] = false) -> linked ke A se f -> locks_compatible se ->
  forall (m : ms) (t : ty), type_of m = ROk t -> c_base (t_corr t) = BB -> wf e ke m ->
  forall rhs, thresh_fit ke se rhs m ->
  forall w, built_from e ke A m w -> accepts e (enc ke m) w = true ->
  exists bs, satisfy ke se f true rhs m = Some bs.
Proof.
  intros Hse HL HC m t Ht Hb Hwf rhs Hfit w Hbf Hacc.
  apply (mall_satisfy_complete ke A se f HL HC rhs m Hfit). exact (script_table_entry e ke A Hse m t Ht Hb Hwf w Hbf Hacc).
Qed.

Theorem script_complete_mall_spends (e : env) (ke : keyenv) (A : assets) (se : senv) (f : fill) :
  (forall kbs, e_sigok e kbs [] = false) -> linked ke A se f -> locks_compatible se ->
  assets_ok e ke A -> (forall ks, length (ksort ke ks) = length ks) ->
  forall (m : ms) (t : ty), type_of m = ROk t -> c_base (t_corr t) = BB -> wf e ke m ->
  forall rhs, thresh_fit ke se rhs m ->
  forall w, built_from e ke A m w -> accepts e (enc ke m) w = true ->
  exists bs, satisfy ke se f true rhs m = Some bs /\ accepts e (enc ke m) (rev bs) = true.
Proof.
  intros Hse HL HC HA Hks m t Ht Hb Hwf rhs Hfit w Hbf Hacc.
  destruct (script_complete_mall e ke A se f Hse HL HC m t Ht Hb Hwf rhs Hfit w Hbf Hacc) as [bs Hs].
  exists bs. split; [exact Hs|]. destruct Hbf as [_ Hm].
  exact (model_satisfaction_spends e ke A se f HL Hks HA Hse true rhs m t Ht Hb Hwf (mok_no_multi _ _ _ m Hm) bs Hs).
Qed.

(* non-malleable mode: sane scripts ("m", "s"), the satisfier knows the preimage of every hash of the script *)
Theorem script_complete_nonmall (e : env) (ke : keyenv) (A : assets) (se : senv) (f : fill) :
  (forall kbs, e_sigok e kbs [] = false) -> linked ke A se f -> locks_compatible se ->
  forall (m : ms) (t : ty), type_of m = ROk t -> c_base (t_corr t) = BB -> wf e ke m ->
  nm_wf se m -> m_nm (t_mall t) = true -> m_signed (t_mall t) = true ->
  forall w, built_from e ke A m w -> accepts e (enc ke m) w = true ->
  exists bs, satisfy ke se f false (m_signed (t_mall t)) m = Some bs.
Proof.
  intros Hse HL HC m t Ht Hb Hwf Hnw Hnm Hs w Hbf Hacc.
  apply (nonmall_satisfy_complete ke A se f HL HC m t Hnw Ht Hnm Hs). exact (script_table_entry e ke A Hse m t Ht Hb Hwf w Hbf Hacc).
Qed.

Theorem script_complete_nonmall_spends (e : env) (ke : keyenv) (A : assets) (se : senv) (f : fill) :
  (forall kbs, e_sigok e kbs [] = false) -> linked ke A se f -> locks_compatible se ->
  assets_ok e ke A -> (forall ks, length (ksort ke ks) = length ks) ->
  forall (m : ms) (t : ty), type_of m = ROk t -> c_base (t_corr t) = BB -> wf e ke m ->
  nm_wf se m -> m_nm (t_mall t) = true -> m_signed (t_mall t) = true ->
  forall w, built_from e ke A m w -> accepts e (enc ke m) w = true ->
  exists bs, satisfy ke se f false (m_signed (t_mall t)) m = Some bs /\ accepts e (enc ke m) (rev bs) = true.
Proof.
  intros Hse HL HC HA Hks m t Ht Hb Hwf Hnw Hnm Hs w Hbf Hacc.
  destruct (script_complete_nonmall e ke A se f Hse HL HC m t Ht Hb Hwf Hnw Hnm Hs w Hbf Hacc) as [bs Hsat].
  exists bs. split; [exact Hsat|]. destruct Hbf as [_ Hm].
  exact (model_satisfaction_spends e ke A se f HL Hks HA Hse false _ m t Ht Hb Hwf (mok_no_multi _ _ _ m Hm) bs Hsat).
Qed.
