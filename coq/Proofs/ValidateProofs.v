(* Proofs for C12 about the model in Ms/ValidateModel.v against Ms/ValidateSpec.v. *)
From Coq Require Import List Bool NArith Lia.
Import ListNotations.
From Verif Require Import ValidateModel ValidateSpec.
Local Open Scope N_scope.

(* ================================================================== lattice *)
Lemma lim_min_min a b : lim_min a b = N.min a b.
Proof. unfold lim_min. destruct (N.ltb_spec a b); lia. Qed.

Lemma eqb_and_l x y : Bool.eqb (x && y) x = true <-> ble x y.
Proof. unfold ble. destruct x, y; simpl; intuition congruence. Qed.

Lemma eqb_min_l x y : N.eqb (lim_min x y) x = true <-> x <= y.
Proof. rewrite lim_min_min, N.eqb_eq. lia. Qed.

Theorem entails_iff_le p q : entails p q = true <-> vp_le p q.
Proof.
  unfold entails, vp_eqb, intersect; cbn [allow_compressed_keys allow_duplicate_keys allow_dup_if
    allow_malleability allow_multi allow_multi_a allow_mixed_time_locks allow_or_i allow_raw_pkh
    allow_sigless_branch allow_non_b allow_uncompressed_keys allow_unsatisfiable allow_x_only_keys
    allow_inconsistent_multipath_keys max_opcode_count max_script_size max_witness_items
    max_exec_stack_size max_recursive_depth].
  rewrite !andb_true_iff, !eqb_and_l, !eqb_min_l.
  split.
  - intros H; decompose [and] H; constructor; assumption.
  - intros []; repeat split; assumption.
Qed.

Lemma vp_ext a b :
  allow_compressed_keys a = allow_compressed_keys b -> allow_duplicate_keys a = allow_duplicate_keys b ->
  allow_dup_if a = allow_dup_if b -> allow_malleability a = allow_malleability b ->
  allow_multi a = allow_multi b -> allow_multi_a a = allow_multi_a b ->
  allow_mixed_time_locks a = allow_mixed_time_locks b -> allow_or_i a = allow_or_i b ->
  allow_raw_pkh a = allow_raw_pkh b -> allow_sigless_branch a = allow_sigless_branch b ->
  allow_non_b a = allow_non_b b -> allow_uncompressed_keys a = allow_uncompressed_keys b ->
  allow_unsatisfiable a = allow_unsatisfiable b -> allow_x_only_keys a = allow_x_only_keys b ->
  allow_inconsistent_multipath_keys a = allow_inconsistent_multipath_keys b ->
  max_opcode_count a = max_opcode_count b -> max_script_size a = max_script_size b ->
  max_witness_items a = max_witness_items b -> max_exec_stack_size a = max_exec_stack_size b ->
  max_recursive_depth a = max_recursive_depth b -> a = b.
Proof. destruct a, b; simpl; intros; subst; reflexivity. Qed.

Theorem intersect_comm a b : intersect a b = intersect b a.
Proof.
  apply vp_ext; unfold intersect; simpl; rewrite ?lim_min_min; try apply andb_comm; apply N.min_comm.
Qed.

Theorem intersect_assoc a b c : intersect a (intersect b c) = intersect (intersect a b) c.
Proof.
  apply vp_ext; unfold intersect; simpl; rewrite ?lim_min_min; try apply andb_assoc; apply N.min_assoc.
Qed.

Theorem intersect_idem a : intersect a a = a.
Proof.
  apply vp_ext; unfold intersect; simpl; rewrite ?lim_min_min; try apply andb_diag; apply N.min_id.
Qed.

Lemma ble_and_l x y : ble (x && y) x. Proof. unfold ble; destruct x, y; auto. Qed.
Lemma ble_and_r x y : ble (x && y) y. Proof. unfold ble; destruct x, y; auto. Qed.
Lemma ble_and_glb z x y : ble z x -> ble z y -> ble z (x && y).
Proof. unfold ble; destruct x, y, z; auto. Qed.

Theorem intersect_lower_l a b : vp_le (intersect a b) a.
Proof. constructor; unfold intersect; simpl; rewrite ?lim_min_min; try apply ble_and_l; lia. Qed.
Theorem intersect_lower_r a b : vp_le (intersect a b) b.
Proof. constructor; unfold intersect; simpl; rewrite ?lim_min_min; try apply ble_and_r; lia. Qed.
Theorem intersect_greatest a b c : vp_le c a -> vp_le c b -> vp_le c (intersect a b).
Proof.
  intros [] []; constructor; unfold intersect; simpl; rewrite ?lim_min_min;
    try (apply ble_and_glb; assumption); lia.
Qed.

Theorem vp_le_refl a : vp_le a a.
Proof. constructor; unfold ble; auto; lia. Qed.
Theorem vp_le_trans a b c : vp_le a b -> vp_le b c -> vp_le a c.
Proof. intros [] []; constructor; unfold ble in *; auto; lia. Qed.
Theorem vp_le_antisym a b : vp_le a b -> vp_le b a -> a = b.
Proof.
  intros [] []; apply vp_ext; unfold ble in *;
    try lia;
    match goal with |- ?x = ?y => destruct x eqn:?, y eqn:?; auto; try (symmetry; auto) end.
Qed.

(* the chain of named constants *)
Theorem constants_chain :
  entails VP_SANE VP_CONSENSUS = true /\ entails VP_CONSENSUS VP_MAX = true /\
  entails VP_CONSENSUS VP_SANE = false /\
  forall c, entails (ctx_sane c) (ctx_consensus c) = true /\
            entails (ctx_consensus c) VP_CONSENSUS = true /\
            entails (ctx_consensus c) VP_MAX = true /\
            entails (ctx_sane c) VP_SANE = true.
Proof.
  split; [vm_compute; reflexivity|]. split; [vm_compute; reflexivity|].
  split; [vm_compute; reflexivity|].
  intros c; destruct c; vm_compute; auto.
Qed.
