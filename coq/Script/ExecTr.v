(* Instrumented Script execution (specification side, used by C09): the same semantics as
   Exec.exec, additionally recording what the consensus resource limits are about:
   - the opcode count: every opcode above OP_16 of the script counts, executed or not
     ([count_ops], static), and an executed CHECKMULTISIG(VERIFY) adds its number of keys ([tr_cms]);
   - the largest number of stack + altstack elements seen after an instruction ([tr_depth]).
   Proofs/ExtExec.v proves that [exec_tr] agrees with [exec] on the resulting state. *)
From Verif Require Export Ser.
Local Open Scope N_scope.

Fixpoint count_instr (i : instr) : N :=
  match i with
  | IPush _ | INum _ => 0
  | IOp _ => 1
  | IIf _ thn els =>
    let cl := fix cl (l : list instr) : N := match l with [] => 0 | j :: r => count_instr j + cl r end in
    2 + cl thn + match els with Some e => 1 + cl e | None => 0 end
  end.
Fixpoint count_ops (s : script) : N := match s with [] => 0 | i :: r => count_instr i + count_ops r end.

Record trace := mkTrace { tr_cms : N; tr_depth : N }.
Definition depth_of (st : state) : N := N.of_nat (length (stk st)) + N.of_nat (length (alt st)).
Definition cms_of (i : instr) (st : state) : N :=
  match i with
  | IOp OP_CHECKMULTISIG | IOp OP_CHECKMULTISIGVERIFY =>
    match stk st with
    | nb :: _ => match num_operand 4 nb with Some n => Z.to_N n | None => 0 end
    | [] => 0
    end
  | _ => 0
  end.
Definition tr_step (t : trace) (cms : N) (st' : state) : trace :=
  mkTrace (tr_cms t + cms) (N.max (tr_depth t) (depth_of st')).

Fixpoint exec_instr_tr (e : env) (i : instr) (st : state) (t : trace) {struct i} : result (state * trace) :=
  match i with
  | IIf neg thn els =>
    match stk st with
    | [] => Fail
    | v :: r =>
      match if_cond e v with
      | None => Fail
      | Some c =>
        let st' := mkSt r (alt st) in
        let t' := tr_step t 0 st' in
        let run := fix run (l : list instr) (s : state) (t : trace) {struct l} : result (state * trace) :=
          match l with
          | [] => Ok (s, t)
          | j :: rest => match exec_instr_tr e j s t with Ok (s', t'') => run rest s' t'' | Fail => Fail end
          end in
        if xorb c neg then run thn st' t'
        else match els with Some el => run el st' t' | None => Ok (st', t') end
      end
    end
  | _ =>
    match exec_instr e i st with
    | Ok st' => Ok (st', tr_step t (cms_of i st) st')
    | Fail => Fail
    end
  end.

Fixpoint exec_tr (e : env) (s : script) (st : state) (t : trace) : result (state * trace) :=
  match s with
  | [] => Ok (st, t)
  | i :: rest => match exec_instr_tr e i st t with Ok (s', t') => exec_tr e rest s' t' | Fail => Fail end
  end.

(* run a serialised script on witness items given in push order; returns
   (opcode count incl. multisig keys, max stack+altstack depth, accepted) *)
Definition trace_of_script (e : env) (script_bytes : bytes) (items : list bytes) : option (N * N * bool) :=
  match parse_script script_bytes with
  | None => None
  | Some s =>
    let st0 := mkSt (rev items) [] in
    match exec_tr e s st0 (mkTrace 0 (depth_of st0)) with
    | Ok (st, t) =>
      Some (count_ops s + tr_cms t, tr_depth t, match stk st with [v] => truthy v | _ => false end)
    | Fail => Some (count_ops s, 0, false)
    end
  end.

(* ---- a static bound for the multisig-key part of the opcode count ----
   [cbl known s]: over all paths through [s], the keys counted by executed CHECKMULTISIG(VERIFY)s.
   A CHECKMULTISIG directly preceded by a push counts the number that push leaves on the stack
   ([known]); any other successfully executed CHECKMULTISIG counts at most 20 (consensus). *)
Definition is_cms (o : opcode) : bool :=
  match o with OP_CHECKMULTISIG | OP_CHECKMULTISIGVERIFY => true | _ => false end.
Definition topn (s : stack) : N :=
  match s with
  | nb :: _ => match num_operand 4 nb with Some n => Z.to_N n | None => 0 end
  | [] => 0
  end.
Definition next_known (i : instr) : option N :=
  match i with
  | IPush b => Some (topn [b])
  | INum z => Some (topn [num_encode z])
  | _ => None
  end.
Fixpoint cb_instr (known : option N) (i : instr) : N :=
  match i with
  | IOp o => if is_cms o then match known with Some n => n | None => 20 end else 0
  | IIf _ thn els =>
    let cl := fix cl (k : option N) (l : list instr) : N :=
      match l with [] => 0 | j :: r => cb_instr k j + cl (next_known j) r end in
    N.max (cl None thn) (match els with Some e => cl None e | None => 0 end)
  | _ => 0
  end.
Fixpoint cbl (k : option N) (s : script) : N :=
  match s with [] => 0 | i :: r => cb_instr k i + cbl (next_known i) r end.
