(* P2WPKH and P2SH-P2WPKH (specification side; Spend.v covers the script-bearing output types).
   BIP141/143: witness = [signature, compressed key]; the implicit script is the P2PKH script of
   the 20-byte program, executed with the witness-v0 signature version; exactly two items.
   P2SH-wrapped: the scriptSig is exactly the push of the program. *)
From Verif Require Export Spend.
Local Open Scope N_scope.

Definition spk_is_p2wpkh (spk : bytes) : option bytes :=
  match spk with 0 :: 20 :: prog => if N.eqb (blen prog) 20 then Some prog else None | _ => None end.

Definition p2pkh_script (h : bytes) : script :=
  [IOp OP_DUP; IOp OP_HASH160; IPush h; IOp OP_EQUALVERIFY; IOp OP_CHECKSIG].

Definition verify_wpkh (e : env) (prog : bytes) (witness : list bytes) : bool :=
  match witness with
  | [sg; k] => final_ok (exec (with_sv e SvWitnessV0) (p2pkh_script prog) (mkSt [k; sg] []))
  | _ => false
  end.

Definition verify_spend_ext (e : env) (commit_ok : bytes -> bytes -> bool)
           (spk ssig : bytes) (witness : list bytes) : bool :=
  match spk_is_p2wpkh spk with
  | Some prog => (match ssig with [] => verify_wpkh e prog witness | _ => false end)
  | None =>
    match spk_is_p2sh spk with
    | Some h =>
      match parse_script ssig with
      | Some ss =>
        match pushonly_stack ss [] with
        | Some [rb] =>
          match spk_is_p2wpkh rb with
          | Some prog => bytes_eqb (e_hash160 e rb) h && verify_wpkh e prog witness
          | None => verify_spend e commit_ok spk ssig witness
          end
        | _ => verify_spend e commit_ok spk ssig witness
        end
      | None => false
      end
    | None => verify_spend e commit_ok spk ssig witness
    end
  end.
