(* Bitcoin Script semantics over structured scripts (specification side; DESIGN 3.3, App. A).
   Consensus rules plus the standardness rules that apply to each signature version.
   Only what Miniscript scripts can contain is given meaning; every other opcode fails. *)
From Verif Require Export Bytes.

Inductive sigversion := SvBase | SvWitnessV0 | SvTapscript.

Inductive opcode :=
| OP_VERIFY | OP_TOALTSTACK | OP_FROMALTSTACK | OP_IFDUP | OP_DUP | OP_SWAP | OP_SIZE | OP_DROP
| OP_EQUAL | OP_EQUALVERIFY | OP_0NOTEQUAL | OP_ADD | OP_BOOLAND | OP_BOOLOR
| OP_NUMEQUAL | OP_NUMEQUALVERIFY
| OP_RIPEMD160 | OP_SHA256 | OP_HASH160 | OP_HASH256
| OP_CHECKSIG | OP_CHECKSIGVERIFY | OP_CHECKMULTISIG | OP_CHECKMULTISIGVERIFY | OP_CHECKSIGADD
| OP_CLTV | OP_CSV
| OP_OTHER (code : N).          (* any other opcode byte: fails when executed *)

(* A structured script: IF/NOTIF ... [ELSE ...] ENDIF is one node. *)
Inductive instr :=
| IPush (b : bytes)             (* a data push (OP_0 = push of the empty string, direct pushes, PUSHDATAn) *)
| INum (n : Z)                  (* OP_1NEGATE, OP_1 .. OP_16: pushes the number n *)
| IOp (o : opcode)
| IIf (neg : bool) (thn : list instr) (els : option (list instr)).

Definition script := list instr.

(* The transaction-dependent and cryptographic context. *)
Record env := mkEnv {
  e_sv : sigversion;
  e_locktime : N;               (* nLockTime of the spending transaction *)
  e_sequence : N;               (* nSequence of this input *)
  e_txversion : N;
  e_sigok : bytes -> bytes -> bool;    (* key bytes, signature bytes (incl. hash-type byte): verifies against the real digest *)
  e_keyok : bytes -> bool;             (* public key encoding acceptable for this sigversion (STRICTENC / WITNESS_PUBKEYTYPE / 32-byte x-only) *)
  e_sha256 : bytes -> bytes;
  e_hash256 : bytes -> bytes;
  e_ripemd160 : bytes -> bytes;
  e_hash160 : bytes -> bytes
}.

Definition stack := list bytes.      (* head = top *)
Record state := mkSt { stk : stack; alt : stack }.

Inductive result (A : Type) := Ok (a : A) | Fail.
Arguments Ok {A} a. Arguments Fail {A}.
Definition bind {A B} (r : result A) (f : A -> result B) : result B :=
  match r with Ok a => f a | Fail => Fail end.

Definition minimalif (sv : sigversion) : bool := match sv with SvBase => false | _ => true end.

Definition LOCKTIME_THRESHOLD : N := 500000000.
Definition SEQ_FINAL : N := 4294967295.
Definition SEQ_DISABLE : N := 2147483648.      (* bit 31 *)
Definition SEQ_TYPE : N := 4194304.            (* bit 22 *)
Definition SEQ_MASK : N := 65535.

Definition check_locktime (e : env) (n : Z) : bool :=
  (0 <=? n)%Z &&
  let n := Z.to_N n in
  (Bool.eqb (N.ltb n LOCKTIME_THRESHOLD) (N.ltb (e_locktime e) LOCKTIME_THRESHOLD))
  && N.leb n (e_locktime e)
  && negb (N.eqb (e_sequence e) SEQ_FINAL).

(* BIP112. [None] = script fails; [Some tt] = passes (incl. the disabled-operand no-op) *)
Definition check_sequence (e : env) (n : Z) : bool :=
  (0 <=? n)%Z &&
  let n := Z.to_N n in
  if negb (N.eqb (N.land n SEQ_DISABLE) 0) then true else
  N.leb 2 (e_txversion e)
  && N.eqb (N.land (e_sequence e) SEQ_DISABLE) 0
  && N.eqb (N.land n SEQ_TYPE) (N.land (e_sequence e) SEQ_TYPE)
  && N.leb (N.land n SEQ_MASK) (N.land (e_sequence e) SEQ_MASK).

(* legacy/v0 CHECKMULTISIG matching: keys and sigs in script order (first pushed first);
   each signature must match a key further along; NULLFAIL: on failure all sigs must be empty. *)
Fixpoint multisig_match (e : env) (keys sigs : list bytes) : bool :=
  match sigs with
  | [] => true
  | s :: srest =>
    (fix go (ks : list bytes) : bool :=
       match ks with
       | [] => false
       | k :: krest =>
         if Nat.ltb (length ks) (length sigs) then false
         else if e_sigok e k s then multisig_match e krest srest
         else go krest
       end) keys
  end.

Fixpoint take_n {A} (n : nat) (l : list A) : option (list A * list A) :=
  match n, l with
  | O, _ => Some ([], l)
  | S n', x :: r => match take_n n' r with Some (a, b) => Some (x :: a, b) | None => None end
  | S _, [] => None
  end.

Definition exec_op (e : env) (o : opcode) (st : state) : result state :=
  let s := stk st in let a := alt st in
  match o with
  | OP_VERIFY => match s with v :: r => if truthy v then Ok (mkSt r a) else Fail | _ => Fail end
  | OP_TOALTSTACK => match s with v :: r => Ok (mkSt r (v :: a)) | _ => Fail end
  | OP_FROMALTSTACK => match a with v :: r => Ok (mkSt (v :: s) r) | _ => Fail end
  | OP_IFDUP => match s with v :: r => Ok (mkSt (if truthy v then v :: v :: r else v :: r) a) | _ => Fail end
  | OP_DUP => match s with v :: r => Ok (mkSt (v :: v :: r) a) | _ => Fail end
  | OP_SWAP => match s with x :: y :: r => Ok (mkSt (y :: x :: r) a) | _ => Fail end
  | OP_SIZE => match s with v :: r => Ok (mkSt (num_encode (Z.of_N (blen v)) :: v :: r) a) | _ => Fail end
  | OP_DROP => match s with _ :: r => Ok (mkSt r a) | _ => Fail end
  | OP_EQUAL => match s with x :: y :: r => Ok (mkSt (bool_bytes (bytes_eqb x y) :: r) a) | _ => Fail end
  | OP_EQUALVERIFY => match s with x :: y :: r => if bytes_eqb x y then Ok (mkSt r a) else Fail | _ => Fail end
  | OP_0NOTEQUAL =>
    match s with
    | x :: r => match num_operand 4 x with
                | Some n => Ok (mkSt (bool_bytes (negb (n =? 0)%Z) :: r) a)
                | None => Fail end
    | _ => Fail end
  | OP_ADD =>
    match s with
    | x :: y :: r => match num_operand 4 x, num_operand 4 y with
                     | Some n1, Some n2 => Ok (mkSt (num_encode (n2 + n1) :: r) a)
                     | _, _ => Fail end
    | _ => Fail end
  | OP_BOOLAND =>
    match s with
    | x :: y :: r => match num_operand 4 x, num_operand 4 y with
                     | Some n1, Some n2 => Ok (mkSt (bool_bytes (negb (n1 =? 0)%Z && negb (n2 =? 0)%Z) :: r) a)
                     | _, _ => Fail end
    | _ => Fail end
  | OP_BOOLOR =>
    match s with
    | x :: y :: r => match num_operand 4 x, num_operand 4 y with
                     | Some n1, Some n2 => Ok (mkSt (bool_bytes (negb (n1 =? 0)%Z || negb (n2 =? 0)%Z) :: r) a)
                     | _, _ => Fail end
    | _ => Fail end
  | OP_NUMEQUAL =>
    match s with
    | x :: y :: r => match num_operand 4 x, num_operand 4 y with
                     | Some n1, Some n2 => Ok (mkSt (bool_bytes (n1 =? n2)%Z :: r) a)
                     | _, _ => Fail end
    | _ => Fail end
  | OP_NUMEQUALVERIFY =>
    match s with
    | x :: y :: r => match num_operand 4 x, num_operand 4 y with
                     | Some n1, Some n2 => if (n1 =? n2)%Z then Ok (mkSt r a) else Fail
                     | _, _ => Fail end
    | _ => Fail end
  | OP_RIPEMD160 => match s with v :: r => Ok (mkSt (e_ripemd160 e v :: r) a) | _ => Fail end
  | OP_SHA256 => match s with v :: r => Ok (mkSt (e_sha256 e v :: r) a) | _ => Fail end
  | OP_HASH160 => match s with v :: r => Ok (mkSt (e_hash160 e v :: r) a) | _ => Fail end
  | OP_HASH256 => match s with v :: r => Ok (mkSt (e_hash256 e v :: r) a) | _ => Fail end
  | OP_CHECKSIG | OP_CHECKSIGVERIFY =>
    match s with
    | k :: sg :: r =>
      if negb (e_keyok e k) then Fail else
      let ok := match sg with [] => Some false | _ => if e_sigok e k sg then Some true else None end in
      match ok with
      | None => Fail                               (* NULLFAIL / tapscript: non-empty signature must verify *)
      | Some b =>
        match o with
        | OP_CHECKSIG => Ok (mkSt (bool_bytes b :: r) a)
        | _ => if b then Ok (mkSt r a) else Fail
        end
      end
    | _ => Fail end
  | OP_CHECKSIGADD =>
    match e_sv e with
    | SvTapscript =>
      match s with
      | k :: nb :: sg :: r =>
        if negb (e_keyok e k) then Fail else
        match num_operand 4 nb with
        | None => Fail
        | Some n =>
          match sg with
          | [] => Ok (mkSt (num_encode n :: r) a)
          | _ => if e_sigok e k sg then Ok (mkSt (num_encode (n + 1) :: r) a) else Fail
          end
        end
      | _ => Fail end
    | _ => Fail end
  | OP_CHECKMULTISIG | OP_CHECKMULTISIGVERIFY =>
    match e_sv e with
    | SvTapscript => Fail
    | _ =>
      match s with
      | nb :: r1 =>
        match num_operand 4 nb with
        | None => Fail
        | Some n =>
          if ((n <? 0) || (20 <? n))%Z then Fail else
          match take_n (Z.to_nat n) r1 with
          | None => Fail
          | Some (keys_rev, r2) =>
            match r2 with
            | mb :: r3 =>
              match num_operand 4 mb with
              | None => Fail
              | Some m =>
                if ((m <? 0) || (n <? m))%Z then Fail else
                match take_n (Z.to_nat m) r3 with
                | None => Fail
                | Some (sigs_rev, r4) =>
                  match r4 with
                  | dummy :: r5 =>
                    match dummy with
                    | [] =>
                      (* keys_rev: last pushed key first.  Core matches from the top of the stack
                         downward; equivalent to in-order matching on the reversed lists *)
                      if negb (forallb (e_keyok e) keys_rev) then Fail else
                      let okm := multisig_match e keys_rev sigs_rev in
                      if okm then
                        match o with OP_CHECKMULTISIG => Ok (mkSt ([1%N] :: r5) a) | _ => Ok (mkSt r5 a) end
                      else if forallb (fun sg => match sg with [] => true | _ => false end) sigs_rev then
                        match o with OP_CHECKMULTISIG => Ok (mkSt ([] :: r5) a) | _ => Fail end
                      else Fail                    (* NULLFAIL *)
                    | _ => Fail                    (* NULLDUMMY *)
                    end
                  | [] => Fail
                  end
                end
              end
            | [] => Fail
            end
          end
        end
      | _ => Fail end
    end
  | OP_CLTV =>
    match s with
    | v :: _ => match num_operand 5 v with
                | Some n => if check_locktime e n then Ok st else Fail
                | None => Fail end
    | _ => Fail end
  | OP_CSV =>
    match s with
    | v :: _ => match num_operand 5 v with
                | Some n => if check_sequence e n then Ok st else Fail
                | None => Fail end
    | _ => Fail end
  | OP_OTHER _ => Fail
  end.

(* condition popped by IF/NOTIF; MINIMALIF outside the base signature version *)
Definition if_cond (e : env) (v : bytes) : option bool :=
  if minimalif (e_sv e) then
    match v with
    | [] => Some false
    | [1%N] => Some true
    | _ => None
    end
  else Some (truthy v).

Fixpoint exec_instr (e : env) (i : instr) (st : state) {struct i} : result state :=
  match i with
  | IPush b => Ok (mkSt (b :: stk st) (alt st))
  | INum n => Ok (mkSt (num_encode n :: stk st) (alt st))
  | IOp o => exec_op e o st
  | IIf neg thn els =>
    match stk st with
    | [] => Fail
    | v :: r =>
      match if_cond e v with
      | None => Fail
      | Some c =>
        let st' := mkSt r (alt st) in
        let run := fix run (l : list instr) (s : state) {struct l} : result state :=
          match l with
          | [] => Ok s
          | j :: rest => bind (exec_instr e j s) (run rest)
          end in
        if xorb c neg then run thn st'
        else match els with Some el => run el st' | None => Ok st' end
      end
    end
  end.

Fixpoint exec (e : env) (s : script) (st : state) : result state :=
  match s with
  | [] => Ok st
  | i :: rest => bind (exec_instr e i st) (exec e rest)
  end.

(* final acceptance of a witness-program script: exactly one element, truthy (cleanstack is
   consensus for segwit; for base/P2SH it is the standardness rule CLEANSTACK) *)
Definition accepts (e : env) (s : script) (init : stack) : bool :=
  match exec e s (mkSt init []) with
  | Ok st => match stk st with [v] => truthy v | _ => false end
  | Fail => false
  end.
