(* Instrumented Script execution (specification side, used by C13): the same semantics as
   Script/Exec.v, additionally returning the list of events of the executed path --
   successful signature checks, hash computations, equality comparisons and their outcome, DUPs and
   passed lock-time checks -- and [checks], which reads off that list the conditions the
   executed path verified:
     * a signature check      KSig key sig         (CHECKSIG / CHECKSIGVERIFY / CHECKSIGADD with a
                                                    non-empty signature; matched pairs of CHECKMULTISIG,
                                                    in the order Core matches them: last key first)
     * a preimage check       KPre kind image pre  (hash opcode whose digest the next comparison
                                                    found equal; DUP HASH160 .. EQUALVERIFY is the
                                                    public-key-hash idiom and is not a preimage check)
     * a passed CLTV / CSV    KAbs n / KRel n      (CSV with a disabled operand checks nothing)
   [exec_tr] only observes [exec_op]: it calls it and derives the events from the pre-state,
   so the two cannot drift apart (Proofs/InterpTraceProofs.v: exec_tr_erase). *)
From Verif Require Export Exec.

Inductive ihk := KSha256 | KHash256 | KRipemd160 | KHash160.

Inductive event :=
| TSig (k s : bytes)
| THash (kd : ihk) (p d : bytes)      (* input, digest *)
| TEq (v : bytes)                     (* EQUAL / EQUALVERIFY found both operands equal to v *)
| TNeq                                (* EQUAL found its operands different (and pushed false) *)
| TDup
| TAbs (n : N)
| TRel (n : N).

(* the (key, signature) pairs CHECKMULTISIG matches, in matching order; lists as in
   [multisig_match]: head = last pushed *)
Fixpoint multisig_pairs (e : env) (keys sigs : list bytes) : list (bytes * bytes) :=
  match sigs with
  | [] => []
  | s :: srest =>
    (fix go (ks : list bytes) : list (bytes * bytes) :=
       match ks with
       | [] => []
       | k :: krest => if e_sigok e k s then (k, s) :: multisig_pairs e krest srest else go krest
       end) keys
  end.

Definition nonempty (b : bytes) : bool := match b with [] => false | _ => true end.

(* events of opcode [o] executed successfully from pre-state [st] *)
Definition op_events (e : env) (o : opcode) (st : state) : list event :=
  let s := stk st in
  match o with
  | OP_DUP => [TDup]
  | OP_EQUAL => match s with x :: y :: _ => if bytes_eqb x y then [TEq x] else [TNeq] | _ => [] end
  | OP_EQUALVERIFY => match s with x :: _ => [TEq x] | _ => [] end
  | OP_RIPEMD160 => match s with v :: _ => [THash KRipemd160 v (e_ripemd160 e v)] | _ => [] end
  | OP_SHA256 => match s with v :: _ => [THash KSha256 v (e_sha256 e v)] | _ => [] end
  | OP_HASH160 => match s with v :: _ => [THash KHash160 v (e_hash160 e v)] | _ => [] end
  | OP_HASH256 => match s with v :: _ => [THash KHash256 v (e_hash256 e v)] | _ => [] end
  | OP_CHECKSIG | OP_CHECKSIGVERIFY =>
    match s with k :: sg :: _ => if nonempty sg then [TSig k sg] else [] | _ => [] end
  | OP_CHECKSIGADD =>
    match s with k :: _ :: sg :: _ => if nonempty sg then [TSig k sg] else [] | _ => [] end
  | OP_CHECKMULTISIG | OP_CHECKMULTISIGVERIFY =>
    match s with
    | nb :: r1 =>
      match num_operand 4 nb with
      | Some n =>
        match take_n (Z.to_nat n) r1 with
        | Some (keys_rev, mb :: r3) =>
          match num_operand 4 mb with
          | Some m =>
            match take_n (Z.to_nat m) r3 with
            | Some (sigs_rev, _) =>
              if multisig_match e keys_rev sigs_rev
              then map (fun p => TSig (fst p) (snd p)) (multisig_pairs e keys_rev sigs_rev) else []
            | None => []
            end
          | None => []
          end
        | _ => []
        end
      | None => []
      end
    | [] => []
    end
  | OP_CLTV =>
    match s with v :: _ => match num_operand 5 v with Some n => [TAbs (Z.to_N n)] | None => [] end | _ => [] end
  | OP_CSV =>
    match s with
    | v :: _ =>
      match num_operand 5 v with
      | Some n => if N.eqb (N.land (Z.to_N n) SEQ_DISABLE) 0 then [TRel (Z.to_N n)] else []
      | None => []
      end
    | _ => []
    end
  | _ => []
  end.

Definition tbind {A B} (r : result (A * list event)) (f : A -> result (B * list event)) : result (B * list event) :=
  match r with
  | Ok (a, t1) => match f a with Ok (b, t2) => Ok (b, t1 ++ t2) | Fail => Fail end
  | Fail => Fail
  end.

Fixpoint exec_instr_tr (e : env) (i : instr) (st : state) {struct i} : result (state * list event) :=
  match i with
  | IPush b => Ok (mkSt (b :: stk st) (alt st), [])
  | INum n => Ok (mkSt (num_encode n :: stk st) (alt st), [])
  | IOp o => match exec_op e o st with Ok st' => Ok (st', op_events e o st) | Fail => Fail end
  | IIf neg thn els =>
    match stk st with
    | [] => Fail
    | v :: r =>
      match if_cond e v with
      | None => Fail
      | Some c =>
        let st' := mkSt r (alt st) in
        let run := fix run (l : list instr) (s : state) {struct l} : result (state * list event) :=
          match l with
          | [] => Ok (s, [])
          | j :: rest => tbind (exec_instr_tr e j s) (run rest)
          end in
        if xorb c neg then run thn st'
        else match els with Some el => run el st' | None => Ok (st', []) end
      end
    end
  end.

Fixpoint exec_tr (e : env) (s : script) (st : state) : result (state * list event) :=
  match s with
  | [] => Ok (st, [])
  | i :: rest => tbind (exec_instr_tr e i st) (exec_tr e rest)
  end.

(* ---- the conditions the executed path verified ---- *)
Inductive check :=
| KSig (k s : bytes)
| KPre (kd : ihk) (h p : bytes)
| KAbs (n : N)
| KRel (n : N).

Definition is_h160 (kd : ihk) : bool := match kd with KHash160 => true | _ => false end.

Fixpoint checks (tr : list event) : list check :=
  match tr with
  | [] => []
  | ev :: rest =>
    match ev with
    | TSig k s => KSig k s :: checks rest
    | TAbs n => KAbs n :: checks rest
    | TRel n => KRel n :: checks rest
    | TEq _ | TNeq => checks rest
    | TDup =>
      match rest with
      | THash kd p d :: TEq d' :: r2 =>
        if is_h160 kd && bytes_eqb d d' then checks r2 else checks rest
      | _ => checks rest
      end
    | THash kd p d =>
      match rest with
      | TEq d' :: r2 => if bytes_eqb d d' then KPre kd d p :: checks r2 else checks rest
      | _ => checks rest
      end
    end
  end.

(* a witness-program script accepted, with the checks of the executed path *)
Definition accepts_tr (e : env) (s : script) (init : stack) : option (list check) :=
  match exec_tr e s (mkSt init []) with
  | Ok (st, tr) => match stk st with [v] => if truthy v then Some (checks tr) else None | _ => None end
  | Fail => None
  end.
