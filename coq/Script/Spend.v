(* Output-type dispatch: how a scriptPubKey, scriptSig and witness are validated
   (specification side; consensus + standardness of each output type; DESIGN App. A). *)
From Verif Require Export Ser.
Local Open Scope N_scope.

Definition with_sv (e : env) (sv : sigversion) : env :=
  mkEnv sv (e_locktime e) (e_sequence e) (e_txversion e) (e_sigok e) (e_keyok e)
        (e_sha256 e) (e_hash256 e) (e_ripemd160 e) (e_hash160 e).

(* scriptSig must be push-only (SIGPUSHONLY; consensus for P2SH): evaluate to a stack *)
Fixpoint pushonly_stack (s : script) (acc : stack) : option stack :=
  match s with
  | [] => Some acc
  | IPush b :: r => pushonly_stack r (b :: acc)
  | INum n :: r => pushonly_stack r (num_encode n :: acc)
  | _ => None
  end.

Definition final_ok (r : result state) : bool :=
  match r with
  | Ok st => match stk st with [v] => truthy v | _ => false end     (* CLEANSTACK *)
  | Fail => false
  end.

(* resource rules checked outside [exec]: static ones here, dynamic ones by exec_tr (C09) *)
Fixpoint count_instr (i : instr) : N :=
  match i with
  | IPush _ | INum _ => 0
  | IOp _ => 1
  | IIf _ t e =>
    let go := fix go (l : list instr) : N := match l with [] => 0 | j :: r => count_instr j + go r end in
    2 (* IF/NOTIF, ENDIF *) + go t + (match e with Some el => 1 (* ELSE *) + go el | None => 0 end)
  end.
Definition count_nonpush_ops (s : script) : N := fold_right (fun i a => count_instr i + a) 0 s.

Definition wit_stack (items : list bytes) : stack := rev items.   (* first witness item = bottom *)

(* P2WSH: spk = 00 20 <sha256(script)>; witness = items ++ [script] *)
Definition verify_wsh (e : env) (program : bytes) (witness : list bytes) : bool :=
  match rev witness with
  | [] => false
  | sb :: items_rev =>
    bytes_eqb (e_sha256 e sb) program &&
    N.leb (blen sb) 3600 &&                                            (* standard: script size *)
    N.leb (N.of_nat (length items_rev)) 100 &&                         (* standard: stack items *)
    forallb (fun it => N.leb (blen it) 80) items_rev &&                (* standard: item size *)
    match parse_script sb with
    | None => false
    | Some s =>
      N.leb (blen sb) 10000 && N.leb (count_nonpush_ops s) 201 &&
      final_ok (exec (with_sv e SvWitnessV0) s (mkSt items_rev []))
    end
  end.

Definition spk_is_p2wsh (spk : bytes) : option bytes :=
  match spk with 0 :: 32 :: prog => if N.eqb (blen prog) 32 then Some prog else None | _ => None end.
Definition spk_is_p2wpkh (spk : bytes) : option bytes :=
  match spk with 0 :: 20 :: prog => if N.eqb (blen prog) 20 then Some prog else None | _ => None end.

(* P2WPKH: witness = [signature; compressed key]; implicit script DUP HASH160 <h> EQUALVERIFY CHECKSIG *)
Definition verify_wpkh (e : env) (h : bytes) (witness : list bytes) : bool :=
  match witness with
  | [sg; k] =>
    N.eqb (blen k) 33 &&
    final_ok (exec (with_sv e SvWitnessV0)
                   [IOp OP_DUP; IOp OP_HASH160; IPush h; IOp OP_EQUALVERIFY; IOp OP_CHECKSIG]
                   (mkSt [k; sg] []))
  | _ => false
  end.

Definition spk_is_p2sh (spk : bytes) : option bytes :=
  match spk with
  | 169 :: 20 :: rest =>
    match rev rest with
    | 135 :: h_rev => if N.eqb (blen h_rev) 20 then Some (rev h_rev) else None
    | _ => None end
  | _ => None end.
Definition spk_is_p2tr (spk : bytes) : option bytes :=
  match spk with 81 :: 32 :: prog => if N.eqb (blen prog) 32 then Some prog else None | _ => None end.

(* P2SH: scriptSig pushes ... then the redeem script *)
Definition verify_sh (e : env) (h : bytes) (ssig : bytes) (witness : list bytes) : bool :=
  match parse_script ssig with
  | None => false
  | Some ss =>
    N.leb (blen ssig) 1650 &&                                          (* standard scriptSig size *)
    match pushonly_stack ss [] with
    | None => false
    | Some [] => false
    | Some (rb :: st) =>
      bytes_eqb (e_hash160 e rb) h && N.leb (blen rb) 520 &&
      match spk_is_p2wsh rb with
      | Some prog =>                                                   (* P2SH-P2WSH *)
        match st with [] => verify_wsh e prog witness | _ => false end
      | None =>
        match spk_is_p2wpkh rb with
        | Some kh => (match st with [] => verify_wpkh e kh witness | _ => false end)   (* P2SH-P2WPKH *)
        | None =>
        match witness with
        | [] =>
          match parse_script rb with
          | None => false
          | Some s => N.leb (count_nonpush_ops s) 201 &&
                      final_ok (exec (with_sv e SvBase) s (mkSt st []))
          end
        | _ => false
        end
        end
      end
    end
  end.

(* bare script: scriptSig push-only, then the scriptPubKey itself *)
Definition verify_bare (e : env) (spk : bytes) (ssig : bytes) (witness : list bytes) : bool :=
  match witness with
  | _ :: _ => false
  | [] =>
    match parse_script ssig, parse_script spk with
    | Some ss, Some s =>
      N.leb (blen ssig) 1650 && N.leb (blen spk) 10000 && N.leb (count_nonpush_ops s) 201 &&
      match pushonly_stack ss [] with
      | None => false
      | Some st => final_ok (exec (with_sv e SvBase) s (mkSt st []))
      end
    | _, _ => false
    end
  end.

(* P2TR. [commit_ok script control] is the BIP341 commitment check of the control block
   against the output key (computed by rust-bitcoin in the harness; modelled in C15). *)
Definition verify_tr (e : env) (outkey : bytes) (commit_ok : bytes -> bytes -> bool)
           (ssig : bytes) (witness : list bytes) : bool :=
  match ssig with _ :: _ => false | [] =>
  match rev witness with
  | [] => false
  | [sg] => e_sigok e outkey sg                                         (* key path *)
  | cb :: sb :: items_rev =>
    match cb with
    | 80 :: _ => false                                                  (* annex: unsupported, reject *)
    | _ =>
      commit_ok sb cb &&
      forallb (fun it => N.leb (blen it) 520) items_rev &&
      N.leb (N.of_nat (length items_rev)) 1000 &&
      match parse_script sb with
      | None => false
      | Some s => final_ok (exec (with_sv e SvTapscript) s (mkSt items_rev []))
      end
    end
  end end.

Definition verify_spend (e : env) (commit_ok : bytes -> bytes -> bool)
           (spk ssig : bytes) (witness : list bytes) : bool :=
  match spk_is_p2wsh spk with
  | Some prog => (match ssig with [] => verify_wsh e prog witness | _ => false end)
  | None =>
    match spk_is_p2wpkh spk with
    | Some kh => (match ssig with [] => verify_wpkh e kh witness | _ => false end)
    | None =>
    match spk_is_p2sh spk with
    | Some h => verify_sh e h ssig witness
    | None =>
      match spk_is_p2tr spk with
      | Some k => verify_tr e k commit_ok ssig witness
      | None => verify_bare e spk ssig witness
      end
    end
    end
  end.
