(* Serialisation of structured scripts to bytes and back (specification side). *)
From Verif Require Export Exec.
Local Open Scope N_scope.

Definition opcode_byte (o : opcode) : N :=
  match o with
  | OP_VERIFY => 105 | OP_TOALTSTACK => 107 | OP_FROMALTSTACK => 108 | OP_IFDUP => 115
  | OP_DUP => 118 | OP_SWAP => 124 | OP_SIZE => 130 | OP_DROP => 117
  | OP_EQUAL => 135 | OP_EQUALVERIFY => 136 | OP_0NOTEQUAL => 146 | OP_ADD => 147
  | OP_BOOLAND => 154 | OP_BOOLOR => 155 | OP_NUMEQUAL => 156 | OP_NUMEQUALVERIFY => 157
  | OP_RIPEMD160 => 166 | OP_SHA256 => 168 | OP_HASH160 => 169 | OP_HASH256 => 170
  | OP_CHECKSIG => 172 | OP_CHECKSIGVERIFY => 173 | OP_CHECKMULTISIG => 174
  | OP_CHECKMULTISIGVERIFY => 175 | OP_CHECKSIGADD => 186
  | OP_CLTV => 177 | OP_CSV => 178
  | OP_OTHER c => c
  end%N.

Definition byte_opcode (c : N) : opcode :=
  match c with
  | 105 => OP_VERIFY | 107 => OP_TOALTSTACK | 108 => OP_FROMALTSTACK | 115 => OP_IFDUP
  | 118 => OP_DUP | 124 => OP_SWAP | 130 => OP_SIZE | 117 => OP_DROP
  | 135 => OP_EQUAL | 136 => OP_EQUALVERIFY | 146 => OP_0NOTEQUAL | 147 => OP_ADD
  | 154 => OP_BOOLAND | 155 => OP_BOOLOR | 156 => OP_NUMEQUAL | 157 => OP_NUMEQUALVERIFY
  | 166 => OP_RIPEMD160 | 168 => OP_SHA256 | 169 => OP_HASH160 | 170 => OP_HASH256
  | 172 => OP_CHECKSIG | 173 => OP_CHECKSIGVERIFY | 174 => OP_CHECKMULTISIG
  | 175 => OP_CHECKMULTISIGVERIFY | 186 => OP_CHECKSIGADD
  | 177 => OP_CLTV | 178 => OP_CSV
  | c => OP_OTHER c
  end%N.

Definition OPB_IF : N := 99. Definition OPB_NOTIF : N := 100.
Definition OPB_ELSE : N := 103. Definition OPB_ENDIF : N := 104.

(* minimal push opcode for a byte string (what rust-bitcoin's push_slice emits) *)
Definition ser_push (b : bytes) : bytes :=
  let n := blen b in
  if N.leb n 75 then n :: b
  else if N.leb n 255 then 76 :: n :: b
  else if N.leb n 65535 then 77 :: (n mod 256) :: (n / 256) :: b
  else 78 :: (n mod 256) :: ((n / 256) mod 256) :: ((n / 65536) mod 256) :: (n / 16777216) :: b.

Definition ser_num (n : Z) : bytes :=
  if (n =? -1)%Z then [79%N] else [Z.to_N (80 + n)].

Fixpoint ser_instr (i : instr) : bytes :=
  match i with
  | IPush b => ser_push b
  | INum n => ser_num n
  | IOp o => [opcode_byte o]
  | IIf neg thn els =>
    let ser_list := fix ser_list (l : list instr) : bytes :=
      match l with [] => [] | j :: r => ser_instr j ++ ser_list r end in
    (if neg then OPB_NOTIF else OPB_IF) :: ser_list thn ++
    (match els with Some el => OPB_ELSE :: ser_list el | None => [] end) ++ [OPB_ENDIF]
  end.
Fixpoint serialize (s : script) : bytes :=
  match s with [] => [] | i :: r => ser_instr i ++ serialize r end.

(* ---- parsing ---- *)
Inductive tok := TPush (b : bytes) | TNum (n : Z) | TByte (c : N).

Definition split_n (n : N) (b : bytes) : option (bytes * bytes) := @take_n byte (N.to_nat n) b.

(* MINIMALDATA for pushes: a 1-byte push of 1..16 or 0x81 must use OP_n / OP_1NEGATE;
   the shortest push opcode must be used *)
Definition push_minimal (opc : N) (d : bytes) : bool :=
  let n := blen d in
  match d with
  | [x] => if (N.leb 1 x && N.leb x 16) || N.eqb x 129 then false else N.eqb opc 1
  | _ =>
    if N.leb n 75 then N.eqb opc n
    else if N.leb n 255 then N.eqb opc 76
    else if N.leb n 65535 then N.eqb opc 77
    else N.eqb opc 78
  end.

Fixpoint lex_bytes (fuel : nat) (b : bytes) : option (list tok) :=
  match fuel with
  | O => match b with [] => Some [] | _ => None end
  | S f =>
    match b with
    | [] => Some []
    | c :: r =>
      if N.leb c 75 then
        match split_n c r with
        | Some (d, r') => if push_minimal c d then option_map (cons (TPush d)) (lex_bytes f r') else None
        | None => None end
      else if N.eqb c 76 then
        match r with
        | n :: r1 => match split_n n r1 with
                     | Some (d, r') => if push_minimal c d then option_map (cons (TPush d)) (lex_bytes f r') else None
                     | None => None end
        | _ => None end
      else if N.eqb c 77 then
        match r with
        | lo :: hi :: r1 => match split_n (lo + 256 * hi) r1 with
                     | Some (d, r') => if push_minimal c d then option_map (cons (TPush d)) (lex_bytes f r') else None
                     | None => None end
        | _ => None end
      else if N.eqb c 78 then
        match r with
        | b0 :: b1 :: b2 :: b3 :: r1 => match split_n (b0 + 256 * b1 + 65536 * b2 + 16777216 * b3) r1 with
                     | Some (d, r') => if push_minimal c d then option_map (cons (TPush d)) (lex_bytes f r') else None
                     | None => None end
        | _ => None end
      else if N.eqb c 79 then option_map (cons (TNum (-1))) (lex_bytes f r)
      else if N.leb 81 c && N.leb c 96 then option_map (cons (TNum (Z.of_N c - 80))) (lex_bytes f r)
      else option_map (cons (TByte c)) (lex_bytes f r)
    end
  end.

Inductive stop := AtEnd | AtElse | AtEndif.

(* parse a sequence up to an ELSE / ENDIF / end of input *)
Fixpoint parse_seq (fuel : nat) (ts : list tok) : option (script * stop * list tok) :=
  match fuel with
  | O => None
  | S f =>
    match ts with
    | [] => Some ([], AtEnd, [])
    | TPush d :: r => match parse_seq f r with Some (s, st, r') => Some (IPush d :: s, st, r') | None => None end
    | TNum n :: r => match parse_seq f r with Some (s, st, r') => Some (INum n :: s, st, r') | None => None end
    | TByte c :: r =>
      if N.eqb c OPB_ELSE then Some ([], AtElse, r)
      else if N.eqb c OPB_ENDIF then Some ([], AtEndif, r)
      else if N.eqb c OPB_IF || N.eqb c OPB_NOTIF then
        match parse_seq f r with
        | Some (thn, AtEndif, r1) =>
          match parse_seq f r1 with
          | Some (s, st, r') => Some (IIf (N.eqb c OPB_NOTIF) thn None :: s, st, r')
          | None => None end
        | Some (thn, AtElse, r1) =>
          match parse_seq f r1 with
          | Some (el, AtEndif, r2) =>
            match parse_seq f r2 with
            | Some (s, st, r') => Some (IIf (N.eqb c OPB_NOTIF) thn (Some el) :: s, st, r')
            | None => None end
          | _ => None end
        | _ => None end
      else match parse_seq f r with Some (s, st, r') => Some (IOp (byte_opcode c) :: s, st, r') | None => None end
    end
  end.

Definition parse_script (b : bytes) : option script :=
  match lex_bytes (S (length b)) b with
  | None => None
  | Some ts =>
    match parse_seq (S (S (length ts))) ts with
    | Some (s, AtEnd, []) => Some s
    | _ => None
    end
  end.
