(* Byte strings and Bitcoin script numbers (CScriptNum). Specification side. *)
From Coq Require Export List NArith ZArith Bool.
Export ListNotations.

Definition byte := N.               (* invariant: < 256 *)
Definition bytes := list byte.

Fixpoint bytes_eqb (a b : bytes) : bool :=
  match a, b with
  | [], [] => true
  | x :: r, y :: s => N.eqb x y && bytes_eqb r s
  | _, _ => false
  end.

Definition blen (b : bytes) : N := N.of_nat (length b).

(* script truth value: some byte non-zero, except negative zero (last byte 0x80, rest 0) *)
Fixpoint truthy (b : bytes) : bool :=
  match b with
  | [] => false
  | [x] => negb (N.eqb x 0) && negb (N.eqb x 128)
  | x :: r => negb (N.eqb x 0) || truthy r
  end.

(* little-endian magnitude *)
Fixpoint le_val (b : bytes) : Z :=
  match b with [] => 0%Z | x :: r => (Z.of_N x + 256 * le_val r)%Z end.

(* CScriptNum decoding: little-endian magnitude, sign bit = bit 7 of the last byte.
   [dec_mag] returns (magnitude, negative?) *)
Fixpoint dec_mag (b : bytes) : Z * bool :=
  match b with
  | [] => (0%Z, false)
  | x :: r =>
    match r with
    | [] => if N.leb 128 x then ((Z.of_N x - 128)%Z, true) else (Z.of_N x, false)
    | _ => let '(m, s) := dec_mag r in ((Z.of_N x + 256 * m)%Z, s)
    end
  end.
Definition num_decode (b : bytes) : Z :=
  let '(m, s) := dec_mag b in if s then (- m)%Z else m.

(* CScriptNum encoding (minimal): magnitude little-endian; the sign bit goes into the top
   byte if it is free (< 0x80), otherwise an extra byte carries it.  Fuel 10 covers 64-bit. *)
Fixpoint enc_mag (fuel : nat) (z : Z) (sb : N) : bytes :=
  match fuel with
  | O => []
  | S f =>
    if (z <? 128)%Z then [(Z.to_N z + sb)%N]
    else if (z <? 256)%Z then [Z.to_N z; sb]
    else Z.to_N (z mod 256) :: enc_mag f (z / 256) sb
  end.
Definition num_encode (z : Z) : bytes :=
  if (z =? 0)%Z then [] else enc_mag 10 (Z.abs z) (if (z <? 0)%Z then 128%N else 0%N).

(* MINIMALDATA rule for numbers: the top byte may be 0x00/0x80 only if the byte below has bit 7 set *)
Fixpoint num_minimal (b : bytes) : bool :=
  match b with
  | [] => true
  | x :: r =>
    match r with
    | [] => negb (N.eqb (N.land x 127) 0)
    | y :: r2 =>
      match r2 with
      | [] => if N.eqb (N.land y 127) 0 then N.leb 128 x else true
      | _ => num_minimal r
      end
    end
  end.

(* operand of arithmetic opcodes: at most [maxlen] bytes and minimal *)
Definition num_operand (maxlen : N) (b : bytes) : option Z :=
  if N.leb (blen b) maxlen && num_minimal b then Some (num_decode b) else None.

Definition bool_bytes (b : bool) : bytes := if b then [1%N] else [].
