(* Byte strings and Bitcoin script numbers (CScriptNum). Specification side. *)
From Coq Require Export List NArith ZArith Bool.
Export ListNotations.

Definition byte := N.               (* invariant: < 256 *)
Definition bytes := list byte.

Fixpoint bytes_eqb (a b : bytes) : bool :=
  match a, b with
  | [], [] => true
  | x :: r, y :: s => N.eqb x y && bytes_eqb r s
  | _, _ => false
  end.

Definition blen (b : bytes) : N := N.of_nat (length b).

(* script truth value: some byte non-zero, except negative zero (last byte 0x80, rest 0) *)
Fixpoint truthy (b : bytes) : bool :=
  match b with
  | [] => false
  | [x] => negb (N.eqb x 0) && negb (N.eqb x 128)
  | x :: r => negb (N.eqb x 0) || truthy r
  end.

(* little-endian magnitude *)
Fixpoint le_val (b : bytes) : Z :=
  match b with [] => 0%Z | x :: r => (Z.of_N x + 256 * le_val r)%Z end.

(* CScriptNum decoding: little-endian, sign bit = bit 7 of the last byte *)
Definition num_decode (b : bytes) : Z :=
  match rev b with
  | [] => 0%Z
  | last :: _ =>
    let mag := le_val b in
    let n := length b in
    if N.leb 128 last
    then (- (mag - 128 * 256 ^ (Z.of_nat n - 1)))%Z
    else mag
  end.

(* little-endian bytes of a non-negative number, minimal length (0 -> []) ; fuel = positive size *)
Fixpoint le_bytes_fuel (fuel : nat) (z : Z) : bytes :=
  match fuel with
  | O => []
  | S f => if (z <=? 0)%Z then [] else Z.to_N (z mod 256) :: le_bytes_fuel f (z / 256)
  end.
Definition le_bytes (z : Z) : bytes := le_bytes_fuel (S (Z.to_nat (Z.log2 z))) z.

(* CScriptNum encoding (minimal) *)
Definition num_encode (z : Z) : bytes :=
  if (z =? 0)%Z then [] else
  let neg := (z <? 0)%Z in
  let mag := le_bytes (Z.abs z) in
  match rev mag with
  | [] => []
  | top :: rest_rev =>
    if N.leb 128 top
    then mag ++ [if neg then 128%N else 0%N]
    else rev ((if neg then (top + 128)%N else top) :: rest_rev)
  end.

(* MINIMALDATA rule for numbers *)
Definition num_minimal (b : bytes) : bool :=
  match rev b with
  | [] => true
  | last :: rest_rev =>
    if N.eqb (N.land last 127) 0 then
      match rest_rev with
      | [] => false
      | prev :: _ => N.leb 128 prev
      end
    else true
  end.

(* operand of arithmetic opcodes: at most [maxlen] bytes and minimal *)
Definition num_operand (maxlen : N) (b : bytes) : option Z :=
  if N.leb (blen b) maxlen && num_minimal b then Some (num_decode b) else None.

Definition bool_bytes (b : bool) : bytes := if b then [1%N] else [].
