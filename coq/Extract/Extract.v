(* Extraction of the executable specification and model to OCaml for the bulk
   correspondence/oracle runs. ExtrOcamlBasic only: numbers stay the extracted inductives;
   no Extract Constant directives of our own. *)
From Coq Require Extraction ExtrOcamlBasic.
From Verif Require Import Spend Ast TypeCheck SatSpec Sat ExecTr.
Extraction Language OCaml.
Extraction "model.ml" verify_spend verify_wsh verify_sh verify_bare verify_tr parse_script exec accepts
  serialize enc encode num_encode num_decode pushonly_stack
  type_of sd all_sat all_dsat after_ok older_ok sat_dissat satisfy fill_all
  exec_tr trace_of_script count_ops.
