(* Extraction of the C08 translation validator (coq/Ms/PolicyVal.v) to OCaml for the bulk run.
   ExtrOcamlBasic only; numbers stay the extracted inductives; no Extract Constant of our own.
   Kept apart from Extract.v so that the validator can be rebuilt on its own (module Model_val). *)
From Coq Require Extraction ExtrOcamlBasic.
From Verif Require Import PolicyVal.
Extraction Language OCaml.
Extraction "model_val.ml" run_ms_case run_tr_case find_diff find_sigless lift_c lift_ms tr_policy equivb
  script_len ms_tl ms_height kk_of_list evals evalc world_of
  type_of subterms sem_signedb worlds_of equiv_dec small_enough exec_ops wit_count ssig_bytes stack_count
  pk_cost_of lib_script_size native_leaf has_if_frag.
