(* Extraction of the C04 models (lexer, decoder, sizes) and the encoder for the bulk
   correspondence run (ocaml/driver_codec.ml). ExtrOcamlBasic only; no Extract Constant. *)
From Coq Require Extraction ExtrOcamlBasic.
From Verif Require Import DecodeModel.
Extraction Language OCaml.
Extraction "model_codec.ml" encode enc serialize parse_script lex parse decode_max type_of
  script_size pk_cost hfv tree_height gv script_tokens.
