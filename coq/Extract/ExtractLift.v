(* Extraction for the C07 `lift` engine driver (ocaml/driver_lift.ml): the lift model, the
   truth-table semantics and the specification's satisfaction table. ExtrOcamlBasic only; no
   Extract Constant directives of our own. Written to the current directory as lmodel.ml. *)
From Coq Require Extraction ExtrOcamlBasic.
From Verif Require Import Ast TypeCheck SatSpec LiftModel LiftLimits ExecTr.
Extraction Language OCaml.
Extraction "lmodel.ml" type_of sd all_sat all_dsat after_ok older_ok
  leval lpolicy_eqb lres_eqb normalized lift_raw lift_iter lift_full lift lift_desc desc_spendable nonempty
  has_mixed_timelocks within_resource_limits lift_ctx redesc lift_desc_ctx desc_bits trace_of_script.
