(* Extraction for the C13 driver (ocaml/driver_interp.ml): the Script specification incl. the
   instrumented execution, and the interpreter model. ExtrOcamlBasic only. *)
From Coq Require Extraction ExtrOcamlBasic.
From Verif Require Import Spend SpendWpkh ExecTrace Ast TypeCheck InterpModel InterpTxdataModel.
Extraction Language OCaml.
Extraction "model_interp.ml" verify_spend verify_spend_ext parse_script exec exec_tr checks accepts_tr
  with_sv serialize pushonly_stack p2pkh_script spk_is_p2wpkh spk_is_p2sh spk_is_p2wsh spk_is_p2tr
  num_encode type_of elem_of astack_of_items interp interp_pk interp_rec rel_norm from_txdata conc sv_of.
