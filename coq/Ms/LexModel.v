(* Model of src/miniscript/lex.rs (`lex`) on top of a model of rust-bitcoin's
   `Script::instructions_minimal()` (blockdata/script/instruction.rs, enforce_minimal = true)
   and `read_scriptint`. One left-to-right pass; the first error is the result, exactly as
   the code returns it. Tokens are produced in SCRIPT order (the Rust `Vec<Token>`);
   the decoder consumes them from the end.  No proofs in this file. *)
From Verif Require Export Ast.
Local Open Scope N_scope.

Inductive token :=
| TkBoolAnd | TkBoolOr | TkAdd | TkEqual | TkNumEqual | TkCheckSig | TkCheckSigAdd | TkCheckMultiSig
| TkCheckSequenceVerify | TkCheckLockTimeVerify | TkFromAltStack | TkToAltStack | TkDrop | TkDup
| TkIf | TkIfDup | TkNotIf | TkElse | TkEndIf | TkZeroNotEqual | TkSize | TkSwap | TkVerify
| TkRipemd160 | TkHash160 | TkSha256 | TkHash256
| TkNum (n : N) | TkHash20 (b : bytes) | TkBytes32 (b : bytes) | TkBytes33 (b : bytes) | TkBytes65 (b : bytes).

(* error classes: lex::Error::{Script(EarlyEndOfScript), Script(NonMinimalPush), InvalidInt,
   NegativeInt, InvalidOpcode, NonMinimalVerify}; LeFuel is the model's out-of-fuel outcome
   (excluded by LexProofs.lex_no_fuel) *)
Inductive lex_err :=
| LeEarlyEnd | LeNonMinimalPush | LeInvalidInt | LeNegativeInt | LeInvalidOpcode | LeNonMinimalVerify | LeFuel.

Inductive lexres := LexOk (ts : list token) | LexErr (e : lex_err).

(* ---- Instructions::next with enforce_minimal ---- *)
Inductive rins := RPush (d : bytes) | ROp (c : N).
Inductive nxres := NxEnd | NxIns (i : rins) (rest : bytes) | NxErr (e : lex_err).

(* next_push_data_len: length field of [ll] bytes (read_uint_iter), minimality of the push
   opcode against [minlen], then take_slice_or_kill *)
Definition pushdata (ll : nat) (minlen : N) (r : bytes) : nxres :=
  match take_n ll r with
  | None => NxErr LeEarlyEnd
  | Some (lenb, r1) =>
    let n := Z.to_N (le_val lenb) in
    if n <? minlen then NxErr LeNonMinimalPush
    else if blen r1 <? n then NxErr LeEarlyEnd       (* take_slice_or_kill: data.len() >= len *)
    else match split_n n r1 with
         | Some (d, r') => NxIns (RPush d) r'
         | None => NxErr LeEarlyEnd
         end
  end.

Definition next_instr (b : bytes) : nxres :=
  match b with
  | [] => NxEnd
  | c :: r =>
    if c <=? 75 then
      (* Class::PushBytes(c): a one-byte push of 0x81 or 1..16 is non-minimal *)
      let nonmin := match r with
                    | x :: _ => (c =? 1) && ((x =? 129) || ((0 <? x) && (x <=? 16)))
                    | [] => false end in
      if nonmin then NxErr LeNonMinimalPush
      else match split_n c r with
           | Some (d, r') => NxIns (RPush d) r'
           | None => NxErr LeEarlyEnd
           end
    else if c =? 76 then pushdata 1 76 r
    else if c =? 77 then pushdata 2 256 r
    else if c =? 78 then pushdata 4 65536 r
    else NxIns (ROp c) r
  end.

(* ---- lex.rs: one instruction -> token(s); [acc] is the token vector so far, REVERSED ---- *)
Definition op_tokens (c : N) (acc : list token) : lexres :=
  match c with
  | 154 => LexOk (TkBoolAnd :: acc)
  | 155 => LexOk (TkBoolOr :: acc)
  | 135 => LexOk (TkEqual :: acc)
  | 136 => LexOk (TkVerify :: TkEqual :: acc)
  | 156 => LexOk (TkNumEqual :: acc)
  | 157 => LexOk (TkVerify :: TkNumEqual :: acc)
  | 172 => LexOk (TkCheckSig :: acc)
  | 173 => LexOk (TkVerify :: TkCheckSig :: acc)
  | 186 => LexOk (TkCheckSigAdd :: acc)
  | 174 => LexOk (TkCheckMultiSig :: acc)
  | 175 => LexOk (TkVerify :: TkCheckMultiSig :: acc)
  | 178 => LexOk (TkCheckSequenceVerify :: acc)
  | 177 => LexOk (TkCheckLockTimeVerify :: acc)
  | 108 => LexOk (TkFromAltStack :: acc)
  | 107 => LexOk (TkToAltStack :: acc)
  | 117 => LexOk (TkDrop :: acc)
  | 118 => LexOk (TkDup :: acc)
  | 147 => LexOk (TkAdd :: acc)
  | 99 => LexOk (TkIf :: acc)
  | 115 => LexOk (TkIfDup :: acc)
  | 100 => LexOk (TkNotIf :: acc)
  | 103 => LexOk (TkElse :: acc)
  | 104 => LexOk (TkEndIf :: acc)
  | 146 => LexOk (TkZeroNotEqual :: acc)
  | 130 => LexOk (TkSize :: acc)
  | 124 => LexOk (TkSwap :: acc)
  | 105 =>
    (* OP_VERIFY directly after EQUAL / NUMEQUAL / CHECKSIG / CHECKMULTISIG is refused
       (NUMEQUAL since /repo 22fc180a, DESIGN 10-b) *)
    match acc with
    | TkEqual :: _ | TkNumEqual :: _ | TkCheckSig :: _ | TkCheckMultiSig :: _ => LexErr LeNonMinimalVerify
    | _ => LexOk (TkVerify :: acc)
    end
  | 166 => LexOk (TkRipemd160 :: acc)
  | 169 => LexOk (TkHash160 :: acc)
  | 168 => LexOk (TkSha256 :: acc)
  | 170 => LexOk (TkHash256 :: acc)
  | _ =>
    if (81 <=? c) && (c <=? 96) then LexOk (TkNum (c - 80) :: acc)
    else LexErr LeInvalidOpcode
  end.

(* a push: 20/32/33/65 bytes are classified BEFORE any number parsing; anything else must be
   a minimally encoded non-negative script number of at most 4 bytes (read_scriptint) *)
Definition push_tokens (d : bytes) (acc : list token) : lexres :=
  let n := blen d in
  if n =? 20 then LexOk (TkHash20 d :: acc)
  else if n =? 32 then LexOk (TkBytes32 d :: acc)
  else if n =? 33 then LexOk (TkBytes33 d :: acc)
  else if n =? 65 then LexOk (TkBytes65 d :: acc)
  else if 4 <? n then LexErr LeInvalidInt
  else if negb (num_minimal d) then LexErr LeInvalidInt
  else let v := num_decode d in
       if (v <? 0)%Z then LexErr LeNegativeInt else LexOk (TkNum (Z.to_N v) :: acc).

Fixpoint lex_go (fuel : nat) (b : bytes) (acc : list token) : lexres :=
  match fuel with
  | O => LexErr LeFuel
  | S f =>
    match next_instr b with
    | NxEnd => LexOk (rev acc)
    | NxErr e => LexErr e
    | NxIns i rest =>
      match (match i with RPush d => push_tokens d acc | ROp c => op_tokens c acc end) with
      | LexOk acc' => lex_go f rest acc'
      | LexErr e => LexErr e
      end
    end
  end.

Definition lex (b : bytes) : lexres := lex_go (S (length b)) b [].

(* ---- the token sequence of a structured script (what lexing its serialisation yields) ---- *)
Definition opcode_tokens (o : opcode) : list token :=
  match o with
  | OP_VERIFY => [TkVerify] | OP_TOALTSTACK => [TkToAltStack] | OP_FROMALTSTACK => [TkFromAltStack]
  | OP_IFDUP => [TkIfDup] | OP_DUP => [TkDup] | OP_SWAP => [TkSwap] | OP_SIZE => [TkSize] | OP_DROP => [TkDrop]
  | OP_EQUAL => [TkEqual] | OP_EQUALVERIFY => [TkEqual; TkVerify]
  | OP_0NOTEQUAL => [TkZeroNotEqual] | OP_ADD => [TkAdd] | OP_BOOLAND => [TkBoolAnd] | OP_BOOLOR => [TkBoolOr]
  | OP_NUMEQUAL => [TkNumEqual] | OP_NUMEQUALVERIFY => [TkNumEqual; TkVerify]
  | OP_RIPEMD160 => [TkRipemd160] | OP_SHA256 => [TkSha256] | OP_HASH160 => [TkHash160] | OP_HASH256 => [TkHash256]
  | OP_CHECKSIG => [TkCheckSig] | OP_CHECKSIGVERIFY => [TkCheckSig; TkVerify]
  | OP_CHECKMULTISIG => [TkCheckMultiSig] | OP_CHECKMULTISIGVERIFY => [TkCheckMultiSig; TkVerify]
  | OP_CHECKSIGADD => [TkCheckSigAdd] | OP_CLTV => [TkCheckLockTimeVerify] | OP_CSV => [TkCheckSequenceVerify]
  | OP_OTHER _ => []
  end.

Definition push_token (d : bytes) : token :=
  let n := blen d in
  if n =? 20 then TkHash20 d else if n =? 32 then TkBytes32 d
  else if n =? 33 then TkBytes33 d else if n =? 65 then TkBytes65 d
  else TkNum (Z.to_N (num_decode d)).

Fixpoint instr_tokens (i : instr) : list token :=
  match i with
  | IPush d => [push_token d]
  | INum n => [TkNum (Z.to_N n)]
  | IOp o => opcode_tokens o
  | IIf neg thn els =>
    let go := fix go (l : list instr) : list token :=
      match l with [] => [] | j :: r => instr_tokens j ++ go r end in
    (if neg then TkNotIf else TkIf) :: go thn ++
    (match els with Some el => TkElse :: go el | None => [] end) ++ [TkEndIf]
  end.
Fixpoint script_tokens (s : script) : list token :=
  match s with [] => [] | i :: r => instr_tokens i ++ script_tokens r end.
