(* C20 (extension round 2) -- specification side of the byte-level form of script preservation:
   a REWRITE OF THE PUSH INSTRUCTIONS of a structured script, identified by position.
   [rw s l] walks the script in serialisation order (an IF's then-branch before its else-branch) and
   replaces the payload of the i-th data push by the i-th entry of [l] ([None] = keep the push);
   opcodes, small-number opcodes and the IF structure are untouched.  It returns the unused rest of [l].
   [pslots m] says, for every data push of [enc ke m] in that order, whether it is a number / empty
   push ([None]) or the push of an atom of m: a key ([PKb]), a key hash ([PKh]) or a hash ([PHash]).
   The positions depend on m's shape and numbers only (not on ke, not on the atoms' values) -- provided
   m has no sortedmulti / sortedmulti_a, whose pushes are ordered by the serialised keys ([no_sorted]).
   No proofs in this file. *)
From Coq Require Import List ZArith NArith Bool.
From Verif Require Export Ast TranslateHashModel.
Import ListNotations.

Fixpoint rw_i (i : instr) (l : list (option bytes)) : instr * list (option bytes) :=
  match i with
  | IPush b => match l with
               | o :: l' => (IPush (match o with Some b' => b' | None => b end), l')
               | [] => (IPush b, [])
               end
  | IIf neg thn els =>
    let rws := fix rws (s : list instr) (l : list (option bytes)) : list instr * list (option bytes) :=
                 match s with
                 | [] => ([], l)
                 | x :: r => let (x', l1) := rw_i x l in let (r', l2) := rws r l1 in (x' :: r', l2)
                 end in
    let (thn', l1) := rws thn l in
    match els with
    | None => (IIf neg thn' None, l1)
    | Some e => let (e', l2) := rws e l1 in (IIf neg thn' (Some e'), l2)
    end
  | other => (other, l)
  end.

Fixpoint rw (s : script) (l : list (option bytes)) : script * list (option bytes) :=
  match s with
  | [] => ([], l)
  | x :: r => let (x', l1) := rw_i x l in let (r', l2) := rw r l1 in (x' :: r', l2)
  end.

(* the byte-level rewrite: of a serialised script that parses *)
Definition rewrite_bytes (b : bytes) (l : list (option bytes)) : option bytes :=
  match parse_script b with Some s => Some (serialize (fst (rw s l))) | None => None end.

Inductive patom := PKb (k : key) | PKh (k : key) | PHash (hk : hkind) (h : bytes).

(* does push_int n emit a data push? (0 and numbers outside -1, 1..16) *)
Definition int_slot (n : Z) : list (option patom) :=
  match push_int n with IPush _ => [None] | _ => [] end.

Fixpoint pslots (m : ms) : list (option patom) :=
  match m with
  | MTrue => []
  | MFalse => [None]
  | MPkK k => [Some (PKb k)]
  | MPkH k => [Some (PKh k)]
  | MRawPkH _ => [None]
  | MAfter t | MOlder t => int_slot (Z.of_N t)
  | MSha256 h => int_slot 32 ++ [Some (PHash HSha256 h)]
  | MHash256 h => int_slot 32 ++ [Some (PHash HHash256 h)]
  | MRipemd160 h => int_slot 32 ++ [Some (PHash HRipemd160 h)]
  | MHash160 h => int_slot 32 ++ [Some (PHash HHash160 h)]
  | MAlt x | MSwap x | MCheck x | MDupIf x | MVerify x | MNonZero x | MZeroNotEqual x => pslots x
  | MAndV x y | MAndB x y | MOrB x y | MOrD x y | MOrC x y | MOrI x y => pslots x ++ pslots y
  | MAndOr a b c => pslots a ++ pslots c ++ pslots b         (* [a] NOTIF [c] ELSE [b] ENDIF *)
  | MThresh k xs => flat_map pslots xs ++ int_slot (Z.of_N k)
  | MMulti k ks => int_slot (Z.of_N k) ++ map (fun key => Some (PKb key)) ks ++ int_slot (Z.of_nat (length ks))
  | MMultiA k ks => map (fun key => Some (PKb key)) ks ++ int_slot (Z.of_N k)
  | MSortedMulti _ _ | MSortedMultiA _ _ => []               (* excluded: see no_sorted *)
  end.

Fixpoint no_sorted (m : ms) : bool :=
  match m with
  | MSortedMulti _ _ | MSortedMultiA _ _ => false
  | MAlt x | MSwap x | MCheck x | MDupIf x | MVerify x | MNonZero x | MZeroNotEqual x => no_sorted x
  | MAndV x y | MAndB x y | MOrB x y | MOrD x y | MOrC x y | MOrI x y => no_sorted x && no_sorted y
  | MAndOr a b c => no_sorted a && no_sorted b && no_sorted c
  | MThresh _ xs => forallb no_sorted xs
  | _ => true
  end.

(* the bytes pushed for an atom under a key environment, a key map and a hash map *)
Definition image (ke : keyenv) (g : key -> key) (gh : hkind -> bytes -> bytes) (a : patom) : bytes :=
  match a with
  | PKb k => kb ke (g k)
  | PKh k => kh ke (g k)
  | PHash hk h => gh hk h
  end.

Definition slots (ke : keyenv) (g : key -> key) (gh : hkind -> bytes -> bytes) (m : ms) : list (option bytes) :=
  map (option_map (image ke g gh)) (pslots m).
