(* C19 — executable glue for comparing the implementation's ==/cmp on descriptors with the model
   (used by the generated Tables/EqOrdCasesGen.v).  No proofs in this file. *)
From Verif Require Export EqOrdRun EqOrdDescModel.

Definition dobs_model (rf rx : list N) (a b : desc) : N * N :=
  (b2n (desc_eq eq_iter a b), cmp_code (desc_cmp cmp_iter (kcmp_of rf) (kcmp_of rx) a b)).

(* (i, j, (impl ==, impl cmp)) *)
Definition dpcase := (N * N * (N * N))%type.
Definition getdv (vals : list desc) (i : N) : desc := nth (N.to_nat i) vals (DPkh 0%N).

Definition dpair_ok (rf rx : list N) (vals : list desc) (c : dpcase) : bool :=
  let '(i, j, (e, o)) := c in
  let '(e', o') := dobs_model rf rx (getdv vals i) (getdv vals j) in
  N.eqb e e' && N.eqb o o'.

(* a pair under a history: (i, j, left operand warmed / a clone of a warmed value, right operand likewise, (impl ==, impl cmp)) *)
Definition dwcase := (N * N * bool * bool * (N * N))%type.
Definition with_history (warm : bool) (x : desc) : cdesc :=
  if warm then cd_clone (cd_warm (fun _ => 0%N) (cd_fresh x)) else cd_fresh x.
Definition dwpair_ok (rf rx : list N) (vals : list desc) (c : dwcase) : bool :=
  let '(i, j, wl, wr, (e, o)) := c in
  let a := with_history wl (getdv vals i) in let b := with_history wr (getdv vals j) in
  N.eqb e (b2n (cdesc_eq eq_iter a b)) && N.eqb o (cmp_code (cdesc_cmp cmp_iter (kcmp_of rf) (kcmp_of rx) a b)).

Record deqdom := mkDEqDom { de_rf : list N; de_rx : list N; de_vals : list desc; de_pairs : list dpcase; de_wpairs : list dwcase }.

Definition deqdom_ok (d : deqdom) : bool :=
  forallb (dpair_ok (de_rf d) (de_rx d) (de_vals d)) (de_pairs d) &&
  forallb (dwpair_ok (de_rf d) (de_rx d) (de_vals d)) (de_wpairs d).

Definition deqdom_wdiag (d : deqdom) : list (N * N * bool * bool) :=
  flat_map (fun c : dwcase => if dwpair_ok (de_rf d) (de_rx d) (de_vals d) c then []
                              else let '(i, j, wl, wr, _) := c in [(i, j, wl, wr)]) (de_wpairs d).

(* failing pairs: (i, j, impl, model) *)
Definition deqdom_diag (d : deqdom) : list (N * N * (N * N) * (N * N)) :=
  flat_map (fun c : dpcase =>
    if dpair_ok (de_rf d) (de_rx d) (de_vals d) c then []
    else let '(i, j, o) := c in
         [(i, j, o, dobs_model (de_rf d) (de_rx d) (getdv (de_vals d) i) (getdv (de_vals d) j))]) (de_pairs d).
