(* C20 — model of key translation and key iteration.
   src/miniscript/mod.rs   translate_pk_ctx (rtl post-order + `translated.pop()` per child, from_ast
                            re-check on every rebuilt node), Clone (same machine, identity), for_each_key
   src/iter/tree.rs        PostOrderIter over Rtl<T> (explicit stack with `processed` flags)
   src/miniscript/iter.rs  Iter / PkIter (pre-order, get_nth_pk)
   src/miniscript/context.rs check_pk / check_global_consensus_validity (the key-dependent part; pk_h keys
                            are checked like pk_k keys since /repo commit bd3f29d9)
   src/descriptor/*.rs     per-wrapper translate_pk, ForEachKey, iter_pk
   Keys are indices; a translator is a function of the CALL INDEX and the key (a `&mut` translator
   whose state depends on its call history is such a function for a fixed input).  No proofs here. *)
From Verif Require Export EqOrdModel TypeCheck.

(* ------------------------------------------------------------------ results *)
Inductive cerr :=              (* class of the Error wrapped in TranslateErr::OuterError *)
| CType                        (* Type::type_check failed *)
| CUncompressed                (* ScriptContextError::UncompressedKeysNotAllowed *)
| CXOnly                       (* ScriptContextError::XOnlyKeysNotAllowed *)
| CMultiA                      (* MultiANotAllowed *)
| CTapMulti                    (* TaprootMultiDisabled *)
| COther (n : N).              (* key-independent rest of from_ast: recursion depth, script size, ... (a parameter) *)

Inductive terr :=
| TranslatorErr (i : N)        (* the i-th call of Translator::pk returned Err (0-based) *)
| OuterErr (e : cerr).

Inductive tres (A : Type) := TOk (a : A) | TErr (e : terr) | TPanic (site : N).
Arguments TOk {A} a. Arguments TErr {A} e. Arguments TPanic {A} site.

Definition tbind {A B} (r : tres A) (k : A -> tres B) : tres B :=
  match r with TOk a => k a | TErr e => TErr e | TPanic s => TPanic s end.

(* ------------------------------------------------------------------ the keys of a term *)
(* PkIter / for_each_key order: pre-order, PkK and PkH, multi keys left to right (RawPkH is not a key) *)
Fixpoint keys_pre (m : ms) : list key :=
  match m with
  | MPkK k | MPkH k => [k]
  | MMulti _ ks | MSortedMulti _ ks | MMultiA _ ks | MSortedMultiA _ ks => ks
  | MAlt x | MSwap x | MCheck x | MDupIf x | MVerify x | MNonZero x | MZeroNotEqual x => keys_pre x
  | MAndV x y | MAndB x y | MOrB x y | MOrD x y | MOrC x y | MOrI x y => keys_pre x ++ keys_pre y
  | MAndOr a b c => keys_pre a ++ keys_pre b ++ keys_pre c
  | MThresh _ xs => (fix go (l : list ms) : list key := match l with [] => [] | x :: r => keys_pre x ++ go r end) xs
  | _ => []
  end.

(* the order in which translate_pk_ctx calls Translator::pk: right-to-left post-order, multi keys left to right *)
Fixpoint keys_rtl (m : ms) : list key :=
  match m with
  | MPkK k | MPkH k => [k]
  | MMulti _ ks | MSortedMulti _ ks | MMultiA _ ks | MSortedMultiA _ ks => ks
  | MAlt x | MSwap x | MCheck x | MDupIf x | MVerify x | MNonZero x | MZeroNotEqual x => keys_rtl x
  | MAndV x y | MAndB x y | MOrB x y | MOrD x y | MOrC x y | MOrI x y => keys_rtl y ++ keys_rtl x
  | MAndOr a b c => keys_rtl c ++ keys_rtl b ++ keys_rtl a
  | MThresh _ xs => (fix go (l : list ms) : list key := match l with [] => [] | x :: r => go r ++ keys_rtl x end) xs
  | _ => []
  end.

(* the key nodes per node, as get_nth_pk sees them *)
Definition node_keys (m : ms) : list key :=
  match m with
  | MPkK k | MPkH k => [k]
  | MMulti _ ks | MSortedMulti _ ks | MMultiA _ ks | MSortedMultiA _ ks => ks
  | _ => []
  end.

(* Miniscript::iter_pk as coded: the node iterator is the pre-order; per node get_nth_pk(0), (1), ... *)
Definition iter_pk (m : ms) (fuel : nat) : option (list key) :=
  option_map (fun ns => flat_map (fun n => match n_pl n, n_tag n with
                                           | PKey k, (TPkK | TPkH) => [k]
                                           | PKeys _ ks, _ => ks
                                           | _, _ => []
                                           end) ns)
             (preorder_stack fuel [m]).

(* for_each_key as coded: pre-order, `return false` at the first key failing the predicate.
   Returns the result and the keys the predicate was called on. *)
Fixpoint all_log (p : key -> bool) (ks : list key) : bool * list key :=
  match ks with
  | [] => (true, [])
  | k :: r => if p k then let '(b, l) := all_log p r in (b, k :: l) else (false, [k])
  end.
Definition for_each_key (p : key -> bool) (m : ms) : bool * list key := all_log p (keys_pre m).
Definition for_any_key (p : key -> bool) (m : ms) : bool := negb (fst (for_each_key (fun k => negb (p k)) m)).

(* ------------------------------------------------------------------ substitution (specification side) *)
Fixpoint map_keys (g : key -> key) (m : ms) : ms :=
  match m with
  | MPkK k => MPkK (g k) | MPkH k => MPkH (g k)
  | MMulti k ks => MMulti k (map g ks) | MSortedMulti k ks => MSortedMulti k (map g ks)
  | MMultiA k ks => MMultiA k (map g ks) | MSortedMultiA k ks => MSortedMultiA k (map g ks)
  | MAlt x => MAlt (map_keys g x) | MSwap x => MSwap (map_keys g x) | MCheck x => MCheck (map_keys g x)
  | MDupIf x => MDupIf (map_keys g x) | MVerify x => MVerify (map_keys g x)
  | MNonZero x => MNonZero (map_keys g x) | MZeroNotEqual x => MZeroNotEqual (map_keys g x)
  | MAndV x y => MAndV (map_keys g x) (map_keys g y) | MAndB x y => MAndB (map_keys g x) (map_keys g y)
  | MAndOr a b c => MAndOr (map_keys g a) (map_keys g b) (map_keys g c)
  | MOrB x y => MOrB (map_keys g x) (map_keys g y) | MOrD x y => MOrD (map_keys g x) (map_keys g y)
  | MOrC x y => MOrC (map_keys g x) (map_keys g y) | MOrI x y => MOrI (map_keys g x) (map_keys g y)
  | MThresh k xs => MThresh k (map (map_keys g) xs)
  | other => other
  end.

(* the shape of a term: everything but the keys *)
Definition key_shape (m : ms) : ms := map_keys (fun _ => 0%N) m.

(* all subterms, the term itself included *)
Fixpoint subterms (m : ms) : list ms :=
  m ::
  match m with
  | MAlt x | MSwap x | MCheck x | MDupIf x | MVerify x | MNonZero x | MZeroNotEqual x => subterms x
  | MAndV x y | MAndB x y | MOrB x y | MOrD x y | MOrC x y | MOrI x y => subterms x ++ subterms y
  | MAndOr a b c => subterms a ++ subterms b ++ subterms c
  | MThresh _ xs => (fix go (l : list ms) : list ms := match l with [] => [] | x :: r => subterms x ++ go r end) xs
  | _ => []
  end.

(* ------------------------------------------------------------------ translation *)
Section Translate.
  Variable f : N -> key -> option key.       (* Translator::pk: call index, key *)
  Variable chk : ms -> option cerr.          (* Miniscript::from_ast on a rebuilt node: None = accepted *)

  (* Threshold::translate_ref: keys left to right, stop at the first error *)
  Fixpoint tr_keys (n : N) (ks : list key) : tres (list key * N) :=
    match ks with
    | [] => TOk ([], n)
    | k :: r =>
      match f n k with
      | None => TErr (TranslatorErr n)
      | Some k' => tbind (tr_keys (n + 1) r) (fun p => TOk (k' :: fst p, snd p))
      end
    end.

  (* `Miniscript::from_ast(new_term).map_err(OuterError)?` *)
  Definition finish (t : ms) (n : N) : tres (ms * N) :=
    match chk t with None => TOk (t, n) | Some e => TErr (OuterErr e) end.

  (* the obvious recursive translation; children are visited right to left because that is the order
     in which the code calls the translator and re-checks (the first error is observable) *)
  Fixpoint translate_rec (n : N) (m : ms) : tres (ms * N) :=
    let un (c : ms -> ms) (x : ms) :=
        tbind (translate_rec n x) (fun p => finish (c (fst p)) (snd p)) in
    let bin (c : ms -> ms -> ms) (x y : ms) :=
        tbind (translate_rec n y) (fun q =>
        tbind (translate_rec (snd q) x) (fun p => finish (c (fst p) (fst q)) (snd p))) in
    let leaf_key (c : key -> ms) (k : key) :=
        match f n k with None => TErr (TranslatorErr n) | Some k' => finish (c k') (n + 1) end in
    let multi (c : list key -> ms) (ks : list key) :=
        tbind (tr_keys n ks) (fun p => finish (c (fst p)) (snd p)) in
    match m with
    | MPkK k => leaf_key MPkK k
    | MPkH k => leaf_key MPkH k
    | MAlt x => un MAlt x | MSwap x => un MSwap x | MCheck x => un MCheck x | MDupIf x => un MDupIf x
    | MVerify x => un MVerify x | MNonZero x => un MNonZero x | MZeroNotEqual x => un MZeroNotEqual x
    | MAndV x y => bin MAndV x y | MAndB x y => bin MAndB x y
    | MOrB x y => bin MOrB x y | MOrD x y => bin MOrD x y | MOrC x y => bin MOrC x y | MOrI x y => bin MOrI x y
    | MAndOr a b c =>
      tbind (translate_rec n c) (fun r =>
      tbind (translate_rec (snd r) b) (fun q =>
      tbind (translate_rec (snd q) a) (fun p => finish (MAndOr (fst p) (fst q) (fst r)) (snd p))))
    | MThresh k xs =>
      tbind ((fix go (l : list ms) : tres (list ms * N) :=
                match l with
                | [] => TOk ([], n)
                | x :: r => tbind (go r) (fun q => tbind (translate_rec (snd q) x) (fun p => TOk (fst p :: fst q, snd p)))
                end) xs)
            (fun p => finish (MThresh k (fst p)) (snd p))
    | MMulti k ks => multi (MMulti k) ks | MSortedMulti k ks => multi (MSortedMulti k) ks
    | MMultiA k ks => multi (MMultiA k) ks | MSortedMultiA k ks => multi (MSortedMultiA k) ks
    | leaf => finish leaf n       (* True, False, RawPkH, After, Older and the hash fragments (hashes map to themselves) *)
    end.

  Definition translate (m : ms) : tres ms := tbind (translate_rec 0 m) (fun p => TOk (fst p)).

  (* ---------------------------------------------------------------- the algorithm as coded *)
  (* nodes in the order rtl_post_order_iter yields them *)
  Fixpoint rtl_post (m : ms) : list ms :=
    match m with
    | MAlt x | MSwap x | MCheck x | MDupIf x | MVerify x | MNonZero x | MZeroNotEqual x => rtl_post x
    | MAndV x y | MAndB x y | MOrB x y | MOrD x y | MOrC x y | MOrI x y => rtl_post y ++ rtl_post x
    | MAndOr a b c => rtl_post c ++ rtl_post b ++ rtl_post a
    | MThresh _ xs => (fix go (l : list ms) : list ms := match l with [] => [] | x :: r => go r ++ rtl_post x end) xs
    | _ => []
    end ++ [m].

  (* PostOrderIter<Rtl<T>>::next as coded: stack items carry a `processed` flag; an unprocessed item is
     pushed back as processed, then its children so that the LAST child ends on top. Top = head. *)
  Fixpoint rtl_post_stack (fuel : nat) (stack : list (ms * bool)) : option (list ms) :=
    match stack with
    | [] => Some []
    | (m, processed) :: rest =>
      match fuel with
      | O => None
      | S fu =>
        if processed then option_map (cons m) (rtl_post_stack fu rest)
        else rtl_post_stack fu (map (fun c => (c, false)) (rev (children m)) ++ (m, true) :: rest)
      end
    end.

  (* `translated.pop().unwrap()` *)
  Definition pop (st : list ms) : tres (ms * list ms) :=
    match st with [] => TPanic 1 | x :: r => TOk (x, r) end.
  Fixpoint popn (n : nat) (st : list ms) : tres (list ms * list ms) :=
    match n with
    | O => TOk ([], st)
    | S n' => tbind (pop st) (fun p => tbind (popn n' (snd p)) (fun q => TOk (fst p :: fst q, snd q)))
    end.

  (* one iteration of `for data in self.rtl_post_order_iter()`: state = (translated, next call index) *)
  Definition step (st : list ms * N) (node : ms) : tres (list ms * N) :=
    let '(stk, n) := st in
    let push (r : tres (ms * N)) (rest : list ms) := tbind r (fun p => TOk (fst p :: rest, snd p)) in
    let un (c : ms -> ms) := tbind (pop stk) (fun p => push (finish (c (fst p)) n) (snd p)) in
    let bin (c : ms -> ms -> ms) :=
        tbind (pop stk) (fun p => tbind (pop (snd p)) (fun q => push (finish (c (fst p) (fst q)) n) (snd q))) in
    let leaf_key (c : key -> ms) (k : key) :=
        match f n k with None => TErr (TranslatorErr n) | Some k' => push (finish (c k') (n + 1)) stk end in
    let multi (c : list key -> ms) (ks : list key) :=
        tbind (tr_keys n ks) (fun p => push (finish (c (fst p)) (snd p)) stk) in
    match node with
    | MPkK k => leaf_key MPkK k | MPkH k => leaf_key MPkH k
    | MAlt _ => un MAlt | MSwap _ => un MSwap | MCheck _ => un MCheck | MDupIf _ => un MDupIf
    | MVerify _ => un MVerify | MNonZero _ => un MNonZero | MZeroNotEqual _ => un MZeroNotEqual
    | MAndV _ _ => bin MAndV | MAndB _ _ => bin MAndB
    | MOrB _ _ => bin MOrB | MOrD _ _ => bin MOrD | MOrC _ _ => bin MOrC | MOrI _ _ => bin MOrI
    | MAndOr _ _ _ =>
      tbind (pop stk) (fun p => tbind (pop (snd p)) (fun q => tbind (pop (snd q)) (fun r =>
        push (finish (MAndOr (fst p) (fst q) (fst r)) n) (snd r))))
    | MThresh k xs =>                                   (* thresh.map_ref(|_| translated.pop().unwrap()) *)
      tbind (popn (length xs) stk) (fun p => push (finish (MThresh k (fst p)) n) (snd p))
    | MMulti k ks => multi (MMulti k) ks | MSortedMulti k ks => multi (MSortedMulti k) ks
    | MMultiA k ks => multi (MMultiA k) ks | MSortedMultiA k ks => multi (MSortedMultiA k) ks
    | leaf => push (finish leaf n) stk
    end.

  Fixpoint run_steps (st : list ms * N) (nodes : list ms) : tres (list ms * N) :=
    match nodes with
    | [] => TOk st
    | x :: r => tbind (step st x) (fun st' => run_steps st' r)
    end.

  (* translate_pk_ctx: the loop, then `Arc::try_unwrap(translated.pop().unwrap()).unwrap()` *)
  Definition translate_iter (m : ms) : tres ms :=
    tbind (run_steps ([], 0%N) (rtl_post m)) (fun st => tbind (pop (fst st)) (fun p => TOk (fst p))).
End Translate.

(* Clone for Miniscript: the same machine, every key maps to itself, no re-check *)
Definition clone_iter (m : ms) : tres ms := translate_iter (fun _ k => Some k) (fun _ => None) m.

(* ------------------------------------------------------------------ the key-dependent part of from_ast *)
Inductive kkind := KCompressed | KUncompressed | KXOnly.

(* ScriptContext::check_pk *)
Definition check_pk (c : ctx) (k : kkind) : option cerr :=
  match c, k with
  | (Bare | Legacy), KXOnly => Some CXOnly
  | Segwitv0, KUncompressed => Some CUncompressed
  | Segwitv0, KXOnly => Some CXOnly
  | Tap, KUncompressed => Some CUncompressed
  | _, _ => None
  end.

Fixpoint check_pks (c : ctx) (kk : key -> kkind) (ks : list key) : option cerr :=
  match ks with
  | [] => None
  | k :: r => match check_pk c (kk k) with Some e => Some e | None => check_pks c kk r end
  end.

(* check_global_consensus_validity, step 1 ("check the node first"): PkK, PkH (since /repo bd3f29d9) and the
   multi forms look at keys *)
Definition node_check (c : ctx) (kk : key -> kkind) (m : ms) : option cerr :=
  match m with
  | MPkK k | MPkH k => check_pk c (kk k)
  | MMulti _ ks | MSortedMulti _ ks => if is_tap c then Some CTapMulti else check_pks c kk ks
  | MMultiA _ ks | MSortedMultiA _ ks => if is_tap c then check_pks c kk ks else Some CMultiA
  | _ => None
  end.

(* from_ast on one node: type_check, then the key-independent rest (recursion depth; supplied), then
   check_global_validity: the node check, then the script-size limits (key-length dependent; supplied) *)
Definition from_ast_chk (c : ctx) (kk : key -> kkind) (rest size : ms -> option cerr) (m : ms) : option cerr :=
  match type_of m with
  | RErr _ => Some CType
  | ROk _ =>
    match rest m with
    | Some e => Some e
    | None => match node_check c kk m with Some e => Some e | None => size m end
    end
  end.

(* ------------------------------------------------------------------ descriptors *)
Inductive desc :=
| DBare (m : ms) | DPkh (k : key) | DWpkh (k : key)
| DShWsh (m : ms) | DShWpkh (k : key) | DSh (m : ms) | DWsh (m : ms)
| DTr (ik : key) (leaves : list (N * ms)).       (* internal key, (depth, leaf) in tree order *)

(* Descriptor::iter_pk: tr yields the internal key first, then the leaves' keys *)
Definition desc_iter_pk (d : desc) : list key :=
  match d with
  | DPkh k | DWpkh k | DShWpkh k => [k]
  | DBare m | DShWsh m | DSh m | DWsh m => keys_pre m
  | DTr ik ls => ik :: flat_map (fun l => keys_pre (snd l)) ls
  end.
(* ForEachKey for Tr: the leaves first, the internal key last *)
Definition desc_keys_foreach (d : desc) : list key :=
  match d with
  | DTr ik ls => flat_map (fun l => keys_pre (snd l)) ls ++ [ik]
  | _ => desc_iter_pk d
  end.
Definition desc_for_each_key (p : key -> bool) (d : desc) : bool * list key := all_log p (desc_keys_foreach d).

Section TranslateDesc.
  Variable f : N -> key -> option key.
  Variable chk : ctx -> ms -> option cerr.     (* from_ast in the given context *)
  Variable kk : key -> kkind.                  (* kinds of the TARGET keys *)

  Definition single (c : ctx) (mk : key -> desc) (k : key) : tres desc :=
    match f 0%N k with
    | None => TErr (TranslatorErr 0)
    | Some k' => match check_pk c (kk k') with Some e => TErr (OuterErr e) | None => TOk (mk k') end
    end.

  Definition wrap (c : ctx) (mk : ms -> desc) (m : ms) : tres desc :=
    tbind (translate_iter f (chk c) m) (fun m' => TOk (mk m')).

  (* TapTree::translate_pk: leaves in order (each by translate_pk_ctx); then Tr::translate_pk calls the
     translator on the internal key and Tr::new re-checks it (Tap::check_pk) *)
  Fixpoint tr_leaves (n : N) (ls : list (N * ms)) : tres (list (N * ms) * N) :=
    match ls with
    | [] => TOk ([], n)
    | (d, m) :: r =>
      tbind (tbind (run_steps f (chk Tap) ([], n) (rtl_post m))
                   (fun st => tbind (pop (fst st)) (fun p => TOk (fst p, snd st))))
            (fun p => tbind (tr_leaves (snd p) r) (fun q => TOk ((d, fst p) :: fst q, snd q)))
    end.

  Definition translate_desc (d : desc) : tres desc :=
    match d with
    | DPkh k => single Legacy DPkh k
    | DWpkh k => single Segwitv0 DWpkh k
    | DShWpkh k => single Segwitv0 DShWpkh k
    | DBare m => wrap Bare DBare m            (* Bare::new re-runs the (key-independent) top-level checks *)
    | DSh m => wrap Legacy DSh m
    | DWsh m => wrap Segwitv0 DWsh m
    | DShWsh m => wrap Segwitv0 DShWsh m
    | DTr ik ls =>
      tbind (tr_leaves 0%N ls) (fun p =>
        match f (snd p) ik with
        | None => TErr (TranslatorErr (snd p))
        | Some ik' => match check_pk Tap (kk ik') with Some e => TErr (OuterErr e) | None => TOk (DTr ik' (fst p)) end
        end)
    end.
End TranslateDesc.
