(* C10 / C11 — the miniscript printer AS CODED in src/miniscript/display.rs (no proofs in this file).

   `Terminal::conditional_fmt(f, DisplayTypes::None)` (what `Display for Miniscript` calls) is a loop
       for item in DisplayNode::Node(initial_type, self).verbose_pre_order_iter() { ... }
   over the private tree `DisplayNode` whose `as_node` creates synthetic children (threshold k, keys,
   hashes, lock times) and folds the sugar (`t:`, `l:`, `u:`, `pk()`, `pkh()`, `and_n`).  The body of
   the loop writes, depending on `n_children_yielded` / `is_complete` / `parent`:
     wrapper node      : its one-character name at the first yield, nothing afterwards;
     other `Node`      : first yield  ":" if the parent is a wrapper `Node`, the name, "(" unless complete;
                         later yields ")" if complete, otherwise ",";
     synthetic nodes   : their `Display` text (they are leaves).
   MsTextModel.v models the same printer RECURSIVELY (`tw` / `to_tree` / `ms_to_text`); here it is the
   loop over the items of Ms/VerboseIterModel.v, and Proofs/DisplayIterProofs.v proves them equal.

   [dlabel] is what the loop body looks at in a `DisplayNode`:
     DLNode name is_wrapper  = DisplayNode::Node(_, t) with t.fragment_name() and t.is_wrapper()
     DLAtom text             = ThresholdK / Key / RawKeyHash / After / Older / Sha256 / ... with its text. *)
From Coq Require Import List NArith Bool.
From Verif Require Import Bytes RobustModel VerboseIterModel MsTextModel.
Import ListNotations.
Local Open Scope N_scope.

Inductive dlabel := DLNode (name : tbytes) (is_wrapper : bool) | DLAtom (text : tbytes).

(* `if let Some(DisplayNode::Node(_, parent)) = item.parent { if parent.is_wrapper() {...} }` *)
Definition parent_is_wrapper (par : option (gtree dlabel)) : bool :=
  match par with Some (GNode (DLNode _ true) _) => true | _ => false end.

(* the body of the loop for one item (DisplayTypes::None: show_type = false) *)
Definition display_item (it : vitem dlabel) : tbytes :=
  match glabel (vi_node it) with
  | DLNode name true => if vi_nyielded it =? 0 then name else []
  | DLNode name false =>
    if vi_nyielded it =? 0 then
      (if parent_is_wrapper (vi_parent it) then [COLON] else []) ++ name ++
      (if negb (vi_complete it) then [LPAREN] else [])
    else if vi_complete it then [RPAREN] else [COMMA]
  | DLAtom text => text
  end.

Definition display_items (ys : list (vitem dlabel)) : tbytes := concat (map display_item ys).

(* conditional_fmt over an arbitrary DisplayNode tree *)
Definition display_iter_tree (t : gtree dlabel) : routcome tbytes :=
  rbind (verbose_order t) (fun ys => ROk (display_items ys)).

(* ---- the obvious recursive printer of a DisplayNode tree (pw: the parent is a wrapper Node) *)
Fixpoint drec (pw : bool) (t : gtree dlabel) : tbytes :=
  match t with GNode l cs =>
    match l with
    | DLAtom s =>
      s ++ (fix go (l : list (gtree dlabel)) : tbytes := match l with [] => [] | c :: r => drec false c ++ s ++ go r end) cs
    | DLNode name true =>
      name ++ (fix go (l : list (gtree dlabel)) : tbytes := match l with [] => [] | c :: r => drec true c ++ go r end) cs
    | DLNode name false =>
      (if pw then [COLON] else []) ++ name ++
      match cs with [] => [] | _ => [LPAREN] end ++
      (fix commas (l : list (gtree dlabel)) : tbytes :=
         match l with [] => [] | [c] => drec false c | c :: r => drec false c ++ COMMA :: commas r end) cs ++
      match cs with [] => [] | _ => [RPAREN] end
    end
  end.
Fixpoint drec_atoms (s : tbytes) (l : list (gtree dlabel)) : tbytes :=
  match l with [] => [] | c :: r => drec false c ++ s ++ drec_atoms s r end.
Fixpoint drec_wrapped (l : list (gtree dlabel)) : tbytes :=
  match l with [] => [] | c :: r => drec true c ++ drec_wrapped r end.
Fixpoint drec_commas (l : list (gtree dlabel)) : tbytes :=
  match l with [] => [] | [c] => drec false c | c :: r => drec false c ++ COMMA :: drec_commas r end.

Section DisplayMs.
Variable print_key : key -> tbytes.
Variable print_hash : hkind -> tbytes -> tbytes.

(* Terminal::fragment_name *)
Definition fragment_name (m : ms) : tbytes :=
  match m with
  | MTrue => n_1 | MFalse => n_0
  | MPkK _ => n_pk_k | MPkH _ => n_pk_h | MRawPkH _ => n_expr_raw_pkh
  | MAfter _ => n_after | MOlder _ => n_older
  | MSha256 _ => n_sha256 | MHash256 _ => n_hash256 | MRipemd160 _ => n_ripemd160 | MHash160 _ => n_hash160
  | MAlt _ => [ch_a] | MSwap _ => [ch_s]
  | MCheck x => match x with MPkK _ => n_pk | MPkH _ => n_pkh | _ => [ch_c] end
  | MDupIf _ => [ch_d] | MVerify _ => [ch_v] | MNonZero _ => [ch_j] | MZeroNotEqual _ => [ch_n]
  | MAndV _ r => if is_true r then [ch_t] else n_and_v
  | MAndB _ _ => n_and_b
  | MAndOr _ _ c => if is_false c then n_and_n else n_andor
  | MOrB _ _ => n_or_b | MOrD _ _ => n_or_d | MOrC _ _ => n_or_c
  | MOrI l r => if is_false r then [ch_u] else if is_false l then [ch_l] else n_or_i
  | MThresh _ _ => n_thresh | MMulti _ _ => n_multi | MSortedMulti _ _ => n_sortedmulti
  | MMultiA _ _ => n_multi_a | MSortedMultiA _ _ => n_sortedmulti_a
  end.
(* Terminal::is_wrapper: !matches!(self, True | False) && self.fragment_name().len() == 1 *)
Definition is_wrapper (m : ms) : bool :=
  negb (is_true m || is_false m) && Nat.eqb (length (fragment_name m)) 1.

Definition datom (s : tbytes) : gtree dlabel := GNode (DLAtom s) [].

(* the tree `DisplayNode::Node(_, m)` unfolds to through `as_node` / `nary_index` (the order of the
   tests is as_node's: `OrI` looks at the LEFT child first, fragment_name at the right one) *)
Fixpoint dtree (m : ms) : gtree dlabel :=
  GNode (DLNode (fragment_name m) (is_wrapper m))
    match m with
    | MTrue | MFalse => []
    | MPkK k | MPkH k => [datom (print_key k)]
    | MRawPkH h => [datom (print_hash HRawPkh h)]
    | MAfter t | MOlder t => [datom (dec t)]
    | MSha256 h => [datom (print_hash HSha256 h)]
    | MHash256 h => [datom (print_hash HHash256 h)]
    | MRipemd160 h => [datom (print_hash HRipemd160 h)]
    | MHash160 h => [datom (print_hash HHash160 h)]
    | MCheck x => match x with MPkK k | MPkH k => [datom (print_key k)] | _ => [dtree x] end
    | MAlt x | MSwap x | MDupIf x | MVerify x | MNonZero x | MZeroNotEqual x => [dtree x]
    | MAndV x y => if is_true y then [dtree x] else [dtree x; dtree y]
    | MOrI x y => if is_false x then [dtree y] else if is_false y then [dtree x] else [dtree x; dtree y]
    | MAndB x y | MOrB x y | MOrD x y | MOrC x y => [dtree x; dtree y]
    | MAndOr a b c => if is_false c then [dtree a; dtree b] else [dtree a; dtree b; dtree c]
    | MThresh k xs => datom (dec k) :: map dtree xs
    | MMulti k ks | MSortedMulti k ks | MMultiA k ks | MSortedMultiA k ks =>
      datom (dec k) :: map (fun k => datom (print_key k)) ks
    end.

(* `impl Display for Miniscript`: the loop over the verbose items of the DisplayNode tree *)
Definition display_iter (m : ms) : routcome tbytes := display_iter_tree (dtree m).

End DisplayMs.
