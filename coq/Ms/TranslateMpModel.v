(* C20 (extension round 2) -- Descriptor::translate_pk with target keys that may be MULTIPATH keys.
   The wrappers differ in what they re-run after the scripts have been translated:
     Wsh / Sh / Bare ::translate_pk   build the wrapper directly from `ms.translate_pk(t)?` (no top-level check);
     Wpkh / Pkh ::translate_pk        go through `new` (check_pk only);
     Tr::translate_pk                 goes through `Tr::new(translate.pk(&internal_key)?, tree)`, which after
                                      `Tap::check_pk(&internal_key)?` runs `Tap::top_level_checks(leaf)` on every leaf:
                                      `top_level_type_check` = base type B, then the multipath-length check over
                                      `for_each_key` (context.rs MultipathLenChecker), then `other_top_level_checks` (Ok for Tap).
   [np k] = `DescriptorPublicKey::num_der_paths` of the target key k (0 raw key, 1 single-path xpub, n multipath).
   [translate_desc_mp] = translate_desc_h of Ms/TranslateHashModel.v followed by Tr::new's leaf checks.  No proofs here. *)
From Verif Require Export TranslateHashModel.
Local Open Scope N_scope.

Inductive mpstate := MpSingle | MpLen (n : N) | MpMismatch.

(* one call of the closure given to for_each_key *)
Definition mp_step (np : key -> N) (st : mpstate) (k : key) : mpstate :=
  let n := np k in
  if n <=? 1 then st
  else match st with
       | MpSingle => MpLen n
       | MpLen len => if len =? n then st else MpMismatch
       | MpMismatch => MpMismatch
       end.

Definition mp_mismatch (np : key -> N) (m : ms) : bool :=
  match fold_left (mp_step np) (keys_pre m) MpSingle with MpMismatch => true | _ => false end.

Definition base_is_b (m : ms) : bool :=
  match type_of m with ROk t => base_eqb (c_base (t_corr t)) BB | RErr _ => false end.

Inductive mperr :=
| MpT (e : terr)          (* what translate_desc_h reports: TranslatorErr i / OuterErr c *)
| MpNonBase               (* OuterError(Validation(NonBase)) from Tr::new *)
| MpLenMismatch.          (* OuterError(MultipathDescLenMismatch) from Tr::new *)

Inductive mpres := MpOk (d : desc) | MpErr (e : mperr) | MpPanic (s : N).

(* Tap::top_level_checks on one leaf *)
Definition leaf_top (np : key -> N) (m : ms) : option mperr :=
  if negb (base_is_b m) then Some MpNonBase
  else if mp_mismatch np m then Some MpLenMismatch else None.

Fixpoint leaves_top (np : key -> N) (ls : list (N * ms)) : option mperr :=
  match ls with
  | [] => None
  | (_, m) :: r => match leaf_top np m with Some e => Some e | None => leaves_top np r end
  end.

Definition translate_desc_mp (f : N -> key -> option key) (fh : N -> hkind -> bytes -> option bytes)
           (chk : ctx -> ms -> option cerr) (kk : key -> kkind) (np : key -> N) (d : desc) : mpres :=
  match translate_desc_h f fh chk kk d with
  | TOk d' => match d' with
              | DTr _ ls => match leaves_top np ls with Some e => MpErr e | None => MpOk d' end
              | _ => MpOk d'
              end
  | TErr e => MpErr (MpT e)
  | TPanic s => MpPanic s
  end.

(* what the constructors Wsh::new / Sh::new / Bare::new (and the parser) would say about a script: the same top-level check *)
Definition ctor_top (np : key -> N) (d : desc) : option mperr :=
  match d with
  | DBare m | DSh m | DWsh m | DShWsh m => leaf_top np m
  | DTr _ ls => leaves_top np ls
  | _ => None
  end.
