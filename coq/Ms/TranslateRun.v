(* C20 — executable glue for the per-run comparison of the implementation's observations with the
   translation model (used by the generated Tables/TranslateCasesGen.v and the static
   Tables/TranslateCases{Check,Diag}.v).  No proofs in this file. *)
From Verif Require Export TranslateModel EqOrdRun.

(* key kinds of a domain's key universe: association list index -> 0 compressed / 1 uncompressed / 2 x-only *)
Fixpoint kk_of (kinds : list (N * N)) (k : key) : kkind :=
  match kinds with
  | [] => KCompressed
  | (i, c) :: r => if N.eqb i k then (match c with 0%N => KCompressed | 1%N => KUncompressed | _ => KXOnly end) else kk_of r k
  end.

(* a mapping as the harness applies it: a table over the source keys (keys outside it are unchanged),
   optionally failing on the n-th call *)
Definition f_of (tbl : list (option N)) (fail_at : option N) (n : N) (k : key) : option key :=
  match fail_at with
  | Some a => if N.eqb a n then None else nth (N.to_nat k) tbl (Some k)
  | None => nth (N.to_nat k) tbl (Some k)
  end.

(* script-size limits of check_global_{consensus,policy}_validity (ext.pk_cost is taken to be the length of the
   encoded script): Legacy MAX_SCRIPT_ELEMENT_SIZE, Segwitv0 MAX_STANDARD_P2WSH_SCRIPT_SIZE (the consensus limit
   10000 is checked first, same error class), Bare MAX_SCRIPT_SIZE, Tap the block weight *)
Definition size_limit (c : ctx) : N :=
  match c with Bare => 10000 | Legacy => 520 | Segwitv0 => 3600 | Tap => 4000000 end%N.

(* only lengths matter: a key is pushed as 33 / 65 bytes, or 32 in tap *)
Definition kenv_of (c : ctx) (kinds : list (N * N)) : keyenv :=
  mkKeyEnv (fun k => repeat 0%N (if is_tap c then 32 else match kk_of kinds k with KUncompressed => 65 | KXOnly => 32 | KCompressed => 33 end))
           (fun _ => repeat 0%N 20) (fun ks => ks).

Definition size_chk (kinds : list (N * N)) (c : ctx) (m : ms) : option cerr :=
  if N.ltb (size_limit c) (blen (encode (kenv_of c kinds) m)) then Some (COther 0) else None.

(* from_ast in the runs: type check, the key-dependent node check, the script-size limit (the recursion-depth
   limit is not reached) *)
Definition chk_run (kinds : list (N * N)) (c : ctx) : ms -> option cerr :=
  from_ast_chk c (kk_of kinds) (fun _ => None) (size_chk kinds c).

(* results as the harness prints them *)
Inductive robs (A : Type) := ROK (a : A) | RET (i : N) | REO (code : N) | RPANIC.
Arguments ROK {A} a. Arguments RET {A} i. Arguments REO {A} code. Arguments RPANIC {A}.

Definition cerr_code (e : cerr) : N :=
  match e with CType => 0 | CUncompressed => 1 | CXOnly => 2 | CMultiA => 3 | CTapMulti => 4 | COther _ => 5 end%N.

Definition robs_of {A} (r : tres A) : robs A :=
  match r with
  | TOk a => ROK a
  | TErr (TranslatorErr i) => RET i
  | TErr (OuterErr e) => REO (cerr_code e)
  | TPanic _ => RPANIC
  end.

Definition robs_eqb {A} (eqb : A -> A -> bool) (x y : robs A) : bool :=
  match x, y with
  | ROK a, ROK b => eqb a b
  | RET i, RET j => N.eqb i j
  | REO i, REO j => N.eqb i j
  | RPANIC, RPANIC => true
  | _, _ => false
  end.

Fixpoint is_prefix (a b : list key) : bool :=
  match a, b with
  | [], _ => true
  | x :: r, y :: s => N.eqb x y && is_prefix r s
  | _ :: _, [] => false
  end.

(* the translator's call log must be a prefix of the model's call order; the whole of it on success and
   exactly i+1 calls when the i-th call fails *)
Definition calls_ok {A} (order calls : list key) (r : robs A) : bool :=
  is_prefix calls order &&
  match r with
  | ROK _ => Nat.eqb (length calls) (length order)
  | RET i => N.eqb (nlen calls) (i + 1)
  | _ => true
  end.

(* ---- miniscript cases: (value id, mapping table, fail-at, implementation result, call log) *)
Definition tcase := (N * list (option N) * option N * robs ms * list key)%type.

Definition tcase_ok (c : ctx) (kinds : list (N * N)) (vals : list ms) (t : tcase) : bool :=
  let '(vid, tbl, fa, r, calls) := t in
  let v := getv vals vid in
  robs_eqb ms_eqb (robs_of (translate_iter (f_of tbl fa) (chk_run kinds c) v)) r && calls_ok (keys_rtl v) calls r.

(* key iteration: (value id, iter_pk, for_each_key result and visit order) *)
Definition icase := (N * list key * bool * list key)%type.
Definition icase_ok (vals : list ms) (i : icase) : bool :=
  let '(vid, it, all, each) := i in
  let v := getv vals vid in
  match iter_pk v (ms_size v) with
  | Some l => keys_eqb l it
  | None => false
  end &&
  let '(b, l) := for_each_key (fun _ => true) v in Bool.eqb b all && keys_eqb l each.

Record tdom := mkTDom { td_ctx : ctx; td_kinds : list (N * N); td_vals : list ms; td_cases : list tcase; td_icases : list icase }.

Definition tdom_ok (d : tdom) : bool :=
  forallb (tcase_ok (td_ctx d) (td_kinds d) (td_vals d)) (td_cases d) && forallb (icase_ok (td_vals d)) (td_icases d).

Fixpoint number {A} (n : N) (l : list A) : list (N * A) :=
  match l with [] => [] | x :: r => (n, x) :: number (n + 1) r end.

(* failing cases: (position in td_cases, what the model computes) *)
Definition tdom_diag (d : tdom) : list (N * robs ms) * list N :=
  (flat_map (fun it : N * tcase =>
     let t := snd it in
     if tcase_ok (td_ctx d) (td_kinds d) (td_vals d) t then []
     else let '(vid, tbl, fa, r, calls) := t in
          [(fst it, robs_of (translate_iter (f_of tbl fa) (chk_run (td_kinds d) (td_ctx d)) (getv (td_vals d) vid)))])
            (number 0 (td_cases d)),
   flat_map (fun i : icase => if icase_ok (td_vals d) i then [] else [fst (fst (fst i))]) (td_icases d)).

(* ---- descriptors *)
Fixpoint leaves_eqb (a b : list (N * ms)) : bool :=
  match a, b with
  | [], [] => true
  | (d, m) :: r, (d', m') :: s => N.eqb d d' && ms_eqb m m' && leaves_eqb r s
  | _, _ => false
  end.

Definition desc_eqb (a b : desc) : bool :=
  match a, b with
  | DBare x, DBare y | DShWsh x, DShWsh y | DSh x, DSh y | DWsh x, DWsh y => ms_eqb x y
  | DPkh x, DPkh y | DWpkh x, DWpkh y | DShWpkh x, DShWpkh y => N.eqb x y
  | DTr k l, DTr k' l' => N.eqb k k' && leaves_eqb l l'
  | _, _ => false
  end.

(* the order in which Descriptor::translate_pk calls the translator *)
Definition desc_keys_rtl (d : desc) : list key :=
  match d with
  | DPkh k | DWpkh k | DShWpkh k => [k]
  | DBare m | DShWsh m | DSh m | DWsh m => keys_rtl m
  | DTr ik ls => flat_map (fun l => keys_rtl (snd l)) ls ++ [ik]
  end.

Definition dcase := (N * list (option N) * option N * robs desc * list key)%type.
Definition getd (vals : list desc) (i : N) : desc := nth (N.to_nat i) vals (DPkh 0%N).

Definition dcase_ok (kinds : list (N * N)) (vals : list desc) (t : dcase) : bool :=
  let '(vid, tbl, fa, r, calls) := t in
  let v := getd vals vid in
  robs_eqb desc_eqb (robs_of (translate_desc (f_of tbl fa) (chk_run kinds) (kk_of kinds) v)) r
  && calls_ok (desc_keys_rtl v) calls r.

Definition dicase_ok (vals : list desc) (i : icase) : bool :=
  let '(vid, it, all, each) := i in
  let v := getd vals vid in
  keys_eqb (desc_iter_pk v) it &&
  let '(b, l) := desc_for_each_key (fun _ => true) v in Bool.eqb b all && keys_eqb l each.

Record ddom := mkDDom { dd_kinds : list (N * N); dd_vals : list desc; dd_cases : list dcase; dd_icases : list icase }.
Definition ddom_ok (d : ddom) : bool :=
  forallb (dcase_ok (dd_kinds d) (dd_vals d)) (dd_cases d) && forallb (dicase_ok (dd_vals d)) (dd_icases d).
Definition ddom_diag (d : ddom) : list (N * robs desc) * list N :=
  (flat_map (fun it : N * dcase =>
     let t := snd it in
     if dcase_ok (dd_kinds d) (dd_vals d) t then []
     else let '(vid, tbl, fa, r, calls) := t in
          [(fst it, robs_of (translate_desc (f_of tbl fa) (chk_run (dd_kinds d)) (kk_of (dd_kinds d)) (getd (dd_vals d) vid)))])
            (number 0 (dd_cases d)),
   flat_map (fun i : icase => if dicase_ok (dd_vals d) i then [] else [fst (fst (fst i))]) (dd_icases d)).
