(* C20 (extension) — model of key / hash translation and key iteration of the policy types.
   src/policy/concrete.rs, src/policy/semantic.rs:
     translate_pk      loop over `rtl_post_order_iter()`; Key -> t.pk, Sha256 -> t.sha256, Hash256 -> t.hash256,
                       Ripemd160 -> t.ripemd160, Hash160 -> t.hash160 (each with `?`), Older/After/Trivial/Unsatisfiable
                       copied; And: `(0..subs.len()).map(|_| translated.pop().unwrap())`, Or: `subs.iter().map(|(prob, _)|
                       ( *prob, translated.pop().unwrap()))`, Thresh: `thresh.map_ref(|_| translated.pop().unwrap())`;
                       finally `translated.pop().unwrap()`.  The error is the translator's own (no OuterError).
     for_each_key      `self.pre_order_iter().all(|p| match p { Key(pk) => pred(pk), _ => true })`
     keys (concrete)   `self.pre_order_iter().filter_map(Key(pk) => Some(pk))`
     for_any_key       (trait default) `!self.for_each_key(|k| !pred(k))`
   src/iter/tree.rs: PreOrderIter (stack, children pushed in reverse), PostOrderIter<Rtl<T>> (processed flags).
   Policies are `cpol` of Ms/EqOrdPolModel.v (keys are indices, hashes are bytes, Or carries the odds); a semantic policy is
   a `cpol` without QAnd / QOr (`is_semantic`) and its code is literally the concrete code without those two arms.
   A translator is a pair of functions of the CALL INDEX (counted over all five methods) and the key / (hash kind, hash).
   No proofs in this file. *)
From Verif Require Export TranslateModel EqOrdPolModel.

Inductive hkind := HSha256 | HHash256 | HRipemd160 | HHash160.
Inductive atom := AKey (k : key) | AHash (hk : hkind) (h : bytes).

(* ------------------------------------------------------------------ specification side *)
(* the keys / translatable atoms of a policy, in the order of the text form (left to right) *)
Fixpoint keys_of (p : cpol) : list key :=
  match p with
  | QKey k => [k]
  | QAnd l | QThresh _ l => flat_map keys_of l
  | QOr l => flat_map (fun q => keys_of (snd q)) l
  | _ => []
  end.

Fixpoint atoms_of (p : cpol) : list atom :=
  match p with
  | QKey k => [AKey k]
  | QSha256 h => [AHash HSha256 h] | QHash256 h => [AHash HHash256 h]
  | QRipemd160 h => [AHash HRipemd160 h] | QHash160 h => [AHash HHash160 h]
  | QAnd l | QThresh _ l => flat_map atoms_of l
  | QOr l => flat_map (fun q => atoms_of (snd q)) l
  | _ => []
  end.

(* substitution *)
Fixpoint pmap (g : key -> key) (gh : hkind -> bytes -> bytes) (p : cpol) : cpol :=
  match p with
  | QKey k => QKey (g k)
  | QSha256 h => QSha256 (gh HSha256 h) | QHash256 h => QHash256 (gh HHash256 h)
  | QRipemd160 h => QRipemd160 (gh HRipemd160 h) | QHash160 h => QHash160 (gh HHash160 h)
  | QAnd l => QAnd (map (pmap g gh) l)
  | QOr l => QOr (map (fun q => (fst q, pmap g gh (snd q))) l)
  | QThresh k l => QThresh k (map (pmap g gh) l)
  | other => other
  end.

(* the shape: everything but keys and hashes (variants, arities, thresholds, odds, lock values) *)
Definition pshape (p : cpol) : cpol := pmap (fun _ => 0%N) (fun _ _ => []) p.

Fixpoint psize (p : cpol) : nat :=
  S match p with
    | QAnd l | QThresh _ l => fold_right (fun x acc => psize x + acc) 0 l
    | QOr l => fold_right (fun q acc => psize (snd q) + acc) 0 l
    | _ => 0
    end.

(* ------------------------------------------------------------------ the iterators as coded *)
Definition pchildren (p : cpol) : list cpol :=
  match p with QAnd l | QThresh _ l => l | QOr l => map snd l | _ => [] end.

(* PreOrderIter::next: pop; push the children in reverse so that the first child is on top (top = head) *)
Fixpoint ppre_stack (fuel : nat) (stack : list cpol) : option (list cpol) :=
  match stack with
  | [] => Some []
  | p :: rest =>
    match fuel with
    | O => None
    | S fu => option_map (cons p) (ppre_stack fu (pchildren p ++ rest))
    end
  end.

(* PostOrderIter<Rtl<T>>::next *)
Fixpoint prtl_post_stack (fuel : nat) (stack : list (cpol * bool)) : option (list cpol) :=
  match stack with
  | [] => Some []
  | (p, processed) :: rest =>
    match fuel with
    | O => None
    | S fu =>
      if processed then option_map (cons p) (prtl_post_stack fu rest)
      else prtl_post_stack fu (map (fun c => (c, false)) (rev (pchildren p)) ++ (p, true) :: rest)
    end
  end.

Definition pnode_keys (p : cpol) : list key := match p with QKey k => [k] | _ => [] end.

(* Concrete::keys *)
Definition pkeys (p : cpol) (fuel : nat) : option (list key) :=
  option_map (flat_map pnode_keys) (ppre_stack fuel [p]).
(* for_each_key: result and the keys the predicate was called on (`all` stops at the first false) *)
Definition pfor_each_key (pr : key -> bool) (p : cpol) (fuel : nat) : option (bool * list key) :=
  option_map (fun ns => all_log pr (flat_map pnode_keys ns)) (ppre_stack fuel [p]).
Definition pfor_any_key (pr : key -> bool) (p : cpol) (fuel : nat) : option bool :=
  option_map (fun r => negb (fst r)) (pfor_each_key (fun k => negb (pr k)) p fuel).

(* ------------------------------------------------------------------ translation *)
(* right-to-left monadic map threading the call counter (the order in which the children are translated) *)
Definition rtl_mapM {A B} (g : N -> A -> tres (B * N)) : N -> list A -> tres (list B * N) :=
  fix go (n : N) (l : list A) : tres (list B * N) :=
    match l with
    | [] => TOk ([], n)
    | x :: r => tbind (go n r) (fun q => tbind (g (snd q) x) (fun p => TOk (fst p :: fst q, snd p)))
    end.

Definition rev_flat {A B} (g : A -> list B) (l : list A) : list B := fold_right (fun x acc => acc ++ g x) [] l.

(* nodes in the order rtl_post_order_iter yields them *)
Fixpoint prtl_post (p : cpol) : list cpol :=
  match p with
  | QAnd l | QThresh _ l => rev_flat prtl_post l
  | QOr l => rev_flat (fun q => prtl_post (snd q)) l
  | _ => []
  end ++ [p].

(* the order in which the translator is called *)
Fixpoint atoms_rtl (p : cpol) : list atom :=
  match p with
  | QKey k => [AKey k]
  | QSha256 h => [AHash HSha256 h] | QHash256 h => [AHash HHash256 h]
  | QRipemd160 h => [AHash HRipemd160 h] | QHash160 h => [AHash HHash160 h]
  | QAnd l | QThresh _ l => rev_flat atoms_rtl l
  | QOr l => rev_flat (fun q => atoms_rtl (snd q)) l
  | _ => []
  end.

Section PTranslate.
  Variable f : N -> key -> option key.                  (* Translator::pk *)
  Variable fh : N -> hkind -> bytes -> option bytes.    (* Translator::sha256 / hash256 / ripemd160 / hash160 *)

  Definition call_k (n : N) (k : key) : tres (cpol * N) :=
    match f n k with None => TErr (TranslatorErr n) | Some k' => TOk (QKey k', (n + 1)%N) end.
  Definition call_h (c : bytes -> cpol) (hk : hkind) (n : N) (h : bytes) : tres (cpol * N) :=
    match fh n hk h with None => TErr (TranslatorErr n) | Some h' => TOk (c h', (n + 1)%N) end.

  (* the obvious recursive translation (children right to left: the first error is observable) *)
  Fixpoint ptr_rec (n : N) (p : cpol) : tres (cpol * N) :=
    match p with
    | QKey k => call_k n k
    | QSha256 h => call_h QSha256 HSha256 n h | QHash256 h => call_h QHash256 HHash256 n h
    | QRipemd160 h => call_h QRipemd160 HRipemd160 n h | QHash160 h => call_h QHash160 HHash160 n h
    | QAnd l => tbind (rtl_mapM ptr_rec n l) (fun q => TOk (QAnd (fst q), snd q))
    | QOr l => tbind (rtl_mapM (fun n q => tbind (ptr_rec n (snd q)) (fun r => TOk ((fst q, fst r), snd r))) n l)
                     (fun q => TOk (QOr (fst q), snd q))
    | QThresh k l => tbind (rtl_mapM ptr_rec n l) (fun q => TOk (QThresh k (fst q), snd q))
    | leaf => TOk (leaf, n)
    end.
  Definition ptranslate (p : cpol) : tres cpol := tbind (ptr_rec 0 p) (fun r => TOk (fst r)).

  (* ---- the algorithm as coded *)
  Definition ppop (st : list cpol) : tres (cpol * list cpol) :=
    match st with [] => TPanic 1 | x :: r => TOk (x, r) end.
  Fixpoint ppopn (n : nat) (st : list cpol) : tres (list cpol * list cpol) :=
    match n with
    | O => TOk ([], st)
    | S n' => tbind (ppop st) (fun p => tbind (ppopn n' (snd p)) (fun q => TOk (fst p :: fst q, snd q)))
    end.

  Definition pstep (st : list cpol * N) (node : cpol) : tres (list cpol * N) :=
    let '(stk, n) := st in
    let push (r : tres (cpol * N)) := tbind r (fun p => TOk (fst p :: stk, snd p)) in
    match node with
    | QKey k => push (call_k n k)
    | QSha256 h => push (call_h QSha256 HSha256 n h) | QHash256 h => push (call_h QHash256 HHash256 n h)
    | QRipemd160 h => push (call_h QRipemd160 HRipemd160 n h) | QHash160 h => push (call_h QHash160 HHash160 n h)
    | QAnd l => tbind (ppopn (length l) stk) (fun p => TOk (QAnd (fst p) :: snd p, n))
    | QOr l => tbind (ppopn (length l) stk) (fun p => TOk (QOr (combine (map fst l) (fst p)) :: snd p, n))
    | QThresh k l => tbind (ppopn (length l) stk) (fun p => TOk (QThresh k (fst p) :: snd p, n))
    | leaf => TOk (leaf :: stk, n)
    end.

  Fixpoint prun_steps (st : list cpol * N) (nodes : list cpol) : tres (list cpol * N) :=
    match nodes with
    | [] => TOk st
    | x :: r => tbind (pstep st x) (fun st' => prun_steps st' r)
    end.

  Definition ptranslate_iter (p : cpol) : tres cpol :=
    tbind (prun_steps ([], 0%N) (prtl_post p)) (fun st => tbind (ppop (fst st)) (fun r => TOk (fst r))).
End PTranslate.

(* pure maps *)
Definition total_h (fhp : hkind -> bytes -> option bytes) (hk : hkind) (h : bytes) : bytes :=
  match fhp hk h with Some h' => h' | None => h end.
Definition total_k (fp : key -> option key) (k : key) : key := match fp k with Some k' => k' | None => k end.
Definition atom_ok (fp : key -> option key) (fhp : hkind -> bytes -> option bytes) (a : atom) : bool :=
  match a with
  | AKey k => match fp k with Some _ => true | None => false end
  | AHash hk h => match fhp hk h with Some _ => true | None => false end
  end.
Definition comp_h (fhp ghp : hkind -> bytes -> option bytes) (hk : hkind) (h : bytes) : option bytes :=
  match fhp hk h with Some h' => ghp hk h' | None => None end.
Definition comp_k (fp gp : key -> option key) (k : key) : option key :=
  match fp k with Some k' => gp k' | None => None end.
Definition amap (g : key -> key) (gh : hkind -> bytes -> bytes) (a : atom) : atom :=
  match a with AKey k => AKey (g k) | AHash hk h => AHash hk (gh hk h) end.
Definition akeys (l : list atom) : list key := flat_map (fun a => match a with AKey k => [k] | _ => [] end) l.
