(* Model of the transaction interpreter's evaluator: src/interpreter/mod.rs (Iter::iter_next,
   the NodeEvaluationState work-list, the final-stack rule, the Inner::PublicKey case) and
   src/interpreter/stack.rs (abstract stack, evaluate_* helpers).  No proofs here.

   Two forms (DESIGN 3.1): [irun] is the faithful iterative form (explicit work-list, one
   model step per iteration of `while let Some(node_state) = self.state.pop()`, explicit fuel,
   panic sites as outcomes); [ieval] is the obvious recursive form.  Proofs/InterpRefine.v
   relates them; the properties are proved about [ieval]; the correspondence run exercises
   [irun].

   Signature verification and hashing are parameters: the [env] record of Script/Exec.v
   ([e_sigok key sig] stands for `verify_sersig`: parse the signature for the key's type --
   since fix b1ce3b38 a 65-byte Schnorr signature ending in 0x00 is refused -- and call the
   verification closure).  [kp] stands for `bitcoin_key_from_slice` (parsing a
   pushed public key for the spend's signature type) in evaluate_pkh. *)
From Verif Require Export Ast ExecTrace.
Local Open Scope N_scope.

(* stack::Element *)
Inductive elem := ESat | EDis | EPush (b : bytes).
Definition astack := list elem.              (* head = top *)

(* impl From<&[u8]> for Element: [1] -> Satisfied, [] -> Dissatisfied, else Push *)
Definition elem_of (b : bytes) : elem :=
  match b with
  | [] => EDis
  | [x] => if N.eqb x 1 then ESat else EPush b
  | _ => EPush b
  end.
Definition conc (x : elem) : bytes :=
  match x with ESat => [1] | EDis => [] | EPush b => b end.

(* SatisfiedConstraint *)
Inductive constr :=
| CsPk (k s : bytes)                 (* PublicKey { key_sig }: key bytes, signature bytes *)
| CsPkh (h k s : bytes)              (* PublicKeyHash { keyhash, key_sig } *)
| CsHash (kd : ihk) (h p : bytes)    (* HashLock { hash, preimage } *)
| CsOlder (n : N)                    (* RelativeTimelock; [n] = the script's operand, see [rel_norm] *)
| CsAfter (n : N).                   (* AbsoluteTimelock *)

(* RelativeTimelock { n: relative::LockTime }: the Older arm converts the script's RelLockTime with
   `n.into()` (after a deref); a relative::LockTime keeps the type flag (bit 22) and the low 16 bits only, the
   bits BIP68 / CSV ignore (16..21, 23..30) are dropped.  The model's [CsOlder n] keeps the operand
   itself and stands for the lock [rel_norm n] the implementation reports: the tie (driver, in-Coq
   sample) and the oracle compare relative locks through [rel_norm].  Proofs/InterpGenuine.v:
   [rel_norm_equiv], both denote the same CSV condition. *)
Definition rel_norm (n : N) : N := N.land n 4259839.      (* SEQ_TYPE lor SEQ_MASK = 0x40ffff *)

(* interpreter::Error, by class *)
Inductive ierr :=
| EStackEnd | EElemPush | EStackBool | EVerifyFailed
| EPkEval | ESig | EPkHashFail | EPubkeyParse | EPreimageLen
| EAbsNotMet | EAbsInvalid | ERelNotMet | ERelDisabled
| EMultiInsufficient | EMultiMissingZero | EMultiEval
| ECouldNotEvaluate | EScriptSat.

Definition hash_of (e : env) (kd : ihk) : bytes -> bytes :=
  match kd with
  | KSha256 => e_sha256 e | KHash256 => e_hash256 e
  | KRipemd160 => e_ripemd160 e | KHash160 => e_hash160 e
  end.

(* result of an evaluate_* helper: Option<Result<SatisfiedConstraint, Error>> + the stack *)
Inductive evres := EvNone (st : astack) | EvOk (st : astack) (c : constr) | EvErr (e : ierr).

(* Stack::evaluate_pk *)
Definition evaluate_pk (e : env) (k : bytes) (st : astack) : evres :=
  match st with
  | [] => EvErr EStackEnd
  | EDis :: r => EvNone (EDis :: r)
  | EPush s :: r => if e_sigok e k s then EvOk (ESat :: r) (CsPk k s) else EvErr ESig
  | ESat :: _ => EvErr EPkEval
  end.

(* Stack::evaluate_pkh *)
Definition evaluate_pkh (e : env) (kp : bytes -> bool) (h : bytes) (st : astack) : evres :=
  match st with
  | EPush pk :: r =>
    if negb (bytes_eqb (e_hash160 e pk) h) then EvErr EPkHashFail
    else if negb (kp pk) then EvErr EPubkeyParse
    else match r with
         | [] => EvErr EStackEnd
         | EDis :: r' => EvNone (EDis :: r')
         | EPush s :: r' => if e_sigok e pk s then EvOk (ESat :: r') (CsPkh h pk s) else EvErr ESig
         | ESat :: _ => EvErr EPkEval
         end
  | _ => EvErr EStackEnd
  end.

(* Stack::evaluate_after (after fix 1fe09c47): BIP65 -- fails when the input is final
   (`!sequence.enables_absolute_lock_time()`), tested first; then the absolute::LockTime
   comparison, units must agree. *)
Definition evaluate_after (e : env) (t : N) (st : astack) : evres :=
  if e_sequence e =? SEQ_FINAL then EvErr EAbsNotMet
  else if Bool.eqb (t <? LOCKTIME_THRESHOLD) (e_locktime e <? LOCKTIME_THRESHOLD)
  then if t <=? e_locktime e then EvOk (ESat :: st) (CsAfter t) else EvErr EAbsNotMet
  else EvErr EAbsInvalid.

(* The Older arm of iter_next (after fix 9d1ff3e4): `if !self.csv_enabled` -- the spending
   transaction's version, as an unsigned number, is below 2 (BIP112; only Interpreter::iter sees
   the transaction, iter_custom / iter_assume_sigs assume version >= 2) -- then
   Stack::evaluate_older: Sequence::to_relative_lock_time + relative::LockTime::is_implied_by. *)
Definition evaluate_older (e : env) (t : N) (st : astack) : evres :=
  let s := e_sequence e in
  if e_txversion e <? 2 then EvErr ERelDisabled
  else if negb (N.land s SEQ_DISABLE =? 0) then EvErr ERelDisabled
  else if (N.land t SEQ_TYPE =? N.land s SEQ_TYPE) && (N.land t SEQ_MASK <=? N.land s SEQ_MASK)
       then EvOk (ESat :: st) (CsOlder t) else EvErr ERelNotMet.

(* Stack::evaluate_sha256 / hash256 / hash160 / ripemd160 *)
Definition evaluate_hash (e : env) (kd : ihk) (h : bytes) (st : astack) : evres :=
  match st with
  | EPush p :: r =>
    if negb (blen p =? 32) then EvErr EPreimageLen
    else if bytes_eqb (hash_of e kd p) h then EvOk (ESat :: r) (CsHash kd h p)
    else EvNone (EDis :: r)
  | _ => EvErr EStackEnd
  end.

(* Stack::evaluate_multi *)
Definition evaluate_multi (e : env) (k : bytes) (st : astack) : evres :=
  match st with
  | [] => EvErr EStackEnd
  | EPush s :: r => if e_sigok e k s then EvOk r (CsPk k s) else EvNone (EPush s :: r)
  | _ :: _ => EvErr EStackBool
  end.

Definition is_dis (x : elem) : bool := match x with EDis => true | _ => false end.
Definition is_sat (x : elem) : bool := match x with ESat => true | _ => false end.

(* ------------------------------------------------------------------ iterative form *)
Record item := mkItem { it_node : ms; it_ne : N; it_ns : N }.      (* NodeEvaluationState *)
Definition it0 (m : ms) : item := mkItem m 0 0.

Inductive stepres :=
| SCont (work : list item) (st : astack) (c : option constr)
| SErr (e : ierr)
| SPanic (site : N).

Definition of_ev (work : list item) (r : evres) : stepres :=
  match r with
  | EvNone st => SCont work st None
  | EvOk st c => SCont work st (Some c)
  | EvErr e => SErr e
  end.

(* multi / sortedmulti, first visit (n_evaluated == 0) *)
Definition multi_first (e : env) (ke : keyenv) (it : item) (k : N) (ks : list key)
           (work : list item) (st : astack) : stepres :=
  let len := N.of_nat (length st) in
  if len <? k + 1 then SErr EMultiInsufficient
  else match st with
       | EDis :: _ =>
         (* split_off(len - (k+1)): the top k+1 elements; all must be Dissatisfied *)
         let top := firstn (N.to_nat (k + 1)) st in
         if forallb is_dis top then SCont work (EDis :: skipn (N.to_nat (k + 1)) st) None
         else SErr EMultiMissingZero
       | [] => SErr EStackEnd
       | _ =>
         match rev ks with                                   (* thresh.data()[thresh.n() - 1] *)
         | [] => SPanic 1
         | key :: _ =>
           match evaluate_multi e (kb ke key) st with
           | EvOk st' c => SCont (mkItem (it_node it) (it_ne it + 1) (it_ns it + 1) :: work) st' (Some c)
           | EvNone st' => SCont (mkItem (it_node it) (it_ne it + 1) (it_ns it) :: work) st' None
           | EvErr er => SErr er
           end
         end
       end.

(* multi / sortedmulti, later visits *)
Definition multi_next (e : env) (ke : keyenv) (it : item) (k : N) (ks : list key)
           (work : list item) (st : astack) : stepres :=
  let n := N.of_nat (length ks) in
  if it_ns it =? k then
    match st with
    | EDis :: r => SCont work (ESat :: r) None
    | _ => SErr EMultiMissingZero
    end
  else if it_ne it =? n then SErr EMultiEval
  else if n <? it_ne it + 1 then SPanic 2              (* thresh.n() - n_evaluated - 1 underflows *)
  else match nth_error ks (N.to_nat (n - it_ne it - 1)) with
       | None => SPanic 3
       | Some key =>
         match evaluate_multi e (kb ke key) st with
         | EvOk st' c => SCont (mkItem (it_node it) (it_ne it + 1) (it_ns it + 1) :: work) st' (Some c)
         | EvNone st' => SCont (mkItem (it_node it) (it_ne it + 1) (it_ns it) :: work) st' None
         | EvErr er => SErr er
         end
       end.

(* multi_a / sortedmulti_a *)
Definition multi_a_step (e : env) (ke : keyenv) (it : item) (k : N) (ks : list key)
           (work : list item) (st : astack) : stepres :=
  let n := N.of_nat (length ks) in
  if it_ne it =? n then SCont work ((if it_ns it =? k then ESat else EDis) :: st) None
  else match nth_error ks (N.to_nat (it_ne it)) with
       | None => SPanic 4
       | Some key =>
         match evaluate_pk e (kb ke key) st with
         | EvOk st' c =>
           match st' with
           | _ :: r => SCont (mkItem (it_node it) (it_ne it + 1) (it_ns it + 1) :: work) r (Some c)
           | [] => SErr EStackEnd
           end
         | EvNone st' =>
           match st' with
           | _ :: r => SCont (mkItem (it_node it) (it_ne it + 1) (it_ns it) :: work) r None
           | [] => SErr EStackEnd
           end
         | EvErr er => SErr er
         end
       end.

(* One iteration of the loop in Iter::iter_next: the popped state [it], the remaining
   work-list [work] (head = top) and the stack. Arms in the order of the Rust match. *)
Definition step (e : env) (ke : keyenv) (kp : bytes -> bool) (it : item)
           (work : list item) (st : astack) : stepres :=
  let ne := it_ne it in let ns := it_ns it in let self := it_node it in
  match self with
  | MTrue => SCont work (ESat :: st) None
  | MFalse => SCont work (EDis :: st) None
  | MPkK k => of_ev work (evaluate_pk e (kb ke k) st)
  | MPkH k => of_ev work (evaluate_pkh e kp (kh ke k) st)
  | MRawPkH h => of_ev work (evaluate_pkh e kp h st)
  | MAfter t => of_ev work (evaluate_after e t st)
  | MOlder t =>
    if negb (N.land t SEQ_DISABLE =? 0) then SPanic 5     (* RelLockTime -> relative::LockTime unwrap *)
    else of_ev work (evaluate_older e t st)
  | MSha256 h => of_ev work (evaluate_hash e KSha256 h st)
  | MHash256 h => of_ev work (evaluate_hash e KHash256 h st)
  | MHash160 h => of_ev work (evaluate_hash e KHash160 h st)
  | MRipemd160 h => of_ev work (evaluate_hash e KRipemd160 h st)
  | MAlt x | MSwap x | MCheck x => SCont (it0 x :: work) st None
  | MDupIf x =>
    if ne =? 0 then
      match st with
      | EDis :: r => SCont work (EDis :: r) None
      | ESat :: r => SCont (it0 x :: mkItem self 1 1 :: work) r None
      | EPush _ :: _ => SErr EElemPush
      | [] => SErr EStackEnd
      end
    else if ne =? 1 then SCont work (ESat :: st) None
    else SErr ECouldNotEvaluate
  | MVerify x =>
    if ne =? 0 then SCont (it0 x :: mkItem self 1 0 :: work) st None
    else if ne =? 1 then
      match st with
      | ESat :: r => SCont work r None
      | _ :: _ => SErr EVerifyFailed
      | [] => SErr EStackEnd
      end
    else SErr ECouldNotEvaluate
  | MZeroNotEqual x =>
    if ne =? 0 then SCont (it0 x :: mkItem self 1 0 :: work) st None
    else if ne =? 1 then
      match st with
      | EDis :: r => SCont work (EDis :: r) None
      | _ :: r => SCont work (ESat :: r) None
      | [] => SErr EStackEnd
      end
    else SErr ECouldNotEvaluate
  | MNonZero x =>
    match st with
    | EDis :: _ => SCont work st None
    | _ :: _ => SCont (it0 x :: work) st None
    | [] => SErr EStackEnd
    end
  | MAndV l r => SCont (it0 l :: it0 r :: work) st None
  | MAndB l r =>
    if ne =? 0 then SCont (it0 l :: mkItem self 1 0 :: work) st None
    else if ne =? 1 then
      match st with
      | EDis :: s => SCont (it0 r :: mkItem self 2 0 :: work) s None
      | ESat :: s => SCont (it0 r :: mkItem self 2 1 :: work) s None
      | EPush _ :: _ => SErr EElemPush
      | [] => SErr EStackEnd
      end
    else if ne =? 2 then
      match st with
      | x :: s => SCont work ((if is_sat x && (ns =? 1) then ESat else EDis) :: s) None
      | [] => SErr EStackEnd
      end
    else SErr ECouldNotEvaluate
  | MOrB l r =>
    if ne =? 0 then SCont (it0 l :: mkItem self 1 0 :: work) st None
    else if ne =? 1 then
      match st with
      | EDis :: s => SCont (it0 r :: mkItem self 2 0 :: work) s None
      | ESat :: s => SCont (it0 r :: mkItem self 2 1 :: work) s None
      | EPush _ :: _ => SErr EElemPush
      | [] => SErr EStackEnd
      end
    else if ne =? 2 then
      match st with
      | x :: s => SCont work ((if is_dis x && (ns =? 0) then EDis else ESat) :: s) None
      | [] => SErr EStackEnd
      end
    else SErr ECouldNotEvaluate
  | MOrC l r =>
    if ne =? 0 then SCont (it0 l :: mkItem self 1 0 :: work) st None
    else if ne =? 1 then
      match st with
      | ESat :: s => SCont work s None
      | EDis :: s => SCont (it0 r :: work) s None
      | EPush _ :: _ => SErr EElemPush
      | [] => SErr EStackEnd
      end
    else SErr ECouldNotEvaluate
  | MOrD l r =>
    if ne =? 0 then SCont (it0 l :: mkItem self 1 0 :: work) st None
    else if ne =? 1 then
      match st with
      | ESat :: s => SCont work (ESat :: s) None
      | EDis :: s => SCont (it0 r :: work) s None
      | EPush _ :: _ => SErr EElemPush
      | [] => SErr EStackEnd
      end
    else SErr ECouldNotEvaluate
  | MAndOr a b c =>
    if ne =? 0 then SCont (it0 a :: mkItem self 1 0 :: work) st None
    else
      match st with
      | ESat :: s => SCont (it0 b :: work) s None
      | EDis :: s => SCont (it0 c :: work) s None
      | EPush _ :: _ => SErr EElemPush
      | [] => SErr EStackEnd
      end
  | MOrI l r =>
    match st with
    | ESat :: s => SCont (it0 l :: work) s None
    | EDis :: s => SCont (it0 r :: work) s None
    | EPush _ :: _ => SErr EElemPush
    | [] => SErr EStackEnd
    end
  | MThresh k xs =>
    let n := N.of_nat (length xs) in
    if ne =? 0 then
      match xs with
      | [] => SPanic 6                                     (* thresh.data()[0] *)
      | x0 :: _ => SCont (it0 x0 :: mkItem self 1 0 :: work) st None
      end
    else if ne =? n then
      match st with
      | EDis :: s => SCont work ((if ns =? k then ESat else EDis) :: s) None
      | ESat :: s =>
        if k =? 0 then SPanic 7                            (* thresh.k() - 1 *)
        else SCont work ((if ns =? k - 1 then ESat else EDis) :: s) None
      | EPush _ :: _ => SErr EElemPush
      | [] => SErr EStackEnd
      end
    else
      match st with
      | EDis :: s =>
        match nth_error xs (N.to_nat ne) with
        | Some x => SCont (it0 x :: mkItem self (ne + 1) ns :: work) s None
        | None => SPanic 8
        end
      | ESat :: s =>
        match nth_error xs (N.to_nat ne) with
        | Some x => SCont (it0 x :: mkItem self (ne + 1) (ns + 1) :: work) s None
        | None => SPanic 8
        end
      | EPush _ :: _ => SErr EElemPush
      | [] => SErr EStackEnd
      end
  | MMultiA k ks | MSortedMultiA k ks => multi_a_step e ke it k ks work st
  | MMulti k ks | MSortedMulti k ks =>
    if ne =? 0 then multi_first e ke it k ks work st else multi_next e ke it k ks work st
  end.

Inductive ioutcome :=
| IAccept (cs : list constr)
| IReject (er : ierr) (cs : list constr)      (* constraints yielded before the error *)
| IPanicked (site : N)
| INoFuel.

(* the final-stack rule: exactly one element, Satisfied *)
Definition final_rule (st : astack) (acc : list constr) : ioutcome :=
  match st with
  | [ESat] => IAccept acc
  | _ => IReject EScriptSat acc
  end.

Fixpoint irun (e : env) (ke : keyenv) (kp : bytes -> bool) (fuel : nat)
         (work : list item) (st : astack) (acc : list constr) : ioutcome :=
  match fuel with
  | O => INoFuel
  | S f =>
    match work with
    | [] => final_rule st acc
    | it :: w =>
      match step e ke kp it w st with
      | SCont w' st' None => irun e ke kp f w' st' acc
      | SCont w' st' (Some c) => irun e ke kp f w' st' (acc ++ [c])
      | SErr er => IReject er acc
      | SPanic s => IPanicked s
      end
    end
  end.

(* number of loop iterations a node can need (fuel bound used by [interp]) *)
Fixpoint steps (m : ms) : nat :=
  match m with
  | MTrue | MFalse | MPkK _ | MPkH _ | MRawPkH _ | MAfter _ | MOlder _
  | MSha256 _ | MHash256 _ | MRipemd160 _ | MHash160 _ => 1%nat
  | MAlt x | MSwap x | MCheck x | MNonZero x => (1 + steps x)%nat
  | MDupIf x | MVerify x | MZeroNotEqual x => (2 + steps x)%nat
  | MAndV x y => (1 + steps x + steps y)%nat
  | MAndB x y | MOrB x y => (3 + steps x + steps y)%nat
  | MOrC x y | MOrD x y => (2 + steps x + steps y)%nat
  | MOrI x y => (1 + steps x + steps y)%nat
  | MAndOr a b c => (2 + steps a + steps b + steps c)%nat
  | MThresh _ xs => (1 + (fix go (l : list ms) : nat := match l with [] => 0 | x :: r => 1 + steps x + go r end) xs)%nat
  | MMulti _ ks | MSortedMulti _ ks | MMultiA _ ks | MSortedMultiA _ ks => (2 + length ks)%nat
  end.

(* Iter over Inner::Script(ms, _): the satisfied constraints in order, or the error *)
Definition interp (e : env) (ke : keyenv) (kp : bytes -> bool) (m : ms) (st : astack) : ioutcome :=
  irun e ke kp (S (steps m)) [it0 m] st [].

(* Iter over Inner::PublicKey(pk, _) (p2pk, p2pkh, p2wpkh, sh(wpkh), taproot key spend):
   empty work-list; pop a Push, verify, push Satisfied; then the final-stack rule *)
Definition interp_pk (e : env) (k : bytes) (st : astack) : ioutcome :=
  match st with
  | EPush s :: r =>
    if e_sigok e k s then final_rule (ESat :: r) [CsPk k s] else IReject EPkEval []
  | _ => IReject EStackEnd []
  end.

(* ------------------------------------------------------------------ recursive form *)
Inductive xres :=
| XOk (st : astack) (cs : list constr)
| XErr (er : ierr) (cs : list constr)
| XPanic (site : N).

Definition xbind (r : xres) (f : astack -> xres) : xres :=
  match r with
  | XOk st cs =>
    match f st with
    | XOk st' cs' => XOk st' (cs ++ cs')
    | XErr er cs' => XErr er (cs ++ cs')
    | XPanic s => XPanic s
    end
  | XErr er cs => XErr er cs
  | XPanic s => XPanic s
  end.

Definition x_of_ev (r : evres) : xres :=
  match r with
  | EvNone st => XOk st []
  | EvOk st c => XOk st [c]
  | EvErr er => XErr er []
  end.

(* pop a boolean result: continue with [fs]/[fd] on Satisfied/Dissatisfied *)
Definition xpop_bool (st : astack) (fs fd : astack -> xres) : xres :=
  match st with
  | ESat :: r => fs r
  | EDis :: r => fd r
  | EPush _ :: _ => XErr EElemPush []
  | [] => XErr EStackEnd []
  end.

(* multi: the keys still to try, last key of the script first *)
Fixpoint multi_loop (e : env) (ke : keyenv) (k : N) (l : list key) (ns : N) (st : astack) : xres :=
  if ns =? k then
    match st with
    | EDis :: r => XOk (ESat :: r) []
    | _ => XErr EMultiMissingZero []
    end
  else
    match l with
    | [] => XErr EMultiEval []
    | key :: l' =>
      match evaluate_multi e (kb ke key) st with
      | EvOk st' c => xbind (XOk st' [c]) (multi_loop e ke k l' (ns + 1))
      | EvNone st' => multi_loop e ke k l' ns st'
      | EvErr er => XErr er []
      end
    end.

Definition multi_eval (e : env) (ke : keyenv) (k : N) (ks : list key) (st : astack) : xres :=
  if N.of_nat (length st) <? k + 1 then XErr EMultiInsufficient []
  else match st with
       | EDis :: _ =>
         if forallb is_dis (firstn (N.to_nat (k + 1)) st)
         then XOk (EDis :: skipn (N.to_nat (k + 1)) st) []
         else XErr EMultiMissingZero []
       | [] => XErr EStackEnd []
       | _ =>
         match rev ks with
         | [] => XPanic 1
         | key :: l' =>
           match evaluate_multi e (kb ke key) st with
           | EvOk st' c => xbind (XOk st' [c]) (multi_loop e ke k l' 1)
           | EvNone st' => multi_loop e ke k l' 0 st'
           | EvErr er => XErr er []
           end
         end
       end.

Fixpoint multi_a_loop (e : env) (ke : keyenv) (k : N) (l : list key) (ns : N) (st : astack) : xres :=
  match l with
  | [] => XOk ((if ns =? k then ESat else EDis) :: st) []
  | key :: l' =>
    match evaluate_pk e (kb ke key) st with
    | EvOk (_ :: r) c => xbind (XOk r [c]) (multi_a_loop e ke k l' (ns + 1))
    | EvNone (_ :: r) => multi_a_loop e ke k l' ns r
    | EvOk [] _ | EvNone [] => XErr EStackEnd []
    | EvErr er => XErr er []
    end
  end.

Fixpoint ieval (e : env) (ke : keyenv) (kp : bytes -> bool) (m : ms) (st : astack) {struct m} : xres :=
  match m with
  | MTrue => XOk (ESat :: st) []
  | MFalse => XOk (EDis :: st) []
  | MPkK k => x_of_ev (evaluate_pk e (kb ke k) st)
  | MPkH k => x_of_ev (evaluate_pkh e kp (kh ke k) st)
  | MRawPkH h => x_of_ev (evaluate_pkh e kp h st)
  | MAfter t => x_of_ev (evaluate_after e t st)
  | MOlder t => if negb (N.land t SEQ_DISABLE =? 0) then XPanic 5 else x_of_ev (evaluate_older e t st)
  | MSha256 h => x_of_ev (evaluate_hash e KSha256 h st)
  | MHash256 h => x_of_ev (evaluate_hash e KHash256 h st)
  | MHash160 h => x_of_ev (evaluate_hash e KHash160 h st)
  | MRipemd160 h => x_of_ev (evaluate_hash e KRipemd160 h st)
  | MAlt x | MSwap x | MCheck x => ieval e ke kp x st
  | MDupIf x =>
    xpop_bool st (fun r => xbind (ieval e ke kp x r) (fun s => XOk (ESat :: s) []))
                 (fun r => XOk (EDis :: r) [])
  | MVerify x =>
    xbind (ieval e ke kp x st)
          (fun s => match s with
                    | ESat :: r => XOk r []
                    | _ :: _ => XErr EVerifyFailed []
                    | [] => XErr EStackEnd []
                    end)
  | MZeroNotEqual x =>
    xbind (ieval e ke kp x st)
          (fun s => match s with
                    | EDis :: r => XOk (EDis :: r) []
                    | _ :: r => XOk (ESat :: r) []
                    | [] => XErr EStackEnd []
                    end)
  | MNonZero x =>
    match st with
    | EDis :: _ => XOk st []
    | _ :: _ => ieval e ke kp x st
    | [] => XErr EStackEnd []
    end
  | MAndV l r => xbind (ieval e ke kp l st) (ieval e ke kp r)
  | MAndB l r =>
    xbind (ieval e ke kp l st) (fun s1 =>
      xpop_bool s1
        (fun r1 => xbind (ieval e ke kp r r1) (fun s2 =>
           match s2 with
           | x :: r2 => XOk ((if is_sat x then ESat else EDis) :: r2) []
           | [] => XErr EStackEnd []
           end))
        (fun r1 => xbind (ieval e ke kp r r1) (fun s2 =>
           match s2 with
           | _ :: r2 => XOk (EDis :: r2) []
           | [] => XErr EStackEnd []
           end)))
  | MOrB l r =>
    xbind (ieval e ke kp l st) (fun s1 =>
      xpop_bool s1
        (fun r1 => xbind (ieval e ke kp r r1) (fun s2 =>
           match s2 with
           | _ :: r2 => XOk (ESat :: r2) []
           | [] => XErr EStackEnd []
           end))
        (fun r1 => xbind (ieval e ke kp r r1) (fun s2 =>
           match s2 with
           | x :: r2 => XOk ((if is_dis x then EDis else ESat) :: r2) []
           | [] => XErr EStackEnd []
           end)))
  | MOrC l r =>
    xbind (ieval e ke kp l st) (fun s1 => xpop_bool s1 (fun r1 => XOk r1 []) (ieval e ke kp r))
  | MOrD l r =>
    xbind (ieval e ke kp l st) (fun s1 => xpop_bool s1 (fun r1 => XOk (ESat :: r1) []) (ieval e ke kp r))
  | MAndOr a b c =>
    xbind (ieval e ke kp a st) (fun s1 => xpop_bool s1 (ieval e ke kp b) (ieval e ke kp c))
  | MOrI l r => xpop_bool st (ieval e ke kp l) (ieval e ke kp r)
  | MThresh k xs =>
    match xs with
    | [] => XPanic 6
    | x0 :: rest =>
      xbind (ieval e ke kp x0 st)
        ((fix loop (l : list ms) (ns : N) (s : astack) {struct l} : xres :=
            match l with
            | [] =>
              match s with
              | EDis :: r => XOk ((if ns =? k then ESat else EDis) :: r) []
              | ESat :: r => if k =? 0 then XPanic 7 else XOk ((if ns =? k - 1 then ESat else EDis) :: r) []
              | EPush _ :: _ => XErr EElemPush []
              | [] => XErr EStackEnd []
              end
            | x :: l' =>
              xpop_bool s (fun r => xbind (ieval e ke kp x r) (loop l' (ns + 1)))
                          (fun r => xbind (ieval e ke kp x r) (loop l' ns))
            end) rest 0)
    end
  | MMultiA k ks | MSortedMultiA k ks => multi_a_loop e ke k ks 0 st
  | MMulti k ks | MSortedMulti k ks => multi_eval e ke k ks st
  end.

Definition interp_rec (e : env) (ke : keyenv) (kp : bytes -> bool) (m : ms) (st : astack) : ioutcome :=
  match ieval e ke kp m st with
  | XOk st' cs => final_rule st' cs
  | XErr er cs => IReject er cs
  | XPanic s => IPanicked s
  end.

(* the stack the interpreter builds from witness items (first item = bottom) *)
Definition astack_of_items (items : list bytes) : astack := rev (map elem_of items).
