(* C19 — executable glue for the per-run comparison of the implementation's observations with the
   model (used by the generated Tables/EqOrdCasesGen.v and the static Tables/EqOrdCases{Check,Diag}.v).
   Also the concrete layer of the hash model: how the abstract words reach a `Hasher`
   (std's `Hash` impls for isize/usize/u32/[u8]/Vec, bitcoin's derived `Hash` for LockTime/Sequence).
   No proofs in this file. *)
From Verif Require Export EqOrdModel.

(* one call on the Hasher, as recorded by the harness's recording Hasher *)
Inductive rawword :=
| RI (n : N)        (* write_isize *)
| RU (n : N)        (* write_usize *)
| RW (n : N)        (* write_u32 *)
| RB (h : bytes)    (* write(&[u8]) *)
| RK (k : key)      (* the calls made by the key's own Hash impl (opaque) *)
| RC (n : N).       (* write_u8 (the depth of a tap leaf) *)

Definition raw_of_hword (w : hword) : list rawword :=
  match w with
  | HDisc t => [RI (tag_idx t)]
  | HKey k => [RK k]
  | HBytes h => [RU (nlen h); RB h]                              (* [u8; N] hashes as a slice: length prefix, bytes *)
  | HAbs t => [RI (if N.ltb t 500000000 then 0 else 1); RW t]   (* enum LockTime { Blocks(Height), Seconds(Time) } *)
  | HRel t => [RW t]                                             (* struct Sequence(u32) *)
  | HUsize n => [RU n]
  end%N.

Definition hash_raw (m : ms) : list rawword := flat_map raw_of_hword (hash_iter m).

Definition rawword_eqb (a b : rawword) : bool :=
  match a, b with
  | RI x, RI y | RU x, RU y | RW x, RW y | RK x, RK y | RC x, RC y => N.eqb x y
  | RB x, RB y => bytes_eqb x y
  | _, _ => false
  end.
Fixpoint raws_eqb (a b : list rawword) : bool :=
  match a, b with
  | [], [] => true
  | x :: r, y :: s => rawword_eqb x y && raws_eqb r s
  | _, _ => false
  end.

(* observation codes shared with tools/props/c19.py *)
Definition cmp_code (o : outcome comparison) : N :=
  match o with Ok Lt => 0 | Ok Eq => 1 | Ok Gt => 2 | Panic _ => 3 end%N.
Definition b2n (b : bool) : N := if b then 1%N else 0%N.

Definition kcmp_of (ranks : list N) (a b : key) : comparison :=
  N.compare (nth (N.to_nat a) ranks 0%N) (nth (N.to_nat b) ranks 0%N).

(* (==, cmp, hash streams equal) of the model *)
Definition obs_model (ranks : list N) (a b : ms) : N * N * N :=
  (b2n (eq_iter a b), cmp_code (cmp_iter (kcmp_of ranks) a b), b2n (raws_eqb (hash_raw a) (hash_raw b))).

Definition obs_eqb (x y : N * N * N) : bool :=
  let '(a, b, c) := x in let '(a', b', c') := y in N.eqb a a' && N.eqb b b' && N.eqb c c'.

(* a pair case: (i, j, (impl ==, impl cmp, impl hash streams equal)) *)
Definition pcase := (N * N * (N * N * N))%type.

Definition getv (vals : list ms) (i : N) : ms := nth (N.to_nat i) vals MFalse.

Definition pair_ok (ranks : list N) (vals : list ms) (c : pcase) : bool :=
  let '(i, j, o) := c in
  obs_eqb (obs_model ranks (getv vals i) (getv vals j)) o.

(* the table of values is duplicate-free by construction (the harness dedups on the dump):
   the model's structural equality must agree, otherwise the dump -> term conversion is broken *)
Definition pair_spec_ok (vals : list ms) (c : pcase) : bool :=
  let '(i, j, _) := c in Bool.eqb (ms_eqb (getv vals i) (getv vals j)) (N.eqb i j).

Definition stream_ok (vals : list ms) (s : N * list rawword) : bool :=
  raws_eqb (hash_raw (getv vals (fst s))) (snd s).

(* a domain: key ranks, values, pair cases, recorded hash streams *)
Record dom := mkDom { d_ranks : list N; d_vals : list ms; d_pairs : list pcase; d_streams : list (N * list rawword) }.

Definition dom_pairs_ok (d : dom) : bool :=
  forallb (pair_ok (d_ranks d) (d_vals d)) (d_pairs d).
Definition dom_spec_ok (d : dom) : bool := forallb (pair_spec_ok (d_vals d)) (d_pairs d).
Definition dom_streams_ok (d : dom) : bool := forallb (stream_ok (d_vals d)) (d_streams d).

(* diagnosis: failing pairs with (impl, model, structurally equal) *)
Definition pair_diag (ranks : list N) (vals : list ms) (c : pcase) : list (N * N * (N * N * N) * (N * N * N) * bool) :=
  let '(i, j, o) := c in
  let a := getv vals i in let b := getv vals j in
  let mc := obs_model ranks a b in
  if obs_eqb mc o then [] else [(i, j, o, mc, ms_eqb a b)].
Definition dom_diag (d : dom) := flat_map (pair_diag (d_ranks d) (d_vals d)) (d_pairs d).
Definition dom_stream_diag (d : dom) : list N :=
  flat_map (fun s => if stream_ok (d_vals d) s then [] else [fst s]) (d_streams d).
Definition dom_spec_diag (d : dom) : list (N * N) :=
  flat_map (fun c : pcase => if pair_spec_ok (d_vals d) c then [] else [(fst (fst c), snd (fst c))]) (d_pairs d).
