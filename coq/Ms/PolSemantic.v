(* Model of rust-miniscript `policy::semantic::Policy` (src/policy/semantic.rs) — C18.

   The functions mirror the Rust code as written: the order of the matches, the
   normalize-then-match head of `entails`, the iteration order of the
   `rtl_post_order_iter` + `pop()` loops (children are consumed left to right), the
   arithmetic (`saturating_sub`, `len - unsat - trivial`), the short-circuit of
   `Some(e1? && e2?)`.  Keys and hashes are `N`-indexed atoms (the harness names them so
   that the `String` order used by `Ord` equals the order of the indices).  Lock times are
   their consensus `u32` values (`N`).  Threshold `k` and list lengths are `nat` (sizes
   are small; `usize` arithmetic never wraps in the modelled code).

   This file contains definitions only (no proofs). *)
From Coq Require Import List NArith Bool Arith.
Import ListNotations.

Inductive spol : Type :=
| SUnsat | STriv
| SKey (k : N)
| SAfter (t : N)            (* AbsLockTime::to_consensus_u32 *)
| SOlder (t : N)            (* RelLockTime::to_consensus_u32 (a Sequence value) *)
| SSha256 (h : N) | SHash256 (h : N) | SRipemd160 (h : N) | SHash160 (h : N)
| SThresh (k : nat) (subs : list spol).   (* Threshold<Arc<Policy>, 0>: the type keeps 1 <= k <= n *)

(* Threshold's invariant (validate_k_n with MAX = 0), everywhere in the tree. *)
Fixpoint wf (p : spol) : bool :=
  match p with
  | SThresh k subs => (1 <=? k) && (k <=? length subs) && forallb wf subs
  | _ => true
  end.

(* #[derive(PartialEq)] *)
Fixpoint spol_eqb (p q : spol) : bool :=
  match p, q with
  | SUnsat, SUnsat | STriv, STriv => true
  | SKey a, SKey b | SAfter a, SAfter b | SOlder a, SOlder b
  | SSha256 a, SSha256 b | SHash256 a, SHash256 b
  | SRipemd160 a, SRipemd160 b | SHash160 a, SHash160 b => N.eqb a b
  | SThresh k l, SThresh k' l' =>
      Nat.eqb k k' &&
      (fix go (a b : list spol) : bool :=
         match a, b with
         | [], [] => true
         | x :: a', y :: b' => spol_eqb x y && go a' b'
         | _, _ => false
         end) l l'
  | _, _ => false
  end.

Definition is_triv (p : spol) : bool := match p with STriv => true | _ => false end.
Definition is_unsat (p : spol) : bool := match p with SUnsat => true | _ => false end.
Definition is_const (p : spol) : bool := match p with STriv | SUnsat => true | _ => false end.
Definition is_thresh (p : spol) : bool := match p with SThresh _ _ => true | _ => false end.

(* impl Ord: variant_name() strings are compared first
   ("after" < "hash160" < "hash256" < "key" < "older" < "ripemd160" < "sha256" < "thresh"
    < "trivial" < "unsatisfiable"), then the payloads; Threshold derives Ord (k, then the
   vector lexicographically). *)
Definition variant_rank (p : spol) : N :=
  match p with
  | SAfter _ => 0 | SHash160 _ => 1 | SHash256 _ => 2 | SKey _ => 3 | SOlder _ => 4
  | SRipemd160 _ => 5 | SSha256 _ => 6 | SThresh _ _ => 7 | STriv => 8 | SUnsat => 9
  end%N.

Fixpoint spol_cmp (p q : spol) : comparison :=
  match N.compare (variant_rank p) (variant_rank q) with
  | Eq =>
      match p, q with
      | SKey a, SKey b | SAfter a, SAfter b | SOlder a, SOlder b
      | SSha256 a, SSha256 b | SHash256 a, SHash256 b
      | SRipemd160 a, SRipemd160 b | SHash160 a, SHash160 b => N.compare a b
      | SThresh k l, SThresh k' l' =>
          match Nat.compare k k' with
          | Eq =>
              (fix go (a b : list spol) : comparison :=
                 match a, b with
                 | [], [] => Eq
                 | [], _ :: _ => Lt
                 | _ :: _, [] => Gt
                 | x :: a', y :: b' =>
                     match spol_cmp x y with Eq => go a' b' | c => c end
                 end) l l'
          | c => c
          end
      | _, _ => Eq
      end
  | c => c
  end.

(* Vec::sort (stable); modelled by a stable insertion sort with the same comparator. *)
Fixpoint insert_by {A} (cmp : A -> A -> comparison) (x : A) (l : list A) : list A :=
  match l with
  | [] => [x]
  | y :: r => match cmp x y with Gt => y :: insert_by cmp x r | _ => x :: y :: r end
  end.
Definition isort {A} (cmp : A -> A -> comparison) (l : list A) : list A :=
  fold_right (insert_by cmp) [] l.

(* Policy::sorted *)
Fixpoint sorted (p : spol) : spol :=
  match p with
  | SThresh k subs => SThresh k (isort spol_cmp (map sorted subs))
  | x => x
  end.

(* Policy::normalized *)
Definition norm_push (is_and is_or : bool) (sub : spol) : list spol :=
  match sub with
  | STriv | SUnsat => []
  | SThresh k' subs' =>
      match is_and, is_or with
      | true, true => [SThresh k' subs']
      | true, false => if k' =? length subs' then subs' else [SThresh k' subs']
      | false, true => if k' =? 1 then subs' else [SThresh k' subs']
      | false, false => [SThresh k' subs']
      end
  | x => [x]
  end.

Definition norm_node (k : nat) (subs : list spol) : spol :=
  let trivial_count := length (filter is_triv subs) in
  let unsatisfied_count := length (filter is_unsat subs) in
  let n := length subs - unsatisfied_count - trivial_count in
  let m := k - trivial_count in                 (* saturating_sub *)
  let is_and := m =? n in
  let is_or := m =? 1 in
  let ret_subs := flat_map (norm_push is_and is_or) subs in
  if m =? 0 then STriv
  else if length ret_subs <? m then SUnsat
  else match ret_subs with
       | [x] => x
       | _ => if is_and then SThresh (length ret_subs) ret_subs
              else if is_or then SThresh 1 ret_subs
              else SThresh m ret_subs
       end.

Fixpoint normalized (p : spol) : spol :=
  match p with
  | SThresh k subs => norm_node k (map normalized subs)
  | x => x
  end.

(* bitcoin::relative::LockTime / absolute::LockTime and is_implied_by *)
Inductive rel_lt := RBlocks (v : N) | RTime (v : N).
Inductive abs_lt := ABlocks (v : N) | ASeconds (v : N).

(* Sequence::to_relative_lock_time: type flag = bit 22, value = low 16 bits *)
Definition rel_of_consensus (t : N) : rel_lt :=
  if N.testbit t 22 then RTime (N.land t 65535) else RBlocks (N.land t 65535).
(* absolute::LockTime::from_consensus: threshold 500_000_000 *)
Definition abs_of_consensus (t : N) : abs_lt :=
  if (t <? 500000000)%N then ABlocks t else ASeconds t.

Definition rel_is_implied_by (this other : rel_lt) : bool :=
  match this, other with
  | RBlocks a, RBlocks b => (a <=? b)%N
  | RTime a, RTime b => (a <=? b)%N
  | _, _ => false
  end.
Definition abs_is_implied_by (this other : abs_lt) : bool :=
  match this, other with
  | ABlocks a, ABlocks b => (a <=? b)%N
  | ASeconds a, ASeconds b => (a <=? b)%N
  | _, _ => false
  end.

(* Policy::at_age / at_lock_time: rebuild bottom-up, then normalize *)
Fixpoint at_age_raw (age : rel_lt) (p : spol) : spol :=
  match p with
  | SOlder t => if rel_is_implied_by (rel_of_consensus t) age then SOlder t else SUnsat
  | SThresh k subs => SThresh k (map (at_age_raw age) subs)
  | x => x
  end.
Definition at_age (age : rel_lt) (p : spol) : spol := normalized (at_age_raw age p).

Fixpoint at_lock_time_raw (n : abs_lt) (p : spol) : spol :=
  match p with
  | SAfter t => if abs_is_implied_by (abs_of_consensus t) n then SAfter t else SUnsat
  | SThresh k subs => SThresh k (map (at_lock_time_raw n) subs)
  | x => x
  end.
Definition at_lock_time (n : abs_lt) (p : spol) : spol := normalized (at_lock_time_raw n p).

(* Policy::n_keys *)
Fixpoint n_keys (p : spol) : nat :=
  match p with
  | SKey _ => 1
  | SThresh _ subs => list_sum (map n_keys subs)
  | _ => 0
  end.

(* Policy::minimum_n_keys *)
Fixpoint filter_some {A} (l : list (option A)) : list A :=
  match l with
  | [] => []
  | Some x :: r => x :: filter_some r
  | None :: r => filter_some r
  end.

Fixpoint min_keys (p : spol) : option nat :=
  match p with
  | SUnsat => None
  | SKey _ => Some 1
  | SThresh k subs =>
      let sublens := filter_some (map min_keys subs) in
      if length sublens <? k then None
      else Some (list_sum (firstn k (isort Nat.compare sublens)))
  | _ => Some 0
  end.

(* Policy::n_terminals *)
Fixpoint n_terminals (p : spol) : nat :=
  match p with
  | SThresh _ subs => list_sum (map n_terminals subs)
  | STriv | SUnsat => 0
  | _ => 1
  end.

(* Policy::first_constraint.  `thresh.data()[0]` cannot fail: Threshold keeps n >= 1
   (the [] arm is unreachable and returns the node itself, which the caller turns into
   the "should be unreachable" panic of satisfy_constraint). *)
Fixpoint first_constraint (p : spol) : spol :=
  match p with
  | SThresh k subs => match subs with [] => SThresh k [] | s :: _ => first_constraint s end
  | x => x
  end.

(* Policy::satisfy_constraint (normalizes at every level) *)
Fixpoint satisfy_constraint (p witness : spol) (available : bool) : spol :=
  match p with
  | SThresh k subs =>
      normalized (SThresh k (map (fun s => satisfy_constraint s witness available) subs))
  | leaf =>
      if spol_eqb leaf witness then (if available then STriv else SUnsat) else leaf
  end.

(* The debug_assert!s of first_constraint / satisfy_constraint (`normalized(self) == self`
   at every node they visit); the harness is built with debug assertions on. *)
Fixpoint fc_assert_ok (p : spol) : bool :=
  spol_eqb (normalized p) p &&
  match p with
  | SThresh _ (s :: _) => fc_assert_ok s
  | _ => true
  end.
Fixpoint sc_assert_ok (p : spol) : bool :=
  spol_eqb (normalized p) p &&
  match p with
  | SThresh _ subs => forallb sc_assert_ok subs
  | _ => true
  end.

(* Policy::entails.  Not structurally recursive: explicit fuel; PolSemanticProofs shows
   that [n_terminals a + 2] is enough (EFuel is never returned by [entails]). *)
Inductive eres := EFuel | EPanic | ENone | ESome (b : bool).
Definition ENTAILMENT_MAX_TERMINALS : nat := 20.

Fixpoint entails_f (fuel : nat) (a b : spol) : eres :=
  match fuel with
  | O => EFuel
  | S f =>
      if ENTAILMENT_MAX_TERMINALS <? n_terminals a then ENone
      else
        (* match (self.normalized(), other.normalized()) *)
        let an := normalized a in
        let bn := normalized b in
        match an, bn with
        | SUnsat, _ => ESome true
        | STriv, STriv => ESome true
        | STriv, _ => ESome false
        | _, SUnsat => ESome false
        | _, _ =>
            if negb (fc_assert_ok an) then EPanic
            else
              let fc := first_constraint an in
              if negb (sc_assert_ok an && sc_assert_ok bn) || is_thresh fc then EPanic
              else
                let a1 := satisfy_constraint an fc true in
                let b1 := satisfy_constraint bn fc true in
                let a2 := satisfy_constraint an fc false in
                let b2 := satisfy_constraint bn fc false in
                match entails_f f a1 b1 with
                | ESome true => entails_f f a2 b2       (* Some(true && e2?) *)
                | r => r                                 (* Some(false) short-circuits; None/panic propagate *)
                end
        end
  end.

Definition entails (a b : spol) : eres := entails_f (S (S (n_terminals a))) a b.
