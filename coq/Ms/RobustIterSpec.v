(* C11 — recursive SPECIFICATIONS of the iterators of iter/tree.rs (no proofs in this file) and the
   model of RtlPostOrderIter (PostOrderIter over the `Rtl` adaptor).

   post_spec t b : what PostOrderIter must yield for the subtree t when b items were yielded
   before it: the children's outputs one after the other, then the node itself with
     index          = its position in the output,
     child_indices  = the output positions of the roots of its children, in child order. *)
From Coq Require Import List NArith Bool.
From Verif Require Import Bytes RobustModel.
Import ListNotations.
Local Open Scope N_scope.

Definition nsize (t : rtree) : N := N.of_nat (rsize t).

(* output positions of the roots of the trees of a forest laid out from position b *)
Fixpoint child_roots (cs : list rtree) (b : N) : list N :=
  match cs with [] => [] | c :: r => (b + nsize c - 1) :: child_roots r (b + nsize c) end.

Fixpoint post_spec (t : rtree) (b : N) : list post_yield :=
  match t with RNode x cs =>
    (fix go (l : list rtree) (b : N) : list post_yield :=
       match l with [] => [] | c :: r => post_spec c b ++ go r (b + nsize c) end) cs b
    ++ [mkYield x (b + N.of_nat (rsize_forest cs)) (child_roots cs b)]
  end.
Fixpoint post_spec_forest (l : list rtree) (b : N) : list post_yield :=
  match l with [] => [] | c :: r => post_spec c b ++ post_spec_forest r (b + nsize c) end.

(* all subtrees in recursive post-order (the last one is the tree itself) *)
Fixpoint subtrees_post (t : rtree) : list rtree :=
  match t with RNode x cs =>
    (fix go (l : list rtree) : list rtree := match l with [] => [] | c :: r => subtrees_post c ++ go r end) cs
    ++ [RNode x cs] end.
Fixpoint subtrees_post_forest (l : list rtree) : list rtree :=
  match l with [] => [] | c :: r => subtrees_post c ++ subtrees_post_forest r end.
Fixpoint postorder_forest (l : list rtree) : list N :=
  match l with [] => [] | c :: r => postorder c ++ postorder_forest r end.

(* what a bottom-up builder does with the iterator's output (Miniscript::from_ast-style
   reconstruction, Threshold::map_from_post_order_iter, Arc rebuilding in translate_pk):
   keep the vector of everything built so far; a node's children are looked up at its
   child_indices. *)
Definition rdummy : rtree := RNode 0 [].
Definition rebuild_step (built : list rtree) (y : post_yield) : list rtree :=
  built ++ [RNode (y_label y) (map (fun i => nth (N.to_nat i) built rdummy) (y_children y))].
Definition rebuild_from (built : list rtree) (ys : list post_yield) : list rtree := fold_left rebuild_step ys built.
Definition rebuild (ys : list post_yield) : list rtree := rebuild_from [] ys.

(* ---- RtlPostOrderIter: PostOrderIter over Rtl(t), each item's child_indices reversed.
   Rtl::as_node swaps the children of Unary/Binary/Ternary nodes; for an n-ary node
   Rtl::nary_index(tc, idx) takes the child  len - idx - 1  (two usize subtractions: the panic
   site is guarded by nth_child's `n < nary_len`).  On the model's trees both are "the children
   list reversed, recursively". *)
Fixpoint mirror (t : rtree) : rtree :=
  match t with RNode x cs =>
    RNode x (rev ((fix go (l : list rtree) : list rtree := match l with [] => [] | c :: r => mirror c :: go r end) cs)) end.
Fixpoint mirror_forest (l : list rtree) : list rtree := match l with [] => [] | c :: r => mirror c :: mirror_forest r end.

(* Rtl::nary_index with its subtractions *)
Definition rtl_nary_index (children : list rtree) (idx : N) : routcome rtree :=
  rbind (sub_partial (nlen children) idx) (fun a =>
  rbind (sub_partial a 1) (fun rtl_idx =>
  index_partial children rtl_idx)).
(* Rtl(t).nth_child(n): `n < nary_len` guards the call *)
Definition rtl_nth_child (t : rtree) (n : N) : routcome (option rtree) :=
  if n <? nlen (rchildren t) then rbind (rtl_nary_index (rchildren t) n) (fun c => ROk (Some c)) else ROk None.

Definition rtl_post_order (t : rtree) : routcome (list post_yield) :=
  rbind (post_order (mirror t)) (fun ys => ROk (map (fun y => mkYield (y_label y) (y_index y) (rev (y_children y))) ys)).

(* recursive specification: children right to left, then the node; child_indices in the
   ORIGINAL child order *)
Definition rtl_spec (t : rtree) : list post_yield :=
  map (fun y => mkYield (y_label y) (y_index y) (rev (y_children y))) (post_spec (mirror t) 0).
Fixpoint rtl_postorder (t : rtree) : list N :=
  match t with RNode x cs =>
    (fix go (l : list rtree) : list N := match l with [] => [] | c :: r => go r ++ rtl_postorder c end) cs ++ [x] end.
Fixpoint rtl_postorder_forest (l : list rtree) : list N :=
  match l with [] => [] | c :: r => rtl_postorder_forest r ++ rtl_postorder c end.
