(* C19 — model of the hand-written `PartialEq` / `Hash` (src/miniscript/decode.rs),
   `Ord` (src/miniscript/display.rs) and of the pre-order iterator (src/iter/tree.rs)
   for `Terminal` / `Miniscript` (Miniscript::{eq,cmp,hash} delegate to the node only).
   The model mirrors the code that exists, i.e. /repo as of 32d9f676 ("Terminal equality and ordering compare
   the arity and k of n-ary fragments"); the model of the code before that commit is kept, for the record,
   in Proofs/EqOrdHistory.v.  No proofs in this file. *)
From Coq Require Import String.
From Verif Require Export Ast.

(* ------------------------------------------------------------------ outcomes *)
Inductive outcome (A : Type) := Ok (a : A) | Panic (site : N).
Arguments Ok {A} a. Arguments Panic {A} site.

(* ------------------------------------------------------------------ Terminal view *)
(* mem::discriminant of Terminal, in declaration order *)
Inductive tag :=
| TTrue | TFalse | TPkK | TPkH | TRawPkH | TAfter | TOlder
| TSha256 | THash256 | TRipemd160 | THash160
| TAlt | TSwap | TCheck | TDupIf | TVerify | TNonZero | TZeroNotEqual
| TAndV | TAndB | TAndOr | TOrB | TOrD | TOrC | TOrI
| TThresh | TMulti | TSortedMulti | TMultiA | TSortedMultiA.

Definition tag_idx (t : tag) : N :=
  match t with
  | TTrue => 0 | TFalse => 1 | TPkK => 2 | TPkH => 3 | TRawPkH => 4 | TAfter => 5 | TOlder => 6
  | TSha256 => 7 | THash256 => 8 | TRipemd160 => 9 | THash160 => 10
  | TAlt => 11 | TSwap => 12 | TCheck => 13 | TDupIf => 14 | TVerify => 15 | TNonZero => 16
  | TZeroNotEqual => 17 | TAndV => 18 | TAndB => 19 | TAndOr => 20 | TOrB => 21 | TOrD => 22
  | TOrC => 23 | TOrI => 24 | TThresh => 25 | TMulti => 26 | TSortedMulti => 27 | TMultiA => 28
  | TSortedMultiA => 29
  end%N.
Definition tag_eqb (a b : tag) : bool := N.eqb (tag_idx a) (tag_idx b).

(* what a yielded `&Terminal` carries besides its children *)
Inductive payload :=
| PNone
| PKey (k : key)
| PBytes (h : bytes)
| PNum (t : N)
| PK (k : N)                       (* Thresh: th.k() (the children are yielded next) *)
| PKeys (k : N) (ks : list key).   (* Multi & co: the whole Threshold<Pk> *)

(* one item of `pre_order_iter()`: discriminant, number of children (TreeLike::n_children), payload *)
Record node := mkNode { n_tag : tag; n_arity : N; n_pl : payload }.

Definition nlen {A} (l : list A) : N := N.of_nat (List.length l).

Definition node_of (m : ms) : node :=
  match m with
  | MTrue => mkNode TTrue 0 PNone | MFalse => mkNode TFalse 0 PNone
  | MPkK k => mkNode TPkK 0 (PKey k) | MPkH k => mkNode TPkH 0 (PKey k)
  | MRawPkH h => mkNode TRawPkH 0 (PBytes h)
  | MAfter t => mkNode TAfter 0 (PNum t) | MOlder t => mkNode TOlder 0 (PNum t)
  | MSha256 h => mkNode TSha256 0 (PBytes h) | MHash256 h => mkNode THash256 0 (PBytes h)
  | MRipemd160 h => mkNode TRipemd160 0 (PBytes h) | MHash160 h => mkNode THash160 0 (PBytes h)
  | MAlt _ => mkNode TAlt 1 PNone | MSwap _ => mkNode TSwap 1 PNone | MCheck _ => mkNode TCheck 1 PNone
  | MDupIf _ => mkNode TDupIf 1 PNone | MVerify _ => mkNode TVerify 1 PNone
  | MNonZero _ => mkNode TNonZero 1 PNone | MZeroNotEqual _ => mkNode TZeroNotEqual 1 PNone
  | MAndV _ _ => mkNode TAndV 2 PNone | MAndB _ _ => mkNode TAndB 2 PNone
  | MAndOr _ _ _ => mkNode TAndOr 3 PNone
  | MOrB _ _ => mkNode TOrB 2 PNone | MOrD _ _ => mkNode TOrD 2 PNone
  | MOrC _ _ => mkNode TOrC 2 PNone | MOrI _ _ => mkNode TOrI 2 PNone
  | MThresh k xs => mkNode TThresh (nlen xs) (PK k)
  | MMulti k ks => mkNode TMulti 0 (PKeys k ks) | MSortedMulti k ks => mkNode TSortedMulti 0 (PKeys k ks)
  | MMultiA k ks => mkNode TMultiA 0 (PKeys k ks) | MSortedMultiA k ks => mkNode TSortedMultiA 0 (PKeys k ks)
  end%N.

(* TreeLike::as_node for &Terminal (src/iter/mod.rs): multi & co are Nullary *)
Definition children (m : ms) : list ms :=
  match m with
  | MAlt x | MSwap x | MCheck x | MDupIf x | MVerify x | MNonZero x | MZeroNotEqual x => [x]
  | MAndV x y | MAndB x y | MOrB x y | MOrD x y | MOrC x y | MOrI x y => [x; y]
  | MAndOr a b c => [a; b; c]
  | MThresh _ xs => xs
  | _ => []
  end.

(* the obvious recursive pre-order *)
Fixpoint preorder (m : ms) : list node :=
  node_of m ::
  match m with
  | MAlt x | MSwap x | MCheck x | MDupIf x | MVerify x | MNonZero x | MZeroNotEqual x => preorder x
  | MAndV x y | MAndB x y | MOrB x y | MOrD x y | MOrC x y | MOrI x y => preorder x ++ preorder y
  | MAndOr a b c => preorder a ++ preorder b ++ preorder c
  | MThresh _ xs => (fix go (l : list ms) : list node :=
                       match l with [] => [] | x :: r => preorder x ++ go r end) xs
  | _ => []
  end.

(* PreOrderIter::next as coded: pop the top, push its children right-to-left, yield it.
   The Vec stack is modelled with its top at the head, so "push children in reverse"
   is `children top ++ rest`.  Fuel bounds the number of `next` calls. *)
Fixpoint preorder_stack (fuel : nat) (stack : list ms) : option (list node) :=
  match stack with
  | [] => Some []
  | top :: rest =>
    match fuel with
    | O => None
    | S f => option_map (cons (node_of top)) (preorder_stack f (children top ++ rest))
    end
  end.

Fixpoint ms_size (m : ms) : nat :=
  S match m with
    | MAlt x | MSwap x | MCheck x | MDupIf x | MVerify x | MNonZero x | MZeroNotEqual x => ms_size x
    | MAndV x y | MAndB x y | MOrB x y | MOrD x y | MOrC x y | MOrI x y => ms_size x + ms_size y
    | MAndOr a b c => ms_size a + ms_size b + ms_size c
    | MThresh _ xs => (fix go (l : list ms) : nat :=
                         match l with [] => 0 | x :: r => ms_size x + go r end) xs
    | _ => 0
    end.

(* ------------------------------------------------------------------ PartialEq *)
Definition keys_eqb (a b : list key) : bool :=
  (fix go (a b : list key) : bool :=
     match a, b with
     | [], [] => true
     | x :: r, y :: s => N.eqb x y && go r s
     | _, _ => false
     end) a b.

Definition payload_eqb (a b : payload) : bool :=
  match a, b with
  | PNone, PNone => true
  | PKey x, PKey y => N.eqb x y
  | PBytes x, PBytes y => bytes_eqb x y
  | PNum x, PNum y => N.eqb x y
  | PK x, PK y => N.eqb x y
  | PKeys k1 l1, PKeys k2 l2 => N.eqb k1 k2 && keys_eqb l1 l2     (* derived PartialEq of Threshold: k, inner *)
  | _, _ => false
  end.

(* One iteration of the loop in `impl PartialEq for Terminal`: false = `return false`.
   The guarded arms compare the payload of two nodes of the same variant (for Thresh: k and the number of
   children, `th1.k() != th2.k() || th1.n() != th2.n()`; the children follow in the iteration); every other
   pair only compares discriminants. *)
Definition eq_pair (me you : node) : bool :=
  match n_tag me, n_tag you with
  | TPkK, TPkK | TPkH, TPkH | TRawPkH, TRawPkH | TAfter, TAfter | TOlder, TOlder
  | TSha256, TSha256 | THash256, THash256 | TRipemd160, TRipemd160 | THash160, THash160
  | TMulti, TMulti | TSortedMulti, TSortedMulti | TMultiA, TMultiA | TSortedMultiA, TSortedMultiA =>
    payload_eqb (n_pl me) (n_pl you)
  | TThresh, TThresh => payload_eqb (n_pl me) (n_pl you) && N.eqb (n_arity me) (n_arity you)
  | a, b => tag_eqb a b
  end.

(* `for (me, you) in self.pre_order_iter().zip(other.pre_order_iter())`: Iterator::zip stops at
   the shorter sequence (`combine` truncates the same way); falling out of the loop is `true`.
   (With the arity compared per node the two pre-orders run in lock-step: eq_structural.) *)
Definition eq_iter (a b : ms) : bool := forallb (fun p => eq_pair (fst p) (snd p)) (combine (preorder a) (preorder b)).

(* ------------------------------------------------------------------ Hash *)
(* the words fed to the Hasher, abstracting only how a key feeds itself *)
Inductive hword :=
| HDisc (t : tag)          (* mem::discriminant(term).hash : write_isize(declaration index) *)
| HKey (k : key)           (* the key's own (derived) Hash *)
| HBytes (h : bytes)       (* a byte-array hash value: length prefix + bytes *)
| HAbs (t : N)             (* absolute::LockTime: its own discriminant (height / time) + the u32 *)
| HRel (t : N)             (* Sequence: the u32 *)
| HUsize (n : N).          (* th.k(), th.n(), and the length prefix written by `impl Hash for Vec` *)

Definition hash_node (x : node) : list hword :=
  HDisc (n_tag x) ::
  match n_tag x, n_pl x with
  | TThresh, PK k => [HUsize k; HUsize (n_arity x)]                    (* th.k().hash; th.n().hash *)
  | TAfter, PNum t => [HAbs t]
  | TOlder, PNum t => [HRel t]
  | _, PKey k => [HKey k]
  | _, PBytes h => [HBytes h]
  | _, PKeys k ks => HUsize k :: HUsize (nlen ks) :: map HKey ks       (* derived Hash of Threshold: k, Vec *)
  | _, _ => []
  end.

Definition hash_iter (m : ms) : list hword := flat_map hash_node (preorder m).

(* ------------------------------------------------------------------ display nodes and Ord *)
Inductive fname :=
| F_0 | F_1 | F_pk_k | F_pk_h | F_expr_raw_pkh | F_after | F_older
| F_sha256 | F_hash256 | F_ripemd160 | F_hash160
| F_a | F_s | F_pk | F_pkh | F_c | F_d | F_v | F_j | F_n
| F_t | F_and_v | F_and_n | F_and_b | F_andor | F_or_b | F_or_d | F_or_c
| F_u | F_l | F_or_i | F_thresh | F_multi | F_sortedmulti | F_multi_a | F_sortedmulti_a.

Open Scope string_scope.
Definition fname_str (f : fname) : string :=
  match f with
  | F_0 => "0" | F_1 => "1" | F_pk_k => "pk_k" | F_pk_h => "pk_h" | F_expr_raw_pkh => "expr_raw_pkh"
  | F_after => "after" | F_older => "older" | F_sha256 => "sha256" | F_hash256 => "hash256"
  | F_ripemd160 => "ripemd160" | F_hash160 => "hash160" | F_a => "a" | F_s => "s" | F_pk => "pk"
  | F_pkh => "pkh" | F_c => "c" | F_d => "d" | F_v => "v"
  | F_j => "j" | F_n => "n" | F_t => "t" | F_and_v => "and_v" | F_and_n => "and_n" | F_and_b => "and_b"
  | F_andor => "andor" | F_or_b => "or_b" | F_or_d => "or_d" | F_or_c => "or_c" | F_u => "u" | F_l => "l"
  | F_or_i => "or_i" | F_thresh => "thresh" | F_multi => "multi" | F_sortedmulti => "sortedmulti"
  | F_multi_a => "multi_a" | F_sortedmulti_a => "sortedmulti_a"
  end.
Close Scope string_scope.

(* `&'static str` comparison = byte-wise lexicographic = String.compare *)
Definition fname_cmp (a b : fname) : comparison := String.compare (fname_str a) (fname_str b).

Definition is_true (m : ms) : bool := match m with MTrue => true | _ => false end.
Definition is_false (m : ms) : bool := match m with MFalse => true | _ => false end.

(* Terminal::fragment_name, arm by arm in the order of the Rust match (as of /repo 2d1943a6: a raw key hash is
   named expr_raw_pkh and c: over it is an ordinary wrapper) *)
Definition frag_name (m : ms) : fname :=
  match m with
  | MTrue => F_1 | MFalse => F_0 | MPkK _ => F_pk_k | MPkH _ => F_pk_h | MRawPkH _ => F_expr_raw_pkh
  | MAfter _ => F_after | MOlder _ => F_older | MSha256 _ => F_sha256 | MHash256 _ => F_hash256
  | MRipemd160 _ => F_ripemd160 | MHash160 _ => F_hash160 | MAlt _ => F_a | MSwap _ => F_s
  | MCheck x => match x with MPkK _ => F_pk | MPkH _ => F_pkh | _ => F_c end
  | MDupIf _ => F_d | MVerify _ => F_v | MNonZero _ => F_j | MZeroNotEqual _ => F_n
  | MAndV _ r => if is_true r then F_t else F_and_v
  | MAndOr _ _ c => if is_false c then F_and_n else F_andor
  | MAndB _ _ => F_and_b
  | MOrB _ _ => F_or_b | MOrD _ _ => F_or_d | MOrC _ _ => F_or_c
  | MOrI l r => if is_false r then F_u else if is_false l then F_l else F_or_i
  | MThresh _ _ => F_thresh | MMulti _ _ => F_multi | MSortedMulti _ _ => F_sortedmulti
  | MMultiA _ _ => F_multi_a | MSortedMultiA _ _ => F_sortedmulti_a
  end.

(* what a yielded DisplayNode carries: for `Node(ty, &Terminal)` the fragment name and the number
   of display children (TreeLike::n_children of the DisplayNode, `me_n` / `you_n` in `cmp`) *)
Inductive dnode :=
| DNode (f : fname) (nch : N)
| DThreshK (k : N)
| DKey (k : key)
| DRawKeyHash (h : bytes)
| DAfter (t : N) | DOlder (t : N)
| DSha256 (h : bytes) | DHash256 (h : bytes) | DRipemd160 (h : bytes) | DHash160 (h : bytes).

(* DisplayNode::as_node, arm by arm; pre-order of the display tree *)
Fixpoint dnodes (m : ms) : list dnode :=
  match m with
  | MTrue | MFalse => [DNode (frag_name m) 0]
  | MPkK k | MPkH k => [DNode (frag_name m) 1; DKey k]
  | MRawPkH h => [DNode (frag_name m) 1; DRawKeyHash h]
  | MAfter t => [DNode (frag_name m) 1; DAfter t]
  | MOlder t => [DNode (frag_name m) 1; DOlder t]
  | MSha256 h => [DNode (frag_name m) 1; DSha256 h]
  | MHash256 h => [DNode (frag_name m) 1; DHash256 h]
  | MRipemd160 h => [DNode (frag_name m) 1; DRipemd160 h]
  | MHash160 h => [DNode (frag_name m) 1; DHash160 h]
  | MCheck x =>
    DNode (frag_name m) 1 ::
    match x with
    | MPkK k | MPkH k => [DKey k]
    | _ => dnodes x
    end
  | MAlt x | MSwap x | MDupIf x | MVerify x | MNonZero x | MZeroNotEqual x => DNode (frag_name m) 1 :: dnodes x
  | MAndV l r =>
    if is_true r then DNode (frag_name m) 1 :: dnodes l
    else DNode (frag_name m) 2 :: dnodes l ++ dnodes r
  | MOrI l r =>
    if is_false l then DNode (frag_name m) 1 :: dnodes r
    else if is_false r then DNode (frag_name m) 1 :: dnodes l
    else DNode (frag_name m) 2 :: dnodes l ++ dnodes r
  | MAndB l r | MOrB l r | MOrD l r | MOrC l r => DNode (frag_name m) 2 :: dnodes l ++ dnodes r
  | MAndOr a b c =>
    if is_false c then DNode (frag_name m) 2 :: dnodes a ++ dnodes b
    else DNode (frag_name m) 3 :: dnodes a ++ dnodes b ++ dnodes c
  | MThresh k xs =>
    DNode (frag_name m) (1 + nlen xs) :: DThreshK k ::
    (fix go (l : list ms) : list dnode := match l with [] => [] | x :: r => dnodes x ++ go r end) xs
  | MMulti k ks | MSortedMulti k ks | MMultiA k ks | MSortedMultiA k ks =>
    DNode (frag_name m) (1 + nlen ks) :: DThreshK k :: map DKey ks
  end%N.

Fixpoint bytes_cmp (a b : bytes) : comparison :=
  match a, b with
  | [], [] => Eq
  | [], _ :: _ => Lt
  | _ :: _, [] => Gt
  | x :: r, y :: s => match N.compare x y with Eq => bytes_cmp r s | c => c end
  end.

Section Cmp.
  (* `Ord` of the key type: supplied (a table in the runs, a hypothesis-carrying variable in the theorems) *)
  Variable kcmp : key -> key -> comparison.

  (* the `match (me, you)` inside the zip loop of `impl Ord for Terminal`; None = `unreachable!`.
     Two Nodes: fragment name, then number of children (`.then(me_n.cmp(&you_n))`). *)
  Definition dnode_cmp (me you : dnode) : option comparison :=
    match me, you with
    | DNode f n, DNode g n' => Some (match fname_cmp f g with Eq => N.compare n n' | c => c end)
    | DThreshK a, DThreshK b => Some (N.compare a b)
    | DKey a, DKey b => Some (kcmp a b)
    | DRawKeyHash a, DRawKeyHash b => Some (bytes_cmp a b)
    | DAfter a, DAfter b => Some (N.compare a b)        (* cmp_by_consensus: the u32 *)
    | DOlder a, DOlder b => Some (N.compare a b)
    | DSha256 a, DSha256 b | DHash256 a, DHash256 b
    | DRipemd160 a, DRipemd160 b | DHash160 a, DHash160 b => Some (bytes_cmp a b)
    | _, _ => None
    end.

  (* the zip loop: first non-Equal pair decides, exhausting the shorter sequence is `Equal` *)
  Fixpoint zip_cmp (c : dnode -> dnode -> option comparison) (a b : list dnode) : outcome comparison :=
    match a, b with
    | x :: r, y :: s =>
      match c x y with
      | None => Panic 356                       (* display.rs unreachable! *)
      | Some Eq => zip_cmp c r s
      | Some o => Ok o
      end
    | _, _ => Ok Eq
    end.

  (* impl Ord for Terminal: fragment names first, then the zip *)
  Definition cmp_iter (a b : ms) : outcome comparison :=
    match fname_cmp (frag_name a) (frag_name b) with
    | Eq => zip_cmp dnode_cmp (dnodes a) (dnodes b)
    | c => Ok c
    end.

End Cmp.

(* ------------------------------------------------------------------ specification side *)
(* structural equality is Coq's `=` on ms; a decision procedure for the runs: *)
Fixpoint ms_eqb (a b : ms) : bool :=
  match a, b with
  | MTrue, MTrue | MFalse, MFalse => true
  | MPkK x, MPkK y | MPkH x, MPkH y => N.eqb x y
  | MRawPkH x, MRawPkH y | MSha256 x, MSha256 y | MHash256 x, MHash256 y
  | MRipemd160 x, MRipemd160 y | MHash160 x, MHash160 y => bytes_eqb x y
  | MAfter x, MAfter y | MOlder x, MOlder y => N.eqb x y
  | MAlt x, MAlt y | MSwap x, MSwap y | MCheck x, MCheck y | MDupIf x, MDupIf y
  | MVerify x, MVerify y | MNonZero x, MNonZero y | MZeroNotEqual x, MZeroNotEqual y => ms_eqb x y
  | MAndV x1 x2, MAndV y1 y2 | MAndB x1 x2, MAndB y1 y2 | MOrB x1 x2, MOrB y1 y2
  | MOrD x1 x2, MOrD y1 y2 | MOrC x1 x2, MOrC y1 y2 | MOrI x1 x2, MOrI y1 y2 => ms_eqb x1 y1 && ms_eqb x2 y2
  | MAndOr x1 x2 x3, MAndOr y1 y2 y3 => ms_eqb x1 y1 && ms_eqb x2 y2 && ms_eqb x3 y3
  | MThresh k xs, MThresh k' ys =>
    N.eqb k k' &&
    (fix go (l l' : list ms) : bool :=
       match l, l' with
       | [], [] => true
       | x :: r, y :: s => ms_eqb x y && go r s
       | _, _ => false
       end) xs ys
  | MMulti k ks, MMulti k' ks' | MSortedMulti k ks, MSortedMulti k' ks'
  | MMultiA k ks, MMultiA k' ks' | MSortedMultiA k ks, MSortedMultiA k' ks' => N.eqb k k' && keys_eqb ks ks'
  | _, _ => false
  end.

(* A structural total order: the (non-truncating) lexicographic order of the display sequences
   under a total extension of the per-node comparison (different kinds ordered by kind rank). *)
Definition dnode_kind (d : dnode) : N :=
  match d with
  | DNode _ _ => 0 | DThreshK _ => 1 | DKey _ => 2 | DRawKeyHash _ => 3 | DAfter _ => 4 | DOlder _ => 5
  | DSha256 _ => 6 | DHash256 _ => 7 | DRipemd160 _ => 8 | DHash160 _ => 9
  end%N.

Section Spec.
  Variable kcmp : key -> key -> comparison.
  Definition dnode_cmp_total (x y : dnode) : comparison :=
    match dnode_cmp kcmp x y with
    | Some c => c
    | None => N.compare (dnode_kind x) (dnode_kind y)
    end.
  Fixpoint lex_cmp (a b : list dnode) : comparison :=
    match a, b with
    | [], [] => Eq
    | [], _ :: _ => Lt
    | _ :: _, [] => Gt
    | x :: r, y :: s => match dnode_cmp_total x y with Eq => lex_cmp r s | c => c end
    end.
  Definition spec_cmp (a b : ms) : comparison := lex_cmp (dnodes a) (dnodes b).
End Spec.

(* ------------------------------------------------------------------ Clone *)
(* `Clone for Terminal` is the recursive deep copy; as a function on values it is the identity
   rebuild, written out constructor by constructor as in decode.rs (the iterative
   `Clone for Miniscript` is the rtl post-order machine of TranslateModel.v with the identity map). *)
Fixpoint clone_rec (m : ms) : ms :=
  match m with
  | MTrue => MTrue | MFalse => MFalse | MPkK k => MPkK k | MPkH k => MPkH k | MRawPkH h => MRawPkH h
  | MAfter t => MAfter t | MOlder t => MOlder t | MSha256 h => MSha256 h | MHash256 h => MHash256 h
  | MRipemd160 h => MRipemd160 h | MHash160 h => MHash160 h
  | MAlt x => MAlt (clone_rec x) | MSwap x => MSwap (clone_rec x) | MCheck x => MCheck (clone_rec x)
  | MDupIf x => MDupIf (clone_rec x) | MVerify x => MVerify (clone_rec x)
  | MNonZero x => MNonZero (clone_rec x) | MZeroNotEqual x => MZeroNotEqual (clone_rec x)
  | MAndV x y => MAndV (clone_rec x) (clone_rec y) | MAndB x y => MAndB (clone_rec x) (clone_rec y)
  | MAndOr a b c => MAndOr (clone_rec a) (clone_rec b) (clone_rec c)
  | MOrB x y => MOrB (clone_rec x) (clone_rec y) | MOrD x y => MOrD (clone_rec x) (clone_rec y)
  | MOrC x y => MOrC (clone_rec x) (clone_rec y) | MOrI x y => MOrI (clone_rec x) (clone_rec y)
  | MThresh k xs => MThresh k (map clone_rec xs)
  | MMulti k ks => MMulti k ks | MSortedMulti k ks => MSortedMulti k ks
  | MMultiA k ks => MMultiA k ks | MSortedMultiA k ks => MSortedMultiA k ks
  end.
