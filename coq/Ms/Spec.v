(* The Miniscript specification's typing tables, in the specification's vocabulary
   (B K V W; z o n d u; s f e m).  Hand-written specification (trusted, DESIGN App. B).
   No reference to the model of the code except through the abstraction [alpha]. *)
From Verif Require Import Types.

Record scorr := mkSC { s_base : base; s_z : bool; s_o : bool; s_n : bool; s_d : bool; s_u : bool }.
Record small := mkSM { s_s : bool; s_f : bool; s_e : bool; s_m : bool }.

(* abstraction of the code's representation into the specification's properties *)
Definition alpha_c (c : corr) : scorr :=
  mkSC (c_base c)
       (match c_input c with IZero => true | _ => false end)
       (match c_input c with IOne | IOneNonZero => true | _ => false end)
       (match c_input c with IOneNonZero | IAnyNonZero => true | _ => false end)
       (c_dissat c) (c_unit c).
Definition alpha_m (m : mall) : small :=
  mkSM (m_signed m)
       (match m_dissat m with DNone => true | _ => false end)
       (match m_dissat m with DUnique => true | _ => false end)
       (m_nm m).

Definition scorr_eqb (a b : scorr) : bool :=
  base_eqb (s_base a) (s_base b) && Bool.eqb (s_z a) (s_z b) && Bool.eqb (s_o a) (s_o b)
  && Bool.eqb (s_n a) (s_n b) && Bool.eqb (s_d a) (s_d b) && Bool.eqb (s_u a) (s_u b).
Definition small_eqb (a b : small) : bool :=
  Bool.eqb (s_s a) (s_s b) && Bool.eqb (s_f a) (s_f b) && Bool.eqb (s_e a) (s_e b) && Bool.eqb (s_m a) (s_m b).
(* "never stronger": every property claimed on the left is granted on the right *)
Definition scorr_le (a b : scorr) : bool :=
  base_eqb (s_base a) (s_base b) && implb (s_z a) (s_z b) && implb (s_o a) (s_o b)
  && implb (s_n a) (s_n b) && implb (s_d a) (s_d b) && implb (s_u a) (s_u b).
Definition small_le (a b : small) : bool :=
  implb (s_s a) (s_s b) && implb (s_f a) (s_f b) && implb (s_e a) (s_e b) && implb (s_m a) (s_m b).

Definition isB (x : scorr) := base_eqb (s_base x) BB.
Definition isK (x : scorr) := base_eqb (s_base x) BK.
Definition isV (x : scorr) := base_eqb (s_base x) BV.
Definition isW (x : scorr) := base_eqb (s_base x) BW.

(* ---- leaves ---- *)
Definition sc_false := mkSC BB true false false true true.
Definition sc_true := mkSC BB true false false false true.
Definition sc_pk_k := mkSC BK false true true true true.
Definition sc_pk_h := mkSC BK false false true true true.
Definition sc_time := mkSC BB true false false false false.
Definition sc_hash := mkSC BB false true true true true.
Definition sc_multi := mkSC BB false false true true true.
Definition sc_multi_a := mkSC BB false false false true true.

Definition sm_false := mkSM true false true true.
Definition sm_true := mkSM false true false true.
Definition sm_key := mkSM true false true true.       (* pk_k pk_h multi multi_a *)
Definition sm_time := mkSM false true false true.
Definition sm_hash := mkSM false false false true.

(* ---- wrappers; [None] = the specification rejects the child type ---- *)
Definition sc_alt (x : scorr) : option scorr :=
  if isB x then Some (mkSC BW false false false (s_d x) (s_u x)) else None.
Definition sc_swap (x : scorr) : option scorr :=
  if isB x && s_o x then Some (mkSC BW false false false (s_d x) (s_u x)) else None.
Definition sc_check (x : scorr) : option scorr :=
  if isK x then Some (mkSC BB false (s_o x) (s_n x) (s_d x) true) else None.
(* [tap]: in Tapscript MINIMALIF is consensus, which makes d:X unit *)
Definition sc_dupif (tap : bool) (x : scorr) : option scorr :=
  if isV x && s_z x then Some (mkSC BB false true true true tap) else None.
Definition sc_verify (x : scorr) : option scorr :=
  if isB x then Some (mkSC BV (s_z x) (s_o x) (s_n x) false false) else None.
Definition sc_nonzero (x : scorr) : option scorr :=
  if isB x && s_n x then Some (mkSC BB false (s_o x) true true (s_u x)) else None.
Definition sc_zeronotequal (x : scorr) : option scorr :=
  if isB x then Some (mkSC BB (s_z x) (s_o x) (s_n x) (s_d x) true) else None.

(* ---- combinators ---- *)
Definition sc_and_v (x y : scorr) : option scorr :=
  if isV x && (isB y || isK y || isV y) then
    Some (mkSC (s_base y) (s_z x && s_z y) (s_z x && s_o y || s_z y && s_o x)
               (s_n x || s_z x && s_n y) false (s_u y))
  else None.
Definition sc_and_b (x y : scorr) : option scorr :=
  if isB x && isW y then
    Some (mkSC BB (s_z x && s_z y) (s_z x && s_o y || s_z y && s_o x)
               (s_n x || s_z x && s_n y) (s_d x && s_d y) true)
  else None.
Definition sc_or_b (x z : scorr) : option scorr :=
  if isB x && s_d x && isW z && s_d z then
    Some (mkSC BB (s_z x && s_z z) (s_z x && s_o z || s_z z && s_o x) false true true)
  else None.
Definition sc_or_c (x z : scorr) : option scorr :=
  if isB x && s_d x && s_u x && isV z then
    Some (mkSC BV (s_z x && s_z z) (s_o x && s_z z) false false false)
  else None.
Definition sc_or_d (x z : scorr) : option scorr :=
  if isB x && s_d x && s_u x && isB z then
    Some (mkSC BB (s_z x && s_z z) (s_o x && s_z z) false (s_d z) (s_u z))
  else None.
Definition sc_or_i (x z : scorr) : option scorr :=
  if base_eqb (s_base x) (s_base z) && (isB x || isK x || isV x) then
    Some (mkSC (s_base x) false (s_z x && s_z z) false (s_d x || s_d z) (s_u x && s_u z))
  else None.
Definition sc_andor (x y z : scorr) : option scorr :=
  if isB x && s_d x && s_u x && base_eqb (s_base y) (s_base z) && (isB y || isK y || isV y) then
    Some (mkSC (s_base y) (s_z x && s_z y && s_z z)
               (s_z x && s_o y && s_o z || s_o x && s_z y && s_z z)
               false (s_d z) (s_u y && s_u z))
  else None.

(* thresh(k, X1..Xn), 1 <= k <= n: X1 is Bdu, the others Wdu;
   z = all z;  o = all z but exactly one, which is o;  d;  u *)
Definition count_if {A} (p : A -> bool) (l : list A) : N := N.of_nat (length (filter p l)).
Definition thresh_child_ok (first : bool) (x : scorr) : bool :=
  (if first then isB x else isW x) && s_d x && s_u x.
Definition sc_thresh (xs : list scorr) : option scorr :=
  match xs with
  | [] => None
  | x1 :: rest =>
    if thresh_child_ok true x1 && forallb (thresh_child_ok false) rest then
      let nz := count_if (fun x => negb (s_z x)) xs in
      Some (mkSC BB (N.eqb nz 0)
                 (N.eqb nz 1 && forallb (fun x => s_z x || s_o x) xs)
                 false true true)
    else None
  end.

(* ---- malleability ---- *)
Definition sm_same (x : small) : small := x.                       (* a: s: c: n: *)
Definition sm_dupif (x : small) := mkSM (s_s x) false (s_f x) (s_m x).   (* e: X is V hence f *)
Definition sm_verify (x : small) := mkSM (s_s x) true false (s_m x).
Definition sm_nonzero (x : small) := mkSM (s_s x) false (s_f x) (s_m x).
Definition sm_and_v (x y : small) :=
  mkSM (s_s x || s_s y) (s_s x || s_f y) false (s_m x && s_m y).
Definition sm_and_b (x y : small) :=
  mkSM (s_s x || s_s y) (s_f x && s_f y || s_s x && s_f x || s_s y && s_f y)
       (s_e x && s_e y && s_s x && s_s y) (s_m x && s_m y).
Definition sm_or_b (x z : small) :=
  mkSM (s_s x && s_s z) false true (s_m x && s_m z && s_e x && s_e z && (s_s x || s_s z)).
Definition sm_or_c (x z : small) :=
  mkSM (s_s x && s_s z) true false (s_m x && s_m z && s_e x && (s_s x || s_s z)).
Definition sm_or_d (x z : small) :=
  mkSM (s_s x && s_s z) (s_f z) (s_e z) (s_m x && s_m z && s_e x && (s_s x || s_s z)).
Definition sm_or_i (x z : small) :=
  mkSM (s_s x && s_s z) (s_f x && s_f z) (s_e x && s_f z || s_f x && s_e z)
       (s_m x && s_m z && (s_s x || s_s z)).
Definition sm_andor (x y z : small) :=
  mkSM (s_s z && (s_s x || s_s y)) (s_f z && (s_s x || s_f y)) (s_e z && (s_s x || s_f y))
       (s_m x && s_m y && s_m z && s_e x && (s_s x || s_s y || s_s z)).
(* thresh: s = at most k-1 children are not s;  e = all children e and s;
   m = all children e and m, and at most k children are not s *)
Definition sm_thresh (k : N) (xs : list small) :=
  let nons := count_if (fun x => negb (s_s x)) xs in
  mkSM (N.ltb nons k) false
       (forallb s_e xs && forallb s_s xs)
       (forallb s_e xs && forallb s_m xs && N.leb nons k).

(* Internal consistency of a property vector: e and f exclusive (a fragment without
   dissatisfaction has no unique one), z excludes o and n. The abstraction always lands here. *)
Definition small_wf (x : small) : bool := negb (s_e x && s_f x).
Definition scorr_wf (x : scorr) : bool := negb (s_z x && (s_o x || s_n x)).
