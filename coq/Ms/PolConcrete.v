(* Model of rust-miniscript `policy::concrete::Policy` as far as C18 needs it:
   `Liftable for Concrete` (src/policy/mod.rs), `check_timelocks` / `timelock_info`
   (src/policy/concrete.rs) and `TimelockInfo::combine_threshold`
   (src/miniscript/types/extra_props.rs).  Mirrors the code as written: `And` lifts with
   the hard-coded threshold 2 (`Threshold::new(2, subs).unwrap()`), `Or` with 1; both
   `unwrap`s are explicit panic outcomes; `timelock_info` combines an `And` with
   k = subs.len().  The relative probabilities of `Or` branches are dropped (no modelled
   function reads them).  Definitions only. *)
From Coq Require Import List NArith Bool Arith.
Import ListNotations.
From Verif Require Import PolSemantic.

Inductive cpol : Type :=
| CUnsat | CTriv
| CKey (k : N) | CAfter (t : N) | COlder (t : N)
| CSha256 (h : N) | CHash256 (h : N) | CRipemd160 (h : N) | CHash160 (h : N)
| CAnd (subs : list cpol)
| COr (subs : list cpol)
| CThresh (k : nat) (subs : list cpol).

(* Threshold invariant for Thresh nodes; And/Or are plain vectors (any length can be built
   through the public enum; FromStr only builds binary ones). *)
Fixpoint cwf (p : cpol) : bool :=
  match p with
  | CThresh k subs => (1 <=? k) && (k <=? length subs) && forallb cwf subs
  | CAnd subs | COr subs => forallb cwf subs
  | _ => true
  end.

(* TimelockInfo *)
Record tli := mkTli { csv_h : bool; csv_t : bool; cltv_h : bool; cltv_t : bool; comb : bool }.
Definition tli_default : tli := mkTli false false false false false.

(* one step of the fold in TimelockInfo::combine_threshold *)
Definition combine_step (k : nat) (acc t : tli) : tli :=
  let height_and_time :=
      (csv_h acc && csv_t t) || (csv_t acc && csv_h t)
      || (cltv_t acc && cltv_h t) || (cltv_h acc && cltv_t t) in
  let comb0 := if 1 <? k then comb acc || height_and_time else comb acc in
  mkTli (csv_h acc || csv_h t) (csv_t acc || csv_t t)
        (cltv_h acc || cltv_h t) (cltv_t acc || cltv_t t)
        (comb0 || comb t).
Definition combine_threshold (k : nat) (l : list tli) : tli :=
  fold_left (combine_step k) l tli_default.

(* Sequence::is_height_locked / is_time_locked; absolute::LockTime::is_block_height *)
Definition seq_is_relative (t : N) : bool := negb (N.testbit t 31).
Definition seq_is_height_locked (t : N) : bool := seq_is_relative t && negb (N.testbit t 22).
Definition seq_is_time_locked (t : N) : bool := seq_is_relative t && N.testbit t 22.
Definition abs_is_block_height (t : N) : bool := (t <? 500000000)%N.

(* Policy::timelock_info (children are combined left to right) *)
Fixpoint timelock_info (p : cpol) : tli :=
  match p with
  | CAfter t => mkTli false false (abs_is_block_height t) (negb (abs_is_block_height t)) false
  | COlder t => mkTli (seq_is_height_locked t) (seq_is_time_locked t) false false false
  | CAnd subs => combine_threshold (length subs) (map timelock_info subs)
  | COr subs => combine_threshold 1 (map timelock_info subs)
  | CThresh k subs => combine_threshold k (map timelock_info subs)
  | _ => tli_default
  end.

(* Policy::check_timelocks: true = Ok(()), false = Err(HeightTimelockCombination) *)
Definition check_timelocks (p : cpol) : bool := negb (comb (timelock_info p)).

(* Liftable for Concrete *)
Inductive lres := LOk (s : spol) | LErrTimelock | LPanic (site : N).

(* subs.iter().map(lift).collect::<Result<Vec<_>, _>>(): first failure wins, left to right *)
Definition lift_list (f : cpol -> lres) : list cpol -> lres + list spol :=
  fix go (l : list cpol) : lres + list spol :=
    match l with
    | [] => inr []
    | c :: r =>
        match f c with
        | LOk s => match go r with inr ss => inr (s :: ss) | inl e => inl e end
        | e => inl e
        end
    end.

Fixpoint lift (p : cpol) : lres :=
  if comb (timelock_info p) then LErrTimelock
  else
    match p with
    | CUnsat => LOk SUnsat
    | CTriv => LOk STriv
    | CKey k => LOk (SKey k)
    | CAfter t => LOk (SAfter t)
    | COlder t => LOk (SOlder t)
    | CSha256 h => LOk (SSha256 h)
    | CHash256 h => LOk (SHash256 h)
    | CRipemd160 h => LOk (SRipemd160 h)
    | CHash160 h => LOk (SHash160 h)
    | CAnd subs =>
        match lift_list lift subs with
        | inl e => e
        | inr ss =>
            (* Threshold::new(2, semantic_subs).unwrap() *)
            if (2 <=? length ss) then LOk (normalized (SThresh 2 ss)) else LPanic 1
        end
    | COr subs =>
        match lift_list lift subs with
        | inl e => e
        | inr ss =>
            (* Threshold::new(1, semantic_subs).unwrap() *)
            if (1 <=? length ss) then LOk (normalized (SThresh 1 ss)) else LPanic 2
        end
    | CThresh k subs =>
        match lift_list lift subs with
        | inl e => e
        | inr ss => LOk (normalized (SThresh k ss))
        end
    end.
