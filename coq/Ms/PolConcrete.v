(* Model of rust-miniscript `policy::concrete::Policy` as far as C18 needs it:
   `Liftable for Concrete` (src/policy/mod.rs), `check_timelocks` / `timelock_info`
   (src/policy/concrete.rs) and `TimelockInfo::combine_threshold`
   (src/miniscript/types/extra_props.rs).  Mirrors the code as written (after the repairs 780a529d, b588aa3a and 243891a5):
   `And` lifts n-of-n, `Or` 1-of-n, the empty ones to Trivial / Unsatisfiable;
   `timelock_info` combines an `And` with k = subs.len() and zeroes unsatisfiable nodes.  The relative probabilities of `Or` branches are dropped (no modelled
   function reads them).  Definitions only. *)
From Coq Require Import List NArith Bool Arith.
Import ListNotations.
From Verif Require Import PolSemantic.

Inductive cpol : Type :=
| CUnsat | CTriv
| CKey (k : N) | CAfter (t : N) | COlder (t : N)
| CSha256 (h : N) | CHash256 (h : N) | CRipemd160 (h : N) | CHash160 (h : N)
| CAnd (subs : list cpol)
| COr (subs : list cpol)
| CThresh (k : nat) (subs : list cpol).

(* Threshold invariant for Thresh nodes; And/Or are plain vectors (any length can be built
   through the public enum; FromStr only builds binary ones). *)
Fixpoint cwf (p : cpol) : bool :=
  match p with
  | CThresh k subs => (1 <=? k) && (k <=? length subs) && forallb cwf subs
  | CAnd subs | COr subs => forallb cwf subs
  | _ => true
  end.

(* TimelockInfo *)
Record tli := mkTli { csv_h : bool; csv_t : bool; cltv_h : bool; cltv_t : bool; comb : bool }.
Definition tli_default : tli := mkTli false false false false false.

(* one step of the fold in TimelockInfo::combine_threshold *)
Definition combine_step (k : nat) (acc t : tli) : tli :=
  let height_and_time :=
      (csv_h acc && csv_t t) || (csv_t acc && csv_h t)
      || (cltv_t acc && cltv_h t) || (cltv_h acc && cltv_t t) in
  let comb0 := if 1 <? k then comb acc || height_and_time else comb acc in
  mkTli (csv_h acc || csv_h t) (csv_t acc || csv_t t)
        (cltv_h acc || cltv_h t) (cltv_t acc || cltv_t t)
        (comb0 || comb t).
Definition combine_threshold (k : nat) (l : list tli) : tli :=
  fold_left (combine_step k) l tli_default.

(* Sequence::is_height_locked / is_time_locked; absolute::LockTime::is_block_height *)
Definition seq_is_relative (t : N) : bool := negb (N.testbit t 31).
Definition seq_is_height_locked (t : N) : bool := seq_is_relative t && negb (N.testbit t 22).
Definition seq_is_time_locked (t : N) : bool := seq_is_relative t && N.testbit t 22.
Definition abs_is_block_height (t : N) : bool := (t <? 500000000)%N.

(* Policy::timelock_info: alongside every TimelockInfo the code tracks whether the sub-policy is
   satisfiable at all (`n_sat >= k`); an unsatisfiable node contributes TimelockInfo::default().
   Children are combined left to right. *)
Fixpoint tl_sat (p : cpol) : bool :=
  match p with
  | CUnsat => false
  | CAnd subs => length subs <=? length (filter (fun b => b) (map tl_sat subs))
  | COr subs => 1 <=? length (filter (fun b => b) (map tl_sat subs))
  | CThresh k subs => k <=? length (filter (fun b => b) (map tl_sat subs))
  | _ => true
  end.

Fixpoint timelock_info (p : cpol) : tli :=
  if tl_sat p then
    match p with
    | CAfter t => mkTli false false (abs_is_block_height t) (negb (abs_is_block_height t)) false
    | COlder t => mkTli (seq_is_height_locked t) (seq_is_time_locked t) false false false
    | CAnd subs => combine_threshold (length subs) (map timelock_info subs)
    | COr subs => combine_threshold 1 (map timelock_info subs)
    | CThresh k subs => combine_threshold k (map timelock_info subs)
    | _ => tli_default
    end
  else tli_default.

(* Policy::check_timelocks: true = Ok(()), false = Err(HeightTimelockCombination) *)
Definition check_timelocks (p : cpol) : bool := negb (comb (timelock_info p)).

(* Liftable for Concrete (after /repo 243891a5): check_timelocks once, for the whole policy, then
   lift_unchecked.  lift_unchecked returns a Result in the code but no arm produces an Err
   (And = Threshold::new(n, subs) or Trivial when that fails, i.e. n = 0; Or = Threshold::new(1, subs)
   or Unsatisfiable when that fails; Thresh keeps its k), so it is modelled as a total function;
   every level normalizes. *)
Inductive lres := LOk (s : spol) | LErrTimelock.

Fixpoint lift_unchecked (p : cpol) : spol :=
  normalized
    match p with
    | CUnsat => SUnsat
    | CTriv => STriv
    | CKey k => SKey k
    | CAfter t => SAfter t
    | COlder t => SOlder t
    | CSha256 h => SSha256 h
    | CHash256 h => SHash256 h
    | CRipemd160 h => SRipemd160 h
    | CHash160 h => SHash160 h
    | CAnd subs =>
        let ss := map lift_unchecked subs in
        if (1 <=? length ss) then SThresh (length ss) ss else STriv
    | COr subs =>
        let ss := map lift_unchecked subs in
        if (1 <=? length ss) then SThresh 1 ss else SUnsat
    | CThresh k subs => SThresh k (map lift_unchecked subs)
    end.

Definition lift (p : cpol) : lres :=
  if comb (timelock_info p) then LErrTimelock else LOk (lift_unchecked p).
