(* Specification side of C12: the order on parameter sets, the defect each switch names,
   the figure each limit bounds, and the rules of each script context.  Hand-written from
   the property text; refers to the model only through the summary record (the facts).
   No proofs in this file. *)
From Verif Require Export ValidateModel.
Local Open Scope N_scope.

(* ------------------------------------------------------------------ fieldwise order *)
Definition ble (a b : bool) : Prop := a = true -> b = true.

Record vp_le (p q : vparams) : Prop := mkLe {
  le_compressed : ble (allow_compressed_keys p) (allow_compressed_keys q);
  le_dup : ble (allow_duplicate_keys p) (allow_duplicate_keys q);
  le_dup_if : ble (allow_dup_if p) (allow_dup_if q);
  le_mall : ble (allow_malleability p) (allow_malleability q);
  le_multi : ble (allow_multi p) (allow_multi q);
  le_multi_a : ble (allow_multi_a p) (allow_multi_a q);
  le_mixed : ble (allow_mixed_time_locks p) (allow_mixed_time_locks q);
  le_or_i : ble (allow_or_i p) (allow_or_i q);
  le_raw_pkh : ble (allow_raw_pkh p) (allow_raw_pkh q);
  le_sigless : ble (allow_sigless_branch p) (allow_sigless_branch q);
  le_non_b : ble (allow_non_b p) (allow_non_b q);
  le_uncompressed : ble (allow_uncompressed_keys p) (allow_uncompressed_keys q);
  le_unsat : ble (allow_unsatisfiable p) (allow_unsatisfiable q);
  le_x_only : ble (allow_x_only_keys p) (allow_x_only_keys q);
  le_multipath : ble (allow_inconsistent_multipath_keys p) (allow_inconsistent_multipath_keys q);
  le_ops : max_opcode_count p <= max_opcode_count q;
  le_size : max_script_size p <= max_script_size q;
  le_wit : max_witness_items p <= max_witness_items q;
  le_stack : max_exec_stack_size p <= max_exec_stack_size q;
  le_depth : max_recursive_depth p <= max_recursive_depth q }.

(* ------------------------------------------------------------------ switches and defects *)
Inductive switch :=
| SwCompressed | SwDup | SwDupIf | SwMall | SwMulti | SwMultiA | SwMixed | SwOrI | SwRawPkh
| SwSigless | SwNonB | SwUncompressed | SwUnsat | SwXOnly | SwMultipath.

Definition sw_get (b : switch) (p : vparams) : bool :=
  match b with
  | SwCompressed => allow_compressed_keys p | SwDup => allow_duplicate_keys p
  | SwDupIf => allow_dup_if p | SwMall => allow_malleability p | SwMulti => allow_multi p
  | SwMultiA => allow_multi_a p | SwMixed => allow_mixed_time_locks p | SwOrI => allow_or_i p
  | SwRawPkh => allow_raw_pkh p | SwSigless => allow_sigless_branch p | SwNonB => allow_non_b p
  | SwUncompressed => allow_uncompressed_keys p | SwUnsat => allow_unsatisfiable p
  | SwXOnly => allow_x_only_keys p | SwMultipath => allow_inconsistent_multipath_keys p
  end.

Definition sw_eqb (a b : switch) : bool :=
  match a, b with
  | SwCompressed, SwCompressed | SwDup, SwDup | SwDupIf, SwDupIf | SwMall, SwMall
  | SwMulti, SwMulti | SwMultiA, SwMultiA | SwMixed, SwMixed | SwOrI, SwOrI
  | SwRawPkh, SwRawPkh | SwSigless, SwSigless | SwNonB, SwNonB
  | SwUncompressed, SwUncompressed | SwUnsat, SwUnsat | SwXOnly, SwXOnly
  | SwMultipath, SwMultipath => true
  | _, _ => false
  end.

(* p with switch b set to v, everything else unchanged *)
Definition sw_set (b : switch) (v : bool) (p : vparams) : vparams :=
  let f x := if sw_eqb b x then v else sw_get x p in
  {| allow_compressed_keys := f SwCompressed; allow_duplicate_keys := f SwDup;
     allow_dup_if := f SwDupIf; allow_malleability := f SwMall; allow_multi := f SwMulti;
     allow_multi_a := f SwMultiA; allow_mixed_time_locks := f SwMixed; allow_or_i := f SwOrI;
     allow_raw_pkh := f SwRawPkh; allow_sigless_branch := f SwSigless; allow_non_b := f SwNonB;
     allow_uncompressed_keys := f SwUncompressed; allow_unsatisfiable := f SwUnsat;
     allow_x_only_keys := f SwXOnly; allow_inconsistent_multipath_keys := f SwMultipath;
     max_opcode_count := max_opcode_count p; max_script_size := max_script_size p;
     max_witness_items := max_witness_items p; max_exec_stack_size := max_exec_stack_size p;
     max_recursive_depth := max_recursive_depth p |}.

Definition all_switches : list switch :=
  [SwCompressed; SwDup; SwDupIf; SwMall; SwMulti; SwMultiA; SwMixed; SwOrI; SwRawPkh;
   SwSigless; SwNonB; SwUncompressed; SwUnsat; SwXOnly; SwMultipath].
Definition all_on (p : vparams) : Prop := forall b, sw_get b p = true.

Definition has_kind (f : nkind -> bool) (s : summary) : bool :=
  existsb (fun n => f (n_kind n)) (s_nodes s).
Definition is_multi (k : nkind) := match k with KMulti | KSortedMulti => true | _ => false end.
Definition is_multi_a (k : nkind) := match k with KMultiA | KSortedMultiA => true | _ => false end.
Definition is_dupif (k : nkind) := match k with KDupIf => true | _ => false end.
Definition is_ori (k : nkind) := match k with KOrI => true | _ => false end.
Definition is_rawpkh (k : nkind) := match k with KRawPkH => true | _ => false end.

(* two multipath keys (>= 2 derivation paths) with different numbers of paths *)
Definition multipath_mismatch (ks : list keyinfo) : Prop :=
  exists k1 k2, In k1 ks /\ In k2 ks /\ 2 <= k_paths k1 /\ 2 <= k_paths k2 /\ k_paths k1 <> k_paths k2.

(* "the stated defect" of each switch, as a proposition about the script's facts.
   duplicate keys: some key value occurs twice among the keys of the script;
   mixed locks / malleable / sigless: the facts computed by C18 / C05-C06 machinery;
   fragment switches: the constructor occurs; key switches: a key of that kind occurs. *)
Definition defect (b : switch) (s : summary) : Prop :=
  match b with
  | SwCompressed => exists k, In k (all_keys (s_nodes s)) /\ k_uncompressed k = false /\ k_xonly k = false
  | SwDup => ~ NoDup (map k_id (all_keys (s_nodes s)))
  | SwDupIf => has_kind is_dupif s = true
  | SwMall => s_nonmall s = false
  | SwMulti => has_kind is_multi s = true
  | SwMultiA => has_kind is_multi_a s = true
  | SwMixed => s_mixed_locks s = true
  | SwOrI => has_kind is_ori s = true
  | SwRawPkh => has_kind is_rawpkh s = true
  | SwSigless => s_signed s = false
  | SwNonB => s_base s <> BB
  | SwUncompressed => exists k, In k (all_keys (s_nodes s)) /\ k_uncompressed k = true
  | SwUnsat => s_sat s = None
  | SwXOnly => exists k, In k (all_keys (s_nodes s)) /\ k_xonly k = true
  | SwMultipath => multipath_mismatch (all_keys (s_nodes s))
  end.

(* the error class of each switch *)
Definition sw_err (b : switch) (s : summary) : verr :=
  match b with
  | SwCompressed => EKeyCompressed | SwDup => EDuplicateKeys | SwDupIf => EIllegalDupIf
  | SwMall => EMalleable | SwMulti => EIllegalMulti | SwMultiA => EIllegalMultiA
  | SwMixed => EMixedTimeLocks | SwOrI => EIllegalOrI | SwRawPkh => EIllegalRawPkh
  | SwSigless => ESiglessBranch | SwNonB => ENonBase (s_base s)
  | SwUncompressed => EKeyUncompressed | SwUnsat => EUnsatisfiable | SwXOnly => EKeyXOnly
  | SwMultipath => EMultipathLenMismatch
  end.

(* ------------------------------------------------------------------ limits and figures *)
Inductive limit := LDepth | LSize | LWit | LOps | LStack.

Definition lim_get (l : limit) (p : vparams) : N :=
  match l with
  | LDepth => max_recursive_depth p | LSize => max_script_size p | LWit => max_witness_items p
  | LOps => max_opcode_count p | LStack => max_exec_stack_size p
  end.

(* The figure each limit bounds.  The three satisfaction figures range over satisfaction
   paths; a script without any satisfaction has none, hence figure 0 ("at least one
   satisfaction path has more than ..." is vacuous). The witness figure counts the script
   itself (max_satisfaction_witness_elements = count + 1). *)
Definition lim_fig (l : limit) (s : summary) : N :=
  match l with
  | LDepth => s_tree_height s
  | LSize => s_script_size s
  | LWit => match s_sat s with None => 0 | Some d => sf_wit_count d + 1 end
  | LOps => match s_sat s with None => 0 | Some d => sf_op_count d end
  | LStack => match s_sat s with None => 0 | Some d => sf_wit_count d + sf_exec_stack d end
  end.
Definition lim_err (l : limit) : verr :=
  match l with
  | LDepth => EMaxRecursiveDepth | LSize => EMaxScriptSize | LWit => EMaxWitnessItems
  | LOps => EMaxOpCount | LStack => EMaxExecStack
  end.
Definition all_limits : list limit := [LDepth; LSize; LWit; LOps; LStack].
Definition within (l : limit) (p : vparams) (s : summary) : Prop := lim_fig l s <= lim_get l p.

(* ------------------------------------------------------------------ context rules *)
(* key kinds a context permits (BIP 380-386 / the Miniscript specification):
   pre-segwit: 33- or 65-byte keys; segwit v0: 33-byte only; tapscript: x-only (a 33-byte
   key expression is used through its x coordinate), never 65-byte *)
Definition key_legal (c : ctx) (k : keyinfo) : Prop :=
  match c with
  | CBare | CLegacy => k_xonly k = false
  | CSegwitv0 => k_uncompressed k = false /\ k_xonly k = false
  | CTap => k_uncompressed k = false
  end.

(* multisig flavour and conditional fragments: multi only pre-taproot, multi_a only in
   tapscript; d: and or_i need MINIMALIF, which pre-segwit script does not enforce *)
Definition kind_legal (c : ctx) (k : nkind) : Prop :=
  match k, c with
  | (KDupIf | KOrI), (CBare | CLegacy) => False
  | (KMultiA | KSortedMultiA), (CBare | CLegacy | CSegwitv0) => False
  | (KMulti | KSortedMulti), CTap => False
  | _, _ => True
  end.

(* consensus resource rules per context, on the figures *)
Definition ctx_script_size_limit (c : ctx) : option N :=
  match c with
  | CLegacy => Some 520          (* P2SH redeem script is one stack element *)
  | CBare => Some 10000
  | CSegwitv0 => None            (* not part of Segwitv0::CONSENSUS; see obeys_parse *)
  | CTap => None
  end.
Definition ctx_op_limit (c : ctx) : option N :=
  match c with CTap => None | _ => Some 201 end.
Definition ctx_stack_limit (c : ctx) : option N :=
  match c with CSegwitv0 => Some 1000 | _ => None end.
Definition opt_le (x : N) (o : option N) : Prop := match o with None => True | Some m => x <= m end.

(* "obeys the rules of its script context", the part decided by validate *)
Record obeys (c : ctx) (s : summary) : Prop := mkObeys {
  ob_base : s_base s = BB;
  ob_kinds : forall n, In n (s_nodes s) -> kind_legal c (n_kind n);
  ob_keys : forall k, In k (all_keys (s_nodes s)) -> key_legal c k;
  ob_depth : s_tree_height s <= 402;
  ob_size : opt_le (s_script_size s) (ctx_script_size_limit c);
  ob_ops : opt_le (lim_fig LOps s) (ctx_op_limit c);
  ob_stack : opt_le (lim_fig LStack s) (ctx_stack_limit c) }.

(* the part decided by the string/tree stage *)
Definition thresh_in_range (t : N * N * N) : Prop :=
  match t with (M, k, n) => 1 <= k /\ k <= n /\ (M = 0 \/ n <= M) end.
Definition flavour_legal (c : ctx) (k : nkind) : Prop :=
  match k, c with
  | (KMultiA | KSortedMultiA), (CBare | CLegacy | CSegwitv0) => False
  | (KMulti | KSortedMulti), CTap => False
  | _, _ => True
  end.
(* the kinds whose keys the tree stage looks at: every key-bearing kind *)
Definition key_checked_kind (k : nkind) : bool :=
  match k with KPkK | KPkH | KMulti | KSortedMulti | KMultiA | KSortedMultiA => true | _ => false end.

Record obeys_parse (c : ctx) (x : expr) : Prop := mkObeysParse {
  op_flavour : forall n, In n (s_nodes (x_sum x)) -> flavour_legal c (n_kind n);
  op_keys : forall n, In n (s_nodes (x_sum x)) -> key_checked_kind (n_kind n) = true ->
            forall k, In k (n_keys n) -> key_legal c k;
  op_thresholds : forall t, In t (x_thresholds x) -> thresh_in_range t;
  op_after : forall n, In n (x_afters x) -> 1 <= n /\ n < 2147483648;
  op_older : forall n, In n (x_olders x) -> n < 4294967296 -> 1 <= n /\ n < 2147483648;
  op_typed : x_typed x = true;
  op_depth : s_tree_height (x_sum x) <= 402;
  op_cost : forall n, In n (s_nodes (x_sum x)) ->
            n_pk_cost n <= match c with CLegacy => 520 | CSegwitv0 => 3600 | CBare => 10000 | CTap => 4000000 end }.
