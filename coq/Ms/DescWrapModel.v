(* Model of the output-type wrappers of rust-miniscript (C16):
     src/descriptor/{mod,bare,segwitv0,sh}.rs, tr/mod.rs (script_pubkey only),
     src/descriptor/key.rs (wildcard replacement, multipath expansion, printing of paths),
     src/primitives/threshold.rs (into_sorted_bip67 and its xonly variant), src/miniscript/astelem.rs
     (pk / pkh / multi / sortedmulti / multi_a / sortedmulti_a arms), and the pieces of
     rust-bitcoin's script::Builder they call (push_slice, push_int, new_p2pkh, ...).

   Hand-written; every function follows the Rust code (which builder calls, in which order;
   which checks come first).  Cryptography is ABSTRACT: hash160, sha256, the taproot
   merkle root and tweak, and BIP32 child-key derivation are Section variables.
   No proofs in this file.

   bytes = list N, every element < 256 (a hypothesis of the theorems that need it). *)
From Coq Require Export List Bool NArith.
Export ListNotations.
Local Open Scope N_scope.

Definition bytes := list N.
Definition blen (b : bytes) : N := N.of_nat (length b).

Fixpoint bytes_eqb (a b : bytes) : bool :=
  match a, b with
  | [], [] => true
  | x :: a', y :: b' => N.eqb x y && bytes_eqb a' b'
  | _, _ => false
  end.

(* Lexicographic <= on byte strings: Rust's Ord on [u8; N] / Vec<u8>. *)
Fixpoint bytes_leb (a b : bytes) : bool :=
  match a, b with
  | [], _ => true
  | _ :: _, [] => false
  | x :: a', y :: b' => if N.ltb x y then true else if N.eqb x y then bytes_leb a' b' else false
  end.

(* ------------------------------------------------------------------------------------
   rust-bitcoin script::Builder (bitcoin 0.32, blockdata/script/{builder,owned}.rs)
   ------------------------------------------------------------------------------------ *)
(* ScriptBuf::push_slice_no_opt: the opcode / length prefix, then the data.
   For len >= 2^32 the Rust code panics; [push_len_ok] is that guard. *)
Definition push_len_ok (d : bytes) : bool := N.ltb (blen d) 4294967296.
Definition push_prefix (n : N) : bytes :=
  if N.ltb n 76 then [n]
  else if N.ltb n 256 then [76; n]
  else if N.ltb n 65536 then [77; N.modulo n 256; N.div n 256]
  else [78; N.modulo n 256; N.modulo (N.div n 256) 256; N.modulo (N.div n 65536) 256; N.div n 16777216].
Definition push_slice (d : bytes) : bytes := push_prefix (blen d) ++ d.

(* write_scriptint for a non-negative value: little-endian magnitude, plus a 0x00 byte
   when the top bit of the last byte is set.  Fuel 9 covers every i64. *)
Fixpoint le_bytes (fuel : nat) (n : N) : bytes :=
  match fuel with
  | O => []
  | S f => if N.eqb n 0 then [] else N.modulo n 256 :: le_bytes f (N.div n 256)
  end.
Definition scriptint (n : N) : bytes :=
  let b := le_bytes 9%nat n in
  match rev b with
  | [] => []
  | top :: _ => if N.leb 128 top then b ++ [0] else b
  end.
(* Builder::push_int for a non-negative argument (k and n of multi are usize as i64). *)
Definition push_int (n : N) : bytes :=
  if N.leb 1 n && N.leb n 16 then [80 + n]
  else if N.eqb n 0 then [0]
  else push_slice (scriptint n).

Definition OP_0 := 0%N.
Definition OP_1 := 81%N.
Definition OP_DUP := 118%N.
Definition OP_EQUAL := 135%N.
Definition OP_EQUALVERIFY := 136%N.
Definition OP_NUMEQUAL := 156%N.
Definition OP_HASH160 := 169%N.
Definition OP_CHECKSIG := 172%N.
Definition OP_CHECKMULTISIG := 174%N.
Definition OP_CHECKSIGADD := 186%N.

(* ScriptBuf::new_p2pkh / new_p2sh / new_witness_program (builder form). *)
Definition new_p2pkh (h : bytes) : bytes :=
  [OP_DUP] ++ [OP_HASH160] ++ push_slice h ++ [OP_EQUALVERIFY] ++ [OP_CHECKSIG].
Definition new_p2sh (h : bytes) : bytes := [OP_HASH160] ++ push_slice h ++ [OP_EQUAL].
Definition new_witness_program (version_opcode : N) (prog : bytes) : bytes :=
  [version_opcode] ++ push_slice prog.

(* ------------------------------------------------------------------------------------
   SPECIFICATION side: the standard output templates as literal byte strings
   (BIP13/16, BIP141, BIP341) and a reader for one push instruction.
   ------------------------------------------------------------------------------------ *)
Definition std_p2pk (key : bytes) : bytes := [blen key] ++ key ++ [172].
Definition std_p2pkh (h20 : bytes) : bytes := [118; 169; 20] ++ h20 ++ [136; 172].
Definition std_p2sh (h20 : bytes) : bytes := [169; 20] ++ h20 ++ [135].
Definition std_p2wpkh (h20 : bytes) : bytes := [0; 20] ++ h20.
Definition std_p2wsh (h32 : bytes) : bytes := [0; 32] ++ h32.
Definition std_p2tr (x32 : bytes) : bytes := [81; 32] ++ x32.

(* split n l = Some (first n elements, rest) when l is long enough *)
Fixpoint split_at (n : nat) (l : bytes) : option (bytes * bytes) :=
  match n, l with
  | O, _ => Some ([], l)
  | S n', x :: l' => match split_at n' l' with Some (a, b) => Some (x :: a, b) | None => None end
  | S _, [] => None
  end.
(* One data-push instruction of Bitcoin Script (opcodes 0x01..0x4e), as the interpreter
   reads it: returns (pushed data, rest of the script).  OP_0 reads as the empty push. *)
Definition parse_push (s : bytes) : option (bytes * bytes) :=
  match s with
  | [] => None
  | op :: r =>
      if N.ltb op 76 then split_at (N.to_nat op) r
      else if N.eqb op 76 then
        match r with n :: r' => split_at (N.to_nat n) r' | _ => None end
      else if N.eqb op 77 then
        match r with a :: b :: r' => split_at (N.to_nat (a + 256 * b)) r' | _ => None end
      else if N.eqb op 78 then
        match r with a :: b :: c :: d :: r' =>
          split_at (N.to_nat (a + 256 * b + 65536 * c + 16777216 * d)) r' | _ => None end
      else None
  end.
(* The shortest of the four push forms is used (consensus-standard MINIMALDATA for the
   length prefix; single-byte special cases are not produced by push_slice). *)
Definition minimal_prefix (s : bytes) : bool :=
  match s with
  | [] => false
  | op :: r =>
      if N.ltb op 76 then true
      else if N.eqb op 76 then match r with n :: _ => N.leb 76 n | _ => false end
      else if N.eqb op 77 then match r with a :: b :: _ => N.leb 256 (a + 256 * b) | _ => false end
      else if N.eqb op 78 then
        match r with a :: b :: c :: d :: _ => N.leb 65536 (a + 256 * b + 65536 * c + 16777216 * d) | _ => false end
      else false
  end.

(* ------------------------------------------------------------------------------------
   Public keys as the encoder sees them (ToPublicKey)
   ------------------------------------------------------------------------------------ *)
Record pubkey := mkPk {
  pk_ser : bytes;        (* to_public_key().to_bytes(): 33 bytes, or 65 if uncompressed *)
  pk_comp : bytes;       (* to_public_key().inner.serialize(): always the 33-byte form *)
  pk_x : bytes;          (* to_x_only_pubkey().serialize(): 32 bytes *)
  pk_compressed : bool   (* to_public_key().compressed *)
}.
Definition pubkey_eqb (a b : pubkey) : bool :=
  bytes_eqb (pk_ser a) (pk_ser b) && bytes_eqb (pk_comp a) (pk_comp b) && bytes_eqb (pk_x a) (pk_x b)
  && Bool.eqb (pk_compressed a) (pk_compressed b).

(* Vec::sort_by_key (stable) as insertion sort: an element goes before the first later
   element whose key is >= its own. *)
Section Sort.
  Context {A : Type} (key : A -> bytes).
  Fixpoint insert_by (x : A) (l : list A) : list A :=
    match l with
    | [] => [x]
    | y :: l' => if bytes_leb (key x) (key y) then x :: y :: l' else y :: insert_by x l'
    end.
  Fixpoint sort_by (l : list A) : list A :=
    match l with
    | [] => []
    | x :: l' => insert_by x (sort_by l')
    end.
End Sort.
(* Threshold::into_sorted_bip67 / into_sorted_bip67_xonly *)
Definition into_sorted_bip67 (ks : list pubkey) : list pubkey := sort_by pk_comp ks.
Definition into_sorted_bip67_xonly (ks : list pubkey) : list pubkey := sort_by pk_x ks.

(* ------------------------------------------------------------------------------------
   Descriptors, polymorphic in the key type (Descriptor<Pk>)
   ------------------------------------------------------------------------------------ *)
(* The fragments whose encoding belongs to this property; everything else is MsOther:
   its keys and its encoding as a function of the keys' public keys (the encoder proper
   is C04's subject). *)
Inductive ms (K : Type) :=
| MsPk (k : K)                         (* pk(K)  = c:pk_k(K) *)
| MsPkh (k : K)                        (* pkh(K) = c:pk_h(K) *)
| MsMulti (thr : N) (ks : list K)
| MsSortedMulti (thr : N) (ks : list K)
| MsMultiA (thr : N) (ks : list K)
| MsSortedMultiA (thr : N) (ks : list K)
| MsOther (ks : list K) (enc : list pubkey -> bytes).
Arguments MsPk {K} k. Arguments MsPkh {K} k. Arguments MsMulti {K} thr ks.
Arguments MsSortedMulti {K} thr ks. Arguments MsMultiA {K} thr ks.
Arguments MsSortedMultiA {K} thr ks. Arguments MsOther {K} ks enc.

Inductive desc (K : Type) :=
| DBare (m : ms K)
| DPkh (k : K)
| DWpkh (k : K)
| DSh (m : ms K)            (* sh(miniscript), Legacy context *)
| DShWsh (m : ms K)
| DShWpkh (k : K)
| DWsh (m : ms K)
| DTr (leaves : list (N * ms K)) (ik : K).   (* leaves in depth-first order with depths *)
Arguments DBare {K} m. Arguments DPkh {K} k. Arguments DWpkh {K} k. Arguments DSh {K} m.
Arguments DShWsh {K} m. Arguments DShWpkh {K} k. Arguments DWsh {K} m. Arguments DTr {K} leaves ik.

Definition ms_keys {K} (m : ms K) : list K :=
  match m with
  | MsPk k | MsPkh k => [k]
  | MsMulti _ ks | MsSortedMulti _ ks | MsMultiA _ ks | MsSortedMultiA _ ks | MsOther ks _ => ks
  end.
(* for_each_key order: miniscript keys left to right; for tr the leaves first, then the
   internal key (tr/mod.rs ForEachKey, and the same order in Tr::translate_pk). *)
Definition desc_keys {K} (d : desc K) : list K :=
  match d with
  | DBare m | DSh m | DShWsh m | DWsh m => ms_keys m
  | DPkh k | DWpkh k | DShWpkh k => [k]
  | DTr leaves ik => flat_map (fun l => ms_keys (snd l)) leaves ++ [ik]
  end.

Definition ms_map {K K'} (f : K -> K') (m : ms K) : ms K' :=
  match m with
  | MsPk k => MsPk (f k)
  | MsPkh k => MsPkh (f k)
  | MsMulti t ks => MsMulti t (map f ks)
  | MsSortedMulti t ks => MsSortedMulti t (map f ks)
  | MsMultiA t ks => MsMultiA t (map f ks)
  | MsSortedMultiA t ks => MsSortedMultiA t (map f ks)
  | MsOther ks enc => MsOther (map f ks) enc
  end.
Definition desc_map {K K'} (f : K -> K') (d : desc K) : desc K' :=
  match d with
  | DBare m => DBare (ms_map f m)
  | DPkh k => DPkh (f k)
  | DWpkh k => DWpkh (f k)
  | DSh m => DSh (ms_map f m)
  | DShWsh m => DShWsh (ms_map f m)
  | DShWpkh k => DShWpkh (f k)
  | DWsh m => DWsh (ms_map f m)
  | DTr leaves ik => DTr (map (fun l => (fst l, ms_map f (snd l))) leaves) (f ik)
  end.

(* Translator with a fallible key function (translate_pk): the first failing key, in
   for_each_key order, decides the error. *)
Inductive kerr := EWildcard | EMultipath | EHardenedStep | ENoWildcard | ELenMismatch.
Inductive kres (A : Type) := KOk (a : A) | KErr (e : kerr).
Arguments KOk {A} a. Arguments KErr {A} e.
Definition kerr_eqb (a b : kerr) : bool :=
  match a, b with
  | EWildcard, EWildcard | EMultipath, EMultipath | EHardenedStep, EHardenedStep
  | ENoWildcard, ENoWildcard | ELenMismatch, ELenMismatch => true
  | _, _ => false
  end.
Fixpoint try_map {K K'} (f : K -> kres K') (l : list K) : kres (list K') :=
  match l with
  | [] => KOk []
  | x :: r => match f x with
              | KErr e => KErr e
              | KOk y => match try_map f r with KErr e => KErr e | KOk ys => KOk (y :: ys) end
              end
  end.
Definition kbind {A B} (x : kres A) (f : A -> kres B) : kres B :=
  match x with KOk a => f a | KErr e => KErr e end.
Definition ms_try_map {K K'} (f : K -> kres K') (m : ms K) : kres (ms K') :=
  match m with
  | MsPk k => kbind (f k) (fun k' => KOk (MsPk k'))
  | MsPkh k => kbind (f k) (fun k' => KOk (MsPkh k'))
  | MsMulti t ks => kbind (try_map f ks) (fun ks' => KOk (MsMulti t ks'))
  | MsSortedMulti t ks => kbind (try_map f ks) (fun ks' => KOk (MsSortedMulti t ks'))
  | MsMultiA t ks => kbind (try_map f ks) (fun ks' => KOk (MsMultiA t ks'))
  | MsSortedMultiA t ks => kbind (try_map f ks) (fun ks' => KOk (MsSortedMultiA t ks'))
  | MsOther ks enc => kbind (try_map f ks) (fun ks' => KOk (MsOther ks' enc))
  end.
Definition desc_try_map {K K'} (f : K -> kres K') (d : desc K) : kres (desc K') :=
  match d with
  | DBare m => kbind (ms_try_map f m) (fun m' => KOk (DBare m'))
  | DPkh k => kbind (f k) (fun k' => KOk (DPkh k'))
  | DWpkh k => kbind (f k) (fun k' => KOk (DWpkh k'))
  | DSh m => kbind (ms_try_map f m) (fun m' => KOk (DSh m'))
  | DShWsh m => kbind (ms_try_map f m) (fun m' => KOk (DShWsh m'))
  | DShWpkh k => kbind (f k) (fun k' => KOk (DShWpkh k'))
  | DWsh m => kbind (ms_try_map f m) (fun m' => KOk (DWsh m'))
  | DTr leaves ik =>
      kbind (try_map (fun l => kbind (ms_try_map f (snd l)) (fun m' => KOk (fst l, m'))) leaves)
        (fun leaves' => kbind (f ik) (fun ik' => KOk (DTr leaves' ik')))
  end.

(* ------------------------------------------------------------------------------------
   Script construction over abstract hashes
   ------------------------------------------------------------------------------------ *)
Inductive sigctx := Ecdsa | Schnorr.

Section Scripts.
  Variable hash160 : bytes -> bytes.        (* RIPEMD160(SHA256(.)) *)
  Variable sha256 : bytes -> bytes.
  (* taproot: merkle root of the (depth, leaf script) list, and the tweaked output key from
     the x-only internal key and the optional root (BIP341; the subject of C15) *)
  Variable tap_root : list (N * bytes) -> option bytes.
  Variable tap_output_key : bytes -> option bytes -> bytes.

  (* util.rs MsKeyBuilder *)
  Definition push_ms_key (c : sigctx) (k : pubkey) : bytes :=
    match c with Ecdsa => push_slice (pk_ser k) | Schnorr => push_slice (pk_x k) end.
  Definition push_ms_key_hash (c : sigctx) (k : pubkey) : bytes :=
    match c with Ecdsa => push_slice (hash160 (pk_ser k)) | Schnorr => push_slice (hash160 (pk_x k)) end.

  (* astelem.rs: None is a panic site (debug_assert on the context's signature type;
     `expect` on the first multi_a key). *)
  Definition encode_multi (c : sigctx) (thr : N) (ks iter : list pubkey) : option bytes :=
    match c with
    | Schnorr => None
    | Ecdsa => Some (push_int thr ++ flat_map (fun k => push_slice (pk_ser k)) iter
                     ++ push_int (N.of_nat (length ks)) ++ [OP_CHECKMULTISIG])
    end.
  Definition encode_multi_a (c : sigctx) (thr : N) (iter : list pubkey) : option bytes :=
    match c with
    | Ecdsa => None
    | Schnorr =>
        match iter with
        | [] => None
        | k0 :: rest =>
            Some (push_ms_key c k0 ++ [OP_CHECKSIG]
                  ++ flat_map (fun k => push_ms_key c k ++ [OP_CHECKSIGADD]) rest
                  ++ push_int thr ++ [OP_NUMEQUAL])
        end
    end.
  Definition encode_ms (c : sigctx) (m : ms pubkey) : option bytes :=
    match m with
    | MsPk k => Some (push_ms_key c k ++ [OP_CHECKSIG])
    | MsPkh k => Some ([OP_DUP] ++ [OP_HASH160] ++ push_ms_key_hash c k ++ [OP_EQUALVERIFY] ++ [OP_CHECKSIG])
    | MsMulti thr ks => encode_multi c thr ks ks
    | MsSortedMulti thr ks => encode_multi c thr ks (into_sorted_bip67 ks)
    | MsMultiA thr ks => encode_multi_a c thr ks
    | MsSortedMultiA thr ks => encode_multi_a c thr (into_sorted_bip67_xonly ks)
    | MsOther ks enc => Some (enc ks)
    end.

  Definition to_p2wsh (s : bytes) : bytes := new_witness_program OP_0 (sha256 s).
  Definition to_p2sh (s : bytes) : bytes := new_p2sh (hash160 s).
  Definition omap {A B} (f : A -> B) (x : option A) : option B :=
    match x with Some a => Some (f a) | None => None end.

  (* bare.rs Pkh, segwitv0.rs Wpkh/Wsh (None = the `expect` on an uncompressed key) *)
  Definition pkh_spk (k : pubkey) : bytes := new_p2pkh (hash160 (pk_ser k)).
  Definition wpkh_spk (k : pubkey) : option bytes :=
    if pk_compressed k then Some (new_witness_program OP_0 (hash160 (pk_ser k))) else None.
  Definition wpkh_script_code (k : pubkey) : bytes := new_p2pkh (hash160 (pk_ser k)).
  Definition wsh_inner (m : ms pubkey) : option bytes := encode_ms Ecdsa m.
  Definition wsh_spk (m : ms pubkey) : option bytes := omap to_p2wsh (wsh_inner m).

  Definition tr_leaf_scripts (leaves : list (N * ms pubkey)) : option (list (N * bytes)) :=
    fold_right (fun l acc => match encode_ms Schnorr (snd l), acc with
                             | Some s, Some r => Some ((fst l, s) :: r)
                             | _, _ => None end) (Some []) leaves.

  (* Descriptor::script_pubkey *)
  Definition script_pubkey (d : desc pubkey) : option bytes :=
    match d with
    | DBare m => encode_ms Ecdsa m
    | DPkh k => Some (pkh_spk k)
    | DWpkh k => wpkh_spk k
    | DWsh m => wsh_spk m
    | DSh m => omap to_p2sh (encode_ms Ecdsa m)
    | DShWsh m => omap to_p2sh (wsh_spk m)
    | DShWpkh k => omap to_p2sh (wpkh_spk k)
    | DTr leaves ik =>
        match tr_leaf_scripts leaves with
        | None => None
        | Some ls => Some ([OP_1] ++ push_slice (tap_output_key (pk_x ik) (tap_root ls)))
        end
    end.

  (* Descriptor::explicit_script; the outer option is the panic channel, the inner one
     the Err(TrNoScriptCode) result. *)
  Definition explicit_script (d : desc pubkey) : option (option bytes) :=
    match d with
    | DBare m => omap Some (encode_ms Ecdsa m)
    | DPkh k => Some (Some (pkh_spk k))
    | DWpkh k => omap Some (wpkh_spk k)
    | DWsh m => omap Some (wsh_inner m)
    | DSh m => omap Some (encode_ms Ecdsa m)          (* Sh::inner_script *)
    | DShWsh m => omap Some (wsh_inner m)
    | DShWpkh k => omap Some (wpkh_spk k)
    | DTr _ _ => Some None
    end.

  (* Descriptor::script_code (ecdsa_sighash_script_code of each wrapper) *)
  Definition script_code (d : desc pubkey) : option (option bytes) :=
    match d with
    | DBare m => omap Some (encode_ms Ecdsa m)
    | DPkh k => Some (Some (pkh_spk k))
    | DWpkh k => Some (Some (wpkh_script_code k))
    | DWsh m => omap Some (wsh_inner m)
    | DSh m => omap Some (encode_ms Ecdsa m)
    | DShWsh m => omap Some (wsh_inner m)
    | DShWpkh k => Some (Some (wpkh_script_code k))
    | DTr _ _ => Some None
    end.

  (* Descriptor::unsigned_script_sig *)
  Definition unsigned_script_sig (d : desc pubkey) : option bytes :=
    match d with
    | DShWsh m => omap (fun w => push_slice (to_p2wsh w)) (wsh_inner m)
    | DShWpkh k => omap push_slice (wpkh_spk k)
    | _ => Some []
    end.
End Scripts.

(* ------------------------------------------------------------------------------------
   Descriptor keys (key.rs): DescriptorPublicKey and its transformations
   ------------------------------------------------------------------------------------ *)
Inductive step := Step (hardened : bool) (idx : N).     (* bip32::ChildNumber, idx < 2^31 *)
Inductive wildcard := WNone | WUnhardened | WHardened.
Definition origin := option (bytes * list step).        (* fingerprint, path *)
Inductive singlekey := SFull (b : bytes) (compressed : bool) | SXonly (b : bytes).
Inductive dkey :=
| KSingle (o : origin) (k : singlekey)
| KXpub (o : origin) (x : N) (path : list step) (w : wildcard)          (* x names the xpub *)
| KMulti (o : origin) (x : N) (paths : list (list step)) (w : wildcard).

Definition step_eqb (a b : step) : bool :=
  match a, b with Step h i, Step h' i' => Bool.eqb h h' && N.eqb i i' end.
Definition wildcard_eqb (a b : wildcard) : bool :=
  match a, b with WNone, WNone | WUnhardened, WUnhardened | WHardened, WHardened => true | _, _ => false end.
Fixpoint list_eqb {A} (f : A -> A -> bool) (a b : list A) : bool :=
  match a, b with
  | [], [] => true
  | x :: a', y :: b' => f x y && list_eqb f a' b'
  | _, _ => false
  end.
Definition origin_eqb (a b : origin) : bool :=
  match a, b with
  | None, None => true
  | Some (f, p), Some (f', p') => bytes_eqb f f' && list_eqb step_eqb p p'
  | _, _ => false
  end.
Definition singlekey_eqb (a b : singlekey) : bool :=
  match a, b with
  | SFull x c, SFull y c' => bytes_eqb x y && Bool.eqb c c'
  | SXonly x, SXonly y => bytes_eqb x y
  | _, _ => false
  end.
Definition dkey_eqb (a b : dkey) : bool :=
  match a, b with
  | KSingle o k, KSingle o' k' => origin_eqb o o' && singlekey_eqb k k'
  | KXpub o x p w, KXpub o' x' p' w' => origin_eqb o o' && N.eqb x x' && list_eqb step_eqb p p' && wildcard_eqb w w'
  | KMulti o x ps w, KMulti o' x' ps' w' =>
      origin_eqb o o' && N.eqb x x' && list_eqb (list_eqb step_eqb) ps ps' && wildcard_eqb w w'
  | _, _ => false
  end.

Definition is_hardened (s : step) : bool := match s with Step h _ => h end.
Definition key_has_wildcard (k : dkey) : bool :=
  match k with
  | KSingle _ _ => false
  | KXpub _ _ _ w | KMulti _ _ _ w => negb (wildcard_eqb w WNone)
  end.
Definition key_has_hardened_step (k : dkey) : bool :=
  match k with
  | KSingle _ _ => false
  | KXpub _ _ p _ => existsb is_hardened p
  | KMulti _ _ ps _ => existsb (existsb is_hardened) ps
  end.
Definition key_is_multipath (k : dkey) : bool := match k with KMulti _ _ _ _ => true | _ => false end.

(* DefiniteDescriptorKey::new — the order of the three tests is observable. *)
Definition definite_new (k : dkey) : kres dkey :=
  if key_has_wildcard k then KErr EWildcard
  else if key_has_hardened_step k then KErr EHardenedStep
  else if key_is_multipath k then KErr EMultipath
  else KOk k.

(* ChildNumber::from_normal_idx / from_hardened_idx accept index < 2^31 only; the error
   is mapped to NonDefiniteKeyError::HardenedStep. *)
Definition valid_index (i : N) : bool := N.ltb i 2147483648.

(* DescriptorPublicKey::at_derivation_index *)
Definition key_at_derivation_index (i : N) (k : dkey) : kres dkey :=
  match k with
  | KSingle _ _ => definite_new k
  | KXpub o x p w =>
      match w with
      | WNone => definite_new (KXpub o x p WNone)
      | WUnhardened =>
          if valid_index i then definite_new (KXpub o x (p ++ [Step false i]) WNone) else KErr EHardenedStep
      | WHardened =>
          if valid_index i then definite_new (KXpub o x (p ++ [Step true i]) WNone) else KErr EHardenedStep
      end
  | KMulti _ _ _ _ => KErr EMultipath
  end.

Definition desc_has_wildcard (d : desc dkey) : bool := existsb key_has_wildcard (desc_keys d).
Definition desc_is_multipath (d : desc dkey) : bool := existsb key_is_multipath (desc_keys d).

(* Descriptor::at_derivation_index, into_definite, derive_at_index (.into_result()) *)
Definition at_derivation_index (i : N) (d : desc dkey) : kres (desc dkey) :=
  desc_try_map (key_at_derivation_index i) d.
Definition into_definite (d : desc dkey) : kres (desc dkey) :=
  if desc_has_wildcard d then KErr EWildcard else desc_try_map definite_new d.
Definition derive_at_index (i : N) (d : desc dkey) : kres (desc dkey) :=
  if negb (desc_has_wildcard d) then KErr ENoWildcard else at_derivation_index i d.

(* DefiniteDescriptorKey::derive_public_key over an abstract BIP32 public derivation
   ckd x path (the xpub named x, derived along path).  None = unreachable!(). *)
Section Derive.
  Variable ckd : N -> list step -> pubkey.
  Variable full_key : bytes -> bool -> pubkey.   (* parsed bitcoin::PublicKey *)
  Variable xonly_key : bytes -> pubkey.          (* XOnlyPublicKey::to_public_key: even-y lift *)

  Definition derive_public_key (k : dkey) : option pubkey :=
    match k with
    | KSingle _ (SFull b c) => Some (full_key b c)
    | KSingle _ (SXonly b) => Some (xonly_key b)
    | KXpub _ x p WNone => if existsb is_hardened p then None else Some (ckd x p)
    | KXpub _ _ _ _ => None
    | KMulti _ _ _ _ => None
    end.
  (* total version used under the invariant established by definite_new *)
  Definition derive_pk_total (k : dkey) : pubkey :=
    match derive_public_key k with Some p => p | None => mkPk [] [] [] true end.

  (* Descriptor<DefiniteDescriptorKey>::derived_descriptor *)
  Definition derived_descriptor (d : desc dkey) : desc pubkey := desc_map derive_pk_total d.

  (* The specification's reading of a key expression at index i: substitute the index for
     the wildcard in the path and derive. *)
  Definition subst_path (i : N) (p : list step) (w : wildcard) : list step :=
    match w with WNone => p | WUnhardened => p ++ [Step false i] | WHardened => p ++ [Step true i] end.
  Definition spec_key_at (i : N) (k : dkey) : pubkey :=
    match k with
    | KSingle _ (SFull b c) => full_key b c
    | KSingle _ (SXonly b) => xonly_key b
    | KXpub _ x p w => ckd x (subst_path i p w)
    | KMulti _ x ps w => ckd x (subst_path i (hd [] ps) w)     (* not derivable; unused *)
    end.
End Derive.

(* ---- multipath (BIP389) ---- *)
(* parse_xkey_deriv's try_fold: from the list of per-step index lists (singletons except
   at most one tuple) build the distinct derivation paths. *)
Fixpoint set_last {A} (l : list A) (x : A) : list A :=
  match l with
  | [] => []
  | [_] => [x]
  | y :: r => y :: set_last r x
  end.
Fixpoint update_nth {A} (n : nat) (f : A -> A) (l : list A) : list A :=
  match n, l with
  | _, [] => []
  | O, x :: r => f x :: r
  | S n', x :: r => x :: update_nth n' f r
  end.
(* `paths.push(paths[0].clone()); *paths[i + 1].last_mut() = index;` for the i-th further
   index of a tuple (the element patched is the one at position i+1, which is the pushed
   one exactly when there was a single path before the tuple). *)
Definition expand_step (paths : list (list step)) (index_list : list step) : list (list step) :=
  match index_list with
  | [] => paths                                   (* `expect`: never empty *)
  | first :: others =>
      let paths1 := match paths with [] => [[first]] | _ => map (fun p => p ++ [first]) paths end in
      fst (fold_left (fun (st : list (list step) * nat) index =>
                        let acc := fst st in let i := snd st in
                        (update_nth (S i) (fun p => set_last p index) (acc ++ [hd [] acc]), S i))
                     others (paths1, O))
  end.
Definition expand_paths (steps : list (list step)) : list (list step) := fold_left expand_step steps [].

(* DescriptorPublicKey::into_single_keys *)
Definition into_single_keys (k : dkey) : list dkey :=
  match k with
  | KMulti o x ps w => map (fun p => KXpub o x p w) ps
  | _ => [k]
  end.
Definition num_der_paths (k : dkey) : N :=
  match k with KSingle _ _ => 0 | KXpub _ _ _ _ => 1 | KMulti _ _ ps _ => N.of_nat (length ps) end.

(* IndexChoser(i, n): n is the number of paths every multipath key must have
   (/repo 4fc1acf3: a key with a different number of paths is a length-mismatch error). *)
Definition index_choser (i n : nat) (k : dkey) : kres dkey :=
  match k with
  | KMulti _ _ _ _ =>
      let keys := into_single_keys k in
      if negb (Nat.eqb (length keys) n) then KErr ELenMismatch
      else match nth_error keys i with Some k' => KOk k' | None => KErr ELenMismatch end
  | _ => KOk k
  end.
(* Descriptor::into_single_descriptors: the count n comes from the FIRST multipath key in
   for_each_key order; then one translation per index i < n, the first error aborts.
   (n = 0 would trip `assert!(!descriptors.is_empty())`; DerivPaths is never empty.) *)
Definition first_multipath_len (ks : list dkey) : option nat :=
  match filter key_is_multipath ks with
  | KMulti _ _ ps _ :: _ => Some (length ps)
  | _ => None
  end.
Definition into_single_descriptors (d : desc dkey) : kres (list (desc dkey)) :=
  match first_multipath_len (desc_keys d) with
  | None => KOk [d]
  | Some n => try_map (fun i => desc_try_map (index_choser i n) d) (seq 0%nat n)
  end.

(* The specification's selection of alternative i. *)
Definition select_key (i : nat) (k : dkey) : dkey :=
  match k with
  | KMulti o x ps w => KXpub o x (nth i ps []) w
  | _ => k
  end.
Definition select_desc (i : nat) (d : desc dkey) : desc dkey := desc_map (select_key i) d.

(* ---- printing of the path part of a key (fmt_derivation_path(s)) as tokens ---- *)
Inductive tok :=
| TStep (s : step)
| TAlts (l : list step)          (* /<a;b;c> *)
| TWild (w : wildcard).
Definition tok_eqb (a b : tok) : bool :=
  match a, b with
  | TStep s, TStep s' => step_eqb s s'
  | TAlts l, TAlts l' => list_eqb step_eqb l l'
  | TWild w, TWild w' => wildcard_eqb w w'
  | _, _ => false
  end.
Definition dummy_step := Step false 0.
(* fmt_derivation_paths: position i is printed as a tuple iff there are >= 2 paths and
   paths[0][i] <> paths[1][i] (only the first two paths are compared). *)
Definition fmt_derivation_paths (paths : list (list step)) : list tok :=
  match paths with
  | [] => []                                       (* paths[0] would panic; DerivPaths is never empty *)
  | p0 :: rest =>
      map (fun ic =>
             let i := fst ic in let child := snd ic in
             match rest with
             | p1 :: _ =>
                 if negb (step_eqb child (nth i p1 dummy_step))
                 then TAlts (map (fun p => nth i p dummy_step) paths)
                 else TStep child
             | [] => TStep child
             end) (combine (seq 0%nat (length p0)) p0)
  end.
(* Wildcard's Display: nothing, "/*" or "/*h" *)
Definition wild_toks (w : wildcard) : list tok := match w with WNone => [] | _ => [TWild w] end.
Definition print_key_path (k : dkey) : list tok :=
  match k with
  | KSingle _ _ => []
  | KXpub _ _ p w => map TStep p ++ wild_toks w
  | KMulti _ _ ps w => fmt_derivation_paths ps ++ wild_toks w
  end.
(* textual selection of alternative i in a printed path *)
Definition select_tok (i : nat) (t : tok) : tok :=
  match t with TAlts l => TStep (nth i l dummy_step) | _ => t end.

(* ---- Descriptor::find_derivation_index_for_spk over an abstract
        `derived_descriptor(..).script_pubkey()` ---- *)
Definition obytes_eqb (a b : option bytes) : bool :=
  match a, b with Some x, Some y => bytes_eqb x y | None, None => true | _, _ => false end.
Section Find.
  Variable spk_of : desc dkey -> option bytes.
  Fixpoint find_loop (range : list N) (d : desc dkey) (target : bytes) : kres (option (N * desc dkey)) :=
    match range with
    | [] => KOk None
    | i :: r =>
        match derive_at_index i d with
        | KErr e => KErr e
        | KOk dd => if obytes_eqb (spk_of dd) (Some target) then KOk (Some (i, dd)) else find_loop r d target
        end
    end.
  Definition find_derivation_index_for_spk (d : desc dkey) (target : bytes) (range : list N)
    : kres (option (N * desc dkey)) :=
    if negb (desc_has_wildcard d) then
      match into_definite d with
      | KErr e => KErr e
      | KOk dd => if obytes_eqb (spk_of dd) (Some target) then KOk (Some (0%N, dd)) else KOk None
      end
    else find_loop range d target.
End Find.

(* ---- parsing the path part of an extended key (parse_xkey_deriv and the xpub arm of
        DescriptorPublicKey::from_str) over the same tokens ----
   The text after the xpub is a list of '/'-separated components: a plain index (TStep), a
   BIP389 tuple <a;b;..> (TAlts), "*" / "*h" (TWild).  The iterator is lazy, so the first
   offending component in text order decides the error. *)
Inductive perr :=
| PInvalidWildcard        (* InvalidWildcardInDerivationPath: something follows the wildcard *)
| PMultipleSteps          (* MultipleDerivationPathIndexSteps: a second tuple *)
| PInvalidMultiIndexStep  (* InvalidMultiIndexStep: fewer than two indexes, or (since /repo
                             109461ce) an index listed twice *)
| PTooLong.               (* DerivationPathTooLong (since /repo fc4edba4, dda43848) *)
Inductive pres (A : Type) := POk (a : A) | PErr (e : perr).
Arguments POk {A} a. Arguments PErr {A} e.
Definition perr_eqb (a b : perr) : bool :=
  match a, b with
  | PInvalidWildcard, PInvalidWildcard | PMultipleSteps, PMultipleSteps
  | PInvalidMultiIndexStep, PInvalidMultiIndexStep | PTooLong, PTooLong => true
  | _, _ => false
  end.

(* `(1..idx.len()).any(|i| idx[..i].contains(&idx[i]))` *)
Fixpoint has_dup_from (seen l : list step) : bool :=
  match l with
  | [] => false
  | x :: r => existsb (step_eqb x) seen || has_dup_from (seen ++ [x]) r
  end.
Definition tuple_has_dup (l : list step) : bool := has_dup_from [] l.

(* state: wildcard seen so far, whether a tuple was seen, the paths built so far *)
Fixpoint parse_steps (toks : list tok) (w : wildcard) (multi : bool) (paths : list (list step))
  : pres (list (list step) * wildcard) :=
  match toks with
  | [] => POk (paths, w)
  | t :: r =>
      match w with
      | WNone =>
          match t with
          | TWild WUnhardened => parse_steps r WUnhardened multi paths
          | TWild WHardened => parse_steps r WHardened multi paths
          | TWild WNone => PErr PInvalidWildcard        (* no such component in the text *)
          | TAlts l =>
              if multi then PErr PMultipleSteps
              else if Nat.ltb (length l) 2 then PErr PInvalidMultiIndexStep
              else if tuple_has_dup l then PErr PInvalidMultiIndexStep
              else parse_steps r w true (expand_step paths l)
          | TStep s => parse_steps r w multi (expand_step paths [s])
          end
      | _ => PErr PInvalidWildcard
      end
  end.
Definition parse_xkey_deriv (toks : list tok) : pres (list (list step) * wildcard) :=
  parse_steps toks WNone false [].

(* the xpub arm of DescriptorPublicKey::from_str; depth = the xpub's own BIP32 depth *)
Definition wildcard_steps (w : wildcard) : N := match w with WNone => 0 | _ => 1 end.
Definition parse_xpub_key (o : origin) (x : N) (depth : N) (toks : list tok) : pres dkey :=
  match parse_xkey_deriv toks with
  | PErr e => PErr e
  | POk (paths, w) =>
      (* /repo dda43848: without explicit steps there is no path in the list, but the
         wildcard still is a derivation step *)
      let too_deep := fun len : nat => N.ltb 255 (depth + N.of_nat len + wildcard_steps w) in
      if existsb (fun p => too_deep (length p)) paths
         || match paths with [] => too_deep 0%nat | _ => false end
      then PErr PTooLong
      else match paths with
           | _ :: _ :: _ => POk (KMulti o x paths w)
           | _ => POk (KXpub o x (hd [] paths) w)
           end
  end.
