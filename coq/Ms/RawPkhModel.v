(* raw_pk_h (Terminal::RawPkH(hash160), arises only from decoded scripts) inside the satisfier model.
   Mirror of src/miniscript/satisfy/sat_dissat.rs `Satisfaction::raw_pk_h` and of
   src/miniscript/satisfy/mod.rs `Witness::pkh_public_key` / `Witness::pkh_signature`:

     dissat.stack = combine(push_0, pkh_public_key(h))
        pkh_public_key(h) = Stack [PubkeyHash(h, pk_len(pk))]   if lookup_raw_pkh_pk h = Some pk
                          = UNAVAILABLE                          otherwise   (NOT Impossible)
     sat.stack    = pkh_signature(h)
                  = Stack [EcdsaSigPkHash h ; PubkeyHash(h, pk_len pk)]  if lookup_raw_pkh_ecdsa_sig h = Some (pk, sig)
                  = IMPOSSIBLE                                           otherwise
     sat.has_sig  = true (also when the stack is Impossible), no lock on either side.

   The two lookups are INDEPENDENT trait methods, so the model carries two resolvers. A placeholder
   PubkeyHash(h, len) / EcdsaSigPkHash(h) is represented by PhPubkey k / PhSig k of the key the
   lookup returned (same completion bytes, same size: pk_len of that key, 73 for the signature).
   `Ms/Sat.v` is untouched: `sat_dissat_r` is a copy of `sat_dissat` that differs in the RawPkH arm only
   (Proofs/RawPkhResolve.v proves the two agree on resolved scripts). No proofs here. *)
From Verif Require Export Sat.
Local Open Scope N_scope.

Record rawenv := mkRawEnv {
  rs_pk : bytes -> option key;     (* lookup_raw_pkh_pk (x-only form in Tap) *)
  rs_sig : bytes -> option key     (* lookup_raw_pkh_ecdsa_sig / lookup_raw_pkh_tap_leaf_script_sig: the key whose signature comes with it *)
}.

(* replace every raw key hash the resolver knows by pk_h of the key; unknown hashes stay raw *)
Fixpoint resolve (rs : bytes -> option key) (m : ms) : ms :=
  match m with
  | MRawPkH h => match rs h with Some k => MPkH k | None => MRawPkH h end
  | MAlt x => MAlt (resolve rs x) | MSwap x => MSwap (resolve rs x) | MCheck x => MCheck (resolve rs x)
  | MDupIf x => MDupIf (resolve rs x) | MVerify x => MVerify (resolve rs x)
  | MNonZero x => MNonZero (resolve rs x) | MZeroNotEqual x => MZeroNotEqual (resolve rs x)
  | MAndV x y => MAndV (resolve rs x) (resolve rs y) | MAndB x y => MAndB (resolve rs x) (resolve rs y)
  | MAndOr a b c => MAndOr (resolve rs a) (resolve rs b) (resolve rs c)
  | MOrB x y => MOrB (resolve rs x) (resolve rs y) | MOrD x y => MOrD (resolve rs x) (resolve rs y)
  | MOrC x y => MOrC (resolve rs x) (resolve rs y) | MOrI x y => MOrI (resolve rs x) (resolve rs y)
  | MThresh k xs =>
    MThresh k ((fix go (l : list ms) : list ms := match l with [] => [] | x :: r => resolve rs x :: go r end) xs)
  | other => other
  end.

(* the raw key hashes of a script *)
Fixpoint raw_hashes (m : ms) : list bytes :=
  match m with
  | MRawPkH h => [h]
  | MAlt x | MSwap x | MCheck x | MDupIf x | MVerify x | MNonZero x | MZeroNotEqual x => raw_hashes x
  | MAndV x y | MAndB x y | MOrB x y | MOrD x y | MOrC x y | MOrI x y => raw_hashes x ++ raw_hashes y
  | MAndOr a b c => raw_hashes a ++ raw_hashes b ++ raw_hashes c
  | MThresh _ xs => (fix go (l : list ms) : list bytes := match l with [] => [] | x :: r => raw_hashes x ++ go r end) xs
  | _ => []
  end.

Definition w_pkh_public_key (re : rawenv) (h : bytes) : witness :=
  match rs_pk re h with Some k => WStack [PhPubkey k] | None => WUnavailable end.
Definition w_pkh_signature (re : rawenv) (h : bytes) : witness :=
  match rs_sig re h with Some k => WStack [PhSig k; PhPubkey k] | None => WImpossible end.
Definition sd_raw_pk_h (re : rawenv) (h : bytes) : satn * satn :=
  (mkSat (wcombine (WStack [PhPushZero]) (w_pkh_public_key re h)) false None None,
   mkSat (w_pkh_signature re h) true None None).

(* (dissat, sat): `sat_dissat` of Ms/Sat.v with the real RawPkH arm *)
Fixpoint sat_dissat_r (ke : keyenv) (se : senv) (re : rawenv) (mall : bool) (root_has_sig : bool) (m : ms)
  : satn * satn :=
  let min_fn := if mall then minimum_mall se else minimum se in
  match m with
  | MFalse => (TRIVIAL, IMPOSSIBLE)
  | MTrue => (IMPOSSIBLE, TRIVIAL)
  | MPkK k => sd_pk_k se k
  | MPkH k => sd_pk_h se k
  | MRawPkH h => sd_raw_pk_h re h
  | MMulti k ks => sd_multi se k ks
  | MSortedMulti k ks => sd_multi se k (ksort ke ks)
  | MMultiA k ks => sd_multi_a se k ks
  | MSortedMultiA k ks => sd_multi_a se k (ksort ke ks)
  | MAfter t => sd_time (se_after se t) root_has_sig t true
  | MOlder t => sd_time (se_older se t) root_has_sig t false
  | MRipemd160 h => sd_hash se HRipemd160 h
  | MHash160 h => sd_hash se HHash160 h
  | MSha256 h => sd_hash se HSha256 h
  | MHash256 h => sd_hash se HHash256 h
  | MAlt x | MSwap x | MCheck x | MZeroNotEqual x => sat_dissat_r ke se re mall root_has_sig x
  | MDupIf x =>
    let '(_, sub) := sat_dissat_r ke se re mall root_has_sig x in
    (push_0, with_stack sub (wcombine (s_stack sub) (WStack [PhPushOne])))
  | MVerify x => let '(_, sub) := sat_dissat_r ke se re mall root_has_sig x in (IMPOSSIBLE, sub)
  | MNonZero x => let '(_, sub) := sat_dissat_r ke se re mall root_has_sig x in (push_0, sub)
  | MAndB l r =>
    let '(l_dis, l_sat) := sat_dissat_r ke se re mall root_has_sig l in
    let '(r_dis, r_sat) := sat_dissat_r ke se re mall root_has_sig r in
    (concatenate_rev l_dis r_dis, concatenate_rev l_sat r_sat)
  | MAndV l r =>
    let '(_, l_sat) := sat_dissat_r ke se re mall root_has_sig l in
    let '(r_dis, r_sat) := sat_dissat_r ke se re mall root_has_sig r in
    (concatenate_rev l_sat r_dis, concatenate_rev l_sat r_sat)
  | MAndOr a b c =>
    let '(a_dis, a_sat) := sat_dissat_r ke se re mall root_has_sig a in
    let '(_, b_sat) := sat_dissat_r ke se re mall root_has_sig b in
    let '(c_dis, c_sat) := sat_dissat_r ke se re mall root_has_sig c in
    (concatenate_rev a_dis c_dis, min_fn (concatenate_rev a_sat b_sat) (concatenate_rev a_dis c_sat))
  | MOrB l r =>
    let '(l_dis, l_sat) := sat_dissat_r ke se re mall root_has_sig l in
    let '(r_dis, r_sat) := sat_dissat_r ke se re mall root_has_sig r in
    (concatenate_rev l_dis r_dis, min_fn (concatenate_rev l_dis r_sat) (concatenate_rev l_sat r_dis))
  | MOrC l r =>
    let '(l_dis, l_sat) := sat_dissat_r ke se re mall root_has_sig l in
    let '(_, r_sat) := sat_dissat_r ke se re mall root_has_sig r in
    (IMPOSSIBLE, min_fn l_sat (concatenate_rev l_dis r_sat))
  | MOrD l r =>
    let '(l_dis, l_sat) := sat_dissat_r ke se re mall root_has_sig l in
    let '(r_dis, r_sat) := sat_dissat_r ke se re mall root_has_sig r in
    (concatenate_rev l_dis r_dis, min_fn l_sat (concatenate_rev l_dis r_sat))
  | MOrI l r =>
    let '(l_dis, l_sat) := sat_dissat_r ke se re mall root_has_sig l in
    let '(r_dis, r_sat) := sat_dissat_r ke se re mall root_has_sig r in
    (min_fn (with_stack l_dis (wcombine (s_stack l_dis) (WStack [PhPushOne])))
            (with_stack r_dis (wcombine (s_stack r_dis) (WStack [PhPushZero]))),
     min_fn (with_stack l_sat (wcombine (s_stack l_sat) (WStack [PhPushOne])))
            (with_stack r_sat (wcombine (s_stack r_sat) (WStack [PhPushZero]))))
  | MThresh k xs =>
    let ds := (fix go (l : list ms) : list (satn * satn) :=
                 match l with [] => [] | x :: r => sat_dissat_r ke se re mall root_has_sig x :: go r end) xs in
    let dissats := map fst ds in
    let sats := map snd ds in
    let dis := flatten_rev dissats in
    let sat := if N.eqb k (N.of_nat (length xs)) then flatten_rev sats
               else if mall then thresh_mall se (N.to_nat k) dissats sats
               else thresh_nonmall se (N.to_nat k) dissats sats in
    (dis, sat)
  end.

(* Miniscript::satisfy / satisfy_malleable on a script that may hold raw key hashes *)
Definition satisfy_r (ke : keyenv) (se : senv) (re : rawenv) (f : fill) (mall : bool) (root_has_sig : bool) (m : ms)
  : option (list bytes) :=
  match s_stack (snd (sat_dissat_r ke se re mall root_has_sig m)) with
  | WStack l => fill_all f l
  | _ => None
  end.

(* A satisfier whose two raw lookups are consistent with its per-key answers (what a wallet that
   keeps ONE table key -> signature implements; the default `impl Satisfier for HashMap<hash160, (Pk, Sig)>`
   of the library is of this kind):
     lookup_raw_pkh_ecdsa_sig h = Some k  iff  lookup_raw_pkh_pk h = Some k and a signature for k is held. *)
Definition coherent (se : senv) (re : rawenv) (h : bytes) : Prop :=
  match rs_pk re h with
  | Some k => rs_sig re h = (match se_sig se k with Some _ => Some k | None => None end)
  | None => rs_sig re h = None
  end.
