(* Model of src/interpreter/inner.rs `from_txdata`: output-type dispatch on the scriptPubKey,
   script-hash / witness-program checks, control block and annex handling, script-code
   selection, and which stack (scriptSig pushes or witness) is handed to the evaluator.
   Same order of tests as the Rust function, every error it returns as a class.  No proofs here.

   Parameters (record [fenv]): `Miniscript::<_, Ctx>::decode_consensus` succeeds ([f_dec]),
   `bitcoin::PublicKey::from_slice` ([f_pk]: Some compressed?), `XOnlyPublicKey::from_slice`
   ([f_xonly]), `ControlBlock::verify_taproot_commitment` ([f_commit script control]); hash160 /
   sha256 come from the [env] record of Script/Exec.v, as in Script/Spend.v. *)
From Verif Require Export InterpModel Spend.
Local Open Scope N_scope.

Inductive dctx := DBare | DLegacy | DSegv0 | DTap.

Record fenv := mkFenv {
  f_dec : dctx -> bytes -> bool;
  f_pk : bytes -> option bool;
  f_xonly : bytes -> bool;
  f_commit : bytes -> bytes -> bool
}.

Inductive ferr :=
| FNonEmptyWitness | FNonEmptyScriptSig | FUnexpectedStackEnd | FExpectedPush
| FPubkeyParse | FUncompressedPubkey | FXOnlyParse
| FIncorrectPubkeyHash | FIncorrectWPubkeyHash | FIncorrectScriptHash | FIncorrectWScriptHash
| FTapAnnexUnsupported | FUnexpectedStackBoolean | FControlBlockParse | FControlBlockVerify
| FDecode.

Inductive pktype := PtPk | PtPkh | PtWpkh | PtShWpkh | PtTr.
Inductive sctype := StBare | StSh | StWsh | StShWsh | StTr.
Inductive finner := InPk (k : bytes) (t : pktype) | InScript (sb : bytes) (t : sctype).

Inductive fres := FOk (i : finner) (st : astack) (code : option bytes) | FErr (e : ferr).

(* scriptSig: instructions_minimal() + Element::from_instruction, collected into a Result:
   any lexing error (truncated or non-minimal push) and any opcode other than a push / OP_1
   is ExpectedPush.  Result: head = top of the stack (= last instruction). *)
Definition elem_of_tok (t : tok) : option elem :=
  match t with
  | TPush d => Some (elem_of d)
  | TNum 1 => Some ESat
  | _ => None
  end.
Fixpoint elems_of_toks (ts : list tok) (acc : astack) : option astack :=
  match ts with
  | [] => Some acc
  | t :: r => match elem_of_tok t with Some x => elems_of_toks r (x :: acc) | None => None end
  end.
Definition ssig_stack_of (ssig : bytes) : option astack :=
  match lex_bytes (S (length ssig)) ssig with
  | Some ts => elems_of_toks ts []
  | None => None
  end.

(* rust-bitcoin Script::is_p2pk / is_p2pkh (the other classifiers are Spend.v's) *)
Definition spk_is_p2pk (spk : bytes) : option bytes :=
  match spk with
  | 65 :: rest => match rev rest with 172 :: k_rev => if N.eqb (blen k_rev) 65 then Some (rev k_rev) else None | _ => None end
  | 33 :: rest => match rev rest with 172 :: k_rev => if N.eqb (blen k_rev) 33 then Some (rev k_rev) else None | _ => None end
  | _ => None
  end.
Definition spk_is_p2pkh (spk : bytes) : option bytes :=
  match spk with
  | 118 :: 169 :: 20 :: rest =>
    match rev rest with 172 :: 136 :: h_rev => if N.eqb (blen h_rev) 20 then Some (rev h_rev) else None | _ => None end
  | _ => None
  end.

Definition p2pkh_bytes (h : bytes) : bytes := 118 :: 169 :: 20 :: h ++ [136; 172].
Definition p2wpkh_bytes (h : bytes) : bytes := 0 :: 20 :: h.
Definition p2wsh_bytes (h : bytes) : bytes := 0 :: 32 :: h.
Definition p2sh_bytes (h : bytes) : bytes := 169 :: 20 :: h ++ [135].

(* pk_from_slice / pk_from_stack_elem *)
Definition pk_from_slice (fe : fenv) (b : bytes) (require_compressed : bool) : option ferr :=
  match f_pk fe b with
  | Some compressed => if require_compressed && negb compressed then Some FUncompressedPubkey else None
  | None => Some FPubkeyParse
  end.
Definition pk_from_elem (fe : fenv) (x : elem) (require_compressed : bool) : ferr + bytes :=
  match x with
  | EPush b => match pk_from_slice fe b require_compressed with Some er => inl er | None => inr b end
  | _ => inl FPubkeyParse
  end.

(* ControlBlock::decode: size 33 + 32 m, m <= 128, leaf version (first byte without the parity
   bit) is not the annex tag 0x50, internal key parses.  Every failure is ControlBlockParse. *)
Definition cb_decode_ok (fe : fenv) (cb : bytes) : bool :=
  let n := blen cb in
  N.leb 33 n && N.eqb ((n - 33) mod 32) 0 && N.leb ((n - 33) / 32) 128 &&
  match cb with
  | v :: r => negb (N.eqb (N.land v 254) 80) && f_xonly fe (firstn 32 r)
  | [] => false
  end.

Definition from_txdata (e : env) (fe : fenv) (spk ssig : bytes) (witness : list bytes) : fres :=
  match ssig_stack_of ssig with
  | None => FErr FExpectedPush
  | Some ssig_stack =>
  let wit_stack : astack := rev (map elem_of witness) in
  (* ** pay to pubkey ** *)
  match spk_is_p2pk spk with
  | Some k =>
    match wit_stack with
    | _ :: _ => FErr FNonEmptyWitness
    | [] => match pk_from_slice fe k false with
            | Some er => FErr er
            | None => FOk (InPk k PtPk) ssig_stack (Some spk)
            end
    end
  | None =>
  (* ** pay to pubkeyhash ** *)
  match spk_is_p2pkh spk with
  | Some _ =>
    match wit_stack with
    | _ :: _ => FErr FNonEmptyWitness
    | [] =>
      match ssig_stack with
      | elem :: rest =>
        match pk_from_elem fe elem false with
        | inl er => FErr er
        | inr pk =>
          if bytes_eqb spk (p2pkh_bytes (e_hash160 e pk))
          then FOk (InPk pk PtPkh) rest (Some spk)
          else FErr FIncorrectPubkeyHash
        end
      | [] => FErr FUnexpectedStackEnd
      end
    end
  | None =>
  (* ** pay to witness pubkeyhash ** *)
  match spk_is_p2wpkh spk with
  | Some _ =>
    match ssig_stack with
    | _ :: _ => FErr FNonEmptyScriptSig
    | [] =>
      match wit_stack with
      | elem :: rest =>
        match pk_from_elem fe elem true with
        | inl er => FErr er
        | inr pk =>
          if bytes_eqb spk (p2wpkh_bytes (e_hash160 e pk))
          then FOk (InPk pk PtWpkh) rest (Some (p2pkh_bytes (e_hash160 e pk)))
          else FErr FIncorrectWPubkeyHash
        end
      | [] => FErr FUnexpectedStackEnd
      end
    end
  | None =>
  (* ** pay to witness scripthash ** *)
  match spk_is_p2wsh spk with
  | Some _ =>
    match ssig_stack with
    | _ :: _ => FErr FNonEmptyScriptSig
    | [] =>
      match wit_stack with
      | elem :: rest =>
        let sb := conc elem in
        if negb (f_dec fe DSegv0 sb) then FErr FDecode
        else if bytes_eqb spk (p2wsh_bytes (e_sha256 e sb))
        then FOk (InScript sb StWsh) rest (Some sb)
        else FErr FIncorrectWScriptHash
      | [] => FErr FUnexpectedStackEnd
      end
    end
  | None =>
  (* ** pay to taproot ** *)
  match spk_is_p2tr spk with
  | Some outkey =>
    match ssig_stack with
    | _ :: _ => FErr FNonEmptyScriptSig
    | [] =>
      if negb (f_xonly fe outkey) then FErr FXOnlyParse else
      let has_annex :=
        match wit_stack with
        | EPush (c :: _) :: _ => N.eqb c 80
        | _ => false
        end in
      let has_annex := has_annex && N.leb 2 (N.of_nat (length wit_stack)) in
      if has_annex then FErr FTapAnnexUnsupported else
      match wit_stack with
      | [] => FErr FUnexpectedStackEnd
      | [_] => FOk (InPk outkey PtTr) wit_stack None
      | ctrl :: tap_script :: rest =>
        match ctrl with
        | EPush cb =>
          if negb (cb_decode_ok fe cb) then FErr FControlBlockParse else
          let sb := conc tap_script in
          if negb (f_dec fe DTap sb) then FErr FDecode
          else if f_commit fe sb cb
          then FOk (InScript sb StTr) rest (Some sb)
          else FErr FControlBlockVerify
        | _ => FErr FUnexpectedStackBoolean
        end
      end
    end
  | None =>
  (* ** pay to scripthash ** *)
  match spk_is_p2sh spk with
  | Some _ =>
    match ssig_stack with
    | [] => FErr FUnexpectedStackEnd
    | elem :: ssig_rest =>
      let nested : option fres :=
        match elem with
        | EPush slice =>
          if negb (bytes_eqb spk (p2sh_bytes (e_hash160 e slice))) then Some (FErr FIncorrectScriptHash)
          else
            match spk_is_p2wpkh slice with
            | Some _ =>                                         (* ** p2sh-wrapped wpkh ** *)
              Some (match wit_stack with
                    | welem :: wrest =>
                      match ssig_rest with
                      | _ :: _ => FErr FNonEmptyScriptSig
                      | [] =>
                        match pk_from_elem fe welem true with
                        | inl er => FErr er
                        | inr pk =>
                          if bytes_eqb slice (p2wpkh_bytes (e_hash160 e pk))
                          then FOk (InPk pk PtShWpkh) wrest (Some (p2pkh_bytes (e_hash160 e pk)))
                          else FErr FIncorrectWScriptHash
                        end
                      end
                    | [] => FErr FUnexpectedStackEnd
                    end)
            | None =>
              match spk_is_p2wsh slice with
              | Some _ =>                                       (* ** p2sh-wrapped wsh ** *)
                Some (match wit_stack with
                      | welem :: wrest =>
                        match ssig_rest with
                        | _ :: _ => FErr FNonEmptyScriptSig
                        | [] =>
                          let sb := conc welem in
                          if negb (f_dec fe DSegv0 sb) then FErr FDecode
                          else if bytes_eqb slice (p2wsh_bytes (e_sha256 e sb))
                          then FOk (InScript sb StShWsh) wrest (Some sb)
                          else FErr FIncorrectWScriptHash
                        end
                      | [] => FErr FUnexpectedStackEnd
                      end)
              | None => None
              end
            end
        | _ => None
        end in
      match nested with
      | Some r => r
      | None =>
        (* normal p2sh parsed in Legacy context *)
        let sb := conc elem in
        if negb (f_dec fe DLegacy sb) then FErr FDecode
        else
          match wit_stack with
          | [] =>
            if bytes_eqb spk (p2sh_bytes (e_hash160 e sb))
            then FOk (InScript sb StSh) ssig_rest (Some sb)
            else FErr FIncorrectScriptHash
          | _ :: _ => FErr FNonEmptyWitness
          end
      end
    end
  | None =>
  (* ** bare script ** *)
    match wit_stack with
    | [] =>
      if negb (f_dec fe DBare spk) then FErr FDecode
      else FOk (InScript spk StBare) ssig_stack (Some spk)
    | _ :: _ => FErr FNonEmptyWitness
    end
  end end end end end end
  end.

(* signature version the evaluator / the Script semantics runs the chosen script under *)
Definition sv_of (t : sctype) : sigversion :=
  match t with
  | StBare | StSh => SvBase
  | StWsh | StShWsh => SvWitnessV0
  | StTr => SvTapscript
  end.
