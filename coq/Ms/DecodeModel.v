(* Model of src/miniscript/decode.rs (`decode`: the NonTerm stack machine reading the token
   vector from its END, `is_and_v` look-ahead, reduce0/1/2 calling `Miniscript::from_ast`)
   and of Miniscript::decode_with_validation_params for ValidationParams::MAX
   (src/miniscript/mod.rs).  Every `unwrap()` / `assert_eq!` is an explicit SPanic outcome.
   No proofs in this file. *)
From Verif Require Export LexModel CodecExt TypeCheck.
Local Open Scope N_scope.

Inductive nonterm :=
| NtExpression | NtWExpression | NtSwap | NtMaybeAndV | NtAlt | NtCheck | NtDupIf | NtVerify
| NtNonZero | NtZeroNotEqual | NtAndV | NtAndB | NtTern | NtOrB | NtOrD | NtOrC
| NtThreshW (k n : N) | NtThreshE (k n : N) | NtEndIf | NtEndIfNotIf | NtEndIfElse.

(* error classes (variant names of miniscript::Error as the decoder can return them) *)
Inductive derr :=
| DeLex (e : lex_err) | DeUnexpectedStart | DeUnexpected | DeTrailing | DeTypeCheck
| DeMaxRecursiveDepthExceeded | DePubKeyCtxError | DeAbsoluteLockTime | DeRelativeLockTime
| DeThreshold | DeContextError (c : ctxerr).

Inductive outcome (A : Type) := OOk (a : A) | OErr (e : derr) | OPanic (site : N) | OFuel.
Arguments OOk {A} a. Arguments OErr {A} e. Arguments OPanic {A} site. Arguments OFuel {A}.

(* decoding environment: the context, the serialisation of keys (for sizes / uncompressedness)
   and `Ctx::Key::from_slice` as a partial map from pushed bytes to keys *)
Record denv := mkDenv { d_ctx : ctx; d_ke : keyenv; d_key : bytes -> option key }.

Record dstate := mkDs { ds_toks : list token;      (* head = next token = LAST unread script token *)
                        ds_nts : list nonterm;     (* head = top of the non_term stack *)
                        ds_terms : list ms }.      (* head = top of the terminal stack *)

Inductive stepres :=
| SCont (s : dstate) | SDone (rest : list token) (m : ms) | SErr (e : derr) | SPanic (site : N).

Definition tok_eqb (a b : token) : bool :=
  match a, b with
  | TkBoolAnd, TkBoolAnd | TkBoolOr, TkBoolOr | TkAdd, TkAdd | TkEqual, TkEqual | TkNumEqual, TkNumEqual
  | TkCheckSig, TkCheckSig | TkCheckSigAdd, TkCheckSigAdd | TkCheckMultiSig, TkCheckMultiSig
  | TkCheckSequenceVerify, TkCheckSequenceVerify | TkCheckLockTimeVerify, TkCheckLockTimeVerify
  | TkFromAltStack, TkFromAltStack | TkToAltStack, TkToAltStack | TkDrop, TkDrop | TkDup, TkDup
  | TkIf, TkIf | TkIfDup, TkIfDup | TkNotIf, TkNotIf | TkElse, TkElse | TkEndIf, TkEndIf
  | TkZeroNotEqual, TkZeroNotEqual | TkSize, TkSize | TkSwap, TkSwap | TkVerify, TkVerify
  | TkRipemd160, TkRipemd160 | TkHash160, TkHash160 | TkSha256, TkSha256 | TkHash256, TkHash256 => true
  | TkNum x, TkNum y => x =? y
  | TkHash20 x, TkHash20 y | TkBytes32 x, TkBytes32 y | TkBytes33 x, TkBytes33 y | TkBytes65 x, TkBytes65 y =>
    bytes_eqb x y
  | _, _ => false
  end.

(* match_token! falls through to `Some(other) => Unexpected`, `None => UnexpectedStart` *)
Definition tok_fail (toks : list token) : derr :=
  match toks with [] => DeUnexpectedStart | _ => DeUnexpected end.

(* a fixed sequence of patterns `A, B, C => ...` of match_token! *)
Fixpoint expect_seq (pats toks : list token) : derr + list token :=
  match pats with
  | [] => inr toks
  | p :: ps =>
    match toks with
    | [] => inl DeUnexpectedStart
    | t :: r => if tok_eqb p t then expect_seq ps r else inl DeUnexpected
    end
  end.

Definition hash_tail : list token := [TkVerify; TkEqual; TkNum 32; TkSize].

(* Miniscript::from_ast: type_check, tree height, check_global_validity, in this order *)
Definition from_ast (e : denv) (m : ms) : derr + ms :=
  match type_of m with
  | RErr _ => inl DeTypeCheck
  | ROk _ =>
    if MAX_RECURSION_DEPTH <? tree_height m then inl DeMaxRecursiveDepthExceeded
    else match gv (d_ctx e) (d_ke e) m with
         | Some c => inl (DeContextError c)
         | None => inr m
         end
  end.

Definition reduce0 (e : denv) (m : ms) (toks : list token) (nts : list nonterm) (terms : list ms) : stepres :=
  match from_ast e m with
  | inl err => SErr err
  | inr m' => SCont (mkDs toks nts (m' :: terms))
  end.

Definition reduce1 (e : denv) (f : ms -> ms) (toks : list token) (nts : list nonterm) (terms : list ms) : stepres :=
  match terms with
  | [] => SPanic 1
  | x :: r => reduce0 e (f x) toks nts r
  end.

Definition reduce2 (e : denv) (f : ms -> ms -> ms) (toks : list token) (nts : list nonterm) (terms : list ms) : stepres :=
  match terms with
  | [] => SPanic 2
  | [_] => SPanic 3
  | l :: r :: rest => reduce0 e (f l r) toks nts rest
  end.

(* leaves are pushed with their own constructors (Miniscript::pk_k, ::multi, ...): no from_ast,
   hence no check_global_validity at this point *)
Definition push_leaf (m : ms) (toks : list token) (nts : list nonterm) (terms : list ms) : stepres :=
  SCont (mkDs toks nts (m :: terms)).

Definition key_leaf (e : denv) (pk : bytes) (toks : list token) (nts : list nonterm) (terms : list ms) : stepres :=
  match d_key e pk with
  | Some k => push_leaf (MPkK k) toks nts terms
  | None => SErr DePubKeyCtxError
  end.

Definition is_and_v (toks : list token) : bool :=
  match toks with
  | [] | TkIf :: _ | TkNotIf :: _ | TkElse :: _ | TkToAltStack :: _ | TkSwap :: _ => false
  | _ => true
  end.

(* `for _ in 0..n { match_token!(Bytes33 | Bytes65) }`; acc = keys read so far, latest first,
   which is the order after `keys.reverse()` *)
Fixpoint multi_keys (e : denv) (n : nat) (toks : list token) (acc : list key) : derr + (list key * list token) :=
  match n with
  | O => inr (acc, toks)
  | S n' =>
    match toks with
    | TkBytes33 pk :: r | TkBytes65 pk :: r =>
      match d_key e pk with
      | Some k => multi_keys e n' r (k :: acc)
      | None => inl DePubKeyCtxError
      end
    | _ => inl (tok_fail toks)
    end
  end.

(* `while tokens.peek() == Some(&CheckSigAdd) { match_token!(CheckSigAdd, Bytes32(pk)) }` *)
Fixpoint multi_a_keys (e : denv) (toks : list token) (acc : list key) : derr + (list key * list token) :=
  match toks with
  | TkCheckSigAdd :: r =>
    match r with
    | TkBytes32 pk :: r' =>
      match d_key e pk with
      | Some k => multi_a_keys e r' (k :: acc)
      | None => inl DePubKeyCtxError
      end
    | _ => inl (tok_fail r)
    end
  | _ => inr (acc, toks)
  end.

Definition hash_leaf (mk : ms) (verify : bool) (pats r : list token) (nts : list nonterm) (terms : list ms) : stepres :=
  match expect_seq pats r with
  | inl err => SErr err
  | inr r' => SCont (mkDs r' (if verify then NtVerify :: nts else nts) (mk :: terms))
  end.

(* after `Tk::Verify, Tk::Equal` (verify = true) or after `Tk::Equal` (verify = false) *)
Definition equal_step (verify : bool) (toks : list token) (nts : list nonterm) (terms : list ms) : stepres :=
  match toks with
  | TkHash20 h :: r =>
    match r with
    | TkHash160 :: r1 =>
      if verify then
        match r1 with
        | TkDup :: r2 => push_leaf (MRawPkH h) r2 nts terms
        | TkVerify :: r2 => hash_leaf (MHash160 h) true [TkEqual; TkNum 32; TkSize] r2 nts terms
        | _ => SErr (tok_fail r1)
        end
      else hash_leaf (MHash160 h) false hash_tail r1 nts terms
    | TkRipemd160 :: r1 => hash_leaf (MRipemd160 h) verify hash_tail r1 nts terms
    | _ => SErr (tok_fail r)
    end
  | TkBytes32 h :: r =>
    match r with
    | TkSha256 :: r1 => hash_leaf (MSha256 h) verify hash_tail r1 nts terms
    | TkHash256 :: r1 => hash_leaf (MHash256 h) verify hash_tail r1 nts terms
    | _ => SErr (tok_fail r)
    end
  | TkNum k :: r =>
    SCont (mkDs r (NtThreshW k 0 :: (if verify then NtVerify :: nts else nts)) terms)
  | _ => SErr (tok_fail toks)
  end.

(* the arms of the code are tried in textual order; the `Tk::Equal` arm of the verify = false
   case lists Bytes32 before Hash20, which is immaterial (disjoint first tokens) *)

Definition expr_step (e : denv) (toks : list token) (nts : list nonterm) (terms : list ms) : stepres :=
  match toks with
  | TkBytes33 pk :: r | TkBytes65 pk :: r | TkBytes32 pk :: r => key_leaf e pk r nts terms
  | TkCheckSig :: r => SCont (mkDs r (NtExpression :: NtCheck :: nts) terms)
  | TkVerify :: r =>
    match r with
    | TkEqual :: r1 => equal_step true r1 nts terms
    | _ :: _ => SCont (mkDs r (NtExpression :: NtVerify :: nts) terms)     (* un_next *)
    | [] => SErr DeUnexpectedStart
    end
  | TkZeroNotEqual :: r => SCont (mkDs r (NtExpression :: NtZeroNotEqual :: nts) terms)
  | TkCheckSequenceVerify :: r =>
    match r with
    | TkNum n :: r1 =>
      (* RelLockTime::from_consensus: a relative lock time (bit 31 clear) other than 0 *)
      if (n <? 2147483648) && negb (n =? 0) then push_leaf (MOlder n) r1 nts terms
      else SErr DeRelativeLockTime
    | _ => SErr (tok_fail r)
    end
  | TkCheckLockTimeVerify :: r =>
    match r with
    | TkNum n :: r1 =>
      if (1 <=? n) && (n <=? 2147483647) then push_leaf (MAfter n) r1 nts terms
      else SErr DeAbsoluteLockTime
    | _ => SErr (tok_fail r)
    end
  | TkEqual :: r => equal_step false r nts terms
  | TkNum 0 :: r => push_leaf MFalse r nts terms
  | TkNum 1 :: r => push_leaf MTrue r nts terms
  | TkEndIf :: r => SCont (mkDs r (NtExpression :: NtMaybeAndV :: NtEndIf :: nts) terms)
  | TkBoolAnd :: r => SCont (mkDs r (NtWExpression :: NtExpression :: NtAndB :: nts) terms)
  | TkBoolOr :: r => SCont (mkDs r (NtWExpression :: NtExpression :: NtOrB :: nts) terms)
  | TkCheckMultiSig :: r =>
    match r with
    | TkNum n :: r1 =>
      (* validate_k_n::<20>(1, n) *)
      if (n =? 0) || (20 <? n) then SErr DeThreshold else
      match multi_keys e (N.to_nat n) r1 [] with
      | inl err => SErr err
      | inr (keys, r2) =>
        match r2 with
        | TkNum k :: r3 =>
          if (k =? 0) || (nlen keys <? k) || (20 <? nlen keys) then SErr DeThreshold
          else push_leaf (MMulti k keys) r3 nts terms
        | _ => SErr (tok_fail r2)
        end
      end
    | _ => SErr (tok_fail r)
    end
  | TkNumEqual :: r =>
    match r with
    | TkNum k :: r1 =>
      (* validate_k_n::<999>(k, k) *)
      if (k =? 0) || (999 <? k) then SErr DeThreshold else
      match multi_a_keys e r1 [] with
      | inl err => SErr err
      | inr (acc, r2) =>
        match r2 with
        | TkCheckSig :: r3 =>
          match r3 with
          | TkBytes32 pk :: r4 =>
            match d_key e pk with
            | Some k0 =>
              let keys := k0 :: acc in
              if (k =? 0) || (nlen keys <? k) || (999 <? nlen keys) then SErr DeThreshold
              else push_leaf (MMultiA k keys) r4 nts terms
            | None => SErr DePubKeyCtxError
            end
          | _ => SErr (tok_fail r3)
          end
        | _ => SErr (tok_fail r2)
        end
      end
    | _ => SErr (tok_fail r)
    end
  | _ => SErr (tok_fail toks)
  end.

(* `for _ in 0..n { subs.push(term.pop().unwrap()) }` *)
Fixpoint pop_n (n : nat) (terms : list ms) : option (list ms * list ms) :=
  match n with
  | O => Some ([], terms)
  | S n' =>
    match terms with
    | [] => None
    | x :: r => match pop_n n' r with Some (a, b) => Some (x :: a, b) | None => None end
    end
  end.

Definition step (e : denv) (s : dstate) : stepres :=
  let toks := ds_toks s in
  let terms := ds_terms s in
  match ds_nts s with
  | [] =>
    (* assert_eq!(term.0.len(), 1) *)
    match terms with
    | [m] => SDone toks m
    | _ => SPanic 8
    end
  | nt :: nts =>
    match nt with
    | NtExpression => expr_step e toks nts terms
    | NtMaybeAndV =>
      if is_and_v toks then SCont (mkDs toks (NtExpression :: NtAndV :: nts) terms)
      else SCont (mkDs toks nts terms)
    | NtSwap =>
      match toks with
      | TkSwap :: r => reduce1 e MSwap r nts terms
      | _ => SErr (tok_fail toks)
      end
    | NtAlt =>
      match toks with
      | TkToAltStack :: r => reduce1 e MAlt r nts terms
      | _ => SErr (tok_fail toks)
      end
    | NtCheck => reduce1 e MCheck toks nts terms
    | NtDupIf => reduce1 e MDupIf toks nts terms
    | NtVerify => reduce1 e MVerify toks nts terms
    | NtNonZero => reduce1 e MNonZero toks nts terms
    | NtZeroNotEqual => reduce1 e MZeroNotEqual toks nts terms
    | NtAndV =>
      if is_and_v toks then SCont (mkDs toks (NtMaybeAndV :: NtAndV :: nts) terms)
      else reduce2 e MAndV toks nts terms
    | NtAndB => reduce2 e MAndB toks nts terms
    | NtOrB => reduce2 e MOrB toks nts terms
    | NtOrC => reduce2 e MOrC toks nts terms
    | NtOrD => reduce2 e MOrD toks nts terms
    | NtTern =>
      match terms with
      | [] => SPanic 4
      | [_] => SPanic 5
      | [_; _] => SPanic 6
      | a :: b :: c :: rest => reduce0 e (MAndOr a c b) toks nts rest
      end
    | NtThreshW k n =>
      match toks with
      | TkAdd :: r => SCont (mkDs r (NtWExpression :: NtThreshW k (n + 1) :: nts) terms)
      | _ :: _ => SCont (mkDs toks (NtExpression :: NtThreshE k (n + 1) :: nts) terms)
      | [] => SErr DeUnexpectedStart
      end
    | NtThreshE k n =>
      match pop_n (N.to_nat n) terms with
      | None => SPanic 7
      | Some (subs, rest) =>
        (* Threshold::<_, 0>::new(k, subs) *)
        if (k =? 0) || (nlen subs <? k) then SErr DeThreshold
        else reduce0 e (MThresh k subs) toks nts rest
      end
    | NtEndIf =>
      match toks with
      | TkElse :: r => SCont (mkDs r (NtExpression :: NtMaybeAndV :: NtEndIfElse :: nts) terms)
      | TkIf :: r =>
        match r with
        | TkDup :: r1 => SCont (mkDs r1 (NtDupIf :: nts) terms)
        | TkZeroNotEqual :: r1 =>
          match r1 with
          | TkSize :: r2 => SCont (mkDs r2 (NtNonZero :: nts) terms)
          | _ => SErr (tok_fail r1)
          end
        | _ => SErr (tok_fail r)
        end
      | TkNotIf :: r => SCont (mkDs r (NtEndIfNotIf :: nts) terms)
      | _ => SErr (tok_fail toks)
      end
    | NtEndIfNotIf =>
      match toks with
      | TkIfDup :: r => SCont (mkDs r (NtExpression :: NtOrD :: nts) terms)
      | _ :: _ => SCont (mkDs toks (NtExpression :: NtOrC :: nts) terms)
      | [] => SErr DeUnexpectedStart
      end
    | NtEndIfElse =>
      match toks with
      | TkIf :: r => reduce2 e MOrI r nts terms
      | TkNotIf :: r => SCont (mkDs r (NtExpression :: NtTern :: nts) terms)
      | _ => SErr (tok_fail toks)
      end
    | NtWExpression =>
      match toks with
      | TkFromAltStack :: r => SCont (mkDs r (NtExpression :: NtMaybeAndV :: NtAlt :: nts) terms)
      | _ :: _ => SCont (mkDs toks (NtExpression :: NtMaybeAndV :: NtSwap :: nts) terms)
      | [] => SErr DeUnexpectedStart
      end
    end
  end.

Fixpoint run (e : denv) (fuel : nat) (s : dstate) : outcome (ms * list token) :=
  match fuel with
  | O => OFuel
  | S f =>
    match step e s with
    | SCont s' => run e f s'
    | SDone rest m => OOk (m, rest)
    | SErr err => OErr err
    | SPanic n => OPanic n
    end
  end.

(* fuel: DecodeProofs.run_fuel_enough shows OFuel is never returned with this much *)
Definition parse_fuel (toks : list token) : nat := 20 * length toks + 8.

(* decode::decode(&mut TokenIter::new(toks)): result and the unread tokens *)
Definition parse (e : denv) (toks : list token) : outcome (ms * list token) :=
  run e (parse_fuel toks) (mkDs (rev toks) [NtExpression; NtMaybeAndV] []).

(* Miniscript::decode_with_validation_params(script, &ValidationParams::MAX):
   lex, decode, check_global_validity(top), type_check(top), trailing tokens, validate(MAX)
   (the last accepts everything: all switches on, all limits usize::MAX, depth <= 402 was
   enforced by from_ast) *)
Definition decode_max (e : denv) (b : bytes) : outcome ms :=
  match lex b with
  | LexErr le => OErr (DeLex le)
  | LexOk toks =>
    match parse e toks with
    | OOk (m, rest) =>
      match gv (d_ctx e) (d_ke e) m with
      | Some c => OErr (DeContextError c)
      | None =>
        match type_of m with
        | RErr _ => OErr DeTypeCheck
        | ROk _ =>
          match rest with
          | _ :: _ => OErr DeTrailing
          | [] => OOk m
          end
        end
      end
    | OErr err => OErr err
    | OPanic n => OPanic n
    | OFuel => OFuel
    end
  end.
