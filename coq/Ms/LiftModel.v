(* C07 — model of lifting a miniscript / descriptor to an abstract policy.
   Mirrors (no proofs in this file):
     src/policy/mod.rs        impl Liftable for Miniscript (rtl post-order fold + stack pops),
                              Miniscript::lift_check, impl Liftable for Descriptor
     src/policy/semantic.rs   Policy::normalized (applied by lift)
     src/miniscript/types/extra_props.rs  TimelockInfo (has_mixed_timelocks)
     src/descriptor/tr/{mod,taptree}.rs   Tr: key \/ tree, TapTree: normalized(thresh(1, leaves))
     src/descriptor/{bare,segwitv0,sh}.rs wrappers
   and, on the specification side, the truth-table semantics [leval] of policies over the
   SAME [assets] record the satisfaction table (SatSpec.v) is written over.

   The verdict of within_resource_limits is a parameter [rl] of [lift] here (the theorems hold for
   either value); Ms/LiftLimits.v computes it from the fragment and its context ([lift_ctx]). *)
From Verif Require Export Ast TypeCheck SatSpec.

Inductive lpolicy :=
| LUnsat | LTrivial
| LKey (k : key)
| LAfter (t : N) | LOlder (t : N)
| LSha256 (h : bytes) | LHash256 (h : bytes) | LRipemd160 (h : bytes) | LHash160 (h : bytes)
| LThresh (k : N) (ps : list lpolicy).

(* ------------------------------------------------------------------ specification side *)
Definition is_some {A} (o : option A) : bool := match o with Some _ => true | None => false end.
Definition count_true (l : list bool) : nat := length (filter (fun b => b) l).

(* truth table: a key is true iff the caller holds a signature for it, a hash iff the
   preimage is known, after/older iff the held lock value meets it, thresh iff at least k
   children are true *)
Fixpoint leval (A : assets) (p : lpolicy) : bool :=
  match p with
  | LUnsat => false
  | LTrivial => true
  | LKey k => is_some (a_sig A k)
  | LAfter t => a_after A t
  | LOlder t => a_older A t
  | LSha256 h => is_some (a_sha256 A h)
  | LHash256 h => is_some (a_hash256 A h)
  | LRipemd160 h => is_some (a_ripemd160 A h)
  | LHash160 h => is_some (a_hash160 A h)
  | LThresh k ps => Nat.leb (N.to_nat k) (count_true (map (leval A) ps))
  end.

(* ------------------------------------------------------------------ equality (for the tie) *)
Fixpoint list_eqb {A} (f : A -> A -> bool) (a b : list A) : bool :=
  match a, b with
  | [], [] => true
  | x :: r, y :: s => f x y && list_eqb f r s
  | _, _ => false
  end.
Fixpoint lpolicy_eqb (a b : lpolicy) {struct a} : bool :=
  match a, b with
  | LUnsat, LUnsat | LTrivial, LTrivial => true
  | LKey x, LKey y => N.eqb x y
  | LAfter x, LAfter y | LOlder x, LOlder y => N.eqb x y
  | LSha256 x, LSha256 y | LHash256 x, LHash256 y
  | LRipemd160 x, LRipemd160 y | LHash160 x, LHash160 y => list_eqb N.eqb x y
  | LThresh k ps, LThresh k' ps' =>
    N.eqb k k' &&
    (fix go (l : list lpolicy) (l' : list lpolicy) {struct l} : bool :=
       match l, l' with
       | [], [] => true
       | x :: r, y :: s => lpolicy_eqb x y && go r s
       | _, _ => false
       end) ps ps'
  | _, _ => false
  end.

(* ------------------------------------------------------------------ Policy::normalized *)
Definition is_trivial (p : lpolicy) : bool := match p with LTrivial => true | _ => false end.
Definition is_unsat (p : lpolicy) : bool := match p with LUnsat => true | _ => false end.

(* the loop body `for sub in subs { match sub.as_ref() { ... } }`: what one (already
   normalized) child contributes to ret_subs *)
Definition norm_contrib (is_and is_or : bool) (sub : lpolicy) : list lpolicy :=
  match sub with
  | LTrivial | LUnsat => []
  | LThresh k' ps' =>
    match is_and, is_or with
    | true, true => [sub]                                   (* m = n = 1 *)
    | true, false => if Nat.eqb (N.to_nat k') (length ps') then ps' else [sub]     (* and case *)
    | false, true => if N.eqb k' 1 then ps' else [sub]                              (* or case *)
    | false, false => [sub]
    end
  | x => [x]
  end.

(* the part after the children have been normalized *)
Definition norm_node (k : N) (subs : list lpolicy) : lpolicy :=
  let trivial_count := length (filter is_trivial subs) in
  let unsatisfied_count := length (filter is_unsat subs) in
  let n := (length subs - unsatisfied_count - trivial_count)%nat in   (* remove all true/false *)
  let m := (N.to_nat k - trivial_count)%nat in                        (* saturating_sub *)
  let is_and := Nat.eqb m n in
  let is_or := Nat.eqb m 1 in
  let ret_subs := flat_map (norm_contrib is_and is_or) subs in
  if Nat.eqb m 0 then LTrivial
  else if Nat.ltb (length ret_subs) m then LUnsat
  else match ret_subs with
       | [p] => p
       | _ =>
         if is_and then LThresh (N.of_nat (length ret_subs)) ret_subs
         else if is_or then LThresh 1 ret_subs
         else LThresh (N.of_nat m) ret_subs
       end.

Fixpoint normalized (p : lpolicy) : lpolicy :=
  match p with
  | LThresh k ps => norm_node k (map normalized ps)
  | x => x
  end.

(* ------------------------------------------------------------------ TimelockInfo *)
Record tlinfo := mkTl { csv_h : bool; csv_t : bool; cltv_h : bool; cltv_t : bool; tl_comb : bool }.
Definition tl_new := mkTl false false false false false.

(* combine_threshold: a left fold with the accumulator starting at default() *)
Definition tl_step (k : N) (acc t : tlinfo) : tlinfo :=
  let height_and_time :=
      (csv_h acc && csv_t t) || (csv_t acc && csv_h t) || (cltv_t acc && cltv_h t) || (cltv_h acc && cltv_t t) in
  let comb0 := if N.ltb 1 k then tl_comb acc || height_and_time else tl_comb acc in
  mkTl (csv_h acc || csv_h t) (csv_t acc || csv_t t) (cltv_h acc || cltv_h t) (cltv_t acc || cltv_t t)
       (comb0 || tl_comb t).
Definition tl_combine_threshold (k : N) (l : list tlinfo) : tlinfo := fold_left (tl_step k) l tl_new.
Definition tl_and (a b : tlinfo) := tl_combine_threshold 2 [a; b].
Definition tl_or (a b : tlinfo) := tl_combine_threshold 1 [a; b].

Fixpoint timelock_info (m : ms) : tlinfo :=
  match m with
  | MAfter t => mkTl false false (N.ltb t 500000000) (negb (N.ltb t 500000000)) false
  | MOlder t => mkTl (N.eqb (N.land t 4194304) 0) (negb (N.eqb (N.land t 4194304) 0)) false false false
  | MTrue | MFalse | MPkK _ | MPkH _ | MRawPkH _
  | MSha256 _ | MHash256 _ | MRipemd160 _ | MHash160 _
  | MMulti _ _ | MSortedMulti _ _ | MMultiA _ _ | MSortedMultiA _ _ => tl_new
  | MAlt x | MSwap x | MCheck x | MDupIf x | MVerify x | MNonZero x | MZeroNotEqual x => timelock_info x
  | MAndV x y | MAndB x y => tl_and (timelock_info x) (timelock_info y)
  | MOrB x y | MOrD x y | MOrC x y | MOrI x y => tl_or (timelock_info x) (timelock_info y)
  | MAndOr a b c => tl_or (tl_and (timelock_info a) (timelock_info b)) (timelock_info c)
  | MThresh k xs => tl_combine_threshold k (map timelock_info xs)
  end.
Definition has_mixed_timelocks (m : ms) : bool := tl_comb (timelock_info m).

(* ------------------------------------------------------------------ the fold *)
Definition obind {A B} (o : option A) (f : A -> option B) : option B :=
  match o with Some a => f a | None => None end.

(* recursive form: which fragment maps to what *)
Fixpoint lift_raw (m : ms) : option lpolicy :=
  match m with
  | MTrue => Some LTrivial
  | MFalse => Some LUnsat
  | MPkK k | MPkH k => Some (LKey k)
  | MRawPkH _ => None                                        (* LiftError::RawDescriptorLift *)
  | MAfter t => Some (LAfter t)
  | MOlder t => Some (LOlder t)
  | MSha256 h => Some (LSha256 h)
  | MHash256 h => Some (LHash256 h)
  | MRipemd160 h => Some (LRipemd160 h)
  | MHash160 h => Some (LHash160 h)
  | MAlt x | MSwap x | MCheck x | MDupIf x | MVerify x | MNonZero x | MZeroNotEqual x => lift_raw x
  | MAndV x y | MAndB x y =>
    obind (lift_raw x) (fun a => obind (lift_raw y) (fun b => Some (LThresh 2 [a; b])))
  | MAndOr a b c =>
    obind (lift_raw a) (fun pa => obind (lift_raw b) (fun pb => obind (lift_raw c) (fun pc =>
      Some (LThresh 1 [LThresh 2 [pa; pb]; pc]))))
  | MOrB x y | MOrD x y | MOrC x y | MOrI x y =>
    obind (lift_raw x) (fun a => obind (lift_raw y) (fun b => Some (LThresh 1 [a; b])))
  | MThresh k xs =>
    obind ((fix go (l : list ms) : option (list lpolicy) :=
              match l with
              | [] => Some []
              | x :: r => obind (lift_raw x) (fun p => obind (go r) (fun ps => Some (p :: ps)))
              end) xs)
          (fun ps => Some (LThresh k ps))
  | MMulti k ks | MSortedMulti k ks | MMultiA k ks | MSortedMultiA k ks =>
    Some (LThresh k (map LKey ks))                           (* keys in the order written, also for sorted forms *)
  end.

(* faithful iterative form: `for item in self.rtl_post_order_iter()` with a stack of
   translated children; `stack.pop().unwrap()` on an empty stack is the explicit Panic *)
Fixpoint rtl_post (m : ms) : list ms :=
  match m with
  | MAlt x | MSwap x | MCheck x | MDupIf x | MVerify x | MNonZero x | MZeroNotEqual x => rtl_post x ++ [m]
  | MAndV x y | MAndB x y | MOrB x y | MOrD x y | MOrC x y | MOrI x y => rtl_post y ++ rtl_post x ++ [m]
  | MAndOr a b c => rtl_post c ++ rtl_post b ++ rtl_post a ++ [m]
  | MThresh _ xs =>
    (fix go (l : list ms) : list ms := match l with [] => [] | x :: r => go r ++ rtl_post x end) xs ++ [m]
  | _ => [m]
  end.

Inductive iter_out := IStack (s : list lpolicy) | IErrRaw | IPanic.

(* pop n items: first popped first *)
Fixpoint pop_n (n : nat) (s : list lpolicy) : option (list lpolicy * list lpolicy) :=
  match n with
  | O => Some ([], s)
  | S n' => match s with
            | [] => None
            | p :: r => match pop_n n' r with Some (ps, rest) => Some (p :: ps, rest) | None => None end
            end
  end.

Definition lift_step (node : ms) (s : list lpolicy) : iter_out :=
  let leaf p := IStack (p :: s) in
  match node with
  | MTrue => leaf LTrivial
  | MFalse => leaf LUnsat
  | MPkK k | MPkH k => leaf (LKey k)
  | MRawPkH _ => IErrRaw
  | MAfter t => leaf (LAfter t)
  | MOlder t => leaf (LOlder t)
  | MSha256 h => leaf (LSha256 h)
  | MHash256 h => leaf (LHash256 h)
  | MRipemd160 h => leaf (LRipemd160 h)
  | MHash160 h => leaf (LHash160 h)
  | MAlt _ | MSwap _ | MCheck _ | MDupIf _ | MVerify _ | MNonZero _ | MZeroNotEqual _ =>
    match s with p :: r => IStack (p :: r) | [] => IPanic end        (* pop, then push the same *)
  | MAndV _ _ | MAndB _ _ =>
    match s with a :: b :: r => IStack (LThresh 2 [a; b] :: r) | _ => IPanic end
  | MAndOr _ _ _ =>
    match s with a :: b :: c :: r => IStack (LThresh 1 [LThresh 2 [a; b]; c] :: r) | _ => IPanic end
  | MOrB _ _ | MOrD _ _ | MOrC _ _ | MOrI _ _ =>
    match s with a :: b :: r => IStack (LThresh 1 [a; b] :: r) | _ => IPanic end
  | MThresh k xs =>
    match pop_n (length xs) s with Some (ps, r) => IStack (LThresh k ps :: r) | None => IPanic end
  | MMulti k ks | MSortedMulti k ks | MMultiA k ks | MSortedMultiA k ks => leaf (LThresh k (map LKey ks))
  end.

Fixpoint lift_run (items : list ms) (s : list lpolicy) : iter_out :=
  match items with
  | [] => IStack s
  | it :: r => match lift_step it s with IStack s' => lift_run r s' | o => o end
  end.

Inductive lift_err := EBranchExceedResourceLimits | EHeightTimelockCombination | ERawDescriptorLift.
Inductive lres := LOk (p : lpolicy) | LErr (e : lift_err) | LPanic.

(* Miniscript::lift as coded: lift_check (resource limits first, then mixed time locks), the
   iteration, `stack.pop().unwrap()`, normalized *)
Definition lift_iter (rl : bool) (m : ms) : lres :=
  if negb rl then LErr EBranchExceedResourceLimits
  else if has_mixed_timelocks m then LErr EHeightTimelockCombination
  else match lift_run (rtl_post m) [] with
       | IStack (p :: _) => LOk (normalized p)
       | IStack [] => LPanic
       | IErrRaw => LErr ERawDescriptorLift
       | IPanic => LPanic
       end.

(* the same with the recursive fold (refinement: LiftProofs.lift_iter_refines) *)
Definition lift_full (rl : bool) (m : ms) : lres :=
  if negb rl then LErr EBranchExceedResourceLimits
  else if has_mixed_timelocks m then LErr EHeightTimelockCombination
  else match lift_raw m with
       | Some p => LOk (normalized p)
       | None => LErr ERawDescriptorLift
       end.

Definition lift (rl : bool) (m : ms) : option lpolicy :=
  match lift_full rl m with LOk p => Some p | _ => None end.

(* ------------------------------------------------------------------ descriptors *)
(* a miniscript together with the resource-limit verdict the library computed for it *)
Inductive ldesc :=
| DBare (rl : bool) (m : ms) | DSh (rl : bool) (m : ms) | DWsh (rl : bool) (m : ms) | DShWsh (rl : bool) (m : ms)
| DPkh (k : key) | DWpkh (k : key) | DShWpkh (k : key)
| DTr (ik : key) (leaves : list (bool * ms)).      (* leaves in depth-first order; [] = no tree *)

(* TapTree::lift: lift every leaf in order (first error wins), thresh(1, ...), normalized *)
Fixpoint lift_leaves (l : list (bool * ms)) : lres + list lpolicy :=
  match l with
  | [] => inr []
  | (rl, m) :: r =>
    match lift_iter rl m with
    | LOk p => match lift_leaves r with inr ps => inr (p :: ps) | inl e => inl e end
    | e => inl e
    end
  end.

Definition lift_desc (d : ldesc) : lres :=
  match d with
  | DBare rl m | DSh rl m | DWsh rl m | DShWsh rl m => lift_iter rl m
  | DPkh k | DWpkh k | DShWpkh k => LOk (LKey k)
  | DTr ik [] => LOk (LKey ik)
  | DTr ik leaves =>
    match lift_leaves leaves with
    | inr ps => LOk (LThresh 1 [LKey ik; normalized (LThresh 1 ps)])     (* the outer or is NOT normalized *)
    | inl e => e
    end
  end.

(* specification side for descriptors: what the caller can spend with, table level.
   Signatures differ per tap leaf, availability does not: one asset record per leaf. *)
Definition nonempty {A} (l : list A) : bool := match l with [] => false | _ => true end.
Definition desc_spendable (ke : keyenv) (A : assets) (Aleaf : nat -> assets) (d : ldesc) : bool :=
  match d with
  | DBare _ m | DSh _ m | DWsh _ m | DShWsh _ m => nonempty (all_sat ke A m)
  | DPkh k | DWpkh k | DShWpkh k => is_some (a_sig A k)
  | DTr ik leaves =>
    is_some (a_sig A ik)
    || (fix go (i : nat) (l : list (bool * ms)) : bool :=
          match l with [] => false | (_, m) :: r => nonempty (all_sat ke (Aleaf i) m) || go (S i) r end) O leaves
  end.

(* ------------------------------------------------------------------ invariants (Threshold::new) *)
(* every threshold of a policy has 1 <= k <= n (the invariant of the Rust Threshold type) *)
Fixpoint lwf (p : lpolicy) : Prop :=
  match p with
  | LThresh k ps =>
    (1 <= N.to_nat k <= length ps)%nat /\
    (fix go (l : list lpolicy) : Prop := match l with [] => True | x :: r => lwf x /\ go r end) ps
  | _ => True
  end.

(* the same invariant on the miniscript side (thresh, multi, multi_a and sorted forms) *)
Fixpoint ms_thresh_ok (m : ms) : Prop :=
  match m with
  | MAlt x | MSwap x | MCheck x | MDupIf x | MVerify x | MNonZero x | MZeroNotEqual x => ms_thresh_ok x
  | MAndV x y | MAndB x y | MOrB x y | MOrD x y | MOrC x y | MOrI x y => ms_thresh_ok x /\ ms_thresh_ok y
  | MAndOr a b c => ms_thresh_ok a /\ ms_thresh_ok b /\ ms_thresh_ok c
  | MThresh k xs =>
    (1 <= N.to_nat k <= length xs)%nat /\
    (fix go (l : list ms) : Prop := match l with [] => True | x :: r => ms_thresh_ok x /\ go r end) xs
  | MMulti k ks | MSortedMulti k ks | MMultiA k ks | MSortedMultiA k ks => (1 <= N.to_nat k <= length ks)%nat
  | _ => True
  end.

(* two asset records that make the same things available (signature bytes may differ) *)
Definition same_avail (A B : assets) : Prop :=
  (forall k, is_some (a_sig A k) = is_some (a_sig B k)) /\
  (forall h, is_some (a_sha256 A h) = is_some (a_sha256 B h)) /\
  (forall h, is_some (a_hash256 A h) = is_some (a_hash256 B h)) /\
  (forall h, is_some (a_ripemd160 A h) = is_some (a_ripemd160 B h)) /\
  (forall h, is_some (a_hash160 A h) = is_some (a_hash160 B h)) /\
  (forall t, a_after A t = a_after B t) /\ (forall t, a_older A t = a_older B t).

Definition lres_eqb (a b : lres) : bool :=
  match a, b with
  | LOk p, LOk q => lpolicy_eqb p q
  | LErr EBranchExceedResourceLimits, LErr EBranchExceedResourceLimits
  | LErr EHeightTimelockCombination, LErr EHeightTimelockCombination
  | LErr ERawDescriptorLift, LErr ERawDescriptorLift => true
  | LPanic, LPanic => true
  | _, _ => false
  end.
