(* Model of src/descriptor/tr/{taptree,spend_info,mod}.rs (C15) and the BIP341 specification
   side next to it.  Hand-written; mirrors the code that exists: the depth-list TapTree,
   TapTreeBuilder (push_inner_node / push_leaf / finalize, 128 special case, height bitmap),
   TapTree::combine, fmt_helper (brace printer with child counters), Tr::from_tree's walk,
   TrSpendInfo::nodes_from_tap_tree (node vector + parent stack + in-place patching),
   TrSpendInfoIter (merkle stack + BitStack128), translate_pk.
   Conventions: u8/usize values are [nat] here (all are <= a few hundred; structural
   recursion), the two u128 bitmaps are [N] with N.setbit/clearbit/testbit.  Every panic
   site (index out of bounds, assert!, debug_assert!, shift overflow under overflow-checks,
   expect) is an explicit [TPanic site].  Vec stacks are lists with the TOP AT THE HEAD;
   the node vector is a list in index order (push = append).
   No proofs in this file. *)
From Coq Require Export List Bool NArith Arith.
Export ListNotations.

Inductive tt_err := ErrDepth (* TapTreeDepthError *) | ErrArity (* taptree branch must have 2 children *)
                  | ErrSyntax (* expression level *) | ErrTranslate (* translator failed *).
Inductive tres (A : Type) := TOk (a : A) | TErr (e : tt_err) | TPanic (site : N).
Arguments TOk {A} a. Arguments TErr {A} e. Arguments TPanic {A} site.

Definition tbind {A B} (x : tres A) (f : A -> tres B) : tres B :=
  match x with TOk a => f a | TErr e => TErr e | TPanic s => TPanic s end.
Notation "x <-- e ;; k" := (tbind e (fun x => k)) (at level 61, e at next level, right associativity).

(* ======================================================================================= *)
(* (a) trees, depth lists, combine, builder, printer, parser walk                            *)
(* ======================================================================================= *)
Section Shape.
Variable leaf : Type.

Inductive tree := Leaf (l : leaf) | Node (a b : tree).

Fixpoint height (t : tree) : nat :=
  match t with Leaf _ => 0 | Node a b => S (Nat.max (height a) (height b)) end.
Fixpoint n_leaves (t : tree) : nat :=
  match t with Leaf _ => 1 | Node a b => n_leaves a + n_leaves b end.

(* TapTree { depths_leaves: Vec<(u8, Arc<Miniscript>)> } *)
Definition dlist := list (nat * leaf).

Fixpoint depths_at (d : nat) (t : tree) : dlist :=
  match t with
  | Leaf l => [(d, l)]
  | Node a b => depths_at (S d) a ++ depths_at (S d) b
  end.
Definition depths_of_tree (t : tree) : dlist := depths_at 0 t.

(* depth list -> tree: shift/reduce over a stack of (depth, subtree), top at head *)
Fixpoint reduce (d : nat) (t : tree) (st : list (nat * tree)) : list (nat * tree) :=
  match st with
  | (d', a) :: st' => if (d' =? d) && (0 <? d) then reduce (d - 1) (Node a t) st' else (d, t) :: st
  | [] => [(d, t)]
  end.
Definition tod_step (st : list (nat * tree)) (p : nat * leaf) := reduce (fst p) (Leaf (snd p)) st.
Definition tree_of_depths (dl : dlist) : option tree :=
  match fold_left tod_step dl [] with
  | [(0, t)] => Some t
  | _ => None
  end.

(* ---- TapTree::leaf / TapTree::combine ---- *)
Definition tt_leaf (l : leaf) : dlist := [(0, l)].
(* for (depth, leaf) in left.chain(right): if depth > 128 - 1 { Err } push (depth + 1, leaf) *)
Fixpoint bump_depths (dl : dlist) : tres dlist :=
  match dl with
  | [] => TOk []
  | (d, l) :: r => if 127 <? d then TErr ErrDepth else (r' <-- bump_depths r ;; TOk ((S d, l) :: r'))
  end.
Definition tt_combine (l r : dlist) : tres dlist := bump_depths (l ++ r).
(* building a tree bottom-up through the public API *)
Fixpoint api_build (t : tree) : tres dlist :=
  match t with
  | Leaf l => TOk (tt_leaf l)
  | Node a b => x <-- api_build a ;; y <-- api_build b ;; tt_combine x y
  end.

(* ---- TapTreeBuilder ---- *)
Record builder := mkB { b_dl : dlist; b_heights : N (* u128 bitmap *); b_128 : bool; b_cur : nat (* u8 *) }.
Definition b_new : builder := mkB [] 0%N false 0.

(* self.current_height += 1 (u8: panics at 255 under overflow-checks); if > 128 { Err } *)
Definition push_inner_node (b : builder) : tres builder :=
  if 255 <=? b_cur b then TPanic 30 else
  let h := S (b_cur b) in
  if 128 <? h then TErr ErrDepth else TOk (mkB (b_dl b) (b_heights b) (b_128 b) h).

(* while self.current_height > 0 { if bit clear { set; break } clear; current_height -= 1 }
   `1 << self.current_height` on u128 panics for a shift >= 128 (overflow-checks) *)
Fixpoint complete_loop (bits : N) (h : nat) : tres (N * nat) :=
  match h with
  | 0 => TOk (bits, 0)
  | S h' => if 128 <=? h then TPanic 31 else
            if N.testbit bits (N.of_nat h) then complete_loop (N.clearbit bits (N.of_nat h)) h'
            else TOk (N.setbit bits (N.of_nat h), h)
  end.

Definition push_leaf (b : builder) (l : leaf) : tres builder :=
  let dl := b_dl b ++ [(b_cur b, l)] in
  if b_cur b =? 128 then
    if b_128 b then
      r <-- complete_loop (b_heights b) 127 ;; TOk (mkB dl (fst r) false (snd r))
    else TOk (mkB dl (b_heights b) true (b_cur b))
  else
    r <-- complete_loop (b_heights b) (b_cur b) ;; TOk (mkB dl (fst r) (b_128 b) (snd r)).

(* assert!(!self.depths_leaves.is_empty()) *)
Definition finalize (b : builder) : tres dlist :=
  match b_dl b with [] => TPanic 32 | _ => TOk (b_dl b) end.

(* recursive form of the builder calls made for the brace structure of t (pre-order) *)
Fixpoint build (b : builder) (t : tree) : tres builder :=
  match t with
  | Leaf l => push_leaf b l
  | Node x y => b1 <-- push_inner_node b ;; b2 <-- build b1 x ;; build b2 y
  end.
Definition build_tree (t : tree) : tres dlist := b <-- build b_new t ;; finalize b.

(* ---- brace syntax: tokens, the printer fmt_helper, the walk of Tr::from_tree ---- *)
Inductive tok := TOpen | TClose | TComma | TLeafTok (l : leaf).

Fixpoint tokens_of_tree (t : tree) : list tok :=
  match t with
  | Leaf l => [TLeafTok l]
  | Node a b => TOpen :: tokens_of_tree a ++ TComma :: tokens_of_tree b ++ [TClose]
  end.

(* fmt_helper: child_counts stack (top at head), output appended *)
Fixpoint open_braces (k : nat) (cc : list nat) (out : list tok) : list nat * list tok :=
  match k with
  | 0 => (cc, out)
  | S k' => open_braces k' (0 :: cc) (out ++ [TOpen])
  end.
(* if let Some(c) = last_mut { c += 1 }; while let Some(2) = last { "}"; pop; if let Some(c) = last_mut { c += 1 } } *)
Fixpoint bump_counts (cc : list nat) : list tok * list nat :=
  match cc with
  | [] => ([], [])
  | c :: r => if S c =? 2 then (let (o, r') := bump_counts r in (TClose :: o, r')) else ([], S c :: r)
  end.
Definition print_step (st : list nat * list tok) (p : nat * leaf) : list nat * list tok :=
  let (cc, out) := st in
  let out1 := match cc with [] => out | _ => out ++ [TComma] end in
  let (cc2, out2) := open_braces (fst p - length cc) cc out1 in
  let out3 := out2 ++ [TLeafTok (snd p)] in
  let (closes, cc3) := bump_counts cc2 in
  (cc3, out3 ++ closes).
Definition print_tokens (dl : dlist) : list tok := snd (fold_left print_step dl ([], [])).

(* expression-level well-formedness of a brace string (model of what Tree::from_str plus
   leaf parsing accept, on the token alphabet): S ::= leaf | { S (, S)* } *)
Fixpoint wf_go (depth : nat) (expect_item : bool) (ts : list tok) : bool :=
  match ts with
  | [] => (depth =? 0) && negb expect_item
  | TOpen :: r => expect_item && wf_go (S depth) true r
  | TLeafTok _ :: r => expect_item && wf_go depth false r
  | TComma :: r => negb expect_item && (0 <? depth) && wf_go depth true r
  | TClose :: r => negb expect_item && (0 <? depth) && wf_go (depth - 1) false r
  end.
(* number of children of the group whose body starts here (node.verify_n_children) *)
Fixpoint n_children (depth : nat) (ts : list tok) (acc : nat) : option nat :=
  match ts with
  | [] => None
  | TOpen :: r => n_children (S depth) r acc
  | TClose :: r => match depth with 0 => Some acc | S d => n_children d r acc end
  | TComma :: r => n_children depth r (match depth with 0 => S acc | _ => acc end)
  | TLeafTok _ :: r => n_children depth r acc
  end.
(* pre-order walk: Curly => verify 2 children, push_inner_node; otherwise push_leaf *)
Fixpoint walk (ts : list tok) (b : builder) : tres builder :=
  match ts with
  | [] => TOk b
  | TOpen :: r =>
      match n_children 0 r 1 with
      | Some 2 => b' <-- push_inner_node b ;; walk r b'
      | Some _ => TErr ErrArity
      | None => TErr ErrSyntax
      end
  | TLeafTok l :: r => b' <-- push_leaf b l ;; walk r b'
  | TClose :: r | TComma :: r => walk r b
  end.
Definition parse_tokens (ts : list tok) : tres dlist :=
  if wf_go 0 true ts then (b <-- walk ts b_new ;; finalize b) else TErr ErrSyntax.

End Shape.
Arguments Leaf {leaf} l. Arguments Node {leaf} a b.
Arguments TOpen {leaf}. Arguments TClose {leaf}. Arguments TComma {leaf}. Arguments TLeafTok {leaf} l.

(* ---- translate_pk: for (depth, leaf) in &self.depths_leaves { push (depth, leaf.translate(t)?) } ---- *)
Section Translate.
Variables leafA leafB : Type.
Variable f : leafA -> option leafB.
Fixpoint translate_dl (dl : dlist leafA) : tres (dlist leafB) :=
  match dl with
  | [] => TOk []
  | (d, l) :: r => match f l with
                   | None => TErr ErrTranslate
                   | Some l' => r' <-- translate_dl r ;; TOk ((d, l') :: r')
                   end
  end.
Fixpoint map_tree (g : leafA -> leafB) (t : tree leafA) : tree leafB :=
  match t with Leaf l => Leaf (g l) | Node a b => Node (map_tree g a) (map_tree g b) end.
End Translate.

(* ======================================================================================= *)
(* (b) spend info: Merkle computation with index patching, leaves iterator                  *)
(* (c) BIP341 specification                                                                 *)
(* ======================================================================================= *)
Section Merkle.
Variable leaf : Type.
Variable hash : Type.
Variable leafH : leaf -> hash.               (* TapNodeHash::from(TapLeafHash::from_script(encode(ms), TapScript)) *)
Variable branchH : hash -> hash -> hash.     (* TapNodeHash::from_node_hashes (sorts its arguments) *)

(* ---- specification (BIP341) ---- *)
Fixpoint root (t : tree leaf) : hash :=
  match t with Leaf l => leafH l | Node a b => branchH (root a) (root b) end.
(* every leaf, left to right, with its Merkle path (sibling of the leaf first, child of the root last) *)
Fixpoint paths (t : tree leaf) : list (leaf * list hash) :=
  match t with
  | Leaf l => [(l, [])]
  | Node a b => map (fun lp => (fst lp, snd lp ++ [root b])) (paths a)
             ++ map (fun lp => (fst lp, snd lp ++ [root a])) (paths b)
  end.
Definition path (t : tree leaf) (i : nat) : option (list hash) := option_map snd (nth_error (paths t) i).
(* BIP341 script-path validation: k_{j+1} = branch(k_j, e_j) starting from the leaf hash *)
Definition fold_path (l : leaf) (p : list hash) : hash := fold_left branchH p (leafH l).

(* ---- TrSpendInfoNode, the node vector ---- *)
Record node := mkNode { n_sib : hash; n_leaf : option leaf }.

Definition get_sib (i : nat) (ns : list node) : option hash := option_map n_sib (nth_error ns i).
Fixpoint set_sib (i : nat) (h : hash) (ns : list node) : option (list node) :=
  match ns, i with
  | [], _ => None
  | n :: r, 0 => Some (mkNode h (n_leaf n) :: r)
  | n :: r, S i' => option_map (cons n) (set_sib i' h r)
  end.

(* 1. while parent_stack.len() < depth { parent_stack.push((false, nodes.len())); nodes.push(dummy) } *)
Fixpoint add_parents (k : nat) (cur : hash) (ns : list node) (ps : list (bool * nat))
  : list node * list (bool * nat) :=
  match k with
  | 0 => (ns, ps)
  | S k' => add_parents k' cur (ns ++ [mkNode cur None]) ((false, length ns) :: ps)
  end.

(* 3. while let Some((done_left, parent_idx)) = parent_stack.pop() { ... } *)
Fixpoint complete (ns : list node) (cur_hash : hash) (cur_index : nat) (ps : list (bool * nat))
  : tres (list node * list (bool * nat)) :=
  match ps with
  | [] => TOk (ns, [])
  | (true, p) :: rest =>
      match get_sib (S p) ns with None => TPanic 1 | Some lch =>
      let nw := branchH lch cur_hash in
      match set_sib p nw ns with None => TPanic 2 | Some ns1 =>
      match set_sib (S p) cur_hash ns1 with None => TPanic 3 | Some ns2 =>
      match set_sib cur_index lch ns2 with None => TPanic 4 | Some ns3 =>
      complete ns3 nw p rest
      end end end end
  | (false, p) :: rest => TOk (ns, (true, p) :: rest)
  end.

Definition leaf_step (st : list node * list (bool * nat)) (dl : nat * leaf)
  : tres (list node * list (bool * nat)) :=
  let (ns, ps) := st in
  let cur := leafH (snd dl) in
  let (ns1, ps1) := add_parents (fst dl - length ps) cur ns ps in
  if negb (fst dl =? length ps1) then TPanic 10 (* assert_eq!(depth, parent_stack.len()) *) else
  let ns2 := ns1 ++ [mkNode cur (Some (snd dl))] in
  complete ns2 cur (length ns1) (* = nodes.len() - 1 *) ps1.

Fixpoint run_leaves (st : list node * list (bool * nat)) (dl : dlist leaf)
  : tres (list node * list (bool * nat)) :=
  match dl with
  | [] => TOk st
  | p :: r => st' <-- leaf_step st p ;; run_leaves st' r
  end.

Definition nodes_from_tap_tree (dl : dlist leaf) : tres (list node) :=
  st <-- run_leaves ([], []) dl ;;
  match snd st with
  | _ :: _ => TPanic 11   (* debug_assert_eq!(parent_stack.len(), 0) *)
  | [] => match fst st with
          | [] => TPanic 12  (* debug_assert_ne!(nodes.len(), 0) *)
          | _ => TOk (fst st)
          end
  end.

Definition merkle_root_of (ns : list node) : option hash := option_map n_sib (hd_error ns).

(* the node vector the algorithm is meant to produce: pre-order, each node holding its
   SIBLING's hash; s is what the subtree's own root node holds *)
Fixpoint layout (s : hash) (t : tree leaf) : list node :=
  match t with
  | Leaf l => [mkNode s (Some l)]
  | Node a b => mkNode s None :: layout (root b) a ++ layout (root a) b
  end.

(* ---- BitStack128 ---- *)
Record bitstack := mkBS { bs_inner : N; bs_height : nat }.
Definition bs_empty := mkBS 0%N 0.
(* `1u128 << self.height` panics for height >= 128 under overflow-checks *)
Definition bs_push (bs : bitstack) (bit : bool) : tres bitstack :=
  if 128 <=? bs_height bs then TPanic 20 else
  TOk (mkBS (if bit then N.setbit (bs_inner bs) (N.of_nat (bs_height bs))
             else N.clearbit (bs_inner bs) (N.of_nat (bs_height bs)))
            (S (bs_height bs))).
Definition bs_pop (bs : bitstack) : option (bool * bitstack) :=
  match bs_height bs with
  | 0 => None
  | S h => Some (N.testbit (bs_inner bs) (N.of_nat h), mkBS (bs_inner bs) h)
  end.

(* ---- TrSpendInfoIter ---- *)
(* item: leaf, depth() = merkle_branch.len(), merkle_branch *)
Definition item := (leaf * nat * list hash)%type.

(* loop { match done_left_stack.pop() { None => break, Some(false) => { push(true); break },
   Some(true) => { merkle_stack.pop(); } } }      fuel = height + 1 *)
Fixpoint unwind (fuel : nat) (bs : bitstack) (ms : list hash) : tres (bitstack * list hash) :=
  match fuel with
  | 0 => TPanic 29 (* out of fuel: excluded by unwind_fuel lemma *)
  | S f => match bs_pop bs with
           | None => TOk (bs, ms)
           | Some (false, bs') => bs'' <-- bs_push bs' true ;; TOk (bs'', ms)
           | Some (true, bs') => unwind f bs' (tl ms)
           end
  end.

(* one iteration of the `while self.index < nodes.len()` body; emits an item at a leaf *)
Definition iter_step (idx : nat) (st : list hash * bitstack) (n : node)
  : tres ((list hash * bitstack) * option item) :=
  let (ms, bs) := st in
  let ms1 := if 0 <? idx then n_sib n :: ms else ms in
  match n_leaf n with
  | Some l =>
      let branch := ms1 in  (* clone + reverse: the top of the stack comes first *)
      r <-- unwind (S (bs_height bs)) bs (tl ms1) ;;
      if 128 <? length branch then TPanic 21 (* TaprootMerkleBranch::try_from(..).expect *) else
      TOk ((snd r, fst r), Some (l, length branch, branch))
  | None => bs' <-- bs_push bs false ;; TOk ((ms1, bs'), None)
  end.

Fixpoint iter_from (idx : nat) (st : list hash * bitstack) (ns : list node) : tres (list item) :=
  match ns with
  | [] => TOk []
  | n :: r => x <-- iter_step idx st n ;;
              rest <-- iter_from (S idx) (fst x) r ;;
              TOk (match snd x with Some it => it :: rest | None => rest end)
  end.
Definition leaves_iter (ns : list node) : tres (list item) := iter_from 0 ([], bs_empty) ns.

(* ---- TrSpendInfo::from_tr, control blocks ---- *)
Variables key okey parity : Type.
Variable tweak : key -> option hash -> okey * parity.   (* to_x_only_pubkey + tap_tweak *)

Record spend_info := mkSI { si_internal : key; si_okey : okey; si_parity : parity; si_nodes : list node }.
Definition from_tr (ik : key) (tree : option (dlist leaf)) : tres spend_info :=
  ns <-- match tree with Some dl => nodes_from_tap_tree dl | None => TOk [] end ;;
  let qp := tweak ik (merkle_root_of ns) in
  TOk (mkSI ik (fst qp) (snd qp) ns).

(* control block = (output_key_parity, internal_key, merkle_branch), leaf version fixed *)
Definition cblock := (parity * key * list hash)%type.
Definition control_blocks (si : spend_info) : tres (list (leaf * cblock)) :=
  its <-- leaves_iter (si_nodes si) ;;
  TOk (map (fun it : item => (fst (fst it), (si_parity si, si_internal si, snd it))) its).

(* BIP341 script-path commitment check (ControlBlock::verify_taproot_commitment):
   fold the path from the leaf hash, then check the tweak *)
Variable tweak_check : okey -> parity -> key -> hash -> bool.
Definition cb_verify (q : okey) (l : leaf) (cb : cblock) : bool :=
  tweak_check q (fst (fst cb)) (snd (fst cb)) (fold_path l (snd cb)).

(* TrSpendInfo::to_tap_tree: None without a tree; otherwise every item the leaves iterator yields
   is fed as (depth, script, version) to rust-bitcoin's TaprootBuilder, whose add_leaf is the
   shift/reduce of tree_of_depths; `.expect("... DFS order")` / `.expect("tree is complete")` *)
Definition to_tap_tree (ns : list node) : tres (option (tree leaf)) :=
  match ns with
  | [] => TOk None
  | _ => its <-- leaves_iter ns ;;
         match tree_of_depths leaf (map (fun it : item => (snd (fst it), fst (fst it))) its) with
         | Some t => TOk (Some t)
         | None => TPanic 40
         end
  end.

(* Tr::script_pubkey = OP_1 <output key>; Tr::address = p2tr_tweaked(output key, network): both are
   functions of the cached spend info's output key only *)
Variables network address spk : Type.
Variable addr_of : network -> okey -> address.
Variable spk_of : okey -> spk.
Definition tr_script_pubkey (si : spend_info) : spk := spk_of (si_okey si).
Definition tr_address (n : network) (si : spend_info) : address := addr_of n (si_okey si).

End Merkle.
Arguments mkNode {leaf hash} n_sib n_leaf.
Arguments n_sib {leaf hash} n. Arguments n_leaf {leaf hash} n.
