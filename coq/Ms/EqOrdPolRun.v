(* C19 — executable glue for comparing the implementation's ==/cmp on policies (concrete and semantic) with
   the model (used by the generated Tables/EqOrdCasesGen.v).  No proofs in this file. *)
From Verif Require Export EqOrdRun EqOrdPolModel.

Definition pobs_model (ranks : list N) (a b : cpol) : N * N :=
  (b2n (cpol_eqb a b), cmp_code (cpol_cmp (kcmp_of ranks) a b)).

(* (i, j, (impl ==, impl cmp)) *)
Definition ppcase := (N * N * (N * N))%type.
Definition getpv (vals : list cpol) (i : N) : cpol := nth (N.to_nat i) vals QUnsat.

Definition ppair_ok (ranks : list N) (vals : list cpol) (c : ppcase) : bool :=
  let '(i, j, (e, o)) := c in
  let '(e', o') := pobs_model ranks (getpv vals i) (getpv vals j) in
  N.eqb e e' && N.eqb o o'.

(* semantic: true for the domain of semantic policies (every value must be And/Or-free) *)
Record poldom := mkPolDom { pd_semantic : bool; pd_ranks : list N; pd_vals : list cpol; pd_pairs : list ppcase }.

Definition poldom_ok (d : poldom) : bool :=
  (if pd_semantic d then forallb is_semantic (pd_vals d) else true) &&
  forallb (ppair_ok (pd_ranks d) (pd_vals d)) (pd_pairs d).

(* failing pairs: (i, j, impl, model) *)
Definition poldom_diag (d : poldom) : list (N * N * (N * N) * (N * N)) :=
  flat_map (fun c : ppcase =>
    if ppair_ok (pd_ranks d) (pd_vals d) c then []
    else let '(i, j, o) := c in [(i, j, o, pobs_model (pd_ranks d) (getpv (pd_vals d) i) (getpv (pd_vals d) j))]) (pd_pairs d).
