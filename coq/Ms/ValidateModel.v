(* Model of src/validation.rs (ValidationParams, constants, intersect, entails, validate_pk),
   of Miniscript::{validate, validate_non_top_level} (src/miniscript/mod.rs), of the
   per-context constants and check_global_* / top_level_checks (src/miniscript/context.rs),
   of the entry points that compose them (from_str*, decode*, descriptor wrappers, tr leaves)
   and of the range rules of Threshold::new / AbsLockTime / RelLockTime::from_consensus.

   `validate` is a function of an ABSTRACT SUMMARY of the script: exactly the figures and
   facts the Rust code consults (ty.corr.base, ty.mall.{non_malleable,signed}, ext.tree_height,
   has_repeated_keys, has_mixed_timelocks, the pre-order node list with the keys of each node,
   script_size, ext.sat_data).  The ORDER of checks is the Rust order: the first error class
   is observable.  Hand-written; no proofs in this file. *)
From Coq Require Export List Bool NArith.
From Coq Require Import MSetPositive.
Export ListNotations.
From Verif Require Export Types.
Local Open Scope N_scope.

(* ------------------------------------------------------------------ ValidationParams *)
Record vparams := mkVP {
  allow_compressed_keys : bool;
  allow_duplicate_keys : bool;
  allow_dup_if : bool;
  allow_malleability : bool;
  allow_multi : bool;
  allow_multi_a : bool;
  allow_mixed_time_locks : bool;
  allow_or_i : bool;
  allow_raw_pkh : bool;
  allow_sigless_branch : bool;
  allow_non_b : bool;
  allow_uncompressed_keys : bool;
  allow_unsatisfiable : bool;
  allow_x_only_keys : bool;
  allow_inconsistent_multipath_keys : bool;
  max_opcode_count : N;
  max_script_size : N;
  max_witness_items : N;
  max_exec_stack_size : N;
  max_recursive_depth : N }.

Definition USIZE_MAX : N := 18446744073709551615.   (* 64-bit target *)

(* src/miniscript/limits.rs *)
Definition MAX_OPS_PER_SCRIPT : N := 201.
Definition MAX_STANDARD_P2WSH_STACK_ITEMS : N := 100.
Definition MAX_SCRIPT_SIZE : N := 10000.
Definition MAX_STANDARD_P2WSH_SCRIPT_SIZE : N := 3600.
Definition MAX_SCRIPT_ELEMENT_SIZE : N := 520.
Definition MAX_STACK_SIZE : N := 1000.
Definition MAX_BLOCK_WEIGHT : N := 4000000.
Definition MAX_RECURSION_DEPTH : N := 402.          (* src/lib.rs *)
Definition MAX_PUBKEYS_PER_MULTISIG : N := 20.
Definition MAX_PUBKEYS_IN_CHECKSIGADD : N := 999.

Definition VP_MAX : vparams :=
  mkVP true true true true true true true true true true true true true true true
       USIZE_MAX USIZE_MAX USIZE_MAX USIZE_MAX 402.

Definition VP_SANE : vparams :=
  {| allow_compressed_keys := true; allow_duplicate_keys := false; allow_dup_if := true;
     allow_malleability := false; allow_multi := true; allow_multi_a := true;
     allow_mixed_time_locks := false; allow_or_i := true; allow_raw_pkh := false;
     allow_sigless_branch := false; allow_non_b := false; allow_uncompressed_keys := true;
     allow_unsatisfiable := true; allow_x_only_keys := true;
     allow_inconsistent_multipath_keys := false;
     max_opcode_count := USIZE_MAX; max_script_size := USIZE_MAX; max_witness_items := USIZE_MAX;
     max_exec_stack_size := USIZE_MAX; max_recursive_depth := max_recursive_depth VP_MAX |}.

Definition VP_CONSENSUS : vparams :=
  {| allow_compressed_keys := true; allow_duplicate_keys := true; allow_dup_if := true;
     allow_malleability := true; allow_multi := true; allow_multi_a := true;
     allow_mixed_time_locks := true; allow_or_i := true; allow_raw_pkh := true;
     allow_sigless_branch := true; allow_non_b := false; allow_uncompressed_keys := true;
     allow_unsatisfiable := true; allow_x_only_keys := true;
     allow_inconsistent_multipath_keys := true;
     max_opcode_count := USIZE_MAX; max_script_size := USIZE_MAX; max_witness_items := USIZE_MAX;
     max_exec_stack_size := USIZE_MAX; max_recursive_depth := max_recursive_depth VP_MAX |}.

(* `const fn eq` *)
Definition vp_eqb (a b : vparams) : bool :=
  Bool.eqb (allow_compressed_keys a) (allow_compressed_keys b)
  && Bool.eqb (allow_duplicate_keys a) (allow_duplicate_keys b)
  && Bool.eqb (allow_dup_if a) (allow_dup_if b)
  && Bool.eqb (allow_malleability a) (allow_malleability b)
  && Bool.eqb (allow_mixed_time_locks a) (allow_mixed_time_locks b)
  && Bool.eqb (allow_multi a) (allow_multi b)
  && Bool.eqb (allow_multi_a a) (allow_multi_a b)
  && Bool.eqb (allow_or_i a) (allow_or_i b)
  && Bool.eqb (allow_raw_pkh a) (allow_raw_pkh b)
  && Bool.eqb (allow_sigless_branch a) (allow_sigless_branch b)
  && Bool.eqb (allow_non_b a) (allow_non_b b)
  && Bool.eqb (allow_uncompressed_keys a) (allow_uncompressed_keys b)
  && Bool.eqb (allow_unsatisfiable a) (allow_unsatisfiable b)
  && Bool.eqb (allow_x_only_keys a) (allow_x_only_keys b)
  && Bool.eqb (allow_inconsistent_multipath_keys a) (allow_inconsistent_multipath_keys b)
  && N.eqb (max_opcode_count a) (max_opcode_count b)
  && N.eqb (max_script_size a) (max_script_size b)
  && N.eqb (max_witness_items a) (max_witness_items b)
  && N.eqb (max_exec_stack_size a) (max_exec_stack_size b)
  && N.eqb (max_recursive_depth a) (max_recursive_depth b).

(* "cannot use cmp::min in const ctx": if a < b { a } else { b } *)
Definition lim_min (a b : N) : N := if a <? b then a else b.

Definition intersect (a b : vparams) : vparams :=
  {| allow_compressed_keys := allow_compressed_keys a && allow_compressed_keys b;
     allow_duplicate_keys := allow_duplicate_keys a && allow_duplicate_keys b;
     allow_dup_if := allow_dup_if a && allow_dup_if b;
     allow_malleability := allow_malleability a && allow_malleability b;
     allow_multi := allow_multi a && allow_multi b;
     allow_multi_a := allow_multi_a a && allow_multi_a b;
     allow_mixed_time_locks := allow_mixed_time_locks a && allow_mixed_time_locks b;
     allow_or_i := allow_or_i a && allow_or_i b;
     allow_raw_pkh := allow_raw_pkh a && allow_raw_pkh b;
     allow_sigless_branch := allow_sigless_branch a && allow_sigless_branch b;
     allow_non_b := allow_non_b a && allow_non_b b;
     allow_uncompressed_keys := allow_uncompressed_keys a && allow_uncompressed_keys b;
     allow_unsatisfiable := allow_unsatisfiable a && allow_unsatisfiable b;
     allow_x_only_keys := allow_x_only_keys a && allow_x_only_keys b;
     allow_inconsistent_multipath_keys :=
       allow_inconsistent_multipath_keys a && allow_inconsistent_multipath_keys b;
     max_opcode_count := lim_min (max_opcode_count a) (max_opcode_count b);
     max_script_size := lim_min (max_script_size a) (max_script_size b);
     max_witness_items := lim_min (max_witness_items a) (max_witness_items b);
     max_exec_stack_size := lim_min (max_exec_stack_size a) (max_exec_stack_size b);
     max_recursive_depth := lim_min (max_recursive_depth a) (max_recursive_depth b) |}.

(* self.intersect(other).eq(self) *)
Definition entails (a b : vparams) : bool := vp_eqb (intersect a b) a.

(* ------------------------------------------------------------------ contexts *)
Inductive ctx := CBare | CLegacy | CSegwitv0 | CTap.

(* struct-update syntax `..X`: only the named fields change *)
Definition ctx_consensus (c : ctx) : vparams :=
  let C := VP_CONSENSUS in
  match c with
  | CLegacy =>
      {| allow_compressed_keys := true; allow_duplicate_keys := allow_duplicate_keys C;
         allow_dup_if := false; allow_malleability := allow_malleability C;
         allow_multi := allow_multi C; allow_multi_a := false;
         allow_mixed_time_locks := allow_mixed_time_locks C; allow_or_i := false;
         allow_raw_pkh := allow_raw_pkh C; allow_sigless_branch := allow_sigless_branch C;
         allow_non_b := allow_non_b C; allow_uncompressed_keys := true;
         allow_unsatisfiable := allow_unsatisfiable C; allow_x_only_keys := false;
         allow_inconsistent_multipath_keys := allow_inconsistent_multipath_keys C;
         max_opcode_count := MAX_OPS_PER_SCRIPT; max_script_size := MAX_SCRIPT_ELEMENT_SIZE;
         max_witness_items := max_witness_items C; max_exec_stack_size := max_exec_stack_size C;
         max_recursive_depth := max_recursive_depth C |}
  | CSegwitv0 =>
      {| allow_compressed_keys := true; allow_duplicate_keys := allow_duplicate_keys C;
         allow_dup_if := allow_dup_if C; allow_malleability := allow_malleability C;
         allow_multi := allow_multi C; allow_multi_a := false;
         allow_mixed_time_locks := allow_mixed_time_locks C; allow_or_i := allow_or_i C;
         allow_raw_pkh := allow_raw_pkh C; allow_sigless_branch := allow_sigless_branch C;
         allow_non_b := allow_non_b C; allow_uncompressed_keys := false;
         allow_unsatisfiable := allow_unsatisfiable C; allow_x_only_keys := false;
         allow_inconsistent_multipath_keys := allow_inconsistent_multipath_keys C;
         max_opcode_count := MAX_OPS_PER_SCRIPT; max_script_size := max_script_size C;
         max_witness_items := max_witness_items C; max_exec_stack_size := MAX_STACK_SIZE;
         max_recursive_depth := max_recursive_depth C |}
  | CTap =>
      {| allow_compressed_keys := false; allow_duplicate_keys := allow_duplicate_keys C;
         allow_dup_if := allow_dup_if C; allow_malleability := allow_malleability C;
         allow_multi := false; allow_multi_a := allow_multi_a C;
         allow_mixed_time_locks := allow_mixed_time_locks C; allow_or_i := allow_or_i C;
         allow_raw_pkh := allow_raw_pkh C; allow_sigless_branch := allow_sigless_branch C;
         allow_non_b := allow_non_b C; allow_uncompressed_keys := false;
         allow_unsatisfiable := allow_unsatisfiable C; allow_x_only_keys := true;
         allow_inconsistent_multipath_keys := allow_inconsistent_multipath_keys C;
         max_opcode_count := max_opcode_count C; max_script_size := max_script_size C;
         max_witness_items := max_witness_items C; max_exec_stack_size := max_exec_stack_size C;
         max_recursive_depth := max_recursive_depth C |}
  | CBare =>
      {| allow_compressed_keys := true; allow_duplicate_keys := allow_duplicate_keys C;
         allow_dup_if := false; allow_malleability := allow_malleability C;
         allow_multi := allow_multi C; allow_multi_a := false;
         allow_mixed_time_locks := allow_mixed_time_locks C; allow_or_i := false;
         allow_raw_pkh := allow_raw_pkh C; allow_sigless_branch := allow_sigless_branch C;
         allow_non_b := allow_non_b C; allow_uncompressed_keys := true;
         allow_unsatisfiable := allow_unsatisfiable C; allow_x_only_keys := false;
         allow_inconsistent_multipath_keys := allow_inconsistent_multipath_keys C;
         max_opcode_count := MAX_OPS_PER_SCRIPT; max_script_size := MAX_SCRIPT_SIZE;
         max_witness_items := max_witness_items C; max_exec_stack_size := max_exec_stack_size C;
         max_recursive_depth := max_recursive_depth C |}
  end.

Definition set_limits (p : vparams) (ops size wit stack depth : N) : vparams :=
  {| allow_compressed_keys := allow_compressed_keys p; allow_duplicate_keys := allow_duplicate_keys p;
     allow_dup_if := allow_dup_if p; allow_malleability := allow_malleability p;
     allow_multi := allow_multi p; allow_multi_a := allow_multi_a p;
     allow_mixed_time_locks := allow_mixed_time_locks p; allow_or_i := allow_or_i p;
     allow_raw_pkh := allow_raw_pkh p; allow_sigless_branch := allow_sigless_branch p;
     allow_non_b := allow_non_b p; allow_uncompressed_keys := allow_uncompressed_keys p;
     allow_unsatisfiable := allow_unsatisfiable p; allow_x_only_keys := allow_x_only_keys p;
     allow_inconsistent_multipath_keys := allow_inconsistent_multipath_keys p;
     max_opcode_count := ops; max_script_size := size; max_witness_items := wit;
     max_exec_stack_size := stack; max_recursive_depth := depth |}.

Definition ctx_sane (c : ctx) : vparams :=
  let I := intersect (ctx_consensus c) VP_SANE in
  match c with
  | CLegacy | CBare => I
  | CSegwitv0 =>
      set_limits I (max_opcode_count I) MAX_STANDARD_P2WSH_SCRIPT_SIZE MAX_STANDARD_P2WSH_STACK_ITEMS
                 (max_exec_stack_size I) (max_recursive_depth I)
  | CTap =>
      set_limits I (max_opcode_count I) (max_script_size I) (max_witness_items I)
                 MAX_STACK_SIZE (max_recursive_depth I)
  end.

(* ------------------------------------------------------------------ script summary *)
(* MiniscriptKey::{is_uncompressed, is_x_only_key, num_der_paths}; k_id identifies the key
   value (two occurrences are `==` as Pk iff they carry the same id) *)
Record keyinfo := mkKey { k_id : N; k_uncompressed : bool; k_xonly : bool; k_paths : N }.

(* the Terminal constructors that validate / check_global_* / top_level_checks distinguish *)
Inductive nkind :=
| KPkK | KPkH | KRawPkH | KMulti | KSortedMulti | KMultiA | KSortedMultiA
| KDupIf | KOrI | KCheck | KOther.

(* one node of the tree: kind, its keys (PkK/PkH: one; multi*: all, in order), ext.pk_cost *)
Record node := mkNode { n_kind : nkind; n_keys : list keyinfo; n_pk_cost : N }.

(* ext.sat_data = Some {..}: the three figures validate reads *)
Record satfig := mkSat {
  sf_wit_count : N;      (* max_witness_stack_count *)
  sf_op_count : N;       (* static_ops + max_exec_op_count  (ExtData::sat_op_count) *)
  sf_exec_stack : N }.   (* max_exec_stack_count *)

Record summary := mkSum {
  s_base : base;                 (* ty.corr.base *)
  s_nonmall : bool;              (* ty.mall.non_malleable  (is_non_malleable) *)
  s_signed : bool;               (* ty.mall.signed         (requires_sig) *)
  s_tree_height : N;             (* ext.tree_height *)
  s_mixed_locks : bool;          (* has_mixed_timelocks() = ext.timelock_info.contains_combination *)
  s_nodes : list node;           (* self.iter() = pre-order; head is the root *)
  s_script_size : N;             (* script_size() *)
  s_sat : option satfig }.       (* ext.sat_data *)

(* keys that iter_pk / for_each_key visit: those of PkK, PkH and the four multi kinds *)
Definition vkeys (n : node) : list keyinfo :=
  match n_kind n with
  | KPkK | KPkH | KMulti | KSortedMulti | KMultiA | KSortedMultiA => n_keys n
  | _ => []
  end.
Definition all_keys (ns : list node) : list keyinfo := flat_map vkeys ns.

(* analyzable.rs has_repeated_keys: iter_pk().count() != iter_pk().collect::<BTreeSet<_>>().len();
   the BTreeSet is a set of key identities (stdlib trie set on positive numbers) *)
Definition key_set (ids : list N) : PositiveSet.t :=
  fold_right (fun i acc => PositiveSet.add (N.succ_pos i) acc) PositiveSet.empty ids.
Definition has_repeated_keys (s : summary) : bool :=
  let ids := map k_id (all_keys (s_nodes s)) in
  negb (N.of_nat (PositiveSet.cardinal (key_set ids)) =? N.of_nat (length ids)).

(* ExtData::tree_height, the rule of every constructor (type_check / the cast_* and binary
   rules): a fragment without sub-fragments has height 0, every wrapper and combinator is one
   more than its deepest child.  Input: the numbers of children in pre-order; fuel = length. *)
Fixpoint height_pre (fuel : nat) (l : list N) : N * list N :=
  match fuel with
  | O => (0, l)
  | S f =>
      match l with
      | [] => (0, [])
      | a :: r =>
          let fix kids (k : nat) (l : list N) (acc : N) : N * list N :=
            match k with
            | O => (acc, l)
            | S k' => let '(h, rest) := height_pre f l in kids k' rest (N.max acc h)
            end in
          let '(m, rest) := kids (N.to_nat a) r 0 in
          ((if a =? 0 then 0 else 1 + m), rest)
      end
  end.
Definition tree_height_of (arities : list N) : N := fst (height_pre (S (length arities)) arities).

(* ------------------------------------------------------------------ validation errors *)
Inductive verr :=
| EDuplicateKeys | EIllegalDupIf | EIllegalMulti | EIllegalMultiA | EIllegalOrI | EIllegalRawPkh
| EMalleable | EMaxOpCount | EMaxScriptSize | EMaxWitnessItems | EMaxExecStack
| EMaxRecursiveDepth | EMixedTimeLocks | EMultipathLenMismatch | ENonBase (b : base)
| ESiglessBranch | EKeyCompressed | EKeyUncompressed | EKeyXOnly | EUnsatisfiable.

Inductive vres := VOk | VErr (e : verr).

Definition verr_eqb (a b : verr) : bool :=
  match a, b with
  | EDuplicateKeys, EDuplicateKeys | EIllegalDupIf, EIllegalDupIf | EIllegalMulti, EIllegalMulti
  | EIllegalMultiA, EIllegalMultiA | EIllegalOrI, EIllegalOrI | EIllegalRawPkh, EIllegalRawPkh
  | EMalleable, EMalleable | EMaxOpCount, EMaxOpCount | EMaxScriptSize, EMaxScriptSize
  | EMaxWitnessItems, EMaxWitnessItems | EMaxExecStack, EMaxExecStack
  | EMaxRecursiveDepth, EMaxRecursiveDepth | EMixedTimeLocks, EMixedTimeLocks
  | EMultipathLenMismatch, EMultipathLenMismatch | ESiglessBranch, ESiglessBranch
  | EKeyCompressed, EKeyCompressed | EKeyUncompressed, EKeyUncompressed | EKeyXOnly, EKeyXOnly
  | EUnsatisfiable, EUnsatisfiable => true
  | ENonBase x, ENonBase y => base_eqb x y
  | _, _ => false
  end.
Definition vres_eqb (a b : vres) : bool :=
  match a, b with VOk, VOk => true | VErr x, VErr y => verr_eqb x y | _, _ => false end.

(* ValidationParams::validate_pk *)
Definition validate_pk (p : vparams) (k : keyinfo) : vres :=
  if negb (allow_compressed_keys p) && negb (allow_x_only_keys p)
     && negb (k_uncompressed k) && negb (k_xonly k) then VErr EKeyCompressed
  else if negb (allow_uncompressed_keys p) && k_uncompressed k then VErr EKeyUncompressed
  else if negb (allow_x_only_keys p) && k_xonly k then VErr EKeyXOnly
  else VOk.

(* the `multipath_check` closure: state = multipath_len : Option<usize> *)
Definition multipath_check (p : vparams) (st : option N) (k : keyinfo) : option N * vres :=
  if allow_inconsistent_multipath_keys p then (st, VOk)
  else match st, k_paths k with
       | _, 0 | _, 1 => (st, VOk)
       | None, n => (Some n, VOk)
       | Some x, y => if x =? y then (st, VOk) else (st, VErr EMultipathLenMismatch)
       end.

(* `for key in thresh.iter() { validate_pk(key)?; multipath_check(key)?; }` *)
Fixpoint check_keys (p : vparams) (st : option N) (ks : list keyinfo) : option N * vres :=
  match ks with
  | [] => (st, VOk)
  | k :: r =>
      match validate_pk p k with
      | VErr e => (st, VErr e)
      | VOk => match multipath_check p st k with
               | (st', VErr e) => (st', VErr e)
               | (st', VOk) => check_keys p st' r
               end
      end
  end.

(* one arm of `match ms.node` inside `for ms in self.iter()` *)
Definition check_node (p : vparams) (st : option N) (n : node) : option N * vres :=
  match n_kind n with
  | KDupIf => if negb (allow_dup_if p) then (st, VErr EIllegalDupIf) else (st, VOk)
  | KMulti | KSortedMulti =>
      if negb (allow_multi p) then (st, VErr EIllegalMulti) else check_keys p st (n_keys n)
  | KMultiA | KSortedMultiA =>
      if negb (allow_multi_a p) then (st, VErr EIllegalMultiA) else check_keys p st (n_keys n)
  | KOrI => if negb (allow_or_i p) then (st, VErr EIllegalOrI) else (st, VOk)
  | KRawPkH => if negb (allow_raw_pkh p) then (st, VErr EIllegalRawPkh) else (st, VOk)
  | KPkK | KPkH => check_keys p st (n_keys n)
  | KCheck | KOther => (st, VOk)
  end.

Fixpoint check_nodes (p : vparams) (st : option N) (ns : list node) : vres :=
  match ns with
  | [] => VOk
  | n :: r => match check_node p st n with
              | (_, VErr e) => VErr e
              | (st', VOk) => check_nodes p st' r
              end
  end.

(* Miniscript::validate_non_top_level.  The two `expect("checked that satisfaction was
   possible above")` read the same Option as the early return, hence are unreachable: the
   model has a single match on s_sat and no Panic outcome. *)
Definition validate_non_top_level (p : vparams) (s : summary) : vres :=
  if max_recursive_depth p <? s_tree_height s then VErr EMaxRecursiveDepth
  else if negb (allow_duplicate_keys p) && has_repeated_keys s then VErr EDuplicateKeys
  else if negb (allow_mixed_time_locks p) && s_mixed_locks s then VErr EMixedTimeLocks
  else match check_nodes p None (s_nodes s) with
  | VErr e => VErr e
  | VOk =>
    if (max_script_size p <? USIZE_MAX) && (max_script_size p <? s_script_size s)
    then VErr EMaxScriptSize
    else match s_sat s with
    | None => VOk              (* max_satisfaction_witness_elements() = Err: "fail gracefully" *)
    | Some d =>
        if max_witness_items p <? sf_wit_count d + 1 then VErr EMaxWitnessItems
        else if max_opcode_count p <? sf_op_count d then VErr EMaxOpCount
        else if max_exec_stack_size p <? sf_wit_count d + sf_exec_stack d then VErr EMaxExecStack
        else VOk
    end
  end.

Definition is_B (b : base) : bool := match b with BB => true | _ => false end.
Definition is_some {A} (o : option A) : bool := match o with Some _ => true | None => false end.

(* Miniscript::validate *)
Definition validate (p : vparams) (s : summary) : vres :=
  match validate_non_top_level p s with
  | VErr e => VErr e
  | VOk =>
    if negb (allow_malleability p) && negb (s_nonmall s) then VErr EMalleable
    else if negb (allow_non_b p) && negb (is_B (s_base s)) then VErr (ENonBase (s_base s))
    else if negb (allow_sigless_branch p) && negb (s_signed s) then VErr ESiglessBranch
    else if negb (allow_unsatisfiable p) && negb (is_some (s_sat s)) then VErr EUnsatisfiable
    else VOk
  end.

(* ------------------------------------------------------------------ context checks *)
Inductive cerr := CeXOnly | CeUncompressed | CeMultiA | CeMulti | CeScriptSize.
Inductive cres := COk | CErr (e : cerr).

(* ScriptContext::check_pk *)
Definition check_pk (c : ctx) (k : keyinfo) : cres :=
  match c with
  | CLegacy | CBare => if k_xonly k then CErr CeXOnly else COk
  | CSegwitv0 => if k_uncompressed k then CErr CeUncompressed
                 else if k_xonly k then CErr CeXOnly else COk
  | CTap => if k_uncompressed k then CErr CeUncompressed else COk
  end.
Fixpoint check_pks (c : ctx) (ks : list keyinfo) : cres :=
  match ks with
  | [] => COk
  | k :: r => match check_pk c k with CErr e => CErr e | COk => check_pks c r end
  end.

Definition global_size_limit (c : ctx) : N :=
  match c with
  | CLegacy => MAX_SCRIPT_ELEMENT_SIZE
  | CSegwitv0 | CBare => MAX_SCRIPT_SIZE
  | CTap => MAX_BLOCK_WEIGHT
  end.

(* check_global_consensus_validity: NOT recursive, looks at one node; PkK and PkH keys alike
   (/repo bd3f29d9) *)
Definition check_global_consensus (c : ctx) (n : node) : cres :=
  let node_checked :=
    match c, n_kind n with
    | _, (KPkK | KPkH) => check_pks c (n_keys n)
    | CTap, (KMultiA | KSortedMultiA) => check_pks c (n_keys n)
    | CTap, (KMulti | KSortedMulti) => CErr CeMulti
    | _, (KMulti | KSortedMulti) => check_pks c (n_keys n)
    | _, (KMultiA | KSortedMultiA) => CErr CeMultiA
    | _, _ => COk
    end in
  match node_checked with
  | COk => if global_size_limit c <? n_pk_cost n then CErr CeScriptSize else COk
  | CErr e => CErr e
  end.

Definition check_global_policy (c : ctx) (n : node) : cres :=
  match c with
  | CSegwitv0 => if MAX_STANDARD_P2WSH_SCRIPT_SIZE <? n_pk_cost n then CErr CeScriptSize else COk
  | _ => COk
  end.

Definition check_global_validity (c : ctx) (n : node) : cres :=
  match check_global_consensus c n with
  | CErr e => CErr e
  | COk => check_global_policy c n
  end.

Fixpoint check_global_all (c : ctx) (ns : list node) : cres :=
  match ns with
  | [] => COk
  | n :: r => match check_global_validity c n with CErr e => CErr e | COk => check_global_all c r end
  end.

(* top_level_type_check (today: only the multipath-length latch over for_each_key) *)
Inductive mpstate := MpSingle | MpLen (n : N) | MpMismatch.
Definition mp_step (st : mpstate) (k : keyinfo) : mpstate :=
  match k_paths k with
  | 0 | 1 => st
  | n => match st with
         | MpSingle => MpLen n
         | MpLen len => if len =? n then st else MpMismatch
         | MpMismatch => MpMismatch
         end
  end.
Inductive terr := TeNonBase (b : base) | TeMultipath | TeNonStandardBare.
Inductive tres := TOk | TErr (e : terr).

Definition top_level_multipath_check (s : summary) : tres :=
  match fold_left mp_step (all_keys (s_nodes s)) MpSingle with
  | MpMismatch => TErr TeMultipath
  | _ => TOk
  end.

(* top_level_type_check: the base-type test (/repo a8ead875: Error::Validation(NonBase)), then
   the multipath-length latch *)
Definition top_level_type_check (s : summary) : tres :=
  if negb (is_B (s_base s)) then TErr (TeNonBase (s_base s)) else top_level_multipath_check s.

(* BareCtx::other_top_level_checks; a Check node has one child, which follows it in pre-order *)
Definition other_top_level_checks (c : ctx) (s : summary) : tres :=
  match c with
  | CBare =>
      match s_nodes s with
      | n0 :: rest =>
          match n_kind n0 with
          | KCheck => match rest with
                      | n1 :: _ => match n_kind n1 with
                                   | KRawPkH | KPkK | KPkH => TOk
                                   | _ => TErr TeNonStandardBare
                                   end
                      | [] => TErr TeNonStandardBare
                      end
          | KMulti | KSortedMulti =>
              if N.of_nat (length (n_keys n0)) <=? 3 then TOk else TErr TeNonStandardBare
          | _ => TErr TeNonStandardBare
          end
      | [] => TErr TeNonStandardBare
      end
  | _ => TOk
  end.

Definition top_level_checks (c : ctx) (s : summary) : tres :=
  match top_level_type_check s with
  | TErr e => TErr e
  | TOk => other_top_level_checks c s
  end.

(* ------------------------------------------------------------------ primitives *)
(* validate_k_n::<MAX>(k, n) *)
Definition threshold_new (MAX k n : N) : bool :=
  negb ((k =? 0) || (n <? k) || ((0 <? MAX) && (MAX <? n))).

(* Threshold::from_iter(k, iter): `hint` = iter.size_hint().0, `n` = the number of items the
   iterator yields.  Early refusal when max(k, hint) exceeds MAX, otherwise Threshold::new. *)
Definition threshold_from_iter (MAX k hint n : N) : bool :=
  if (0 <? MAX) && (MAX <? N.max k hint) then false else threshold_new MAX k n.

Definition MAX_ABSOLUTE_LOCKTIME : N := 2147483647.   (* 0x7FFF_FFFF *)
Definition MIN_ABSOLUTE_LOCKTIME : N := 1.
(* AbsLockTime::from_consensus(n : u32) *)
Definition abs_lock_from_consensus (n : N) : bool :=
  (MIN_ABSOLUTE_LOCKTIME <=? n) && (n <=? MAX_ABSOLUTE_LOCKTIME).
(* RelLockTime::from_consensus(n : u32) = Sequence(n).is_relative_lock_time() && != ZERO;
   is_relative_lock_time = (n & 0x8000_0000 == 0) *)
Definition rel_lock_from_consensus (n : N) : bool :=
  (N.land n 2147483648 =? 0) && negb (n =? 0).

(* ------------------------------------------------------------------ entry points *)
(* What the string/tree stage looks at, before `validate` (Miniscript::from_tree):
   expression syntax, Threshold/lock constructors, Type::type_check at every node (C05),
   from_ast's depth test, check_global_validity at every node. *)
Record expr := mkExpr {
  x_syntax_ok : bool;                    (* names, arities, keys, hashes, numbers parse *)
  x_thresholds : list (N * N * N);       (* (MAX, k, n) of every thresh / multi / multi_a *)
  x_afters : list N;                     (* u32 argument of every after() *)
  x_olders : list N;                     (* u32 argument of every older() *)
  x_typed : bool;                        (* the typing rules accept every node *)
  x_sum : summary }.

Inductive perr := PSyntax | PThreshold | PLockTime | PType | PDepth | PCtx (e : cerr).
Inductive eperr := EpParse (e : perr) | EpTop (e : terr) | EpValidation (e : verr).
Inductive epres := EOk | EErr (e : eperr).

Definition thresholds_ok (x : expr) : bool :=
  forallb (fun t => match t with (M, k, n) => threshold_new M k n end) (x_thresholds x).
Definition locks_ok (x : expr) : bool :=
  forallb abs_lock_from_consensus (x_afters x) && forallb rel_lock_from_consensus (x_olders x).

(* Miniscript::from_tree.  The Rust code meets these conditions bottom-up node by node, so
   the ORDER between classes below is a modelling choice (only compared when one class is
   present); the conjunction is exact. *)
Definition from_tree (c : ctx) (x : expr) : epres :=
  if negb (x_syntax_ok x) then EErr (EpParse PSyntax)
  else if negb (thresholds_ok x) then EErr (EpParse PThreshold)
  else if negb (locks_ok x) then EErr (EpParse PLockTime)
  else if negb (x_typed x) then EErr (EpParse PType)
  else if MAX_RECURSION_DEPTH <? s_tree_height (x_sum x) then EErr (EpParse PDepth)
  else match check_global_all c (s_nodes (x_sum x)) with
       | CErr e => EErr (EpParse (PCtx e))
       | COk => EOk
       end.

Definition lift_v (r : vres) : epres := match r with VOk => EOk | VErr e => EErr (EpValidation e) end.
Definition lift_t (r : tres) : epres := match r with TOk => EOk | TErr e => EErr (EpTop e) end.
Definition andthen (a b : epres) : epres := match a with EOk => b | e => e end.

(* Miniscript::from_str_with_validation_params *)
Definition ms_from_str_with (c : ctx) (p : vparams) (x : expr) : epres :=
  andthen (from_tree c x) (lift_v (validate p (x_sum x))).
(* impl FromStr: Ctx::SANE *)
Definition ms_from_str (c : ctx) (x : expr) : epres := ms_from_str_with c (ctx_sane c) x.
(* from_str_insane: ValidationParams { allow_raw_pkh: false, ..Ctx::CONSENSUS } *)
Definition no_raw_pkh (p : vparams) : vparams :=
  {| allow_compressed_keys := allow_compressed_keys p; allow_duplicate_keys := allow_duplicate_keys p;
     allow_dup_if := allow_dup_if p; allow_malleability := allow_malleability p;
     allow_multi := allow_multi p; allow_multi_a := allow_multi_a p;
     allow_mixed_time_locks := allow_mixed_time_locks p; allow_or_i := allow_or_i p;
     allow_raw_pkh := false; allow_sigless_branch := allow_sigless_branch p;
     allow_non_b := allow_non_b p; allow_uncompressed_keys := allow_uncompressed_keys p;
     allow_unsatisfiable := allow_unsatisfiable p; allow_x_only_keys := allow_x_only_keys p;
     allow_inconsistent_multipath_keys := allow_inconsistent_multipath_keys p;
     max_opcode_count := max_opcode_count p; max_script_size := max_script_size p;
     max_witness_items := max_witness_items p; max_exec_stack_size := max_exec_stack_size p;
     max_recursive_depth := max_recursive_depth p |}.
Definition ms_from_str_insane (c : ctx) (x : expr) : epres :=
  ms_from_str_with c (no_raw_pkh (ctx_consensus c)) x.

(* Miniscript::decode_with_validation_params: lex + decode (C04; `d_ok` abstracts their
   success, which includes the per-node from_ast checks), check_global_validity on the top
   node only, type_check of the top node, no trailing tokens, then validate. *)
Definition ms_decode_with (c : ctx) (p : vparams) (d_ok : bool) (x : expr) : epres :=
  if negb d_ok then EErr (EpParse PSyntax)
  else match s_nodes (x_sum x) with
       | [] => EErr (EpParse PSyntax)
       | n0 :: _ =>
           match check_global_validity c n0 with
           | CErr e => EErr (EpParse (PCtx e))
           | COk => if negb (x_typed x) then EErr (EpParse PType)
                    else lift_v (validate p (x_sum x))
           end
       end.
Definition ms_decode (c : ctx) := ms_decode_with c (ctx_sane c).
Definition ms_decode_consensus (c : ctx) := ms_decode_with c (ctx_consensus c).

(* Tr::new(key, Some(tree)): Tap::top_level_checks on every leaf (/repo 6b65f152) *)
Definition tr_new_leaf (s : summary) : epres := lift_t (top_level_checks CTap s).
(* Wsh::new / Sh::new / Bare::new on an already built Miniscript: top_level_checks only *)
Definition wrapper_new (c : ctx) (s : summary) : epres := lift_t (top_level_checks c s).
(* Wsh / Sh / Bare ::from_tree = Miniscript::from_tree + top_level_checks (no validate) *)
Definition wrapper_from_tree (c : ctx) (x : expr) : epres :=
  andthen (from_tree c x) (wrapper_new c (x_sum x)).
(* a script leaf inside Tr::from_tree: from_tree + validate(Tap::CONSENSUS), and at the end
   Self::new(internal_key, Some(tree)), which runs the top-level checks on the leaf *)
Definition tr_leaf_from_tree (x : expr) : epres :=
  andthen (andthen (from_tree CTap x) (lift_v (validate (ctx_consensus CTap) (x_sum x))))
          (tr_new_leaf (x_sum x)).
(* Descriptor::from_str: the wrapper, and for tr every leaf again under Tap::SANE *)
Definition descriptor_from_str_inner (c : ctx) (x : expr) : epres :=
  match c with
  | CTap => andthen (tr_leaf_from_tree x) (lift_v (validate (ctx_sane CTap) (x_sum x)))
  | _ => wrapper_from_tree c x
  end.
