(* C07 — model of `Miniscript::within_resource_limits` (= Ctx::check_local_validity(self).is_ok(),
   src/miniscript/analyzable.rs, context.rs), the first test of lift_check, computed from the
   fragment with the ExtData model of C09 (coq/Ms/ExtModel.v: [ext_of], tied exactly to the
   library by the C09 check and, for the resulting verdict, by this check on every case).
   No proofs here.

   check_local_validity = check_global_consensus_validity; check_global_policy_validity;
                          check_local_consensus_validity; check_local_policy_validity.
   The root-fragment key checks of check_global_consensus_validity (key form, multi vs multi_a)
   are the ones from_ast already ran on the same node; they hold for every constructed value and
   are not repeated here.  What remains, per context:
     Legacy   : pk_cost <= 520; sat_op_count <= 201 (None = no satisfaction: refused);
                max_script_sig_size + pk_cost + push_opcode_size(pk_cost) <= 1650 (None: refused;
                the push of the redeem script is counted since /repo e37a8a3d)
     Segwitv0 : pk_cost <= 10000; pk_cost <= 3600; sat_op_count <= 201;
                max_witness_stack_count + 1 <= 100
     Bare     : pk_cost <= 10000; sat_op_count <= 201
     Tap      : pk_cost <= 4000000; if a satisfaction exists,
                max_witness_stack_count + max_exec_stack_count <= 1000 (no satisfaction: accepted) *)
From Verif Require Export LiftModel.
From Verif Require ExtModel.
Local Open Scope N_scope.

(* what the ExtData rules ask of the context; [unc k]: key k is an uncompressed key *)
Definition lx_ctx (c : ctx) (unc : key -> bool) : ExtModel.xctx :=
  ExtModel.mkXctx (is_tap c) (fun k => negb (is_tap c) && unc k)
    (fun k => match c with
              | Tap => 33
              | Segwitv0 => 34
              | Bare | Legacy => if unc k then 66 else 34
              end).

Definition ole_n (o : option N) (lim : N) : bool := match o with Some n => N.leb n lim | None => false end.

Definition within_resource_limits (c : ctx) (unc : key -> bool) (m : ms) : bool :=
  let x := ExtModel.ext_of (lx_ctx c unc) m in
  let pk := ExtModel.pk_cost x in
  match c with
  | Legacy =>
    N.leb pk 520 && ole_n (ExtModel.sat_op_count x) 201
    && ole_n (option_map (fun d => ExtModel.sd_ssig d + pk + ExtModel.push_opcode_size pk) (ExtModel.sat_data x)) 1650
  | Segwitv0 =>
    N.leb pk 10000 && N.leb pk 3600 && ole_n (ExtModel.sat_op_count x) 201
    && ole_n (ExtModel.max_sat_witness_elements x) 100
  | Bare => N.leb pk 10000 && ole_n (ExtModel.sat_op_count x) 201
  | Tap =>
    N.leb pk 4000000
    && match ExtModel.sat_data x with
       | Some d => N.leb (ExtModel.sd_wcount d + ExtModel.sd_estack d) 1000
       | None => true
       end
  end.

(* Miniscript::lift with the verdict computed, not supplied *)
Definition lift_ctx (c : ctx) (unc : key -> bool) (m : ms) : lres :=
  lift_iter (within_resource_limits c unc m) m.

(* descriptors: recompute every verdict bit from the fragment and its context *)
Definition redesc (unc : key -> bool) (d : ldesc) : ldesc :=
  match d with
  | DBare _ m => DBare (within_resource_limits Bare unc m) m
  | DSh _ m => DSh (within_resource_limits Legacy unc m) m
  | DWsh _ m => DWsh (within_resource_limits Segwitv0 unc m) m
  | DShWsh _ m => DShWsh (within_resource_limits Segwitv0 unc m) m
  | DTr ik leaves => DTr ik (map (fun lm => (within_resource_limits Tap unc (snd lm), snd lm)) leaves)
  | x => x
  end.
Definition lift_desc_ctx (unc : key -> bool) (d : ldesc) : lres := lift_desc (redesc unc d).

(* the verdict bits a descriptor carries (as read from the implementation) *)
Definition desc_bits (d : ldesc) : list bool :=
  match d with
  | DBare rl _ | DSh rl _ | DWsh rl _ | DShWsh rl _ => [rl]
  | DTr _ leaves => map fst leaves
  | _ => []
  end.
