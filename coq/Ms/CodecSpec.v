(* C04 specification side: which miniscripts are well-formed (the invariants the Rust TYPES
   enforce: hash lengths, key lengths per context, lock-time ranges, Threshold bounds), and
   the token sequence their script must lex to.  No proofs in this file. *)
From Coq Require Export Permutation.
From Verif Require Export LexModel CodecExt.
Local Open Scope N_scope.

(* serialised key / key-hash lengths in a context *)
Definition key_ok (c : ctx) (ke : keyenv) (k : key) : Prop :=
  match c with
  | Tap => blen (kb ke k) = 32
  | Segwitv0 => blen (kb ke k) = 33
  | Bare | Legacy => blen (kb ke k) = 33 \/ blen (kb ke k) = 65
  end /\ blen (kh ke k) = 20.

Fixpoint keys_ok (c : ctx) (ke : keyenv) (ks : list key) : Prop :=
  match ks with [] => True | k :: r => key_ok c ke k /\ keys_ok c ke r end.

Fixpoint ms_wf (c : ctx) (ke : keyenv) (m : ms) : Prop :=
  match m with
  | MTrue | MFalse => True
  | MPkK k | MPkH k => key_ok c ke k
  | MRawPkH h => blen h = 20
  | MAfter t | MOlder t => 1 <= t < 2147483648          (* AbsLockTime / RelLockTime *)
  | MSha256 h | MHash256 h => blen h = 32
  | MRipemd160 h | MHash160 h => blen h = 20
  | MAlt x | MSwap x | MCheck x | MDupIf x | MVerify x | MNonZero x | MZeroNotEqual x => ms_wf c ke x
  | MAndV x y | MAndB x y | MOrB x y | MOrD x y | MOrC x y | MOrI x y => ms_wf c ke x /\ ms_wf c ke y
  | MAndOr x y z => ms_wf c ke x /\ ms_wf c ke y /\ ms_wf c ke z
  | MThresh k xs =>
    (* Threshold<_, 0>: 1 <= k <= n; k is a usize that came from / goes into a script number *)
    1 <= k <= nlen xs /\ k < 2147483648 /\
    (fix go (l : list ms) : Prop := match l with [] => True | x :: r => ms_wf c ke x /\ go r end) xs
  | MMulti k ks | MSortedMulti k ks => 1 <= k <= nlen ks /\ nlen ks <= 20 /\ keys_ok c ke ks
  | MMultiA k ks | MSortedMultiA k ks => 1 <= k <= nlen ks /\ nlen ks <= 999 /\ keys_ok c ke ks
  end.

Fixpoint ms_list_wf (c : ctx) (ke : keyenv) (l : list ms) : Prop :=
  match l with [] => True | x :: r => ms_wf c ke x /\ ms_list_wf c ke r end.

(* the BIP67 sort only permutes *)
Definition ksort_ok (ke : keyenv) : Prop := forall ks, Permutation (ksort ke ks) ks.

(* ---- expected tokens ---- *)
Definition key_token (b : bytes) : token := push_token b.
Definition hash_tokens (op : token) (h : token) : list token :=
  [TkSize; TkNum 32; TkEqual; TkVerify; op; h; TkEqual].

Fixpoint multi_a_tokens (ke : keyenv) (ks : list key) : list token :=
  match ks with
  | [] => []
  | k :: r => [key_token (kb ke k); TkCheckSigAdd] ++ multi_a_tokens ke r
  end.

Fixpoint mtoks (ke : keyenv) (m : ms) : list token :=
  match m with
  | MTrue => [TkNum 1]
  | MFalse => [TkNum 0]
  | MPkK k => [key_token (kb ke k)]
  | MPkH k => [TkDup; TkHash160; TkHash20 (kh ke k); TkEqual; TkVerify]
  | MRawPkH h => [TkDup; TkHash160; TkHash20 h; TkEqual; TkVerify]
  | MAfter t => [TkNum t; TkCheckLockTimeVerify]
  | MOlder t => [TkNum t; TkCheckSequenceVerify]
  | MSha256 h => hash_tokens TkSha256 (TkBytes32 h)
  | MHash256 h => hash_tokens TkHash256 (TkBytes32 h)
  | MRipemd160 h => hash_tokens TkRipemd160 (TkHash20 h)
  | MHash160 h => hash_tokens TkHash160 (TkHash20 h)
  | MAlt x => [TkToAltStack] ++ mtoks ke x ++ [TkFromAltStack]
  | MSwap x => [TkSwap] ++ mtoks ke x
  | MCheck x => mtoks ke x ++ [TkCheckSig]
  | MDupIf x => [TkDup; TkIf] ++ mtoks ke x ++ [TkEndIf]
  | MVerify x => mtoks ke x ++ [TkVerify]
  | MNonZero x => [TkSize; TkZeroNotEqual; TkIf] ++ mtoks ke x ++ [TkEndIf]
  | MZeroNotEqual x => mtoks ke x ++ [TkZeroNotEqual]
  | MAndV x y => mtoks ke x ++ mtoks ke y
  | MAndB x y => mtoks ke x ++ mtoks ke y ++ [TkBoolAnd]
  | MAndOr a b c => mtoks ke a ++ [TkNotIf] ++ mtoks ke c ++ [TkElse] ++ mtoks ke b ++ [TkEndIf]
  | MOrB x y => mtoks ke x ++ mtoks ke y ++ [TkBoolOr]
  | MOrD x y => mtoks ke x ++ [TkIfDup; TkNotIf] ++ mtoks ke y ++ [TkEndIf]
  | MOrC x y => mtoks ke x ++ [TkNotIf] ++ mtoks ke y ++ [TkEndIf]
  | MOrI x y => [TkIf] ++ mtoks ke x ++ [TkElse] ++ mtoks ke y ++ [TkEndIf]
  | MThresh k xs =>
    (match xs with
     | [] => []
     | x0 :: rest =>
       mtoks ke x0 ++ (fix go (l : list ms) : list token :=
                         match l with [] => [] | x :: r => mtoks ke x ++ [TkAdd] ++ go r end) rest
     end) ++ [TkNum k; TkEqual]
  | MMulti k ks =>
    [TkNum k] ++ map (fun key => key_token (kb ke key)) ks ++ [TkNum (nlen ks); TkCheckMultiSig]
  | MSortedMulti k ks =>
    [TkNum k] ++ map (fun key => key_token (kb ke key)) (ksort ke ks) ++ [TkNum (nlen ks); TkCheckMultiSig]
  | MMultiA k ks =>
    (match ks with
     | [] => []
     | k0 :: rest => [key_token (kb ke k0); TkCheckSig] ++ multi_a_tokens ke rest
     end) ++ [TkNum k; TkNumEqual]
  | MSortedMultiA k ks =>
    (match ksort ke ks with
     | [] => []
     | k0 :: rest => [key_token (kb ke k0); TkCheckSig] ++ multi_a_tokens ke rest
     end) ++ [TkNum k; TkNumEqual]
  end.
