(* C19 — model of `Hash` of descriptors and policies: the sequence of calls made on the `Hasher`.
   `#[derive(Hash)]` on an enum feeds the discriminant (`isize::hash` = write_isize of the declaration index) and then
   the fields of the variant in declaration order; on a struct the fields in declaration order.  `Vec<T>` / `[T]` feed
   the length prefix (write_usize) and then every element; a tuple its components; `Arc<T>` feeds `T`; `Option<T>`
   is an ordinary two-variant enum (None = 0, Some = 1); `u8` is write_u8, `usize` write_usize.
     src/descriptor/mod.rs     #[derive(Hash)] enum Descriptor { Bare, Pkh, Wpkh, Sh, Wsh, Tr }
     src/descriptor/bare.rs    #[derive(Hash)] struct Bare { ms }, struct Pkh { pk }
     src/descriptor/segwitv0.rs #[derive(Hash)] struct Wsh { ms }, struct Wpkh { pk }
     src/descriptor/sh.rs      #[derive(Hash)] struct Sh { inner }, enum ShInner { Wsh, Wpkh, Ms }
     src/descriptor/tr/mod.rs  hand-written: `self.internal_key.hash(state); self.tree.hash(state);` (the spend-info
                               cache is skipped), tree : Option<TapTree>
     src/descriptor/tr/taptree.rs #[derive(Hash)] struct TapTree { depths_leaves: Vec<(u8, Arc<Miniscript<Pk, Tap>>)> }
     src/primitives/threshold.rs #[derive(Hash)] struct Threshold { k: usize, inner: Vec<T> }
     src/policy/concrete.rs    #[derive(Hash)] enum Policy { Unsatisfiable, Trivial, Key, After, Older, Sha256, Hash256,
                               Ripemd160, Hash160, And(Vec<Arc<Self>>), Or(Vec<(usize, Arc<Self>)>), Thresh(Threshold<Arc<Self>, 0>) }
     src/policy/semantic.rs    `#[derive(Clone, PartialEq, Eq)]` only: a semantic policy has NO `Hash` impl, so there is
                               nothing to model (and nothing the property could say about it).
   (There is no `SortedMultiVec` in this tree: sortedmulti is the `Terminal::SortedMulti` fragment, hashed by
   `impl Hash for Terminal`, see EqOrdModel.hash_node.)
   `Miniscript::hash` is the node's hash: `hash_raw` of EqOrdRun.v.  Keys feed themselves as the opaque atom `RK k`.
   Also the derived `Clone` of the same types.  No proofs in this file. *)
From Verif Require Export EqOrdDescRun EqOrdPolRun.
Local Open Scope N_scope.

(* one element of TapTree::depths_leaves: (u8, Arc<Miniscript>) *)
Definition leaf_feed (l : N * ms) : list rawword := RC (fst l) :: hash_raw (snd l).

Definition desc_feed (d : desc) : list rawword :=
  match d with
  | DBare m => RI 0 :: hash_raw m
  | DPkh k => [RI 1; RK k]
  | DWpkh k => [RI 2; RK k]
  | DShWsh m => RI 3 :: RI 0 :: hash_raw m              (* Descriptor::Sh, ShInner::Wsh *)
  | DShWpkh k => [RI 3; RI 1; RK k]                     (* ShInner::Wpkh *)
  | DSh m => RI 3 :: RI 2 :: hash_raw m                 (* ShInner::Ms *)
  | DWsh m => RI 4 :: hash_raw m
  | DTr ik [] => [RI 5; RK ik; RI 0]                    (* tree = None *)
  | DTr ik ls => RI 5 :: RK ik :: RI 1 :: RU (nlen ls) :: flat_map leaf_feed ls
  end.

(* the cache is not an input of `impl Hash for Tr` *)
Definition cdesc_feed (x : cdesc) : list rawword := desc_feed (cd_desc x).

Definition bytes_feed (h : bytes) : list rawword := [RU (nlen h); RB h].

Fixpoint cpol_feed (p : cpol) : list rawword :=
  match p with
  | QUnsat => [RI 0] | QTriv => [RI 1]
  | QKey k => [RI 2; RK k]
  | QAfter t => RI 3 :: raw_of_hword (HAbs t)
  | QOlder t => RI 4 :: raw_of_hword (HRel t)
  | QSha256 h => RI 5 :: bytes_feed h | QHash256 h => RI 6 :: bytes_feed h
  | QRipemd160 h => RI 7 :: bytes_feed h | QHash160 h => RI 8 :: bytes_feed h
  | QAnd l => RI 9 :: RU (nlen l) ::
      (fix go (l : list cpol) : list rawword := match l with [] => [] | x :: r => cpol_feed x ++ go r end) l
  | QOr l => RI 10 :: RU (nlen l) ::
      (fix go (l : list (N * cpol)) : list rawword :=
         match l with [] => [] | (w, x) :: r => RU w :: cpol_feed x ++ go r end) l
  | QThresh k l => RI 11 :: RU k :: RU (nlen l) ::
      (fix go (l : list cpol) : list rawword := match l with [] => [] | x :: r => cpol_feed x ++ go r end) l
  end.

(* ------------------------------------------------------------------ Clone (derived: field by field) *)
(* Descriptor / Bare / Pkh / Wpkh / Sh / ShInner / Wsh: the miniscript is cloned (Clone for Miniscript), keys are
   cloned (atoms); Tr: `internal_key.clone()`, `tree.clone()` = Vec::clone of (u8, Arc::clone) -- the leaves are shared. *)
Definition desc_clone (d : desc) : desc :=
  match d with
  | DBare m => DBare (clone_rec m) | DPkh k => DPkh k | DWpkh k => DWpkh k
  | DShWsh m => DShWsh (clone_rec m) | DShWpkh k => DShWpkh k | DSh m => DSh (clone_rec m)
  | DWsh m => DWsh (clone_rec m)
  | DTr ik ls => DTr ik (map (fun l => (fst l, snd l)) ls)
  end.

(* policy::Concrete / Semantic: sub-policies sit behind Arc (Arc::clone), the vectors are rebuilt *)
Definition cpol_clone (p : cpol) : cpol :=
  match p with
  | QUnsat => QUnsat | QTriv => QTriv | QKey k => QKey k | QAfter t => QAfter t | QOlder t => QOlder t
  | QSha256 h => QSha256 h | QHash256 h => QHash256 h | QRipemd160 h => QRipemd160 h | QHash160 h => QHash160 h
  | QAnd l => QAnd (map (fun x => x) l)
  | QOr l => QOr (map (fun q => (fst q, snd q)) l)
  | QThresh k l => QThresh k (map (fun x => x) l)
  end.

(* ------------------------------------------------------------------ glue for the per-run comparison *)
Definition dstream_ok (vals : list desc) (s : N * list rawword) : bool :=
  raws_eqb (desc_feed (getdv vals (fst s))) (snd s).
(* a stream recorded on a value with a cache history (warmed / clone of warmed) *)
Definition dwstream_ok (vals : list desc) (s : N * list rawword) : bool :=
  raws_eqb (cdesc_feed (with_history true (getdv vals (fst s)))) (snd s).
Definition pstream_ok (vals : list cpol) (s : N * list rawword) : bool :=
  raws_eqb (cpol_feed (getpv vals (fst s))) (snd s).
(* (i, j, recorded streams equal) against the model *)
Definition dhpair_ok (vals : list desc) (c : N * N * bool) : bool :=
  let '(i, j, e) := c in Bool.eqb e (raws_eqb (desc_feed (getdv vals i)) (desc_feed (getdv vals j))).
Definition phpair_ok (vals : list cpol) (c : N * N * bool) : bool :=
  let '(i, j, e) := c in Bool.eqb e (raws_eqb (cpol_feed (getpv vals i)) (cpol_feed (getpv vals j))).

Record hashdom := mkHashDom {
  hd_dvals : list desc; hd_dstreams : list (N * list rawword); hd_dwstreams : list (N * list rawword);
  hd_dpairs : list (N * N * bool);
  hd_pvals : list cpol; hd_pstreams : list (N * list rawword); hd_ppairs : list (N * N * bool) }.

Definition hashdom_ok (h : hashdom) : bool :=
  forallb (dstream_ok (hd_dvals h)) (hd_dstreams h) && forallb (dwstream_ok (hd_dvals h)) (hd_dwstreams h) &&
  forallb (dhpair_ok (hd_dvals h)) (hd_dpairs h) &&
  forallb (pstream_ok (hd_pvals h)) (hd_pstreams h) && forallb (phpair_ok (hd_pvals h)) (hd_ppairs h).

(* diagnosis: ids of differing descriptor streams, of differing streams under a history, differing descriptor pairs,
   ids of differing policy streams, differing policy pairs *)
Definition hashdom_diag (h : hashdom) : list N * list N * list (N * N) * list N * list (N * N) :=
  (flat_map (fun s => if dstream_ok (hd_dvals h) s then [] else [fst s]) (hd_dstreams h),
   flat_map (fun s => if dwstream_ok (hd_dvals h) s then [] else [fst s]) (hd_dwstreams h),
   flat_map (fun c : N * N * bool => if dhpair_ok (hd_dvals h) c then [] else [fst c]) (hd_dpairs h),
   flat_map (fun s => if pstream_ok (hd_pvals h) s then [] else [fst s]) (hd_pstreams h),
   flat_map (fun c : N * N * bool => if phpair_ok (hd_pvals h) c then [] else [fst c]) (hd_ppairs h)).
