(* Model of src/expression/mod.rs: Tree::parse_pre_check (pass 1: well-formedness, node count,
   maximum depth) and Tree::from_str_inner (pass 2: the node vector with parent / last-child /
   right-sibling indices), as coded.  Every `expect`, index, subtraction and `assert_eq!` is an
   explicit [Panic] outcome; depth limit and malformed input are errors.  Strings are byte lists.

   Modelling decisions (stated, not proved):
   * `s.as_bytes()[pos + 1]` is read as the head of the not-yet-consumed input (the loop is
     `s.bytes().enumerate()`, so that IS s[pos+1]); its bounds check is Panic site 11.
   * `Vec::with_capacity(n)` has capacity exactly n (true for the non-zero-sized element types
     used here with the global allocator) and any push beyond it changes the capacity; hence
     `assert_eq!(parent_stack.capacity(), max_depth)` fails iff the stack ever held more than
     max_depth entries, `assert_eq!(nodes.capacity(), n_nodes)` iff more than n_nodes nodes were
     pushed, `assert_eq!(nodes.len(), nodes.capacity())` iff fewer were.
   No proofs in this file. *)
From Coq Require Export List Bool NArith.
From Verif Require Export ChecksumModel.
Export ListNotations.
Local Open Scope N_scope.

Definition LPAREN : N := 40.  Definition RPAREN : N := 41.
Definition LBRACE : N := 123. Definition RBRACE : N := 125.
Definition COMMA : N := 44.
Definition MAX_RECURSION_DEPTH : N := 402.

Inductive tree_err :=
| TEChecksum (e : ck_err)
| TEMaxRecursionDepthExceeded (actual : N)
| TEExpectedParenOrComma (pos : N)
| TEUnmatchedOpenParen (pos : N)
| TEUnmatchedCloseParen (pos : N)
| TEMismatchedParens (open_pos close_pos : N)
| TETrailingCharacter (pos : N).

Inductive parens := PNone | PRound | PCurly.

Record node := mkNode {
  nd_name : bytes;
  nd_name_pos : N;
  nd_parens : parens;
  nd_n_children : N;
  nd_index : N;
  nd_parent : option N;
  nd_last_child : option N;
  nd_right_sibling : option N }.

Definition is_open (ch : N) : bool := (ch =? LPAREN) || (ch =? LBRACE).
Definition is_close (ch : N) : bool := (ch =? RPAREN) || (ch =? RBRACE).

(* ---------------------------------------------------------------- pass 1 *)
Record pre_state := mkPre { ps_nodes : N; ps_depth : N; ps_stack : list (N * N) }.   (* stack: (ch, pos), top first *)

(* one iteration of the `for (pos, ch) in s.bytes().enumerate()` loop; [rest] is the input after ch *)
Definition pre_step (len : N) (st : pre_state) (pos ch : N) (rest : bytes) : outcome tree_err pre_state :=
  if is_open ch then
    let stack := (ch, pos) :: ps_stack st in
    let d := N.of_nat (length stack) in
    Ok (mkPre (ps_nodes st) (if ps_depth st <? d then d else ps_depth st) stack)
  else if is_close ch then
    match ps_stack st with
    | (open_ch, open_pos) :: stack =>
      if ((open_ch =? LPAREN) && (ch =? RBRACE)) || ((open_ch =? LBRACE) && (ch =? RPAREN))
      then Err (TEMismatchedParens open_pos pos)
      else
        match stack with
        | (paren_ch, paren_pos) :: _ =>
          (* not last paren: must not be the end of the string, next is , ) or } *)
          if len =? 0 then Panic 10                                   (* s.len() - 1 *)
          else if pos =? len - 1 then Err (TEUnmatchedOpenParen paren_pos)
          else match rest with
               | [] => Panic 11                                       (* s.as_bytes()[pos + 1] *)
               | next_byte :: _ =>
                 if negb (next_byte =? RPAREN) && negb (next_byte =? RBRACE) && negb (next_byte =? COMMA)
                 then Err (TEExpectedParenOrComma (pos + 1))
                 else Ok (mkPre (ps_nodes st + 1) (ps_depth st) stack)
               end
        | [] =>
          (* last paren: this should be the end of the string *)
          if len =? 0 then Panic 12                                   (* s.len() - 1 *)
          else if pos <? len - 1 then
            match rest with
            | [] => Panic 13                                          (* s.as_bytes()[pos + 1] *)
            | _ :: _ => Err (TETrailingCharacter (pos + 1))
            end
          else Ok (mkPre (ps_nodes st + 1) (ps_depth st) stack)
        end
    | [] => Err (TEUnmatchedCloseParen pos)
    end
  else if ch =? COMMA then
    match ps_stack st with
    | [] => Err (TETrailingCharacter pos)
    | _ :: _ => Ok (mkPre (ps_nodes st + 1) (ps_depth st) (ps_stack st))
    end
  else Ok st.

Fixpoint pre_loop (len : N) (st : pre_state) (pos : N) (s : bytes) : outcome tree_err pre_state :=
  match s with
  | [] => Ok st
  | ch :: rest =>
    match pre_step len st pos ch rest with
    | Ok st' => pre_loop len st' (pos + 1) rest
    | o => o
    end
  end.

(* returns (payload without checksum, max_depth, n_nodes) *)
Definition parse_pre_check (s0 : bytes) : outcome tree_err (bytes * N * N) :=
  match verify_checksum s0 with
  | Err e => Err (TEChecksum e)
  | Panic n => Panic n
  | Ok s =>
    match pre_loop (blen s) (mkPre 1 0 []) 0 s with
    | Ok st =>
      match ps_stack st with
      | (_, pos) :: _ => Err (TEUnmatchedOpenParen pos)          (* "early end of string" *)
      | [] =>
        if MAX_RECURSION_DEPTH <? ps_depth st then Err (TEMaxRecursionDepthExceeded (ps_depth st))
        else Ok (s, ps_depth st, ps_nodes st)
      end
    | Err e => Err e
    | Panic n => Panic n
    end
  end.

(* ---------------------------------------------------------------- pass 2 *)
Definition null_node (index : N) : node := mkNode [] 0 PNone 0 index None None None.
Definition nlen (nodes : list node) : N := N.of_nat (length nodes).

Fixpoint update_nth {A} (l : list A) (i : nat) (f : A -> A) : option (list A) :=
  match l, i with
  | [], _ => None
  | x :: r, O => Some (f x :: r)
  | x :: r, S i' => option_map (cons x) (update_nth r i' f)
  end.

Definition bump_parent (child_idx : N) (nd : node) : node :=
  mkNode (nd_name nd) (nd_name_pos nd) (nd_parens nd) (nd_n_children nd + 1) (nd_index nd)
         (nd_parent nd) (Some child_idx) (nd_right_sibling nd).
Definition set_sibling (sib : N) (nd : node) : node :=
  mkNode (nd_name nd) (nd_name_pos nd) (nd_parens nd) (nd_n_children nd) (nd_index nd)
         (nd_parent nd) (nd_last_child nd) (Some sib).
Definition set_name (name : bytes) (p : parens) (nd : node) : node :=
  mkNode name (nd_name_pos nd) p (nd_n_children nd) (nd_index nd)
         (nd_parent nd) (nd_last_child nd) (nd_right_sibling nd).

(* fn new_node(nodes, stack, pos): bumps the parent's n_children / last_child_idx
   (nodes[idx]: Panic 30) and returns the fresh node (index = nodes.len()) *)
Definition new_node (nodes : list node) (stack : list N) (pos : N) : outcome tree_err (list node * node) :=
  let parent_idx := hd_error stack in
  let fresh := mkNode [] pos PNone 0 (nlen nodes) parent_idx None None in
  match parent_idx with
  | None => Ok (nodes, fresh)
  | Some idx =>
    match update_nth nodes (N.to_nat idx) (bump_parent (nlen nodes)) with
    | None => Panic 30
    | Some nodes' => Ok (nodes', fresh)
    end
  end.

(* &s[a..b] (b <= s.len() at every use); a > b panics *)
Definition slice (s : bytes) (a b : N) : option bytes :=
  if b <? a then None else Some (firstn (N.to_nat (b - a)) (skipn (N.to_nat a) s)).

Record p2_state := mkP2 {
  p2_nodes : list node;          (* Vec, push = append *)
  p2_stack : list N;             (* parent_stack, top first *)
  p2_cur : option node;          (* current_node *)
  p2_hwm : N }.                  (* largest parent_stack.len() so far (decides the capacity assertion) *)

(* `if let Some(mut current) = current_node { current.name = &s[current.name_pos..pos]; nodes.push(current); }` *)
Definition flush (s : bytes) (st : p2_state) (pos : N) : outcome tree_err (list node) :=
  match p2_cur st with
  | None => Ok (p2_nodes st)
  | Some current =>
    match slice s (nd_name_pos current) pos with
    | None => Panic 24
    | Some nm => Ok (p2_nodes st ++ [set_name nm (nd_parens current) current])
    end
  end.

Definition p2_step (s : bytes) (st : p2_state) (pos ch : N) : outcome tree_err p2_state :=
  if is_open ch then
    match p2_cur st with
    | None => Panic 20                                            (* expect("'(' only occurs after a node name") *)
    | Some current =>
      match slice s (nd_name_pos current) pos with
      | None => Panic 24
      | Some nm =>
        let current' := set_name nm (if ch =? LPAREN then PRound else PCurly) current in
        let stack := nlen (p2_nodes st) :: p2_stack st in
        let nodes := p2_nodes st ++ [current'] in
        match new_node nodes stack (pos + 1) with
        | Ok (nodes', fresh) =>
          let d := N.of_nat (length stack) in
          Ok (mkP2 nodes' stack (Some fresh) (if p2_hwm st <? d then d else p2_hwm st))
        | Err e => Err e
        | Panic n => Panic n
        end
      end
    end
  else if ch =? COMMA then
    match flush s st pos with
    | Ok nodes1 =>
      (* parent_stack.last().and_then(|n| nodes[*n].last_child_idx) -> nodes[last_sib].right_sibling_idx = Some(nodes.len()) *)
      match (match hd_error (p2_stack st) with
             | None => Ok nodes1
             | Some n =>
               match nth_error nodes1 (N.to_nat n) with
               | None => Panic 31
               | Some parent =>
                 match nd_last_child parent with
                 | None => Ok nodes1
                 | Some k =>
                   match update_nth nodes1 (N.to_nat k) (set_sibling (nlen nodes1)) with
                   | None => Panic 32
                   | Some l => Ok l
                   end
                 end
               end
             end) with
      | Ok nodes2 =>
        match new_node nodes2 (p2_stack st) (pos + 1) with
        | Ok (nodes3, fresh) => Ok (mkP2 nodes3 (p2_stack st) (Some fresh) (p2_hwm st))
        | Err e => Err e
        | Panic n => Panic n
        end
      | Err e => Err e
      | Panic n => Panic n
      end
    | Err e => Err e
    | Panic n => Panic n
    end
  else if is_close ch then
    match flush s st pos with
    | Ok nodes1 => Ok (mkP2 nodes1 (tl (p2_stack st)) None (p2_hwm st))
    | Err e => Err e
    | Panic n => Panic n
    end
  else Ok st.

Fixpoint p2_loop (s : bytes) (st : p2_state) (pos : N) (rest : bytes) : outcome tree_err p2_state :=
  match rest with
  | [] => Ok st
  | ch :: rest' =>
    match p2_step s st pos ch with
    | Ok st' => p2_loop s st' (pos + 1) rest'
    | o => o
    end
  end.

Definition from_str_inner (s0 : bytes) : outcome tree_err (list node) :=
  match parse_pre_check s0 with
  | Err e => Err e
  | Panic n => Panic n
  | Ok (s, max_depth, n_nodes) =>
    match p2_loop s (mkP2 [] [] (Some (null_node 0)) 0) 0 s with
    | Ok st =>
      match flush s st (blen s) with                               (* current.name = &s[current.name_pos..] *)
      | Ok nodes =>
        if max_depth <? p2_hwm st then Panic 21                     (* assert_eq!(parent_stack.capacity(), max_depth) *)
        else if n_nodes <? nlen nodes then Panic 22                 (* assert_eq!(nodes.capacity(), n_nodes) *)
        else if negb (nlen nodes =? n_nodes) then Panic 23          (* assert_eq!(nodes.len(), nodes.capacity()) *)
        else Ok nodes
      | Err e => Err e
      | Panic n => Panic n
      end
    | Err e => Err e
    | Panic n => Panic n
    end
  end.

Definition no_panic_t {A} (o : outcome tree_err A) : Prop := match o with Panic _ => False | _ => True end.
Definition rejected_t {A} (o : outcome tree_err A) : Prop := match o with Err _ => True | _ => False end.

(* ---------------------------------------------------------------- specification side *)
(* the obvious recursive trees, their printer, and the node vector of a tree *)
Inductive etree := ENode (name : bytes) (p : parens) (children : list etree).

Definition open_of (p : parens) : bytes := match p with PNone => [] | PRound => [LPAREN] | PCurly => [LBRACE] end.
Definition close_of (p : parens) : bytes := match p with PNone => [] | PRound => [RPAREN] | PCurly => [RBRACE] end.

Fixpoint print (t : etree) : bytes :=
  match t with
  | ENode name p children =>
    name ++ open_of p ++
    (fix commas (l : list etree) : bytes :=
       match l with
       | [] => []
       | [c] => print c
       | c :: r => print c ++ COMMA :: commas r
       end) children ++ close_of p
  end.

Fixpoint size (t : etree) : N :=
  match t with ENode _ _ cs => 1 + fold_right (fun c acc => size c + acc) 0 cs end.
Fixpoint depth (t : etree) : N :=
  match t with ENode _ p cs => match cs with [] => 0 | _ => 1 + fold_right (fun c acc => N.max (depth c) acc) 0 cs end end.

Definition name_char (c : N) : bool :=
  (32 <=? c) && (c <? 127) && negb (is_open c) && negb (is_close c) && negb (c =? COMMA) && negb (c =? HASH).

(* a name is a run of non-structural alphabet characters; a node has children iff it has parentheses *)
Fixpoint well_formed (t : etree) : bool :=
  match t with
  | ENode name p cs =>
    forallb name_char name &&
    match p, cs with
    | PNone, [] => true
    | PNone, _ :: _ => false
    | _, [] => false
    | _, _ :: _ => forallb well_formed cs
    end
  end.

(* structural well-formedness only (what the parser itself guarantees for its output): names
   contain no structural character; parentheses iff children.  The payload of a checksummed
   string may contain earlier '#' characters, so names of parsed trees may. *)
Definition nonstruct (c : N) : bool := negb (is_open c) && negb (is_close c) && negb (c =? COMMA).
Fixpoint swf (t : etree) : bool :=
  match t with
  | ENode name p cs =>
    forallb nonstruct name &&
    match p, cs with
    | PNone, [] => true
    | PNone, _ :: _ => false
    | _, [] => false
    | _, _ :: _ => forallb swf cs
    end
  end.

(* index of the last child when the first child has index [st] *)
Fixpoint last_start (cs : list etree) (st : N) : option N :=
  match cs with
  | [] => None
  | [c] => Some st
  | c :: r => last_start r (st + size c)
  end.

(* the node vector from_str_inner builds for a tree whose text starts at byte [pos] when [start]
   nodes precede it; [parent] / [sibling] are the root's parent and right-sibling indices *)
Fixpoint flatten (t : etree) (start pos : N) (parent sibling : option N) : list node :=
  match t with
  | ENode name p cs =>
    mkNode name pos p (N.of_nat (length cs)) start parent (last_start cs (start + 1)) sibling ::
    (fix go (l : list etree) (st ps : N) : list node :=
       match l with
       | [] => []
       | c :: r =>
         flatten c st ps (Some start) (match r with [] => None | _ :: _ => Some (st + size c) end)
         ++ go r (st + size c) (ps + blen (print c) + 1)
       end) cs (start + 1) (pos + blen name + 1)
  end.

Definition tree_nodes (t : etree) : list node := flatten t 0 0 None None.
