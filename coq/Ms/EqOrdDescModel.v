(* C19 — the derived PartialEq / Ord of Descriptor, Sh, ShInner, Wsh, Bare, Pkh, Wpkh, TapTree and the
   hand-written ones of Tr (src/descriptor/tr/mod.rs: internal key, then tree; the spend-info cache is
   skipped), over the equality / ordering of the miniscripts inside.  `#[derive(PartialOrd, Ord)]` on an
   enum compares the variant index first, on a Vec it is lexicographic with the length as tie-break.
   The descriptor type `desc` is the one of TranslateModel.v (a tr without leaves is `tree = None`; a
   `Some` tree always has a leaf).  No proofs in this file. *)
From Verif Require Export TranslateModel.

Section DescEqOrd.
  Variable meq : ms -> ms -> bool.                                             (* Miniscript::eq *)
  Variable mcmp : (key -> key -> comparison) -> ms -> ms -> outcome comparison. (* Miniscript::cmp *)
  Variable kcmp_full kcmp_x : key -> key -> comparison.    (* Ord of the key type on full keys / on x-only keys *)

  (* Vec<(u8, Arc<Miniscript>)> == *)
  Fixpoint leaves_eq (a b : list (N * ms)) : bool :=
    match a, b with
    | [], [] => true
    | (d, m) :: r, (d', m') :: s => N.eqb d d' && meq m m' && leaves_eq r s
    | _, _ => false
    end.

  Definition desc_eq (a b : desc) : bool :=
    match a, b with
    | DBare x, DBare y | DShWsh x, DShWsh y | DSh x, DSh y | DWsh x, DWsh y => meq x y
    | DPkh x, DPkh y | DWpkh x, DWpkh y | DShWpkh x, DShWpkh y => N.eqb x y
    | DTr k l, DTr k' l' => N.eqb k k' && leaves_eq l l'      (* self.internal_key == other.internal_key && self.tree == other.tree *)
    | _, _ => false
    end.

  (* enum Descriptor { Bare, Pkh, Wpkh, Sh, Wsh, Tr }; enum ShInner { Wsh, Wpkh, Ms } *)
  Definition variant_rank (d : desc) : N * N :=
    match d with
    | DBare _ => (0, 0) | DPkh _ => (1, 0) | DWpkh _ => (2, 0)
    | DShWsh _ => (3, 0) | DShWpkh _ => (3, 1) | DSh _ => (3, 2)
    | DWsh _ => (4, 0) | DTr _ _ => (5, 0)
    end%N.

  (* Option<TapTree>::cmp / Vec::cmp: element-wise ((u8, Arc<Ms>): depth, then miniscript), then the lengths *)
  Fixpoint leaves_cmp (a b : list (N * ms)) : outcome comparison :=
    match a, b with
    | [], [] => EqOrdModel.Ok Eq
    | [], _ :: _ => EqOrdModel.Ok Lt
    | _ :: _, [] => EqOrdModel.Ok Gt
    | (d, m) :: r, (d', m') :: s =>
      match N.compare d d' with
      | Eq => match mcmp kcmp_x m m' with EqOrdModel.Ok Eq => leaves_cmp r s | o => o end
      | c => EqOrdModel.Ok c
      end
    end.

  Definition desc_cmp (a b : desc) : outcome comparison :=
    match N.compare (fst (variant_rank a)) (fst (variant_rank b)) with
    | Eq =>
      match N.compare (snd (variant_rank a)) (snd (variant_rank b)) with
      | Eq =>
        match a, b with
        | DBare x, DBare y | DShWsh x, DShWsh y | DSh x, DSh y | DWsh x, DWsh y => mcmp kcmp_full x y
        | DPkh x, DPkh y | DWpkh x, DWpkh y | DShWpkh x, DShWpkh y => EqOrdModel.Ok (kcmp_full x y)
        | DTr k l, DTr k' l' => match kcmp_x k k' with Eq => leaves_cmp l l' | c => EqOrdModel.Ok c end
        | _, _ => EqOrdModel.Ok Eq    (* not reached: equal ranks mean equal variants *)
        end
      | c => EqOrdModel.Ok c
      end
    | c => EqOrdModel.Ok c
    end.
End DescEqOrd.

(* ------------------------------------------------------------------ the spend-info cache of Tr
   `Tr` carries `spend_info: Mutex<Option<Arc<TrSpendInfo>>>`, filled lazily by spend_info() / script_pubkey() /
   address(); `Clone` copies the Arc.  It is run-time state: a descriptor value is (structure, cache).
   `impl PartialEq / Ord / Hash for Tr` read `internal_key` and `tree` only -- the cache is not an input. *)
Record cdesc := mkCD { cd_desc : desc; cd_cache : option N }.      (* the cached output key, abstractly *)

Definition cd_fresh (x : desc) : cdesc := mkCD x None.                       (* parsed / constructed *)
Definition cd_warm (spend : desc -> N) (x : cdesc) : cdesc :=                (* after spend_info() *)
  mkCD (cd_desc x) (Some (spend (cd_desc x))).
Definition cd_clone (x : cdesc) : cdesc := mkCD (cd_desc x) (cd_cache x).   (* Clone for Tr: key, tree, Arc::clone of the cache *)

Definition cdesc_eq (meq : ms -> ms -> bool) (a b : cdesc) : bool := desc_eq meq (cd_desc a) (cd_desc b).
Definition cdesc_cmp (mcmp : (key -> key -> comparison) -> ms -> ms -> outcome comparison)
           (kf kx : key -> key -> comparison) (a b : cdesc) : outcome comparison :=
  desc_cmp mcmp kf kx (cd_desc a) (cd_desc b).
