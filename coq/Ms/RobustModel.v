(* C11 — models (no proofs) of the pieces of rust-miniscript whose totality is proved:
   Threshold constructors (primitives/threshold.rs), the script byte cursor under the lexer
   (rust-bitcoin Instructions + lex.rs), plan.rs is_key_direct_child_of, and the iterative
   tree walkers of iter/tree.rs.  Every Rust panic site inside a modelled function is an
   explicit [RPanic site] outcome (DESIGN 3.1); partial operations ([a - b] on usize, [v[i]],
   [&v[..n]]) are written as partial functions, exactly where the code has them. *)
From Coq Require Import List NArith ZArith Bool.
From Verif Require Import Bytes.
Import ListNotations.
Local Open Scope N_scope.

Inductive routcome (A : Type) : Type :=
| ROk (a : A)
| RErr (e : N)          (* an error VALUE returned to the caller *)
| RPanic (site : N).    (* the Rust code would panic here *)
Arguments ROk {A} a. Arguments RErr {A} e. Arguments RPanic {A} site.

Definition rbind {A B} (x : routcome A) (f : A -> routcome B) : routcome B :=
  match x with ROk a => f a | RErr e => RErr e | RPanic s => RPanic s end.

Definition is_panic {A} (x : routcome A) : bool := match x with RPanic _ => true | _ => false end.

Definition nlen {A} (l : list A) : N := N.of_nat (length l).

(* panic site numbers (notes/C11-panic-sites.json refers to them) *)
Definition P_SUB_UNDERFLOW : N := 1.   (* usize subtraction below zero (historically plan.rs: definite_path_len - 1) *)
Definition P_INDEX : N := 2.           (* v[i] out of range *)
Definition P_UNWRAP_NONE : N := 3.     (* Option::unwrap on None *)
Definition P_PARENT_INDEX : N := 4.    (* iter/tree.rs: self.stack[idx] *)
Definition P_SLICE : N := 5.           (* &v[..n] / &v[a..] out of range *)
Definition P_DEBUG_ASSERT : N := 6.    (* debug_assert!, debug builds only *)
Definition P_ASSERT : N := 7.          (* assert! / assert_ne! *)

(* partial primitives *)
Definition sub_partial (a b : N) : routcome N := if a <? b then RPanic P_SUB_UNDERFLOW else ROk (a - b).
Definition index_partial {A} (v : list A) (i : N) : routcome A :=
  match nth_error v (N.to_nat i) with Some x => ROk x | None => RPanic P_INDEX end.
Definition slice_to {A} (v : list A) (n : N) : routcome (list A) :=
  if nlen v <? n then RPanic P_SLICE else ROk (firstn (N.to_nat n) v).
Definition slice_from {A} (v : list A) (n : N) : routcome (list A) :=
  if nlen v <? n then RPanic P_SLICE else ROk (skipn (N.to_nat n) v).

(* ================================================================== Threshold *)
(* primitives/threshold.rs.  MAX = 0 means "no maximum". *)
Record thr (A : Type) : Type := mkThr { t_k : N; t_inner : list A }.
Arguments mkThr {A} t_k t_inner. Arguments t_k {A} t. Arguments t_inner {A} t.

Definition E_THRESHOLD : N := 100.

(* validate_k_n::<MAX>(k, n):  if k == 0 || k > n || (MAX > 0 && n > MAX) { Err } else { Ok } *)
Definition validate_k_n (MAX k n : N) : bool :=
  negb ((k =? 0) || (n <? k) || ((0 <? MAX) && (MAX <? n))).

Definition thr_new {A} (MAX k : N) (inner : list A) : routcome (thr A) :=
  if validate_k_n MAX k (nlen inner) then ROk (mkThr k inner) else RErr E_THRESHOLD.

(* from_iter: [hint] is the iterator's size_hint().0; the early return happens before the
   collection is built (and counts the items for the error only) *)
Definition thr_from_iter {A} (MAX k hint : N) (items : list A) : routcome (thr A) :=
  let min_size := N.max k hint in
  if (0 <? MAX) && (MAX <? min_size) then RErr E_THRESHOLD
  else thr_new MAX k items.

(* or / and : debug_assert!(MAX == 0 || MAX > 1) then the literal struct *)
Definition thr_or {A} (MAX : N) (l r : A) : routcome (thr A) :=
  if (MAX =? 0) || (1 <? MAX) then ROk (mkThr 1 [l; r]) else RPanic P_DEBUG_ASSERT.
Definition thr_and {A} (MAX : N) (l r : A) : routcome (thr A) :=
  if (MAX =? 0) || (1 <? MAX) then ROk (mkThr 2 [l; r]) else RPanic P_DEBUG_ASSERT.

(* or_n / and_n (Threshold<T,0> only): assert_ne!(inner.len(), 0) — a documented panic *)
Definition thr_or_n {A} (inner : list A) : routcome (thr A) :=
  if nlen inner =? 0 then RPanic P_ASSERT else ROk (mkThr 1 inner).
Definition thr_and_n {A} (inner : list A) : routcome (thr A) :=
  if nlen inner =? 0 then RPanic P_ASSERT else ROk (mkThr (nlen inner) inner).

Definition thr_set_maximum {A} (NEWMAX : N) (t : thr A) : routcome (thr A) := thr_new NEWMAX (t_k t) (t_inner t).
Definition thr_forget_maximum {A} (t : thr A) : thr A := mkThr (t_k t) (t_inner t).

Definition thr_map {A B} (f : A -> B) (t : thr A) : thr B := mkThr (t_k t) (map f (t_inner t)).

(* translate / translate_ref: collect::<Result<Vec<_>,_>>() stops at the first error *)
Fixpoint collect_results {A B} (f : A -> routcome B) (l : list A) : routcome (list B) :=
  match l with
  | [] => ROk []
  | x :: r => rbind (f x) (fun y => rbind (collect_results f r) (fun ys => ROk (y :: ys)))
  end.
Definition thr_translate {A B} (f : A -> routcome B) (t : thr A) : routcome (thr B) :=
  rbind (collect_results f (t_inner t)) (fun inner => ROk (mkThr (t_k t) inner)).

Fixpoint nseq (start : N) (len : nat) : list N :=
  match len with O => [] | S l => start :: nseq (start + 1) l end.
Definition thr_translate_by_index {A B} (f : N -> routcome B) (t : thr A) : routcome (thr B) :=
  rbind (collect_results f (nseq 0 (length (t_inner t)))) (fun inner => ROk (mkThr (t_k t) inner)).

(* map_from_post_order_iter: debug_assert_eq!(inner.len(), child_indices.len());
   processed[n] for each n of child_indices *)
Definition thr_map_post_order {A U} (t : thr A) (child_indices : list N) (processed : list U) : routcome (thr U) :=
  if negb (nlen (t_inner t) =? nlen child_indices) then RPanic P_DEBUG_ASSERT
  else rbind (collect_results (index_partial processed) child_indices) (fun inner => ROk (mkThr (t_k t) inner)).

(* ThreshDisplay::fmt: with show_k the items are inner[0..]; without, inner[0] then inner[1..] *)
Definition thr_display_items {A} (show_k : bool) (t : thr A) : routcome (list A) :=
  if show_k then slice_from (t_inner t) 0
  else rbind (index_partial (t_inner t) 0) (fun x => rbind (slice_from (t_inner t) 1) (fun r => ROk (x :: r))).

(* ThresholdError::fmt: the last branch does debug_assert!(max.is_some()); max.unwrap(); debug_assert!(n > max) *)
Record thr_err := mkThrErr { te_k : N; te_n : N; te_max : option N }.
Definition thr_error_of (MAX k n : N) : thr_err := mkThrErr k n (if 0 <? MAX then Some MAX else None).
Definition thr_err_display (e : thr_err) : routcome N :=
  if te_n e =? 0 then ROk 0
  else if te_k e =? 0 then ROk 1
  else if te_n e <? te_k e then ROk 2
  else match te_max e with
       | None => RPanic P_UNWRAP_NONE
       | Some m => if m <? te_n e then ROk 3 else RPanic P_DEBUG_ASSERT
       end.

(* the invariant every constructor establishes / preserves *)
Definition thr_wf {A} (MAX : N) (t : thr A) : Prop :=
  1 <= t_k t /\ t_k t <= nlen (t_inner t) /\ (MAX = 0 \/ nlen (t_inner t) <= MAX).

(* ================================================================== plan.rs *)
(* The code as written (after /repo 540253fb):
   fn is_key_direct_child_of(pk, derivation_path) -> bool {
     for pk_derivation_path in pk.full_derivation_paths() {
         if &pk_derivation_path == derivation_path { return true; }
         // An empty path (a key without origin or derivation steps) has no parent.
         if let Some((_last, parent)) = pk_derivation_path.as_ref().split_last() {
             if derivation_path.as_ref() == parent { return true; }
         }
     }
     false } *)
Definition dpath := list N.   (* child numbers *)
Fixpoint dpath_eqb (a b : dpath) : bool :=
  match a, b with
  | [], [] => true
  | x :: r, y :: s => (x =? y) && dpath_eqb r s
  | _, _ => false
  end.

(* <[T]>::split_last: None on an empty slice, otherwise (last, everything before it) *)
Definition split_last_parent (p : dpath) : option dpath :=
  match p with [] => None | _ => Some (removelast p) end.

Fixpoint child_of (pk_paths : list dpath) (dp : dpath) : routcome bool :=
  match pk_paths with
  | [] => ROk false
  | p :: rest =>
    if dpath_eqb p dp then ROk true
    else match split_last_parent p with
         | Some parent => if dpath_eqb dp parent then ROk true else child_of rest dp
         | None => child_of rest dp
         end
  end.

(* Assets::has_ecdsa_key: keys.iter().any(|(keysource, can_sign)| can_sign.ecdsa &&
     pk.master_fingerprint() == keysource.0 && is_key_direct_child_of(pk, &keysource.1)) *)
Record asset_key := mkAssetKey { ak_fp : N; ak_path : dpath; ak_ecdsa : bool }.
Fixpoint has_ecdsa_key (keys : list asset_key) (pk_fp : N) (pk_paths : list dpath) : routcome bool :=
  match keys with
  | [] => ROk false
  | a :: rest =>
    if ak_ecdsa a && (pk_fp =? ak_fp a) then
      rbind (child_of pk_paths (ak_path a)) (fun b => if b then ROk true else has_ecdsa_key rest pk_fp pk_paths)
    else has_ecdsa_key rest pk_fp pk_paths
  end.

(* what the doc comment promises: equal, or equal to the path minus its last step *)
Definition child_of_spec (pk_paths : list dpath) (dp : dpath) : Prop :=
  exists p, In p pk_paths /\ (p = dp \/ (p <> [] /\ removelast p = dp)).

(* HISTORY (DESIGN 10-f, fixed by /repo 540253fb): the code before the repair computed
   `&pk_derivation_path[..(len - 1)]`, which underflows on an empty path.  Kept only so that
   the tie can NAME a regression to that behaviour (Tables/RobustCasesCheck.v) and for the
   statement that the repair changed nothing else (planner_repair_conservative). *)
Fixpoint child_of_before_540253fb (pk_paths : list dpath) (dp : dpath) : routcome bool :=
  match pk_paths with
  | [] => ROk false
  | p :: rest =>
    if dpath_eqb p dp then ROk true
    else rbind (sub_partial (nlen p) 1) (fun m =>
         rbind (slice_to p m) (fun pre =>
         if dpath_eqb dp pre then ROk true else child_of_before_540253fb rest dp))
  end.

(* ================================================================== script byte cursor *)
(* rust-bitcoin 0.32 blockdata/script/instruction.rs (Instructions with enforce_minimal = true,
   which is what lex.rs's script.instructions_minimal() uses), written with an index cursor:
   [buf] is the whole script, [pos] the cursor; every read is [index_partial] / [slice]. *)
Definition E_EARLY_END : N := 201.
Definition E_NON_MINIMAL : N := 202.
Definition E_NUM_OVERFLOW : N := 203.

Inductive instr_tok := IPushBytes (d : bytes) | IOpcode (c : N).

Definition slice_range {A} (v : list A) (a len : N) : routcome (list A) :=
  rbind (slice_from v a) (fun s => slice_to s len).

(* read_uint_iter(&mut data, size): if data.len() >= size { little endian } else EarlyEndOfScript *)
Fixpoint le_n (b : bytes) : N := match b with [] => 0 | x :: r => x + 256 * le_n r end.
Definition read_uint (buf : bytes) (pos size : N) : routcome (N * N) :=
  if nlen buf - pos <? size then RErr E_EARLY_END
  else rbind (slice_range buf pos size) (fun s => ROk (le_n s, pos + size)).

(* take_slice_or_kill(len): if self.data.len() >= len { &data[..len]; advance } else EarlyEndOfScript *)
Definition take_slice (buf : bytes) (pos len : N) : routcome (bytes * N) :=
  if nlen buf - pos <? len then RErr E_EARLY_END
  else rbind (slice_range buf pos len) (fun s => ROk (s, pos + len)).

Definition next_push_data_len (buf : bytes) (pos lenlen min_push_len : N) : routcome (instr_tok * N) :=
  rbind (read_uint buf pos lenlen) (fun r =>
    let '(n, pos1) := r in
    if n <? min_push_len then RErr E_NON_MINIMAL
    else rbind (take_slice buf pos1 n) (fun r2 => let '(d, pos2) := r2 in ROk (IPushBytes d, pos2))).

(* Instructions::next for one instruction at [pos] (pos < len buf is the loop guard) *)
Definition instr_next (buf : bytes) (pos : N) : routcome (instr_tok * N) :=
  rbind (index_partial buf pos) (fun byte =>
    let pos1 := pos + 1 in
    if byte <=? 75 then
      (* Class::PushBytes(n), n = 0..75 (OP_0 is the empty push) *)
      let n := byte in
      let op_byte := index_partial buf pos1 in  (* self.data.as_slice().first(), peeked only when n = 1: guarded below *)
      rbind (if n =? 1 then
               (if nlen buf - pos1 <? 1 then ROk None else rbind op_byte (fun b => ROk (Some b)))
             else ROk None) (fun first =>
      match first with
      | Some b =>
        (* minimality of one-byte pushes *)
        if (b =? 129) || ((1 <=? b) && (b <=? 16)) then RErr E_NON_MINIMAL
        else rbind (take_slice buf pos1 n) (fun r => let '(d, p) := r in ROk (IPushBytes d, p))
      | None => rbind (take_slice buf pos1 n) (fun r => let '(d, p) := r in ROk (IPushBytes d, p))
      end)
    else if byte =? 76 then next_push_data_len buf pos1 1 76
    else if byte =? 77 then next_push_data_len buf pos1 2 256
    else if byte =? 78 then next_push_data_len buf pos1 4 65536
    else ROk (IOpcode byte, pos1)).

(* the loop: fuel = number of bytes (each instruction consumes at least one) *)
Definition E_OUT_OF_FUEL : N := 299.
Fixpoint instr_all (fuel : nat) (buf : bytes) (pos : N) : routcome (list instr_tok) :=
  if nlen buf <=? pos then ROk []
  else match fuel with
       | O => RErr E_OUT_OF_FUEL
       | S f => rbind (instr_next buf pos) (fun r =>
                  let '(i, pos') := r in rbind (instr_all f buf pos') (fun rest => ROk (i :: rest)))
       end.

(* read_scriptint (rust-bitcoin) as used by lex.rs on pushes that are not 20/32/33/65 bytes:
     let last = match v.last() { Some(l) => l, None => return Ok(0) };
     if v.len() > 4 { return Err(NumericOverflow) }
     if (last & 0x7f) == 0 { if v.len() <= 1 || (v[v.len() - 2] & 0x80) == 0 { return Err(NonMinimalPush) } }
     Ok(scriptint_parse(v)) *)
Definition read_scriptint (v : bytes) : routcome Z :=
  match v with
  | [] => ROk 0%Z
  | _ =>
    rbind (sub_partial (nlen v) 1) (fun li =>
    rbind (index_partial v li) (fun last =>
    if 4 <? nlen v then RErr E_NUM_OVERFLOW
    else if N.land last 127 =? 0 then
      (if nlen v <=? 1 then RErr E_NON_MINIMAL
       else rbind (sub_partial (nlen v) 2) (fun pi =>
            rbind (index_partial v pi) (fun prev =>
            if N.land prev 128 =? 0 then RErr E_NON_MINIMAL else ROk (num_decode v))))
    else ROk (num_decode v)))
  end.

(* lex.rs: tokens (only what matters for totality: which branch, which error) *)
Inductive ltoken := LTok (c : N) | LVerifyAfter (c : N) | LNum (n : Z) | LHash20 (b : bytes) | LBytes32 (b : bytes) | LBytes33 (b : bytes) | LBytes65 (b : bytes).
Definition E_LEX_NEG : N := 210.
Definition E_LEX_INVALID_OP : N := 211.
Definition E_LEX_NONMIN_VERIFY : N := 212.

Definition lex_known_op (c : N) : bool :=
  existsb (N.eqb c) [154;155;135;136;156;157;172;173;186;174;175;178;177;108;107;117;118;147;99;115;100;103;104;146;130;124;105;166;169;168;170]
  || ((81 <=? c) && (c <=? 96)).

Definition lex_one (prev : option ltoken) (i : instr_tok) : routcome (list ltoken) :=
  match i with
  | IOpcode c =>
    if negb (lex_known_op c) then RErr E_LEX_INVALID_OP
    else if c =? 105 then  (* OP_VERIFY: match ret.last() { Equal | NumEqual | CheckSig | CheckMultiSig => NonMinimalVerify } (NumEqual since /repo 22fc180a) *)
      match prev with
      | Some (LTok 135) | Some (LTok 156) | Some (LTok 172) | Some (LTok 174) => RErr E_LEX_NONMIN_VERIFY
      | _ => ROk [LTok 105]
      end
    else if (c =? 136) || (c =? 157) || (c =? 173) || (c =? 175) then ROk [LTok (c - 1); LTok 105]
    else if (81 <=? c) && (c <=? 96) then ROk [LNum (Z.of_N c - 80)%Z]
    else ROk [LTok c]
  | IPushBytes d =>
    if nlen d =? 20 then ROk [LHash20 d]
    else if nlen d =? 32 then ROk [LBytes32 d]
    else if nlen d =? 33 then ROk [LBytes33 d]
    else if nlen d =? 65 then ROk [LBytes65 d]
    else rbind (read_scriptint d) (fun z => if (z <? 0)%Z then RErr E_LEX_NEG else ROk [LNum z])
  end.

(* lex(): ONE loop - `for ins in script.instructions_minimal() { match ins.map_err(Script)? {..} }`:
   the first failing instruction or token ends it (order of errors as in the code) *)
Fixpoint lex_loop (fuel : nat) (buf : bytes) (pos : N) (acc : list ltoken) : routcome (list ltoken) :=
  if nlen buf <=? pos then ROk acc
  else match fuel with
       | O => RErr E_OUT_OF_FUEL
       | S f => rbind (instr_next buf pos) (fun r =>
                  let '(i, pos') := r in
                  rbind (lex_one (last (map Some acc) None) i) (fun ts => lex_loop f buf pos' (acc ++ ts)))
       end.

Definition lex_model (script : bytes) : routcome (list ltoken) := lex_loop (length script) script 0 [].

(* ================================================================== depth guard *)
(* ExtData::tree_height (miniscript/types/extra_props.rs): 0 for every leaf, self + 1 for the
   seven wrappers, 1 + max of ALL children for and_v / and_b / or_b / or_d / or_c / or_i / andor /
   thresh.  Miniscript::from_ast rejects tree_height > MAX_RECURSION_DEPTH and validate() rejects
   tree_height > max_recursive_depth: the guard is only as good as this number. *)
Definition DEPTH_LIMIT : N := 402.
Fixpoint nmax_list (l : list N) : N := match l with [] => 0 | x :: r => N.max x (nmax_list r) end.
Definition tree_height_model (child_heights : list N) : N :=
  match child_heights with [] => 0 | _ => 1 + nmax_list child_heights end.
Definition depth_guard (tree_height : N) : bool := tree_height <=? DEPTH_LIMIT.

(* the same on the generic trees of the iterator section: height of a tree computed bottom-up
   with the constructor formula (leaf = 0) *)
(* ================================================================== iter/tree.rs *)
Inductive rtree := RNode (label : N) (children : list rtree).

Fixpoint rsize (t : rtree) : nat :=
  match t with RNode _ cs => S ((fix go (l : list rtree) : nat := match l with [] => O | c :: r => (rsize c + go r)%nat end) cs) end.
Fixpoint rsize_forest (l : list rtree) : nat := match l with [] => O | c :: r => (rsize c + rsize_forest r)%nat end.
Fixpoint rheight (t : rtree) : nat :=
  match t with RNode _ cs => S ((fix go (l : list rtree) : nat := match l with [] => O | c :: r => Nat.max (rheight c) (go r) end) cs) end.
Fixpoint rheight_forest (l : list rtree) : nat := match l with [] => O | c :: r => Nat.max (rheight c) (rheight_forest r) end.
Fixpoint rarity (t : rtree) : nat :=
  match t with RNode _ cs => Nat.max (length cs) ((fix go (l : list rtree) : nat := match l with [] => O | c :: r => Nat.max (rarity c) (go r) end) cs) end.
Fixpoint rarity_forest (l : list rtree) : nat := match l with [] => O | c :: r => Nat.max (rarity c) (rarity_forest r) end.

(* recursive specification of pre-order *)
Fixpoint preorder (t : rtree) : list N :=
  match t with RNode x cs => x :: (fix go (l : list rtree) : list N := match l with [] => [] | c :: r => preorder c ++ go r end) cs end.
Fixpoint preorder_forest (l : list rtree) : list N := match l with [] => [] | c :: r => preorder c ++ preorder_forest r end.

(* PreOrderIter::next: pop; push the children in reverse so that the first child is on top.
   The Vec is modelled with its top at the head of the list. *)
Definition pre_next (stack : list rtree) : option (N * list rtree) :=
  match stack with
  | [] => None
  | RNode x cs :: rest => Some (x, cs ++ rest)
  end.

(* the caller's loop `for x in t.pre_order_iter()` with explicit fuel *)
Fixpoint pre_run (fuel : nat) (stack : list rtree) : option (list N) :=
  match pre_next stack with
  | None => Some []
  | Some (x, st') => match fuel with O => None | S f => option_map (cons x) (pre_run f st') end
  end.

(* number of calls of next that returned Some, and the largest stack seen *)
Fixpoint pre_steps (fuel : nat) (stack : list rtree) : nat :=
  match fuel with O => O | S f => match pre_next stack with None => O | Some (_, st') => S (pre_steps f st') end end.
Fixpoint pre_max_stack (fuel : nat) (stack : list rtree) : nat :=
  match fuel with
  | O => length stack
  | S f => match pre_next stack with None => length stack | Some (_, st') => Nat.max (length stack) (pre_max_stack f st') end
  end.

(* PostOrderIter (the one with indices), faithfully: stack items carry the processed flag,
   the child indices gathered so far and the parent's position in the stack. The Vec is
   modelled with its top at the END of the list (positions are Vec indices). *)
Record pitem := mkPItem { pi_elem : rtree; pi_processed : bool; pi_children : list N; pi_parent : option N }.
Definition rchildren (t : rtree) : list rtree := match t with RNode _ cs => cs end.
Definition rlabel (t : rtree) : N := match t with RNode x _ => x end.

Definition nth_child (t : rtree) (i : N) : option rtree := nth_error (rchildren t) (N.to_nat i).

(* self.stack[idx].child_indices.push(v) *)
Fixpoint push_child_index (stack : list pitem) (idx : nat) (v : N) : option (list pitem) :=
  match stack, idx with
  | [], _ => None
  | it :: r, O => Some (mkPItem (pi_elem it) (pi_processed it) (pi_children it ++ [v]) (pi_parent it) :: r)
  | it :: r, S i => option_map (cons it) (push_child_index r i v)
  end.

(* for idx in (0..n).rev() { stack.push(unprocessed(stack[cur].elem.nth_child(idx).unwrap(), Some(cur))) } *)
Fixpoint push_children_rev (stack : list pitem) (cur : N) (parent_elem : rtree) (idxs : list N) : routcome (list pitem) :=
  match idxs with
  | [] => ROk stack
  | i :: r =>
    match nth_child parent_elem i with
    | None => RPanic P_UNWRAP_NONE
    | Some c => push_children_rev (stack ++ [mkPItem c false [] (Some cur)]) cur parent_elem r
    end
  end.

Record post_yield := mkYield { y_label : N; y_index : N; y_children : list N }.

(* one call of next(): loops (the recursion `self.next()` of the code) until it yields; fuel
   bounds the number of pops *)
Fixpoint post_next (fuel : nat) (index : N) (stack : list pitem) : routcome (option (post_yield * N * list pitem)) :=
  match fuel with
  | O => RErr E_OUT_OF_FUEL
  | S f =>
    match rev stack with
    | [] => ROk None
    | cur :: rest_rev =>
      let rest := rev rest_rev in
      if negb (pi_processed cur) then
        let cur_idx := nlen rest in
        let n := length (rchildren (pi_elem cur)) in
        let st1 := rest ++ [mkPItem (pi_elem cur) true (pi_children cur) (pi_parent cur)] in
        rbind (index_partial st1 cur_idx) (fun it =>
        rbind (push_children_rev st1 cur_idx (pi_elem it) (rev (nseq 0 n))) (fun st2 =>
        post_next f index st2))
      else
        rbind (match pi_parent cur with
               | None => ROk rest
               | Some idx => match push_child_index rest (N.to_nat idx) index with
                             | Some s => ROk s | None => RPanic P_PARENT_INDEX end
               end) (fun st' =>
        ROk (Some (mkYield (rlabel (pi_elem cur)) index (pi_children cur), index + 1, st')))
    end
  end.

Fixpoint post_run (fuel : nat) (index : N) (stack : list pitem) : routcome (list post_yield) :=
  match fuel with
  | O => RErr E_OUT_OF_FUEL
  | S f =>
    rbind (post_next (S (S (length stack) + 2 * rsize_forest (map pi_elem stack)))%nat index stack) (fun r =>
    match r with
    | None => ROk []
    | Some (y, index', st') => rbind (post_run f index' st') (fun ys => ROk (y :: ys))
    end)
  end.

Definition post_order (t : rtree) : routcome (list post_yield) :=
  post_run (S (rsize t)) 0 [mkPItem t false [] None].

(* recursive specification of post-order labels *)
Fixpoint postorder (t : rtree) : list N :=
  match t with RNode x cs => (fix go (l : list rtree) : list N := match l with [] => [] | c :: r => postorder c ++ go r end) cs ++ [x] end.


(* tree_height of a whole tree when every constructor uses [tree_height_model] *)
Fixpoint lib_height (t : rtree) : N :=
  match t with RNode _ cs => tree_height_model ((fix go (l : list rtree) : list N := match l with [] => [] | c :: r => lib_height c :: go r end) cs) end.
