(* Model of src/miniscript/types/{correctness,malleability,mod}.rs.
   Hand-written, rule by rule, in the order the Rust code tests things (the first error
   is observable).  No proofs in this file. *)
From Coq Require Export List Bool NArith.
Export ListNotations.

Inductive base := BB | BK | BV | BW.
Inductive input := IZero | IOne | IAny | IOneNonZero | IAnyNonZero.

Record corr := mkCorr { c_base : base; c_input : input; c_dissat : bool; c_unit : bool }.

Inductive dissat := DNone | DUnique | DUnknown.
Record mall := mkMall { m_dissat : dissat; m_signed : bool; m_nm : bool }.

Record ty := mkTy { t_corr : corr; t_mall : mall }.

Inductive errk :=
| NonZeroDupIf | LeftNotDissatisfiable | RightNotDissatisfiable | SwapNonOne
| NonZeroZero | LeftNotUnit
| ChildBase1 (b : base) | ChildBase2 (a b : base) | ChildBase3 (a b c : base)
| ThresholdBase (i : N) (b : base) | ThresholdDissat (i : N) | ThresholdNonUnit (i : N).

Inductive res (A : Type) := ROk (a : A) | RErr (e : errk).
Arguments ROk {A} a. Arguments RErr {A} e.

Definition base_eqb (a b : base) : bool :=
  match a, b with BB, BB | BK, BK | BV, BV | BW, BW => true | _, _ => false end.
Definition input_eqb (a b : input) : bool :=
  match a, b with
  | IZero, IZero | IOne, IOne | IAny, IAny | IOneNonZero, IOneNonZero | IAnyNonZero, IAnyNonZero => true
  | _, _ => false end.
Definition dissat_eqb (a b : dissat) : bool :=
  match a, b with DNone, DNone | DUnique, DUnique | DUnknown, DUnknown => true | _, _ => false end.
Definition corr_eqb (a b : corr) : bool :=
  base_eqb (c_base a) (c_base b) && input_eqb (c_input a) (c_input b)
  && Bool.eqb (c_dissat a) (c_dissat b) && Bool.eqb (c_unit a) (c_unit b).
Definition mall_eqb (a b : mall) : bool :=
  dissat_eqb (m_dissat a) (m_dissat b) && Bool.eqb (m_signed a) (m_signed b) && Bool.eqb (m_nm a) (m_nm b).
Definition ty_eqb (a b : ty) : bool := corr_eqb (t_corr a) (t_corr b) && mall_eqb (t_mall a) (t_mall b).
Definition errk_eqb (a b : errk) : bool :=
  match a, b with
  | NonZeroDupIf, NonZeroDupIf | LeftNotDissatisfiable, LeftNotDissatisfiable
  | RightNotDissatisfiable, RightNotDissatisfiable | SwapNonOne, SwapNonOne
  | NonZeroZero, NonZeroZero | LeftNotUnit, LeftNotUnit => true
  | ChildBase1 x, ChildBase1 y => base_eqb x y
  | ChildBase2 x1 x2, ChildBase2 y1 y2 => base_eqb x1 y1 && base_eqb x2 y2
  | ChildBase3 x1 x2 x3, ChildBase3 y1 y2 y3 => base_eqb x1 y1 && base_eqb x2 y2 && base_eqb x3 y3
  | ThresholdBase i x, ThresholdBase j y => N.eqb i j && base_eqb x y
  | ThresholdDissat i, ThresholdDissat j => N.eqb i j
  | ThresholdNonUnit i, ThresholdNonUnit j => N.eqb i j
  | _, _ => false
  end.
Definition res_eqb {A} (f : A -> A -> bool) (a b : res A) : bool :=
  match a, b with ROk x, ROk y => f x y | RErr x, RErr y => errk_eqb x y | _, _ => false end.

(* ---- subtyping (is_subtype) ---- *)
Definition input_subtype (a b : input) : bool :=
  if input_eqb a b then true else
  match a, b with
  | IOneNonZero, IOne | IOneNonZero, IAnyNonZero | _, IAny => true
  | _, _ => false end.
Definition ble (a b : bool) : bool := implb a b.  (* a <= b *)
Definition corr_subtype (a b : corr) : bool :=
  base_eqb (c_base a) (c_base b) && input_subtype (c_input a) (c_input b)
  && ble (c_dissat b) (c_dissat a) && ble (c_unit b) (c_unit a).
Definition dissat_subtype (a b : dissat) : bool :=
  if dissat_eqb a b then true else match b with DUnknown => true | _ => false end.
Definition mall_subtype (a b : mall) : bool :=
  dissat_subtype (m_dissat a) (m_dissat b) && ble (m_signed b) (m_signed a) && ble (m_nm b) (m_nm a).
Definition ty_subtype (a b : ty) : bool := corr_subtype (t_corr a) (t_corr b) && mall_subtype (t_mall a) (t_mall b).

(* ---- Correctness: leaves ---- *)
Definition c_true := mkCorr BB IZero false true.
Definition c_false := mkCorr BB IZero true true.
Definition c_pk_k := mkCorr BK IOneNonZero true true.
Definition c_pk_h := mkCorr BK IAnyNonZero true true.
Definition c_multi := mkCorr BB IAnyNonZero true true.
Definition c_sortedmulti := mkCorr BB IAnyNonZero true true.
Definition c_multi_a := mkCorr BB IAny true true.
Definition c_sortedmulti_a := mkCorr BB IAny true true.
Definition c_hash := mkCorr BB IOneNonZero true true.
Definition c_time := mkCorr BB IZero false false.

(* ---- Correctness: casts ---- *)
Definition c_cast_alt (s : corr) : res corr :=
  match c_base s with
  | BB => ROk (mkCorr BW IAny (c_dissat s) (c_unit s))
  | x => RErr (ChildBase1 x) end.
Definition c_cast_swap (s : corr) : res corr :=
  match c_base s with
  | BB => match c_input s with
          | IOne | IOneNonZero => ROk (mkCorr BW IAny (c_dissat s) (c_unit s))
          | _ => RErr SwapNonOne end
  | x => RErr (ChildBase1 x) end.
Definition c_cast_check (s : corr) : res corr :=
  match c_base s with
  | BK => ROk (mkCorr BB (c_input s) (c_dissat s) true)
  | x => RErr (ChildBase1 x) end.
Definition c_cast_dupif (s : corr) : res corr :=
  match c_base s with
  | BV => match c_input s with
          | IZero => ROk (mkCorr BB IOneNonZero true false)
          | _ => RErr NonZeroDupIf end
  | x => RErr (ChildBase1 x) end.
Definition c_cast_verify (s : corr) : res corr :=
  match c_base s with
  | BB => ROk (mkCorr BV (c_input s) false false)
  | x => RErr (ChildBase1 x) end.
Definition c_cast_nonzero (s : corr) : res corr :=
  if negb (input_eqb (c_input s) IOneNonZero) && negb (input_eqb (c_input s) IAnyNonZero)
  then RErr NonZeroZero else
  match c_base s with
  | BB => ROk (mkCorr BB (c_input s) true (c_unit s))
  | x => RErr (ChildBase1 x) end.
Definition c_cast_zeronotequal (s : corr) : res corr :=
  match c_base s with
  | BB => ROk (mkCorr BB (c_input s) (c_dissat s) true)
  | x => RErr (ChildBase1 x) end.
Definition c_cast_true (s : corr) : res corr :=
  match c_base s with
  | BV => ROk (mkCorr BB (c_input s) false true)
  | x => RErr (ChildBase1 x) end.
Definition c_cast_or_i_false (s : corr) : res corr :=
  match c_base s with
  | BB => ROk (mkCorr BB (match c_input s with IZero => IOne | _ => IAny end) true (c_unit s))
  | x => RErr (ChildBase1 x) end.

(* ---- Correctness: binary / ternary ---- *)
Definition and_input (l r : input) : input :=
  match l, r with
  | IZero, IZero => IZero
  | IZero, IOne | IOne, IZero => IOne
  | IZero, IOneNonZero | IOneNonZero, IZero => IOneNonZero
  | IOneNonZero, _ | IAnyNonZero, _ | IZero, IAnyNonZero => IAnyNonZero
  | _, _ => IAny end.
Definition c_and_b (l r : corr) : res corr :=
  match c_base l, c_base r with
  | BB, BW => ROk (mkCorr BB (and_input (c_input l) (c_input r)) (c_dissat l && c_dissat r) true)
  | x, y => RErr (ChildBase2 x y) end.
Definition c_and_v (l r : corr) : res corr :=
  match c_base l, c_base r with
  | BV, BB => ROk (mkCorr BB (and_input (c_input l) (c_input r)) false (c_unit r))
  | BV, BK => ROk (mkCorr BK (and_input (c_input l) (c_input r)) false (c_unit r))
  | BV, BV => ROk (mkCorr BV (and_input (c_input l) (c_input r)) false (c_unit r))
  | x, y => RErr (ChildBase2 x y) end.
Definition c_or_b (l r : corr) : res corr :=
  if negb (c_dissat l) then RErr LeftNotDissatisfiable else
  if negb (c_dissat r) then RErr RightNotDissatisfiable else
  match c_base l, c_base r with
  | BB, BW => ROk (mkCorr BB
      (match c_input l, c_input r with
       | IZero, IZero => IZero
       | IZero, IOne | IOne, IZero | IZero, IOneNonZero | IOneNonZero, IZero => IOne
       | _, _ => IAny end) true true)
  | x, y => RErr (ChildBase2 x y) end.
Definition or_dc_input (l r : input) : input :=
  match l, r with
  | IZero, IZero => IZero
  | IOne, IZero | IOneNonZero, IZero => IOne
  | _, _ => IAny end.
Definition c_or_d (l r : corr) : res corr :=
  if negb (c_dissat l) then RErr LeftNotDissatisfiable else
  if negb (c_unit l) then RErr LeftNotUnit else
  match c_base l, c_base r with
  | BB, BB => ROk (mkCorr BB (or_dc_input (c_input l) (c_input r)) (c_dissat r) (c_unit r))
  | x, y => RErr (ChildBase2 x y) end.
Definition c_or_c (l r : corr) : res corr :=
  if negb (c_dissat l) then RErr LeftNotDissatisfiable else
  if negb (c_unit l) then RErr LeftNotUnit else
  match c_base l, c_base r with
  | BB, BV => ROk (mkCorr BV (or_dc_input (c_input l) (c_input r)) false false)
  | x, y => RErr (ChildBase2 x y) end.
Definition c_or_i (l r : corr) : res corr :=
  let inp := match c_input l, c_input r with IZero, IZero => IOne | _, _ => IAny end in
  let d := c_dissat l || c_dissat r in
  let u := c_unit l && c_unit r in
  match c_base l, c_base r with
  | BB, BB => ROk (mkCorr BB inp d u)
  | BV, BV => ROk (mkCorr BV inp d u)
  | BK, BK => ROk (mkCorr BK inp d u)
  | x, y => RErr (ChildBase2 x y) end.
Definition c_and_or (a b c : corr) : res corr :=
  if negb (c_dissat a) then RErr LeftNotDissatisfiable else
  if negb (c_unit a) then RErr LeftNotUnit else
  let inp := match c_input a, c_input b, c_input c with
    | IZero, IZero, IZero => IZero
    | IZero, IOne, IOne | IZero, IOne, IOneNonZero | IZero, IOneNonZero, IOne
    | IZero, IOneNonZero, IOneNonZero | IOne, IZero, IZero | IOneNonZero, IZero, IZero => IOne
    | _, _, _ => IAny end in
  let d := c_dissat c in
  let u := c_unit b && c_unit c in
  match c_base a, c_base b, c_base c with
  | BB, BB, BB => ROk (mkCorr BB inp d u)
  | BB, BK, BK => ROk (mkCorr BK inp d u)
  | BB, BV, BV => ROk (mkCorr BV inp d u)
  | x, y, z => RErr (ChildBase3 x y z) end.

(* threshold: a left-to-right loop with early return; num_args accumulates *)
Fixpoint c_thresh_loop (i : N) (num_args : N) (subs : list corr) : res N :=
  match subs with
  | [] => ROk num_args
  | s :: rest =>
    let num_args' := (num_args + match c_input s with
                                 | IZero => 0 | IOne | IOneNonZero => 1 | IAny | IAnyNonZero => 2 end)%N in
    if (N.eqb i 0) && negb (base_eqb (c_base s) BB) then RErr (ThresholdBase i (c_base s)) else
    if negb (N.eqb i 0) && negb (base_eqb (c_base s) BW) then RErr (ThresholdBase i (c_base s)) else
    if negb (c_unit s) then RErr (ThresholdNonUnit i) else
    if negb (c_dissat s) then RErr (ThresholdDissat i) else
    c_thresh_loop (i + 1) num_args' rest
  end.
Definition c_threshold (k : N) (subs : list corr) : res corr :=
  match c_thresh_loop 0 0 subs with
  | RErr e => RErr e
  | ROk n => ROk (mkCorr BB (match n with 0%N => IZero | 1%N => IOne | _ => IAny end) true true)
  end.

(* ---- Malleability ---- *)
Definition m_true := mkMall DNone false true.
Definition m_false := mkMall DUnique true true.
Definition m_pk_k := mkMall DUnique true true.
Definition m_pk_h := mkMall DUnique true true.
Definition m_multi := mkMall DUnique true true.
Definition m_sortedmulti := mkMall DUnique true true.
Definition m_multi_a := mkMall DUnique true true.
Definition m_sortedmulti_a := mkMall DUnique true true.
Definition m_hash := mkMall DUnknown false true.
Definition m_time := mkMall DNone false true.

Definition m_cast_alt (s : mall) := s.
Definition m_cast_swap (s : mall) := s.
Definition m_cast_check (s : mall) := s.
Definition none_to_unique (d : dissat) : dissat := match d with DNone => DUnique | _ => DUnknown end.
Definition m_cast_dupif (s : mall) := mkMall (none_to_unique (m_dissat s)) (m_signed s) (m_nm s).
Definition m_cast_verify (s : mall) := mkMall DNone (m_signed s) (m_nm s).
Definition m_cast_nonzero (s : mall) := mkMall (none_to_unique (m_dissat s)) (m_signed s) (m_nm s).
Definition m_cast_zeronotequal (s : mall) := s.
Definition m_cast_true (s : mall) := mkMall DNone (m_signed s) (m_nm s).
Definition m_cast_or_i_false (s : mall) := mkMall (none_to_unique (m_dissat s)) (m_signed s) (m_nm s).

Definition m_and_b (l r : mall) : mall :=
  mkMall
    (match m_dissat l, m_dissat r with
     | DNone, DNone => DNone
     | dl, dr =>
       if dissat_eqb dl DNone && m_signed l then DNone else
       if dissat_eqb dr DNone && m_signed r then DNone else
       match dl, dr with
       | DUnique, DUnique => if m_signed l && m_signed r then DUnique else DUnknown
       | _, _ => DUnknown end
     end)
    (m_signed l || m_signed r) (m_nm l && m_nm r).
Definition m_and_v (l r : mall) : mall :=
  mkMall
    (match m_signed l, m_dissat r with
     | _, DNone => DNone
     | true, _ => DNone
     | _, _ => DUnknown end)
    (m_signed l || m_signed r) (m_nm l && m_nm r).
Definition m_or_b (l r : mall) : mall :=
  mkMall DUnique (m_signed l && m_signed r)
    (m_nm l && dissat_eqb (m_dissat l) DUnique && m_nm r && dissat_eqb (m_dissat r) DUnique
     && (m_signed l || m_signed r)).
Definition m_or_d (l r : mall) : mall :=
  mkMall (m_dissat r) (m_signed l && m_signed r)
    (m_nm l && dissat_eqb (m_dissat l) DUnique && m_nm r && (m_signed l || m_signed r)).
Definition m_or_c (l r : mall) : mall :=
  mkMall DNone (m_signed l && m_signed r)
    (m_nm l && dissat_eqb (m_dissat l) DUnique && m_nm r && (m_signed l || m_signed r)).
Definition m_or_i (l r : mall) : mall :=
  mkMall
    (match m_dissat l, m_dissat r with
     | DNone, DNone => DNone
     | DUnique, DNone => DUnique
     | DNone, DUnique => DUnique
     | _, _ => DUnknown end)
    (m_signed l && m_signed r) (m_nm l && m_nm r && (m_signed l || m_signed r)).
Definition m_and_or (a b c : mall) : mall :=
  mkMall
    (match m_signed a, m_dissat b, m_dissat c with
     | _, DNone, DUnique => DUnique
     | true, _, DUnique => DUnique
     | _, DNone, DNone => DNone
     | true, _, DNone => DNone
     | _, _, _ => DUnknown end)
    ((m_signed a || m_signed b) && m_signed c)
    (m_nm a && m_nm c && dissat_eqb (m_dissat a) DUnique && m_nm b
     && (m_signed a || m_signed b || m_signed c)).

(* threshold: n - k is usize subtraction; the public function is only called with
   1 <= k <= n (Threshold invariant), the model uses truncated subtraction and the
   theorems carry the guard.  [signed_count > n - k], [signed_count >= n - k]. *)
Fixpoint m_thresh_loop (subs : list mall) (signed_count : N) (all_du all_nm : bool) : N * bool * bool :=
  match subs with
  | [] => (signed_count, all_du, all_nm)
  | s :: rest =>
    m_thresh_loop rest (signed_count + (if m_signed s then 1 else 0))%N
      (all_du && dissat_eqb (m_dissat s) DUnique) (all_nm && m_nm s)
  end.
Definition m_threshold (k : N) (subs : list mall) : mall :=
  let n := N.of_nat (length subs) in
  match m_thresh_loop subs 0 true true with
  | (sc, all_du, all_nm) =>
    mkMall (if all_du && N.eqb sc n then DUnique else DUnknown)
           (N.ltb (n - k) sc)
           (all_nm && N.leb (n - k) sc && all_du)
  end.

(* ---- Type = pair ---- *)
Definition lift1 (fc : corr -> res corr) (fm : mall -> mall) (t : ty) : res ty :=
  match fc (t_corr t) with ROk c => ROk (mkTy c (fm (t_mall t))) | RErr e => RErr e end.
Definition lift2 (fc : corr -> corr -> res corr) (fm : mall -> mall -> mall) (l r : ty) : res ty :=
  match fc (t_corr l) (t_corr r) with
  | ROk c => ROk (mkTy c (fm (t_mall l) (t_mall r))) | RErr e => RErr e end.

Definition t_true := mkTy c_true m_true.
Definition t_false := mkTy c_false m_false.
Definition t_pk_k := mkTy c_pk_k m_pk_k.
Definition t_pk_h := mkTy c_pk_h m_pk_h.
Definition t_multi := mkTy c_multi m_multi.
Definition t_sortedmulti := mkTy c_sortedmulti m_sortedmulti.
Definition t_multi_a := mkTy c_multi_a m_multi_a.
Definition t_sortedmulti_a := mkTy c_sortedmulti_a m_sortedmulti_a.
Definition t_hash := mkTy c_hash m_hash.
Definition t_time := mkTy c_time m_time.

Definition t_cast_alt := lift1 c_cast_alt m_cast_alt.
Definition t_cast_swap := lift1 c_cast_swap m_cast_swap.
Definition t_cast_check := lift1 c_cast_check m_cast_check.
Definition t_cast_dupif := lift1 c_cast_dupif m_cast_dupif.
Definition t_cast_verify := lift1 c_cast_verify m_cast_verify.
Definition t_cast_nonzero := lift1 c_cast_nonzero m_cast_nonzero.
Definition t_cast_zeronotequal := lift1 c_cast_zeronotequal m_cast_zeronotequal.
Definition t_cast_true := lift1 c_cast_true m_cast_true.
Definition t_cast_unlikely := lift1 c_cast_or_i_false m_cast_or_i_false.
Definition t_cast_likely := lift1 c_cast_or_i_false m_cast_or_i_false.
Definition t_and_b := lift2 c_and_b m_and_b.
Definition t_and_v := lift2 c_and_v m_and_v.
Definition t_or_b := lift2 c_or_b m_or_b.
Definition t_or_d := lift2 c_or_d m_or_d.
Definition t_or_c := lift2 c_or_c m_or_c.
Definition t_or_i := lift2 c_or_i m_or_i.
Definition t_and_or (a b c : ty) : res ty :=
  match c_and_or (t_corr a) (t_corr b) (t_corr c) with
  | ROk x => ROk (mkTy x (m_and_or (t_mall a) (t_mall b) (t_mall c))) | RErr e => RErr e end.
Definition t_threshold (k : N) (subs : list ty) : res ty :=
  match c_threshold k (map t_corr subs) with
  | ROk x => ROk (mkTy x (m_threshold k (map t_mall subs))) | RErr e => RErr e end.

(* ---- complete enumerations of the finite domains ---- *)
Definition all_base := [BB; BK; BV; BW].
Definition all_input := [IZero; IOne; IAny; IOneNonZero; IAnyNonZero].
Definition all_bool := [false; true].
Definition all_dissat := [DNone; DUnique; DUnknown].
Definition all_corr : list corr :=
  flat_map (fun b => flat_map (fun i => flat_map (fun d => map (fun u => mkCorr b i d u) all_bool) all_bool) all_input) all_base.
Definition all_mall : list mall :=
  flat_map (fun d => flat_map (fun s => map (fun m => mkMall d s m) all_bool) all_bool) all_dissat.
Definition all_ty : list ty := flat_map (fun c => map (fun m => mkTy c m) all_mall) all_corr.
