(* Type of an AST: mirror of Type::type_check applied bottom-up (from_ast on every node). *)
From Verif Require Export Ast Types.

Definition rbind {A B} (r : res A) (f : A -> res B) : res B :=
  match r with ROk a => f a | RErr e => RErr e end.

Fixpoint type_of (m : ms) : res ty :=
  match m with
  | MTrue => ROk t_true
  | MFalse => ROk t_false
  | MPkK _ => ROk t_pk_k
  | MPkH _ | MRawPkH _ => ROk t_pk_h
  | MAfter _ | MOlder _ => ROk t_time
  | MSha256 _ | MHash256 _ | MRipemd160 _ | MHash160 _ => ROk t_hash
  | MMulti _ _ => ROk t_multi
  | MSortedMulti _ _ => ROk t_sortedmulti
  | MMultiA _ _ => ROk t_multi_a
  | MSortedMultiA _ _ => ROk t_sortedmulti_a
  | MAlt x => rbind (type_of x) t_cast_alt
  | MSwap x => rbind (type_of x) t_cast_swap
  | MCheck x => rbind (type_of x) t_cast_check
  | MDupIf x => rbind (type_of x) t_cast_dupif
  | MVerify x => rbind (type_of x) t_cast_verify
  | MNonZero x => rbind (type_of x) t_cast_nonzero
  | MZeroNotEqual x => rbind (type_of x) t_cast_zeronotequal
  | MAndV x y => rbind (type_of x) (fun a => rbind (type_of y) (t_and_v a))
  | MAndB x y => rbind (type_of x) (fun a => rbind (type_of y) (t_and_b a))
  | MOrB x y => rbind (type_of x) (fun a => rbind (type_of y) (t_or_b a))
  | MOrD x y => rbind (type_of x) (fun a => rbind (type_of y) (t_or_d a))
  | MOrC x y => rbind (type_of x) (fun a => rbind (type_of y) (t_or_c a))
  | MOrI x y => rbind (type_of x) (fun a => rbind (type_of y) (t_or_i a))
  | MAndOr a b c =>
    rbind (type_of a) (fun ta => rbind (type_of b) (fun tb => rbind (type_of c) (t_and_or ta tb)))
  | MThresh k xs =>
    let tys := (fix go (l : list ms) : res (list ty) :=
                  match l with
                  | [] => ROk []
                  | x :: r => rbind (type_of x) (fun t => rbind (go r) (fun ts => ROk (t :: ts)))
                  end) xs in
    rbind tys (t_threshold k)
  end.

(* Threshold invariants enforced by the constructors (Threshold::new with MAX) *)
Definition thresh_ok (k : N) (n : nat) (max : N) : bool :=
  N.leb 1 k && N.leb k (N.of_nat n) && (N.eqb max 0 || N.leb (N.of_nat n) max).

Definition base_of (m : ms) : option base :=
  match type_of m with ROk t => Some (c_base (t_corr t)) | RErr _ => None end.
