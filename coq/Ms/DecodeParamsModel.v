(* Model of Miniscript::decode_with_validation_params(script, params) for EVERY ValidationParams
   (src/miniscript/mod.rs), composing the two existing models in the code's order:

     let tokens = lex(script)?;                       LexModel.lex
     let top = decode::decode(&mut iter)?;            DecodeModel.parse
     Ctx::check_global_validity(&top)?;               CodecExt.gv (top node only)
     types::Type::type_check(&top.node)?;             TypeCheck.type_of
     if let Some(..) = iter.next() { Err(Trailing) }  unread tokens
     else { top.validate(params).map_err(Error::Validation)?; Ok(top) }      ValidateModel.validate

   and decode_consensus = params Ctx::CONSENSUS, decode = params Ctx::SANE.

   ValidateModel.validate is a function of an abstract record of facts (`summary`).  Here the
   facts are COMPUTED from the decoded AST by the existing models ([facts_of]):
     ty.corr.base, ty.mall.{non_malleable, signed}        TypeCheck.type_of
     ext.tree_height, ext.sat_data, ext.timelock_info     ExtModel.ext_of (the code that exists)
     script_size()                                        CodecExt.script_size (C04)
     self.iter() with the keys of each node               [nodes_of] below (Iter: pre-order, children
                                                          left to right; get_nth_pk: PkK, PkH and the
                                                          four multi kinds)
     ext.pk_cost of each node                             CodecExt.pk_cost (only check_global_* reads it)
   Keys of a decoded script are bitcoin::PublicKey (Bare / Legacy / Segwitv0) or XOnlyPublicKey
   (Tap): is_x_only_key = the context is Tap, is_uncompressed = the 65-byte form (never for an
   x-only key), num_der_paths = 0 (the trait default), `==` = same key value = same index of the
   abstract key table.  No proofs in this file. *)
From Verif Require Import DecodeModel ExtModel ValidateModel.
Local Open Scope N_scope.

Definition vctx_of (c : Ast.ctx) : ValidateModel.ctx :=
  match c with Bare => CBare | Legacy => CLegacy | Segwitv0 => CSegwitv0 | Tap => CTap end.

(* what ExtData's rules ask of the context (same reading as Proofs/ExtCodec.xctx_of) *)
Definition dp_xctx (c : Ast.ctx) (ke : keyenv) : ExtModel.xctx :=
  ExtModel.mkXctx (is_tap c) (CodecExt.is_uncompressed ke) (CodecExt.pk_len c ke).

Definition keyinfo_of (c : Ast.ctx) (ke : keyenv) (k : key) : keyinfo :=
  mkKey k (negb (is_tap c) && CodecExt.is_uncompressed ke k) (is_tap c) 0.

(* self.iter(): the node itself, then its children left to right, each with the same rule *)
Fixpoint nodes_of (c : Ast.ctx) (ke : keyenv) (m : ms) : list node :=
  let nd (k : nkind) (ks : list key) := mkNode k (map (keyinfo_of c ke) ks) (CodecExt.pk_cost c ke m) in
  match m with
  | MTrue | MFalse | MAfter _ | MOlder _
  | MSha256 _ | MHash256 _ | MRipemd160 _ | MHash160 _ => [nd KOther []]
  | MPkK k => [nd KPkK [k]]
  | MPkH k => [nd KPkH [k]]
  | MRawPkH _ => [nd KRawPkH []]
  | MMulti _ ks => [nd KMulti ks]
  | MSortedMulti _ ks => [nd KSortedMulti ks]
  | MMultiA _ ks => [nd KMultiA ks]
  | MSortedMultiA _ ks => [nd KSortedMultiA ks]
  | MCheck x => nd KCheck [] :: nodes_of c ke x
  | MDupIf x => nd KDupIf [] :: nodes_of c ke x
  | MAlt x | MSwap x | MVerify x | MNonZero x | MZeroNotEqual x => nd KOther [] :: nodes_of c ke x
  | MOrI x y => nd KOrI [] :: nodes_of c ke x ++ nodes_of c ke y
  | MAndV x y | MAndB x y | MOrB x y | MOrD x y | MOrC x y =>
    nd KOther [] :: nodes_of c ke x ++ nodes_of c ke y
  | MAndOr x y z => nd KOther [] :: nodes_of c ke x ++ nodes_of c ke y ++ nodes_of c ke z
  | MThresh _ xs =>
    nd KOther [] :: (fix go (l : list ms) : list node :=
                       match l with [] => [] | x :: r => nodes_of c ke x ++ go r end) xs
  end.

(* ext.sat_data as validate reads it: witness count, static_ops + max_exec_op_count, exec stack *)
Definition satfig_of (x : ExtModel.ext) : option satfig :=
  option_map (fun d => mkSat (sd_wcount d) (ExtModel.static_ops x + sd_eops d) (sd_estack d))
             (ExtModel.sat_data x).

(* the facts `validate` consults, computed from the AST.  [type_of] cannot fail on a decoded
   script (the decoder type-checked it); the RErr arm is a placeholder that is never reached
   by [decode_with]. *)
Definition facts_of (c : Ast.ctx) (ke : keyenv) (m : ms) : summary :=
  let x := ExtModel.ext_of (dp_xctx c ke) m in
  let '(b, nm, sg) :=
    match type_of m with
    | ROk t => (c_base (t_corr t), m_nm (t_mall t), m_signed (t_mall t))
    | RErr _ => (BW, false, false)
    end in
  mkSum b nm sg (ExtModel.tree_height x) (tl_comb (ExtModel.timelock_info x))
        (nodes_of c ke m) (CodecExt.script_size c ke m) (satfig_of x).

(* Error = the decoder's own classes (DecodeModel.derr) or Error::Validation(..) *)
Inductive dpres :=
| DpOk (m : ms)
| DpErr (e : derr)                  (* lexer / parser / from_ast / context / type / trailing *)
| DpInvalid (e : verr)              (* Error::Validation(e) *)
| DpPanic (site : N)
| DpFuel.

(* Miniscript::decode_with_validation_params::<Ctx>(script, params) *)
Definition decode_with (e : denv) (p : vparams) (b : bytes) : dpres :=
  match lex b with
  | LexErr le => DpErr (DeLex le)
  | LexOk toks =>
    match parse e toks with
    | OOk (m, rest) =>
      match gv (d_ctx e) (d_ke e) m with
      | Some c => DpErr (DeContextError c)
      | None =>
        match type_of m with
        | RErr _ => DpErr DeTypeCheck
        | ROk _ =>
          match rest with
          | _ :: _ => DpErr DeTrailing
          | [] =>
            match validate p (facts_of (d_ctx e) (d_ke e) m) with
            | VErr v => DpInvalid v
            | VOk => DpOk m
            end
          end
        end
      end
    | OErr err => DpErr err
    | OPanic n => DpPanic n
    | OFuel => DpFuel
    end
  end.

(* Miniscript::decode_consensus / Miniscript::decode *)
Definition decode_consensus (e : denv) : bytes -> dpres :=
  decode_with e (ctx_consensus (vctx_of (d_ctx e))).
Definition decode_sane (e : denv) : bytes -> dpres :=
  decode_with e (ctx_sane (vctx_of (d_ctx e))).

(* numeric codes of the validation error classes (tools/props/c04_decparams.py uses the same table) *)
Definition verr_code (e : verr) : N :=
  match e with
  | EDuplicateKeys => 50 | EIllegalDupIf => 51 | EIllegalMulti => 52 | EIllegalMultiA => 53
  | EIllegalOrI => 54 | EIllegalRawPkh => 55 | EMalleable => 56 | EMaxOpCount => 57
  | EMaxScriptSize => 58 | EMaxWitnessItems => 59 | EMaxExecStack => 60 | EMaxRecursiveDepth => 61
  | EMixedTimeLocks => 62 | EMultipathLenMismatch => 63 | ENonBase _ => 64 | ESiglessBranch => 65
  | EKeyCompressed => 66 | EKeyUncompressed => 67 | EKeyXOnly => 68 | EUnsatisfiable => 69
  end.
