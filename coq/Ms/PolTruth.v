(* Specification side of C18: truth-table semantics of policies.

   Two layers.
   * [evalA rho p]: every distinct leaf (key, hash, after(t), older(t)) is an independent
     propositional atom valued by [rho]; a threshold holds when at least k children hold.
     This is the truth table the entailment procedure and the normalizer work with.
   * [eval w p]: a world gives the set of keys that sign, the hashes whose preimage is
     known, the age of the spent output and the lock time of the spending transaction;
     [older(t)] holds when the age is of the same unit (blocks / 512 s intervals) and at
     least t's value (BIP 68/112), [after(t)] likewise for nLockTime (BIP 65).
     [eval w] is [evalA] at the valuation induced by the world.

   Also: what "a satisfying path" of a concrete policy is (choose exactly k children of
   every threshold, all children of an and, one child of an or) and when a path mixes a
   height-based and a time-based lock of the same kind.  Definitions only. *)
From Coq Require Import List NArith Bool Arith.
Import ListNotations.
From Verif Require Import PolSemantic PolConcrete.

Definition count_true (l : list bool) : nat := length (filter (fun b => b) l).

Fixpoint evalA (rho : spol -> bool) (p : spol) : bool :=
  match p with
  | SUnsat => false
  | STriv => true
  | SThresh k subs => k <=? count_true (map (evalA rho) subs)
  | leaf => rho leaf
  end.

(* BIP 68/112 and BIP 65 in the specification's own words *)
Definition csv_ok (t : N) (age : rel_lt) : bool :=
  let time_flag := N.testbit t 22 in
  let v := (t mod 65536)%N in
  match age with
  | RBlocks a => negb time_flag && (v <=? a)%N
  | RTime a => time_flag && (v <=? a)%N
  end.
Definition cltv_ok (t : N) (n : abs_lt) : bool :=
  match n with
  | ABlocks h => (t <? 500000000)%N && (t <=? h)%N
  | ASeconds s => (500000000 <=? t)%N && (t <=? s)%N
  end.

Record world := mkWorld {
  w_key : N -> bool; w_sha256 : N -> bool; w_hash256 : N -> bool;
  w_ripemd160 : N -> bool; w_hash160 : N -> bool;
  w_age : rel_lt; w_lock : abs_lt }.

Definition leaf_truth (w : world) (l : spol) : bool :=
  match l with
  | SKey k => w_key w k
  | SAfter t => cltv_ok t (w_lock w)
  | SOlder t => csv_ok t (w_age w)
  | SSha256 h => w_sha256 w h
  | SHash256 h => w_hash256 w h
  | SRipemd160 h => w_ripemd160 w h
  | SHash160 h => w_hash160 w h
  | _ => false
  end.
Definition eval (w : world) (p : spol) : bool := evalA (leaf_truth w) p.

Definition with_age (w : world) (a : rel_lt) : world :=
  mkWorld (w_key w) (w_sha256 w) (w_hash256 w) (w_ripemd160 w) (w_hash160 w) a (w_lock w).
Definition with_lock (w : world) (n : abs_lt) : world :=
  mkWorld (w_key w) (w_sha256 w) (w_hash256 w) (w_ripemd160 w) (w_hash160 w) (w_age w) n.

(* a valuation in which the relative (absolute) locks not passable at [age] ([n]) are off *)
Definition restrict_age (age : rel_lt) (rho : spol -> bool) : spol -> bool :=
  fun l => match l with SOlder t => rho l && csv_ok t age | _ => rho l end.
Definition restrict_lock (n : abs_lt) (rho : spol -> bool) : spol -> bool :=
  fun l => match l with SAfter t => rho l && cltv_ok t n | _ => rho l end.

(* entailment *)
Definition implies (p q : spol) : Prop := forall rho, evalA rho p = true -> evalA rho q = true.

(* number of signatures an assignment uses: distinct keys of p that are on *)
Fixpoint keys_of (p : spol) : list N :=
  match p with
  | SKey k => [k]
  | SThresh _ subs => flat_map keys_of subs
  | _ => []
  end.
Fixpoint dedupN (l : list N) : list N :=
  match l with
  | [] => []
  | x :: r => if existsb (N.eqb x) r then dedupN r else x :: dedupN r
  end.
Definition sigcount (rho : spol -> bool) (p : spol) : nat :=
  length (filter (fun k => rho (SKey k)) (dedupN (keys_of p))).

(* "r is the fewest signatures in any satisfying assignment (None: there is none)" *)
Definition is_min_sigs (p : spol) (r : option nat) : Prop :=
  match r with
  | None => forall rho, evalA rho p = false
  | Some m => (exists rho, evalA rho p = true /\ sigcount rho p = m) /\
              (forall rho, evalA rho p = true -> m <= sigcount rho p)
  end.

(* concrete policies: the atom of a concrete leaf is the corresponding semantic leaf *)
Fixpoint evalC (rho : spol -> bool) (p : cpol) : bool :=
  match p with
  | CUnsat => false
  | CTriv => true
  | CKey k => rho (SKey k)
  | CAfter t => rho (SAfter t)
  | COlder t => rho (SOlder t)
  | CSha256 h => rho (SSha256 h)
  | CHash256 h => rho (SHash256 h)
  | CRipemd160 h => rho (SRipemd160 h)
  | CHash160 h => rho (SHash160 h)
  | CAnd subs => forallb (evalC rho) subs
  | COr subs => existsb (evalC rho) subs
  | CThresh k subs => k <=? count_true (map (evalC rho) subs)
  end.

(* satisfying paths: the multiset of leaves used by one way of satisfying the policy *)
Definition path := list spol.

(* choose exactly k of the children (given by their path sets), one path in each *)
Fixpoint kpaths (k : nat) (cs : list (list path)) : list path :=
  match k with
  | O => [[]]
  | S k' =>
      match cs with
      | [] => []
      | c :: rest =>
          flat_map (fun pi => map (fun r => pi ++ r) (kpaths k' rest)) c ++ kpaths (S k') rest
      end
  end.

Fixpoint paths (p : cpol) : list path :=
  match p with
  | CUnsat => []
  | CTriv => [[]]
  | CKey k => [[SKey k]]
  | CAfter t => [[SAfter t]]
  | COlder t => [[SOlder t]]
  | CSha256 h => [[SSha256 h]]
  | CHash256 h => [[SHash256 h]]
  | CRipemd160 h => [[SRipemd160 h]]
  | CHash160 h => [[SHash160 h]]
  | CAnd subs => kpaths (length subs) (map paths subs)
  | COr subs => kpaths 1 (map paths subs)
  | CThresh k subs => kpaths k (map paths subs)
  end.

(* the leaves of a concrete policy, as atoms *)
Fixpoint cleaves_of (c : cpol) : list spol :=
  match c with
  | CUnsat | CTriv => []
  | CKey k => [SKey k] | CAfter t => [SAfter t] | COlder t => [SOlder t]
  | CSha256 h => [SSha256 h] | CHash256 h => [SHash256 h]
  | CRipemd160 h => [SRipemd160 h] | CHash160 h => [SHash160 h]
  | CAnd subs | COr subs | CThresh _ subs => flat_map cleaves_of subs
  end.

(* lock kinds of a leaf (BIP 68 type flag / BIP 65 threshold) *)
Definition leaf_csv_h (l : spol) : bool :=
  match l with SOlder t => negb (N.testbit t 31) && negb (N.testbit t 22) | _ => false end.
Definition leaf_csv_t (l : spol) : bool :=
  match l with SOlder t => negb (N.testbit t 31) && N.testbit t 22 | _ => false end.
Definition leaf_cltv_h (l : spol) : bool :=
  match l with SAfter t => (t <? 500000000)%N | _ => false end.
Definition leaf_cltv_t (l : spol) : bool :=
  match l with SAfter t => negb (t <? 500000000)%N | _ => false end.

(* the path needs a height-based and a time-based lock of the same kind *)
Definition path_mixes (pi : path) : bool :=
  (existsb leaf_csv_h pi && existsb leaf_csv_t pi) ||
  (existsb leaf_cltv_h pi && existsb leaf_cltv_t pi).
Definition has_mixed_path (p : cpol) : Prop :=
  exists pi, In pi (paths p) /\ path_mixes pi = true.

(* the normal form normalized() is meant to produce: no constants below the root, at least
   two children per threshold, 1 <= k <= n, no and directly under an and, no or directly
   under an or *)
Definition is_and_node (s : spol) : bool := match s with SThresh k l => k =? length l | _ => false end.
Definition is_or_node (s : spol) : bool := match s with SThresh k _ => k =? 1 | _ => false end.
Fixpoint is_normal (p : spol) : bool :=
  match p with
  | SThresh k subs =>
      (2 <=? length subs) && (1 <=? k) && (k <=? length subs)
      && forallb (fun s => negb (is_const s)) subs
      && (if k =? length subs then forallb (fun s => negb (is_and_node s)) subs else true)
      && (if k =? 1 then forallb (fun s => negb (is_or_node s)) subs else true)
      && forallb is_normal subs
  | _ => true
  end.
(* no Trivial/Unsatisfiable below the root *)
Fixpoint no_inner_const (p : spol) : bool :=
  match p with
  | SThresh _ subs => forallb (fun s => negb (is_const s) && no_inner_const s) subs
  | _ => true
  end.

(* ------------------------------------------------------------------------------------
   Executable forms used by the per-run oracle (Tables/PolicyCasesCheck.v): the truth
   table of a policy over its own leaves.  PolSemanticProofs shows that they decide the
   propositions above. *)
Fixpoint leaves_of (p : spol) : list spol :=
  match p with
  | SUnsat | STriv => []
  | SThresh _ subs => flat_map leaves_of subs
  | leaf => [leaf]
  end.
Fixpoint dedupS (l : list spol) : list spol :=
  match l with
  | [] => []
  | x :: r => if existsb (spol_eqb x) r then dedupS r else x :: dedupS r
  end.
(* the valuation that makes exactly the listed leaves true *)
Definition rho_of (on : list spol) : spol -> bool := fun l => existsb (spol_eqb l) on.
Fixpoint sublists {A} (l : list A) : list (list A) :=
  match l with
  | [] => [[]]
  | x :: r => let s := sublists r in map (cons x) s ++ s
  end.
Definition assignments (atoms : list spol) : list (list spol) := sublists (dedupS atoms).

Definition equiv_on (atoms : list spol) (f g : (spol -> bool) -> bool) : option (list spol) :=
  find (fun on => negb (Bool.eqb (f (rho_of on)) (g (rho_of on)))) (assignments atoms).
Definition implies_b (p q : spol) : bool :=
  forallb (fun on => implb (evalA (rho_of on) p) (evalA (rho_of on) q))
          (assignments (leaves_of p ++ leaves_of q)).
Definition min_sigs_b (p : spol) : option nat :=
  fold_left (fun best on =>
               if evalA (rho_of on) p then
                 let c := sigcount (rho_of on) p in
                 match best with None => Some c | Some b => Some (Nat.min b c) end
               else best)
            (assignments (leaves_of p)) None.
Definition mixed_b (p : cpol) : bool := existsb path_mixes (paths p).

(* a counter-assignment (the leaves that are on) or None when the two tables agree *)
Definition cex_equiv (p out : spol) : option (list spol) :=
  equiv_on (leaves_of p ++ leaves_of out) (fun rho => evalA rho p) (fun rho => evalA rho out).
Definition cex_age (a : rel_lt) (p out : spol) : option (list spol) :=
  equiv_on (leaves_of p ++ leaves_of out)
           (fun rho => evalA (restrict_age a rho) p) (fun rho => evalA rho out).
Definition cex_lock (n : abs_lt) (p out : spol) : option (list spol) :=
  equiv_on (leaves_of p ++ leaves_of out)
           (fun rho => evalA (restrict_lock n rho) p) (fun rho => evalA rho out).
Definition cex_lift (c : cpol) (out : spol) : option (list spol) :=
  equiv_on (cleaves_of c ++ leaves_of out) (fun rho => evalC rho c) (fun rho => evalA rho out).
Definition cex_implies (p q : spol) : option (list spol) :=
  find (fun on => evalA (rho_of on) p && negb (evalA (rho_of on) q))
       (assignments (leaves_of p ++ leaves_of q)).


(* ------------------------------------------------------------------------------------
   Input classes on which the pinned implementation is known to deviate from the
   specification (each is the side condition of a theorem in Properties/C18.v and the key
   of a line in known_findings.txt). *)
(* minimum_n_keys counts key leaves, not distinct keys *)
Definition has_dup_keys (p : spol) : bool :=
  negb (length (dedupN (keys_of p)) =? length (keys_of p)).
