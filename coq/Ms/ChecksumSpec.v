(* Vocabulary for the checksum theorems (definitions only; no proofs). *)
From Verif Require Export ChecksumModel.
Local Open Scope N_scope.

Definition valid_char (c : N) : bool := (32 <=? c) && (c <? 127).
Definition sym (c : N) : N := nth (N.to_nat (c - 32)) CHAR_MAP 0.    (* position in the 95-character alphabet *)
Definition lo (c : N) : N := N.land (sym c) 31.                       (* the 5-bit symbol *)
Definition hi (c : N) : N := N.shiftr (sym c) 5.                      (* the group 0..2 *)
Definition group0 (c : N) : bool := valid_char c && (sym c <? 32).    (* hex digits and descriptor punctuation *)

(* the GF(32) symbol stream the engine feeds to the BCH polymod for a payload:
   one symbol per character and one group symbol per three characters (plus one for a
   trailing partial group) *)
Fixpoint stream (s : bytes) : list N :=
  match s with
  | c0 :: c1 :: c2 :: r => lo c0 :: lo c1 :: lo c2 :: ((hi c0 * 3 + hi c1) * 3 + hi c2) :: stream r
  | [c0; c1] => [lo c0; lo c1; hi c0 * 3 + hi c1]
  | [c0] => [lo c0; hi c0]
  | [] => []
  end.

Definition TARGET : list N := [0; 0; 0; 0; 0; 0; 0; 1].

(* the polymod residue as the model computes it, from an arbitrary start state *)
Definition polymod_from (st : N) (xs : list N) : N := fold_left input_fe xs st.

Definition zipxor (xs ys : list N) : list N := map (fun p => N.lxor (fst p) (snd p)) (combine xs ys).

(* number of positions at which two equally long strings differ *)
Fixpoint hamming (a b : bytes) : nat :=
  match a, b with
  | x :: a', y :: b' => (if x =? y then 0 else 1)%nat + hamming a' b'
  | _, _ => 0%nat
  end.

Definition rejected {A} (o : outcome ck_err A) : Prop := match o with Err _ => True | _ => False end.
Definition no_panic {A} (o : outcome ck_err A) : Prop := match o with Panic _ => False | _ => True end.

(* the eight characters of a 40-bit residue *)
Definition chars_of (r : N) : bytes :=
  map (fun remaining => nth (N.to_nat (unpack r remaining)) CHARS_LOWER 0) [7; 6; 5; 4; 3; 2; 1; 0].

(* The one edit the checksum itself cannot see: the separator '#' is replaced by another
   character and no other '#' remains, so the string no longer "carries a checksum";
   verify_checksum hands the whole string to the expression parser (which rejects it for
   every payload that ends its top-level parenthesis before the old separator: see
   ExprTree theorems).  [p] is the original payload. *)
Definition sep_replaced (p s' : bytes) : Prop :=
  nth (length p) s' 0 <> HASH /\ ~ In HASH s' /\ verify_checksum s' = Ok s'.
