(* Model of the satisfier: src/miniscript/satisfy/{mod,sat_dissat}.rs.
   Witness vectors are in PUSH order (first element = bottom of the stack), as in the code.
   No proofs here. RawPkH is not modelled (it only arises from decoding). *)
From Verif Require Export Ast.
Local Open Scope N_scope.

Inductive hkind := HSha256 | HHash256 | HRipemd160 | HHash160.

Inductive ph :=
| PhPubkey (k : key)            (* Placeholder::Pubkey(pk, Ctx::pk_len(pk)) *)
| PhSig (k : key)               (* EcdsaSigPk / SchnorrSigPk(script spend) *)
| PhPre (kd : hkind) (h : bytes)
| PhHashDissat | PhPushOne | PhPushZero.

Inductive witness := WStack (l : list ph) | WUnavailable | WImpossible.

Record satn := mkSat { s_stack : witness; s_has_sig : bool; s_abs : option N; s_rel : option N }.

(* what the satisfier is asked (AssetProvider) and the context constants it uses *)
Record senv := mkSenv {
  se_tap : bool;
  se_pklen : key -> N;                 (* Ctx::pk_len: 34/66 (Legacy, Bare), 34 (Segwitv0), 33 (Tap) *)
  se_sig : key -> option N;            (* signature available; Schnorr: its length (64/65) *)
  se_pre : hkind -> bytes -> bool;
  se_after : N -> bool;                (* check_after *)
  se_older : N -> bool
}.

Definition varint_len (n : N) : N :=
  if n <? 253 then 1 else if n <=? 65535 then 3 else if n <=? 4294967295 then 5 else 9.

Definition ph_size (se : senv) (p : ph) : N :=
  match p with
  | PhPubkey k => se_pklen se k
  | PhSig k => if se_tap se then (match se_sig se k with Some sz => sz + 1 | None => 1 end) else 73
  | PhPre _ _ | PhHashDissat => 33
  | PhPushOne => 2
  | PhPushZero => 1
  end.
Definition witness_size (se : senv) (l : list ph) : N :=
  fold_right (fun p a => ph_size se p + a) 0 l + varint_len (N.of_nat (length l)).

(* Ord for Witness: stacks by witness_size; Stack < Impossible < Unavailable *)
Definition wit_lt (se : senv) (a b : witness) : bool :=
  match a, b with
  | WStack x, WStack y => witness_size se x <? witness_size se y
  | WStack _, _ => true
  | _, WStack _ => false
  | WImpossible, WUnavailable => true
  | _, _ => false
  end.

Definition wcombine (a b : witness) : witness :=
  match a, b with
  | WImpossible, _ | _, WImpossible => WImpossible
  | WUnavailable, _ | _, WUnavailable => WUnavailable
  | WStack x, WStack y => WStack (x ++ y)
  end.

Definition is_imp (w : witness) : bool := match w with WImpossible => true | _ => false end.
Definition IMPOSSIBLE := mkSat WImpossible false None None.
Definition TRIVIAL := mkSat (WStack []) false None None.
Definition push_0 := mkSat (WStack [PhPushZero]) false None None.
Definition UNAVAILABLE := mkSat WUnavailable false None None.

(* absolute::LockTime / relative::LockTime partial orders: None when units differ *)
Definition abs_max (a b : N) : option N :=
  if Bool.eqb (a <? 500000000) (b <? 500000000) then Some (if b <=? a then a else b) else None.
Definition rel_is_time (t : N) : bool := negb (N.eqb (N.land t 4194304) 0).
Definition rel_val (t : N) : N := N.land t 65535.
Definition rel_max (a b : N) : option N :=
  if Bool.eqb (rel_is_time a) (rel_is_time b) then Some (if rel_val b <=? rel_val a then a else b) else None.

Definition merge_lock (mx : N -> N -> option N) (a b : option N) : option (option N) :=
  match a, b with
  | None, x | x, None => Some x
  | Some x, Some y => match mx x y with Some t => Some (Some t) | None => None end
  end.

(* self.concatenate_rev(other): other's stack BEFORE self's *)
Definition concatenate_rev (self other : satn) : satn :=
  if is_imp (s_stack self) || is_imp (s_stack other) then IMPOSSIBLE else
  match merge_lock rel_max (s_rel self) (s_rel other) with
  | None => IMPOSSIBLE
  | Some r =>
    match merge_lock abs_max (s_abs self) (s_abs other) with
    | None => IMPOSSIBLE
    | Some a => mkSat (wcombine (s_stack other) (s_stack self)) (s_has_sig self || s_has_sig other) a r
    end
  end.

Definition minimum (se : senv) (s1 s2 : satn) : satn :=
  if is_imp (s_stack s1) then s2 else if is_imp (s_stack s2) then s1 else
  match s_has_sig s1, s_has_sig s2 with
  | false, false => UNAVAILABLE
  | false, true => mkSat (s_stack s1) false (s_abs s1) (s_rel s1)
  | true, false => mkSat (s_stack s2) false (s_abs s2) (s_rel s2)
  | true, true =>
    if wit_lt se (s_stack s1) (s_stack s2) then mkSat (s_stack s1) true (s_abs s1) (s_rel s1)
    else mkSat (s_stack s2) true (s_abs s2) (s_rel s2)
  end.

Definition is_stack (w : witness) : bool := match w with WStack _ => true | _ => false end.
Definition minimum_mall (se : senv) (s1 s2 : satn) : satn :=
  if negb (is_stack (s_stack s1)) then s2 else if negb (is_stack (s_stack s2)) then s1 else
  let pick1 := wit_lt se (s_stack s1) (s_stack s2) in
  let w := if pick1 then s1 else s2 in
  mkSat (s_stack w) (s_has_sig s1 && s_has_sig s2) (s_abs w) (s_rel w).

(* ---- thresh ---- *)
Definition I64MAX : Z := 9223372036854775807%Z.
Definition I64MIN : Z := (-9223372036854775808)%Z.
Definition stack_weight (se : senv) (sat dis : witness) : Z :=
  match sat, dis with
  | WUnavailable, _ | WImpossible, _ => I64MAX
  | _, WUnavailable | _, WImpossible => I64MIN
  | WStack s, WStack d => (Z.of_N (witness_size se s) - Z.of_N (witness_size se d))%Z
  end.

(* sort keys: (is_impossible, has_sig, weight), lexicographic, false < true *)
Definition key3 := (bool * bool * Z)%type.
Definition b2z (b : bool) : Z := if b then 1%Z else 0%Z.
Definition key3_le (a b : key3) : bool :=
  let '(a1, a2, a3) := a in let '(b1, b2, b3) := b in
  if (b2z a1 <? b2z b1)%Z then true else if (b2z b1 <? b2z a1)%Z then false else
  if (b2z a2 <? b2z b2)%Z then true else if (b2z b2 <? b2z a2)%Z then false else (a3 <=? b3)%Z.

(* stable insertion sort of indices by key *)
Fixpoint insert_by {K} (le : K -> K -> bool) (x : nat * K) (l : list (nat * K)) : list (nat * K) :=
  match l with
  | [] => [x]
  | y :: r => if le (snd y) (snd x) then y :: insert_by le x r else x :: l
  end.
Definition sort_by {K} (le : K -> K -> bool) (l : list (nat * K)) : list (nat * K) :=
  fold_left (fun acc x => insert_by le x acc) l [].

Definition nth_sat (l : list satn) (i : nat) : satn := nth i l IMPOSSIBLE.

(* replace ret[i] by sats[i] for i in chosen *)
Definition swap_in (chosen : list nat) (dissats sats : list satn) : list satn :=
  map (fun p => if existsb (Nat.eqb (fst p)) chosen then nth_sat sats (fst p) else snd p)
      (combine (seq 0 (length dissats)) dissats).
Definition flatten_rev (l : list satn) : satn := fold_left concatenate_rev l TRIVIAL.

Definition thresh_nonmall (se : senv) (k : nat) (dissats sats : list satn) : satn :=
  let n := length dissats in
  let keys := map (fun i => (i, (is_imp (s_stack (nth_sat sats i)), s_has_sig (nth_sat sats i),
                                 stack_weight se (s_stack (nth_sat sats i)) (s_stack (nth_sat dissats i)))))
                  (seq 0 n) in
  let order := map fst (sort_by key3_le keys) in
  let chosen := firstn k order in
  (* after the swap, sats[chosen i] holds the old dissatisfaction; the code tests the swapped vectors *)
  let kth := nth (k - 1) order 0%nat in          (* sat_indices[k-1]: its OLD satisfaction is now in ret_stack *)
  let knext := nth k order 0%nat in              (* sat_indices[k]: untouched *)
  let ret := swap_in chosen dissats sats in
  (* `sats[sat_indices[k-1]]` after swap = old dissats[...] *)
  if is_imp (s_stack (nth_sat dissats kth)) then IMPOSSIBLE
  else if negb (s_has_sig (nth_sat sats knext)) && negb (is_imp (s_stack (nth_sat sats knext))) then UNAVAILABLE
  else flatten_rev ret.

Definition zle (a b : Z) : bool := (a <=? b)%Z.
Definition thresh_mall (se : senv) (k : nat) (dissats sats : list satn) : satn :=
  let n := length dissats in
  let keys := map (fun i => (i, stack_weight se (s_stack (nth_sat sats i)) (s_stack (nth_sat dissats i)))) (seq 0 n) in
  let order := map fst (sort_by zle keys) in
  flatten_rev (swap_in (firstn k order) dissats sats).

(* ---- leaves ---- *)
Definition w_signature (se : senv) (k : key) : witness :=
  match se_sig se k with Some _ => WStack [PhSig k] | None => WImpossible end.
Definition w_preimage (se : senv) (kd : hkind) (h : bytes) : witness :=
  if se_pre se kd h then WStack [PhPre kd h] else WUnavailable.

Definition sd_pk_k (se : senv) (k : key) : satn * satn :=
  (push_0, mkSat (w_signature se k) true None None).
Definition sd_pk_h (se : senv) (k : key) : satn * satn :=
  (mkSat (wcombine (WStack [PhPushZero]) (WStack [PhPubkey k])) false None None,
   mkSat (wcombine (w_signature se k) (WStack [PhPubkey k])) true None None).
Definition sd_hash (se : senv) (kd : hkind) (h : bytes) : satn * satn :=
  (mkSat (WStack [PhHashDissat]) false None None, mkSat (w_preimage se kd h) false None None).
Definition sd_time (ok : bool) (root_has_sig : bool) (t : N) (is_abs : bool) : satn * satn :=
  let st := if ok then WStack [] else if root_has_sig then WImpossible else WUnavailable in
  let lk := if ok then Some t else None in
  (IMPOSSIBLE, if is_abs then mkSat st false lk None else mkSat st false None lk).

(* first k available signatures are kept (max_by_key over vector LENGTHS removes the last ones) *)
Fixpoint take_avail (se : senv) (k : nat) (ks : list key) : list ph :=
  match ks with
  | [] => []
  | key :: r =>
    match se_sig se key, k with
    | Some _, S k' => PhSig key :: take_avail se k' r
    | _, _ => take_avail se k r
    end
  end.
Definition count_avail (se : senv) (ks : list key) : nat :=
  length (filter (fun key => match se_sig se key with Some _ => true | None => false end) ks).
Definition sd_multi (se : senv) (k : N) (ks : list key) : satn * satn :=
  let dis := mkSat (WStack (repeat PhPushZero (S (N.to_nat k)))) false None None in
  if Nat.ltb (count_avail se ks) (N.to_nat k) then (dis, IMPOSSIBLE)
  else (dis, mkSat (WStack (PhPushZero :: take_avail se (N.to_nat k) ks)) true None None).

(* multi_a: keys visited from the last; the first k available get their signature, the rest PushZero;
   the vector is in that (reversed-key) order *)
Fixpoint multi_a_fill (se : senv) (k : nat) (ks_rev : list key) : list ph :=
  match ks_rev with
  | [] => []
  | key :: r =>
    match se_sig se key, k with
    | Some _, S k' => PhSig key :: multi_a_fill se k' r
    | _, _ => PhPushZero :: multi_a_fill se k r
    end
  end.
Definition sd_multi_a (se : senv) (k : N) (ks : list key) : satn * satn :=
  let dis := mkSat (WStack (repeat PhPushZero (length ks))) false None None in
  if Nat.ltb (count_avail se ks) (N.to_nat k) then (dis, IMPOSSIBLE)
  else (dis, mkSat (WStack (multi_a_fill se (N.to_nat k) (rev ks))) true None None).

Definition with_stack (s : satn) (w : witness) : satn := mkSat w (s_has_sig s) (s_abs s) (s_rel s).

(* (dissat, sat) *)
Fixpoint sat_dissat (ke : keyenv) (se : senv) (mall : bool) (root_has_sig : bool) (m : ms) : satn * satn :=
  let min_fn := if mall then minimum_mall se else minimum se in
  match m with
  | MFalse => (TRIVIAL, IMPOSSIBLE)
  | MTrue => (IMPOSSIBLE, TRIVIAL)
  | MPkK k => sd_pk_k se k
  | MPkH k => sd_pk_h se k
  | MRawPkH _ => (IMPOSSIBLE, IMPOSSIBLE)
  | MMulti k ks => sd_multi se k ks
  | MSortedMulti k ks => sd_multi se k (ksort ke ks)
  | MMultiA k ks => sd_multi_a se k ks
  | MSortedMultiA k ks => sd_multi_a se k (ksort ke ks)
  | MAfter t => sd_time (se_after se t) root_has_sig t true
  | MOlder t => sd_time (se_older se t) root_has_sig t false
  | MRipemd160 h => sd_hash se HRipemd160 h
  | MHash160 h => sd_hash se HHash160 h
  | MSha256 h => sd_hash se HSha256 h
  | MHash256 h => sd_hash se HHash256 h
  | MAlt x | MSwap x | MCheck x | MZeroNotEqual x => sat_dissat ke se mall root_has_sig x
  | MDupIf x =>
    let '(_, sub) := sat_dissat ke se mall root_has_sig x in
    (push_0, with_stack sub (wcombine (s_stack sub) (WStack [PhPushOne])))
  | MVerify x => let '(_, sub) := sat_dissat ke se mall root_has_sig x in (IMPOSSIBLE, sub)
  | MNonZero x => let '(_, sub) := sat_dissat ke se mall root_has_sig x in (push_0, sub)
  | MAndB l r =>
    let '(l_dis, l_sat) := sat_dissat ke se mall root_has_sig l in
    let '(r_dis, r_sat) := sat_dissat ke se mall root_has_sig r in
    (concatenate_rev l_dis r_dis, concatenate_rev l_sat r_sat)
  | MAndV l r =>
    let '(_, l_sat) := sat_dissat ke se mall root_has_sig l in
    let '(r_dis, r_sat) := sat_dissat ke se mall root_has_sig r in
    (concatenate_rev l_sat r_dis, concatenate_rev l_sat r_sat)
  | MAndOr a b c =>
    let '(a_dis, a_sat) := sat_dissat ke se mall root_has_sig a in
    let '(_, b_sat) := sat_dissat ke se mall root_has_sig b in
    let '(c_dis, c_sat) := sat_dissat ke se mall root_has_sig c in
    (concatenate_rev a_dis c_dis, min_fn (concatenate_rev a_sat b_sat) (concatenate_rev a_dis c_sat))
  | MOrB l r =>
    let '(l_dis, l_sat) := sat_dissat ke se mall root_has_sig l in
    let '(r_dis, r_sat) := sat_dissat ke se mall root_has_sig r in
    (concatenate_rev l_dis r_dis, min_fn (concatenate_rev l_dis r_sat) (concatenate_rev l_sat r_dis))
  | MOrC l r =>
    let '(l_dis, l_sat) := sat_dissat ke se mall root_has_sig l in
    let '(_, r_sat) := sat_dissat ke se mall root_has_sig r in
    (IMPOSSIBLE, min_fn l_sat (concatenate_rev l_dis r_sat))
  | MOrD l r =>
    let '(l_dis, l_sat) := sat_dissat ke se mall root_has_sig l in
    let '(r_dis, r_sat) := sat_dissat ke se mall root_has_sig r in
    (concatenate_rev l_dis r_dis, min_fn l_sat (concatenate_rev l_dis r_sat))
  | MOrI l r =>
    let '(l_dis, l_sat) := sat_dissat ke se mall root_has_sig l in
    let '(r_dis, r_sat) := sat_dissat ke se mall root_has_sig r in
    (min_fn (with_stack l_dis (wcombine (s_stack l_dis) (WStack [PhPushOne])))
            (with_stack r_dis (wcombine (s_stack r_dis) (WStack [PhPushZero]))),
     min_fn (with_stack l_sat (wcombine (s_stack l_sat) (WStack [PhPushOne])))
            (with_stack r_sat (wcombine (s_stack r_sat) (WStack [PhPushZero]))))
  | MThresh k xs =>
    let ds := (fix go (l : list ms) : list (satn * satn) :=
                 match l with [] => [] | x :: r => sat_dissat ke se mall root_has_sig x :: go r end) xs in
    let dissats := map fst ds in
    let sats := map snd ds in
    let dis := flatten_rev dissats in
    let sat := if N.eqb k (N.of_nat (length xs)) then flatten_rev sats
               else if mall then thresh_mall se (N.to_nat k) dissats sats
               else thresh_nonmall se (N.to_nat k) dissats sats in
    (dis, sat)
  end.

(* ---- completing a template (try_completing / satisfy_self) ---- *)
Record fill := mkFill {
  f_keybytes : key -> bytes;          (* bytes for Placeholder::Pubkey *)
  f_sig : key -> option bytes;
  f_pre : hkind -> bytes -> option bytes
}.
Definition fill_ph (f : fill) (p : ph) : option bytes :=
  match p with
  | PhPubkey k => Some (f_keybytes f k)
  | PhSig k => f_sig f k
  | PhPre kd h => f_pre f kd h
  | PhHashDissat => Some (repeat 0 32)
  | PhPushOne => Some [1]
  | PhPushZero => Some []
  end.
Fixpoint fill_all (f : fill) (l : list ph) : option (list bytes) :=
  match l with
  | [] => Some []
  | p :: r => match fill_ph f p, fill_all f r with Some b, Some bs => Some (b :: bs) | _, _ => None end
  end.

(* Miniscript::satisfy / satisfy_malleable: root_has_sig = ty.mall.signed ("safe") *)
Definition satisfy (ke : keyenv) (se : senv) (f : fill) (mall : bool) (root_has_sig : bool) (m : ms)
  : option (list bytes) :=
  match s_stack (snd (sat_dissat ke se mall root_has_sig m)) with
  | WStack l => fill_all f l
  | _ => None
  end.
