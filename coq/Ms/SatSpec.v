(* The Miniscript specification's satisfaction / dissatisfaction table, as executable
   list-valued functions (specification side).  A witness is written in STACK order
   (head = top of stack = last element of the witness vector).  Only what the caller's
   assets allow is listed; canonical entries of the table. *)
From Verif Require Export Ast.

Record assets := mkAssets {
  a_sig : key -> option bytes;            (* a valid signature for the key in this context/leaf *)
  a_sha256 : bytes -> option bytes;       (* image -> preimage *)
  a_hash256 : bytes -> option bytes;
  a_ripemd160 : bytes -> option bytes;
  a_hash160 : bytes -> option bytes;
  a_after : N -> bool;                    (* the absolute lock time value is met by what the caller holds *)
  a_older : N -> bool
}.

Definition wit := list bytes.
Definition cross (l1 l2 : list wit) : list wit :=
  flat_map (fun a => map (fun b => a ++ b) l2) l1.
Definition opt_list {A} (o : option A) : list A := match o with Some a => [a] | None => [] end.
Definition zeros32 : bytes := repeat 0%N 32.

(* choose exactly k satisfied children, in order *)
Fixpoint thresh_comb (k : nat) (cs : list (list wit * list wit)) : list wit :=
  match cs with
  | [] => match k with O => [[]] | S _ => [] end
  | (s, d) :: r =>
    (match k with S k' => cross s (thresh_comb k' r) | O => [] end) ++ cross d (thresh_comb k r)
  end.

(* all ways to pick k signatures among the keys, in key order: list of signature lists *)
Fixpoint pick_sigs (A : assets) (k : nat) (ks : list key) : list (list bytes) :=
  match ks with
  | [] => match k with O => [[]] | S _ => [] end
  | key :: r =>
    (match k, a_sig A key with
     | S k', Some sg => map (cons sg) (pick_sigs A k' r)
     | _, _ => []
     end) ++ pick_sigs A k r
  end.
(* multi_a: one element per key (signature or empty), exactly k signatures; top = first key *)
Fixpoint pick_sigs_a (A : assets) (k : nat) (ks : list key) : list wit :=
  match ks with
  | [] => match k with O => [[]] | S _ => [] end
  | key :: r =>
    (match k, a_sig A key with
     | S k', Some sg => map (cons sg) (pick_sigs_a A k' r)
     | _, _ => []
     end) ++ map (cons []) (pick_sigs_a A k r)
  end.

Definition hash_sd (look : bytes -> option bytes) (h : bytes) : list wit * list wit :=
  (map (fun p => [p]) (opt_list (look h)), [[zeros32]]).

(* (satisfactions, dissatisfactions) *)
Fixpoint sd (ke : keyenv) (A : assets) (m : ms) : list wit * list wit :=
  match m with
  | MTrue => ([[]], [])
  | MFalse => ([], [[]])
  | MPkK k => (map (fun s => [s]) (opt_list (a_sig A k)), [[[]]])
  | MPkH k => (map (fun s => [kb ke k; s]) (opt_list (a_sig A k)), [[kb ke k; []]])
  | MRawPkH _ => ([], [])                       (* key unknown to the table: nothing listed *)
  | MAfter t => (if a_after A t then [[]] else [], [])
  | MOlder t => (if a_older A t then [[]] else [], [])
  | MSha256 h => hash_sd (a_sha256 A) h
  | MHash256 h => hash_sd (a_hash256 A) h
  | MRipemd160 h => hash_sd (a_ripemd160 A) h
  | MHash160 h => hash_sd (a_hash160 A) h
  | MAlt x | MSwap x | MCheck x | MZeroNotEqual x => sd ke A x
  | MDupIf x => (map (cons [1%N]) (fst (sd ke A x)), [[[]]])
  | MVerify x => (fst (sd ke A x), [])
  | MNonZero x => (fst (sd ke A x), [[[]]])
  | MAndV x y => let (sx, _) := sd ke A x in let (sy, dy) := sd ke A y in (cross sx sy, cross sx dy)   (* dsat: non-canonical, used by the library *)
  | MAndB x y =>
    let (sx, dx) := sd ke A x in let (sy, dy) := sd ke A y in (cross sx sy, cross dx dy)
  | MAndOr a b c =>
    let (sa, da) := sd ke A a in let (sb, _) := sd ke A b in let (sc, dc) := sd ke A c in
    (cross sa sb ++ cross da sc, cross da dc)
  | MOrB x z =>
    let (sx, dx) := sd ke A x in let (sz, dz) := sd ke A z in
    (cross dx sz ++ cross sx dz, cross dx dz)
  | MOrC x z =>
    let (sx, dx) := sd ke A x in let (sz, _) := sd ke A z in (sx ++ cross dx sz, [])
  | MOrD x z =>
    let (sx, dx) := sd ke A x in let (sz, dz) := sd ke A z in (sx ++ cross dx sz, cross dx dz)
  | MOrI x z =>
    let (sx, dx) := sd ke A x in let (sz, dz) := sd ke A z in
    (map (cons [1%N]) sx ++ map (cons []) sz, map (cons [1%N]) dx ++ map (cons []) dz)
  | MThresh k xs =>
    let cs := (fix go (l : list ms) : list (list wit * list wit) :=
                 match l with [] => [] | x :: r => sd ke A x :: go r end) xs in
    (thresh_comb (N.to_nat k) cs, thresh_comb 0 cs)
  | MMulti k ks =>
    (map (fun sigs => rev sigs ++ [[]]) (pick_sigs A (N.to_nat k) ks),
     [repeat [] (S (N.to_nat k))])
  | MSortedMulti k ks =>
    (map (fun sigs => rev sigs ++ [[]]) (pick_sigs A (N.to_nat k) (ksort ke ks)),
     [repeat [] (S (N.to_nat k))])
  | MMultiA k ks => (pick_sigs_a A (N.to_nat k) ks, [repeat [] (length ks)])
  | MSortedMultiA k ks => (pick_sigs_a A (N.to_nat k) (ksort ke ks), [repeat [] (length ks)])
  end.

Definition all_sat ke A m := fst (sd ke A m).
Definition all_dsat ke A m := snd (sd ke A m).

(* "the caller holds lock time [held]": which after(t)/older(t) it meets (BIP65/BIP112 comparison) *)
Definition after_ok (held : option N) (t : N) : bool :=
  match held with
  | None => false
  | Some l => Bool.eqb (N.ltb t 500000000) (N.ltb l 500000000) && N.leb t l
  end.
Definition older_ok (held : option N) (t : N) : bool :=
  match held with
  | None => false
  | Some s =>
    N.eqb (N.land s 2147483648) 0
    && N.eqb (N.land t 4194304) (N.land s 4194304)
    && N.leb (N.land t 65535) (N.land s 65535)
  end.
