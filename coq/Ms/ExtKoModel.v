(* C09: the satisfactions the ExtData model has no script for. Definitions only
   (proofs: Proofs/ExtKoProofs.v).

   1. Key-only descriptors pkh / wpkh / sh(wpkh) (src/descriptor/{bare,segwitv0,sh}.rs): their
      satisfaction has one shape, <sig> <key>; what it weighs beyond the unsatisfied input, in the
      conventions of Proofs/ExtDesc.v (scriptSig bytes count 4, the length prefix of the empty
      scriptSig / the count of the empty witness are already there).
   2. The raw key hash leaf (`expr_raw_pkh`, only in scripts decoded from bytes):
      Satisfaction::pkh_signature / pkh_public_key (src/miniscript/satisfy/mod.rs) with a satisfier
      that resolves the hash (the lookup_raw_pkh family): the stack is [sig placeholder; PubkeyHash(pkh,
      Ctx::pk_len(resolved key))], the dissatisfaction [PushZero; the same key placeholder]. The item
      sizes are those of util.rs ItemSize (length prefix included). *)
From Verif Require Export ExtModel.
Local Open Scope N_scope.

(* ---- key-only descriptors ---- *)
Definition item_push (n : N) : N := push_opcode_size n + n.      (* an n-byte item pushed in a scriptSig *)
Definition item_wit (n : N) : N := varint_len n + n.             (* an n-byte witness item *)
(* [sig]: DER signature with its sighash byte; [key]: serialized key (33 or 65 bytes) *)
Definition pkh_measured (sig key : N) : N :=
  let s := item_push sig + item_push key in 4 * (varint_len s + s - 1).
Definition wpkh_measured (sig key : N) : N := varint_len 2 + item_wit sig + item_wit key - 1.
Definition sh_wpkh_measured (sig key : N) : N := 4 * (varint_len 23 + 23 - 1) + wpkh_measured sig key.
(* the absolute quantities the deprecated max_satisfaction_weight speaks about *)
Definition pkh_measured_abs (sig key : N) : N :=
  let s := item_push sig + item_push key in 4 * (varint_len s + s).
Definition wpkh_measured_abs (sig key : N) : N := 4 * 1 + (varint_len 2 + item_wit sig + item_wit key).
Definition sh_wpkh_measured_abs (sig key : N) : N := 4 * (varint_len 23 + 23) + (varint_len 2 + item_wit sig + item_wit key).

(* the library's constant figures (Pkh / Wpkh / Sh::max_satisfaction_weight) *)
Definition pkh_old_weight (pklen : N) : N := 4 * (1 + 73 + pklen).
Definition wpkh_old_weight : N := 4 + 1 + 73 + 34.
Definition sh_wpkh_old_weight : N := 4 * 23 + wpkh_old_weight.

(* ---- raw key hash leaf ---- *)
Record rawres := mkRawRes {
  rr_sigitem : N;   (* EcdsaSigPkHash: 73; SchnorrSigPkHash(_, _, size): size + 1 *)
  rr_keyitem : N    (* PubkeyHash(_, Ctx::pk_len(pk)): 34 / 66 (ECDSA contexts), 33 (x-only) *)
}.
Definition raw_sat_items (r : rawres) : list N := [rr_sigitem r; rr_keyitem r].
Definition raw_dissat_items (r : rawres) : list N := [1; rr_keyitem r].
Definition items_sum (l : list N) : N := fold_right N.add 0 l.
(* what the resolver can return in a context *)
Definition rawres_compressed (r : rawres) : Prop := rr_sigitem r <= 73 /\ rr_keyitem r = 34.
Definition rawres_uncompressed (r : rawres) : Prop := rr_sigitem r <= 73 /\ rr_keyitem r = 66.
Definition rawres_xonly (r : rawres) : Prop := rr_sigitem r <= 66 /\ rr_keyitem r = 33.
Definition items_within (items : list N) (d : satdata) : Prop :=
  N.of_nat (length items) <= sd_wcount d /\ items_sum items <= sd_wsize d /\ items_sum items <= sd_ssig d.
