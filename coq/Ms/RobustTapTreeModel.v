(* C11 — model (no proofs) of the taproot tree builder that every `tr(KEY,{...})` text goes through:
   descriptor/tr/taptree.rs TapTreeBuilder::{new, push_inner_node, push_leaf, finalize} driven by
   the loop of Tr::from_tree (descriptor/tr/mod.rs), which walks the `{a,b}` expression in
   pre-order (each `{}` node is checked to have exactly two children before push_inner_node; the
   descendants of a leaf are skipped).

   Panic sites are explicit: the two `self.current_height -= 1` (u8), `self.current_height += 1`
   (u8), the shifts `1 << self.current_height` on the u128 bitmap (a shift by >= 128 panics in a
   build with overflow checks and is masked otherwise) and finalize's
   `assert!(!self.depths_leaves.is_empty())`. *)
From Coq Require Import List NArith Bool.
From Verif Require Import Bytes RobustModel.
Import ListNotations.
Local Open Scope N_scope.

(* the shape of the `{..}` expression: a leaf (a tapscript) or a branch with two children *)
Inductive tshape := TL | TB (l r : tshape).

Definition P_ADD_OVERFLOW : N := 8.     (* u8 `+= 1` at 255 *)
Definition P_SHIFT : N := 9.            (* 1u128 << n with n >= 128 *)
Definition E_TAPTREE_DEPTH : N := 301.  (* TapTreeDepthError *)
Definition MAX_NODE : N := 128.         (* TAPROOT_CONTROL_MAX_NODE_COUNT *)

(* depths_leaves (depths only), complete_heights: u128, complete_128: bool, current_height: u8 *)
Record tbuilder := mkTBuilder { tb_leaves : list N; tb_heights : N; tb_c128 : bool; tb_cur : N }.

Definition tb_new : tbuilder := mkTBuilder [] 0 false 0.

(* push_inner_node: self.current_height += 1; if usize::from(self.current_height) > 128 { Err }.
   (On Err the caller's `?` drops the builder.) *)
Definition tb_push_inner (s : tbuilder) : routcome tbuilder :=
  if tb_cur s =? 255 then RPanic P_ADD_OVERFLOW else
  let h := tb_cur s + 1 in
  if MAX_NODE <? h then RErr E_TAPTREE_DEPTH
  else ROk (mkTBuilder (tb_leaves s) (tb_heights s) (tb_c128 s) h).

(* 1 << h on u128 *)
Definition shl1 (h : N) : routcome N := if 128 <=? h then RPanic P_SHIFT else ROk (N.shiftl 1 h).

(* while self.current_height > 0 {
     if self.complete_heights & (1 << self.current_height) == 0 {
         self.complete_heights |= 1 << self.current_height; break; }
     self.complete_heights &= !(1 << self.current_height);
     self.current_height -= 1; }
   fuel: current_height is a u8 and decreases *)
Fixpoint tb_loop (fuel : nat) (heights cur : N) : routcome (N * N) :=
  if cur =? 0 then ROk (heights, cur) else
  match fuel with
  | O => RErr E_OUT_OF_FUEL
  | S f =>
    rbind (shl1 cur) (fun m =>
    if N.land heights m =? 0 then rbind (shl1 cur) (fun m1 => ROk (N.lor heights m1, cur))
    else rbind (shl1 cur) (fun m2 =>
         rbind (sub_partial cur 1) (fun cur' =>
         tb_loop f (N.ldiff heights m2) cur')))
  end.

(* push_leaf *)
Definition tb_push_leaf (s : tbuilder) : routcome tbuilder :=
  let leaves := tb_leaves s ++ [tb_cur s] in
  if tb_cur s =? MAX_NODE then
    if tb_c128 s then
      rbind (sub_partial (tb_cur s) 1) (fun cur' =>
      rbind (tb_loop 256 (tb_heights s) cur') (fun r => ROk (mkTBuilder leaves (fst r) false (snd r))))
    else ROk (mkTBuilder leaves (tb_heights s) true (tb_cur s))
  else
    rbind (tb_loop 256 (tb_heights s) (tb_cur s)) (fun r => ROk (mkTBuilder leaves (fst r) (tb_c128 s) (snd r))).

(* finalize: assert!(!self.depths_leaves.is_empty()) *)
Definition tb_finalize (s : tbuilder) : routcome (list N) :=
  match tb_leaves s with [] => RPanic P_ASSERT | _ => ROk (tb_leaves s) end.

(* what the loop of Tr::from_tree sees: the nodes in pre-order, true = `{..}` branch, false = leaf *)
Fixpoint tevents (t : tshape) : list bool :=
  match t with TL => [false] | TB l r => true :: tevents l ++ tevents r end.

Fixpoint tb_run (evs : list bool) (s : tbuilder) : routcome tbuilder :=
  match evs with
  | [] => ROk s
  | true :: r => rbind (tb_push_inner s) (tb_run r)
  | false :: r => rbind (tb_push_leaf s) (tb_run r)
  end.

(* Tr::from_tree on `tr(KEY, <shape>)` with valid leaves: Ok(depths of the leaves) / Err / panic *)
Definition tap_parse (t : tshape) : routcome (list N) := rbind (tb_run (tevents t) tb_new) tb_finalize.

(* ---- specification ---- *)
Fixpoint tdepths (t : tshape) (d : N) : list N :=
  match t with TL => [d] | TB l r => tdepths l (d + 1) ++ tdepths r (d + 1) end.
Fixpoint theight (t : tshape) : N :=
  match t with TL => 0 | TB l r => 1 + N.max (theight l) (theight r) end.

(* n branches to the left, then a leaf (for the examples) *)
Fixpoint left_spine (n : nat) : tshape := match n with O => TL | S k => TB (left_spine k) TL end.

(* the recursive reading of the same walk (used by the proofs, equal to tb_run on tevents) *)
Fixpoint tb_walk (t : tshape) (s : tbuilder) : routcome tbuilder :=
  match t with
  | TL => tb_push_leaf s
  | TB l r => rbind (tb_push_inner s) (fun s1 => rbind (tb_walk l s1) (tb_walk r))
  end.
