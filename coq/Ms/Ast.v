(* The Miniscript AST (mirror of `Terminal`, src/miniscript/decode.rs) and its script encoding
   (mirror of src/miniscript/astelem.rs + rust-bitcoin's script::Builder). No proofs here. *)
From Verif Require Export Ser.

Inductive ctx := Bare | Legacy | Segwitv0 | Tap.
Definition ctx_sv (c : ctx) : sigversion :=
  match c with Bare | Legacy => SvBase | Segwitv0 => SvWitnessV0 | Tap => SvTapscript end.
Definition is_tap (c : ctx) : bool := match c with Tap => true | _ => false end.

Definition key := N.     (* index into the key table *)

Inductive ms :=
| MTrue | MFalse
| MPkK (k : key) | MPkH (k : key) | MRawPkH (h : bytes)
| MAfter (t : N) | MOlder (t : N)
| MSha256 (h : bytes) | MHash256 (h : bytes) | MRipemd160 (h : bytes) | MHash160 (h : bytes)
| MAlt (x : ms) | MSwap (x : ms) | MCheck (x : ms) | MDupIf (x : ms) | MVerify (x : ms)
| MNonZero (x : ms) | MZeroNotEqual (x : ms)
| MAndV (x y : ms) | MAndB (x y : ms) | MAndOr (a b c : ms)
| MOrB (x y : ms) | MOrD (x y : ms) | MOrC (x y : ms) | MOrI (x y : ms)
| MThresh (k : N) (xs : list ms)
| MMulti (k : N) (ks : list key) | MSortedMulti (k : N) (ks : list key)
| MMultiA (k : N) (ks : list key) | MSortedMultiA (k : N) (ks : list key).

(* key material as the context serialises it *)
Record keyenv := mkKeyEnv {
  kb : key -> bytes;          (* bytes pushed for the key: 33/65-byte ECDSA key, or 32-byte x-only in Tap *)
  kh : key -> bytes;          (* hash160 of those bytes *)
  ksort : list key -> list key  (* BIP67 order of the serialised keys (sortedmulti / sortedmulti_a) *)
}.

(* ---- rust-bitcoin Builder ---- *)
(* push_int: 0 -> OP_0 (empty push), -1 and 1..16 -> OP_n, otherwise a minimal number push *)
Definition push_int (n : Z) : instr :=
  if (n =? 0)%Z then IPush []
  else if (n =? -1)%Z || ((1 <=? n)%Z && (n <=? 16)%Z) then INum n
  else IPush (num_encode n).

(* Builder::push_verify looks at the LAST OPCODE pushed: EQUAL/NUMEQUAL/CHECKSIG/CHECKMULTISIG
   become their VERIFY forms, anything else gets OP_VERIFY appended. *)
Definition verify_form (o : opcode) : option opcode :=
  match o with
  | OP_EQUAL => Some OP_EQUALVERIFY
  | OP_NUMEQUAL => Some OP_NUMEQUALVERIFY
  | OP_CHECKSIG => Some OP_CHECKSIGVERIFY
  | OP_CHECKMULTISIG => Some OP_CHECKMULTISIGVERIFY
  | _ => None
  end.
Fixpoint push_verify (s : script) : script :=
  match s with
  | [] => [IOp OP_VERIFY]
  | [IOp o] => match verify_form o with Some o' => [IOp o'] | None => [IOp o; IOp OP_VERIFY] end
  | i :: r => i :: push_verify r
  end.

Definition hash_frag (o : opcode) (h : bytes) : script :=
  [IOp OP_SIZE; push_int 32; IOp OP_EQUALVERIFY; IOp o; IPush h; IOp OP_EQUAL].

Fixpoint enc (ke : keyenv) (m : ms) : script :=
  match m with
  | MTrue => [INum 1]
  | MFalse => [IPush []]
  | MPkK k => [IPush (kb ke k)]
  | MPkH k => [IOp OP_DUP; IOp OP_HASH160; IPush (kh ke k); IOp OP_EQUALVERIFY]
  | MRawPkH h => [IOp OP_DUP; IOp OP_HASH160; IPush h; IOp OP_EQUALVERIFY]
  | MAfter t => [push_int (Z.of_N t); IOp OP_CLTV]
  | MOlder t => [push_int (Z.of_N t); IOp OP_CSV]
  | MSha256 h => hash_frag OP_SHA256 h
  | MHash256 h => hash_frag OP_HASH256 h
  | MRipemd160 h => hash_frag OP_RIPEMD160 h
  | MHash160 h => hash_frag OP_HASH160 h
  | MAlt x => [IOp OP_TOALTSTACK] ++ enc ke x ++ [IOp OP_FROMALTSTACK]
  | MSwap x => [IOp OP_SWAP] ++ enc ke x
  | MCheck x => enc ke x ++ [IOp OP_CHECKSIG]
  | MDupIf x => [IOp OP_DUP; IIf false (enc ke x) None]
  | MVerify x => push_verify (enc ke x)
  | MNonZero x => [IOp OP_SIZE; IOp OP_0NOTEQUAL; IIf false (enc ke x) None]
  | MZeroNotEqual x => enc ke x ++ [IOp OP_0NOTEQUAL]
  | MAndV x y => enc ke x ++ enc ke y
  | MAndB x y => enc ke x ++ enc ke y ++ [IOp OP_BOOLAND]
  | MAndOr a b c => enc ke a ++ [IIf true (enc ke c) (Some (enc ke b))]
  | MOrB x y => enc ke x ++ enc ke y ++ [IOp OP_BOOLOR]
  | MOrD x y => enc ke x ++ [IOp OP_IFDUP; IIf true (enc ke y) None]
  | MOrC x y => enc ke x ++ [IIf true (enc ke y) None]
  | MOrI x y => [IIf false (enc ke x) (Some (enc ke y))]
  | MThresh k xs =>
    (match xs with
     | [] => []
     | x0 :: rest =>
       enc ke x0 ++ (fix go (l : list ms) : script :=
                       match l with [] => [] | x :: r => enc ke x ++ [IOp OP_ADD] ++ go r end) rest
     end) ++ [push_int (Z.of_N k); IOp OP_EQUAL]
  | MMulti k ks =>
    [push_int (Z.of_N k)] ++ map (fun key => IPush (kb ke key)) ks
      ++ [push_int (Z.of_nat (length ks)); IOp OP_CHECKMULTISIG]
  | MSortedMulti k ks =>
    [push_int (Z.of_N k)] ++ map (fun key => IPush (kb ke key)) (ksort ke ks)
      ++ [push_int (Z.of_nat (length ks)); IOp OP_CHECKMULTISIG]
  | MMultiA k ks =>
    (match ks with
     | [] => []
     | k0 :: rest =>
       [IPush (kb ke k0); IOp OP_CHECKSIG]
         ++ flat_map (fun key => [IPush (kb ke key); IOp OP_CHECKSIGADD]) rest
     end) ++ [push_int (Z.of_N k); IOp OP_NUMEQUAL]
  | MSortedMultiA k ks =>
    (match ksort ke ks with
     | [] => []
     | k0 :: rest =>
       [IPush (kb ke k0); IOp OP_CHECKSIG]
         ++ flat_map (fun key => [IPush (kb ke key); IOp OP_CHECKSIGADD]) rest
     end) ++ [push_int (Z.of_N k); IOp OP_NUMEQUAL]
  end.

Definition encode (ke : keyenv) (m : ms) : bytes := serialize (enc ke m).
